/-
The bytes `reformatValue` produces for a raw value are the rendering (Spec/Render.lean) of the value's
tokens: a tokenizer `tokValue` with the same shape as `reformatValue`, and the proof by induction on the fuel.
Core Lean only.
-/
import JsonV.Lemmas.EncValue
import JsonV.Lemmas.GlueEncQuote
import JsonV.Lemmas.GlueNameKey
import JsonV.Lemmas.QuoteWf
import JsonV.Lemmas.WireValue

namespace JsonV.Lemmas.EncRaw
open JsonV JsonV.Model JsonV.Model.Encoder JsonV.Spec JsonV.Spec.PDA JsonV.Spec.Render JsonV.Spec.Names
open JsonV.Lemmas.StateRefine JsonV.Lemmas.StateRun JsonV.Lemmas.EncRender JsonV.Lemmas.EncIff JsonV.Lemmas.EncValue

def litNull : Bytes := [0x6e, 0x75, 0x6c, 0x6c]
def litFalse : Bytes := [0x66, 0x61, 0x6c, 0x73, 0x65]
def litTrue : Bytes := [0x74, 0x72, 0x75, 0x65]

mutual
/-- The tokens of the JSON value at the start of `src` (and the rest), scanned as `reformatValue` scans. -/
def tokValue (o : Opts) : Nat → Bytes → Option (List Tok × Bytes)
  | 0, _ => none
  | fuel + 1, src =>
    match src with
    | [] => none
    | c :: _ =>
      let k := normKind c
      if k = 0x6e then match scanLiteral src litNull with | .ok r => some ([.null], r) | .error _ => none
      else if k = 0x66 then match scanLiteral src litFalse with | .ok r => some ([.fals], r) | .error _ => none
      else if k = 0x74 then match scanLiteral src litTrue with | .ok r => some ([.tru], r) | .error _ => none
      else if k = 0x22 then match reformatString o src with | .ok (_, name, r) => some ([.str name], r) | .error _ => none
      else if k = 0x30 then match scanNumber src with | .ok (n, r) => some ([.num n], r) | .error _ => none
      else if k = 0x7b then
        match skipWS (src.drop 1) with
        | [] => none
        | c1 :: r1 =>
          if c1 = 0x7d then some ([.beginObj, .endObj], r1)
          else match tokObj o fuel (c1 :: r1) with
            | some (ts, r) => some (.beginObj :: ts, r)
            | none => none
      else if k = 0x5b then
        match skipWS (src.drop 1) with
        | [] => none
        | c1 :: r1 =>
          if c1 = 0x5d then some ([.beginArr, .endArr], r1)
          else match tokArr o fuel (c1 :: r1) with
            | some (ts, r) => some (.beginArr :: ts, r)
            | none => none
      else none

/-- Members up to and including the closing `}`. -/
def tokObj (o : Opts) : Nat → Bytes → Option (List Tok × Bytes)
  | 0, _ => none
  | fuel + 1, src =>
    match skipWS src with
    | [] => none
    | s0 =>
      match reformatString o s0 with
      | .error _ => none
      | .ok (_, name, s1) =>
        match skipWS s1 with
        | [] => none
        | c2 :: s2 =>
          if c2 ≠ 0x3a then none
          else match skipWS s2 with
            | [] => none
            | s3 =>
              match tokValue o fuel s3 with
              | none => none
              | some (tv, s4) =>
                match skipWS s4 with
                | [] => none
                | c5 :: s5 =>
                  if c5 = 0x2c then
                    match tokObj o fuel s5 with
                    | some (ts, r) => some (.str name :: tv ++ ts, r)
                    | none => none
                  else if c5 = 0x7d then some (.str name :: tv ++ [.endObj], s5)
                  else none

/-- Elements up to and including the closing `]`. -/
def tokArr (o : Opts) : Nat → Bytes → Option (List Tok × Bytes)
  | 0, _ => none
  | fuel + 1, src =>
    match skipWS src with
    | [] => none
    | s0 =>
      match tokValue o fuel s0 with
      | none => none
      | some (tv, s1) =>
        match skipWS s1 with
        | [] => none
        | c2 :: s2 =>
          if c2 = 0x2c then
            match tokArr o fuel s2 with
            | some (ts, r) => some (tv ++ ts, r)
            | none => none
          else if c2 = 0x5d then some (tv ++ [.endArr], s2)
          else none
end

/-- The tokens of a raw value passed to `WriteValue`. -/
def valueToks (o : Opts) (v : Bytes) : List Tok :=
  match tokValue o (3 * v.length + 4) (skipWS v) with
  | some (ts, _) => ts
  | none => []

/-! ### Rendering facts -/

/-- Newline after a token that returns to the top level. -/
def NL (fs : Frames) : Bytes := if fs.length = 1 then [0x0a] else []

theorem renderFrom_cons {o : Opts} {fs fs' : Frames} {t : Tok} (ts : List Tok)
    (h : step o.maxDepth fs (kindOf t) = some fs') :
    renderFrom o fs (t :: ts) = sepBytes o fs (kindOf t) ++ tokText o t ++ NL fs' ++ renderFrom o fs' ts := by
  simp only [renderFrom, h, NL]

/-- multiline indentation to level `k`. -/
def ind (o : Opts) (k : Nat) : Bytes := if o.multiline then indentBytes o k else []
def spColon (o : Opts) : Bytes := if o.spaceAfterColon then [0x20] else []
def commaPart (o : Opts) (n : Nat) : Bytes := if n > 0 then 0x2c :: (if o.spaceAfterComma then [0x20] else []) else []

theorem ind_eq (o : Opts) (dst : Bytes) (k : Nat) :
    (if o.multiline then appendIndent o dst k else dst) = dst ++ ind o k := by
  unfold ind; split <;> simp [JsonV.Lemmas.EncRender.appendIndent_eq]


theorem ind_zero (o : Opts) : ind o 0 = [] := by unfold ind indentBytes; split <;> simp

theorem sep_indep (o : Opts) (fs : Frames) (k k' : Kind) (h : k.closing = k'.closing) :
    sepBytes o fs k = sepBytes o fs k' := by
  unfold sepBytes delim indent
  cases fs with
  | nil => rfl
  | cons f r => cases r with
    | nil => rfl
    | cons g r => simp only [h]

theorem sep_name (o : Opts) (n : Nat) (g : Frame) (r : List Frame) (hn : n % 2 = 0) :
    sepBytes o (.obj n :: g :: r) .str = commaPart o n ++ ind o (r.length + 2) := by
  have h1 : (Frame.obj n).needValue = false := by simp [Frame.needValue, hn]
  simp only [sepBytes, delim, indent, h1, Kind.closing, Frame.count, commaPart, ind, List.length_cons]
  by_cases h0 : n > 0 <;> simp [h0]

theorem sep_member_value (o : Opts) (n : Nat) (g : Frame) (r : List Frame) (hn : n % 2 = 1) (k : Kind) :
    sepBytes o (.obj n :: g :: r) k = 0x3a :: spColon o := by
  have h1 : (Frame.obj n).needValue = true := by simp [Frame.needValue, hn]
  simp only [sepBytes, delim, h1, spColon, if_true]

theorem sep_close_obj (o : Opts) (n : Nat) (g : Frame) (r : List Frame) (hn : n % 2 = 0) :
    sepBytes o (.obj n :: g :: r) .endObj = ind o (if n = 0 then 0 else r.length + 1) := by
  have h1 : (Frame.obj n).needValue = false := by simp [Frame.needValue, hn]
  simp only [sepBytes, delim, indent, h1, Kind.closing, Frame.count, ind, List.length_cons]
  simp
  rfl

theorem sep_elem (o : Opts) (n : Nat) (g : Frame) (r : List Frame) (k : Kind) (hk : k.closing = false) :
    sepBytes o (.arr n :: g :: r) k = commaPart o n ++ ind o (r.length + 2) := by
  simp only [sepBytes, delim, indent, Frame.needValue, hk, Frame.count, commaPart, ind, List.length_cons]
  by_cases h0 : n > 0 <;> simp [h0]

theorem sep_close_arr (o : Opts) (n : Nat) (g : Frame) (r : List Frame) :
    sepBytes o (.arr n :: g :: r) .endArr = ind o (if n = 0 then 0 else r.length + 1) := by
  simp only [sepBytes, delim, indent, Frame.needValue, Kind.closing, Frame.count, ind, List.length_cons]
  simp
  rfl

/-! ### The induction -/

/-! ### Token-by-token acceptability (`Good`): every string passes the UTF-8 check and every name is fresh -/

/-- Along the tokens (frames and names advancing as `track` does): each token passes the UTF-8 check and, unless
duplicates are allowed, each member name is fresh. Together with `trackRun … = some _` this is acceptance by `WriteToken`. -/
def Good (o : Opts) : Frames → List (List Bytes) → List Tok → Prop
  | _, _, [] => True
  | fs, ns, t :: ts =>
    badUTF8 o t = false ∧ (o.allowDup = false → Fresh o fs ns t) ∧
      match step o.maxDepth fs (kindOf t) with
      | some fs' => Good o fs' (namesStep o fs ns t) ts
      | none => True

theorem good_cons {o : Opts} {fs fs' : Frames} {ns : List (List Bytes)} {t : Tok} {ts : List Tok}
    (hs : step o.maxDepth fs (kindOf t) = some fs') (hb : badUTF8 o t = false)
    (hf : o.allowDup = false → Fresh o fs ns t) (hg : Good o fs' (namesStep o fs ns t) ts) :
    Good o fs ns (t :: ts) := by
  simp only [Good, hs]; exact ⟨hb, hf, hg⟩

theorem good_append (o : Opts) (a b : List Tok) : ∀ (fs fs' : Frames) (ns ns' : List (List Bytes)),
    Good o fs ns a → trackRun o fs ns a = some (fs', ns') → Good o fs' ns' b → Good o fs ns (a ++ b) := by
  induction a with
  | nil => intro fs fs' ns ns' _ htr hb; simp [trackRun] at htr; obtain ⟨h1, h2⟩ := htr; subst h1 h2; exact hb
  | cons t a ih =>
    intro fs fs' ns ns' hg htr hb
    simp only [trackRun] at htr
    cases hs : step o.maxDepth fs (kindOf t) with
    | none => rw [hs] at htr; cases htr
    | some fs1 =>
      rw [hs] at htr
      simp only [Good, hs] at hg
      exact good_cons hs hg.1 hg.2.1 (ih _ _ _ _ hg.2.2 htr hb)

theorem fresh_nonstr (o : Opts) (fs : Frames) (ns : List (List Bytes)) (t : Tok) (h : ∀ s, t ≠ .str s) :
    Fresh o fs ns t := fun s hs => absurd hs (h s)

theorem good_single {o : Opts} {fs : Frames} {ns : List (List Bytes)} {t : Tok} (hb : badUTF8 o t = false)
    (hf : o.allowDup = false → Fresh o fs ns t) : Good o fs ns [t] := by
  simp only [Good]; refine ⟨hb, hf, ?_⟩; split <;> trivial

theorem good_open_obj (o : Opts) (f : Frame) (r0 : List Frame) (ns : List (List Bytes)) (ts : List Tok)
    (hf : f.needName = false) (hl : r0.length < o.maxDepth)
    (hg : Good o (.obj 0 :: f.bump :: r0) ([] :: ns) ts) : Good o (f :: r0) ns (.beginObj :: ts) :=
  good_cons (fs' := .obj 0 :: f.bump :: r0) (by simp [step, kindOf, hf, hl]) rfl
    (fun _ => fresh_nonstr _ _ _ _ (by intro s h; cases h)) hg

theorem good_open_arr (o : Opts) (f : Frame) (r0 : List Frame) (ns : List (List Bytes)) (ts : List Tok)
    (hf : f.needName = false) (hl : r0.length < o.maxDepth)
    (hg : Good o (.arr 0 :: f.bump :: r0) ns ts) : Good o (f :: r0) ns (.beginArr :: ts) :=
  good_cons (fs' := .arr 0 :: f.bump :: r0) (by simp [step, kindOf, hf, hl]) rfl
    (fun _ => fresh_nonstr _ _ _ _ (by intro s h; cases h)) hg

theorem good_close_obj (o : Opts) (n : Nat) (g : Frame) (r : List Frame) (top : List Bytes) (ns : List (List Bytes))
    (ts : List Tok) (hn : n % 2 = 0) (hg : Good o (g :: r) ns ts) :
    Good o (.obj n :: g :: r) (top :: ns) (.endObj :: ts) :=
  good_cons (fs' := g :: r) (by simp [step, kindOf, hn]) rfl
    (fun _ => fresh_nonstr _ _ _ _ (by intro s h; cases h)) hg

theorem good_close_arr (o : Opts) (n : Nat) (g : Frame) (r : List Frame) (ns : List (List Bytes))
    (ts : List Tok) (hg : Good o (g :: r) ns ts) : Good o (.arr n :: g :: r) ns (.endArr :: ts) :=
  good_cons (fs' := g :: r) (by simp [step, kindOf]) rfl
    (fun _ => fresh_nonstr _ _ _ _ (by intro s h; cases h)) hg

theorem good_name (o : Opts) (n : Nat) (g : Frame) (r : List Frame) (top : List Bytes) (ns : List (List Bytes))
    (name : Bytes) (ts : List Tok) (hn : n % 2 = 0) (hb : badUTF8 o (.str name) = false)
    (hf : o.allowDup = false → nameOf o name ∉ top)
    (hg : Good o (.obj (n + 1) :: g :: r) ((top ++ [nameOf o name]) :: ns) ts) :
    Good o (.obj n :: g :: r) (top :: ns) (.str name :: ts) := by
  refine good_cons (fs' := .obj (n + 1) :: g :: r) (by simp [step, kindOf, Frame.bump]) hb ?_ ?_
  · intro hd s hs _; cases hs; exact hf hd
  · simpa [namesStep, isNamePos, Frame.needName, hn] using hg

theorem good_scalar (o : Opts) (f : Frame) (r0 : List Frame) (ns : List (List Bytes)) (t : Tok)
    (hf : f.needName = false) (hb : badUTF8 o t = false) : Good o (f :: r0) ns [t] :=
  good_single hb (fun _ s _ hp => by simp [isNamePos, hf] at hp)

/-- The unescaped value of an accepted string literal is well-formed UTF-8; as a token it passes the UTF-8
check and is read back unchanged from the literal the encoder emits for it. -/
theorem reformatString_name {o : Opts} {src q name r : Bytes} (h : reformatString o src = .ok (q, name, r)) :
    badUTF8 o (.str name) = false ∧ nameOf o name = name := by
  unfold reformatString at h
  split at h
  rename_i n fl e hvs
  split at h
  · rename_i he
    subst he
    simp only [Except.ok.injEq, Prod.mk.injEq] at h
    have hname : name = Validate.unescapedName (src.take n) fl := h.2.1.symm
    have hj := (JsonV.Lemmas.WireValue.valueString_sound (vopts o) src n fl hvs).2
    have ht := JsonV.Lemmas.WireValue.valueString_take (vopts o) src n fl hvs
    have hfl : fl = (Validate.valueString (vopts o) (src.take n)).2.1 := by rw [ht]
    have hu := JsonV.Lemmas.GlueNameKey.unescapedName_valueString (vopts o) (src.take n) hj
    rw [← hfl, ← hname, JsonV.Lemmas.GlueQuote.unquote_eq] at hu
    have hwf : JsonV.Spec.StringSpec.WellFormed name := by
      rw [hu]; exact JsonV.Lemmas.QuoteWf.appendUnquote_wellFormed _
    refine ⟨?_, JsonV.Lemmas.GlueEncQuote.unquote_appendQuote_wellFormed o name hwf⟩
    rw [JsonV.Lemmas.EncUtf8.badUTF8_str_iff]
    right
    exact (JsonV.Lemmas.QuoteMeaning.validAux_iff name.length name (Nat.le_refl _)).mpr hwf
  · cases h

def PV (o : Opts) (fuel : Nat) : Prop :=
  ∀ (pre dst src dst' rest : Bytes) (f : Frame) (r0 : List Frame),
    f.needName = false → (f :: r0).length ≤ o.maxDepth + 1 →
    dst = pre ++ sepBytes o (f :: r0) .lit →
    reformatValue o fuel dst src (f :: r0).length = .ok (dst', rest) →
    ∃ toks, tokValue o fuel src = some (toks, rest) ∧ (∀ more,
      pre ++ renderFrom o (f :: r0) (toks ++ more) = dst' ++ NL (f.bump :: r0) ++ renderFrom o (f.bump :: r0) more) ∧
      (∀ ns, trackRun o (f :: r0) ns toks = some (f.bump :: r0, ns)) ∧ ∀ ns, Good o (f :: r0) ns toks

def PO (o : Opts) (fuel : Nat) : Prop :=
  ∀ (pre dst src dst' rest : Bytes) (n : Nat) (g : Frame) (r : List Frame) (names : List Bytes),
    n % 2 = 0 → (g :: r).length ≤ o.maxDepth →
    dst = pre ++ commaPart o n →
    objectLoop o fuel dst src (r.length + 2) names = .ok (dst', rest) →
    ∃ toks, tokObj o fuel src = some (toks, rest) ∧ (∀ more,
      pre ++ renderFrom o (.obj n :: g :: r) (toks ++ more) = dst' ++ NL (g :: r) ++ renderFrom o (g :: r) more) ∧
      (∀ top ns, trackRun o (.obj n :: g :: r) (top :: ns) toks = some (g :: r, ns)) ∧
      ∀ top ns, (o.allowDup = false → top = names) → Good o (.obj n :: g :: r) (top :: ns) toks

def PA (o : Opts) (fuel : Nat) : Prop :=
  ∀ (pre dst src dst' rest : Bytes) (n : Nat) (g : Frame) (r : List Frame),
    (g :: r).length ≤ o.maxDepth →
    dst = pre ++ commaPart o n →
    arrayLoop o fuel dst src (r.length + 2) = .ok (dst', rest) →
    ∃ toks, tokArr o fuel src = some (toks, rest) ∧ (∀ more,
      pre ++ renderFrom o (.arr n :: g :: r) (toks ++ more) = dst' ++ NL (g :: r) ++ renderFrom o (g :: r) more) ∧
      (∀ ns, trackRun o (.arr n :: g :: r) ns toks = some (g :: r, ns)) ∧ ∀ ns, Good o (.arr n :: g :: r) ns toks

/-! ### `trackRun` facts -/

theorem trackRun_append (o : Opts) (a b : List Tok) : ∀ (fs : Frames) (ns : List (List Bytes)),
    trackRun o fs ns (a ++ b) = (trackRun o fs ns a).bind (fun p => trackRun o p.1 p.2 b) := by
  induction a with
  | nil => intro fs ns; simp [trackRun]
  | cons t a ih =>
    intro fs ns
    simp only [List.cons_append, trackRun]
    cases step o.maxDepth fs (kindOf t) with
    | none => rfl
    | some fs' => exact ih fs' _

theorem tr_scalar (o : Opts) (f : Frame) (r0 : List Frame) (ns : List (List Bytes)) (t : Tok)
    (hf : f.needName = false) (hk : kindOf t = .lit ∨ kindOf t = .str ∨ kindOf t = .num) :
    trackRun o (f :: r0) ns [t] = some (f.bump :: r0, ns) := by
  have hs : step o.maxDepth (f :: r0) (kindOf t) = some (f.bump :: r0) := by
    rcases hk with h | h | h <;> rw [h] <;> simp [step, hf]
  have hn : namesStep o (f :: r0) ns t = ns := by
    cases t <;> simp [kindOf] at hk <;> simp [namesStep, isNamePos, hf]
  simp only [trackRun, hs, hn]

theorem tr_open_obj (o : Opts) (f : Frame) (r0 : List Frame) (ns : List (List Bytes)) (ts : List Tok)
    (hf : f.needName = false) (hl : r0.length < o.maxDepth) :
    trackRun o (f :: r0) ns (.beginObj :: ts) = trackRun o (.obj 0 :: f.bump :: r0) ([] :: ns) ts := by
  simp [trackRun, step, kindOf, hf, hl, namesStep]

theorem tr_open_arr (o : Opts) (f : Frame) (r0 : List Frame) (ns : List (List Bytes)) (ts : List Tok)
    (hf : f.needName = false) (hl : r0.length < o.maxDepth) :
    trackRun o (f :: r0) ns (.beginArr :: ts) = trackRun o (.arr 0 :: f.bump :: r0) ns ts := by
  simp [trackRun, step, kindOf, hf, hl, namesStep]

theorem tr_close_obj (o : Opts) (n : Nat) (g : Frame) (r : List Frame) (top : List Bytes) (ns : List (List Bytes))
    (ts : List Tok) (hn : n % 2 = 0) :
    trackRun o (.obj n :: g :: r) (top :: ns) (.endObj :: ts) = trackRun o (g :: r) ns ts := by
  simp [trackRun, step, kindOf, hn, namesStep]

theorem tr_close_arr (o : Opts) (n : Nat) (g : Frame) (r : List Frame) (ns : List (List Bytes)) (ts : List Tok) :
    trackRun o (.arr n :: g :: r) ns (.endArr :: ts) = trackRun o (g :: r) ns ts := by
  simp [trackRun, step, kindOf, namesStep]

theorem tr_name (o : Opts) (n : Nat) (g : Frame) (r : List Frame) (top : List Bytes) (ns : List (List Bytes))
    (name : Bytes) (ts : List Tok) (hn : n % 2 = 0) :
    trackRun o (.obj n :: g :: r) (top :: ns) (.str name :: ts) =
      trackRun o (.obj (n + 1) :: g :: r) ((top ++ [nameOf o name]) :: ns) ts := by
  simp [trackRun, step, kindOf, namesStep, isNamePos, Frame.needName, hn, Frame.bump]

theorem step_value {max : Nat} {f : Frame} {r0 : List Frame} (k : Kind) (hf : f.needName = false)
    (hk : k = .lit ∨ k = .str ∨ k = .num) : step max (f :: r0) k = some (f.bump :: r0) := by
  rcases hk with h | h | h <;> subst h <;> simp [step, hf]

/-- A scalar token as a whole value. -/
theorem scalar_render (o : Opts) (pre dst : Bytes) (f : Frame) (r0 : List Frame) (t : Tok) (more : List Tok)
    (hf : f.needName = false) (hk : kindOf t = .lit ∨ kindOf t = .str ∨ kindOf t = .num)
    (hd : dst = pre ++ sepBytes o (f :: r0) .lit) :
    pre ++ renderFrom o (f :: r0) ([t] ++ more) =
      (dst ++ tokText o t) ++ NL (f.bump :: r0) ++ renderFrom o (f.bump :: r0) more := by
  have hs := step_value (max := o.maxDepth) (r0 := r0) (kindOf t) hf hk
  have hsep : sepBytes o (f :: r0) (kindOf t) = sepBytes o (f :: r0) .lit := by
    apply sep_indep; rcases hk with h | h | h <;> rw [h] <;> rfl
  simp only [List.singleton_append, renderFrom_cons more hs, hsep, hd, List.append_assoc]

theorem reformatString_out {o : Opts} {src q name r : Bytes} (h : reformatString o src = .ok (q, name, r)) :
    q = (appendQuote o name).1 := by
  unfold reformatString at h
  split at h
  split at h
  · simp only [Except.ok.injEq, Prod.mk.injEq] at h
    obtain ⟨h1, h2, _⟩ := h
    rw [← h1, ← h2]
  · cases h

theorem NL_deep (f g : Frame) (r : List Frame) : NL (f :: g :: r) = [] := by simp [NL]

theorem open_obj_render (o : Opts) (f : Frame) (r0 : List Frame) (ts : List Tok) (hf : f.needName = false)
    (hl : r0.length < o.maxDepth) :
    renderFrom o (f :: r0) (.beginObj :: ts) =
      sepBytes o (f :: r0) .lit ++ [0x7b] ++ renderFrom o (.obj 0 :: f.bump :: r0) ts := by
  have hs : step o.maxDepth (f :: r0) (kindOf .beginObj) = some (.obj 0 :: f.bump :: r0) := by
    simp [step, kindOf, hf, hl]
  rw [renderFrom_cons ts hs, NL_deep]
  simp [kindOf, tokText, sep_indep o (f :: r0) .beginObj .lit rfl]

theorem open_arr_render (o : Opts) (f : Frame) (r0 : List Frame) (ts : List Tok) (hf : f.needName = false)
    (hl : r0.length < o.maxDepth) :
    renderFrom o (f :: r0) (.beginArr :: ts) =
      sepBytes o (f :: r0) .lit ++ [0x5b] ++ renderFrom o (.arr 0 :: f.bump :: r0) ts := by
  have hs : step o.maxDepth (f :: r0) (kindOf .beginArr) = some (.arr 0 :: f.bump :: r0) := by
    simp [step, kindOf, hf, hl]
  rw [renderFrom_cons ts hs, NL_deep]
  simp [kindOf, tokText, sep_indep o (f :: r0) .beginArr .lit rfl]

theorem close_obj_render (o : Opts) (n : Nat) (g : Frame) (r : List Frame) (ts : List Tok) (hn : n % 2 = 0) :
    renderFrom o (.obj n :: g :: r) (.endObj :: ts) =
      ind o (if n = 0 then 0 else r.length + 1) ++ [0x7d] ++ NL (g :: r) ++ renderFrom o (g :: r) ts := by
  have hs : step o.maxDepth (.obj n :: g :: r) (kindOf .endObj) = some (g :: r) := by
    simp [step, kindOf, hn]
  rw [renderFrom_cons ts hs]
  simp [kindOf, tokText, sep_close_obj o n g r hn]

theorem close_arr_render (o : Opts) (n : Nat) (g : Frame) (r : List Frame) (ts : List Tok) :
    renderFrom o (.arr n :: g :: r) (.endArr :: ts) =
      ind o (if n = 0 then 0 else r.length + 1) ++ [0x5d] ++ NL (g :: r) ++ renderFrom o (g :: r) ts := by
  have hs : step o.maxDepth (.arr n :: g :: r) (kindOf .endArr) = some (g :: r) := by
    simp [step, kindOf]
  rw [renderFrom_cons ts hs]
  simp [kindOf, tokText, sep_close_arr o n g r]

theorem pv_step (o : Opts) (fuel : Nat) (hO : PO o fuel) (hA : PA o fuel) : PV o (fuel + 1) := by
  intro pre dst src dst' rest f r0 hf hlen hd h
  simp only [reformatValue] at h
  cases src with
  | nil => simp at h
  | cons c s =>
    simp only at h
    by_cases k1 : normKind c = 0x6e
    · simp only [k1, if_true] at h
      cases hl : scanLiteral (c :: s) [0x6e, 0x75, 0x6c, 0x6c] with
      | error x => rw [hl] at h; simp [Except.map] at h
      | ok r =>
        rw [hl] at h
        simp only [Except.map, Except.ok.injEq, Prod.mk.injEq] at h
        obtain ⟨h1, h2⟩ := h
        subst h1 h2
        refine ⟨[.null], ?_, fun more => scalar_render o pre dst f r0 .null more hf (Or.inl rfl) hd,
          fun ns => tr_scalar o f r0 ns .null hf (Or.inl rfl), fun ns => good_scalar o f r0 ns .null hf rfl⟩
        simp only [tokValue, k1, if_true, litNull, hl]
    rw [if_neg k1] at h
    by_cases k2 : normKind c = 0x66
    · simp only [k2, if_true] at h
      cases hl : scanLiteral (c :: s) [0x66, 0x61, 0x6c, 0x73, 0x65] with
      | error x => rw [hl] at h; simp [Except.map] at h
      | ok r =>
        rw [hl] at h
        simp only [Except.map, Except.ok.injEq, Prod.mk.injEq] at h
        obtain ⟨h1, h2⟩ := h
        subst h1 h2
        refine ⟨[.fals], ?_, fun more => scalar_render o pre dst f r0 .fals more hf (Or.inl rfl) hd,
          fun ns => tr_scalar o f r0 ns .fals hf (Or.inl rfl), fun ns => good_scalar o f r0 ns .fals hf rfl⟩
        simp [tokValue, k2, litFalse, hl]
    rw [if_neg k2] at h
    by_cases k3 : normKind c = 0x74
    · simp only [k3, if_true] at h
      cases hl : scanLiteral (c :: s) [0x74, 0x72, 0x75, 0x65] with
      | error x => rw [hl] at h; simp [Except.map] at h
      | ok r =>
        rw [hl] at h
        simp only [Except.map, Except.ok.injEq, Prod.mk.injEq] at h
        obtain ⟨h1, h2⟩ := h
        subst h1 h2
        refine ⟨[.tru], ?_, fun more => scalar_render o pre dst f r0 .tru more hf (Or.inl rfl) hd,
          fun ns => tr_scalar o f r0 ns .tru hf (Or.inl rfl), fun ns => good_scalar o f r0 ns .tru hf rfl⟩
        simp [tokValue, k3, litTrue, hl]
    rw [if_neg k3] at h
    by_cases k4 : normKind c = 0x22
    · simp only [k4, if_true] at h
      cases hl : reformatString o (c :: s) with
      | error x => rw [hl] at h; simp [Except.map] at h
      | ok p =>
        obtain ⟨q, name, r⟩ := p
        rw [hl] at h
        simp only [Except.map, Except.ok.injEq, Prod.mk.injEq] at h
        obtain ⟨h1, h2⟩ := h
        subst h1 h2
        refine ⟨[.str name], ?_, fun more => ?_, fun ns => tr_scalar o f r0 ns (.str name) hf (Or.inr (Or.inl rfl)),
          fun ns => good_scalar o f r0 ns (.str name) hf (reformatString_name hl).1⟩
        · simp [tokValue, k4, hl]
        · have := scalar_render o pre dst f r0 (.str name) more hf (Or.inr (Or.inl rfl)) hd
          rw [this, reformatString_out hl]; rfl
    rw [if_neg k4] at h
    by_cases k5 : normKind c = 0x30
    · simp only [k5, if_true] at h
      cases hl : scanNumber (c :: s) with
      | error x => rw [hl] at h; simp [Except.map] at h
      | ok p =>
        obtain ⟨nt, r⟩ := p
        rw [hl] at h
        simp only [Except.map, Except.ok.injEq, Prod.mk.injEq] at h
        obtain ⟨h1, h2⟩ := h
        subst h1 h2
        refine ⟨[.num nt], ?_, fun more => scalar_render o pre dst f r0 (.num nt) more hf (Or.inr (Or.inr rfl)) hd,
          fun ns => tr_scalar o f r0 ns (.num nt) hf (Or.inr (Or.inr rfl)), fun ns => good_scalar o f r0 ns (.num nt) hf rfl⟩
        simp [tokValue, k5, hl]
    rw [if_neg k5] at h
    have hbump : f.bump.needName = f.bump.needName := rfl
    by_cases k6 : normKind c = 0x7b
    · simp only [k6, if_true] at h
      by_cases hdp : (f :: r0).length = o.maxDepth + 1
      · rw [if_pos hdp] at h; cases h
      rw [if_neg hdp] at h
      have hl : r0.length < o.maxDepth := by simp at hlen hdp; omega
      cases hw : skipWS ((c :: s).drop 1) with
      | nil => rw [hw] at h; cases h
      | cons c1 r1 =>
        rw [hw] at h
        simp only at h
        have hw' : skipWS s = c1 :: r1 := by simpa using hw
        by_cases hc : c1 = 0x7d
        · rw [if_pos hc] at h
          simp only [Except.ok.injEq, Prod.mk.injEq] at h
          obtain ⟨h1, h2⟩ := h
          subst h1 h2
          refine ⟨[.beginObj, .endObj], ?_, fun more => ?_, fun ns => by
            rw [tr_open_obj o f r0 ns _ hf hl, tr_close_obj o 0 f.bump r0 [] ns [] rfl]; rfl,
            fun ns => good_open_obj o f r0 ns _ hf hl (good_close_obj o 0 f.bump r0 [] ns [] rfl trivial)⟩
          · simp [tokValue, k6, hw', hc]
          · simp only [List.cons_append, List.nil_append]
            rw [open_obj_render o f r0 _ hf hl, close_obj_render o 0 f.bump r0 more rfl, hd]
            simp [ind_zero, List.append_assoc]
        · rw [if_neg hc] at h
          have hdep : (f :: r0).length + 1 = r0.length + 2 := by simp
          rw [hdep] at h
          obtain ⟨toks, ht, hr, htr, hgd⟩ := hO (pre ++ sepBytes o (f :: r0) .lit ++ [0x7b]) (dst ++ [0x7b]) (c1 :: r1) dst' rest
            0 f.bump r0 [] rfl (by simp; omega) (by simp [commaPart, hd]) h
          refine ⟨.beginObj :: toks, ?_, fun more => ?_, fun ns => by
            rw [tr_open_obj o f r0 ns _ hf hl]; exact htr [] ns,
            fun ns => good_open_obj o f r0 ns _ hf hl (hgd [] ns (fun _ => rfl))⟩
          · simp [tokValue, k6, hw', hc, ht]
          · simp only [List.cons_append]
            rw [open_obj_render o f r0 _ hf hl, ← hr more]
            simp [List.append_assoc]
    rw [if_neg k6] at h
    by_cases k7 : normKind c = 0x5b
    · simp only [k7, if_true] at h
      by_cases hdp : (f :: r0).length = o.maxDepth + 1
      · rw [if_pos hdp] at h; cases h
      rw [if_neg hdp] at h
      have hl : r0.length < o.maxDepth := by simp at hlen hdp; omega
      cases hw : skipWS ((c :: s).drop 1) with
      | nil => rw [hw] at h; cases h
      | cons c1 r1 =>
        rw [hw] at h
        simp only at h
        have hw' : skipWS s = c1 :: r1 := by simpa using hw
        by_cases hc : c1 = 0x5d
        · rw [if_pos hc] at h
          simp only [Except.ok.injEq, Prod.mk.injEq] at h
          obtain ⟨h1, h2⟩ := h
          subst h1 h2
          refine ⟨[.beginArr, .endArr], ?_, fun more => ?_, fun ns => by
            rw [tr_open_arr o f r0 ns _ hf hl, tr_close_arr o 0 f.bump r0 ns []]; rfl,
            fun ns => good_open_arr o f r0 ns _ hf hl (good_close_arr o 0 f.bump r0 ns [] trivial)⟩
          · simp [tokValue, k7, hw', hc]
          · simp only [List.cons_append, List.nil_append]
            rw [open_arr_render o f r0 _ hf hl, close_arr_render o 0 f.bump r0 more, hd]
            simp [ind_zero, List.append_assoc]
        · rw [if_neg hc] at h
          have hdep : (f :: r0).length + 1 = r0.length + 2 := by simp
          rw [hdep] at h
          obtain ⟨toks, ht, hr, htr, hgd⟩ := hA (pre ++ sepBytes o (f :: r0) .lit ++ [0x5b]) (dst ++ [0x5b]) (c1 :: r1) dst' rest
            0 f.bump r0 (by simp; omega) (by simp [commaPart, hd]) h
          refine ⟨.beginArr :: toks, ?_, fun more => ?_, fun ns => by
            rw [tr_open_arr o f r0 ns _ hf hl]; exact htr ns,
            fun ns => good_open_arr o f r0 ns _ hf hl (hgd ns)⟩
          · simp [tokValue, k7, hw', hc, ht]
          · simp only [List.cons_append]
            rw [open_arr_render o f r0 _ hf hl, ← hr more]
            simp [List.append_assoc]
    rw [if_neg k7] at h
    cases h


theorem commaPart_succ (o : Opts) (n : Nat) :
    commaPart o (n + 1) = 0x2c :: (if o.spaceAfterComma then [0x20] else []) := by simp [commaPart]

theorem comma_eq (o : Opts) (dst : Bytes) (n : Nat) :
    (if o.spaceAfterComma = true then dst ++ [0x2c] ++ [0x20] else dst ++ [0x2c]) = dst ++ commaPart o (n + 1) := by
  rw [commaPart_succ]; split <;> simp

theorem pa_step (o : Opts) (fuel : Nat) (hV : PV o fuel) (hA : PA o fuel) : PA o (fuel + 1) := by
  intro pre dst src dst' rest n g r hlen hd h
  simp only [arrayLoop, ind_eq] at h
  cases hs : skipWS src with
  | nil => rw [hs] at h; cases h
  | cons c0 s0 =>
    rw [hs] at h
    simp only at h
    have hfr : r.length + 2 = (Frame.arr n :: g :: r).length := by simp
    rw [hfr] at h
    cases hv : reformatValue o fuel (dst ++ ind o (Frame.arr n :: g :: r).length) (c0 :: s0) (Frame.arr n :: g :: r).length with
    | error x => rw [hv] at h; cases h
    | ok p =>
      obtain ⟨dst2, s1⟩ := p
      rw [hv] at h
      simp only at h
      obtain ⟨tv, htv, hrv, htrv, hgv⟩ := hV pre _ (c0 :: s0) dst2 s1 (.arr n) (g :: r) rfl
        (by simp at hlen ⊢; omega)
        (by rw [hd, sep_elem o n g r .lit rfl, ← hfr, List.append_assoc]) hv
      cases hw : skipWS s1 with
      | nil => rw [hw] at h; cases h
      | cons c2 s2 =>
        rw [hw] at h
        simp only at h
        by_cases hc : c2 = 0x2c
        · rw [if_pos hc, comma_eq o dst2 n, ← hfr] at h
          obtain ⟨ts, hts, hrs, htrs, hgs⟩ := hA dst2 _ s2 dst' rest (n + 1) g r hlen rfl h
          refine ⟨tv ++ ts, ?_, fun more => ?_, fun ns => by
            rw [trackRun_append, htrv ns]; exact htrs ns,
            fun ns => good_append o tv ts _ _ ns ns (hgv ns) (htrv ns) (hgs ns)⟩
          · simp [tokArr, hs, htv, hw, hc, hts]
          · have hb : (Frame.arr n).bump = Frame.arr (n + 1) := rfl
            rw [List.append_assoc, hrv (ts ++ more), hb, NL_deep, List.append_nil, hrs more]
        · rw [if_neg hc] at h
          by_cases hc2 : c2 = 0x5d
          · rw [if_pos hc2] at h
            simp only [Except.ok.injEq, Prod.mk.injEq] at h
            obtain ⟨h1, h2⟩ := h
            subst h1 h2
            refine ⟨tv ++ [.endArr], ?_, fun more => ?_, fun ns => by
              rw [trackRun_append, htrv ns]
              exact (tr_close_arr o (n + 1) g r ns []).trans rfl,
              fun ns => good_append o tv [.endArr] _ _ ns ns (hgv ns) (htrv ns)
                (good_close_arr o (n + 1) g r ns [] trivial)⟩
            · simp [tokArr, hs, htv, hw, hc2]
            · have hb : (Frame.arr n).bump = Frame.arr (n + 1) := rfl
              rw [List.append_assoc, List.singleton_append, hrv (Tok.endArr :: more), hb, NL_deep, List.append_nil,
                close_arr_render]
              simp [List.append_assoc]
          · rw [if_neg hc2] at h; cases h


theorem name_render (o : Opts) (n : Nat) (g : Frame) (r : List Frame) (name : Bytes) (ts : List Tok)
    (hn : n % 2 = 0) :
    renderFrom o (.obj n :: g :: r) (.str name :: ts) =
      commaPart o n ++ ind o (r.length + 2) ++ (appendQuote o name).1 ++ renderFrom o (.obj (n + 1) :: g :: r) ts := by
  have hs : step o.maxDepth (.obj n :: g :: r) (kindOf (.str name)) = some (.obj (n + 1) :: g :: r) := by
    simp [step, kindOf, Frame.bump]
  rw [renderFrom_cons ts hs, NL_deep]
  simp [kindOf, tokText, sep_name o n g r hn, List.append_assoc]

theorem colon_eq (o : Opts) (dst : Bytes) :
    (if o.spaceAfterColon = true then dst ++ [0x3a] ++ [0x20] else dst ++ [0x3a]) = dst ++ (0x3a :: spColon o) := by
  unfold spColon; split <;> simp

theorem po_step (o : Opts) (fuel : Nat) (hV : PV o fuel) (hO : PO o fuel) : PO o (fuel + 1) := by
  intro pre dst src dst' rest n g r names hn hlen hd h
  simp only [objectLoop, ind_eq] at h
  cases hs : skipWS src with
  | nil => rw [hs] at h; cases h
  | cons c0 s0 =>
    rw [hs] at h
    simp only at h
    cases hq : reformatString o (c0 :: s0) with
    | error x => rw [hq] at h; cases h
    | ok p =>
      obtain ⟨q, name, s1⟩ := p
      rw [hq] at h
      simp only at h
      split at h
      · cases h
      rename_i hdupn
      cases hw : skipWS s1 with
      | nil => rw [hw] at h; cases h
      | cons c2 s2 =>
        rw [hw] at h
        simp only at h
        by_cases hc : c2 = 0x3a
        · simp only [hc, ne_eq, not_true_eq_false, if_false, colon_eq] at h
          cases hw3 : skipWS s2 with
          | nil => rw [hw3] at h; cases h
          | cons c3 s3 =>
            rw [hw3] at h
            simp only at h
            have hfr : r.length + 2 = (Frame.obj (n + 1) :: g :: r).length := by simp
            rw [hfr] at h
            cases hv : reformatValue o fuel (dst ++ ind o (Frame.obj (n + 1) :: g :: r).length ++ q ++ (0x3a :: spColon o))
                (c3 :: s3) (Frame.obj (n + 1) :: g :: r).length with
            | error x => rw [hv] at h; cases h
            | ok p =>
              obtain ⟨dst5, s4⟩ := p
              rw [hv] at h
              simp only at h
              have hodd : (n + 1) % 2 = 1 := by omega
              obtain ⟨tv, htv, hrv, htrv, hgv⟩ := hV (dst ++ ind o (Frame.obj (n + 1) :: g :: r).length ++ q) _ (c3 :: s3) dst5 s4
                (.obj (n + 1)) (g :: r) (by simp [Frame.needName, hodd]) (by simp at hlen ⊢; omega)
                (by rw [sep_member_value o (n + 1) g r hodd]) hv
              have hb : (Frame.obj (n + 1)).bump = Frame.obj (n + 2) := rfl
              have hpre : ∀ ts, pre ++ renderFrom o (.obj n :: g :: r) (.str name :: ts) =
                  dst ++ ind o (Frame.obj (n + 1) :: g :: r).length ++ q ++ renderFrom o (.obj (n + 1) :: g :: r) ts := by
                intro ts
                rw [name_render o n g r name ts hn, hd, ← hfr, reformatString_out hq]
                simp [List.append_assoc]
              cases hw5 : skipWS s4 with
              | nil => rw [hw5] at h; cases h
              | cons c5 s5 =>
                rw [hw5] at h
                simp only at h
                by_cases hc5 : c5 = 0x2c
                · rw [if_pos hc5, comma_eq o dst5 (n + 1), ← hfr] at h
                  obtain ⟨ts, hts, hrs, htrs, hgs⟩ := hO dst5 _ s5 dst' rest (n + 2) g r _ (by omega) hlen rfl h
                  refine ⟨.str name :: tv ++ ts, ?_, fun more => ?_, fun top ns => by
                    rw [List.cons_append, tr_name o n g r top ns name _ hn, trackRun_append, htrv]
                    exact htrs _ ns,
                    fun top ns htop => by
                      rw [List.cons_append]
                      refine good_name o n g r top ns name _ hn (reformatString_name hq).1 (fun hd => ?_)
                        (good_append o tv ts _ _ _ _ (hgv _) (htrv _) (hgs _ ns (fun hd => ?_)))
                      · rw [(reformatString_name hq).2, htop hd]
                        intro hm; exact hdupn (by simp [hd]; exact hm)
                      · rw [(reformatString_name hq).2, htop hd]; simp [hd]⟩
                  · simp [tokObj, hs, hq, hw, hc, hw3, htv, hw5, hc5, hts]
                  · have e1 : (Tok.str name :: tv ++ ts) ++ more = Tok.str name :: (tv ++ (ts ++ more)) := by simp
                    rw [e1, hpre, hrv (ts ++ more), hb, NL_deep, List.append_nil, hrs more]
                · rw [if_neg hc5] at h
                  by_cases hc6 : c5 = 0x7d
                  · rw [if_pos hc6] at h
                    simp only [Except.ok.injEq, Prod.mk.injEq] at h
                    obtain ⟨h1, h2⟩ := h
                    subst h1 h2
                    refine ⟨.str name :: tv ++ [.endObj], ?_, fun more => ?_, fun top ns => by
                      rw [List.cons_append, tr_name o n g r top ns name _ hn, trackRun_append, htrv]
                      exact (tr_close_obj o (n + 2) g r _ ns [] (by omega)).trans rfl,
                      fun top ns htop => by
                        rw [List.cons_append]
                        refine good_name o n g r top ns name _ hn (reformatString_name hq).1 (fun hd => ?_)
                          (good_append o tv [.endObj] _ _ _ _ (hgv _) (htrv _)
                            (good_close_obj o (n + 2) g r _ ns [] (by omega) trivial))
                        rw [(reformatString_name hq).2, htop hd]
                        intro hm; exact hdupn (by simp [hd]; exact hm)⟩
                    · simp [tokObj, hs, hq, hw, hc, hw3, htv, hw5, hc5, hc6]
                    · have e1 : (Tok.str name :: tv ++ [Tok.endObj]) ++ more = Tok.str name :: (tv ++ (Tok.endObj :: more)) := by
                        simp
                      rw [e1, hpre, hrv (Tok.endObj :: more), hb, NL_deep, List.append_nil,
                        close_obj_render o (n + 2) g r more (by omega)]
                      simp [List.append_assoc]
                  · rw [if_neg hc6] at h; cases h
        · simp only [hc, ne_eq, not_false_eq_true, if_true] at h
          cases h


/-- For every fuel: the three statements at once. -/
theorem raw_all (o : Opts) : ∀ fuel, PV o fuel ∧ PO o fuel ∧ PA o fuel := by
  intro fuel
  induction fuel with
  | zero =>
    refine ⟨?_, ?_, ?_⟩
    · intro pre dst src dst' rest f r0 _ _ _ h; simp [reformatValue] at h
    · intro pre dst src dst' rest n g r names _ _ _ h; simp [objectLoop] at h
    · intro pre dst src dst' rest n g r _ _ h; simp [arrayLoop] at h
  | succ fuel ih =>
    obtain ⟨hV, hO, hA⟩ := ih
    exact ⟨pv_step o fuel hO hA, po_step o fuel hV hO, pa_step o fuel hV hA⟩

/-! ### WriteValue as a whole -/

/-- `beforeToken` for the kind byte of a raw value (never a closing delimiter). -/
theorem beforeValue_eq (e : Enc) (k : UInt8) (hk : IsValueKind k) (hb : BottomArr (abs e.m)) :
    beforeToken e k = e.out ++ sepBytes e.o (abs e.m) .lit := by
  have c1 : (k != 0x7d && k != 0x5d) = (Kind.lit.byte != 0x7d && Kind.lit.byte != 0x5d) := by
    rcases hk with h | h | h | h | h | h | h <;> subst h <;> decide
  have c2 : (k == 0x7d || k == 0x5d) = (Kind.lit.byte == 0x7d || Kind.lit.byte == 0x5d) := by
    rcases hk with h | h | h | h | h | h | h <;> subst h <;> decide
  have hd : e.m.needDelim k = delimByte (delim (abs e.m) .lit) := by
    rw [needDelim_congr e.m k Kind.lit.byte c1]; exact needDelim_abs hb .lit
  have hi : e.m.needIndent k = indent (abs e.m) .lit := by
    rw [needIndent_congr e.m k Kind.lit.byte c1 c2]; exact needIndent_abs e.m .lit
  simp only [beforeToken, appendWhitespace, Machine.mayAppendDelim, hd, hi, sepBytes, appendIndent_eq]
  cases delim (abs e.m) Kind.lit <;> simp [delimByte] <;>
    cases e.o.spaceAfterColon <;> cases e.o.spaceAfterComma <;> cases e.o.multiline <;> simp

theorem append_stack {m m' : Machine} (h : m.appendLiteral = .ok m') : m'.stack = m.stack := by
  unfold Machine.appendLiteral at h
  split at h
  · cases h
  · split at h
    · cases h
    · cases h; rfl

theorem appendString_stack {m m' : Machine} (h : m.appendString = .ok m') : m'.stack = m.stack := by
  unfold Machine.appendString at h
  split at h
  · cases h
  · cases h; rfl

theorem pushpop_obj_stack {max : Nat} {m m1 m2 : Machine} (h1 : m.pushObject max = .ok m1)
    (h2 : m1.popObject = .ok m2) : m2.stack = m.stack := by
  unfold Machine.pushObject at h1
  split at h1
  · cases h1
  · split at h1
    · cases h1
    · split at h1
      · cases h1
      · cases h1
        unfold Machine.popObject at h2
        simp at h2
        split at h2
        · cases h2
        · split at h2
          · cases h2
          · cases h2; simp

theorem pushpop_arr_stack {max : Nat} {m m1 m2 : Machine} (h1 : m.pushArray max = .ok m1)
    (h2 : m1.popArray = .ok m2) : m2.stack = m.stack := by
  unfold Machine.pushArray at h1
  split at h1
  · cases h1
  · split at h1
    · cases h1
    · split at h1
      · cases h1
      · cases h1
        unfold Machine.popArray at h2
        simp at h2
        split at h2
        · cases h2
        · split at h2
          · cases h2
          · cases h2; simp

theorem liftSM_map_ok {x : Except SMErr Machine} {ns ns' : List (List Bytes)} {m : Machine}
    (h : (liftSM x).map (fun m => (m, ns)) = .ok (m, ns')) : x = .ok m := by
  cases x with
  | ok m0 => simp [liftSM, Except.map] at h; rw [h.1]
  | error e => simp [liftSM, Except.map] at h

/-- The state-machine part of `WriteValue` never changes the depth. -/
theorem valueSM_stack {e : Enc} {k : UInt8} {lit : Bytes} {m : Machine} {ns : List (List Bytes)}
    (h : valueSM e k lit = .ok (m, ns)) : m.stack = e.m.stack := by
  unfold valueSM at h
  split at h
  · exact append_stack (liftSM_map_ok h)
  split at h
  · split at h
    · cases h
    · exact appendString_stack (liftSM_map_ok h)
  split at h
  · exact append_stack (liftSM_map_ok (x := e.m.appendNumber) h)
  split at h
  · split at h
    · cases h
    · rename_i m1 h1
      split at h
      · rename_i m2 h2
        cases h; exact pushpop_obj_stack h1 h2
      · cases h
  split at h
  · split at h
    · cases h
    · rename_i m1 h1
      split at h
      · rename_i m2 h2
        cases h; exact pushpop_arr_stack h1 h2
      · cases h
  · cases h; rfl


theorem renderFrom_append (o : Opts) (ts us : List Tok) : ∀ (fs fs' : Frames),
    run o.maxDepth fs (ts.map kindOf) = some fs' →
    renderFrom o fs (ts ++ us) = renderFrom o fs ts ++ renderFrom o fs' us := by
  induction ts with
  | nil => intro fs fs' h; simp [run] at h; subst h; simp [renderFrom]
  | cons t ts ih =>
    intro fs fs' h
    simp only [List.map_cons, run] at h
    cases hs : step o.maxDepth fs (kindOf t) with
    | none => rw [hs] at h; cases h
    | some fs1 =>
      rw [hs] at h
      simp only [List.cons_append, renderFrom, hs, ih fs1 fs' h, List.append_assoc]

/-- A raw string (possibly in name position). -/
theorem string_value (o : Opts) (fuel : Nat) (pre dst dst' rest : Bytes) (c : UInt8) (s : Bytes)
    (f : Frame) (r0 : List Frame) (d : Nat) (hk : normKind c = 0x22)
    (hd : dst = pre ++ sepBytes o (f :: r0) .lit)
    (h : reformatValue o (fuel + 1) dst (c :: s) d = .ok (dst', rest)) :
    ∃ name, tokValue o (fuel + 1) (c :: s) = some ([.str name], rest) ∧ dst' = dst ++ (appendQuote o name).1 ∧
      (∀ more, pre ++ renderFrom o (f :: r0) ([.str name] ++ more) =
        dst' ++ NL (f.bump :: r0) ++ renderFrom o (f.bump :: r0) more) ∧ badUTF8 o (.str name) = false := by
  simp only [reformatValue] at h
  have k1 : ¬ normKind c = 0x6e := by rw [hk]; decide
  have k2 : ¬ normKind c = 0x66 := by rw [hk]; decide
  have k3 : ¬ normKind c = 0x74 := by rw [hk]; decide
  rw [if_neg k1, if_neg k2, if_neg k3, if_pos hk] at h
  cases hl : reformatString o (c :: s) with
  | error x => rw [hl] at h; simp [Except.map] at h
  | ok p =>
    obtain ⟨q, name, r⟩ := p
    rw [hl] at h
    simp only [Except.map, Except.ok.injEq, Prod.mk.injEq] at h
    obtain ⟨h1, h2⟩ := h
    subst h1 h2
    refine ⟨name, by simp [tokValue, hk, hl], by rw [reformatString_out hl], fun more => ?_, (reformatString_name hl).1⟩
    have hs : step o.maxDepth (f :: r0) (kindOf (.str name)) = some (f.bump :: r0) := by simp [step, kindOf]
    have hsep : sepBytes o (f :: r0) (kindOf (.str name)) = sepBytes o (f :: r0) .lit := sep_indep _ _ _ _ rfl
    simp only [List.singleton_append, renderFrom_cons more hs, hsep, hd, List.append_assoc, tokText,
      reformatString_out hl]

theorem tr_str (o : Opts) (f : Frame) (r0 : List Frame) (ns : List (List Bytes)) (name : Bytes) :
    trackRun o (f :: r0) ns [.str name] = some (f.bump :: r0, namesStep o (f :: r0) ns (.str name)) := by
  simp [trackRun, step, kindOf]

/-! ### Effect of the state-machine part of WriteValue -/

theorem inv_mono {max b b' : Nat} {m : Machine} (h : Inv max b m) (hb : b ≤ b') : Inv max b' m :=
  ⟨clean_mono h.last hb, fun e he => clean_mono (h.stack e he) hb, h.depth⟩

theorem step_scalar_result {max : Nat} {f : Frame} {r0 : List Frame} {fs' : Frames} {k : Kind}
    (hk : k = .lit ∨ k = .str ∨ k = .num) (h : step max (f :: r0) k = some fs') : fs' = f.bump :: r0 := by
  rcases hk with hk | hk | hk <;> subst hk <;> simp only [step] at h
  · split at h
    · cases h
    · cases h; rfl
  · cases h; rfl
  · split at h
    · cases h
    · cases h; rfl

theorem step_open_close_obj_result {max : Nat} {f : Frame} {r0 : List Frame} {fs1 fs2 : Frames}
    (h1 : step max (f :: r0) .beginObj = some fs1) (h2 : step max fs1 .endObj = some fs2) : fs2 = f.bump :: r0 := by
  simp only [step] at h1
  split at h1
  · cases h1
  · split at h1
    · cases h1; simp [step] at h2; exact h2.symm
    · cases h1

theorem step_open_close_arr_result {max : Nat} {f : Frame} {r0 : List Frame} {fs1 fs2 : Frames}
    (h1 : step max (f :: r0) .beginArr = some fs1) (h2 : step max fs1 .endArr = some fs2) : fs2 = f.bump :: r0 := by
  simp only [step] at h1
  split at h1
  · cases h1
  · split at h1
    · cases h1; simp [step] at h2; exact h2.symm
    · cases h1

/-- Names after a string with the given name (the `.str` case of `namesStep`). -/
def namesAfterName (fs : Frames) (ns : List (List Bytes)) (name : Bytes) : List (List Bytes) :=
  if isNamePos fs then
    match ns with
    | top :: rest => (top ++ [name]) :: rest
    | [] => []
  else ns

theorem namesStep_str (o : Opts) (fs : Frames) (ns : List (List Bytes)) (s : Bytes) :
    namesStep o fs ns (.str s) = namesAfterName fs ns (nameOf o s) := rfl

theorem nameCheckSpec_ok' {o : Opts} {fs : Frames} {ns ns' : List (List Bytes)} {name : Bytes}
    (h : nameCheckSpec o fs ns ns name = .ok ns') (hd : o.allowDup = false) :
    ns' = namesAfterName fs ns name := by
  unfold nameCheckSpec at h
  unfold namesAfterName
  by_cases hn : isNamePos fs = true
  · rw [if_pos ⟨hn, hd⟩] at h
    rw [if_pos hn]
    cases ns with
    | nil => cases h
    | cons top rest =>
      simp only at h
      split at h
      · cases h
      · cases h; rfl
  · rw [if_neg (fun h' => hn h'.1)] at h
    rw [if_neg hn]
    cases h; rfl

theorem scalar_effect {o : Opts} {b : Nat} {f : Frame} {r0 : List Frame} {ns : List (List Bytes)} {e : Enc}
    (hI : EncInv o b (f :: r0) ns e) (hb : b + 2 < 2^61) (k : Kind) (hk : k = .lit ∨ k = .str ∨ k = .num)
    {m : Machine} (h : smStep o.maxDepth e.m k = .ok m) :
    abs m = f.bump :: r0 ∧ Inv o.maxDepth (b + 2) m := by
  have href := step_refines hI.inv (by omega : b + 1 < 2^61) k
  unfold StepRel at href
  rw [h, hI.abs_eq] at href
  exact ⟨step_scalar_result hk href.1, inv_mono href.2 (by omega)⟩


theorem obj_effect {o : Opts} {b : Nat} {f : Frame} {r0 : List Frame} {ns : List (List Bytes)} {e : Enc}
    (hI : EncInv o b (f :: r0) ns e) (hb : b + 2 < 2^61) {m1 m2 : Machine}
    (h1 : e.m.pushObject o.maxDepth = .ok m1) (h2 : m1.popObject = .ok m2) :
    abs m2 = f.bump :: r0 ∧ Inv o.maxDepth (b + 2) m2 := by
  have r1 := step_refines hI.inv (by omega : b + 1 < 2^61) .beginObj
  unfold StepRel at r1
  simp only [smStep, h1, hI.abs_eq] at r1
  have r2 := step_refines r1.2 (by omega : b + 1 + 1 < 2^61) .endObj
  unfold StepRel at r2
  simp only [smStep, h2] at r2
  exact ⟨step_open_close_obj_result r1.1 r2.1, r2.2⟩

theorem arr_effect {o : Opts} {b : Nat} {f : Frame} {r0 : List Frame} {ns : List (List Bytes)} {e : Enc}
    (hI : EncInv o b (f :: r0) ns e) (hb : b + 2 < 2^61) {m1 m2 : Machine}
    (h1 : e.m.pushArray o.maxDepth = .ok m1) (h2 : m1.popArray = .ok m2) :
    abs m2 = f.bump :: r0 ∧ Inv o.maxDepth (b + 2) m2 := by
  have r1 := step_refines hI.inv (by omega : b + 1 < 2^61) .beginArr
  unfold StepRel at r1
  simp only [smStep, h1, hI.abs_eq] at r1
  have r2 := step_refines r1.2 (by omega : b + 1 + 1 < 2^61) .endArr
  unfold StepRel at r2
  simp only [smStep, h2] at r2
  exact ⟨step_open_close_arr_result r1.1 r2.1, r2.2⟩

/-- What the state-machine part of an accepted `WriteValue` does: the innermost frame counts one more
element, the depth is unchanged, and only a raw string in name position adds a name. -/
theorem valueSM_effect {o : Opts} {b : Nat} {f : Frame} {r0 : List Frame} {ns : List (List Bytes)} {e : Enc}
    (hI : EncInv o b (f :: r0) ns e) (hb : b + 2 < 2^61) (k : UInt8) (lit : Bytes) (hk : IsValueKind k)
    {m : Machine} {ns2 : List (List Bytes)} (h : valueSM e k lit = .ok (m, ns2)) :
    abs m = f.bump :: r0 ∧ Inv o.maxDepth (b + 2) m ∧
      (o.allowDup = false → ns2 = if k = 0x22 then namesAfterName (f :: r0) ns (unquote lit) else ns) := by
  unfold valueSM at h
  rw [hI.opts] at h
  by_cases h1 : k = 0x6e ∨ k = 0x66 ∨ k = 0x74
  · have hq : k ≠ 0x22 := by rcases h1 with h | h | h <;> subst h <;> decide
    rw [if_pos h1] at h
    have hm := liftSM_map_ok h
    have hns : ns2 = e.ns := by
      rw [hm] at h; simp [liftSM, Except.map] at h; exact h.symm
    obtain ⟨ha, hi⟩ := scalar_effect hI hb .lit (Or.inl rfl) (m := m) hm
    exact ⟨ha, hi, fun hd => by rw [if_neg hq, hns]; exact (hI.names hd).1⟩
  rw [if_neg h1] at h
  by_cases h2 : k = 0x22
  · rw [if_pos h2] at h
    cases hc : checkName e lit with
    | error x => rw [hc] at h; cases h
    | ok nsx =>
      rw [hc] at h
      simp only at h
      have hm := liftSM_map_ok h
      have hns : ns2 = nsx := by
        rw [hm] at h; simp [liftSM, Except.map] at h; exact h.symm
      obtain ⟨ha, hi⟩ := scalar_effect hI hb .str (Or.inr (Or.inl rfl)) (m := m) hm
      refine ⟨ha, hi, fun hd => ?_⟩
      rw [if_pos h2, hns]
      rw [checkName_spec hI lit, (hI.names hd).1] at hc
      exact nameCheckSpec_ok' hc hd
  rw [if_neg h2] at h
  by_cases h3 : k = 0x30
  · rw [if_pos h3] at h
    have hm := liftSM_map_ok (x := e.m.appendNumber) h
    have hns : ns2 = e.ns := by
      rw [hm] at h; simp [liftSM, Except.map] at h; exact h.symm
    obtain ⟨ha, hi⟩ := scalar_effect hI hb .num (Or.inr (Or.inr rfl)) (m := m) hm
    exact ⟨ha, hi, fun hd => by rw [if_neg h2, hns]; exact (hI.names hd).1⟩
  rw [if_neg h3] at h
  by_cases h4 : k = 0x7b
  · rw [if_pos h4] at h
    cases hp : e.m.pushObject o.maxDepth with
    | error x => rw [hp] at h; cases h
    | ok m1 =>
      rw [hp] at h
      simp only at h
      cases hq : m1.popObject with
      | error x => rw [hq] at h; cases h
      | ok m2 =>
        rw [hq] at h
        simp only [Except.ok.injEq, Prod.mk.injEq] at h
        obtain ⟨hm, hns⟩ := h
        subst hm
        obtain ⟨ha, hi⟩ := obj_effect hI hb hp hq
        exact ⟨ha, hi, fun hd => by rw [if_neg h2, ← hns]; exact (hI.names hd).1⟩
  rw [if_neg h4] at h
  by_cases h5 : k = 0x5b
  · rw [if_pos h5] at h
    cases hp : e.m.pushArray o.maxDepth with
    | error x => rw [hp] at h; cases h
    | ok m1 =>
      rw [hp] at h
      simp only at h
      cases hq : m1.popArray with
      | error x => rw [hq] at h; cases h
      | ok m2 =>
        rw [hq] at h
        simp only [Except.ok.injEq, Prod.mk.injEq] at h
        obtain ⟨hm, hns⟩ := h
        subst hm
        obtain ⟨ha, hi⟩ := arr_effect hI hb hp hq
        exact ⟨ha, hi, fun hd => by rw [if_neg h2, ← hns]; exact (hI.names hd).1⟩
  · exfalso
    rcases hk with h | h | h | h | h | h | h
    · exact h1 (Or.inl h)
    · exact h1 (Or.inr (Or.inl h))
    · exact h1 (Or.inr (Or.inr h))
    · exact h2 h
    · exact h3 h
    · exact h4 h
    · exact h5 h


theorem countP_bump (f : Frame) (r0 : List Frame) :
    (f.bump :: r0).countP isObj = (f :: r0).countP isObj := by
  simp [List.countP_cons, isObj_bump]

theorem namesAfterName_length (fs : Frames) (ns : List (List Bytes)) (name : Bytes) :
    (namesAfterName fs ns name).length = ns.length := by
  unfold namesAfterName
  split
  · cases ns <;> simp
  · rfl

/-- **One accepted `WriteValue`** from a reachable state: the output grows by the rendering of the value's
tokens, and the new state is the reachable state whose frames and names are those after these tokens. -/
theorem writeValue_inv {o : Opts} {b : Nat} {fs : Frames} {ns : List (List Bytes)} {e e' : Enc}
    (hI : EncInv o b fs ns e) (hb : b + 2 < 2^61) (v : Bytes) (h : writeValue e v = (e', none)) :
    ∃ toks rest fs' ns', tokValue o (3 * v.length + 4) (skipWS v) = some (toks, rest) ∧
      e'.out = e.out ++ renderFrom o fs toks ∧ trackRun o fs ns toks = some (fs', ns') ∧
      EncInv o (b + 2) fs' ns' e' ∧ Good o fs ns toks := by
  rw [writeValue_nf, hI.opts] at h
  cases hr : reformatValue o (3 * v.length + 4) (beforeToken e (valueKind v)) (skipWS v) e.m.depth with
  | error err => rw [hr] at h; simp at h
  | ok p =>
    obtain ⟨b', rest⟩ := p
    rw [hr] at h
    simp only at h
    cases hw : skipWS rest with
    | cons c r => rw [hw] at h; simp at h
    | nil =>
      rw [hw] at h
      simp only at h
      cases hv : valueSM e (valueKind v) (b'.drop (beforeToken e (valueKind v)).length) with
      | error err => rw [hv] at h; simp at h
      | ok q =>
        obtain ⟨m, ns2⟩ := q
        rw [hv] at h
        simp only [Prod.mk.injEq, and_true] at h
        subst h
        obtain ⟨c, s, hsrc, hkc⟩ := reformat_ok_kind hr
        have hkind : valueKind v = normKind c := by simp [valueKind, hsrc]
        have hk : IsValueKind (valueKind v) := by rw [hkind]; exact hkc
        have hfs : abs e.m = fs := hI.abs_eq
        cases hfs' : fs with
        | nil => rw [hfs'] at hfs; simp [abs] at hfs
        | cons f r0 =>
          subst hfs'
          have hbt : beforeToken e (valueKind v) = e.out ++ sepBytes o (f :: r0) .lit := by
            rw [beforeValue_eq e _ hk (by rw [hfs]; exact hI.bottom), hI.opts, hfs]
          have hdepth : e.m.depth = (f :: r0).length := by rw [depth_abs, hfs]
          have hlen : (f :: r0).length ≤ o.maxDepth + 1 := by
            rw [← hfs, abs_length]; have := hI.inv.depth; omega
          rw [hdepth, hsrc] at hr
          obtain ⟨hab, hinv, hnames⟩ := valueSM_effect hI hb (valueKind v) _ hk hv
          have hst : e.m.stack.length = r0.length := by
            have := abs_length e.m; rw [hfs] at this; simp at this; omega
          have hout : ∀ toks, (∀ more, e.out ++ renderFrom o (f :: r0) (toks ++ more) =
              b' ++ NL (f.bump :: r0) ++ renderFrom o (f.bump :: r0) more) →
              (commit e b' m ns2).out = e.out ++ renderFrom o (f :: r0) toks := by
            intro toks hrn
            have := hrn []
            simp only [List.append_nil, renderFrom] at this
            rw [commit_out, valueSM_stack hv, this]
            simp [NL, hst]
          by_cases hq : normKind c = 0x22
          · -- a raw string, possibly a member name
            obtain ⟨name, ht, hdst, hrn, hbadn⟩ := string_value o (3 * v.length + 3) e.out _ b' rest c s f r0 _ hq hbt hr
            have hlit : b'.drop (beforeToken e (valueKind v)).length = (appendQuote o name).1 := by
              rw [hdst]; simp
            refine ⟨[.str name], rest, f.bump :: r0, namesStep o (f :: r0) ns (.str name),
              by rw [hsrc]; exact ht, hout _ hrn, tr_str o f r0 ns name, ?_, ?_⟩
            rotate_left
            · refine good_single hbadn (fun hd s' hs' hpos => ?_)
              cases hs'
              have hfr := ((valueSM_ok_iff hI hb (valueKind v) _ hk).mp ⟨_, hv⟩).2
                (by rw [hkind]; exact hq) hd hpos
              rw [hlit] at hfr; exact hfr
            refine ⟨hI.opts, hinv, hab, ?_, fun hd => ?_⟩
            · have hs : step o.maxDepth (f :: r0) .str = some (f.bump :: r0) := by simp [step]
              exact step_bottomArr hs hI.bottom
            · have h2 := hnames hd
              have hq' : valueKind v = 0x22 := by rw [hkind]; exact hq
              rw [if_pos hq', hlit] at h2
              refine ⟨by show ns2 = _; rw [h2, namesStep_str]; rfl, ?_⟩
              rw [namesStep_str, namesAfterName_length, countP_bump]
              exact (hI.names hd).2
          · have hnn : f.needName = false := by
              have hstp := (valueSM_ok_iff hI hb (valueKind v) _ hk).mp ⟨_, hv⟩ |>.1
              cases hn : f.needName with
              | false => rfl
              | true =>
                exfalso
                rw [hkind] at hstp
                unfold firstKind at hstp
                rw [if_neg hq] at hstp
                split at hstp <;> (try split at hstp) <;> (try split at hstp) <;> simp [step, hn] at hstp
            obtain ⟨toks, ht, hrn, htr, hgd⟩ :=
              (raw_all o (3 * v.length + 4)).1 e.out _ (c :: s) b' rest f r0 hnn hlen hbt hr
            refine ⟨toks, rest, f.bump :: r0, ns, by rw [hsrc]; exact ht, hout _ hrn, htr ns, ?_, hgd ns⟩
            refine ⟨hI.opts, hinv, hab, ?_, fun hd => ?_⟩
            · have hs : step o.maxDepth (f :: r0) .lit = some (f.bump :: r0) := by simp [step, hnn]
              exact step_bottomArr hs hI.bottom
            · have h2 := hnames hd
              have hq' : ¬ valueKind v = 0x22 := by rw [hkind]; exact hq
              rw [if_neg hq'] at h2
              refine ⟨h2, ?_⟩
              rw [countP_bump]; exact (hI.names hd).2


/-- `trackRun` defined and `Good` = every token is accepted by `WriteToken`, one after the other. -/
theorem good_run {o : Opts} (ts : List Tok) : ∀ {b : Nat} {fs fs' : Frames} {ns ns' : List (List Bytes)} {e : Enc},
    EncInv o b fs ns e → trackRun o fs ns ts = some (fs', ns') → Good o fs ns ts → b + ts.length < 2^61 →
    ∃ e', runToks e ts = some e' := by
  induction ts with
  | nil => intro b fs fs' ns ns' e _ _ _ _; exact ⟨e, rfl⟩
  | cons t ts ih =>
    intro b fs fs' ns ns' e hI htr hg hlen
    simp only [trackRun] at htr
    cases hs : step o.maxDepth fs (kindOf t) with
    | none => rw [hs] at htr; cases htr
    | some fs1 =>
      rw [hs] at htr
      simp only [Good, hs] at hg
      have hb1 : b + 1 < 2^61 := by simp at hlen; omega
      have hacc : (writeToken e t).2 = none :=
        (writeToken_iff hI hb1 t).mpr ⟨by simp [hs], hg.1, hg.2.1⟩
      cases hw : writeToken e t with
      | mk e1 r =>
        rw [hw] at hacc
        simp only at hacc
        subst hacc
        obtain ⟨fs1', hs', hI'⟩ := writeToken_inv hI hb1 t hw
        rw [hs] at hs'; cases hs'
        obtain ⟨e', he'⟩ := ih hI' htr hg.2.2 (by simp at hlen ⊢; omega)
        exact ⟨e', by simp [runToks, hw, he']⟩

end JsonV.Lemmas.EncRaw
