/-
`WriteToken` of the Encoder model succeeds exactly when the grammar, UTF-8 well-formedness and name
uniqueness allow it: normal form of `writeToken`, the invariant of reachable encoder states (machine
invariant, namespaces = `Spec.Names.track`), and the single-step equivalence.  Core Lean only.
-/
import JsonV.Model.Encoder
import JsonV.Spec.Names
import JsonV.Lemmas.EncRender

namespace JsonV.Lemmas.EncIff
open JsonV JsonV.Model JsonV.Model.Encoder JsonV.Spec JsonV.Spec.PDA JsonV.Spec.Render JsonV.Spec.Names
open JsonV.Lemmas.StateRefine JsonV.Lemmas.StateRun JsonV.Lemmas.EncRender

/-- `hasInvalidUTF8 && !AllowInvalidUTF8` for a string token, `false` for every other token. -/
def badUTF8 (o : Opts) : Tok → Bool
  | .str s => (appendQuote o s).2
  | _ => false

/-- The namespace check that precedes the state machine for a string token. -/
def nameCheck (e : Enc) : Tok → Except EncErr (List (List Bytes))
  | .str s => checkName e (appendQuote e.o s).1
  | _ => .ok e.ns

/-- The namespace stack after an accepted token (`ns` = result of `nameCheck`). -/
def nsAfter (e : Enc) (ns : List (List Bytes)) : Tok → List (List Bytes)
  | .beginObj => if e.o.allowDup then e.ns else [] :: e.ns
  | .endObj => if e.o.allowDup then e.ns else e.ns.drop 1
  | _ => ns

/-- Normal form of `writeToken`: UTF-8 check, name check, state machine, commit. -/
def writeTokenNF (e : Enc) (t : Tok) : Enc × Option EncErr :=
  if badUTF8 e.o t then (e, some .invalidUTF8) else
  match nameCheck e t with
  | .error x => (e, some x)
  | .ok ns =>
    match smStep e.o.maxDepth e.m (kindOf t) with
    | .error x => (e, some (.sm x))
    | .ok m => (commit e (beforeToken e t.kind ++ tokText e.o t) m (nsAfter e ns t), none)

theorem writeToken_nf (e : Enc) (t : Tok) : writeToken e t = writeTokenNF e t := by
  unfold writeToken writeTokenNF
  cases t <;> simp only [badUTF8, nameCheck, nsAfter, kindOf, smStep, tokText, Bool.false_eq_true, if_false]
  case str s =>
    by_cases hb : (appendQuote e.o s).2 = true
    · simp only [hb, ↓reduceIte]
    simp only [hb]
    cases checkName e (appendQuote e.o s).1 with
    | error x => rfl
    | ok ns => cases e.m.appendString <;> rfl
  case null => cases e.m.appendLiteral <;> rfl
  case fals => cases e.m.appendLiteral <;> rfl
  case tru => cases e.m.appendLiteral <;> rfl
  case num text => cases e.m.appendNumber <;> rfl
  case beginObj => cases e.m.pushObject e.o.maxDepth <;> rfl
  case endObj => cases e.m.popObject <;> rfl
  case beginArr => cases e.m.pushArray e.o.maxDepth <;> rfl
  case endArr => cases e.m.popArray <;> rfl


/-! ### Invariant of reachable encoder states -/

def isObj : Frame → Bool
  | .obj _ => true
  | .arr _ => false

/-- `e` is an encoder with options `o` whose machine abstracts to the frames `fs` (invariant `Inv` with
budget `b`) and whose namespace stack is `ns`, one entry per open object. -/
structure EncInv (o : Opts) (b : Nat) (fs : Frames) (ns : List (List Bytes)) (e : Enc) : Prop where
  opts : e.o = o
  inv : Inv o.maxDepth b e.m
  abs_eq : abs e.m = fs
  bottom : BottomArr fs
  names : o.allowDup = false → e.ns = ns ∧ ns.length = fs.countP isObj

theorem encInv_new (o : Opts) : EncInv o 0 PDA.init [] (Encoder.new o) :=
  ⟨rfl, inv_init _, abs_init, bottomArr_init, fun _ => ⟨rfl, rfl⟩⟩

theorem needName_isObj {f : Frame} (h : f.needName = true) : isObj f = true := by
  cases f <;> simp_all [Frame.needName, isObj]

theorem isObj_bump (f : Frame) : isObj f.bump = isObj f := by cases f <;> rfl
@[simp] theorem isObj_obj (n : Nat) : isObj (.obj n) = true := rfl
@[simp] theorem isObj_arr (n : Nat) : isObj (.arr n) = false := rfl

theorem last_needName {o : Opts} {b : Nat} {fs : Frames} {ns : List (List Bytes)} {e : Enc}
    (hI : EncInv o b fs ns e) : e.m.last.needObjectName = isNamePos fs := by
  rw [← hI.abs_eq, abs_cons]; simp [isNamePos, needName_abs]

/-- The name check in terms of tracked names `ns` (`cur` = the namespace stack to return unchanged). -/
def nameCheckSpec (o : Opts) (fs : Frames) (ns cur : List (List Bytes)) (name : Bytes) :
    Except EncErr (List (List Bytes)) :=
  if isNamePos fs = true ∧ o.allowDup = false then
    match ns with
    | top :: rest =>
      if top.contains name then .error .dupName else .ok ((top ++ [name]) :: rest)
    | [] => .error .bug
  else .ok cur

theorem checkName_spec {o : Opts} {b : Nat} {fs : Frames} {ns : List (List Bytes)} {e : Enc}
    (hI : EncInv o b fs ns e) (lit : Bytes) :
    checkName e lit = nameCheckSpec o fs ns e.ns (unquote lit) := by
  simp only [nameCheckSpec, checkName, last_needName hI, hI.opts, valid_of_clean hI.inv.last,
    active_of_clean hI.inv.last]
  by_cases hd : o.allowDup = false
  · obtain ⟨h1, _⟩ := hI.names hd
    rw [h1]
    by_cases hn : isNamePos fs = true
    · simp only [hn, hd, Bool.not_false, Bool.and_self, Bool.not_true, Bool.false_eq_true, if_true,
        if_false, and_self]
      cases ns <;> rfl
    · simp [hn]
  · have : o.allowDup = true := by simpa using hd
    simp [this]

theorem nameCheck_str {o : Opts} {b : Nat} {fs : Frames} {ns : List (List Bytes)} {e : Enc}
    (hI : EncInv o b fs ns e) (s : Bytes) :
    nameCheck e (.str s) = nameCheckSpec o fs ns e.ns (nameOf o s) := by
  simp only [nameCheck, checkName_spec hI, nameOf, hI.opts]

theorem ns_nonempty {o : Opts} {b : Nat} {fs : Frames} {ns : List (List Bytes)} {e : Enc}
    (hI : EncInv o b fs ns e) (hd : o.allowDup = false) (hn : isNamePos fs = true) : ns ≠ [] := by
  obtain ⟨_, h2⟩ := hI.names hd
  intro h
  subst h
  cases fs with
  | nil => simp [isNamePos] at hn
  | cons f r =>
    simp only [isNamePos] at hn
    simp [needName_isObj hn] at h2

/-- The name-uniqueness condition on a token after a state with frames `fs` and names `ns`. -/
def Fresh (o : Opts) (fs : Frames) (ns : List (List Bytes)) (t : Tok) : Prop :=
  ∀ s, t = .str s → isNamePos fs = true → nameOf o s ∉ ns.headD []

theorem nameCheckSpec_ok_iff {o : Opts} {fs : Frames} {ns cur : List (List Bytes)} (name : Bytes)
    (hne : o.allowDup = false → isNamePos fs = true → ns ≠ []) :
    (∃ ns', nameCheckSpec o fs ns cur name = .ok ns') ↔
      (o.allowDup = false → isNamePos fs = true → name ∉ ns.headD []) := by
  unfold nameCheckSpec
  by_cases hd : o.allowDup = false
  · by_cases hn : isNamePos fs = true
    · cases ns with
      | nil => exact absurd rfl (hne hd hn)
      | cons top rest =>
        rw [if_pos ⟨hn, hd⟩]
        show (∃ ns', (if top.contains name = true then Except.error EncErr.dupName
          else Except.ok ((top ++ [name]) :: rest)) = Except.ok ns') ↔ _
        by_cases hc : top.contains name = true
        · rw [if_pos hc]
          constructor
          · rintro ⟨_, h⟩; cases h
          · intro h
            exact absurd (List.contains_iff_mem.mp hc) (h hd hn)
        · rw [if_neg hc]
          constructor
          · intro _ _ _ hm
            exact hc (List.contains_iff_mem.mpr hm)
          · intro _; exact ⟨_, rfl⟩
    · rw [if_neg (fun h => hn h.1)]
      constructor
      · intro _ _ h; exact absurd h hn
      · intro _; exact ⟨_, rfl⟩
  · rw [if_neg (fun h => hd h.2)]
    constructor
    · intro _ h; exact absurd h hd
    · intro _; exact ⟨_, rfl⟩

theorem nameCheck_ok_iff {o : Opts} {b : Nat} {fs : Frames} {ns : List (List Bytes)} {e : Enc}
    (hI : EncInv o b fs ns e) (t : Tok) :
    (∃ ns', nameCheck e t = .ok ns') ↔ (o.allowDup = false → Fresh o fs ns t) := by
  cases t
  case str s =>
    rw [nameCheck_str hI, nameCheckSpec_ok_iff (nameOf o s) (fun hd hn => ns_nonempty hI hd hn)]
    constructor
    · intro h hd s' hs hn; cases hs; exact h hd hn
    · intro h hd hn; exact h hd s rfl hn
  all_goals
    constructor
    · intro _ _ s hs; cases hs
    · intro _; exact ⟨_, rfl⟩

/-- **One call**: from a reachable state, `WriteToken t` succeeds iff the PDA step for the token's
kind is defined, the string (if any) passes the UTF-8 check, and (unless duplicates are allowed)
a member name is fresh in the innermost object. -/
theorem writeToken_iff {o : Opts} {b : Nat} {fs : Frames} {ns : List (List Bytes)} {e : Enc}
    (hI : EncInv o b fs ns e) (hb : b + 1 < 2^61) (t : Tok) :
    (writeToken e t).2 = none ↔
      ((step o.maxDepth fs (kindOf t)).isSome = true ∧ badUTF8 o t = false ∧
        (o.allowDup = false → Fresh o fs ns t)) := by
  have href := step_refines hI.inv hb (kindOf t)
  unfold StepRel at href
  rw [hI.abs_eq] at href
  have hnc := nameCheck_ok_iff hI t
  rw [writeToken_nf, writeTokenNF, hI.opts]
  by_cases hbad : badUTF8 o t = true
  · simp [hbad]
  · have hbad' : badUTF8 o t = false := by simpa using hbad
    simp only [hbad', Bool.false_eq_true, if_false, true_and]
    cases hn : nameCheck e t with
    | error x =>
      have : ¬ (o.allowDup = false → Fresh o fs ns t) := fun h => by
        obtain ⟨ns', h'⟩ := hnc.mpr h; rw [hn] at h'; cases h'
      simp [this]
    | ok ns' =>
      have hf : (o.allowDup = false → Fresh o fs ns t) := hnc.mp ⟨ns', hn⟩
      simp only
      cases hs : smStep o.maxDepth e.m (kindOf t) with
      | error x => rw [hs] at href; simp [href]
      | ok m => rw [hs] at href; simp only at href; simp only [href.1, Option.isSome_some, true_and]; exact ⟨fun _ => hf, fun _ => trivial⟩


/-! ### Preservation of the invariant -/

theorem step_countObj {max : Nat} {fs fs' : Frames} {k : Kind} (h : step max fs k = some fs') :
    fs'.countP isObj + (if k = .endObj then 1 else 0) = fs.countP isObj + (if k = .beginObj then 1 else 0) := by
  cases fs with
  | nil => simp [step] at h
  | cons f rest =>
    cases k <;> simp only [step] at h
    · split at h
      · cases h
      · cases h; simp [List.countP_cons, isObj_bump]
    · cases h; simp [List.countP_cons, isObj_bump]
    · split at h
      · cases h
      · cases h; simp [List.countP_cons, isObj_bump]
    · split at h
      · cases h
      · split at h
        · cases h; simp [List.countP_cons, isObj_bump]
        · cases h
    · split at h
      · split at h
        · cases h; simp [List.countP_cons]
        · cases h
      · cases h
    · split at h
      · cases h
      · split at h
        · cases h; simp [List.countP_cons, isObj_bump]
        · cases h
    · split at h
      · cases h; simp [List.countP_cons]
      · cases h

theorem namesStep_length (o : Opts) (fs : Frames) (ns : List (List Bytes)) (t : Tok) :
    (namesStep o fs ns t).length =
      if t = .beginObj then ns.length + 1 else if t = .endObj then ns.length - 1 else ns.length := by
  cases t <;> simp [namesStep]
  case str s =>
    split
    · cases ns <;> simp
    · rfl

theorem nameCheckSpec_ok {o : Opts} {fs : Frames} {ns ns' : List (List Bytes)} {s : Bytes}
    (h : nameCheckSpec o fs ns ns (nameOf o s) = .ok ns') (hd : o.allowDup = false) :
    ns' = namesStep o fs ns (.str s) := by
  unfold nameCheckSpec at h
  simp only [namesStep]
  by_cases hn : isNamePos fs = true
  · rw [if_pos ⟨hn, hd⟩] at h
    rw [if_pos hn]
    cases ns with
    | nil => cases h
    | cons top rest =>
      simp only at h
      split at h
      · cases h
      · cases h; rfl
  · rw [if_neg (fun h' => hn h'.1)] at h
    rw [if_neg hn]
    cases h; rfl

/-- An accepted `WriteToken` leads from a reachable state to a reachable state: the frames make the
PDA step, the tracked names make `namesStep`. -/
theorem writeToken_inv {o : Opts} {b : Nat} {fs : Frames} {ns : List (List Bytes)} {e e' : Enc}
    (hI : EncInv o b fs ns e) (hb : b + 1 < 2^61) (t : Tok) (h : writeToken e t = (e', none)) :
    ∃ fs', step o.maxDepth fs (kindOf t) = some fs' ∧ EncInv o (b + 1) fs' (namesStep o fs ns t) e' := by
  have href := step_refines hI.inv hb (kindOf t)
  unfold StepRel at href
  rw [hI.abs_eq] at href
  rw [writeToken_nf, writeTokenNF, hI.opts] at h
  by_cases hbad : badUTF8 o t = true
  · simp [hbad] at h
  · have hbad' : badUTF8 o t = false := by simpa using hbad
    simp only [hbad', Bool.false_eq_true, if_false] at h
    cases hn : nameCheck e t with
    | error x => rw [hn] at h; simp at h
    | ok ns' =>
      rw [hn] at h
      simp only at h
      cases hs : smStep o.maxDepth e.m (kindOf t) with
      | error x => rw [hs] at h; simp at h
      | ok m =>
        rw [hs] at h href
        simp only [Prod.mk.injEq, and_true] at h
        simp only at href
        obtain ⟨hstep, hinv'⟩ := href
        subst h
        refine ⟨abs m, hstep, ⟨hI.opts, hinv', rfl, step_bottomArr hstep hI.bottom, ?_⟩⟩
        intro hd
        obtain ⟨hns, hlen⟩ := hI.names hd
        have hcount := step_countObj hstep
        have hnl := namesStep_length o fs ns t
        have hns' : nsAfter e ns' t = namesStep o fs ns t := by
          cases t
          case str s =>
            rw [nameCheck_str hI, hns] at hn
            exact nameCheckSpec_ok hn hd
          case beginObj => simp [nsAfter, namesStep, hI.opts, hd, hns]
          case endObj => simp [nsAfter, namesStep, hI.opts, hd, hns]
          all_goals
            simp only [nameCheck, Except.ok.injEq] at hn
            simp [nsAfter, namesStep, ← hn, hns]
        refine ⟨hns', ?_⟩
        rw [hnl]
        cases t <;> simp [kindOf] at hcount ⊢ <;> omega

/-! ### Whole histories -/

theorem track_snoc (o : Opts) (ts : List Tok) (t : Tok) : ∀ st : Frames × List (List Bytes),
    track o st (ts ++ [t]) = track o (track o st ts) [t] := by
  induction ts with
  | nil => intro st; rfl
  | cons a ts ih =>
    intro st
    obtain ⟨fs, ns⟩ := st
    simp only [List.cons_append, track]
    split <;> exact ih _

/-- Every state reached by an accepted token history satisfies the invariant, with frames and names
given by the specification-level `track`. -/
theorem runToks_inv (o : Opts) (ts : List Tok) : ∀ {b : Nat} {fs : Frames} {ns : List (List Bytes)} {e e' : Enc},
    EncInv o b fs ns e → b + ts.length < 2^61 → runToks e ts = some e' →
    EncInv o (b + ts.length) (track o (fs, ns) ts).1 (track o (fs, ns) ts).2 e' ∧
      run o.maxDepth fs (ts.map kindOf) = some (track o (fs, ns) ts).1 := by
  induction ts with
  | nil => intro b fs ns e e' hI _ h; simp [runToks] at h; subst h; exact ⟨hI, rfl⟩
  | cons t ts ih =>
    intro b fs ns e e' hI hlen h
    simp only [runToks] at h
    cases hw : writeToken e t with
    | mk e1 r =>
      rw [hw] at h
      cases r with
      | some err => simp at h
      | none =>
        simp only at h
        obtain ⟨fs', hstep, hI'⟩ := writeToken_inv hI (by simp at hlen; omega) t hw
        have := ih hI' (by simp at hlen ⊢; omega) h
        simp only [track, hstep, List.map_cons, run]
        have hb : b + 1 + ts.length = b + (t :: ts).length := by simp; omega
        rw [hb] at this
        exact this


theorem run_snoc (max : Nat) (ks : List Kind) (k : Kind) : ∀ fs : Frames,
    run max fs (ks ++ [k]) = (run max fs ks).bind (fun fs' => step max fs' k) := by
  induction ks with
  | nil => intro fs; simp only [List.nil_append, run, Option.bind_some]; cases step max fs k <;> rfl
  | cons a ks ih =>
    intro fs
    simp only [List.cons_append, run]
    cases step max fs a with
    | none => rfl
    | some fs1 => exact ih fs1

theorem innermost_eq (o : Opts) (ts : List Tok) :
    innermostNames o ts = (track o (PDA.init, []) ts).2.headD [] := by
  unfold innermostNames
  cases (track o (PDA.init, []) ts).2 <;> rfl

/-- **WriteToken succeeds iff the grammar allows it.**  After any accepted token history `ts`
(from a new encoder, any options), `WriteToken t` succeeds iff `ts ++ [t]` is still a viable prefix of
a JSON stream, a string token passes the UTF-8 check of the options, and — unless duplicate names are
allowed — a member name does not repeat a name of the innermost open object. -/
theorem writeToken_ok_iff (o : Opts) (ts : List Tok) (e : Enc) (t : Tok) (hlen : ts.length + 1 < 2^61)
    (h : runToks (Encoder.new o) ts = some e) :
    (writeToken e t).2 = none ↔
      (Viable o.maxDepth ((ts ++ [t]).map kindOf) ∧ badUTF8 o t = false ∧
        (o.allowDup = false → FreshName o ts t)) := by
  obtain ⟨hI, hrun⟩ := runToks_inv o ts (encInv_new o) (by omega) h
  rw [writeToken_iff hI (by omega) t]
  have hv : Viable o.maxDepth ((ts ++ [t]).map kindOf) ↔
      (step o.maxDepth (track o (PDA.init, []) ts).1 (kindOf t)).isSome = true := by
    simp only [Viable, List.map_append, List.map_cons, List.map_nil, run_snoc, hrun, Option.bind]
  have hf : FreshName o ts t ↔ Fresh o (track o (PDA.init, []) ts).1 (track o (PDA.init, []) ts).2 t := by
    simp only [FreshName, Fresh, innermost_eq]
  rw [hv, hf]

end JsonV.Lemmas.EncIff
