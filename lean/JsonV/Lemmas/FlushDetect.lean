/-
C07 helper lemmas, part 9: `empty_detect` against the RFC 8259 grammar of Spec/Grammar.lean (slice C01, read-only).
The last bytes of a JSON value make UnwriteEmptyObjectMember's detection fire only for `null`, `""`, `{}`, `[]`:
`null` is the only value ending in `ll`; a string ending in `""` is either `""` or ends in an escaped quote `\""`
(excluded by the code's backslash test); a value ending in `{}` / `[]` is the empty object / array written without
inner whitespace, because no value ends in an opening bracket.
-/
import JsonV.Lemmas.FlushInvA
import JsonV.Spec.Grammar

namespace JsonV.Model.Flush
open JsonV JsonV.Spec.Grammar

theorem list_snoc_of_ne_nil {α} (l : List α) (h : l ≠ []) : ∃ q c, l = q ++ [c] := by
  cases hr : l.reverse with
  | nil => exact absurd (by simpa using hr) h
  | cons c r => exact ⟨r.reverse, c, by have := congrArg List.reverse hr; simpa using this⟩

theorem wsByte_isWs {c : UInt8} (h : WsByte c) : isWs c = true := by
  rcases h with rfl | rfl | rfl | rfl <;> decide

theorem digit_not_special {c : UInt8} (h : Digit c) :
    c ≠ 0x6c ∧ c ≠ 0x22 ∧ c ≠ 0x7d ∧ c ≠ 0x5d ∧ c ≠ 0x7b ∧ c ≠ 0x5b := by
  obtain ⟨h1, h2⟩ := h
  refine ⟨?_, ?_, ?_, ?_, ?_, ?_⟩ <;> (intro e; subst e; revert h1 h2; decide)

theorem hexDigit_ne_quote {c : UInt8} (h : HexDigit c) : c ≠ 0x22 := by
  intro e; subst e; unfold HexDigit at h; revert h; decide

theorem getLast?_append_ne_nil {α} (c r : List α) (hr : r ≠ []) : (c ++ r).getLast? = r.getLast? := by
  obtain ⟨q, x, rfl⟩ : ∃ q x, r = q ++ [x] := by
    cases hrr : r.reverse with
    | nil => exact absurd (by simpa using hrr) hr
    | cons x q => exact ⟨q.reverse, x, by have := congrArg List.reverse hrr; simpa using this⟩
  rw [← List.append_assoc]; simp

theorem digits1_last {ds : Bytes} (h : Digits1 ds) : ∃ q c, ds = q ++ [c] ∧ Digit c := by
  obtain ⟨q, c, rfl⟩ := list_snoc_of_ne_nil ds h.1
  exact ⟨q, c, rfl, h.2 c (by simp)⟩

/-- A number ends in a digit. -/
theorem jnumber_last {p : Bytes} (h : JNumber p) : ∃ q c, p = q ++ [c] ∧ Digit c := by
  cases h with
  | mk minus int frac exp _ hi hf he =>
    cases he with
    | some e sign ds _ _ hds =>
      obtain ⟨q, c, rfl, hc⟩ := digits1_last hds
      exact ⟨minus ++ int ++ frac ++ e :: (sign ++ q), c, by simp [List.append_assoc], hc⟩
    | none =>
      cases hf with
      | some ds hds =>
        obtain ⟨q, c, rfl, hc⟩ := digits1_last hds
        exact ⟨minus ++ int ++ 0x2e :: q, c, by simp [List.append_assoc], hc⟩
      | none =>
        cases hi with
        | zero => exact ⟨minus, 0x30, by simp, by unfold Digit; decide⟩
        | nonzero d ds hd hds =>
          by_cases hnil : ds = []
          · subst hnil
            exact ⟨minus, d, by simp, ⟨Nat.le_trans (by decide) hd.1, hd.2⟩⟩
          · obtain ⟨q, c, rfl⟩ := list_snoc_of_ne_nil ds hnil
            exact ⟨minus ++ d :: q, c, by simp [List.append_assoc], hds c (by simp)⟩

theorem leadInfo_lo {b sz lo hi : Nat} (h : Model.Utf8.leadInfo b = some (sz, lo, hi)) : 0x80 ≤ lo := by
  unfold Model.Utf8.leadInfo at h
  repeat (split at h; · (simp at h; omega))
  simp at h

/-- One `char` of a string: it is not empty, and if it ends in `"` it is the escape `\"`. -/
theorem jchar_last {strict : Bool} {c : Bytes} (h : JChar strict c) :
    ∃ q x, c = q ++ [x] ∧ (x = 0x22 → c = [0x5c, 0x22]) := by
  cases h with
  | plain x _ _ h3 _ => exact ⟨[], x, rfl, fun e => absurd e h3⟩
  | utf8 p hp =>
    obtain ⟨b0, b1, rest, sz, lo, hi, rfl, hlead, _, hlo, _, hcont⟩ := hp
    have hlo80 := leadInfo_lo hlead
    by_cases hr : rest = []
    · subst hr
      refine ⟨[b0], b1, rfl, ?_⟩
      intro e; subst e
      have : (0x22 : UInt8).toNat = 34 := by decide
      omega
    · obtain ⟨q, x, rfl⟩ := list_snoc_of_ne_nil rest hr
      refine ⟨b0 :: b1 :: q, x, by simp, ?_⟩
      intro e; subst e
      have h1 := hcont 0x22 (by simp)
      have h2 : Model.Utf8.isCont (0x22 : UInt8).toNat = false := by decide
      rw [h2] at h1; cases h1
  | raw x _ h2 =>
    refine ⟨[], x, rfl, ?_⟩
    intro e; subst e; revert h2; decide
  | esc x _ => exact ⟨[0x5c], x, rfl, fun e => by rw [e]⟩
  | uni a b c d _ _ _ hd _ => exact ⟨[0x5c, 0x75, a, b, c], d, rfl, fun e => absurd e (hexDigit_ne_quote hd)⟩
  | pair a b c d e f g h _ _ _ _ _ _ _ hh _ _ =>
    exact ⟨[0x5c, 0x75, a, b, c, d, 0x5c, 0x75, e, f, g], h, rfl, fun e' => absurd e' (hexDigit_ne_quote hh)⟩

/-- A string body that ends in `"` ends in the escape `\"`. -/
theorem jchars_last_quote {strict : Bool} {body : Bytes} (h : JChars strict body) :
    body.getLast? = some 0x22 → ∃ pre, body = pre ++ [0x5c, 0x22] := by
  induction h with
  | nil => intro e; simp at e
  | cons c r hc _ ih =>
    intro hl
    by_cases hr : r = []
    · subst hr
      obtain ⟨q, x, hcx, himp⟩ := jchar_last hc
      have : x = 0x22 := by
        rw [List.append_nil, hcx] at hl; simpa using hl
      exact ⟨[], by simp [himp this]⟩
    · have : (c ++ r).getLast? = r.getLast? := getLast?_append_ne_nil c r hr
      rw [this] at hl
      obtain ⟨pre, hpre⟩ := ih hl
      exact ⟨c ++ pre, by rw [hpre, List.append_assoc]⟩

/-- No JSON value ends in an opening bracket (or is empty). -/
theorem jvalue_last {o : GOpts} {md : Nat} {key : Bytes → Bytes} {d : Nat} {v : Bytes}
    (h : JValue o md key d v) : ∃ q c, v = q ++ [c] ∧ c ≠ 0x7b ∧ c ≠ 0x5b := by
  cases h with
  | null d => exact ⟨[0x6e, 0x75, 0x6c], 0x6c, rfl, by decide, by decide⟩
  | true d => exact ⟨[0x74, 0x72, 0x75], 0x65, rfl, by decide, by decide⟩
  | false d => exact ⟨[0x66, 0x61, 0x6c, 0x73], 0x65, rfl, by decide, by decide⟩
  | num d p hp =>
    obtain ⟨q, c, rfl, hc⟩ := jnumber_last hp
    exact ⟨q, c, rfl, (digit_not_special hc).2.2.2.2.1, (digit_not_special hc).2.2.2.2.2⟩
  | str d p hp =>
    obtain ⟨body, _, rfl⟩ := hp
    exact ⟨0x22 :: body, 0x22, by simp, by decide, by decide⟩
  | emptyArr d w _ _ => exact ⟨0x5b :: w, 0x5d, by simp, by decide, by decide⟩
  | arr d elems _ _ _ _ =>
    exact ⟨0x5b :: joinSep (elems.map fun e => e.1 ++ e.2.1 ++ e.2.2), 0x5d, rfl, by decide, by decide⟩
  | emptyObj d w _ _ => exact ⟨0x7b :: w, 0x7d, by simp, by decide, by decide⟩
  | obj d mems _ _ _ _ _ =>
    exact ⟨0x7b :: joinSep (mems.map fun m =>
      m.1 ++ m.2.1 ++ m.2.2.1 ++ [0x3A] ++ m.2.2.2.1 ++ m.2.2.2.2.1 ++ m.2.2.2.2.2), 0x7d, rfl, by decide, by decide⟩

theorem joinSep_snoc (l : List Bytes) (x : Bytes) : ∃ init, joinSep (l ++ [x]) = init ++ x := by
  induction l with
  | nil => exact ⟨[], by simp [joinSep]⟩
  | cons a l ih =>
    obtain ⟨init, hi⟩ := ih
    cases l with
    | nil => exact ⟨a ++ [0x2c], by simp [joinSep]⟩
    | cons b l' =>
      refine ⟨a ++ [0x2c] ++ init, ?_⟩
      have : joinSep (a :: (b :: l' ++ [x])) = a ++ [0x2c] ++ joinSep (b :: l' ++ [x]) := by
        simp [joinSep]
      rw [List.cons_append, this, hi]; simp [List.append_assoc]

/-- The byte before the closing bracket of a non-empty array/object body: whitespace or the last byte of a value,
never an opening bracket. -/
theorem piece_last (pre v w : Bytes) (hw : JWs w) (hv : ∃ q c, v = q ++ [c] ∧ c ≠ 0x7b ∧ c ≠ 0x5b) :
    ∃ q c, pre ++ v ++ w = q ++ [c] ∧ c ≠ 0x7b ∧ c ≠ 0x5b := by
  by_cases hnil : w = []
  · subst hnil
    obtain ⟨q, c, rfl, hc⟩ := hv
    exact ⟨pre ++ q, c, by simp [List.append_assoc], hc⟩
  · obtain ⟨q, c, rfl⟩ := list_snoc_of_ne_nil w hnil
    have := ws_not_special (wsByte_isWs (hw c (by simp)))
    exact ⟨pre ++ v ++ q, c, by simp [List.append_assoc], this.2.2.1, this.2.2.2.1⟩

/-- `x :: y :: …` with x a closing bracket makes the detection fire only when y is the matching opener. -/
theorem emptyLenR_close_opener {c y : UInt8} {R : List UInt8} (hc : c = 0x7d ∨ c = 0x5d)
    (h : emptyLenR (c :: y :: R) ≠ 0) : y = 0x7b ∨ y = 0x5b := by
  obtain ⟨x, y', z, r', hr, hcs⟩ := emptyLenR_ne_zero h
  have hx : c = x := by simpa using congrArg List.head? hr
  have hy : y = y' := by have := congrArg (fun l => l.tail.head?) hr; simpa using this
  subst hx hy
  rcases hcs with ⟨_, h⟩ | ⟨_, h, _⟩ | ⟨h1, _⟩ | ⟨h1, _⟩
  · rcases hc with hc | hc <;> (rw [hc] at h; exact absurd h (by decide))
  · rcases hc with hc | hc <;> (rw [hc] at h; exact absurd h (by decide))
  · exact Or.inl h1
  · exact Or.inr h1

/-- The classification: if the detection of UnwriteEmptyObjectMember fires on a stream ending in a JSON value, the value is `null`, `""`, `{}`
or `[]`.  (A string ending in an escaped quote, `…\""`, ends in `""` too; the code's backslash test — part of
`emptyLenR` — excludes it.) -/
theorem emptyText_of_jvalue {o : GOpts} {md : Nat} {key : Bytes → Bytes} {d : Nat} {v : Bytes}
    (hv : JValue o md key d v) (R : List UInt8)
    (h : emptyLenR (v.reverse ++ R) ≠ 0) : EmptyText v := by
  cases hv with
  | null d => exact EmptyText.null
  | true d =>
    obtain ⟨x, y, z, r', hr, hcs⟩ := emptyLenR_ne_zero h
    have hx : x = 0x65 := by have := congrArg List.head? hr; simpa [trueLit] using this.symm
    subst hx; rcases hcs with ⟨_, h⟩ | ⟨_, h, _⟩ | ⟨_, h⟩ | ⟨_, h⟩ <;> exact absurd h (by decide)
  | false d =>
    obtain ⟨x, y, z, r', hr, hcs⟩ := emptyLenR_ne_zero h
    have hx : x = 0x65 := by have := congrArg List.head? hr; simpa [falseLit] using this.symm
    subst hx; rcases hcs with ⟨_, h⟩ | ⟨_, h, _⟩ | ⟨_, h⟩ | ⟨_, h⟩ <;> exact absurd h (by decide)
  | num d p hp =>
    obtain ⟨q, c, rfl, hc⟩ := jnumber_last hp
    obtain ⟨x, y, z, r', hr, hcs⟩ := emptyLenR_ne_zero h
    have hx : x = c := by have := congrArg List.head? hr; simpa using this.symm
    subst hx
    have := digit_not_special hc
    rcases hcs with ⟨_, h⟩ | ⟨_, h, _⟩ | ⟨_, h⟩ | ⟨_, h⟩
    · exact absurd h this.1
    · exact absurd h this.2.1
    · exact absurd h this.2.2.1
    · exact absurd h this.2.2.2.1
  | str d p hp =>
    obtain ⟨body, hbody, rfl⟩ := hp
    by_cases hnil : body = []
    · subst hnil; exact EmptyText.str
    · exfalso
      obtain ⟨q, yb, rfl⟩ := list_snoc_of_ne_nil body hnil
      obtain ⟨x, y, z, r', hr, hcs⟩ := emptyLenR_ne_zero h
      have hr' : 0x22 :: yb :: (q.reverse ++ 0x22 :: R) = x :: y :: z :: r' := by
        rw [← hr]; simp
      have hx : x = 0x22 := by simpa using (congrArg List.head? hr').symm
      have hy : y = yb := by have := congrArg (fun l => l.tail.head?) hr'; simpa using this.symm
      subst hx hy
      rcases hcs with ⟨_, h⟩ | ⟨hy2, _, hz⟩ | ⟨_, h⟩ | ⟨_, h⟩
      · exact absurd h (by decide)
      · subst hy2
        obtain ⟨pre, hpre⟩ := jchars_last_quote hbody (by simp)
        have hq : q = pre ++ [0x5c] := by
          have : q ++ [0x22] = (pre ++ [0x5c]) ++ [0x22] := by rw [hpre]; simp
          exact List.append_cancel_right this
        apply hz
        have := congrArg (fun l => l.tail.tail.head?) hr'
        simpa [hq] using this.symm
      · exact absurd h (by decide)
      · exact absurd h (by decide)
  | emptyArr d w _ hw =>
    have hrev : (0x5b :: (w ++ [0x5d])).reverse ++ R = 0x5d :: (w.reverse ++ 0x5b :: R) := by simp
    rw [hrev] at h
    obtain ⟨hw0, _⟩ := emptyText_of_close 0x5d 0x5b w R (fun c hc => wsByte_isWs (hw c hc)) (Or.inr rfl) h
    subst hw0; exact EmptyText.arr
  | emptyObj d w _ hw =>
    have hrev : (0x7b :: (w ++ [0x7d])).reverse ++ R = 0x7d :: (w.reverse ++ 0x7b :: R) := by simp
    rw [hrev] at h
    obtain ⟨hw0, _⟩ := emptyText_of_close 0x7d 0x7b w R (fun c hc => wsByte_isWs (hw c hc)) (Or.inl rfl) h
    subst hw0; exact EmptyText.obj
  | arr d elems _ hne hws hvals =>
    exfalso
    obtain ⟨init, e, rfl⟩ := list_snoc_of_ne_nil elems hne
    obtain ⟨ini, hj⟩ := joinSep_snoc (init.map fun e => e.1 ++ e.2.1 ++ e.2.2) (e.1 ++ e.2.1 ++ e.2.2)
    obtain ⟨q, c, hqc, hc1, hc2⟩ := piece_last e.1 e.2.1 e.2.2 (hws e (by simp)).2 (jvalue_last (hvals e (by simp)))
    have hrev : (0x5b :: (joinSep ((init ++ [e]).map fun e => e.1 ++ e.2.1 ++ e.2.2) ++ [0x5d])).reverse ++ R =
        0x5d :: c :: (q.reverse ++ ini.reverse ++ 0x5b :: R) := by
      rw [List.map_append, List.map_singleton, hj, hqc]; simp [List.append_assoc]
    rw [hrev] at h
    rcases emptyLenR_close_opener (Or.inr rfl) h with hy | hy
    · exact hc1 hy
    · exact hc2 hy
  | obj d mems _ hne hws hvals _ =>
    exfalso
    obtain ⟨init, m, rfl⟩ := list_snoc_of_ne_nil mems hne
    obtain ⟨ini, hj⟩ := joinSep_snoc
      (init.map fun m => m.1 ++ m.2.1 ++ m.2.2.1 ++ [0x3A] ++ m.2.2.2.1 ++ m.2.2.2.2.1 ++ m.2.2.2.2.2)
      (m.1 ++ m.2.1 ++ m.2.2.1 ++ [0x3A] ++ m.2.2.2.1 ++ m.2.2.2.2.1 ++ m.2.2.2.2.2)
    obtain ⟨q, c, hqc, hc1, hc2⟩ := piece_last (m.1 ++ m.2.1 ++ m.2.2.1 ++ [0x3A] ++ m.2.2.2.1) m.2.2.2.2.1 m.2.2.2.2.2
      (hws m (by simp)).2.2.2.2 (jvalue_last (hvals m (by simp)))
    have hrev : (0x7b :: (joinSep ((init ++ [m]).map fun m =>
          m.1 ++ m.2.1 ++ m.2.2.1 ++ [0x3A] ++ m.2.2.2.1 ++ m.2.2.2.2.1 ++ m.2.2.2.2.2) ++ [0x7d])).reverse ++ R =
        0x7d :: c :: (q.reverse ++ ini.reverse ++ 0x7b :: R) := by
      rw [List.map_append, List.map_singleton, hj, hqc]; simp [List.append_assoc]
    rw [hrev] at h
    rcases emptyLenR_close_opener (Or.inl rfl) h with hy | hy
    · exact hc1 hy
    · exact hc2 hy

/-- The classification in terms of avoidFlush's own test: a JSON value whose last two bytes are `ll`, `""`, `{}` or
`[]` is `null`, `""`, `{}`, `[]`, or ends in an escaped quote followed by the closing quote (`…\""`) — exactly the
case that UnwriteEmptyObjectMember excludes with its `b[len(b)-3] == '\\'` test. -/
theorem jvalue_ends_classification {o : GOpts} {md : Nat} {key : Bytes → Bytes} {d : Nat} {v : Bytes}
    (hv : JValue o md key d v) (he : endsEmptyR v.reverse = true) :
    EmptyText v ∨ ∃ q, v = q ++ [0x5c, 0x22, 0x22] := by
  by_cases hz : emptyLenR (v.reverse ++ [0x00]) = 0
  · right
    match hvr : v.reverse, he, hz with
    | [], he, _ => simp [endsEmptyR] at he
    | [_], he, _ => simp [endsEmptyR] at he
    | [x, y], he, hz =>
      exfalso
      simp only [endsEmptyR, Bool.or_eq_true, Bool.and_eq_true, beq_iff_eq] at he
      rcases he with ((⟨rfl, rfl⟩ | ⟨rfl, rfl⟩) | ⟨rfl, rfl⟩) | ⟨rfl, rfl⟩ <;> simp [emptyLenR] at hz
    | x :: y :: z :: r, he, hz =>
      simp only [endsEmptyR, Bool.or_eq_true, Bool.and_eq_true, beq_iff_eq] at he
      have hzz : x = 0x22 ∧ y = 0x22 ∧ z = 0x5c := by
        rcases he with ((⟨rfl, rfl⟩ | ⟨rfl, rfl⟩) | ⟨rfl, rfl⟩) | ⟨rfl, rfl⟩
        · simp [emptyLenR] at hz
        · by_cases h5 : z = 0x5c
          · exact ⟨rfl, rfl, h5⟩
          · simp [emptyLenR, h5] at hz
        · simp [emptyLenR] at hz
        · simp [emptyLenR] at hz
      obtain ⟨rfl, rfl, rfl⟩ := hzz
      refine ⟨r.reverse, ?_⟩
      have := congrArg List.reverse hvr
      simpa using this
  · exact Or.inl (emptyText_of_jvalue hv [0x00] hz)

end JsonV.Model.Flush
