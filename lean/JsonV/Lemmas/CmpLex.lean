/-
Order lemmas for the spec comparison `lexCmp` on UTF-16 unit arrays, and the per-rune facts that the
surrogate trick of `CompareUTF16` relies on.
-/
import JsonV.Spec.Utf16Order

namespace JsonV.Lemmas.CmpLex
open JsonV JsonV.Spec.Utf16Order

theorem lexCmp_self (a : List Nat) : lexCmp a a = 0 := by
  induction a with
  | nil => rfl
  | cons x xs ih => simp [lexCmp, ih]

theorem lexCmp_range (a b : List Nat) : lexCmp a b = -1 ∨ lexCmp a b = 0 ∨ lexCmp a b = 1 := by
  induction a generalizing b with
  | nil => cases b <;> simp [lexCmp]
  | cons x xs ih =>
    cases b with
    | nil => simp [lexCmp]
    | cons y ys =>
      simp only [lexCmp]
      split
      · simp
      · split
        · simp
        · exact ih ys

theorem lexCmp_swap (a b : List Nat) : lexCmp b a = - lexCmp a b := by
  induction a generalizing b with
  | nil => cases b <;> simp [lexCmp]
  | cons x xs ih =>
    cases b with
    | nil => simp [lexCmp]
    | cons y ys =>
      simp only [lexCmp]
      by_cases h1 : x < y
      · have : ¬ y < x := by omega
        simp [h1, this]
      · by_cases h2 : y < x
        · simp [h1, h2]
        · simp [h1, h2, ih ys]

theorem lexCmp_eq_zero {a b : List Nat} : lexCmp a b = 0 ↔ a = b := by
  induction a generalizing b with
  | nil => cases b <;> simp [lexCmp]
  | cons x xs ih =>
    cases b with
    | nil => simp [lexCmp]
    | cons y ys =>
      simp only [lexCmp]
      by_cases h1 : x < y
      · simp [h1]; omega
      · by_cases h2 : y < x
        · simp [h1, h2]; omega
        · have : x = y := by omega
          simp [ih, this]

theorem lexCmp_le_trans {a b c : List Nat} (h1 : lexCmp a b ≤ 0) (h2 : lexCmp b c ≤ 0) : lexCmp a c ≤ 0 := by
  induction a generalizing b c with
  | nil => cases c <;> simp [lexCmp]
  | cons x xs ih =>
    cases b with
    | nil => simp [lexCmp] at h1
    | cons y ys =>
      cases c with
      | nil => simp [lexCmp] at h2
      | cons z zs =>
        simp only [lexCmp] at h1 h2 ⊢
        by_cases hxy : x < y
        · by_cases hyz : y < z
          · have : x < z := by omega
            simp [this]
          · by_cases hzy : z < y
            · simp [hyz, hzy] at h2
            · have : x < z := by omega
              simp [this]
        · by_cases hyx : y < x
          · simp [hxy, hyx] at h1
          · simp only [hxy, hyx, if_false] at h1
            have e : x = y := by omega
            subst e
            by_cases hxz : x < z
            · simp [hxz]
            · by_cases hzx : z < x
              · simp [hxz, hzx] at h2
              · simp only [hxz, hzx, if_false] at h2 ⊢
                exact ih h1 h2

/-- Strict version: `a < b ≤ c → a < c`. -/
theorem lexCmp_lt_of_lt_of_le {a b c : List Nat} (h1 : lexCmp a b < 0) (h2 : lexCmp b c ≤ 0) : lexCmp a c < 0 := by
  have h3 : lexCmp a c ≤ 0 := lexCmp_le_trans (Int.le_of_lt h1) h2
  rcases Int.lt_or_eq_of_le h3 with h | h
  · exact h
  · have e := lexCmp_eq_zero.mp h
    subst e
    have h4 : lexCmp b a ≤ 0 := h2
    rw [lexCmp_swap] at h4
    omega

theorem lexCmp_total (a b : List Nat) : lexCmp a b ≤ 0 ∨ lexCmp b a ≤ 0 := by
  rw [lexCmp_swap a b]
  rcases lexCmp_range a b with h | h | h <;> omega

/-! ### Per-rune facts -/

theorem unitsOfRune_ne_nil (r : Nat) : unitsOfRune r ≠ [] := by
  unfold unitsOfRune; split <;> simp

/-- The UTF-16 encodings of two different scalar values already differ as unit arrays, and neither is a
prefix of the other: whatever follows does not matter. -/
theorem lexCmp_units_append (r s : Nat) (hr : IsScalar r) (hs : IsScalar s) (U V : List Nat) :
    lexCmp (unitsOfRune r ++ U) (unitsOfRune s ++ V) =
      if r = s then lexCmp U V else lexCmp (unitsOfRune r) (unitsOfRune s) := by
  unfold IsScalar at hr hs
  by_cases e : r = s
  · subst e
    simp only [if_true]
    unfold unitsOfRune
    split <;> simp [lexCmp]
  · simp only [e, if_false]
    unfold unitsOfRune
    by_cases h1 : r < 0x10000 <;> by_cases h2 : s < 0x10000
    · simp only [h1, h2, if_true, List.cons_append, List.nil_append, lexCmp]
      by_cases a : r < s
      · simp [a]
      · have : s < r := by omega
        simp [a, this]
    · simp only [h1, h2, if_true, if_false, List.cons_append, List.nil_append, lexCmp]
      by_cases a : r < 0xD800 + (s - 0x10000) / 1024
      · simp [a]
      · have : 0xD800 + (s - 0x10000) / 1024 < r := by omega
        simp [a, this]
    · simp only [h1, h2, if_true, if_false, List.cons_append, List.nil_append, lexCmp]
      by_cases a : 0xD800 + (r - 0x10000) / 1024 < s
      · simp [a]
      · have : s < 0xD800 + (r - 0x10000) / 1024 := by omega
        simp [a, this]
    · simp only [h1, h2, if_false, List.cons_append, List.nil_append, lexCmp]
      by_cases a : 0xD800 + (r - 0x10000) / 1024 < 0xD800 + (s - 0x10000) / 1024
      · simp [a]
      · by_cases b : 0xD800 + (s - 0x10000) / 1024 < 0xD800 + (r - 0x10000) / 1024
        · simp [a, b]
        · simp only [a, b, if_false]
          by_cases c : 0xDC00 + (r - 0x10000) % 1024 < 0xDC00 + (s - 0x10000) % 1024
          · simp [c]
          · have : 0xDC00 + (s - 0x10000) % 1024 < 0xDC00 + (r - 0x10000) % 1024 := by omega
            simp [c, this]

theorem lexCmp_unitsOfRune_ne_zero (r s : Nat) (_hr : IsScalar r) (_hs : IsScalar s) (e : r ≠ s) :
    lexCmp (unitsOfRune r) (unitsOfRune s) ≠ 0 := by
  intro h
  have h' := lexCmp_eq_zero.mp h
  unfold unitsOfRune at h'
  by_cases h1 : r < 0x10000 <;> by_cases h2 : s < 0x10000 <;> simp [h1, h2] at h' <;> omega

/-- `units` is injective on lists of scalar values (UTF-16 is uniquely decodable). -/
theorem units_inj {rs ss : List Nat} (hr : ∀ r ∈ rs, IsScalar r) (hs : ∀ s ∈ ss, IsScalar s)
    (h : units rs = units ss) : rs = ss := by
  induction rs generalizing ss with
  | nil =>
    cases ss with
    | nil => rfl
    | cons s ss' =>
      simp only [units, List.flatMap_nil, List.flatMap_cons] at h
      have := unitsOfRune_ne_nil s
      cases hh : unitsOfRune s with
      | nil => exact absurd hh this
      | cons a as => rw [hh] at h; simp at h
  | cons r rs' ih =>
    cases ss with
    | nil =>
      simp only [units, List.flatMap_nil, List.flatMap_cons] at h
      have := unitsOfRune_ne_nil r
      cases hh : unitsOfRune r with
      | nil => exact absurd hh this
      | cons a as => rw [hh] at h; simp at h
    | cons s ss' =>
      have hr0 := hr r (by simp)
      have hs0 := hs s (by simp)
      have h0 : lexCmp (units (r :: rs')) (units (s :: ss')) = 0 := by rw [h]; exact lexCmp_self _
      simp only [units, List.flatMap_cons] at h0
      rw [lexCmp_units_append r s hr0 hs0] at h0
      by_cases e : r = s
      · subst e
        simp only [if_true] at h0
        have := ih (fun x hx => hr x (by simp [hx])) (fun x hx => hs x (by simp [hx])) (lexCmp_eq_zero.mp h0)
        rw [this]
      · simp only [e, if_false] at h0
        exact absurd h0 (lexCmp_unitsOfRune_ne_zero r s hr0 hs0 e)

end JsonV.Lemmas.CmpLex
