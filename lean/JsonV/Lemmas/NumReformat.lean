/-
C10 lemmas: jsonwire.ReformatNumber, every flag combination (the CanonicalizeRawInts / CanonicalizeRawFloats
paths, the `n < 16` integer shortcut, `-0`, saturation of ±Inf).
-/
import JsonV.Lemmas.CanonAtom

namespace JsonV.Lemmas.NumReformat
open JsonV JsonV.Model.Number JsonV.Canon JsonV.Lemmas.CanonAtom

/-- The decision of `ReformatNumber` to copy the consumed number verbatim:
flags off; or (not `-0`) a float literal without CanonicalizeRawFloats; or (not `-0`) an integer literal without
CanonicalizeRawInts or shorter than 16 characters. -/
def verbatimB (ci cf : Bool) (lit : Bytes) : Bool :=
  !(ci || cf) ||
    (!(lit == [45, 48]) &&
      (if lit.any (fun c => c == 46 || c == 101 || c == 69) then !cf
       else !ci || decide (lit.length < maxExactIntegerDigits)))

/-- ReformatNumber in closed form: the literal itself, or AppendFloat of its (normalised) float64 value. -/
theorem reformat_cases (fp : FloatCodec) (ci cf : Bool) (lit : Bytes) :
    reformatNumber fp.parse fp.append ci cf lit =
      if verbatimB ci cf lit then lit else fp.append (numValue fp lit) := by
  unfold reformatNumber verbatimB numValue
  by_cases h0 : (ci || cf) = true
  · by_cases h1 : lit = [45, 48]
    · subst h1; simp [h0]
    · by_cases h2 : (lit.any fun c => c == 46 || c == 101 || c == 69) = true
      · cases cf <;> simp [h0, h1, h2]
      · by_cases h3 : lit.length < maxExactIntegerDigits
        · simp [h0, h1, h2, h3]
        · cases ci <;> simp [h0, h1, h2, h3]
  · simp [h0]

theorem verbatimB_off (lit : Bytes) : verbatimB false false lit = true := by simp [verbatimB]

theorem verbatimB_on (lit : Bytes) : verbatimB true true lit = shortInt lit := by
  simp only [verbatimB, shortInt, Bool.or_self, Bool.not_true, Bool.false_or]
  by_cases h2 : (lit.any fun c => c == 46 || c == 101 || c == 69) = true
  · simp [h2]
  · simp [h2]

/-- Idempotence for every flag combination, from the re-read law alone. -/
theorem reformat_idem (fp : FloatCodec)
    (hre : ∀ lit, numValue fp (fp.append (numValue fp lit)) = numValue fp lit) (ci cf : Bool) (lit : Bytes) :
    reformatNumber fp.parse fp.append ci cf (reformatNumber fp.parse fp.append ci cf lit) =
      reformatNumber fp.parse fp.append ci cf lit := by
  rw [reformat_cases fp ci cf lit]
  by_cases hv : verbatimB ci cf lit = true
  · rw [if_pos hv, reformat_cases, if_pos hv]
  · rw [if_neg hv, reformat_cases]
    by_cases hv2 : verbatimB ci cf (fp.append (numValue fp lit)) = true
    · rw [if_pos hv2]
    · rw [if_neg hv2, hre lit]

end JsonV.Lemmas.NumReformat
