/-
C10 lemmas: Token.Float.  On a raw token it is the float parser; on a token built with jsontext.Int / Uint it is
Go's integer→float64 conversion (round to nearest even), which is what the correctly rounding parser returns on
the rendered literal — so typed and raw tokens agree for the Float accessor as well.
-/
import JsonV.Lemmas.NumTok
import JsonV.Lemmas.NumDenote

namespace JsonV.Lemmas.NumTokFloat
open JsonV JsonV.Model.Number JsonV.Lemmas.NumInt JsonV.Lemmas.NumParse

/-- all-digit strings: the split of the exact parser -/
theorem splitNumber_digits (b : Bytes) (hd : ∀ c ∈ b, Spec.Ecma.isDigit c = true) (hm : b.head? ≠ some 45) :
    splitNumber b = (false, b, 0, 0) := by
  have hneg : (b.head? == some 45) = false := by simpa using hm
  have h1 : b.takeWhile Model.Number.isDigit = b := JsonV.Lemmas.NumDenote.takeWhile_all b hd
  have h2 : b.dropWhile Model.Number.isDigit = [] := JsonV.Lemmas.NumGrammar.dropWhile_all b hd
  simp only [splitNumber, hneg, Bool.false_eq_true, if_false, h1, h2, List.append_nil, List.length_nil]

theorem splitNumber_minus_digits (b : Bytes) (hd : ∀ c ∈ b, Spec.Ecma.isDigit c = true) :
    splitNumber (45 :: b) = (true, b, 0, 0) := by
  have h1 : b.takeWhile Model.Number.isDigit = b := JsonV.Lemmas.NumDenote.takeWhile_all b hd
  have h2 : b.dropWhile Model.Number.isDigit = [] := JsonV.Lemmas.NumGrammar.dropWhile_all b hd
  simp only [splitNumber, List.head?_cons, beq_self_eq_true, if_true, List.drop_one, List.tail_cons, h1, h2,
    List.append_nil, List.length_nil]

theorem formatUint_digits (u : Nat) : ∀ c ∈ formatUint u, Spec.Ecma.isDigit c = true := by
  have := formatUint_canonical u
  simp only [Spec.Ecma.canonicalDecimal, Bool.and_eq_true, List.all_eq_true] at this
  exact this.1.2

/-- The exact parser on a canonical decimal: the integer, rounded once. -/
theorem parseExact_digits (ff : FloatFmt) (neg : Bool) (u : Nat) (h0 : u ≠ 0) :
    parseFloatExact ff (if neg then 45 :: formatUint u else formatUint u) = roundFl ff ⟨neg, false, u, 0⟩ := by
  have hd := formatUint_digits u
  have hv : decVal (formatUint u) = u := bytesVal_formatUint u
  have hsplit : splitNumber (if neg then 45 :: formatUint u else formatUint u) = (neg, formatUint u, 0, 0) := by
    cases neg
    · exact splitNumber_digits _ hd (canonical_not_minus _ (formatUint_canonical u))
    · exact splitNumber_minus_digits _ hd
  have hu : (u == 0) = false := by simpa using h0
  simp only [parseFloatExact, hsplit, hv, hu, Bool.false_eq_true, if_false, roundFl]
  have h400 : ¬ ((0 : Int) - ((0 : Nat) : Int) > 400) := by omega
  have hlow : ¬ ((0 : Int) - ((0 : Nat) : Int) + ((formatUint u).length : Int) < -400) := by omega
  have hge : ((0 : Int) - ((0 : Nat) : Int) ≥ 0) := by omega
  have hge0 : ((0 : Int) ≥ 0) := by omega
  rw [if_neg h400, if_neg hlow, if_pos hge, if_pos hge0]
  simp

theorem formatInt_zero : formatInt 0 = [48] := by
  simp [formatInt, formatUint, natDigits, digitByte]

theorem formatUint_zero : formatUint 0 = [48] := by
  simp [formatUint, natDigits, digitByte]

/-- jsontext.Int(n).Float(): Go's int64→float64 conversion, no error; its value is the one the raw token of the
rendered literal reports under the correctly rounding parser. -/
theorem mkInt_float (pf32 : Bytes → Fl) (n : Int) (h1 : -(2 ^ 63 : Int) ≤ n) (h2 : n < 2 ^ 63) :
    (tokFloat64 (parseFloatExact fmt64) pf32 (mkInt n)).1 =
      (tokFloat64 (parseFloatExact fmt64) pf32 (.raw (formatInt n))).1 ∧
    (n ≠ 0 → tokFloat64 (parseFloatExact fmt64) pf32 (mkInt n) =
      (roundFl fmt64 ⟨decide (n < 0), false, n.natAbs, 0⟩, .none)) := by
  by_cases h0 : n = 0
  · subst h0
    refine ⟨?_, fun h => absurd rfl h⟩
    rw [formatInt_zero]; rfl
  · have hne : n.natAbs ≠ 0 := by omega
    have hp := parseExact_digits fmt64 (decide (n < 0)) n.natAbs hne
    have hfi : formatInt n = (if decide (n < 0) = true then 45 :: formatUint n.natAbs else formatUint n.natAbs) := by
      unfold formatInt
      by_cases hn : n < 0 <;> simp [hn]
    have hlt : ((Int64.ofInt n).toUInt64.toInt64 < 0) ↔ n < 0 := by
      rw [Int64.toInt64_toUInt64, Int64.lt_iff_toInt_lt, Int64.toInt_ofInt_of_le (by simpa using h1) (by simpa using h2)]
      simp
    have hdec : decide ((Int64.ofInt n).toUInt64.toInt64 < 0) = decide (n < 0) := decide_eq_decide.2 hlt
    have hval : tokFloat64 (parseFloatExact fmt64) pf32 (mkInt n) = (roundFl fmt64 ⟨decide (n < 0), false, n.natAbs, 0⟩, .none) := by
      unfold mkInt
      rw [if_neg (by simpa using h0)]
      simp only [tokFloat64, tokFloatBits, hdec, int64_roundtrip n h1 h2]
    refine ⟨?_, fun _ => hval⟩
    rw [hval]
    simp only [tokFloat64, tokFloatBits, tokenFloat, Bool.false_eq_true, if_false]
    rw [hfi, hp]

/-- jsontext.Uint(u).Float(), likewise. -/
theorem mkUint_float (pf32 : Bytes → Fl) (u : Nat) (h : u < 2 ^ 64) :
    (tokFloat64 (parseFloatExact fmt64) pf32 (mkUint u)).1 =
      (tokFloat64 (parseFloatExact fmt64) pf32 (.raw (formatUint u))).1 ∧
    (u ≠ 0 → tokFloat64 (parseFloatExact fmt64) pf32 (mkUint u) = (roundFl fmt64 ⟨false, false, u, 0⟩, .none)) := by
  by_cases h0 : u = 0
  · subst h0
    refine ⟨?_, fun h => absurd rfl h⟩
    rw [formatUint_zero]; rfl
  · have hp := parseExact_digits fmt64 false u h0
    have hval : tokFloat64 (parseFloatExact fmt64) pf32 (mkUint u) = (roundFl fmt64 ⟨false, false, u, 0⟩, .none) := by
      unfold mkUint
      rw [if_neg (by simpa using h0)]
      simp only [tokFloat64, tokFloatBits, ofNat_toNat_lt u h]
    refine ⟨?_, fun _ => hval⟩
    rw [hval]
    simp only [tokFloat64, tokFloatBits, tokenFloat, Bool.false_eq_true, if_false]
    simp only [Bool.false_eq_true, if_false] at hp
    rw [hp]

end JsonV.Lemmas.NumTokFloat
