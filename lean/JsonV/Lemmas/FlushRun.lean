/-
C07 helper lemmas, part 3: the encoder output model (Model/Flush.lean part (ii)) under arbitrary flush
decisions and writer behaviour.
-/
import JsonV.Lemmas.FlushUnwrite

namespace JsonV.Model.Flush
open JsonV

/-! ### flush only moves bytes (and adds the top-level newline) -/

/-- The newline that Flush appends after a top-level value. -/
def flushNL (e : Enc) : Bytes :=
  if avoidFlush e then [] else if e.depth == 1 && !e.omitNL then [0x0a] else []

theorem flush_of_avoid {e : Enc} (h : avoidFlush e = true) (a : WAct) : flush e a = e := by
  simp [flush, h]

theorem flush_frames (e : Enc) (a : WAct) :
    (flush e a).last = e.last ∧ (flush e a).stack = e.stack ∧ (flush e a).omitNL = e.omitNL := by
  cases h : avoidFlush e
  · cases a <;> simp [flush, h]
  · simp [flush_of_avoid h]

@[simp] theorem flush_last (e : Enc) (a : WAct) : (flush e a).last = e.last := (flush_frames e a).1
@[simp] theorem flush_stack (e : Enc) (a : WAct) : (flush e a).stack = e.stack := (flush_frames e a).2.1
@[simp] theorem flush_omitNL (e : Enc) (a : WAct) : (flush e a).omitNL = e.omitNL := (flush_frames e a).2.2

theorem flush_total (e : Enc) (a : WAct) : (flush e a).total = e.total ++ flushNL e := by
  cases h : avoidFlush e
  · cases hn : (e.depth == 1 && !e.omitNL) <;> cases a <;>
      simp [flush, flushNL, h, hn, Enc.total, List.append_assoc]
  · simp [flush_of_avoid h, flushNL, h]

/-- What the writer has accepted only ever grows. -/
theorem flush_delivered_prefix (e : Enc) (a : WAct) : e.delivered <+: (flush e a).delivered := by
  cases h : avoidFlush e
  · cases a <;> simp [flush, h]
  · simp [flush_of_avoid h]

/-- With an accepting writer, a flush that is not suppressed empties the buffer. -/
theorem flush_ok_buf {e : Enc} (h : avoidFlush e = false) : (flush e .ok).buf = [] := by
  simp [flush, h]

/-! ### the bottom frame is the top-level pseudo-array -/

def bottomIsObj : Frame → List Frame → Bool
  | f, [] => f.isObj
  | _, p :: s => bottomIsObj p s

theorem bottomIsObj_inc (f : Frame) (s : List Frame) : bottomIsObj f.inc s = bottomIsObj f s := by
  cases s <;> rfl

/-- At depth 1 avoidFlush only looks at Length(). -/
theorem avoidFlush_top {e : Enc} (hb : bottomIsObj e.last e.stack = false) (hs : e.stack = []) :
    avoidFlush e = decide (e.last.len = 0) := by
  have : e.last.isObj = false := by simpa [hs, bottomIsObj] using hb
  simp [avoidFlush, Frame.needValue, Frame.needName, this]

theorem nextFrames_bottom {last l : Frame} {stack s : List Frame} {t : Tok}
    (h : nextFrames last stack t = some (l, s)) (hb : bottomIsObj last stack = false) : bottomIsObj l s = false := by
  cases t with
  | scalar x => simp [nextFrames] at h; obtain ⟨rfl, rfl⟩ := h; simpa [bottomIsObj_inc] using hb
  | str x => simp [nextFrames] at h; obtain ⟨rfl, rfl⟩ := h; simpa [bottomIsObj_inc] using hb
  | openObj => simp [nextFrames] at h; obtain ⟨rfl, rfl⟩ := h; simpa [bottomIsObj, bottomIsObj_inc] using hb
  | openArr => simp [nextFrames] at h; obtain ⟨rfl, rfl⟩ := h; simpa [bottomIsObj, bottomIsObj_inc] using hb
  | closeObj =>
    cases stack with
    | nil => simp [nextFrames] at h
    | cons p r => simp [nextFrames] at h; obtain ⟨rfl, rfl⟩ := h; simpa [bottomIsObj] using hb
  | closeArr =>
    cases stack with
    | nil => simp [nextFrames] at h
    | cons p r => simp [nextFrames] at h; obtain ⟨rfl, rfl⟩ := h; simpa [bottomIsObj] using hb

/-- Everything a successful write does. -/
theorem write_some {e e' : Enc} {t : Tok} {ws : Bytes} (h : write e t ws = some e') :
    accepts e.last e.stack t = true ∧ nextFrames e.last e.stack t = some (e'.last, e'.stack) ∧
    e'.buf = e.buf ++ delim e.last e.stack t ++ ws ++ t.text ∧ e'.delivered = e.delivered ∧ e'.omitNL = e.omitNL := by
  unfold write at h
  cases ha : accepts e.last e.stack t
  · simp [ha] at h
  · cases hn : nextFrames e.last e.stack t with
    | none => simp [ha, hn] at h
    | some p =>
      obtain ⟨l, s⟩ := p
      simp [ha, hn] at h
      subst h
      simp

theorem write_none_iff (e : Enc) (t : Tok) (ws : Bytes) :
    write e t ws = none ↔ (accepts e.last e.stack t = false ∨ nextFrames e.last e.stack t = none) := by
  unfold write
  cases ha : accepts e.last e.stack t
  · simp
  · cases hn : nextFrames e.last e.stack t with
    | none => simp
    | some p => obtain ⟨l, s⟩ := p; simp

/-! ### two runs of the same calls -/

/-- Same frames, same total stream. -/
structure Sim (e₁ e₂ : Enc) : Prop where
  total : e₁.total = e₂.total
  last : e₁.last = e₂.last
  stack : e₁.stack = e₂.stack
  omitNL : e₁.omitNL = e₂.omitNL

theorem Sim.refl (e : Enc) : Sim e e := ⟨rfl, rfl, rfl, rfl⟩

/-- The bytes a write appends and the frames it produces depend on the frames only. -/
theorem write_sim {e₁ e₂ : Enc} (h : Sim e₁ e₂) (t : Tok) (ws : Bytes) :
    (write e₁ t ws = none ∧ write e₂ t ws = none) ∨
    (∃ e₁' e₂', write e₁ t ws = some e₁' ∧ write e₂ t ws = some e₂' ∧ Sim e₁' e₂') := by
  cases h1 : write e₁ t ws with
  | none =>
    left
    refine ⟨rfl, ?_⟩
    rw [write_none_iff] at h1 ⊢
    rw [← h.last, ← h.stack]; exact h1
  | some e₁' =>
    right
    cases h2 : write e₂ t ws with
    | none =>
      rw [write_none_iff, ← h.last, ← h.stack] at h2
      have := (write_none_iff e₁ t ws).mpr h2
      rw [h1] at this; cases this
    | some e₂' =>
      refine ⟨e₁', e₂', rfl, rfl, ?_⟩
      obtain ⟨_, n1, b1, d1, o1⟩ := write_some h1
      obtain ⟨_, n2, b2, d2, o2⟩ := write_some h2
      rw [← h.last, ← h.stack, n1] at n2
      simp only [Option.some.injEq, Prod.mk.injEq] at n2
      refine ⟨?_, n2.1, n2.2, by rw [o1, o2, h.omitNL]⟩
      have ht := h.total
      simp only [Enc.total] at ht ⊢
      rw [b1, b2, d1, d2, ← h.last, ← h.stack]
      simp only [← List.append_assoc]
      rw [ht]

/-- One token call under two different flush decisions / writer behaviours. -/
theorem step_tok_sim {e₁ e₂ : Enc} (h : Sim e₁ e₂) (hb : bottomIsObj e₁.last e₁.stack = false)
    (t : Tok) (ws : Bytes) (s₁ s₂ : Sched) :
    Sim (step e₁ (.tok t ws) s₁) (step e₂ (.tok t ws) s₂) ∧
    bottomIsObj (step e₁ (.tok t ws) s₁).last (step e₁ (.tok t ws) s₁).stack = false := by
  rcases write_sim h t ws with ⟨h1, h2⟩ | ⟨e₁', e₂', h1, h2, hs⟩
  · simp [step, h1, h2, h, hb]
  · have hb' : bottomIsObj e₁'.last e₁'.stack = false := nextFrames_bottom (write_some h1).2.1 hb
    have hb2 : bottomIsObj e₂'.last e₂'.stack = false := by rw [← hs.last, ← hs.stack]; exact hb'
    -- a flush (or none) on either side keeps the relation
    have key : ∀ (f₁ f₂ : Bool) a₁ a₂, (e₁'.stack = [] → f₁ = true ∧ f₂ = true) →
        Sim (if f₁ then flush e₁' a₁ else e₁') (if f₂ then flush e₂' a₂ else e₂') := by
      intro f₁ f₂ a₁ a₂ hf
      have frames : ∀ (f : Bool) (e : Enc) a, (if f then flush e a else e).last = e.last ∧
          (if f then flush e a else e).stack = e.stack ∧ (if f then flush e a else e).omitNL = e.omitNL := by
        intro f e a; cases f <;> simp
      refine ⟨?_, ?_, ?_, ?_⟩
      · by_cases hst : e₁'.stack = []
        · obtain ⟨rfl, rfl⟩ := hf hst
          have hst2 : e₂'.stack = [] := by rw [← hs.stack]; exact hst
          have hav : avoidFlush e₁' = avoidFlush e₂' := by
            rw [avoidFlush_top hb' hst, avoidFlush_top hb2 hst2, hs.last]
          simp only [if_true]
          rw [flush_total, flush_total, hs.total]
          simp [flushNL, hav, Enc.depth, hst, hst2, hs.omitNL]
        · have hst2 : e₂'.stack ≠ [] := by rw [← hs.stack]; exact hst
          have hdeep : ∀ (f : Bool) (e : Enc) a, e.stack ≠ [] → (if f then flush e a else e).total = e.total := by
            intro f e a hne
            cases f
            · simp
            · have : e.stack.length ≠ 0 := by simpa using hne
              simp [flush_total, flushNL, Enc.depth, this]
          rw [hdeep _ _ _ hst, hdeep _ _ _ hst2, hs.total]
      · rw [(frames _ _ _).1, (frames _ _ _).1, hs.last]
      · rw [(frames _ _ _).2.1, (frames _ _ _).2.1, hs.stack]
      · rw [(frames _ _ _).2.2, (frames _ _ _).2.2, hs.omitNL]
    have hk := key (e₁'.stack.isEmpty || s₁.want) (e₂'.stack.isEmpty || s₂.want) s₁.act s₂.act (by
      intro hst
      have hst2 : e₂'.stack = [] := by rw [← hs.stack]; exact hst
      simp [hst, hst2])
    refine ⟨by simpa [step, h1, h2] using hk, ?_⟩
    simp only [step, h1]
    split <;> simpa using hb'

/-! ### token-only call sequences -/

def tokOnly : List (Op × Sched) → Prop
  | [] => True
  | (.tok _ _, _) :: rest => tokOnly rest
  | _ :: _ => False

theorem run_tok_sim : ∀ (l₁ l₂ : List (Op × Sched)) (e₁ e₂ : Enc), Sim e₁ e₂ →
    bottomIsObj e₁.last e₁.stack = false → tokOnly l₁ → l₁.map Prod.fst = l₂.map Prod.fst →
    Sim (run e₁ l₁) (run e₂ l₂)
  | [], [], _, _, h, _, _, _ => by simpa [run] using h
  | [], _ :: _, _, _, _, _, _, hl => by simp at hl
  | _ :: _, [], _, _, _, _, _, hl => by simp at hl
  | (op₁, s₁) :: r₁, (op₂, s₂) :: r₂, e₁, e₂, h, hb, ht, hl => by
    simp only [List.map_cons, List.cons.injEq] at hl
    obtain ⟨ho, hr⟩ := hl
    have ho : op₁ = op₂ := ho
    subst ho
    cases op₁ with
    | tok t ws =>
      have := step_tok_sim h hb t ws s₁ s₂
      exact run_tok_sim r₁ r₂ _ _ this.1 this.2 (by simpa [tokOnly] using ht) hr
    | unwriteEmpty => simp [tokOnly] at ht
    | unwriteName => simp [tokOnly] at ht

/-- What the writer accepted only grows along a run. -/
theorem step_delivered_prefix (e : Enc) (op : Op) (s : Sched) : e.delivered <+: (step e op s).delivered := by
  cases op with
  | tok t ws =>
    simp only [step]
    cases hw : write e t ws with
    | none => exact List.prefix_refl _
    | some e' =>
      have hd : e'.delivered = e.delivered := (write_some hw).2.2.2.1
      simp only
      split
      · rw [← hd]; exact flush_delivered_prefix _ _
      · rw [hd]; exact List.prefix_refl _
  | unwriteEmpty =>
    simp only [step, unwriteEmpty]
    split
    · exact List.prefix_refl _
    · split <;> exact List.prefix_refl _
  | unwriteName =>
    simp only [step, unwriteName]
    split <;> exact List.prefix_refl _

theorem run_delivered_prefix : ∀ (l : List (Op × Sched)) (e : Enc), e.delivered <+: (run e l).delivered
  | [], _ => List.prefix_refl _
  | (op, s) :: r, e => List.IsPrefix.trans (step_delivered_prefix e op s) (run_delivered_prefix r _)

end JsonV.Model.Flush
