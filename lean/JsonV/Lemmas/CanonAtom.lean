/-
Facts about the re-spelling of single literals in Model/Canon.lean, from the theorems of slices C11 (strings)
and C10 (numbers).
-/
import JsonV.Model.Canon
import JsonV.Props.C11
import JsonV.Props.C10

namespace JsonV.Lemmas.CanonAtom
open JsonV JsonV.Canon JsonV.Model JsonV.Model.Utf8 JsonV.Model.Quote JsonV.Spec.StringSpec
open JsonV.Fmt hiding strOK respell
open JsonV.Model.Number

/-! ### strings -/

/-- The re-quoted literal is the RFC 8785 §3.2.2.2 serialisation of the literal's text. -/
theorem canonStr_minimal (lit : Bytes) : canonStr lit = canonQuote (unq lit) :=
  JsonV.Props.C11.quote_minimal {} (unq lit) rfl rfl

theorem strOK_iff (lit : Bytes) : strOK lit = true ↔ (appendUnquote lit).2 = Err.ok ∧ valid (unq lit) = true := by
  simp [strOK]

/-- Unquoting the re-quoted literal gives back the same text, without error. -/
theorem unquote_canonStr (lit : Bytes) (h : strOK lit = true) : appendUnquote (canonStr lit) = (unq lit, Err.ok) :=
  (JsonV.Props.C11.unquote_quote {} (unq lit)
    (JsonV.Props.C11.wellFormed_of_valid _ ((strOK_iff lit).mp h).2)).1

theorem unq_canonStr (lit : Bytes) (h : strOK lit = true) : unq (canonStr lit) = unq lit := by
  show (appendUnquote (canonStr lit)).1 = unq lit
  rw [unquote_canonStr lit h]

theorem strOK_canonStr (lit : Bytes) (h : strOK lit = true) : strOK (canonStr lit) = true := by
  rw [strOK_iff, unq_canonStr lit h, unquote_canonStr lit h]
  exact ⟨rfl, ((strOK_iff lit).mp h).2⟩

/-- Re-spelling is idempotent on strict literals. -/
theorem canonStr_idem (lit : Bytes) (h : strOK lit = true) : canonStr (canonStr lit) = canonStr lit := by
  show (appendQuote {} (unq (canonStr lit))).1 = canonStr lit
  rw [unq_canonStr lit h]; rfl

/-- Literals with the same text get the same spelling. -/
theorem canonStr_congr (a b : Bytes) (h : unq a = unq b) : canonStr a = canonStr b := by
  unfold canonStr; rw [h]

/-- In terms of the RFC 8259 meaning of C11: two literals that denote the same text are re-spelled identically. -/
theorem canonStr_of_meaning (a b m : Bytes) (ha : StringLiteral a m) (hb : StringLiteral b m) : canonStr a = canonStr b := by
  apply canonStr_congr
  unfold unq
  rw [JsonV.Props.C11.unquote_meaning a m ha, JsonV.Props.C11.unquote_meaning b m hb]

/-! ### numbers -/

/-- The float64 value a literal is replaced by: `ParseFloat`, −0 → 0, ±Inf → ±MaxFloat64 (encode.go:280-288). -/
def numValue (fp : FloatCodec) (lit : Bytes) : Fl :=
  let fv := fp.parse lit
  if fv.isZero then { fv with neg := false } else if fv.inf then maxFloat64 fv.neg else fv

/-- The literals `ReformatNumber` copies verbatim under Canonicalize: integers (no `.`, `e`, `E`) shorter than
`maxExactIntegerDigits` characters, except `-0`. -/
def shortInt (lit : Bytes) : Bool :=
  !(lit == [45, 48]) && !(lit.any (fun c => c == 46 || c == 101 || c == 69)) &&
    decide (lit.length < maxExactIntegerDigits)

theorem maxExactIntegerDigits_eq : maxExactIntegerDigits = 16 := rfl

theorem canonNum_eq (fp : FloatCodec) (lit : Bytes) :
    canonNum fp lit = if shortInt lit then lit else fp.append (numValue fp lit) := by
  unfold canonNum reformatNumber shortInt numValue
  by_cases h0 : lit = [45, 48]
  · subst h0; simp
  · by_cases h1 : (lit.any fun c => c == 46 || c == 101 || c == 69) = true
    · simp [h0, h1]
    · by_cases h2 : lit.length < maxExactIntegerDigits
      · simp [h0, h1, h2]
      · simp [h0, h1, h2]

/-- With a well-formed shortest decomposition, `AppendFloat` is the ECMA-262 Number::toString layout. -/
theorem append_ecma (fp : FloatCodec) (f : Fl)
    (h : JsonV.Lemmas.NumFloat.WFD (fp.shortest f).1 (fp.shortest f).2) :
    fp.append f = JsonV.Spec.Ecma.numberToString f.neg (fp.shortest f).1 (fp.shortest f).2 :=
  JsonV.Props.C10.float_layout f.neg _ _ h

end JsonV.Lemmas.CanonAtom
