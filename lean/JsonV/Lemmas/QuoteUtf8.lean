/-
Lemmas about the trusted parameter `JsonV.Model.Utf8` (decodeRune / encodeRune) used by C11:
an inductive description `Dec` of the result of `decodeRune`, `encodeRune ∘ decodeRune = id` on
well-formed sequences, prefix-determinacy, and the bytes of a multi-byte sequence.  Core Lean only.
-/
import JsonV.Model.Quote

namespace JsonV.Lemmas.QuoteUtf8
open JsonV JsonV.Model.Utf8 JsonV.Model.Quote

theorem leadInfo_lo {b sz lo hi : Nat} (h : leadInfo b = some (sz, lo, hi)) : 0x80 ≤ lo ∧ hi ≤ 0xBF ∧ (sz = 2 ∨ sz = 3 ∨ sz = 4) := by
  simp only [leadInfo] at h
  repeat' split at h
  all_goals simp_all
  all_goals omega

/-- Shape of `decodeRune p`. -/
inductive Dec : Bytes → Nat × Nat → Prop
  | nil : Dec [] (runeError, 0)
  | ascii {b0 : UInt8} {t : Bytes} : b0.toNat < runeSelf → Dec (b0 :: t) (b0.toNat, 1)
  | bad {b0 : UInt8} {t : Bytes} : ¬ b0.toNat < runeSelf → Dec (b0 :: t) (runeError, 1)
  | two {b0 b1 : UInt8} {q : Bytes} {lo hi : Nat} : ¬ b0.toNat < runeSelf → leadInfo b0.toNat = some (2, lo, hi) →
      lo ≤ b1.toNat → b1.toNat ≤ hi → Dec (b0 :: b1 :: q) (b0.toNat % 32 * 64 + b1.toNat % 64, 2)
  | three {b0 b1 b2 : UInt8} {q : Bytes} {lo hi : Nat} : ¬ b0.toNat < runeSelf → leadInfo b0.toNat = some (3, lo, hi) →
      lo ≤ b1.toNat → b1.toNat ≤ hi → isCont b2.toNat = true →
      Dec (b0 :: b1 :: b2 :: q) (b0.toNat % 16 * 4096 + b1.toNat % 64 * 64 + b2.toNat % 64, 3)
  | four {b0 b1 b2 b3 : UInt8} {q : Bytes} {lo hi : Nat} : ¬ b0.toNat < runeSelf → leadInfo b0.toNat = some (4, lo, hi) →
      lo ≤ b1.toNat → b1.toNat ≤ hi → isCont b2.toNat = true → isCont b3.toNat = true →
      Dec (b0 :: b1 :: b2 :: b3 :: q)
        (b0.toNat % 8 * 262144 + b1.toNat % 64 * 4096 + b2.toNat % 64 * 64 + b3.toNat % 64, 4)

theorem dec_sound (p : Bytes) : Dec p (decodeRune p) := by
  match p with
  | [] => exact .nil
  | b0 :: rest =>
    simp only [decodeRune]
    by_cases h0 : b0.toNat < runeSelf
    · simp only [h0, ↓reduceIte]; exact .ascii h0
    · simp only [h0, ↓reduceIte]
      cases hl : leadInfo b0.toNat with
      | none => exact .bad h0
      | some v =>
        obtain ⟨sz, lo, hi⟩ := v
        have hs := (leadInfo_lo hl).2.2
        match rest with
        | [] => exact .bad h0
        | b1 :: rest1 =>
          simp only
          by_cases h1 : b1.toNat < lo ∨ hi < b1.toNat
          · simp only [h1, ↓reduceIte]; exact .bad h0
          · simp only [h1, ↓reduceIte]
            by_cases h2 : sz = 2
            · subst h2; simp only [↓reduceIte]; exact .two h0 hl (by omega) (by omega)
            · simp only [h2, ↓reduceIte]
              match rest1 with
              | [] => exact .bad h0
              | b2 :: rest2 =>
                simp only
                by_cases hc2 : isCont b2.toNat = true
                · simp only [hc2, Bool.not_true, Bool.false_eq_true, ↓reduceIte]
                  by_cases h3 : sz = 3
                  · subst h3; simp only [↓reduceIte]; exact .three h0 hl (by omega) (by omega) hc2
                  · simp only [h3, ↓reduceIte]
                    have h4 : sz = 4 := by omega
                    subst h4
                    match rest2 with
                    | [] => exact .bad h0
                    | b3 :: rest3 =>
                      simp only
                      by_cases hc3 : isCont b3.toNat = true
                      · simp only [hc3, Bool.not_true, Bool.false_eq_true, ↓reduceIte]
                        exact .four h0 hl (by omega) (by omega) hc2 hc3
                      · simp only [hc3, Bool.not_false, ↓reduceIte]; exact .bad h0
                · simp only [hc2, Bool.not_false, ↓reduceIte]; exact .bad h0

theorem dec_complete {p : Bytes} {d : Nat × Nat} (h : Dec p d) (hd : 1 < d.2) : decodeRune p = d := by
  cases h with
  | nil => simp at hd
  | ascii => simp at hd
  | bad => simp at hd
  | @two b0 b1 q lo hi h0 hl h1 h2 =>
    have hn : ¬ (b1.toNat < lo ∨ hi < b1.toNat) := by omega
    simp [decodeRune, h0, hl, hn]
  | @three b0 b1 b2 q lo hi h0 hl h1 h2 hc2 =>
    have hn : ¬ (b1.toNat < lo ∨ hi < b1.toNat) := by omega
    simp [decodeRune, h0, hl, hc2, hn]
  | @four b0 b1 b2 b3 q lo hi h0 hl h1 h2 hc2 hc3 =>
    have hn : ¬ (b1.toNat < lo ∨ hi < b1.toNat) := by omega
    simp [decodeRune, h0, hl, hc2, hc3, hn]

theorem leadInfo_exact {b sz lo hi : Nat} (h : leadInfo b = some (sz, lo, hi)) :
    (sz = 2 ∧ 0xC2 ≤ b ∧ b ≤ 0xDF ∧ lo = 0x80 ∧ hi = 0xBF) ∨
    (sz = 3 ∧ b = 0xE0 ∧ lo = 0xA0 ∧ hi = 0xBF) ∨
    (sz = 3 ∧ 0xE1 ≤ b ∧ b ≤ 0xEF ∧ b ≠ 0xED ∧ lo = 0x80 ∧ hi = 0xBF) ∨
    (sz = 3 ∧ b = 0xED ∧ lo = 0x80 ∧ hi = 0x9F) ∨
    (sz = 4 ∧ b = 0xF0 ∧ lo = 0x90 ∧ hi = 0xBF) ∨
    (sz = 4 ∧ 0xF1 ≤ b ∧ b ≤ 0xF3 ∧ lo = 0x80 ∧ hi = 0xBF) ∨
    (sz = 4 ∧ b = 0xF4 ∧ lo = 0x80 ∧ hi = 0x8F) := by
  simp only [leadInfo] at h
  repeat' split at h
  all_goals simp_all
  all_goals omega

theorem isCont_iff (b : Nat) : isCont b = true ↔ 0x80 ≤ b ∧ b ≤ 0xBF := by simp [isCont]

theorem ofNat_eq_of_toNat {n : Nat} {b : UInt8} (h : n = b.toNat) : UInt8.ofNat n = b := by
  subst h; simp

/-- `utf8.AppendRune ∘ utf8.DecodeRune` is the identity on a well-formed sequence. -/
theorem encodeRune_decodeRune (c : UInt8) (t : Bytes) (h : ¬ ((decodeRune (c :: t)).1 = runeError ∧ (decodeRune (c :: t)).2 = 1)) :
    encodeRune (decodeRune (c :: t)).1 = (c :: t).take (decodeRune (c :: t)).2 := by
  have hd := dec_sound (c :: t)
  generalize decodeRune (c :: t) = d at hd h
  cases hd with
  | ascii h0 =>
    simp only [runeSelf] at h0
    have h1 : ¬ (c.toNat > maxRune ∨ (0xD800 ≤ c.toNat ∧ c.toNat ≤ 0xDFFF)) := by simp only [maxRune]; omega
    simp [encodeRune, h1, h0]
  | bad h0 => simp at h
  | @two _ b1 q lo hi h0 hl h1 h2 =>
    have := leadInfo_exact hl
    simp only [runeSelf] at h0
    generalize hr : c.toNat % 32 * 64 + b1.toNat % 64 = r
    have hr1 : ¬ (r > maxRune ∨ (0xD800 ≤ r ∧ r ≤ 0xDFFF)) := by simp only [maxRune]; omega
    have hr2 : ¬ r < 0x80 := by omega
    have hr3 : r < 0x800 := by omega
    simp only [encodeRune, hr1, hr2, hr3, ↓reduceIte, List.take_succ_cons, List.take_zero]
    rw [ofNat_eq_of_toNat (b := c) (by omega), ofNat_eq_of_toNat (b := b1) (by omega)]
  | @three _ b1 b2 q lo hi h0 hl h1 h2 hc2 =>
    have := leadInfo_exact hl
    rw [isCont_iff] at hc2
    simp only [runeSelf] at h0
    generalize hr : c.toNat % 16 * 4096 + b1.toNat % 64 * 64 + b2.toNat % 64 = r
    have hr1 : ¬ (r > maxRune ∨ (0xD800 ≤ r ∧ r ≤ 0xDFFF)) := by simp only [maxRune]; omega
    have hr2 : ¬ r < 0x80 := by omega
    have hr3 : ¬ r < 0x800 := by omega
    have hr4 : r < 0x10000 := by omega
    simp only [encodeRune, hr1, hr2, hr3, hr4, ↓reduceIte, List.take_succ_cons, List.take_zero]
    rw [ofNat_eq_of_toNat (b := c) (by omega), ofNat_eq_of_toNat (b := b1) (by omega), ofNat_eq_of_toNat (b := b2) (by omega)]
  | @four _ b1 b2 b3 q lo hi h0 hl h1 h2 hc2 hc3 =>
    have := leadInfo_exact hl
    rw [isCont_iff] at hc2 hc3
    simp only [runeSelf] at h0
    generalize hr : c.toNat % 8 * 262144 + b1.toNat % 64 * 4096 + b2.toNat % 64 * 64 + b3.toNat % 64 = r
    have hr1 : ¬ (r > maxRune ∨ (0xD800 ≤ r ∧ r ≤ 0xDFFF)) := by simp only [maxRune]; omega
    have hr2 : ¬ r < 0x80 := by omega
    have hr3 : ¬ r < 0x800 := by omega
    have hr4 : ¬ r < 0x10000 := by omega
    simp only [encodeRune, hr1, hr2, hr3, hr4, ↓reduceIte, List.take_succ_cons, List.take_zero]
    rw [ofNat_eq_of_toNat (b := c) (by omega), ofNat_eq_of_toNat (b := b1) (by omega),
      ofNat_eq_of_toNat (b := b2) (by omega), ofNat_eq_of_toNat (b := b3) (by omega)]

theorem decodeRune_ascii (c : UInt8) (t : Bytes) (h : c.toNat < runeSelf) : decodeRune (c :: t) = (c.toNat, 1) := by
  simp [decodeRune, h]

/-- A byte ≥ 0x80 starts a multi-byte sequence or is ill-formed. -/
theorem decodeRune_high (c : UInt8) (t : Bytes) (h : ¬ c.toNat < runeSelf) :
    1 < (decodeRune (c :: t)).2 ∨ decodeRune (c :: t) = (runeError, 1) := by
  have hd := dec_sound (c :: t)
  generalize decodeRune (c :: t) = d at hd
  cases hd <;> simp_all

/-- All bytes of the sequence consumed at a head byte ≥ 0x80 are ≥ 0x80. -/
theorem decodeRune_take_high (c : UInt8) (t : Bytes) (h : ¬ c.toNat < runeSelf) :
    ∀ b ∈ (c :: t).take (decodeRune (c :: t)).2, 0x80 ≤ b.toNat := by
  have hd := dec_sound (c :: t)
  have hc : 0x80 ≤ c.toNat := by simp only [runeSelf] at h; omega
  generalize decodeRune (c :: t) = d at hd
  cases hd with
  | ascii h0 => exact absurd h0 h
  | bad h0 => simp [hc]
  | two h0 hl h1 h2 => have := leadInfo_lo hl; simp; omega
  | three h0 hl h1 h2 hc2 => have := leadInfo_lo hl; rw [isCont_iff] at hc2; simp; omega
  | four h0 hl h1 h2 hc2 hc3 => have := leadInfo_lo hl; rw [isCont_iff] at hc2 hc3; simp; omega

/-- A well-formed multi-byte sequence is determined by its own bytes. -/
theorem decodeRune_take_append (p q : Bytes) (h : 1 < (decodeRune p).2) :
    decodeRune (p.take (decodeRune p).2 ++ q) = decodeRune p := by
  have hd := dec_sound p
  generalize decodeRune p = d at hd h
  cases hd with
  | nil => simp at h
  | ascii => simp at h
  | bad => simp at h
  | two h0 hl h1 h2 => exact dec_complete (Dec.two h0 hl h1 h2) (by simp)
  | three h0 hl h1 h2 hc2 => exact dec_complete (Dec.three h0 hl h1 h2 hc2) (by simp)
  | four h0 hl h1 h2 hc2 hc3 => exact dec_complete (Dec.four h0 hl h1 h2 hc2 hc3) (by simp)

theorem take_decodeRune_length (p : Bytes) : (p.take (decodeRune p).2).length = (decodeRune p).2 := by
  have := decodeRune_le p
  simp [List.length_take]; omega

end JsonV.Lemmas.QuoteUtf8
