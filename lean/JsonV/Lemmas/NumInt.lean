/-
C10 lemmas: the integer unmarshalers and Token.Int/Token.Uint, characterised through `parseUint_exact`;
decimal printing of naturals round-trips through ParseUint.
-/
import JsonV.Lemmas.NumParse

namespace JsonV.Lemmas.NumInt
open JsonV JsonV.Model.Number JsonV.Spec.Ecma JsonV.Lemmas.NumParse

/-! ### 64-bit conversions -/

theorem toInt_pos (V : Nat) (h : V < 2 ^ 63) : (UInt64.ofNat V).toInt64.toInt = V := by
  rw [UInt64.toInt64_ofNat', Int64.toInt_ofNat_of_lt h]

theorem toInt_neg (V : Nat) (h : V ≤ 2 ^ 63) : (0 - UInt64.ofNat V).toInt64.toInt = -(V : Int) := by
  rw [UInt64.toInt64_sub, UInt64.toInt64_ofNat', Int64.toInt_sub, Int64.toInt_ofNat']
  have : (0 : UInt64).toInt64.toInt = 0 := by decide
  rw [this]
  simp only [Int64.size, Int.bmod_def]
  omega

theorem toInt_negmul (V : Nat) (h : V ≤ 2 ^ 63) : ((-1 : Int64) * (UInt64.ofNat V).toInt64).toInt = -(V : Int) := by
  rw [UInt64.toInt64_ofNat', Int64.toInt_mul, Int64.toInt_ofNat']
  have : (-1 : Int64).toInt = -1 := by decide
  rw [this]
  simp only [Int64.size, Int.bmod_def]
  omega

theorem ofNat_toNat_lt (V : Nat) (h : V < 2 ^ 64) : (UInt64.ofNat V).toNat = V :=
  UInt64.toNat_ofNat_of_lt' h

theorem maxUint64_toNat : maxUint64.toNat = 2 ^ 64 - 1 := by decide

theorem ofNat_ne_max_iff (V : Nat) (h : V < 2 ^ 64) : (UInt64.ofNat V != maxUint64) = decide (V ≠ 2 ^ 64 - 1) := by
  rw [bne, Bool.eq_iff_iff]
  simp only [Bool.not_eq_true', beq_eq_false_iff_ne, ne_eq, decide_eq_true_eq]
  rw [← UInt64.toNat_inj, ofNat_toNat_lt V h, maxUint64_toNat]

/-- Widths of the Go integer kinds. -/
def GoWidth (w : Nat) : Prop := w = 8 ∨ w = 16 ∨ w = 32 ∨ w = 64

theorem shl1_pred (w : Nat) (hw : GoWidth w) : (shl1 (w - 1)).toNat = 2 ^ (w - 1) := by
  rcases hw with h | h | h | h <;> subst h <;> decide

theorem shl1_full (w : Nat) (hw : GoWidth w) : (shl1 w - 1).toNat = 2 ^ w - 1 := by
  rcases hw with h | h | h | h <;> subst h <;> decide

theorem canonical_not_minus (t : Bytes) (h : canonicalDecimal t = true) : t.head? ≠ some 45 := by
  simp only [canonicalDecimal, Bool.and_eq_true, List.all_eq_true] at h
  cases t with
  | nil => simp
  | cons c r =>
    have := (isDigit_iff c).1 (h.1.2 c (by simp))
    simp only [List.head?_cons, ne_eq, Option.some.injEq]
    intro hc; subst hc; simp at this

theorem wrapInt_id (w : Nat) (hw : GoWidth w) (x : Int) (h1 : -(2 ^ (w - 1) : Int) ≤ x) (h2 : x < 2 ^ (w - 1)) :
    wrapInt w x = x := by
  rcases hw with h | h | h | h <;> subst h <;> simp only [wrapInt, Int.bmod_def] <;> omega

/-! ### the signed unmarshaler -/

/-- Full characterisation of the `case '0'` arm of the int arshaler. -/
theorem unmarshalInt_spec (w : Nat) (hw : GoWidth w) (lit : Bytes) :
    unmarshalInt w lit =
      if isIntLit lit then
        (if -(2 ^ (w - 1) : Int) ≤ intVal lit ∧ intVal lit < 2 ^ (w - 1) then .ok (intVal lit) else .error .range)
      else .error .syntax := by
  have hmax := shl1_pred w hw
  have hmax1 : (shl1 (w - 1) - 1).toNat = 2 ^ (w - 1) - 1 := by
    rcases hw with h | h | h | h <;> subst h <;> decide
  have hwle : (2 : Int) ^ (w - 1) ≤ 2 ^ 63 ∧ (2 : Nat) ^ (w - 1) ≤ 2 ^ 63 ∧ (1 : Nat) ≤ 2 ^ (w - 1) ∧
      ((2 : Nat) ^ (w - 1) : Int) = (2 : Int) ^ (w - 1) ∧ (2 : Int) ^ w = 2 * 2 ^ (w - 1) := by
    rcases hw with h | h | h | h <;> subst h <;> decide
  obtain ⟨hle, hlen, hone, hcast, hdbl⟩ := hwle
  unfold unmarshalInt
  by_cases hneg : lit.head? = some 45
  · -- "-" ++ t
    cases lit with
    | nil => simp at hneg
    | cons c t =>
      simp only [List.head?_cons, Option.some.injEq] at hneg
      subst hneg
      have hlit : isIntLit (45 :: t) = canonicalDecimal t := rfl
      have hval : intVal (45 :: t) = -(bytesVal t : Int) := rfl
      simp only [List.head?_cons, beq_self_eq_true, if_true, List.drop_one, List.tail_cons, hlit, hval]
      rw [parseUint_exact t]
      by_cases hcan : canonicalDecimal t = true
      · simp only [hcan, if_true]
        by_cases hfit : bytesVal t < 2 ^ 64
        · simp only [hfit, if_true, Bool.not_true, Bool.false_eq_true, if_false, Bool.true_and, Bool.false_and, Bool.or_false]
          by_cases hov : bytesVal t > 2 ^ (w - 1)
          · have : (UInt64.ofNat (bytesVal t) > shl1 (w - 1)) := by
              rw [gt_iff_lt, UInt64.lt_iff_toNat_lt, ofNat_toNat_lt _ hfit, hmax]; exact hov
            rw [if_pos (by simpa using this), if_neg (by omega)]
          · have : ¬ (UInt64.ofNat (bytesVal t) > shl1 (w - 1)) := by
              rw [gt_iff_lt, UInt64.lt_iff_toNat_lt, ofNat_toNat_lt _ hfit, hmax]; exact hov
            rw [if_neg (by simpa using this), if_pos (by omega), toInt_neg _ (by omega)]
            congr 1
            exact wrapInt_id w hw _ (by omega) (by omega)
        · simp only [hfit, if_false, Bool.not_false, if_true]
          rw [if_neg (by decide), if_neg (by omega)]
      · simp only [hcan, Bool.false_eq_true, if_false, Bool.not_false, if_true]
        rw [if_pos (by decide)]
  · -- no sign
    have hb : (lit.head? == some 45) = false := by simpa using hneg
    have hlit : isIntLit lit = canonicalDecimal lit := by
      unfold isIntLit
      split
      · rename_i t; simp at hneg
      · rfl
    have hval : intVal lit = (bytesVal lit : Int) := by
      unfold intVal
      split
      · rename_i t; simp at hneg
      · rfl
    simp only [hb, Bool.false_eq_true, if_false, List.drop_zero, hlit, hval]
    rw [parseUint_exact lit]
    by_cases hcan : canonicalDecimal lit = true
    · simp only [hcan, if_true]
      by_cases hfit : bytesVal lit < 2 ^ 64
      · simp only [hfit, if_true, Bool.not_true, Bool.false_eq_true, if_false, Bool.true_and, Bool.false_and, Bool.false_or, Bool.not_false]
        by_cases hov : bytesVal lit > 2 ^ (w - 1) - 1
        · have : (UInt64.ofNat (bytesVal lit) > shl1 (w - 1) - 1) := by
            rw [gt_iff_lt, UInt64.lt_iff_toNat_lt, ofNat_toNat_lt _ hfit, hmax1]; exact hov
          rw [if_pos (by simpa using this), if_neg (by omega)]
        · have : ¬ (UInt64.ofNat (bytesVal lit) > shl1 (w - 1) - 1) := by
            rw [gt_iff_lt, UInt64.lt_iff_toNat_lt, ofNat_toNat_lt _ hfit, hmax1]; exact hov
          rw [if_neg (by simpa using this), if_pos (by omega), toInt_pos _ (by omega)]
          congr 1
          exact wrapInt_id w hw _ (by omega) (by omega)
      · simp only [hfit, if_false, Bool.not_false, if_true]
        rw [if_neg (by decide), if_neg (by omega)]
    · simp only [hcan, Bool.false_eq_true, if_false, Bool.not_false, if_true]
      rw [if_pos (by decide)]

/-! ### the unsigned unmarshaler -/

theorem unmarshalUint_spec (w : Nat) (hw : GoWidth w) (lit : Bytes) :
    unmarshalUint w lit =
      if canonicalDecimal lit then
        (if bytesVal lit < 2 ^ w then .ok (bytesVal lit) else .error .range)
      else .error .syntax := by
  have hmax := shl1_full w hw
  have hwle : (2 : Nat) ^ w ≤ 2 ^ 64 ∧ 1 ≤ (2 : Nat) ^ w := by
    rcases hw with h | h | h | h <;> subst h <;> decide
  unfold unmarshalUint
  rw [parseUint_exact lit]
  by_cases hcan : canonicalDecimal lit = true
  · simp only [hcan, if_true]
    by_cases hfit : bytesVal lit < 2 ^ 64
    · simp only [hfit, if_true, Bool.not_true, Bool.false_eq_true, if_false]
      by_cases hov : bytesVal lit > 2 ^ w - 1
      · have : (UInt64.ofNat (bytesVal lit) > shl1 w - 1) := by
          rw [gt_iff_lt, UInt64.lt_iff_toNat_lt, ofNat_toNat_lt _ hfit, hmax]; exact hov
        rw [if_pos (by simpa using this), if_neg (by omega)]
      · have : ¬ (UInt64.ofNat (bytesVal lit) > shl1 w - 1) := by
          rw [gt_iff_lt, UInt64.lt_iff_toNat_lt, ofNat_toNat_lt _ hfit, hmax]; exact hov
        rw [if_neg (by simpa using this), if_pos (by omega), ofNat_toNat_lt _ hfit]
        congr 1
        simp only [wrapUint]
        exact Nat.mod_eq_of_lt (by omega)
    · simp only [hfit, if_false, Bool.not_false, if_true]
      rw [if_neg (by decide), if_neg (by omega)]
  · simp only [hcan, Bool.false_eq_true, if_false, Bool.not_false, if_true]
    rw [if_pos (by decide)]

/-! ### fraction / exponent -/

theorem not_digit_frac (c : UInt8) (h : (c == 46 || c == 101 || c == 69) = true) : Spec.Ecma.isDigit c = false := by
  simp only [Bool.or_eq_true, beq_iff_eq] at h
  rcases h with (h | h) | h <;> subst h <;> decide

theorem canonical_no_frac (t : Bytes) (h : canonicalDecimal t = true) : hasFracOrExp t = false := by
  simp only [canonicalDecimal, Bool.and_eq_true, List.all_eq_true] at h
  rw [hasFracOrExp, List.any_eq_false]
  intro x hx hfx
  have := not_digit_frac x hfx
  rw [h.1.2 x hx] at this
  exact absurd this (by decide)

theorem intLit_no_frac (b : Bytes) (h : isIntLit b = true) : hasFracOrExp b = false := by
  unfold isIntLit at h
  split at h
  · rename_i t
    have := canonical_no_frac t h
    simp only [hasFracOrExp, List.any_cons] at this ⊢
    rw [this]; decide
  · exact canonical_no_frac b h

/-! ### Token.Int / Token.Uint -/

theorem tokenInt_spec (pf : Bytes → Fl) (buf : Bytes) :
    tokenInt pf buf =
      if isIntLit buf then
        (if -(2 ^ 63 : Int) ≤ intVal buf ∧ intVal buf < 2 ^ 63 then (intVal buf, .none)
         else if intVal buf < 0 then (-(2 ^ 63), .range) else (2 ^ 63 - 1, .range))
      else (f64toi64 (pf buf), .syntax) := by
  unfold tokenInt
  by_cases hneg : buf.head? = some 45
  · cases buf with
    | nil => simp at hneg
    | cons c t =>
      simp only [List.head?_cons, Option.some.injEq] at hneg
      subst hneg
      have hlit : isIntLit (45 :: t) = canonicalDecimal t := rfl
      have hval : intVal (45 :: t) = -(bytesVal t : Int) := rfl
      simp only [List.head?_cons, beq_self_eq_true, if_true, List.drop_one, List.tail_cons, hlit, hval]
      rw [parseUint_exact t]
      have h63 : (9223372036854775808 : UInt64).toNat = 2 ^ 63 := by decide
      by_cases hcan : canonicalDecimal t = true
      · simp only [hcan, if_true]
        by_cases hfit : bytesVal t < 2 ^ 64
        · simp only [hfit, if_true]
          by_cases hov : bytesVal t > 2 ^ 63
          · have : (UInt64.ofNat (bytesVal t) > 9223372036854775808) := by
              rw [gt_iff_lt, UInt64.lt_iff_toNat_lt, ofNat_toNat_lt _ hfit, h63]; exact hov
            rw [if_pos this, if_neg (by omega), if_pos (by omega)]
          · have : ¬ (UInt64.ofNat (bytesVal t) > 9223372036854775808) := by
              rw [gt_iff_lt, UInt64.lt_iff_toNat_lt, ofNat_toNat_lt _ hfit, h63]; exact hov
            rw [if_neg this, if_pos (by omega), toInt_negmul _ (by omega)]
        · simp only [hfit, if_false]
          rw [if_pos (by decide), if_neg (by omega), if_pos (by omega)]
      · simp only [hcan, Bool.false_eq_true, if_false]
        rw [if_neg (by decide)]
  · have hb : (buf.head? == some 45) = false := by simpa using hneg
    have hlit : isIntLit buf = canonicalDecimal buf := by
      unfold isIntLit
      split
      · rename_i t; simp at hneg
      · rfl
    have hval : intVal buf = (bytesVal buf : Int) := by
      unfold intVal
      split
      · rename_i t; simp at hneg
      · rfl
    simp only [hb, Bool.false_eq_true, if_false, hlit, hval]
    rw [parseUint_exact buf]
    have h63 : (9223372036854775807 : UInt64).toNat = 2 ^ 63 - 1 := by decide
    by_cases hcan : canonicalDecimal buf = true
    · simp only [hcan, if_true]
      by_cases hfit : bytesVal buf < 2 ^ 64
      · simp only [hfit, if_true]
        by_cases hov : bytesVal buf > 2 ^ 63 - 1
        · have : (UInt64.ofNat (bytesVal buf) > 9223372036854775807) := by
            rw [gt_iff_lt, UInt64.lt_iff_toNat_lt, ofNat_toNat_lt _ hfit, h63]; exact hov
          rw [if_pos this, if_neg (by omega), if_neg (by omega)]
        · have : ¬ (UInt64.ofNat (bytesVal buf) > 9223372036854775807) := by
            rw [gt_iff_lt, UInt64.lt_iff_toNat_lt, ofNat_toNat_lt _ hfit, h63]; exact hov
          rw [if_neg this, if_pos (by omega), toInt_pos _ (by omega)]
      · simp only [hfit, if_false]
        rw [if_pos (by decide), if_neg (by omega), if_neg (by omega)]
    · simp only [hcan, Bool.false_eq_true, if_false]
      rw [if_neg (by decide)]

theorem tokenUint_spec (pf : Bytes → Fl) (buf : Bytes) :
    tokenUint pf buf =
      if canonicalDecimal buf then
        (if bytesVal buf < 2 ^ 64 then (bytesVal buf, .none) else (2 ^ 64 - 1, .range))
      else (f64tou64 (pf buf), .syntax) := by
  unfold tokenUint
  rw [parseUint_exact buf]
  by_cases hcan : canonicalDecimal buf = true
  · simp only [hcan, if_true]
    by_cases hfit : bytesVal buf < 2 ^ 64
    · simp only [hfit, if_true, ofNat_toNat_lt _ hfit]
    · simp only [hfit, if_false, Bool.false_eq_true]
      rw [if_pos (by decide)]
  · simp only [hcan, Bool.false_eq_true, if_false]
    rw [if_neg (by decide)]

/-! ### printing naturals in decimal, and reading them back -/

theorem digitByte_toNat (d : Nat) (h : d < 10) : (digitByte d).toNat = 48 + d := by
  simp only [digitByte, UInt8.toNat_ofNat']
  omega

theorem digitByte_isDigit (d : Nat) (h : d < 10) : Spec.Ecma.isDigit (digitByte d) = true := by
  rw [isDigit_iff, digitByte_toNat d h]; omega

theorem natDigits_lt (n : Nat) : ∀ d ∈ natDigits n, d < 10 := by
  induction n using Nat.strongRecOn with
  | _ n ih =>
    rw [natDigits]
    split
    · intro d hd; simp at hd; omega
    · intro d hd
      rw [List.mem_append] at hd
      rcases hd with hd | hd
      · exact ih (n / 10) (by omega) d hd
      · simp at hd; omega

theorem natDigits_ne_nil (n : Nat) : natDigits n ≠ [] := by
  rw [natDigits]; split <;> simp

theorem natDigits_head (n : Nat) (h : 0 < n) : (natDigits n).head? ≠ some 0 := by
  induction n using Nat.strongRecOn with
  | _ n ih =>
    rw [natDigits]
    split
    · simp; omega
    · have hne := natDigits_ne_nil (n / 10)
      have := ih (n / 10) (by omega) (by omega)
      cases hnd : natDigits (n / 10) with
      | nil => exact absurd hnd hne
      | cons a r => rw [hnd] at this; simpa using this

theorem bytesVal_formatUint (n : Nat) : bytesVal (formatUint n) = n := by
  induction n using Nat.strongRecOn with
  | _ n ih =>
    rw [formatUint, natDigits]
    split
    · rename_i h
      simp only [List.map_cons, List.map_nil]
      rw [bytesVal_cons, digitByte_toNat n h]; simp [bytesVal]
    · have := ih (n / 10) (by omega)
      rw [formatUint] at this
      rw [List.map_append, bytesVal_append, this]
      simp only [List.map_cons, List.map_nil, List.length_cons, List.length_nil]
      rw [bytesVal_cons, digitByte_toNat _ (by omega)]
      simp [bytesVal]; omega

theorem formatUint_canonical (n : Nat) : canonicalDecimal (formatUint n) = true := by
  simp only [canonicalDecimal, Bool.and_eq_true, Bool.not_eq_true', List.all_eq_true, Bool.or_eq_true,
    bne_iff_ne, ne_eq, beq_iff_eq, formatUint]
  refine ⟨⟨?_, ?_⟩, ?_⟩
  · have := natDigits_ne_nil n
    cases h : natDigits n with
    | nil => exact absurd h this
    | cons a r => simp
  · intro c hc
    rw [List.mem_map] at hc
    obtain ⟨d, hd, rfl⟩ := hc
    exact digitByte_isDigit d (natDigits_lt n d hd)
  · by_cases hn : n = 0
    · right; subst hn; rw [natDigits]; simp [digitByte]
    · left
      have := natDigits_head n (by omega)
      have hlt := natDigits_lt n
      cases h : natDigits n with
      | nil => simp
      | cons a r =>
        rw [h] at this hlt
        simp only [List.head?_cons, ne_eq, Option.some.injEq, List.map_cons] at this ⊢
        intro heq
        have ha := digitByte_toNat a (hlt a (by simp))
        rw [heq] at ha
        simp at ha
        omega

theorem isIntLit_of_canonical (b : Bytes) (h : canonicalDecimal b = true) :
    isIntLit b = true ∧ intVal b = (bytesVal b : Int) := by
  have hm := canonical_not_minus b h
  constructor
  · unfold isIntLit
    split
    · simp at hm
    · exact h
  · unfold intVal
    split
    · simp at hm
    · rfl

theorem formatInt_lit (i : Int) : isIntLit (formatInt i) = true ∧ intVal (formatInt i) = i := by
  unfold formatInt
  by_cases h : i < 0
  · rw [if_pos h]
    refine ⟨formatUint_canonical _, ?_⟩
    show -(bytesVal (formatUint i.natAbs) : Int) = i
    rw [bytesVal_formatUint]; omega
  · rw [if_neg h]
    obtain ⟨h1, h2⟩ := isIntLit_of_canonical _ (formatUint_canonical i.natAbs)
    refine ⟨h1, ?_⟩
    rw [h2, bytesVal_formatUint]; omega

/-! ### typed tokens (jsontext.Int / jsontext.Uint) -/

theorem tokenInt_zero (pf : Bytes → Fl) : tokenInt pf [48] = (0, .none) := by
  rw [tokenInt_spec, if_pos (by decide), if_pos (by decide)]; rfl

theorem tokenUint_zero (pf : Bytes → Fl) : tokenUint pf [48] = (0, .none) := by
  rw [tokenUint_spec, if_pos (by decide), if_pos (by decide)]; rfl

theorem int64_roundtrip (n : Int) (h1 : -(2 ^ 63 : Int) ≤ n) (h2 : n < 2 ^ 63) :
    (Int64.ofInt n).toUInt64.toInt64.toInt = n := by
  rw [Int64.toInt64_toUInt64, Int64.toInt_ofInt_of_le (by simpa using h1) (by simpa using h2)]

theorem int64_toNat (n : Int) (h1 : 0 ≤ n) (h2 : n < 2 ^ 63) : (Int64.ofInt n).toUInt64.toNat = n.toNat := by
  have hx : (0 : Int64) ≤ Int64.ofInt n := by
    rw [Int64.le_iff_toInt_le, Int64.toInt_ofInt_of_le (by omega) (by simpa using h2)]; simpa using h1
  rw [Int64.toNat_toUInt64_of_le hx, Int64.toNatClampNeg, Int64.toInt_ofInt_of_le (by omega) (by simpa using h2)]

/-- jsontext.Int(n).Int() is exact for every int64. -/
theorem mkInt_tokInt (pf : Bytes → Fl) (n : Int) (h1 : -(2 ^ 63 : Int) ≤ n) (h2 : n < 2 ^ 63) :
    tokInt pf (mkInt n) = (n, .none) := by
  unfold mkInt
  by_cases h0 : n = 0
  · subst h0; exact tokenInt_zero pf
  · rw [if_neg (by simpa using h0)]
    simp only [tokInt, int64_roundtrip n h1 h2]

/-- jsontext.Int(n).Uint(): negative values give 0 with a syntax error, others are exact. -/
theorem mkInt_tokUint (pf : Bytes → Fl) (n : Int) (h1 : -(2 ^ 63 : Int) ≤ n) (h2 : n < 2 ^ 63) :
    tokUint pf (mkInt n) = if n < 0 then (0, .syntax) else (n.toNat, .none) := by
  unfold mkInt
  by_cases h0 : n = 0
  · subst h0; exact tokenUint_zero pf
  · rw [if_neg (by simpa using h0)]
    have hlt : ((Int64.ofInt n).toUInt64.toInt64 < 0) ↔ n < 0 := by
      rw [Int64.toInt64_toUInt64, Int64.lt_iff_toInt_lt, Int64.toInt_ofInt_of_le (by simpa using h1) (by simpa using h2)]
      simp
    simp only [tokUint]
    by_cases hn : n < 0
    · rw [if_pos (hlt.2 hn), if_pos hn]
    · rw [if_neg (fun hh => hn (hlt.1 hh)), if_neg hn, int64_toNat n (by omega) h2]

/-- jsontext.Uint(u).Uint() is exact for every uint64. -/
theorem mkUint_tokUint (pf : Bytes → Fl) (u : Nat) (h : u < 2 ^ 64) : tokUint pf (mkUint u) = (u, .none) := by
  unfold mkUint
  by_cases h0 : u = 0
  · subst h0; exact tokenUint_zero pf
  · rw [if_neg (by simpa using h0)]
    simp only [tokUint, ofNat_toNat_lt u h]

/-- jsontext.Uint(u).Int(): exact up to and including MaxInt64 = 2^63−1, saturated with a range error above. -/
theorem mkUint_tokInt (pf : Bytes → Fl) (u : Nat) (h : u < 2 ^ 64) :
    tokInt pf (mkUint u) = if u < 2 ^ 63 then ((u : Int), .none) else (2 ^ 63 - 1, .range) := by
  unfold mkUint
  by_cases h0 : u = 0
  · subst h0; exact tokenInt_zero pf
  · rw [if_neg (by simpa using h0)]
    have h63 : (9223372036854775807 : UInt64).toNat = 2 ^ 63 - 1 := by decide
    have hgt : (UInt64.ofNat u > 9223372036854775807) ↔ ¬ u < 2 ^ 63 := by
      rw [gt_iff_lt, UInt64.lt_iff_toNat_lt, ofNat_toNat_lt u h, h63]; omega
    simp only [tokInt]
    by_cases hu : u < 2 ^ 63
    · rw [if_neg (fun hh => (hgt.1 hh) hu), if_pos hu, toInt_pos u hu]
    · rw [if_pos (hgt.2 hu), if_neg hu]

end JsonV.Lemmas.NumInt
