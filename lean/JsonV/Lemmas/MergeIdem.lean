/-
C14 helper lemmas: `{}` is a unit of `merge` on objects, and `merge` is idempotent on trees without repeated names
(unmarshaling the same text a second time into the value it produced changes nothing, at tree level).  Core Lean only.
-/
import JsonV.Lemmas.MergeLaw

namespace JsonV.Lemmas.Merge
open JsonV JsonV.Spec

theorem mergeL_nil_right : ∀ (ms : List (Bytes × JTree)), JTree.mergeL ms [] = ms
  | [] => by simp [JTree.mergeL]
  | (n, a) :: rest => by
    rw [JTree.mergeL]; simp [alookup, mergeL_nil_right rest]

theorem merge_empty_object (ms : List (Bytes × JTree)) :
    JTree.merge (.obj ms) (.obj []) = .obj ms ∧ JTree.merge (.obj []) (.obj ms) = .obj ms := by
  constructor
  · rw [JTree.merge]; simp [mergeL_nil_right]
  · rw [JTree.merge]; simp [JTree.mergeL, ahas, alookup]

/-- `mergeL sub ms = sub` when every member of `sub` is bound in `ms` to a tree that is a fixpoint of self-merge. -/
theorem mergeL_self_sub (ms : List (Bytes × JTree)) (hnd : (akeys ms).Nodup) :
    ∀ sub : List (Bytes × JTree), (∀ p ∈ sub, p ∈ ms) → (∀ n x, (n, x) ∈ sub → JTree.merge x x = x) →
      JTree.mergeL sub ms = sub
  | [], _, _ => by simp [JTree.mergeL]
  | (n, a) :: rest, hsub, hfix => by
    rw [JTree.mergeL]
    have hl : alookup n ms = some a := alookup_of_mem hnd (hsub _ List.mem_cons_self)
    rw [hl]
    simp only
    rw [hfix n a List.mem_cons_self,
      mergeL_self_sub ms hnd rest (fun p hp => hsub p (List.mem_cons_of_mem _ hp))
        (fun m x hx => hfix m x (List.mem_cons_of_mem _ hx))]

theorem ahas_of_mem {ms : List (Bytes × JTree)} (hnd : (akeys ms).Nodup) {p : Bytes × JTree} (h : p ∈ ms) :
    ahas p.1 ms = true := by
  obtain ⟨n, x⟩ := p
  unfold ahas
  rw [alookup_of_mem hnd h]; rfl

theorem merge_self : ∀ a : JTree, a.dupFree = true → JTree.merge a a = a := by
  intro a
  induction a using JTree.induct with
  | hobj ms ih =>
    intro hd
    rw [dupFree_obj] at hd
    rw [JTree.merge]
    have h1 : JTree.mergeL ms ms = ms :=
      mergeL_self_sub ms hd.1 ms (fun _ h => h) (fun n x hx => ih n x hx (hd.2 n x hx))
    have h2 : ms.filter (fun p => !(ahas p.1 ms)) = [] := by
      rw [List.filter_eq_nil_iff]
      intro p hp
      simp [ahas_of_mem hd.1 hp]
    rw [h1, h2, List.append_nil]
  | _ => intro _; exact merge_nonobj _ _ (Or.inl rfl)

end JsonV.Lemmas.Merge
