/-
C02, part 10: the L3 model of `json.Marshal` (slice C04/C14, Model/Marshal.lean: `mar : MOpts → GoType → GoVal →
Except MErr JTree`, Deterministic, default paths for bool/ints/floats/strings/slices/arrays/maps/pointers/structs/any)
as a TREE EMITTER for the fragment model: its output tree translates to a well-formed `OutTree`.

  * `mar_clean`  every number literal of the output is a JSON number and every member name valid UTF-8, provided the
                 float literals of the value are numbers (`floatsOK`; they are a parameter of the L3 model — C10:
                 `appendFloat` output is one) and the struct field names of the type are valid UTF-8 (`namesUtf8`;
                 fields.go:454-457 guarantees it in the code);
  * `toOut`      JTree → OutTree; `toOut_namesOK`: clean + duplicate-free (C04 `mar_dupFree`) ⇒ `NamesOK`.
The tie L3 model ↔ reflection code is CORRESPONDENCE ONLY (the `arsh` ops of slices c04/c14 in the harness).
-/
import JsonV.Lemmas.EncInvNames
import JsonV.Lemmas.EncInvInst
import JsonV.Lemmas.RoundTripTotal
import JsonV.Lemmas.QuoteMeaning
import JsonV.Lemmas.QuoteSpec

namespace JsonV.Lemmas.EncInvL3
open JsonV JsonV.Spec JsonV.Model JsonV.Spec.ValidJson JsonV.Model.EncInv
open JsonV.Lemmas.RoundTrip JsonV.Lemmas.EncInvCompose JsonV.Lemmas.Merge

def numOK (l : Bytes) : Bool := pNumber l == some []

/-! ### the three "all nodes" predicates -/

mutual
/-- every float literal held by the value is a JSON number -/
def floatsOK : GoVal → Bool
  | .float l => numOK l
  | .sliceOf vs => floatsOKL vs
  | .arrayOf vs => floatsOKL vs
  | .mapOf ms => floatsOKM ms
  | .structOf ms => floatsOKM ms
  | .ptrTo v => floatsOK v
  | .ifaceOf v => floatsOK v
  | .bool _ => true
  | .int _ => true
  | .uint _ => true
  | .str _ => true
  | .nilSlice => true
  | .nilMap => true
  | .nilPtr => true
  | .nilIface => true
def floatsOKL : List GoVal → Bool
  | [] => true
  | v :: r => floatsOK v && floatsOKL r
def floatsOKM : List (Bytes × GoVal) → Bool
  | [] => true
  | (_, v) :: r => floatsOK v && floatsOKM r
end

mutual
/-- every struct field name of the type is valid UTF-8 -/
def namesUtf8 : GoType → Bool
  | .slice t => namesUtf8 t
  | .array _ t => namesUtf8 t
  | .map t => namesUtf8 t
  | .ptr t => namesUtf8 t
  | .struct fs => namesUtf8F fs
  | .bool => true
  | .int _ => true
  | .uint _ => true
  | .float64 => true
  | .string => true
  | .any => true
def namesUtf8F : List (Bytes × GoType) → Bool
  | [] => true
  | (n, t) :: r => Utf8.valid n && namesUtf8 t && namesUtf8F r
end

mutual
/-- number literals are JSON numbers, member names valid UTF-8, everywhere in the tree -/
def clean : JTree → Bool
  | .num l => numOK l
  | .arr xs => cleanL xs
  | .obj ms => cleanM ms
  | .null => true
  | .bool _ => true
  | .str _ => true
def cleanL : List JTree → Bool
  | [] => true
  | x :: r => clean x && cleanL r
def cleanM : List (Bytes × JTree) → Bool
  | [] => true
  | (n, x) :: r => Utf8.valid n && clean x && cleanM r
end

theorem floatsOKL_iff (vs : List GoVal) : floatsOKL vs = true ↔ ∀ v ∈ vs, floatsOK v = true := by
  induction vs with
  | nil => simp [floatsOKL]
  | cons a r ih => simp [floatsOKL, ih]

theorem floatsOKM_iff (ms : List (Bytes × GoVal)) : floatsOKM ms = true ↔ ∀ k v, (k, v) ∈ ms → floatsOK v = true := by
  induction ms with
  | nil => simp [floatsOKM]
  | cons p r ih =>
    obtain ⟨k, v⟩ := p
    simp only [floatsOKM, Bool.and_eq_true, ih, List.mem_cons, Prod.mk.injEq]
    constructor
    · rintro ⟨h1, h2⟩ k' v' (⟨rfl, rfl⟩ | h)
      · exact h1
      · exact h2 k' v' h
    · intro h; exact ⟨h k v (.inl ⟨rfl, rfl⟩), fun k' v' h' => h k' v' (.inr h')⟩

theorem namesUtf8F_iff (fs : List (Bytes × GoType)) :
    namesUtf8F fs = true ↔ ∀ n t, (n, t) ∈ fs → Utf8.valid n = true ∧ namesUtf8 t = true := by
  induction fs with
  | nil => simp [namesUtf8F]
  | cons p r ih =>
    obtain ⟨n, t⟩ := p
    simp only [namesUtf8F, Bool.and_eq_true, ih, List.mem_cons, Prod.mk.injEq]
    constructor
    · rintro ⟨⟨h1, h2⟩, h3⟩ n' t' (⟨rfl, rfl⟩ | h)
      · exact ⟨h1, h2⟩
      · exact h3 n' t' h
    · intro h; exact ⟨h n t (.inl ⟨rfl, rfl⟩), fun n' t' h' => h n' t' (.inr h')⟩

theorem cleanL_iff (xs : List JTree) : cleanL xs = true ↔ ∀ x ∈ xs, clean x = true := by
  induction xs with
  | nil => simp [cleanL]
  | cons a r ih => simp [cleanL, ih]

theorem cleanM_iff (ms : List (Bytes × JTree)) :
    cleanM ms = true ↔ ∀ n x, (n, x) ∈ ms → Utf8.valid n = true ∧ clean x = true := by
  induction ms with
  | nil => simp [cleanM]
  | cons p r ih =>
    obtain ⟨n, x⟩ := p
    simp only [cleanM, Bool.and_eq_true, ih, List.mem_cons, Prod.mk.injEq]
    constructor
    · rintro ⟨⟨h1, h2⟩, h3⟩ n' x' (⟨rfl, rfl⟩ | h)
      · exact ⟨h1, h2⟩
      · exact h3 n' x' h
    · intro h; exact ⟨h n x (.inl ⟨rfl, rfl⟩), fun n' x' h' => h n' x' (.inr h')⟩

/-! ### integers of the L3 model are the fragment model's (and JSON numbers) -/

theorem time_natDigits_eq (n : Nat) : Time.natDigits n = natDigits n := by
  fun_induction Time.natDigits n with
  | case1 n h => rw [natDigits]; simp [h, Time.digitChar]
  | case2 n h ih => rw [natDigits]; simp only [h, dite_false]; rw [ih]; rfl

theorem time_intDigits_eq (i : Int) : Time.intDigits i = intDigits i := by
  unfold Time.intDigits intDigits
  split
  · rename_i h; rw [time_natDigits_eq]
    have : (-i).toNat = i.natAbs := by omega
    rw [this]; rfl
  · rw [time_natDigits_eq]

theorem numOK_nat (n : Nat) : numOK (Time.natDigits n) = true := by
  rw [time_natDigits_eq]; simp [numOK, pNumber_natDigits]

theorem numOK_int (i : Int) : numOK (Time.intDigits i) = true := by
  rw [time_intDigits_eq]
  have := JsonV.Lemmas.EncInvGrammar.jnumber_intDigits i
  simp [numOK, JsonV.Lemmas.EncInvSound.pNumber_complete _ this]

/-! ### `mar` produces clean trees -/

theorem clean_nilSlice (o : MOpts) : clean (nilSliceTree o) = true := by unfold nilSliceTree; split <;> rfl
theorem clean_nilMap (o : MOpts) : clean (nilMapTree o) = true := by unfold nilMapTree; split <;> rfl

theorem clean_sorted {mem : List (Bytes × JTree)} (h : cleanM mem = true) : clean (.obj (sortMembers mem)) = true := by
  simp only [clean]
  rw [cleanM_iff] at h ⊢
  intro n x hm; exact h n x (mem_sortMembers.1 hm)

theorem marAny_clean_both (o : MOpts) : ∀ v : GoVal,
    (∀ j, floatsOK v = true → marAny o v = .ok j → clean j = true) ∧
    (∀ j, floatsOK v = true → marDyn o v = .ok j → clean j = true) := by
  intro v
  induction v using GoVal.induct with
  | hnilIface => exact ⟨by intro j _ h; simp only [marAny, Except.ok.injEq] at h; subst h; rfl, by intro j _ h; simp [marDyn] at h⟩
  | hiface dv ih => exact ⟨fun j hf hm => ih.2 j (by simpa [floatsOK] using hf) (by simpa [marAny] using hm), by intro j _ h; simp [marDyn] at h⟩
  | hbool b => exact ⟨by intro j _ h; simp [marAny] at h, by intro j _ h; simp only [marDyn, Except.ok.injEq] at h; subst h; rfl⟩
  | hfloat l =>
    exact ⟨by intro j _ h; simp [marAny] at h, by
      intro j hf h; simp only [marDyn, Except.ok.injEq] at h; subst h; simpa [clean, floatsOK] using hf⟩
  | hstr s =>
    refine ⟨by intro j _ h; simp [marAny] at h, ?_⟩
    intro j _ h; simp only [marDyn] at h; split at h <;> cases h; rfl
  | hnilSlice =>
    refine ⟨by intro j _ h; simp [marAny] at h, ?_⟩
    intro j _ h; simp only [marDyn, Except.ok.injEq] at h; subst h; exact clean_nilSlice o
  | hnilMap =>
    refine ⟨by intro j _ h; simp [marAny] at h, ?_⟩
    intro j _ h; simp only [marDyn, Except.ok.injEq] at h; subst h; exact clean_nilMap o
  | hslice vs ih =>
    refine ⟨by intro j _ h; simp [marAny] at h, ?_⟩
    intro j hf h
    simp only [floatsOK, floatsOKL_iff] at hf
    simp only [marDyn, marAnyL_eq] at h
    cases hl : marList (marAny o) vs with
    | error e => simp [hl] at h
    | ok js =>
      simp only [hl, Except.ok.injEq] at h; subst h
      simp only [clean, cleanL_iff]
      intro x hx
      obtain ⟨v, hv, hm⟩ := marList_spec hl x hx
      exact (ih v hv).1 x (hf v hv) hm
  | hmap ms ih =>
    refine ⟨by intro j _ h; simp [marAny] at h, ?_⟩
    intro j hf h
    simp only [floatsOK, floatsOKM_iff] at hf
    simp only [marDyn, marAnyM_eq] at h
    cases hl : marMembers (marAny o) ms with
    | error e => simp [hl] at h
    | ok mem =>
      simp only [hl, Except.ok.injEq] at h; subst h
      obtain ⟨_, hmem, hval⟩ := marMembers_spec hl
      apply clean_sorted
      rw [cleanM_iff]
      intro k j hm
      obtain ⟨v, hv, he⟩ := hmem k j hm
      exact ⟨(hval k v hv).1, (ih k v hv).1 j (hf k v hv) he⟩
  | hint i => exact ⟨by intro j _ h; simp [marAny] at h, by intro j _ h; simp [marDyn] at h⟩
  | huint n => exact ⟨by intro j _ h; simp [marAny] at h, by intro j _ h; simp [marDyn] at h⟩
  | harray vs _ => exact ⟨by intro j _ h; simp [marAny] at h, by intro j _ h; simp [marDyn] at h⟩
  | hnilPtr => exact ⟨by intro j _ h; simp [marAny] at h, by intro j _ h; simp [marDyn] at h⟩
  | hptr v _ => exact ⟨by intro j _ h; simp [marAny] at h, by intro j _ h; simp [marDyn] at h⟩
  | hstruct fvs _ => exact ⟨by intro j _ h; simp [marAny] at h, by intro j _ h; simp [marDyn] at h⟩

theorem marFields_clean (o : MOpts) (fs : List (Bytes × GoType))
    (ih : ∀ n t, (n, t) ∈ fs → ∀ v j, floatsOK v = true → mar o t v = .ok j → clean j = true)
    (hn : ∀ n t, (n, t) ∈ fs → Utf8.valid n = true) :
    ∀ fvs mem, floatsOKM fvs = true → marFields o fs fvs = .ok mem → cleanM mem = true := by
  induction fs with
  | nil =>
    intro fvs mem _ hm
    cases fvs with
    | nil => simp only [marFields, Except.ok.injEq] at hm; subst hm; rfl
    | cons p r => simp [marFields] at hm
  | cons ft fr ihf =>
    obtain ⟨n, t⟩ := ft
    intro fvs mem hf hm
    cases fvs with
    | nil => simp [marFields] at hm
    | cons p r =>
      obtain ⟨n', v⟩ := p
      simp only [floatsOKM, Bool.and_eq_true] at hf
      simp only [marFields] at hm
      split at hm
      · cases hv : mar o t v with
        | error e => simp [hv] at hm
        | ok j =>
          simp only [hv] at hm
          cases hr : marFields o fr r with
          | error e => simp [hr] at hm
          | ok mr =>
            simp only [hr, Except.ok.injEq] at hm; subst hm
            simp only [cleanM, Bool.and_eq_true]
            exact ⟨⟨hn n t List.mem_cons_self, ih n t List.mem_cons_self v j hf.1 hv⟩,
              ihf (fun n' t' h' => ih n' t' (List.mem_cons_of_mem _ h')) (fun n' t' h' => hn n' t' (List.mem_cons_of_mem _ h'))
                r mr hf.2 hr⟩
      · simp at hm

theorem mar_clean (o : MOpts) : ∀ (T : GoType), namesUtf8 T = true → ∀ (v : GoVal) (j : JTree),
    floatsOK v = true → mar o T v = .ok j → clean j = true := by
  intro T
  induction T using GoType.induct with
  | hbool => intro _ v j _ h; cases v <;> simp only [mar] at h <;> cases h; rfl
  | hint b => intro _ v j _ h; cases v <;> simp only [mar] at h <;> cases h; exact numOK_int _
  | huint b => intro _ v j _ h; cases v <;> simp only [mar] at h <;> cases h; exact numOK_nat _
  | hfloat => intro _ v j hf h; cases v <;> simp only [mar] at h <;> cases h; simpa [clean, floatsOK] using hf
  | hstring =>
    intro _ v j _ h; cases v <;> simp only [mar] at h <;> try (cases h; done)
    split at h <;> cases h; rfl
  | hany => intro _ v j hf h; exact (marAny_clean_both o v).1 j hf (by simpa [mar] using h)
  | hslice t ih =>
    intro hn v j hf h
    have hnt : namesUtf8 t = true := by simpa [namesUtf8] using hn
    cases v <;> simp only [mar] at h <;> try (cases h; done)
    case nilSlice => simp only [Except.ok.injEq] at h; subst h; exact clean_nilSlice o
    case sliceOf vs =>
      simp only [floatsOK, floatsOKL_iff] at hf
      cases hl : marList (mar o t) vs with
      | error e => simp [hl] at h
      | ok js =>
        simp only [hl, Except.ok.injEq] at h; subst h
        simp only [clean, cleanL_iff]
        intro x hx
        obtain ⟨v, hv, hm⟩ := marList_spec hl x hx
        exact ih hnt v x (hf v hv) hm
  | harray n t ih =>
    intro hn v j hf h
    have hnt : namesUtf8 t = true := by simpa [namesUtf8] using hn
    cases v <;> simp only [mar] at h <;> try (cases h; done)
    case arrayOf vs =>
      simp only [floatsOK, floatsOKL_iff] at hf
      cases hl : marList (mar o t) vs with
      | error e => simp [hl] at h
      | ok js =>
        simp only [hl, Except.ok.injEq] at h; subst h
        simp only [clean, cleanL_iff]
        intro x hx
        obtain ⟨v, hv, hm⟩ := marList_spec hl x hx
        exact ih hnt v x (hf v hv) hm
  | hmap t ih =>
    intro hn v j hf h
    have hnt : namesUtf8 t = true := by simpa [namesUtf8] using hn
    cases v <;> simp only [mar] at h <;> try (cases h; done)
    case nilMap => simp only [Except.ok.injEq] at h; subst h; exact clean_nilMap o
    case mapOf ms =>
      simp only [floatsOK, floatsOKM_iff] at hf
      cases hl : marMembers (mar o t) ms with
      | error e => simp [hl] at h
      | ok mem =>
        simp only [hl, Except.ok.injEq] at h; subst h
        obtain ⟨_, hmem, hval⟩ := marMembers_spec hl
        apply clean_sorted
        rw [cleanM_iff]
        intro k j hm
        obtain ⟨v, hv, he⟩ := hmem k j hm
        exact ⟨(hval k v hv).1, ih hnt v j (hf k v hv) he⟩
  | hptr t ih =>
    intro hn v j hf h
    have hnt : namesUtf8 t = true := by simpa [namesUtf8] using hn
    cases v <;> simp only [mar] at h <;> try (cases h; done)
    case nilPtr => simp only [Except.ok.injEq] at h; subst h; rfl
    case ptrTo w => exact ih hnt w j (by simpa [floatsOK] using hf) h
  | hstruct fs ih =>
    intro hn v j hf h
    simp only [namesUtf8, namesUtf8F_iff] at hn
    cases v <;> simp only [mar] at h <;> try (cases h; done)
    case structOf fvs =>
      cases hl : marFields o fs fvs with
      | error e => simp [hl] at h
      | ok mem =>
        simp only [hl, Except.ok.injEq] at h; subst h
        simp only [clean]
        exact marFields_clean o fs (fun n t hm v j hfv hmv => ih n t hm (hn n t hm).2 v j hfv hmv)
          (fun n t hm => (hn n t hm).1) fvs mem (by simpa [floatsOK] using hf) hl

/-! ### from the L2 tree to the fragment tree -/

mutual
/-- The fragment tree of an L2 tree (the `else` branch is never taken for clean trees). -/
def toOut : JTree → OutTree
  | .null => .atom .null
  | .bool b => .atom (.bool b)
  | .num l => if h : pNumber l = some [] then .atom (.num l h) else .atom .null
  | .str s => .atom (.str s)
  | .arr xs => .arr (toOutL xs)
  | .obj ms => .obj (toOutM ms)
def toOutL : List JTree → List OutTree
  | [] => []
  | x :: r => toOut x :: toOutL r
def toOutM : List (Bytes × JTree) → List (Bytes × OutTree)
  | [] => []
  | (n, x) :: r => (n, toOut x) :: toOutM r
end

theorem lossy_valid (n : Bytes) (h : Utf8.valid n = true) : JsonV.Spec.StringSpec.lossy n = n :=
  JsonV.Lemmas.QuoteSpec.lossy_of_wellFormed n (JsonV.Lemmas.QuoteMeaning.valid_wellFormed n h)

theorem names_toOutM : ∀ ms : List (Bytes × JTree), cleanM ms = true →
    ((toOutM ms).map fun m => JsonV.Spec.StringSpec.lossy m.1) = akeys ms
  | [], _ => rfl
  | (n, x) :: r, h => by
    simp only [cleanM, Bool.and_eq_true] at h
    simp only [toOutM, List.map_cons, akeys_cons, lossy_valid n h.1.1, names_toOutM r h.2]

mutual
theorem toOut_namesOK (noDup : Bool) : ∀ j : JTree, clean j = true → j.dupFree = true →
    (toOut j).NamesOK noDup JsonV.Spec.StringSpec.lossy
  | .null, _, _ => by simp [toOut, OutTree.NamesOK]
  | .bool _, _, _ => by simp [toOut, OutTree.NamesOK]
  | .num l, _, _ => by simp only [toOut]; split <;> simp [OutTree.NamesOK]
  | .str _, _, _ => by simp [toOut, OutTree.NamesOK]
  | .arr xs, hc, hd => by
    simp only [toOut, OutTree.NamesOK]
    exact toOutL_namesOK noDup xs (by simpa [clean] using hc) (by simpa [JTree.dupFree] using hd)
  | .obj ms, hc, hd => by
    simp only [clean] at hc
    simp only [JTree.dupFree, Bool.and_eq_true, nodupB_iff] at hd
    simp only [toOut, OutTree.NamesOK]
    refine ⟨toOutM_namesOK noDup ms hc hd.2, fun _ => ?_⟩
    rw [names_toOutM ms hc]; exact hd.1
theorem toOutL_namesOK (noDup : Bool) : ∀ xs : List JTree, cleanL xs = true → JTree.dupFreeL xs = true →
    namesOKList noDup JsonV.Spec.StringSpec.lossy (toOutL xs)
  | [], _, _ => by simp [toOutL, namesOKList]
  | x :: r, hc, hd => by
    simp only [cleanL, Bool.and_eq_true] at hc
    simp only [JTree.dupFreeL, Bool.and_eq_true] at hd
    simp only [toOutL, namesOKList]
    exact ⟨toOut_namesOK noDup x hc.1 hd.1, toOutL_namesOK noDup r hc.2 hd.2⟩
theorem toOutM_namesOK (noDup : Bool) : ∀ ms : List (Bytes × JTree), cleanM ms = true → JTree.dupFreeM ms = true →
    namesOKMembers noDup JsonV.Spec.StringSpec.lossy (toOutM ms)
  | [], _, _ => by simp [toOutM, namesOKMembers]
  | (n, x) :: r, hc, hd => by
    simp only [cleanM, Bool.and_eq_true] at hc
    simp only [JTree.dupFreeM, Bool.and_eq_true] at hd
    simp only [toOutM, namesOKMembers]
    exact ⟨toOut_namesOK noDup x hc.1.2 hd.1, toOutM_namesOK noDup r hc.2 hd.2⟩
end

/-- **The L3 marshal model emits well-formed trees**: for a well-formed type with UTF-8 field names and a well-typed
value whose float literals are numbers, the tree `mar` returns translates to a `WellFormed` fragment tree — for every
option record whose key sends a quoted name to the name with ill-formed bytes replaced. -/
theorem l3_wellFormed (o : Opt) (quote : Bytes → Bytes) (hk : ∀ n, o.key (quote n) = JsonV.Spec.StringSpec.lossy n)
    (mo : MOpts) (T : GoType) (v : GoVal) (j : JTree) (hwf : T.wf = true) (hn : namesUtf8 T = true)
    (ht : hasType T v = true) (hf : floatsOK v = true) (h : mar mo T v = .ok j) :
    (toOut j).WellFormed o quote :=
  JsonV.Lemmas.EncInvNames.wf_of_namesOK o quote _ hk _
    (toOut_namesOK o.noDup j (mar_clean mo T hn v j hf h) (mar_dupFree_all mo T hwf v j ht h))

end JsonV.Lemmas.EncInvL3
