/-
C10 lemmas: the ECMA-262 layout (hence jsonwire.AppendFloat's output) is a JSON number.
-/
import JsonV.Lemmas.NumFloat

namespace JsonV.Lemmas.NumGrammar
open JsonV JsonV.Spec.Ecma JsonV.Lemmas.NumFloat

theorem dig_toNat (d : Nat) (h : d < 10) : (dig d).toNat = 48 + d := by
  simp only [dig, UInt8.toNat_ofNat']; omega

theorem dig_isDigit (d : Nat) (h : d < 10) : isDigit (dig d) = true := by
  simp only [isDigit, Bool.and_eq_true, decide_eq_true_eq, UInt8.le_iff_toNat_le, dig_toNat d h]
  constructor
  · simp
  · simp; omega

theorem dig_lead (d : Nat) (h : d < 10) (h0 : d ≠ 0) : (dig d == 48) = false ∧ (49 ≤ dig d && dig d ≤ 57) = true := by
  have : ∀ q : Fin 10, q.val ≠ 0 → (dig q.val == 48) = false ∧ (49 ≤ dig q.val && dig q.val ≤ 57) = true := by decide
  exact this ⟨d, h⟩ h0

theorem dig_ne_45 (d : Nat) (h : d < 10) : (dig d == 45) = false := by
  have : ∀ q : Fin 10, (dig q.val == 45) = false := by decide
  exact this ⟨d, h⟩

theorem map_dig_digits (l : List Nat) (h : ∀ d ∈ l, d < 10) : ∀ c ∈ l.map dig, isDigit c = true := by
  intro c hc
  rw [List.mem_map] at hc
  obtain ⟨d, hd, rfl⟩ := hc
  exact dig_isDigit d (h d hd)

theorem zeros_digits (z : Nat) : ∀ c ∈ zeros z, isDigit c = true := by
  intro c hc
  simp only [zeros, List.mem_replicate] at hc
  rw [hc.2]; decide

theorem dropWhile_digits (l rest : Bytes) (h : ∀ c ∈ l, isDigit c = true) :
    (l ++ rest).dropWhile isDigit = rest.dropWhile isDigit := by
  induction l with
  | nil => rfl
  | cons c t ih =>
    rw [List.cons_append, List.dropWhile_cons_of_pos (h c (by simp))]
    exact ih (fun x hx => h x (by simp [hx]))

theorem dropWhile_all (l : Bytes) (h : ∀ c ∈ l, isDigit c = true) : l.dropWhile isDigit = [] := by
  have := dropWhile_digits l [] h
  simpa using this

theorem decimal_lt (e : Nat) : ∀ d ∈ decimal e, d < 10 := by
  induction e using Nat.strongRecOn with
  | _ e ih =>
    rw [decimal]
    split
    · intro d hd; simp at hd; omega
    · intro d hd
      rw [List.mem_append] at hd
      rcases hd with hd | hd
      · exact ih (e / 10) (by omega) d hd
      · simp at hd; omega

theorem decimal_ne_nil (e : Nat) : decimal e ≠ [] := by
  rw [decimal]; split <;> simp

/-- After `e±`, the exponent digits finish the number. -/
theorem afterExpSign_decimal (e : Nat) : afterExpSign ((decimal e).map dig) = true := by
  have hd := map_dig_digits (decimal e) (decimal_lt e)
  cases h : (decimal e).map dig with
  | nil => simp at h; exact absurd h (decimal_ne_nil e)
  | cons x t =>
    rw [h] at hd
    simp only [afterExpSign, Bool.and_eq_true]
    exact ⟨hd x (by simp), by rw [dropWhile_all _ hd]; rfl⟩

theorem afterFrac_exp (s : UInt8) (hs : s = 45 ∨ s = 43) (e : Nat) :
    afterFrac (101 :: s :: (decimal e).map dig) = true := by
  rcases hs with h | h <;> subst h <;> simp [afterFrac, afterExpSign_decimal]

theorem afterFrac_exp' (x : Int) (e : Nat) :
    afterFrac ([101] ++ (if x < 0 then [45] else [43]) ++ (decimal e).map dig) = true := by
  by_cases h : x < 0
  · simp only [h, if_true]; exact afterFrac_exp 45 (Or.inl rfl) e
  · simp only [h, if_false]; exact afterFrac_exp 43 (Or.inr rfl) e

theorem not_digit_101 : isDigit 101 = false := by decide
theorem not_digit_46 : isDigit 46 = false := by decide

/-- The layout of a well-formed decomposition is an unsigned JSON number that does not start with '-'. -/
theorem layout_unsigned (ds : List Nat) (n : Int) (h : WFD ds n) :
    unsignedNumber (layout ds n) = true ∧ (layout ds n).head? ≠ some 45 := by
  obtain ⟨hlt, hhead, hz, hlo, hhi⟩ := h
  cases ds with
  | nil => rw [hz rfl]; decide
  | cons d r =>
    have hd : d < 10 := hlt d (by simp)
    have hd0 : d ≠ 0 := by simpa using hhead
    have hr : ∀ x ∈ r, x < 10 := fun x hx => hlt x (by simp [hx])
    obtain ⟨hl1, hl2⟩ := dig_lead d hd hd0
    have hne : d :: r ≠ [] := by simp
    by_cases hp : -6 < n ∧ n ≤ 21
    · by_cases hA : ((d :: r).length : Int) ≤ n
      · have := ecma_int false (d :: r) n hne hA hp.2
        simp only [numberToString, sgn, Bool.false_eq_true, if_false, List.nil_append] at this
        rw [this]
        simp only [List.map_cons, List.cons_append, unsignedNumber, hl1, Bool.false_eq_true, if_false, hl2, Bool.true_and,
          List.head?_cons, ne_eq, Option.some.injEq]
        refine ⟨?_, by simpa using dig_ne_45 d hd⟩
        rw [dropWhile_all]
        · rfl
        · intro c hc
          rw [List.mem_append] at hc
          rcases hc with hc | hc
          · exact map_dig_digits r hr c hc
          · exact zeros_digits _ c hc
      · by_cases hB : 0 < n
        · have := ecma_point false (d :: r) n hne hA hB hp.2
          simp only [numberToString, sgn, Bool.false_eq_true, if_false, List.nil_append] at this
          rw [this]
          obtain ⟨a, rfl⟩ : ∃ a : Nat, n = (a + 1 : Nat) := ⟨n.toNat - 1, by omega⟩
          have ha : a + 1 < (d :: r).length := by omega
          simp only [Int.toNat_natCast, List.take_succ_cons, List.map_cons, List.cons_append, unsignedNumber, hl1,
            Bool.false_eq_true, if_false, hl2, Bool.true_and, List.head?_cons, ne_eq, Option.some.injEq, List.drop_succ_cons]
          refine ⟨?_, by simpa using dig_ne_45 d hd⟩
          rw [List.append_assoc, dropWhile_digits _ _ (map_dig_digits _ (fun x hx => hr x (List.mem_of_mem_take hx)))]
          have hdrop : ∀ x ∈ r.drop a, x < 10 := fun x hx => hr x (List.mem_of_mem_drop hx)
          have hdd := map_dig_digits _ hdrop
          cases hfr : (r.drop a).map dig with
          | nil =>
            simp at hfr
            simp only [List.length_cons] at ha
            omega
          | cons x t =>
            rw [hfr] at hdd
            simp only [List.singleton_append, List.dropWhile_cons_of_neg (by simp [not_digit_46] : ¬ isDigit 46 = true),
              afterInt, beq_self_eq_true, if_true, Bool.and_eq_true]
            exact ⟨hdd x (by simp), by rw [dropWhile_all _ hdd]; rfl⟩
        · have := ecma_small false (d :: r) n hne hp.1 (by omega)
          simp only [numberToString, sgn, Bool.false_eq_true, if_false, List.nil_append] at this
          rw [this]
          have hall : ∀ c ∈ zeros (-n).toNat ++ (d :: r).map dig, isDigit c = true := by
            intro c hc
            rw [List.mem_append] at hc
            rcases hc with hc | hc
            · exact zeros_digits _ c hc
            · exact map_dig_digits (d :: r) hlt c hc
          refine ⟨?_, by simp⟩
          simp only [List.cons_append, List.nil_append, unsignedNumber, beq_self_eq_true, if_true, afterInt]
          cases hfr : zeros (-n).toNat ++ (d :: r).map dig with
          | nil => simp at hfr
          | cons x t =>
            rw [hfr] at hall
            simp only [Bool.and_eq_true]
            exact ⟨hall x (by simp), by rw [dropWhile_all _ hall]; rfl⟩
    · have hx : n ≤ -6 ∨ 21 < n := by omega
      by_cases hr0 : r = []
      · subst hr0
        have := ecma_exp1 false d n hx
        simp only [numberToString, sgn, Bool.false_eq_true, if_false, List.nil_append] at this
        rw [this]
        simp only [List.cons_append, List.nil_append, unsignedNumber, hl1, Bool.false_eq_true, if_false, hl2, Bool.true_and,
          List.head?_cons, ne_eq, Option.some.injEq]
        refine ⟨?_, by simpa using dig_ne_45 d hd⟩
        rw [List.dropWhile_cons_of_neg (by simp [not_digit_101])]
        have := afterFrac_exp' (n - 1) (n - 1).natAbs
        simp only [List.cons_append, List.nil_append] at this
        simp only [afterInt, show ((101 : UInt8) == 46) = false by decide, Bool.false_eq_true, if_false]
        exact this
      · have := ecma_expk false d r hr0 n hx
        simp only [numberToString, sgn, Bool.false_eq_true, if_false, List.nil_append] at this
        rw [this]
        simp only [List.cons_append, List.nil_append, unsignedNumber, hl1, Bool.false_eq_true, if_false, hl2, Bool.true_and,
          List.head?_cons, ne_eq, Option.some.injEq]
        refine ⟨?_, by simpa using dig_ne_45 d hd⟩
        rw [List.dropWhile_cons_of_neg (by simp [not_digit_46])]
        have hdd := map_dig_digits r hr
        cases hfr : r.map dig with
        | nil => simp at hfr; exact absurd hfr hr0
        | cons x t =>
          rw [hfr] at hdd
          simp only [afterInt, beq_self_eq_true, if_true, List.cons_append, Bool.and_eq_true]
          refine ⟨hdd x (by simp), ?_⟩
          rw [← List.cons_append, dropWhile_digits _ _ hdd, List.dropWhile_cons_of_neg (by simp [not_digit_101])]
          have := afterFrac_exp' (n - 1) (n - 1).natAbs
          simpa using this

/-- The ECMA layout with its sign is a JSON number. -/
theorem numberToString_isJson (neg : Bool) (ds : List Nat) (n : Int) (h : WFD ds n) :
    isJsonNumber (numberToString neg ds n) = true := by
  obtain ⟨h1, h2⟩ := layout_unsigned ds n h
  cases neg with
  | true => simp [numberToString, isJsonNumber, h1]
  | false =>
    simp only [numberToString, Bool.false_eq_true, if_false, List.nil_append]
    cases hl : layout ds n with
    | nil => rw [hl] at h1; simp [unsignedNumber] at h1
    | cons c t =>
      rw [hl] at h1 h2
      have : (c == 45) = false := by simpa using h2
      simp only [isJsonNumber, this, Bool.false_eq_true, if_false]
      exact h1

end JsonV.Lemmas.NumGrammar
