/-
C02, part 8: the parameters of the fragment model instantiated with the models that other slices proved:
  * `quote`  := slice C11's `appendQuote` (Model/Quote.lean) — its output is a `JString` of slice C01's grammar
    (from C11's `csLoop_quoteLoop` and the C01/C11 glue `consumeString_grammar`), for the flag sets without
    EscapeForHTML/EscapeForJS (C11 proves the scanner-acceptance lemma only for those);
  * integers := slice C10's `formatUint` / `formatInt` (Model/Number.lean) — equal to `natDigits` / `intDigits`.
-/
import JsonV.Lemmas.EncInvGrammar
import JsonV.Lemmas.GlueQuote
import JsonV.Lemmas.QuoteL
import JsonV.Model.Number

namespace JsonV.Lemmas.EncInvInst
open JsonV JsonV.Spec.ValidJson JsonV.Spec.Grammar JsonV.Model.EncInv JsonV.Model.Quote

/-- AppendQuote (no HTML/JS escaping) always returns a string literal of the grammar — in the STRICT sense
(well-formed UTF-8, no unpaired surrogate), whatever bytes it was given (ill-formed input is replaced by U+FFFD;
whether an error is reported as well is `quote_error_iff` of C11). -/
theorem appendQuote_jstring (f : QFlags) (hh : f.html = false) (hj : f.js = false) (v : Bool) (s : Bytes) :
    JString v (appendQuote f s).1 := by
  have hcs : consumeString v (appendQuote f s).1 = ((appendQuote f s).1.length, Err.ok, false) := by
    simp only [appendQuote, hh, hj, consumeString, ↓reduceIte]
    rw [JsonV.Lemmas.QuoteCanon.csLoop_quoteLoop]
    simp; omega
  have := (JsonV.Lemmas.GlueQuote.consumeString_grammar _ v _).mp ⟨false, hcs⟩
  simpa using this.2

/-- the modelled AppendQuote as the `quote` of the fragment model -/
def realQuote (f : QFlags) (s : Bytes) : Bytes := (appendQuote f s).1

/-- Under the default name key (the text recovered by AppendUnquote) the key of a quoted Go string is that string
with each ill-formed byte replaced by U+FFFD (C11 `unquote_quote_lossy`) — so "distinct keys" is a condition on
the Go-side names alone. -/
theorem key_realQuote (f : QFlags) (n : Bytes) :
    (JsonV.Model.Quote.appendUnquote (realQuote f n)).1 = JsonV.Spec.StringSpec.lossy n := by
  have := JsonV.Lemmas.QuoteL.unqLoop_quoteLoop f.html f.js n Err.ok
  simp only [realQuote, appendQuote, appendUnquote, ↓reduceIte]
  rw [this]

/-! ### integers: C10's model is the same function -/

theorem formatUint_eq (n : Nat) : JsonV.Model.Number.formatUint n = natDigits n := by
  unfold JsonV.Model.Number.formatUint
  fun_induction JsonV.Model.Number.natDigits n with
  | case1 n h => rw [natDigits]; simp [h, JsonV.Model.Number.digitByte]
  | case2 n h ih =>
    rw [natDigits]; simp only [h, dite_false, List.map_append, List.map_cons, List.map_nil]
    rw [ih]; rfl

theorem formatInt_eq (i : Int) : JsonV.Model.Number.formatInt i = intDigits i := by
  unfold JsonV.Model.Number.formatInt intDigits
  split
  · rw [formatUint_eq]
  · rename_i h
    rw [formatUint_eq]
    have : i.natAbs = i.toNat := by omega
    rw [this]

end JsonV.Lemmas.EncInvInst
