/-
Strings: soundness of the string scanner of Model/WireDecode.lean w.r.t. `JString` of Spec/Grammar.lean:
whatever `ConsumeString` accepts is a string of the grammar (strict = validateUTF8).
-/
import JsonV.Model.WireDecode
import JsonV.Spec.Grammar
import JsonV.Lemmas.WireNumber

namespace JsonV.Lemmas.WireString
open JsonV JsonV.Model JsonV.Model.Wire JsonV.Spec.Grammar JsonV.Lemmas.WireNumber

/-! ### utf8.DecodeRune (model) -/

theorem leadInfo_sz (b sz lo hi : Nat) (h : Utf8.leadInfo b = some (sz, lo, hi)) : sz = 2 ∨ sz = 3 ∨ sz = 4 := by
  unfold Utf8.leadInfo at h
  repeat' split at h
  all_goals simp_all
  all_goals omega

theorem decodeRune_multi (r : Bytes) (h : (Utf8.decodeRune r).2 > 1) :
    Utf8Multi (r.take (Utf8.decodeRune r).2) ∧ (Utf8.decodeRune r).2 ≤ r.length := by
  cases r with
  | nil => simp [Utf8.decodeRune] at h
  | cons b0 rest =>
    by_cases hlt : b0.toNat < Utf8.runeSelf
    · simp [Utf8.decodeRune, hlt] at h
    cases hli : Utf8.leadInfo b0.toNat with
    | none => simp [Utf8.decodeRune, hlt, hli] at h
    | some t =>
      obtain ⟨sz, lo, hi⟩ := t
      have hsz := leadInfo_sz _ _ _ _ hli
      cases rest with
      | nil => simp [Utf8.decodeRune, hlt, hli] at h
      | cons b1 rest1 =>
        by_cases hr1 : b1.toNat < lo ∨ hi < b1.toNat
        · simp [Utf8.decodeRune, hlt, hli, hr1] at h
        by_cases hs2 : sz = 2
        · subst hs2
          simp only [Utf8.decodeRune, hlt, hli, hr1, if_false, if_true]
          exact ⟨⟨b0, b1, [], 2, lo, hi, by simp, hli, by simp, by omega, by omega, by simp⟩, by simp⟩
        cases rest1 with
        | nil => simp [Utf8.decodeRune, hlt, hli, hr1, hs2] at h
        | cons b2 rest2 =>
          by_cases hc2 : Utf8.isCont b2.toNat = false
          · simp [Utf8.decodeRune, hlt, hli, hr1, hs2, hc2] at h
          replace hc2 : Utf8.isCont b2.toNat = true := by simpa using hc2
          by_cases hs3 : sz = 3
          · subst hs3
            simp only [Utf8.decodeRune, hlt, hli, hr1, hc2, if_false, if_true]
            simp only [show ¬((3 : Nat) = 2) by decide, if_false, Bool.not_true, Bool.false_eq_true]
            exact ⟨⟨b0, b1, [b2], 3, lo, hi, by simp, hli, by simp, by omega, by omega, by simpa using hc2⟩, by simp⟩
          have hs4 : sz = 4 := by omega
          subst hs4
          cases rest2 with
          | nil => simp [Utf8.decodeRune, hlt, hli, hr1, hc2] at h
          | cons b3 rest3 =>
            by_cases hc3 : Utf8.isCont b3.toNat = false
            · simp [Utf8.decodeRune, hlt, hli, hr1, hc2, hc3] at h
            replace hc3 : Utf8.isCont b3.toNat = true := by simpa using hc3
            simp only [Utf8.decodeRune, hlt, hli, hr1, hc2, hc3, if_false, if_true]
            simp only [show ¬((4 : Nat) = 2) by decide, show ¬((4 : Nat) = 3) by decide, if_false, Bool.not_true, Bool.false_eq_true]
            refine ⟨⟨b0, b1, [b2, b3], 4, lo, hi, by simp, hli, by simp, by omega, by omega, ?_⟩, by simp⟩
            intro c hc
            simp only [List.mem_cons, List.not_mem_nil, or_false] at hc
            rcases hc with rfl | rfl
            · exact hc2
            · exact hc3

theorem decodeRune_ascii (c : UInt8) (r : Bytes) (h : c.toNat < 0x80) : Utf8.decodeRune (c :: r) = (c.toNat, 1) := by
  simp [Utf8.decodeRune, Utf8.runeSelf, h]

theorem decodeRune_high (c : UInt8) (r : Bytes) (h : ¬ c.toNat < 0x80) :
    (Utf8.decodeRune (c :: r)).2 > 1 ∨ Utf8.decodeRune (c :: r) = (Utf8.runeError, 1) := by
  simp only [Utf8.decodeRune, Utf8.runeSelf, h, if_false]
  repeat' split
  all_goals simp

/-! ### hex digits -/

instance : DecidablePred HexDigit := fun c => by unfold HexDigit; infer_instance

theorem hexVal_spec : ∀ c : UInt8, hexVal c = if HexDigit c then some (hexValue c) else none := by
  apply forall_u8; decide +kernel

theorem hexVal_some (c : UInt8) (v : Nat) (h : hexVal c = some v) : HexDigit c ∧ v = hexValue c := by
  rw [hexVal_spec c] at h
  split at h
  · rename_i hd; exact ⟨hd, by simpa using h.symm⟩
  · cases h

theorem parseHex_some (a b c d : UInt8) (v : Nat) (h : parseHexUint16 [a, b, c, d] = some v) :
    HexDigit a ∧ HexDigit b ∧ HexDigit c ∧ HexDigit d ∧ v = hex4Value a b c d := by
  unfold parseHexUint16 at h
  cases ha : hexVal a <;> cases hb : hexVal b <;> cases hc : hexVal c <;> cases hd : hexVal d <;> simp [ha, hb, hc, hd] at h
  have h1 := hexVal_some a _ ha
  have h2 := hexVal_some b _ hb
  have h3 := hexVal_some c _ hc
  have h4 := hexVal_some d _ hd
  refine ⟨h1.1, h2.1, h3.1, h4.1, ?_⟩
  rw [← h, h1.2, h2.2, h3.2, h4.2]; rfl

theorem six_of_not_lenLt (r : Bytes) (h : lenLt r 6 = false) :
    ∃ x0 x1 x2 x3 x4 x5 rest, r = x0 :: x1 :: x2 :: x3 :: x4 :: x5 :: rest := by
  have hl : ¬ r.length < 6 := by rw [← WireBasic.lenLt_iff]; simp [h]
  match r, hl with
  | x0 :: x1 :: x2 :: x3 :: x4 :: x5 :: rest, _ => exact ⟨x0, x1, x2, x3, x4, x5, rest, rfl⟩
  | [], hl => simp at hl
  | [_], hl => simp at hl
  | [_, _], hl => simp at hl
  | [_, _, _], hl => simp at hl
  | [_, _, _, _], hl => simp at hl
  | [_, _, _, _, _], hl => simp at hl

theorem noEscape_spec (c : UInt8) (h : noEscape c = true) : 0x20 ≤ c ∧ c < 0x80 ∧ c ≠ 0x22 ∧ c ≠ 0x5C := by
  simp only [noEscape, Bool.and_eq_true, decide_eq_true_eq, bne_iff_ne, ne_eq] at h
  exact ⟨h.1.1.2, h.1.1.1, h.2, h.1.2⟩

theorem utf16_pair (v1 v2 : Nat) (h : (Utf8.utf16DecodeRune v1 v2 == Utf8.runeError) = false) :
    HighSurrogate v1 ∧ LowSurrogate v2 := by
  unfold Utf8.utf16DecodeRune at h
  split at h
  · rename_i hc
    simp only [Utf8.isHighSurrogate, Utf8.isLowSurrogate, Bool.and_eq_true, decide_eq_true_eq] at hc
    exact ⟨⟨hc.1.1, hc.1.2⟩, ⟨hc.2.1, hc.2.2⟩⟩
  · simp at h

/-! ### one step of the string loop -/

theorem escape_sound (v : Bool) (c : UInt8) (rest : Bytes) (hc : c = 0x5C) (k : Nat) (f : ValueFlags)
    (h : stringEscape v (c :: rest) = .cont k f) :
    1 ≤ k ∧ k ≤ (c :: rest).length ∧ JChar v ((c :: rest).take k) := by
  subst hc
  cases rest with
  | nil => simp [stringEscape] at h
  | cons e r2 =>
    simp only [stringEscape] at h
    split at h
    · rename_i he
      cases h
      have : e = 0x2F := by simpa using he
      exact ⟨by omega, by simp, by simpa using JChar.esc e (by simp [SimpleEscape, this])⟩
    split at h
    · rename_i _ he
      cases h
      refine ⟨by omega, by simp, ?_⟩
      have : SimpleEscape e := by
        simp only [Bool.or_eq_true, beq_iff_eq] at he
        unfold SimpleEscape
        rcases he with (((((he | he) | he) | he) | he) | he) | he <;> simp [he]
      simpa using JChar.esc e this
    split at h
    · rename_i _ _ he
      have he' : e = 0x75 := by simpa using he
      subst he'
      split at h
      · split at h <;> cases h
      rename_i hlen
      obtain ⟨x0, x1, a, b, c, d, r6, hr⟩ := six_of_not_lenLt _ (by simpa using hlen)
      simp only [List.cons.injEq] at hr
      obtain ⟨-, -, rfl⟩ := hr
      simp only [List.take_succ_cons, List.take_zero, List.drop_succ_cons, List.drop_zero] at h
      cases hp : parseHexUint16 [a, b, c, d] with
      | none => simp [hp] at h
      | some v1 =>
        obtain ⟨ha, hb, hc, hd, hv⟩ := parseHex_some a b c d v1 hp
        simp only [hp] at h
        split at h
        · rename_i hsur
          simp only [Bool.and_eq_true] at hsur
          split at h
          · split at h <;> cases h
          rename_i hlen2
          obtain ⟨y0, y1, e', f', g', h', r12, hr6⟩ := six_of_not_lenLt _ (by simpa using hlen2)
          subst hr6
          simp only [List.take_succ_cons, List.take_zero] at h
          cases hp2 : parseHexUint16 [e', f', g', h'] with
          | none => simp [hp2] at h
          | some v2 =>
            obtain ⟨ha2, hb2, hc2, hd2, hv2⟩ := parseHex_some e' f' g' h' v2 hp2
            simp only [hp2] at h
            split at h
            · cases h
            rename_i hbs
            split at h
            · cases h
            rename_i hdec
            cases h
            have hy : y0 = 0x5C ∧ y1 = 0x75 := by
              simp only [Bool.or_eq_true, bne_iff_ne, ne_eq, not_or, Decidable.not_not] at hbs
              exact hbs
            obtain ⟨rfl, rfl⟩ := hy
            have hpair := utf16_pair v1 v2 (by simpa using hdec)
            rw [hv] at hpair
            rw [hv2] at hpair
            exact ⟨by omega, by simp, by simpa using JChar.pair a b c d e' f' g' h' ha hb hc hd ha2 hb2 hc2 hd2 hpair.1 hpair.2⟩
        · rename_i hsur
          cases h
          refine ⟨by omega, by simp, ?_⟩
          have : v = true → ¬ Surrogate (hex4Value a b c d) := by
            intro hv'
            subst hv'
            simp only [Bool.true_and, Bool.not_eq_true] at hsur
            rw [hv] at hsur
            simp only [Utf8.isSurrogate, Bool.and_eq_false_iff, decide_eq_false_iff_not] at hsur
            unfold Surrogate
            omega
          simpa using JChar.uni a b c d ha hb hc hd this
    · cases h

theorem step_cont_sound (v : Bool) (r : Bytes) (k : Nat) (f : ValueFlags) (h : stringStep v r = .cont k f) :
    1 ≤ k ∧ k ≤ r.length ∧ JChar v (r.take k) := by
  cases r with
  | nil => simp [stringStep] at h
  | cons c r1 =>
    simp only [stringStep] at h
    split at h
    · rename_i hne
      cases h
      obtain ⟨h1, h2, h3, h4⟩ := noEscape_spec c hne
      exact ⟨by omega, by simp, by simpa using JChar.plain c h1 h2 h3 h4⟩
    split at h
    · cases h
    split at h
    · rename_i hrn
      cases h
      have := decodeRune_multi (c :: r1) hrn
      exact ⟨by omega, this.2, JChar.utf8 _ this.1⟩
    rename_i hne hq hrn
    split at h
    · rename_i hbs
      -- the rune is a backslash and the width is ≤ 1: the byte is a backslash
      have hc : c = 0x5C := by
        by_cases hlt : c.toNat < 0x80
        · rw [decodeRune_ascii c r1 hlt] at hbs
          have : c.toNat = 0x5C := by simpa using hbs
          exact UInt8.toNat_inj.1 (by simpa using this)
        · rcases decodeRune_high c r1 hlt with h' | h'
          · exact absurd h' hrn
          · rw [h'] at hbs; simp [Utf8.runeError] at hbs
      exact escape_sound v c r1 hc k f h
    split at h
    · rename_i hre
      split at h
      · cases h
      split at h
      · cases h
      rename_i hv
      cases h
      have hv' : v = false := by simpa using hv
      have hhigh : 0x80 ≤ c := by
        by_cases hlt : c.toNat < 0x80
        · rw [decodeRune_ascii c r1 hlt] at hre
          simp [Utf8.runeError] at hre
          omega
        · rw [UInt8.le_iff_toNat_le]; simpa using hlt
      exact ⟨by omega, by simp, by simpa using JChar.raw c hv' hhigh⟩
    split at h <;> cases h

theorem step_stop_ok (v : Bool) (r : Bytes) (k : Nat) (f : ValueFlags) (h : stringStep v r = .stop k f .ok) :
    k = 1 ∧ ∃ rest, r = 0x22 :: rest := by
  cases r with
  | nil => simp [stringStep] at h
  | cons c r1 =>
    simp only [stringStep] at h
    split at h
    · cases h
    split at h
    · rename_i hq
      cases h
      exact ⟨rfl, r1, by simp [show c = 0x22 by simpa using hq]⟩
    split at h
    · cases h
    split at h
    · -- stringEscape never stops with ok
      exfalso
      revert h
      cases r1 with
      | nil => simp [stringEscape]
      | cons e r2 =>
        simp only [stringEscape]
        repeat' split
        all_goals simp
    split at h
    · split at h
      · cases h
      split at h <;> cases h
    split at h <;> cases h

/-! ### the loop and the entry point -/

theorem loop_sound (v : Bool) (fuel : Nat) (r : Bytes) (n : Nat) (f : ValueFlags)
    (h : stringLoop v fuel r = (n, f, .ok)) :
    n ≤ r.length ∧ ∃ body, JChars v body ∧ r.take n = body ++ [0x22] := by
  induction fuel generalizing r n f with
  | zero => simp [stringLoop] at h
  | succ fuel ih =>
    simp only [stringLoop] at h
    split at h
    · rename_i k f' e hs
      simp only [Prod.mk.injEq] at h
      obtain ⟨rfl, rfl, rfl⟩ := h
      obtain ⟨rfl, rest, rfl⟩ := step_stop_ok v r k f' hs
      exact ⟨by simp, [], JChars.nil, by simp⟩
    · rename_i k f' hs
      obtain ⟨hk1, hk2, hch⟩ := step_cont_sound v r k f' hs
      rcases hl : stringLoop v fuel (r.drop k) with ⟨n', f'', e'⟩
      simp only [hl, Prod.mk.injEq] at h
      obtain ⟨rfl, rfl, rfl⟩ := h
      obtain ⟨hn', body, hb, htake⟩ := ih (r.drop k) n' f'' hl
      refine ⟨by simp at hn'; omega, r.take k ++ body, JChars.cons _ _ hch hb, ?_⟩
      rw [List.take_add, htake, List.append_assoc]

/-- `ConsumeString(b, validateUTF8) = (n, nil)` ⇒ the first `n` bytes are a string of the grammar. -/
theorem consumeString_sound (b : Bytes) (v : Bool) (n : Nat) (f : ValueFlags) (h : consumeString b v = (n, f, .ok)) :
    n ≤ b.length ∧ JString v (b.take n) := by
  unfold consumeString consumeStringResumable at h
  simp only [Nat.lt_irrefl, if_false, gt_iff_lt] at h
  cases b with
  | nil => simp at h
  | cons c r =>
    simp only at h
    split at h
    · rename_i hq
      have hc : c = 0x22 := by simpa using hq
      subst hc
      rcases hl : stringLoop v (r.length + 1) r with ⟨n', f', e'⟩
      simp only [hl, Prod.mk.injEq] at h
      obtain ⟨rfl, rfl, rfl⟩ := h
      obtain ⟨hn', body, hb, htake⟩ := loop_sound v _ r n' f' hl
      refine ⟨by simp; omega, body, hb, ?_⟩
      have : 1 + n' = n' + 1 := by omega
      rw [this, List.take_succ_cons, htake]
    · simp at h

/-! ### ConsumeSimpleString -/

theorem simpleByte_noEscape : ∀ c : UInt8, simpleByte c = true → noEscape c = true := by
  apply forall_u8; decide +kernel

theorem simple_loop (v : Bool) (r : Bytes) (fuel : Nat) (rest : Bytes) (hf : simpleRun r + 1 ≤ fuel)
    (hd : r.drop (simpleRun r) = 0x22 :: rest) : stringLoop v fuel r = (simpleRun r + 1, {}, .ok) := by
  induction r generalizing fuel with
  | nil => simp [simpleRun] at hd
  | cons c r' ih =>
    cases fuel with
    | zero => omega
    | succ fuel =>
      by_cases hs : simpleByte c = true
      · have hne := simpleByte_noEscape c hs
        simp only [simpleRun, hs, if_true, List.drop_succ_cons] at hd hf ⊢
        have := ih fuel (by omega) hd
        simp only [stringLoop, stringStep, hne, if_true, List.drop_succ_cons, List.drop_zero, this]
        refine Prod.ext (by simp; omega) (Prod.ext ?_ rfl)
        rfl
      · simp only [simpleRun, hs, Bool.false_eq_true, if_false, List.drop_zero, List.cons.injEq] at hd ⊢
        obtain ⟨rfl, -⟩ := hd
        have : noEscape 0x22 = false := by decide
        simp [stringLoop, stringStep, this]

/-- a non-zero answer of the fast path is the answer of the full scanner, with no flags set -/
theorem simple_string_sound' (b : Bytes) (v : Bool) (hpos : consumeSimpleString b ≠ 0) :
    consumeString b v = (consumeSimpleString b, {}, .ok) := by
  cases b with
  | nil => simp [consumeSimpleString] at hpos
  | cons c r =>
    simp only [consumeSimpleString] at hpos ⊢
    split at hpos
    · rename_i hq
      simp only [hq, if_true]
      split at hpos
      · exact absurd rfl hpos
      · rename_i q rest hd
        split at hpos
        · rename_i hq2
          have : q = 0x22 := by simpa using hq2
          subst this
          simp only [hd, beq_self_eq_true, if_true]
          have hle : simpleRun r ≤ r.length := by
            have : ∀ r : Bytes, simpleRun r ≤ r.length := by
              intro r; induction r with
              | nil => simp [simpleRun]
              | cons c r ih => simp only [simpleRun]; split <;> simp <;> omega
            exact this r
          have := simple_loop v r (r.length + 1) rest (by omega) hd
          simp only [consumeString, consumeStringResumable, Nat.lt_irrefl, if_false, gt_iff_lt, hq, if_true, this]
          refine Prod.ext (by simp; omega) rfl
        · exact absurd rfl hpos
    · exact absurd rfl hpos

/-! ### completeness: every string of the grammar is accepted -/

theorem leadInfo_facts (b sz lo hi : Nat) (h : Utf8.leadInfo b = some (sz, lo, hi)) :
    0xC2 ≤ b ∧ 0x80 ≤ lo ∧ hi ≤ 0xBF ∧ (sz = 2 ∨ sz = 3 ∨ sz = 4) := by
  unfold Utf8.leadInfo at h
  repeat' split at h
  all_goals simp_all
  all_goals omega

theorem noEscape_high (c : UInt8) (h : ¬ c.toNat < 0x80) : noEscape c = false := by
  have : ¬ c < 0x80 := by rw [UInt8.lt_iff_toNat_lt]; simpa using h
  simp [noEscape, this]

theorem ne_quote_high (c : UInt8) (h : ¬ c.toNat < 0x80) : (c == 0x22) = false := by
  simp only [beq_eq_false_iff_ne, ne_eq]
  intro hc; subst hc; simp at h

theorem decodeRune_of_multi (p t : Bytes) (h : Utf8Multi p) :
    (Utf8.decodeRune (p ++ t)).2 = p.length ∧ 1 < p.length ∧ ∃ b0 p', p = b0 :: p' ∧ ¬ b0.toNat < 0x80 := by
  obtain ⟨b0, b1, rest, sz, lo, hi, rfl, hli, hlen, hlo, hhi, hcont⟩ := h
  obtain ⟨f1, f2, f3, f4⟩ := leadInfo_facts _ _ _ _ hli
  have hlt : ¬ b0.toNat < Utf8.runeSelf := by simp [Utf8.runeSelf]; omega
  have hr1 : ¬ (b1.toNat < lo ∨ hi < b1.toNat) := by omega
  refine ⟨?_, by simp, b0, _, rfl, by omega⟩
  simp only [List.length_cons] at hlen
  rcases f4 with rfl | rfl | rfl
  · have : rest = [] := by cases rest <;> simp_all
    subst this
    simp [Utf8.decodeRune, hlt, hli, hr1]
  · match rest, hlen, hcont with
    | [b2], _, hcont =>
      have hc2 : Utf8.isCont b2.toNat = true := hcont b2 (by simp)
      simp [Utf8.decodeRune, hlt, hli, hr1, hc2]
  · match rest, hlen, hcont with
    | [b2, b3], _, hcont =>
      have hc2 : Utf8.isCont b2.toNat = true := hcont b2 (by simp)
      have hc3 : Utf8.isCont b3.toNat = true := hcont b3 (by simp)
      simp [Utf8.decodeRune, hlt, hli, hr1, hc2, hc3]

/-- utf8.FullRune is true whenever an ASCII quote follows the lead byte somewhere -/
theorem fullRune_of_quote (x : UInt8) (q : Bytes) (hq : (0x22 : UInt8) ∈ q) : Utf8.fullRune (x :: q) = true := by
  unfold Utf8.fullRune
  simp only
  split
  · rfl
  split
  · rfl
  rename_i sz lo hi hli
  obtain ⟨f1, f2, f3, f4⟩ := leadInfo_facts _ _ _ _ hli
  split
  · rfl
  rename_i hshort
  cases q with
  | nil => simp at hq
  | cons b1 q' =>
    simp only
    split
    · rfl
    rename_i hr
    have hb1 : b1 ≠ 0x22 := by
      intro hb; subst hb; simp at hr; omega
    have hq' : (0x22 : UInt8) ∈ q' := by
      simp only [List.mem_cons] at hq
      rcases hq with h | h
      · exact absurd h.symm hb1
      · exact h
    cases q' with
    | nil => simp at hq'
    | cons b2 q'' =>
      simp only
      split
      · rfl
      rename_i hc2
      exfalso
      have hb2 : b2 ≠ 0x22 := by
        intro hb; subst hb; simp [Utf8.isCont] at hc2
      simp only [List.mem_cons] at hq'
      rcases hq' with h | h
      · exact hb2 h.symm
      · cases q'' with
        | nil => simp at h
        | cons b3 q3 => simp at hshort; omega

theorem jchars_tail_of_cont (y : UInt8) (t : Bytes) (hy : 0x80 ≤ y.toNat ∧ y.toNat ≤ 0xBF)
    (h : JChars false (y :: t)) : JChars false t := by
  generalize hl : y :: t = l at h
  cases h with
  | nil => cases hl
  | cons c r hc hr =>
    cases hc with
    | plain x h1 h2 h3 h4 =>
      simp only [List.cons_append, List.nil_append, List.cons.injEq] at hl
      obtain ⟨rfl, rfl⟩ := hl
      rw [UInt8.lt_iff_toNat_lt] at h2; simp at h2; omega
    | utf8 p hm =>
      obtain ⟨b0, b1, rest, sz, lo, hi, rfl, hli, -⟩ := hm
      have := (leadInfo_facts _ _ _ _ hli).1
      simp only [List.cons_append, List.cons.injEq] at hl
      obtain ⟨rfl, -⟩ := hl
      omega
    | raw x _ _ =>
      simp only [List.cons_append, List.nil_append, List.cons.injEq] at hl
      obtain ⟨rfl, rfl⟩ := hl
      exact hr
    | esc x _ =>
      simp only [List.cons_append, List.cons.injEq] at hl
      obtain ⟨rfl, -⟩ := hl
      simp at hy
    | uni a b c d _ _ _ _ _ =>
      simp only [List.cons_append, List.cons.injEq] at hl
      obtain ⟨rfl, -⟩ := hl
      simp at hy
    | pair a b c d e f g h _ _ _ _ _ _ _ _ _ _ =>
      simp only [List.cons_append, List.cons.injEq] at hl
      obtain ⟨rfl, -⟩ := hl
      simp at hy

/-- skipping `m` continuation-range bytes stays inside the body and keeps it a sequence of chars (lax mode) -/
theorem cont_peel (m : Nat) (r' rest : Bytes) (hlen : ((r' ++ 0x22 :: rest).take m).length = m)
    (hall : ∀ b ∈ (r' ++ 0x22 :: rest).take m, 0x80 ≤ b.toNat ∧ b.toNat ≤ 0xBF) (hj : JChars false r') :
    m ≤ r'.length ∧ JChars false (r'.drop m) := by
  induction m generalizing r' with
  | zero => exact ⟨by omega, by simpa using hj⟩
  | succ m ih =>
    cases r' with
    | nil =>
      have := hall 0x22 (by simp)
      simp at this
    | cons y t =>
      have hy := hall y (by simp)
      have ht := jchars_tail_of_cont y t hy hj
      have := ih t (by simpa using hlen) (by intro b hb; exact hall b (by simp [hb])) ht
      exact ⟨by simp; omega, by simpa using this.2⟩

theorem parseHex_of_hex (a b c d : UInt8) (ha : HexDigit a) (hb : HexDigit b) (hc : HexDigit c) (hd : HexDigit d) :
    parseHexUint16 [a, b, c, d] = some (hex4Value a b c d) := by
  simp [parseHexUint16, hexVal_spec, ha, hb, hc, hd, hex4Value]

theorem step_high (v : Bool) (c : UInt8) (t : Bytes) (h : ¬ c.toNat < 0x80) :
    stringStep v (c :: t) =
      (if (Utf8.decodeRune (c :: t)).2 > 1 then .cont (Utf8.decodeRune (c :: t)).2 {}
       else if !Utf8.fullRune (c :: t) then .stop 0 {} .eof
       else if v then .stop 0 .nvnc .invalidUTF8 else .cont 1 .nvnc) := by
  rcases decodeRune_high c t h with h' | h'
  · rcases hd : Utf8.decodeRune (c :: t) with ⟨rune, rn⟩
    rw [hd] at h'
    simp only [stringStep, noEscape_high c h, ne_quote_high c h, hd]
    simp [h']
  · simp only [stringStep, noEscape_high c h, ne_quote_high c h, h']
    simp [Utf8.runeError]

theorem step_backslash (v : Bool) (t : Bytes) : stringStep v (0x5C :: t) = stringEscape v (0x5C :: t) := by
  have h1 : noEscape 0x5C = false := by decide
  have hd := decodeRune_ascii 0x5C t (by decide)
  simp only [stringStep, h1, hd]
  simp


theorem utf16_pair_ok (v1 v2 : Nat) (h1 : HighSurrogate v1) (h2 : LowSurrogate v2) :
    (Utf8.utf16DecodeRune v1 v2 == Utf8.runeError) = false := by
  obtain ⟨a, b⟩ := h1
  obtain ⟨c, d⟩ := h2
  have hh : Utf8.isHighSurrogate v1 = true := by simp [Utf8.isHighSurrogate, a, b]
  have hl : Utf8.isLowSurrogate v2 = true := by simp [Utf8.isLowSurrogate, c, d]
  simp only [Utf8.utf16DecodeRune, hh, hl, Bool.and_self, if_true, Utf8.runeError, beq_eq_false_iff_ne, ne_eq]
  omega

/-- `utf8.DecodeRune` never looks past an ASCII quote: its answer on `x :: r' ++ '"' :: rest` does not depend on `rest` -/
theorem decodeRune_quote_indep (x : UInt8) (r' rest : Bytes) :
    Utf8.decodeRune (x :: (r' ++ 0x22 :: rest)) = Utf8.decodeRune (x :: (r' ++ [0x22])) := by
  have hq : Utf8.isCont 34 = false := by decide
  by_cases hlt : x.toNat < Utf8.runeSelf
  · simp [Utf8.decodeRune, hlt]
  cases hli : Utf8.leadInfo x.toNat with
  | none => simp [Utf8.decodeRune, hlt, hli]
  | some t =>
    obtain ⟨sz, lo, hi⟩ := t
    obtain ⟨f1, f2, f3, f4⟩ := leadInfo_facts _ _ _ _ hli
    match r' with
    | [] =>
      have h34 : 34 < lo := by omega
      simp [Utf8.decodeRune, hlt, hli, h34]
    | [a] =>
      simp only [List.cons_append, List.nil_append, Utf8.decodeRune, hlt, hli, if_false]
      repeat' split
      all_goals first | rfl | simp_all
    | [a, b] =>
      simp only [List.cons_append, List.nil_append, Utf8.decodeRune, hlt, hli, if_false]
      repeat' split
      all_goals first | rfl | simp_all
    | a :: b :: c :: t =>
      simp only [List.cons_append, Utf8.decodeRune, hlt, hli, if_false]

/-- One step of the loop on `c ++ r' ++ '"' :: rest` where `c` is a char of the grammar: the scanner
continues, by some `k` bytes that stay inside the body and with flags that do not depend on `rest`,
and what remains of the body is again chars. -/
theorem peel (v : Bool) (c r' : Bytes) (hc : JChar v c) (hr : JChars v r') :
    ∃ k f, (∀ rest, stringStep v (c ++ r' ++ 0x22 :: rest) = .cont k f) ∧ 1 ≤ k ∧ k ≤ (c ++ r').length ∧
      JChars v ((c ++ r').drop k) := by
  cases hc with
  | plain x h1 h2 h3 h4 =>
    have hne : noEscape x = true := by simp [noEscape, h1, h2, h3, h4]
    exact ⟨1, {}, by intro rest; simp [stringStep, hne], by omega, by simp, by simpa using hr⟩
  | utf8 p hm =>
    obtain ⟨-, hlen, b0, p', rfl, hhigh⟩ := decodeRune_of_multi c [] hm
    refine ⟨(b0 :: p').length, {}, ?_, by omega, by simp, by simpa using hr⟩
    intro rest
    obtain ⟨hrn, -⟩ := decodeRune_of_multi (b0 :: p') (r' ++ 0x22 :: rest) hm
    have := step_high v b0 (p' ++ r' ++ 0x22 :: rest) hhigh
    simp only [List.cons_append, List.append_assoc] at this hrn ⊢
    rw [this, hrn]
    simp only [hlen, if_true]
  | raw x hv hx =>
    subst hv
    have hhigh : ¬ x.toNat < 0x80 := by rw [UInt8.le_iff_toNat_le] at hx; simp at hx; omega
    have hstep := fun rest => step_high false x (r' ++ 0x22 :: rest) hhigh
    have hind := decodeRune_quote_indep x r'
    simp only [List.cons_append, List.nil_append]
    by_cases hrn : (Utf8.decodeRune (x :: (r' ++ [0x22]))).2 > 1
    · obtain ⟨hmulti, hle⟩ := decodeRune_multi _ hrn
      generalize hk : (Utf8.decodeRune (x :: (r' ++ [0x22]))).2 = rn at *
      obtain ⟨b0, b1, tl, sz, lo, hi, htake, hli, hlen, hlo, hhi, hcont⟩ := hmulti
      obtain ⟨f1, f2, f3, f4⟩ := leadInfo_facts _ _ _ _ hli
      cases rn with
      | zero => omega
      | succ m =>
        simp only [List.take_succ_cons, List.cons.injEq] at htake
        obtain ⟨rfl, htake⟩ := htake
        have hlen' : ((r' ++ 0x22 :: []).take m).length = m := by
          simp at hle ⊢; omega
        have hall : ∀ b ∈ (r' ++ 0x22 :: []).take m, 0x80 ≤ b.toNat ∧ b.toNat ≤ 0xBF := by
          rw [htake]
          intro b hb
          simp only [List.mem_cons] at hb
          rcases hb with rfl | hb
          · omega
          · have := hcont b hb
            simp only [Utf8.isCont, Bool.and_eq_true, decide_eq_true_eq] at this
            exact this
        obtain ⟨g1, g2⟩ := cont_peel m r' [] hlen' hall hr
        refine ⟨m + 1, {}, ?_, by omega, by simp; omega, by simpa using g2⟩
        intro rest
        rw [hstep rest, hind rest, hk]; simp [hrn]
    · refine ⟨1, .nvnc, ?_, by omega, by simp, by simpa using hr⟩
      intro rest
      have hfull := fullRune_of_quote x (r' ++ 0x22 :: rest) (by simp)
      rw [hstep rest, hind rest]; simp [hrn, hfull]
  | esc x hx =>
    refine ⟨2, (if x == 0x2F then .nvnc else .nv), ?_, by omega, by simp, by simpa using hr⟩
    intro rest
    simp only [List.cons_append, List.nil_append]
    rw [step_backslash]
    unfold SimpleEscape at hx
    rcases hx with rfl | rfl | rfl | rfl | rfl | rfl | rfl | rfl <;> simp [stringEscape]
  | uni a b c d ha hb hc hd hs =>
    have hp := parseHex_of_hex a b c d ha hb hc hd
    have hsur : (v && Utf8.isSurrogate (hex4Value a b c d)) = false := by
      cases v with
      | false => rfl
      | true =>
        have := hs rfl
        simp only [Surrogate] at this
        simp only [Bool.true_and, Utf8.isSurrogate, Bool.and_eq_false_iff, decide_eq_false_iff_not]
        omega
    refine ⟨6, ValueFlags.nv.join (escapeCanonFlags (hex4Value a b c d) [a, b, c, d]), ?_, by omega, by simp,
      by simpa using hr⟩
    intro rest
    simp only [List.cons_append, List.nil_append]
    rw [step_backslash]
    simp [stringEscape, lenLt, hp, hsur]
  | pair a b c d e f g h ha hb hc hd he hf hg hh hhi hlo =>
    have hp := parseHex_of_hex a b c d ha hb hc hd
    have hp2 := parseHex_of_hex e f g h he hf hg hh
    have hsurT : Utf8.isSurrogate (hex4Value a b c d) = true := by
      obtain ⟨x1, x2⟩ := hhi
      simp only [Utf8.isSurrogate, Bool.and_eq_true, decide_eq_true_eq]; omega
    cases v with
    | false =>
      refine ⟨6, ValueFlags.nv.join (escapeCanonFlags (hex4Value a b c d) [a, b, c, d]), ?_, by omega, by simp, ?_⟩
      · intro rest
        simp only [List.cons_append, List.nil_append]
        rw [step_backslash]
        simp [stringEscape, lenLt, hp]
      · have : JChars false ([0x5C, 0x75, e, f, g, h] ++ r') :=
          JChars.cons _ _ (JChar.uni e f g h he hf hg hh (by intro hv; cases hv)) hr
        simpa using this
    | true =>
      refine ⟨12, ValueFlags.nv.join (escapeCanonFlags (hex4Value a b c d) [a, b, c, d]), ?_, by omega, by simp,
        by simpa using hr⟩
      intro rest
      simp only [List.cons_append, List.nil_append]
      rw [step_backslash]
      have hdec := utf16_pair_ok _ _ hhi hlo
      simp [stringEscape, lenLt, hp, hp2, hsurT, hdec]

theorem jchars_cases (v : Bool) (body : Bytes) (h : JChars v body) :
    body = [] ∨ ∃ c r', JChar v c ∧ JChars v r' ∧ body = c ++ r' ∧ c ≠ [] := by
  cases h with
  | nil => exact Or.inl rfl
  | cons c r hc hr =>
    refine Or.inr ⟨c, r, hc, hr, rfl, ?_⟩
    cases hc with
    | utf8 p hm => obtain ⟨b0, b1, rest, _, _, _, rfl, _⟩ := hm; simp
    | _ => simp

theorem loop_complete (v : Bool) (len : Nat) : ∀ (body : Bytes), body.length ≤ len → JChars v body →
    ∃ f, ∀ (rest : Bytes) (fuel : Nat), body.length + 1 ≤ fuel →
      stringLoop v fuel (body ++ 0x22 :: rest) = (body.length + 1, f, .ok) := by
  induction len with
  | zero =>
    intro body hl _
    have : body = [] := by cases body <;> simp_all
    subst this
    refine ⟨{}, ?_⟩
    intro rest fuel hf
    cases fuel with
    | zero => omega
    | succ fuel =>
      have : noEscape 0x22 = false := by decide
      simp [stringLoop, stringStep, this]
  | succ len ih =>
    intro body hl hj
    rcases jchars_cases v body hj with rfl | ⟨c, r', hc, hr, rfl, hne⟩
    · exact ih [] (by simp) JChars.nil
    · obtain ⟨k, f, hstep, hk1, hk2, hrest⟩ := peel v c r' hc hr
      have hcl : (c ++ r').length = c.length + r'.length := List.length_append
      obtain ⟨f', hl'⟩ := ih ((c ++ r').drop k) (by simp; omega) hrest
      refine ⟨f.join f', ?_⟩
      intro rest fuel hf
      cases fuel with
      | zero => omega
      | succ fuel =>
        have hdrop : (c ++ r' ++ 0x22 :: rest).drop k = (c ++ r').drop k ++ 0x22 :: rest :=
          List.drop_append_of_le_length hk2
        simp only [stringLoop, hstep rest, hdrop, hl' rest fuel (by simp; omega)]
        refine Prod.ext ?_ rfl
        simp only [List.length_drop]
        omega

/-- Completeness of `ConsumeString`: every string of the grammar at the start of the input is accepted,
with exactly its length. -/
theorem consumeString_complete (b : Bytes) (v : Bool) (n : Nat) (hn : n ≤ b.length) (h : JString v (b.take n)) :
    ∃ f, consumeString b v = (n, f, .ok) := by
  obtain ⟨body, hj, htake⟩ := h
  have hb : b = 0x22 :: (body ++ 0x22 :: b.drop n) := by
    conv => lhs; rw [← List.take_append_drop n b, htake]
    simp
  have hlen : n = body.length + 2 := by
    have := congrArg List.length htake
    simp only [List.length_take, List.length_cons, List.length_append, List.length_nil] at this
    omega
  obtain ⟨f, hl⟩ := loop_complete v body.length body (Nat.le_refl _) hj
  replace hl := hl (b.drop n) ((body ++ 0x22 :: b.drop n).length + 1) (by simp)
  refine ⟨f, ?_⟩
  rw [hb]
  simp only [consumeString, consumeStringResumable, Nat.lt_irrefl, if_false, gt_iff_lt, beq_self_eq_true, if_true, hl]
  refine Prod.ext ?_ rfl
  simp only [hlen] <;> omega

/-- the answer on a string of the grammar (offset AND flags) does not depend on what follows it -/
theorem consumeString_of_body (v : Bool) (body : Bytes) (hj : JChars v body) :
    ∃ f, ∀ rest, consumeString (0x22 :: (body ++ 0x22 :: rest)) v = (body.length + 2, f, .ok) := by
  obtain ⟨f, hl⟩ := loop_complete v body.length body (Nat.le_refl _) hj
  refine ⟨f, ?_⟩
  intro rest
  have := hl rest ((body ++ 0x22 :: rest).length + 1) (by simp)
  simp only [consumeString, consumeStringResumable, Nat.lt_irrefl, if_false, gt_iff_lt, beq_self_eq_true, if_true, this]
  refine Prod.ext ?_ rfl
  simp only; omega

theorem simpleRun_quote (body rest : Bytes) :
    simpleRun (body ++ 0x22 :: rest) = simpleRun (body ++ [0x22]) ∧ simpleRun (body ++ [0x22]) ≤ body.length := by
  have hs : simpleByte 0x22 = false := by decide
  induction body with
  | nil => simp [simpleRun, hs]
  | cons c body ih =>
    by_cases hc : simpleByte c = true
    · simp only [List.cons_append, simpleRun, hc, if_true, ih.1, List.length_cons]
      exact ⟨trivial, by omega⟩
    · simp [simpleRun, hc]

theorem head_drop_quote (body rest : Bytes) (k : Nat) (hk : k ≤ body.length) :
    ((body ++ 0x22 :: rest).drop k).head? = ((body ++ [0x22]).drop k).head? := by
  rw [List.drop_append_of_le_length hk, List.drop_append_of_le_length hk]
  cases body.drop k <;> simp

theorem css_head (r : Bytes) :
    consumeSimpleString (0x22 :: r) =
      (match (r.drop (simpleRun r)).head? with
       | some q => if q == 0x22 then simpleRun r + 2 else 0
       | none => 0) := by
  simp only [consumeSimpleString, beq_self_eq_true, if_true]
  cases r.drop (simpleRun r) <;> simp

/-- the fast path does not look past the closing quote either -/
theorem simple_indep (body rest : Bytes) :
    consumeSimpleString (0x22 :: (body ++ 0x22 :: rest)) = consumeSimpleString (0x22 :: (body ++ [0x22])) := by
  obtain ⟨h1, h2⟩ := simpleRun_quote body rest
  rw [css_head, css_head, h1, head_drop_quote body rest _ h2]

/-- strings are prefix-free: no string of the grammar is a proper prefix of another -/
theorem jstring_prefix_free (v : Bool) (p q : Bytes) (hp : JString v p) (hq : JString v q) (hpq : p <+: q) : p = q := by
  obtain ⟨t, rfl⟩ := hpq
  obtain ⟨f1, h1⟩ := consumeString_complete (p ++ t) v p.length (by simp) (by simpa using hp)
  obtain ⟨f2, h2⟩ := consumeString_complete (p ++ t) v (p ++ t).length (Nat.le_refl _) (by rw [List.take_length]; exact hq)
  rw [h1] at h2
  have : p.length = (p ++ t).length := by simpa using congrArg Prod.fst h2
  have : t = [] := by
    simp only [List.length_append] at this
    exact List.eq_nil_of_length_eq_zero (by omega)
  simp [this]

end JsonV.Lemmas.WireString
