/-
The dominance loop of `makeStructFields` computes the documented winners of the enumerated candidates:
on a list sorted by `candLe` without duplicates, `f ∈ dominant S ↔ WinnerIn S f`; and the kept names are
pairwise different.
-/
import JsonV.Lemmas.FieldsOrder
import JsonV.Spec.FieldRule

namespace JsonV.Lemmas.Fields
open JsonV JsonV.Model JsonV.Model.Fields JsonV.Spec.FieldRule

/-- Sorted by the comparator of the stable sort. -/
abbrev CandSorted (S : List RField) : Prop := S.Pairwise (fun a b => candLe a b = true)

theorem mem_takeWhile_imp' {α} (p : α → Bool) : ∀ (l : List α) (x : α), x ∈ l.takeWhile p → p x = true
  | [], _, h => by simp at h
  | a :: as, x, h => by
    rw [List.takeWhile_cons] at h
    by_cases hp : p a = true
    · simp only [hp, if_true, List.mem_cons] at h
      rcases h with rfl | h
      · exact hp
      · exact mem_takeWhile_imp' p as x h
    · simp [hp] at h

theorem takeWhile_sublist' {α} (p : α → Bool) (l : List α) : (l.takeWhile p).Sublist l := by
  exact (List.takeWhile_prefix p).sublist

/-- After skipping the group of `h`'s name in a sorted list no element carries that name any more. -/
theorem dropWhile_name_ne (h : RField) : ∀ (rest : List RField), CandSorted (h :: rest) →
    ∀ x ∈ rest.dropWhile (fun x => x.name == h.name), x.name ≠ h.name
  | [], _, x, hx => by simp at hx
  | r :: rs, hs, x, hx => by
    rw [List.dropWhile_cons] at hx
    by_cases hp : (r.name == h.name) = true
    · rw [if_pos hp] at hx
      have hs' : CandSorted (h :: rs) := hs.sublist (List.Sublist.cons_cons _ (List.sublist_cons_self _ _))
      exact dropWhile_name_ne h rs hs' x hx
    · rw [if_neg hp] at hx
      have hrn : r.name ≠ h.name := by simpa using hp
      obtain ⟨hh, hrest⟩ := List.pairwise_cons.mp hs
      have hhr := hh r (List.mem_cons_self ..)
      rw [candLe_iff] at hhr
      have b1 : bytesLe h.name r.name = true := by
        rcases hhr with ⟨_, b⟩ | ⟨e, _⟩ | ⟨e, _⟩
        · exact b
        · exact absurd e.symm hrn
        · exact absurd e.symm hrn
      rcases List.mem_cons.mp hx with rfl | hxr
      · exact hrn
      · intro hxn
        have hrx := (List.pairwise_cons.mp hrest).1 x hxr
        rw [candLe_iff] at hrx
        rcases hrx with ⟨_, b⟩ | ⟨e, _⟩ | ⟨e, _⟩
        · rw [hxn] at b; exact hrn (bytesLe_antisymm _ _ b b1)
        · exact hrn (e.trans hxn)
        · exact hrn (e.trans hxn)

theorem dominant_sublist (S : List RField) : (dominant S).Sublist S := by
  fun_induction dominant S with
  | case1 => exact List.Sublist.slnil
  | case2 f rest grp keep h ih =>
    exact List.Sublist.cons_cons _ (ih.trans (List.dropWhile_sublist _))
  | case3 f rest grp keep h ih =>
    exact List.Sublist.cons _ (ih.trans (List.dropWhile_sublist _))

/-- No two kept fields share a name. -/
theorem dominant_names_nodup (S : List RField) (hs : CandSorted S) :
    (dominant S).Pairwise (fun a b => a.name ≠ b.name) := by
  fun_induction dominant S with
  | case1 => exact List.Pairwise.nil
  | case2 f rest grp keep h ih =>
    have hs' : CandSorted (rest.dropWhile (fun x => x.name == f.name)) :=
      (List.pairwise_cons.mp hs).2.sublist (List.dropWhile_sublist _)
    refine List.pairwise_cons.mpr ⟨?_, ih hs'⟩
    intro x hx
    have hx' := (dominant_sublist _).subset hx
    exact fun e => dropWhile_name_ne f rest hs x hx' e.symm
  | case3 f rest grp keep h ih =>
    exact ih ((List.pairwise_cons.mp hs).2.sublist (List.dropWhile_sublist _))

/-- Sorted + same name: the earlier one is not deeper, and at equal depth it is explicitly named or the later is not. -/
theorem candLe_same_name {a b : RField} (h : candLe a b = true) (e : a.name = b.name) :
    a.depth < b.depth ∨ (a.depth = b.depth ∧ (a.hasName = true ∨ b.hasName = false)) := by
  rw [candLe_iff] at h
  rcases h with ⟨n, _⟩ | ⟨_, d⟩ | ⟨_, d, t⟩
  · exact absurd e n
  · exact Or.inl d
  · exact Or.inr ⟨d, t⟩

/-- The dominance loop = the documented rule on the list it is given. -/
theorem mem_dominant_iff (S : List RField) (hs : CandSorted S) (hnd : S.Nodup) (f : RField) :
    f ∈ dominant S ↔ WinnerIn S f := by
  fun_induction dominant S with
  | case1 => simp [WinnerIn]
  | case2 h rest grp keep hk ih =>
    have hsr := (List.pairwise_cons.mp hs)
    have hD : CandSorted (rest.dropWhile (fun x => x.name == h.name)) := hsr.2.sublist (List.dropWhile_sublist _)
    have hDnd : (rest.dropWhile (fun x => x.name == h.name)).Nodup := (List.nodup_cons.mp hnd).2.sublist (List.dropWhile_sublist _)
    have ih := ih hD hDnd
    have hsplit : rest.takeWhile (fun x => x.name == h.name) ++ rest.dropWhile (fun x => x.name == h.name) = rest :=
      List.takeWhile_append_dropWhile
    constructor
    · intro hf
      rcases List.mem_cons.mp hf with rfl | hf
      · -- the head is kept
        refine ⟨List.mem_cons_self .., ?_⟩
        intro x hx hxn hxf
        rcases List.mem_cons.mp hx with rfl | hxr
        · exact absurd rfl hxf
        · rw [← hsplit] at hxr
          rcases List.mem_append.mp hxr with hxT | hxD
          · -- x is in the group of the head
            cases hg : rest.takeWhile (fun x => x.name == f.name) with
            | nil => rw [hg] at hxT; simp at hxT
            | cons f1 tl =>
              have hk' : (f.depth != f1.depth || f.hasName != f1.hasName) = true := by
                simpa [keep, grp, hg] using hk
              have hf1T : f1 ∈ rest.takeWhile (fun x => x.name == f.name) := by rw [hg]; exact List.mem_cons_self ..
              have hf1n : f1.name = f.name := by simpa using mem_takeWhile_imp' _ _ _ hf1T
              have hf1r : f1 ∈ rest := (takeWhile_sublist' _ _).subset hf1T
              have c1 := candLe_same_name (hsr.1 f1 hf1r) hf1n.symm
              -- x = f1 or x comes after f1 in the group
              have hTs : CandSorted (f1 :: tl) := by rw [← hg]; exact hsr.2.sublist (takeWhile_sublist' _ _)
              rw [hg] at hxT
              have c2 : x = f1 ∨ (f1.depth < x.depth ∨ (f1.depth = x.depth ∧ (f1.hasName = true ∨ x.hasName = false))) := by
                rcases List.mem_cons.mp hxT with rfl | hxt
                · exact Or.inl rfl
                · exact Or.inr (candLe_same_name ((List.pairwise_cons.mp hTs).1 x hxt) (hf1n.trans hxn.symm))
              simp only [Bool.or_eq_true, bne_iff_ne, ne_eq] at hk'
              unfold Beats
              rcases c2 with rfl | c2
              · rcases c1 with c1 | ⟨d, t⟩
                · exact Or.inl c1
                · rcases hk' with hk' | hk'
                  · exact absurd d hk'
                  · refine Or.inr ⟨d, ?_⟩
                    cases hfh : f.hasName <;> cases hxh : x.hasName <;> simp_all
              · rcases c1 with c1 | ⟨d, t⟩
                · rcases c2 with c2 | ⟨d2, _⟩
                  · exact Or.inl (by omega)
                  · exact Or.inl (by omega)
                · rcases c2 with c2 | ⟨d2, t2⟩
                  · exact Or.inl (by omega)
                  · rcases hk' with hk' | hk'
                    · exact absurd d hk'
                    · refine Or.inr ⟨by omega, ?_⟩
                      cases hfh : f.hasName <;> cases hf1h : f1.hasName <;> cases hxh : x.hasName <;> simp_all
          · exact absurd hxn (dropWhile_name_ne f rest hs x hxD)
      · -- f comes from a later group
        obtain ⟨hfD, hw⟩ := ih.mp hf
        have hfr : f ∈ rest := (List.dropWhile_sublist _).subset hfD
        refine ⟨List.mem_cons_of_mem _ hfr, ?_⟩
        intro x hx hxn hxf
        have hfn : f.name ≠ h.name := dropWhile_name_ne h rest hs f hfD
        rcases List.mem_cons.mp hx with rfl | hxr
        · exact absurd hxn.symm hfn
        · rw [← hsplit] at hxr
          rcases List.mem_append.mp hxr with hxT | hxD
          · have : x.name = h.name := by simpa using mem_takeWhile_imp' _ _ _ hxT
            exact absurd (hxn.symm.trans this) hfn
          · exact hw x hxD hxn hxf
    · rintro ⟨hfS, hw⟩
      rcases List.mem_cons.mp hfS with rfl | hfr
      · exact List.mem_cons_self ..
      · have hfn : f.name ≠ h.name := by
          intro e
          have hne : h ≠ f := fun e' => (List.nodup_cons.mp hnd).1 (e' ▸ hfr)
          have b := hw h (List.mem_cons_self ..) e.symm hne
          have c := candLe_same_name (hsr.1 f hfr) e.symm
          unfold Beats at b
          rcases b with b | ⟨d, t1, t2⟩ <;> rcases c with c | ⟨d', t'⟩
          · omega
          · omega
          · omega
          · rcases t' with t' | t'
            · rw [t2] at t'; cases t'
            · rw [t1] at t'; cases t'
        refine List.mem_cons_of_mem _ (ih.mpr ⟨?_, fun x hx => hw x (List.mem_cons_of_mem _ ((List.dropWhile_sublist _).subset hx))⟩)
        rw [← hsplit] at hfr
        rcases List.mem_append.mp hfr with hT | hD
        · have : f.name = h.name := by simpa using mem_takeWhile_imp' _ _ _ hT
          exact absurd this hfn
        · exact hD
  | case3 h rest grp keep hk ih =>
    have hsr := (List.pairwise_cons.mp hs)
    have hD : CandSorted (rest.dropWhile (fun x => x.name == h.name)) := hsr.2.sublist (List.dropWhile_sublist _)
    have hDnd : (rest.dropWhile (fun x => x.name == h.name)).Nodup := (List.nodup_cons.mp hnd).2.sublist (List.dropWhile_sublist _)
    have ih := ih hD hDnd
    have hsplit : rest.takeWhile (fun x => x.name == h.name) ++ rest.dropWhile (fun x => x.name == h.name) = rest :=
      List.takeWhile_append_dropWhile
    -- the head is dropped: its group has a second element that ties with it
    cases hg : rest.takeWhile (fun x => x.name == h.name) with
    | nil => exact absurd (by simp [keep, grp, hg]) hk
    | cons f1 tl =>
      have hk' : ¬ ((h.depth != f1.depth || h.hasName != f1.hasName) = true) := by
        simpa [keep, grp, hg] using hk
      simp only [Bool.or_eq_true, bne_iff_ne, ne_eq, not_or, Decidable.not_not] at hk'
      have hf1T : f1 ∈ rest.takeWhile (fun x => x.name == h.name) := by rw [hg]; exact List.mem_cons_self ..
      have hf1n : f1.name = h.name := by simpa using mem_takeWhile_imp' _ _ _ hf1T
      have hf1r : f1 ∈ rest := (takeWhile_sublist' _ _).subset hf1T
      have hne : f1 ≠ h := fun e => (List.nodup_cons.mp hnd).1 (e ▸ hf1r)
      constructor
      · intro hf
        obtain ⟨hfD, hw⟩ := ih.mp hf
        have hfr : f ∈ rest := (List.dropWhile_sublist _).subset hfD
        refine ⟨List.mem_cons_of_mem _ hfr, ?_⟩
        intro x hx hxn hxf
        have hfn : f.name ≠ h.name := dropWhile_name_ne h rest hs f hfD
        rcases List.mem_cons.mp hx with rfl | hxr
        · exact absurd hxn.symm hfn
        · rw [← hsplit] at hxr
          rcases List.mem_append.mp hxr with hxT | hxD
          · have : x.name = h.name := by simpa using mem_takeWhile_imp' _ _ _ hxT
            exact absurd (hxn.symm.trans this) hfn
          · exact hw x hxD hxn hxf
      · rintro ⟨hfS, hw⟩
        rcases List.mem_cons.mp hfS with rfl | hfr
        · -- the head cannot be a winner: f1 ties with it
          exfalso
          have b := hw f1 (List.mem_cons_of_mem _ hf1r) hf1n hne
          unfold Beats at b
          rcases b with b | ⟨_, t1, t2⟩
          · omega
          · rw [hk'.2, t2] at t1; cases t1
        · have hfn : f.name ≠ h.name := by
            intro e
            have hne' : h ≠ f := fun e' => (List.nodup_cons.mp hnd).1 (e' ▸ hfr)
            have b := hw h (List.mem_cons_self ..) e.symm hne'
            have c := candLe_same_name (hsr.1 f hfr) e.symm
            unfold Beats at b
            rcases b with b | ⟨d, t1, t2⟩ <;> rcases c with c | ⟨d', t'⟩
            · omega
            · omega
            · omega
            · rcases t' with t' | t'
              · rw [t2] at t'; cases t'
              · rw [t1] at t'; cases t'
          refine ih.mpr ⟨?_, fun x hx => hw x (List.mem_cons_of_mem _ ((List.dropWhile_sublist _).subset hx))⟩
          rw [← hsplit] at hfr
          rcases List.mem_append.mp hfr with hT | hD
          · have : f.name = h.name := by simpa using mem_takeWhile_imp' _ _ _ hT
            exact absurd this hfn
          · exact hD

end JsonV.Lemmas.Fields
