/-
C11 lemmas: AppendUnquote on raw (unescaped) content that may be ill-formed: appending the closing quote does not
change how the content decodes, an ill-formed byte followed by the quote is a full rune, and the result is the
text with exactly one U+FFFD per ill-formed byte with ErrInvalidUTF8 iff there is one.  Core Lean only.
-/
import JsonV.Lemmas.QuoteWf
import JsonV.Lemmas.QuoteMeaning

namespace JsonV.Lemmas.QuoteRaw
open JsonV JsonV.Model.Utf8 JsonV.Model.Quote JsonV.Lemmas.QuoteUtf8 JsonV.Lemmas.QuoteL JsonV.Spec.StringSpec JsonV.Lemmas.QuoteWf

/-- Appending an ASCII byte (here: the closing quote) after a non-empty `p` does not change what `p` starts with. -/
theorem decodeRune_append_ascii (p q : Bytes) (x : UInt8) (hx : x.toNat < 0x80) (hp : p ≠ []) :
    decodeRune (p ++ x :: q) = decodeRune p := by
  have hnc : isCont x.toNat = false := by simp [isCont]; omega
  match p, hp with
  | [b0], _ =>
    simp only [List.cons_append, List.nil_append, decodeRune]
    split
    · rfl
    · split
      · rfl
      · rename_i sz lo hi hl
        have := leadInfo_lo hl
        have : x.toNat < lo ∨ hi < x.toNat := by omega
        simp [this]
  | [b0, b1], _ =>
    simp only [List.cons_append, List.nil_append, decodeRune]
    split
    · rfl
    · split
      · rfl
      · split
        · rfl
        · split
          · rfl
          · simp [hnc]
  | [b0, b1, b2], _ =>
    simp only [List.cons_append, List.nil_append, decodeRune]
    split
    · rfl
    · split
      · rfl
      · split
        · rfl
        · split
          · rfl
          · split
            · rfl
            · split
              · rfl
              · simp [hnc]
  | b0 :: b1 :: b2 :: b3 :: r, _ =>
    simp only [List.cons_append, decodeRune]

theorem fullRune_append_ascii (p q : Bytes) (x : UInt8) (hx : x.toNat < 0x80) (hp : p ≠ []) :
    fullRune (p ++ x :: q) = true := by
  have hnc : isCont x.toNat = false := by simp [isCont]; omega
  match p, hp with
  | [b0], _ =>
    simp only [List.cons_append, List.nil_append, fullRune]
    split
    · rfl
    · split
      · rfl
      · rename_i sz lo hi hl
        have := leadInfo_lo hl
        have : x.toNat < lo ∨ hi < x.toNat := by omega
        simp [this]
  | [b0, b1], _ =>
    simp only [List.cons_append, List.nil_append, fullRune]
    split
    · rfl
    · split
      · rfl
      · split
        · rfl
        · split
          · rfl
          · simp [hnc]
  | b0 :: b1 :: b2 :: r, _ =>
    simp only [List.cons_append, fullRune]
    split
    · rfl
    · split
      · rfl
      · rename_i sz lo hi hl
        have := (leadInfo_lo hl).2.2
        have : (b0 :: b1 :: b2 :: (r ++ x :: q)).length ≥ sz := by simp; omega
        simp only [List.length_cons, List.length_append] at this
        simp; left; omega

/-- Bytes that may appear raw between the quotes: not `"`, not `\`, not a control character. -/
def RawBody (body : Bytes) : Prop := ∀ b ∈ body, b ≠ 0x22 ∧ b ≠ 0x5c ∧ 0x20 ≤ b.toNat

theorem unqStep_illFormed (c : UInt8) (t : Bytes) (h0 : ¬ c.toNat < runeSelf) (hd : decodeRune (c :: t) = (runeError, 1)) :
    unqStep (c :: (t ++ [0x22])) = .cont utf8FFFD 1 (some .invalidUTF8) := by
  have hda : decodeRune (c :: (t ++ [0x22])) = (runeError, 1) := by
    rw [← List.cons_append, decodeRune_append_ascii (c :: t) [] 0x22 (by decide) (by simp), hd]
  have hfull : fullRune (c :: (t ++ [0x22])) = true := by
    rw [← List.cons_append]; exact fullRune_append_ascii (c :: t) [] 0x22 (by decide) (by simp)
  have hne : noEscape c.toNat = false := by simp [noEscape]; intro h; exact absurd h h0
  have hq : c ≠ 0x22 := by intro h; subst h; exact h0 (by decide)
  simp only [unqStep, hne, hq, hda, hfull]
  simp [runeError]

/-- AppendUnquote on raw (unescaped) content, well-formed or not: the text with exactly one U+FFFD per ill-formed
byte; ErrInvalidUTF8 iff there is at least one. -/
theorem unqLoop_raw (body : Bytes) (hb : RawBody body) (e : Err) :
    unqLoop (body ++ [0x22]) e = (lossy body, if 0 < illFormedCount body then Err.invalidUTF8 else e) := by
  fun_induction lossy body generalizing e with
  | case1 => simp [unqLoop_close, illFormedCount]
  | case2 c t ih =>
    have hc := hb c (by simp)
    have hrest : RawBody (List.drop (decodeRune (c :: t)).2 (c :: t)) := fun b hm => hb b (List.mem_of_mem_drop hm)
    rw [illFormedCount]
    by_cases h0 : c.toNat < runeSelf
    · have hd := decodeRune_ascii c t h0
      have hne : noEscape c.toNat = true := by
        have : c.toNat ≠ 0x22 := by intro h; exact hc.1 (by have := u8_eq_of_toNat (by omega) h; simpa using this)
        have : c.toNat ≠ 0x5c := by intro h; exact hc.2.1 (by have := u8_eq_of_toNat (by omega) h; simpa using this)
        simp only [noEscape, Bool.and_eq_true, decide_eq_true_eq, ne_eq]
        exact ⟨⟨⟨h0, hc.2.2⟩, by assumption⟩, by assumption⟩
      have hnr : ¬ c.toNat = runeError := by simp only [runeError, runeSelf] at *; omega
      rw [List.cons_append, unqLoop_cont e (unqStep_plain c _ hne)]
      rw [hd] at ih hrest
      simp only [List.drop_succ_cons, List.drop_zero] at ih hrest
      simp only [List.drop_succ_cons, List.drop_zero, Option.getD_none, ih hrest e, illFormedHead, hd, hnr,
        decide_false, Bool.false_and, Bool.false_eq_true, ↓reduceIte, List.take_succ_cons, List.take_zero, Nat.zero_add,
        List.cons_append, List.nil_append]
    · rcases decodeRune_high c t h0 with h1 | h1
      · have hsplit : c :: t ++ [0x22] = (c :: t).take (decodeRune (c :: t)).2 ++ ((c :: t).drop (decodeRune (c :: t)).2 ++ [0x22]) := by
          rw [← List.append_assoc, List.take_append_drop]
        have hni : illFormedHead (c :: t) = false := by
          have : ¬ (decodeRune (c :: t)).2 = 1 := by omega
          simp [illFormedHead, this]
        rw [hsplit, unqLoop_cont e (unqStep_multi c t _ h0 h1)]
        have hl := take_decodeRune_length (c :: t)
        have hdrop : ∀ X : Bytes, List.drop (decodeRune (c :: t)).2 ((c :: t).take (decodeRune (c :: t)).2 ++ X) = X := by
          intro X
          have := List.drop_left (l₁ := (c :: t).take (decodeRune (c :: t)).2) (l₂ := X)
          rwa [hl] at this
        simp only [hdrop, Option.getD_none, ih hrest e, hni, Bool.false_eq_true, ↓reduceIte, Nat.zero_add]
      · have hi : illFormedHead (c :: t) = true := by simp [illFormedHead, h1]
        rw [List.cons_append, unqLoop_cont e (unqStep_illFormed c t h0 h1)]
        rw [h1] at ih hrest
        simp only [List.drop_succ_cons, List.drop_zero] at ih hrest
        simp only [List.drop_succ_cons, List.drop_zero, Option.getD_some, ih hrest Err.invalidUTF8, hi, ↓reduceIte, h1]
        have : 0 < 1 + illFormedCount t := by omega
        simp [this, utf8FFFD, replacement]

/-! ### Literals mixing escape sequences and raw ill-formed bytes -/

open JsonV.Lemmas.QuoteMeaning in
/-- AppendUnquote's loop on content described by `UnescapesLossy`: the meaning with exactly one U+FFFD per ill-formed
byte; the pending error becomes ErrInvalidUTF8 iff there is at least one. -/
theorem unqLoop_lossy {body m : Bytes} {k : Nat} (h : UnescapesLossy body m k) (e : Err) :
    unqLoop (body ++ [0x22]) e = (m, if 0 < k then Err.invalidUTF8 else e) := by
  induction h generalizing e with
  | nil => simpa using unqLoop_close e
  | @unescaped p rest m r k hd hp hi h20 hq hb _ ih =>
    rw [List.append_assoc, unqLoop_cont e (unqStep_unescaped p r hd hp hi h20 hq hb _)]
    simp [ih]
  | @bad c rest m k hc hi _ ih =>
    have h0 : ¬ c.toNat < runeSelf := by simp only [runeSelf]; omega
    have hd : decodeRune (c :: rest) = (runeError, 1) := by
      simp only [illFormedHead, Bool.and_eq_true, decide_eq_true_eq] at hi
      exact Prod.ext hi.1 hi.2
    rw [List.cons_append, unqLoop_cont e (unqStep_illFormed c rest h0 hd)]
    simp [ih, utf8FFFD, replacement]
  | @simple e' v rest m k hmem _ ih =>
    rw [List.cons_append, List.cons_append, unqLoop_cont e (unqStep_simple e' v hmem _)]
    simp [ih]
  | @unicode a b c d v rest m k h4 hs _ ih =>
    simp only [List.cons_append]
    rw [unqLoop_cont e (unqStep_unicode a b c d v h4 hs _)]
    simp [ih]
  | @pair a b c d a' b' c' d' hi lo rest m k h1 h2 hh hl _ ih =>
    simp only [List.cons_append]
    rw [unqLoop_cont e (unqStep_pair a b c d a' b' c' d' hi lo h1 h2 hh hl _)]
    simp [ih]

/-- `Unescapes` is the ill-formed-byte-free part of `UnescapesLossy`. -/
theorem unescapesLossy_of_unescapes {body m : Bytes} (h : Unescapes body m) : UnescapesLossy body m 0 := by
  induction h with
  | nil => exact .nil
  | unescaped hd hp hi h20 hq hb _ ih => exact .unescaped hd hp hi h20 hq hb ih
  | simple hm _ ih => exact .simple hm ih
  | unicode h4 hs _ ih => exact .unicode h4 hs ih
  | pair h1 h2 hh hl _ ih => exact .pair h1 h2 hh hl ih

end JsonV.Lemmas.QuoteRaw
