/-
Round trip of `appendTimeUnix`/`parseTimeUnix` on (sec, nsec) pairs: every int64 second count, every
nanosecond count in [0, 10^9), bases 1, 10^3, 10^6, 10^9; the three regimes of the writer and the
overflow path of the parser are separate cases.  Core Lean only.
-/
import JsonV.Lemmas.TimeInt

namespace JsonV.Model.Time
open JsonV

/-- the tail of `parseTimeUnix` after the fields are known. -/
def finishUnix (neg : Bool) (sec nsec : Int) : Except Err (Int × Int) :=
  if neg ≠ decide ((if neg then negateSecNano sec nsec else (sec, nsec)).1 < 0) then .error .range
  else .ok (if neg then negateSecNano sec nsec else (sec, nsec))

theorem consumeSign_sign (neg : Bool) (n : Nat) (rest : Bytes) :
    consumeSign ((if neg then [cMinus] else []) ++ (natDigits n ++ rest)) false = (natDigits n ++ rest, neg) := by
  cases neg with
  | true => simp only [if_true]; exact consumeSign_minus _ _
  | false => simp only [Bool.false_eq_true, if_false, List.nil_append]; exact consumeSign_natDigits _ _ _

/-- digits of `us * 10^k + m` are the digits of `us` followed by the `k` padded digits of `m`. -/
theorem natDigits_append_pad (k us m : Nat) (hus : 0 < us) (hm : m < 10 ^ k) :
    natDigits (us * 10 ^ k + m) = natDigits us ++ padDigits k m := by
  induction k generalizing m with
  | zero =>
    have : m = 0 := by simpa using hm
    subst this; simp [padDigits]
  | succ k ih =>
    have hpos : 0 < 10 ^ k := Nat.pow_pos (by decide)
    have hge : 10 ≤ us * 10 ^ (k + 1) + m := by
      rw [Nat.pow_succ, ← Nat.mul_assoc]
      have : 1 ≤ us * 10 ^ k := Nat.mul_pos hus hpos
      omega
    rw [natDigits_ge hge, padDigits_snoc, ← List.append_assoc]
    have e : us * 10 ^ (k + 1) + m = m + (us * 10 ^ k) * 10 := by rw [Nat.pow_succ, Nat.mul_assoc]; omega
    rw [e, Nat.add_mul_div_right _ _ (by decide : 0 < 10), Nat.add_mul_mod_self_right, Nat.add_comm]
    rw [ih (m / 10) (by rw [Nat.pow_succ] at hm; omega)]

theorem fracText_scale (j k y : Nat) : fracText (j + k) (y * 10 ^ k) = fracText j y := by
  unfold fracText
  have hpos : 0 < 10 ^ k := Nat.pow_pos (by decide)
  by_cases h0 : y = 0
  · simp [h0]
  · have : y * 10 ^ k ≠ 0 := by
      intro e; rcases Nat.mul_eq_zero.mp e with h | h <;> omega
    rw [if_neg h0, if_neg this, padDigits_mul_pow, trimRight_append_zeros]

/-- regime 1 (`pow10 = 1`). -/
theorem parseTimeUnix_sec (neg : Bool) (us un : Nat) (hus : us < U64) (hun : un < 10 ^ 9) :
    parseTimeUnix ((if neg then [cMinus] else []) ++ (natDigits us ++ fracText 9 un)) 1
      = finishUnix neg (toI64 us) (toI64 un) := by
  have hcs := consumeSign_sign neg us (fracText 9 un)
  have hcut := bytesCutByte_digits (natDigits us) (fracText 9 un) (natDigits_allDigits _) (fracText_dot 9 un)
  have hpu := parseUint_natDigits hus
  have hpf : parseFracBase10 (fracText 9 un) (1000000000 / 1) = (un, true) := by
    have := parseFrac_fracText 9 un hun
    simpa using this
  unfold parseTimeUnix finishUnix
  simp only [hcs, hcut, hpu, hpf]
  simp

/-- regimes 2 and 3 when the whole field fits in a uint64 (`case okWhole`). -/
theorem parseTimeUnix_fits (k j : Nat) (hk : 0 < k) (hkj : 10 ^ k * 10 ^ j = 1000000000) (neg : Bool) (n y : Nat)
    (hn : n < U64) (hy : y < 10 ^ j) :
    parseTimeUnix ((if neg then [cMinus] else []) ++ (natDigits n ++ fracText j y)) (10 ^ k)
      = finishUnix neg (toI64 (n / 10 ^ k)) (toI64 ((n % 10 ^ k) * 10 ^ j + y)) := by
  have hcs := consumeSign_sign neg n (fracText j y)
  have hcut := bytesCutByte_digits (natDigits n) (fracText j y) (natDigits_allDigits _) (fracText_dot j y)
  have hpu := parseUint_natDigits hn
  have hq : 1000000000 / 10 ^ k = 10 ^ j := by
    rw [← hkj]; exact Nat.mul_div_cancel_left _ (Nat.pow_pos (by decide))
  have hpf : parseFracBase10 (fracText j y) (10 ^ j) = (y, true) := parseFrac_fracText j y hy
  have hne : ¬ (10 ^ k = 1) := by
    have : 10 ^ 1 ≤ 10 ^ k := Nat.pow_le_pow_right (by decide) hk
    omega
  unfold parseTimeUnix finishUnix
  simp only [hcs, hcut, hpu, hpf, if_neg hne, if_true, hq]
  simp

/-- regime 3 when the whole field overflows a uint64: the parser re-reads the upper and the lower part. -/
theorem parseTimeUnix_overflow (k j : Nat) (hlog : log10w (10 ^ k) = k) (hk : 0 < k) (hkj : 10 ^ k * 10 ^ j = 1000000000)
    (neg : Bool) (us m y : Nat) (hus : us < U64) (hpos : 0 < us) (hm : m < 10 ^ k) (hbig : U64 ≤ us * 10 ^ k + m) (hy : y < 10 ^ j) :
    parseTimeUnix ((if neg then [cMinus] else []) ++ (natDigits (us * 10 ^ k + m) ++ fracText j y)) (10 ^ k)
      = finishUnix neg (toI64 us) (toI64 (m * 10 ^ j + y)) := by
  have hcs := consumeSign_sign neg (us * 10 ^ k + m) (fracText j y)
  have hcut := bytesCutByte_digits (natDigits (us * 10 ^ k + m)) (fracText j y) (natDigits_allDigits _) (fracText_dot j y)
  have hpu := parseUint_natDigits_ge hbig
  have hq : 1000000000 / 10 ^ k = 10 ^ j := by
    rw [← hkj]; exact Nat.mul_div_cancel_left _ (Nat.pow_pos (by decide))
  have hpf : parseFracBase10 (fracText j y) (10 ^ j) = (y, true) := parseFrac_fracText j y hy
  have hne : ¬ (10 ^ k = 1) := by
    have : 10 ^ 1 ≤ 10 ^ k := Nat.pow_le_pow_right (by decide) hk
    omega
  have hsplit := natDigits_append_pad k us m hpos hm
  have hlen : (natDigits (us * 10 ^ k + m)).length - k = (natDigits us).length := by
    rw [hsplit, List.length_append, padDigits_length]; omega
  have htake : (natDigits (us * 10 ^ k + m)).take ((natDigits (us * 10 ^ k + m)).length - k) = natDigits us := by
    rw [hlen, hsplit]; exact List.take_left' rfl
  have hdrop : (natDigits (us * 10 ^ k + m)).drop ((natDigits (us * 10 ^ k + m)).length - k) = padDigits k m := by
    rw [hlen, hsplit]; exact List.drop_left' rfl
  have hpu2 := parseUint_natDigits hus
  have hmid : parsePaddedBase10 (padDigits k m) (10 ^ k) = (m, true) := by
    rw [parsePadded_digits k _ (padDigits_allDigits _ _) (by rw [padDigits_length]; exact Nat.le_refl _),
      decValue_padDigits, padDigits_length, Nat.sub_self, Nat.pow_zero, Nat.mul_one, Nat.mod_eq_of_lt hm]
  unfold parseTimeUnix finishUnix
  simp only [hcs, hcut, hpu, hpf, if_neg hne, hlog, htake, hdrop, hpu2, hmid, hq]
  simp

end JsonV.Model.Time
