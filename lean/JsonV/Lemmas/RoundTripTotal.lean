/-
Helper lemmas for the L3 round trip (C04L3), part 5: marshaling a well-typed value never fails, and
every tree it produces is free of repeated member names.
-/
import JsonV.Lemmas.RoundTripAll

namespace JsonV.Lemmas.RoundTrip
open JsonV JsonV.Spec JsonV.Model JsonV.Lemmas.Merge

theorem marList_total {f : Enc} (vs : List GoVal) (h : ∀ v ∈ vs, ∃ j, f v = .ok j) : ∃ js, marList f vs = .ok js := by
  induction vs with
  | nil => exact ⟨[], rfl⟩
  | cons v r ih =>
    obtain ⟨j, hj⟩ := h v List.mem_cons_self
    obtain ⟨js, hjs⟩ := ih (fun x hx => h x (List.mem_cons_of_mem _ hx))
    exact ⟨j :: js, by simp [marList, hj, hjs]⟩

theorem marList_spec {f : Enc} {vs : List GoVal} {js : List JTree} (h : marList f vs = .ok js) :
    ∀ j ∈ js, ∃ v ∈ vs, f v = .ok j := by
  induction vs generalizing js with
  | nil => simp only [marList, Except.ok.injEq] at h; subst h; intro j hj; cases hj
  | cons v r ih =>
    simp only [marList] at h
    cases hv : f v with
    | error e => simp [hv] at h
    | ok j0 =>
      simp only [hv] at h
      cases hr : marList f r with
      | error e => simp [hr] at h
      | ok jr =>
        simp only [hr, Except.ok.injEq] at h; subst h
        intro j hj
        cases List.mem_cons.1 hj with
        | inl e => subst e; exact ⟨v, List.mem_cons_self, hv⟩
        | inr e => obtain ⟨x, hx, hfx⟩ := ih hr j e; exact ⟨x, List.mem_cons_of_mem _ hx, hfx⟩

/-! ### Totality -/

theorem marAny_total_both (o : MOpts) : ∀ v : GoVal,
    (anyTyped v = true → ∃ j, marAny o v = .ok j) ∧ (dynTyped v = true → ∃ j, marDyn o v = .ok j) := by
  intro v
  induction v using GoVal.induct with
  | hnilIface => exact ⟨fun _ => ⟨.null, rfl⟩, by intro h; simp [dynTyped] at h⟩
  | hiface dv ih => exact ⟨fun h => by simpa [marAny] using ih.2 (by simpa [anyTyped] using h), by intro h; simp [dynTyped] at h⟩
  | hbool b => exact ⟨by intro h; simp [anyTyped] at h, fun _ => ⟨_, rfl⟩⟩
  | hfloat l => exact ⟨by intro h; simp [anyTyped] at h, fun _ => ⟨_, rfl⟩⟩
  | hstr s => exact ⟨by intro h; simp [anyTyped] at h, fun h => ⟨.str s, by simp only [dynTyped] at h; simp [marDyn, h]⟩⟩
  | hnilSlice => exact ⟨by intro h; simp [anyTyped] at h, fun _ => ⟨_, rfl⟩⟩
  | hnilMap => exact ⟨by intro h; simp [anyTyped] at h, fun _ => ⟨_, rfl⟩⟩
  | hslice vs ih =>
    refine ⟨by intro h; simp [anyTyped] at h, ?_⟩
    intro h
    simp only [dynTyped, anyTypedL_iff] at h
    obtain ⟨js, hjs⟩ := marList_total (f := marAny o) vs (fun v hv => (ih v hv).1 (h v hv))
    exact ⟨.arr js, by simp [marDyn, marAnyL_eq, hjs]⟩
  | hmap ms ih =>
    refine ⟨by intro h; simp [anyTyped] at h, ?_⟩
    intro h
    simp only [dynTyped, Bool.and_eq_true, anyTypedM_iff] at h
    obtain ⟨mem, hm⟩ := marMembers_total (menc := marAny o) ms
      (fun k v hv => ⟨(h.2 k v hv).1, (ih k v hv).1 (h.2 k v hv).2⟩)
    exact ⟨.obj (sortMembers mem), by simp [marDyn, marAnyM_eq, hm]⟩
  | hint i => exact ⟨by intro h; simp [anyTyped] at h, by intro h; simp [dynTyped] at h⟩
  | huint n => exact ⟨by intro h; simp [anyTyped] at h, by intro h; simp [dynTyped] at h⟩
  | harray vs _ => exact ⟨by intro h; simp [anyTyped] at h, by intro h; simp [dynTyped] at h⟩
  | hnilPtr => exact ⟨by intro h; simp [anyTyped] at h, by intro h; simp [dynTyped] at h⟩
  | hptr v _ => exact ⟨by intro h; simp [anyTyped] at h, by intro h; simp [dynTyped] at h⟩
  | hstruct fvs _ => exact ⟨by intro h; simp [anyTyped] at h, by intro h; simp [dynTyped] at h⟩

theorem marFields_total (o : MOpts) (fs : List (Bytes × GoType))
    (IH : ∀ n t, (n, t) ∈ fs → ∀ v, hasType t v = true → ∃ j, mar o t v = .ok j) :
    ∀ fvs, fieldsTyped fs fvs = true → ∃ mem, marFields o fs fvs = .ok mem := by
  induction fs with
  | nil =>
    intro fvs ht
    cases fvs with
    | nil => exact ⟨[], rfl⟩
    | cons p r => simp [fieldsTyped] at ht
  | cons ft fr ih =>
    obtain ⟨n, t⟩ := ft
    intro fvs ht
    cases fvs with
    | nil => simp [fieldsTyped] at ht
    | cons p r =>
      obtain ⟨n', v⟩ := p
      simp only [fieldsTyped, Bool.and_eq_true, decide_eq_true_eq] at ht
      obtain ⟨⟨hn, htv⟩, htr⟩ := ht
      subst hn
      obtain ⟨j, hj⟩ := IH n t List.mem_cons_self v htv
      obtain ⟨mr, hmr⟩ := ih (fun n' t' h => IH n' t' (List.mem_cons_of_mem _ h)) r htr
      exact ⟨(n, j) :: mr, by simp [marFields, hj, hmr]⟩

theorem mar_total_all (o : MOpts) : ∀ (T : GoType) (v : GoVal), hasType T v = true → ∃ j, mar o T v = .ok j := by
  intro T
  induction T using GoType.induct with
  | hbool => intro v ht; cases v <;> simp only [hasType] at ht <;> first | (cases ht; done) | exact ⟨_, rfl⟩
  | hint b => intro v ht; cases v <;> simp only [hasType] at ht <;> first | (cases ht; done) | exact ⟨_, rfl⟩
  | huint b => intro v ht; cases v <;> simp only [hasType] at ht <;> first | (cases ht; done) | exact ⟨_, rfl⟩
  | hfloat => intro v ht; cases v <;> simp only [hasType] at ht <;> first | (cases ht; done) | exact ⟨_, rfl⟩
  | hstring =>
    intro v ht; cases v <;> simp only [hasType] at ht <;> try (cases ht; done)
    case str s => exact ⟨.str s, by simp [mar, ht]⟩
  | hany => intro v ht; simp only [hasType] at ht; simpa [mar] using (marAny_total_both o v).1 ht
  | hslice t ih =>
    intro v ht; cases v <;> simp only [hasType] at ht <;> try (cases ht; done)
    case nilSlice => exact ⟨_, rfl⟩
    case sliceOf vs =>
      rw [allB_iff] at ht
      obtain ⟨js, hjs⟩ := marList_total (f := mar o t) vs (fun v hv => ih v (ht v hv))
      exact ⟨.arr js, by simp [mar, hjs]⟩
  | harray n t ih =>
    intro v ht; cases v <;> simp only [hasType] at ht <;> try (cases ht; done)
    case arrayOf vs =>
      simp only [Bool.and_eq_true, allB_iff] at ht
      obtain ⟨js, hjs⟩ := marList_total (f := mar o t) vs (fun v hv => ih v (ht.2 v hv))
      exact ⟨.arr js, by simp [mar, hjs]⟩
  | hmap t ih =>
    intro v ht; cases v <;> simp only [hasType] at ht <;> try (cases ht; done)
    case nilMap => exact ⟨_, rfl⟩
    case mapOf ms =>
      simp only [Bool.and_eq_true, allB_iff] at ht
      obtain ⟨mem, hm⟩ := marMembers_total (menc := mar o t) ms (fun k v hv => by
        have := ht.2 (k, v) hv
        simp only at this
        exact ⟨this.1, ih v this.2⟩)
      exact ⟨.obj (sortMembers mem), by simp [mar, hm]⟩
  | hptr t ih =>
    intro v ht; cases v <;> simp only [hasType] at ht <;> try (cases ht; done)
    case nilPtr => exact ⟨.null, rfl⟩
    case ptrTo w => simpa [mar] using ih w ht
  | hstruct fs ih =>
    intro v ht; cases v <;> simp only [hasType] at ht <;> try (cases ht; done)
    case structOf fvs =>
      obtain ⟨mem, hm⟩ := marFields_total o fs ih fvs ht
      exact ⟨.obj mem, by simp [mar, hm]⟩

/-! ### No repeated member names in the output -/

theorem dupFree_sorted_obj {mem : List (Bytes × JTree)} (hnd : (akeys mem).Nodup)
    (hd : ∀ k j, (k, j) ∈ mem → j.dupFree = true) : (JTree.obj (sortMembers mem)).dupFree = true := by
  rw [dupFree_obj]
  exact ⟨nodup_sortMembers hnd, fun k j hm => hd k j (mem_sortMembers.1 hm)⟩

theorem marAny_dupFree_both (o : MOpts) : ∀ v : GoVal,
    (∀ j, anyTyped v = true → marAny o v = .ok j → j.dupFree = true) ∧
    (∀ j, dynTyped v = true → marDyn o v = .ok j → j.dupFree = true) := by
  intro v
  induction v using GoVal.induct with
  | hnilIface => exact ⟨by intro j _ h; simp only [marAny, Except.ok.injEq] at h; subst h; rfl, by intro j h; simp [dynTyped] at h⟩
  | hiface dv ih => exact ⟨fun j h hm => ih.2 j (by simpa [anyTyped] using h) (by simpa [marAny] using hm), by intro j h; simp [dynTyped] at h⟩
  | hbool b => exact ⟨by intro j h; simp [anyTyped] at h, by intro j _ h; simp only [marDyn, Except.ok.injEq] at h; subst h; rfl⟩
  | hfloat l => exact ⟨by intro j h; simp [anyTyped] at h, by intro j _ h; simp only [marDyn, Except.ok.injEq] at h; subst h; rfl⟩
  | hstr s =>
    refine ⟨by intro j h; simp [anyTyped] at h, ?_⟩
    intro j _ h; simp only [marDyn] at h; split at h <;> cases h; rfl
  | hnilSlice =>
    refine ⟨by intro j h; simp [anyTyped] at h, ?_⟩
    intro j _ h; simp only [marDyn, Except.ok.injEq] at h; subst h; unfold nilSliceTree; split <;> rfl
  | hnilMap =>
    refine ⟨by intro j h; simp [anyTyped] at h, ?_⟩
    intro j _ h; simp only [marDyn, Except.ok.injEq] at h; subst h; unfold nilMapTree; split <;> rfl
  | hslice vs ih =>
    refine ⟨by intro j h; simp [anyTyped] at h, ?_⟩
    intro j ht h
    simp only [dynTyped, anyTypedL_iff] at ht
    simp only [marDyn, marAnyL_eq] at h
    cases hl : marList (marAny o) vs with
    | error e => simp [hl] at h
    | ok js =>
      simp only [hl, Except.ok.injEq] at h; subst h
      simp only [JTree.dupFree, dupFreeL_iff]
      intro x hx
      obtain ⟨v, hv, hm⟩ := marList_spec hl x hx
      exact (ih v hv).1 x (ht v hv) hm
  | hmap ms ih =>
    refine ⟨by intro j h; simp [anyTyped] at h, ?_⟩
    intro j ht h
    simp only [dynTyped, Bool.and_eq_true, nodupB_iff, anyTypedM_iff] at ht
    simp only [marDyn, marAnyM_eq] at h
    cases hl : marMembers (marAny o) ms with
    | error e => simp [hl] at h
    | ok mem =>
      simp only [hl, Except.ok.injEq] at h; subst h
      obtain ⟨hk, hmem, _⟩ := marMembers_spec hl
      apply dupFree_sorted_obj (hk ▸ ht.1)
      intro k j hm
      obtain ⟨v, hv, he⟩ := hmem k j hm
      exact (ih k v hv).1 j (ht.2 k v hv).2 he
  | hint i => exact ⟨by intro j h; simp [anyTyped] at h, by intro j h; simp [dynTyped] at h⟩
  | huint n => exact ⟨by intro j h; simp [anyTyped] at h, by intro j h; simp [dynTyped] at h⟩
  | harray vs _ => exact ⟨by intro j h; simp [anyTyped] at h, by intro j h; simp [dynTyped] at h⟩
  | hnilPtr => exact ⟨by intro j h; simp [anyTyped] at h, by intro j h; simp [dynTyped] at h⟩
  | hptr v _ => exact ⟨by intro j h; simp [anyTyped] at h, by intro j h; simp [dynTyped] at h⟩
  | hstruct fvs _ => exact ⟨by intro j h; simp [anyTyped] at h, by intro j h; simp [dynTyped] at h⟩

theorem marFields_spec (o : MOpts) (fs : List (Bytes × GoType)) :
    ∀ fvs mem, fieldsTyped fs fvs = true → marFields o fs fvs = .ok mem →
      akeys mem = akeys fs ∧ ∀ n j, (n, j) ∈ mem → ∃ t v, (n, t) ∈ fs ∧ hasType t v = true ∧ mar o t v = .ok j := by
  induction fs with
  | nil =>
    intro fvs mem ht hm
    cases fvs with
    | nil => simp only [marFields, Except.ok.injEq] at hm; subst hm; exact ⟨rfl, by intro n j h; cases h⟩
    | cons p r => simp [fieldsTyped] at ht
  | cons ft fr ih =>
    obtain ⟨n, t⟩ := ft
    intro fvs mem ht hm
    cases fvs with
    | nil => simp [fieldsTyped] at ht
    | cons p r =>
      obtain ⟨n', v⟩ := p
      simp only [fieldsTyped, Bool.and_eq_true, decide_eq_true_eq] at ht
      obtain ⟨⟨hn, htv⟩, htr⟩ := ht
      subst hn
      simp only [marFields, if_true] at hm
      cases hv : mar o t v with
      | error e => simp [hv] at hm
      | ok j =>
        simp only [hv] at hm
        cases hr : marFields o fr r with
        | error e => simp [hr] at hm
        | ok mr =>
          simp only [hr, Except.ok.injEq] at hm; subst hm
          obtain ⟨h1, h2⟩ := ih r mr htr hr
          refine ⟨by simp [akeys_cons, h1], ?_⟩
          intro n' j' hm'
          cases List.mem_cons.1 hm' with
          | inl e => cases e; exact ⟨t, v, List.mem_cons_self, htv, hv⟩
          | inr e => obtain ⟨t', v', a, b, c⟩ := h2 n' j' e; exact ⟨t', v', List.mem_cons_of_mem _ a, b, c⟩

theorem mar_dupFree_all (o : MOpts) : ∀ (T : GoType), T.wf = true → ∀ (v : GoVal) (j : JTree),
    hasType T v = true → mar o T v = .ok j → j.dupFree = true := by
  intro T
  induction T using GoType.induct with
  | hbool => intro _ v j ht h; cases v <;> simp only [mar] at h <;> cases h; rfl
  | hint b => intro _ v j ht h; cases v <;> simp only [mar] at h <;> cases h; rfl
  | huint b => intro _ v j ht h; cases v <;> simp only [mar] at h <;> cases h; rfl
  | hfloat => intro _ v j ht h; cases v <;> simp only [mar] at h <;> cases h; rfl
  | hstring =>
    intro _ v j ht h; cases v <;> simp only [mar] at h <;> try (cases h; done)
    split at h <;> cases h; rfl
  | hany => intro _ v j ht h; exact (marAny_dupFree_both o v).1 j (by simpa [hasType] using ht) (by simpa [mar] using h)
  | hslice t ih =>
    intro hwf v j ht h
    have hwt : t.wf = true := by simp only [GoType.wf, Bool.and_eq_true] at hwf; exact hwf.2
    cases v <;> simp only [hasType] at ht <;> try (cases ht; done)
    case nilSlice => simp only [mar, Except.ok.injEq] at h; subst h; unfold nilSliceTree; split <;> rfl
    case sliceOf vs =>
      rw [allB_iff] at ht
      simp only [mar] at h
      cases hl : marList (mar o t) vs with
      | error e => simp [hl] at h
      | ok js =>
        simp only [hl, Except.ok.injEq] at h; subst h
        simp only [JTree.dupFree, dupFreeL_iff]
        intro x hx
        obtain ⟨v, hv, hm⟩ := marList_spec hl x hx
        exact ih hwt v x (ht v hv) hm
  | harray n t ih =>
    intro hwf v j ht h
    have hwt : t.wf = true := by simp only [GoType.wf, Bool.and_eq_true] at hwf; exact hwf.2
    cases v <;> simp only [hasType] at ht <;> try (cases ht; done)
    case arrayOf vs =>
      simp only [Bool.and_eq_true, allB_iff] at ht
      simp only [mar] at h
      cases hl : marList (mar o t) vs with
      | error e => simp [hl] at h
      | ok js =>
        simp only [hl, Except.ok.injEq] at h; subst h
        simp only [JTree.dupFree, dupFreeL_iff]
        intro x hx
        obtain ⟨v, hv, hm⟩ := marList_spec hl x hx
        exact ih hwt v x (ht.2 v hv) hm
  | hmap t ih =>
    intro hwf v j ht h
    have hwt : t.wf = true := by simpa [GoType.wf] using hwf
    cases v <;> simp only [hasType] at ht <;> try (cases ht; done)
    case nilMap => simp only [mar, Except.ok.injEq] at h; subst h; unfold nilMapTree; split <;> rfl
    case mapOf ms =>
      simp only [Bool.and_eq_true, nodupB_iff, allB_iff] at ht
      simp only [mar] at h
      cases hl : marMembers (mar o t) ms with
      | error e => simp [hl] at h
      | ok mem =>
        simp only [hl, Except.ok.injEq] at h; subst h
        obtain ⟨hk, hmem, _⟩ := marMembers_spec hl
        apply dupFree_sorted_obj (hk ▸ ht.1)
        intro k j hm
        obtain ⟨v, hv, he⟩ := hmem k j hm
        have := ht.2 (k, v) hv
        simp only at this
        exact ih hwt v j this.2 he
  | hptr t ih =>
    intro hwf v j ht h
    have hwt : t.wf = true := by simpa [GoType.wf] using hwf
    cases v <;> simp only [hasType] at ht <;> try (cases ht; done)
    case nilPtr => simp only [mar, Except.ok.injEq] at h; subst h; rfl
    case ptrTo w => exact ih hwt w j ht (by simpa [mar] using h)
  | hstruct fs ih =>
    intro hwf v j ht h
    rw [wf_struct] at hwf
    cases v <;> simp only [hasType] at ht <;> try (cases ht; done)
    case structOf fvs =>
      simp only [mar] at h
      cases hl : marFields o fs fvs with
      | error e => simp [hl] at h
      | ok mem =>
        simp only [hl, Except.ok.injEq] at h; subst h
        obtain ⟨hk, hmem⟩ := marFields_spec o fs fvs mem ht hl
        rw [dupFree_obj]
        refine ⟨hk ▸ hwf.1, ?_⟩
        intro n j hm
        obtain ⟨t, v, hft, hty, he⟩ := hmem n j hm
        exact ih n t hft (hwf.2 n t hft) v j hty he

end JsonV.Lemmas.RoundTrip
