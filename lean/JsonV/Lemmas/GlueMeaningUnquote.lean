/-
The RFC 8259 meaning of a string literal (`Spec.Meaning.unescape`) is what the model of
jsonwire.AppendUnquote (`Model.Wire.unquote`, in correspondence with the Go code, slice C01/quote) computes.
-/
import JsonV.Lemmas.GlueMeaningStr

set_option linter.unusedSimpArgs false

namespace JsonV.Lemmas.GlueMeaningUnquote
open JsonV JsonV.Spec.Meaning JsonV.Spec.Grammar JsonV.Model JsonV.Model.Wire
open JsonV.Lemmas.GlueMeaningLex JsonV.Lemmas.GlueMeaningStr JsonV.Lemmas.WireString

theorem hex4Value_lt (a b c d : UInt8) (ha : HexDigit a) (hb : HexDigit b) (hc : HexDigit c) (hd : HexDigit d) :
    hex4Value a b c d < 65536 := by
  have bound : ∀ x : UInt8, HexDigit x → hexValue x < 16 := by
    apply WireNumber.forall_u8; decide +kernel
  have := bound a ha; have := bound b hb; have := bound c hc; have := bound d hd
  unfold hex4Value
  generalize hexValue a = x1 at *
  generalize hexValue b = x2 at *
  generalize hexValue c = x3 at *
  generalize hexValue d = x4 at *
  omega

theorem encode_eq (v : Nat) (hs : ¬ Surrogate v) (hv : v ≤ 0x10FFFF) : Utf8.encodeRune v = utf8Encode v := by
  unfold Surrogate at hs
  have h1 : ¬ (v > Utf8.maxRune ∨ (0xD800 ≤ v ∧ v ≤ 0xDFFF)) := by
    simp only [Utf8.maxRune]; omega
  unfold Utf8.encodeRune utf8Encode
  simp only [h1, if_false]

theorem isSurrogate_false (v : Nat) (h : ¬ Surrogate v) : Utf8.isSurrogate v = false := by
  unfold Surrogate at h
  simp only [Utf8.isSurrogate, Bool.and_eq_false_iff, decide_eq_false_iff_not]; omega

theorem isSurrogate_high (v : Nat) (h : HighSurrogate v) : Utf8.isSurrogate v = true := by
  unfold HighSurrogate at h
  simp only [Utf8.isSurrogate, Bool.and_eq_true, decide_eq_true_eq]; omega

theorem decode_pair (v1 v2 : Nat) (hh : HighSurrogate v1) (hl : LowSurrogate v2) :
    Utf8.utf16DecodeRune v1 v2 = 0x10000 + (v1 - 0xD800) * 1024 + (v2 - 0xDC00) ∧
    ¬ Surrogate (0x10000 + (v1 - 0xD800) * 1024 + (v2 - 0xDC00)) ∧
    0x10000 + (v1 - 0xD800) * 1024 + (v2 - 0xDC00) ≤ 0x10FFFF := by
  unfold HighSurrogate at hh; unfold LowSurrogate at hl
  have g1 : Utf8.isHighSurrogate v1 = true := by simp [Utf8.isHighSurrogate, hh.1, hh.2]
  have g2 : Utf8.isLowSurrogate v2 = true := by simp [Utf8.isLowSurrogate, hl.1, hl.2]
  refine ⟨?_, ?_, ?_⟩
  · simp only [Utf8.utf16DecodeRune, g1, g2, Bool.and_self, if_true]; omega
  · unfold Surrogate; omega
  · omega

theorem le_of_lt_65536 (v : Nat) (h : v < 65536) : v ≤ 0x10FFFF := by omega

theorem unquoteEscape_of_kind (u e r' : Bytes) (hk : EscKind u e) :
    unquoteEscape (0x5C :: (e ++ r')) = .cont (1 + e.length) u none := by
  cases hk with
  | simple c out he hu hc =>
    subst he; subst hu
    rcases hc with ⟨rfl, rfl⟩ | ⟨rfl, rfl⟩ | ⟨rfl, rfl⟩ | ⟨rfl, rfl⟩ | ⟨rfl, rfl⟩ | ⟨rfl, rfl⟩ | ⟨rfl, rfl⟩ | ⟨rfl, rfl⟩ <;>
      simp [unquoteEscape]
  | uni a1 a2 a3 a4 he d1 d2 d3 d4 hns hu =>
    subst he; subst hu
    have hlt := hex4Value_lt a1 a2 a3 a4 d1 d2 d3 d4
    have hp := parseHex_of_hex a1 a2 a3 a4 d1 d2 d3 d4
    generalize hex4Value a1 a2 a3 a4 = v at *
    have hsur := isSurrogate_false v hns
    simp only [List.cons_append, List.nil_append, unquoteEscape, lenLt, List.take, hp,
      hsur, List.drop, List.length_cons, List.length_nil]
    simp [encode_eq _ hns (le_of_lt_65536 v hlt)]
  | pair a1 a2 a3 a4 c1 c2 c3 c4 he d1 d2 d3 d4 e1 e2 e3 e4 hh hl hu =>
    subst he
    rw [hu]
    clear hu
    have hp1 := parseHex_of_hex a1 a2 a3 a4 d1 d2 d3 d4
    have hp2 := parseHex_of_hex c1 c2 c3 c4 e1 e2 e3 e4
    generalize hex4Value a1 a2 a3 a4 = v1 at *
    generalize hex4Value c1 c2 c3 c4 = v2 at *
    have hok := utf16_pair_ok _ _ hh hl
    have hsur := isSurrogate_high v1 hh
    obtain ⟨hdec, hns, hle⟩ := decode_pair v1 v2 hh hl
    simp only [List.cons_append, List.nil_append, unquoteEscape, lenLt, List.take, hp1, hp2, hsur, List.drop,
      List.length_cons, List.length_nil, hok]
    simp [hdec, encode_eq _ hns hle]

theorem noEscape_of_plain (c : UInt8) (h1 : 0x20 ≤ c) (h2 : c < 0x80) (h3 : c ≠ 0x22) (h4 : c ≠ 0x5C) : noEscape c = true := by
  simp [noEscape, h1, h2, h3, h4]

/-- AppendUnquote's loop on a string body the spec accepts (closing quote last): the spec's decoded bytes,
the error variable untouched. -/
theorem unquoteLoop_of_strBody (n : Nat) : ∀ (b s : Bytes), strBody n b = some (s, []) →
    ∀ (f : Nat) (err : Wire.Err), b.length ≤ f → unquoteLoop f b err = (s, err) := by
  induction n with
  | zero => intro b s h; simp [strBody] at h
  | succ n ih =>
    intro b s h f err hf
    cases b with
    | nil => simp [strBody] at h
    | cons c r =>
      cases f with
      | zero => simp at hf
      | succ f' =>
        simp only [List.length_cons, Nat.add_le_add_iff_right] at hf
        simp only [strBody] at h
        by_cases h22 : c = 0x22
        · subst h22
          simp only [if_true, Option.some.injEq, Prod.mk.injEq] at h
          obtain ⟨rfl, rfl⟩ := h
          simp [unquoteLoop, unquoteStep, noEscape]
        · simp only [h22, if_false] at h
          by_cases h5c : c = 0x5C
          · subst h5c
            simp only [if_true] at h
            cases he : escape r with
            | none => simp [he] at h
            | some p =>
              obtain ⟨u, r'⟩ := p
              simp only [he] at h
              cases hs : strBody n r' with
              | none => simp [hs] at h
              | some q =>
                obtain ⟨s', r''⟩ := q
                simp only [hs, Option.some.injEq, Prod.mk.injEq] at h
                obtain ⟨rfl, rfl⟩ := h
                obtain ⟨e, hr, hk⟩ := escape_kind he
                have hstep : unquoteStep (0x5C :: r) = .cont (1 + e.length) u none := by
                  have hd : Utf8.decodeRune (0x5C :: r) = ((0x5C : UInt8).toNat, 1) := decodeRune_ascii _ _ (by decide)
                  simp only [unquoteStep, show noEscape 0x5C = false by decide, Bool.false_eq_true, if_false,
                    show ((0x5C : UInt8) == 0x22) = false by decide, hd]
                  simp only [show ¬ (1 > 1) by omega, if_false, show (((0x5C : UInt8).toNat == 0x5C) = true) by decide, if_true]
                  rw [hr]; exact unquoteEscape_of_kind u e r' hk
                have hlen : r'.length ≤ f' := by
                  have := congrArg List.length hr; simp at this; omega
                have hdrop : (0x5C :: r).drop (1 + e.length) = r' := by
                  rw [hr, Nat.add_comm, List.drop_succ_cons, List.drop_left]
                simp only [unquoteLoop, hstep, hdrop, Option.getD_none]
                rw [ih r' s' hs f' err hlen]
          · simp only [h5c, if_false] at h
            by_cases hlt : c < 0x20
            · simp [hlt] at h
            · simp only [hlt, if_false] at h
              cases hu : utf8Char (c :: r) with
              | none => simp [hu] at h
              | some p =>
                obtain ⟨u, r'⟩ := p
                simp only [hu] at h
                cases hs : strBody n r' with
                | none => simp [hs] at h
                | some q =>
                  obtain ⟨s', r''⟩ := q
                  simp only [hs, Option.some.injEq, Prod.mk.injEq] at h
                  obtain ⟨rfl, rfl⟩ := h
                  have h20 : 0x20 ≤ c := by
                    rw [UInt8.le_iff_toNat_le]; rw [UInt8.lt_iff_toNat_lt] at hlt; omega
                  obtain ⟨hsplit, hk⟩ := utf8Char_kind hu (by
                    intro c' r0 hc'; simp only [List.cons.injEq] at hc'; rw [← hc'.1]; exact ⟨h20, h22, h5c⟩)
                  have hlen : r'.length ≤ f' := by
                    have := congrArg List.length hsplit
                    have hu1 : 0 < u.length := by
                      rcases hk with ⟨c0, rfl, _⟩ | hm
                      · simp
                      · have := (decodeRune_of_multi u [] hm).2.1; omega
                    simp at this; omega
                  have hstep : unquoteStep (c :: r) = .cont u.length u none := by
                    rcases hk with ⟨c0, rfl, g1, g2, g3, g4⟩ | hm
                    · have hc0 : c = c0 := by simp at hsplit; exact hsplit.1
                      subst hc0
                      simp [unquoteStep, noEscape_of_plain c g1 g2 g3 g4]
                    · obtain ⟨hd2, hgt, b0, p', hup, hb0⟩ := decodeRune_of_multi u r' hm
                      rw [hsplit]
                      subst hup
                      simp only [List.cons_append, unquoteStep, noEscape_high b0 hb0, Bool.false_eq_true, if_false,
                        ne_quote_high b0 hb0]
                      have hd2' : (Utf8.decodeRune (b0 :: (p' ++ r'))).2 = (b0 :: p').length := hd2
                      rw [if_pos (show (Utf8.decodeRune (b0 :: (p' ++ r'))).2 > 1 by rw [hd2']; exact hgt)]
                      rw [hd2']
                      have : List.take (b0 :: p').length (b0 :: (p' ++ r')) = b0 :: p' := by
                        rw [← List.cons_append, List.take_left]
                      rw [this]
                  have hdrop : (c :: r).drop u.length = r' := by rw [hsplit, List.drop_left]
                  simp only [unquoteLoop, hstep, hdrop, Option.getD_none]
                  rw [ih r' s' hs f' err hlen]

/-- The RFC 8259 meaning of a string literal is what AppendUnquote (its model) returns, with a nil error. -/
theorem unescape_eq_unquote (q s : Bytes) (h : unescape q = some s) : Wire.unquote q = (s, .ok) := by
  unfold unescape at h
  split at h
  · next r =>
    split at h
    · next s' hl =>
      simp only [Option.some.injEq] at h; subst h
      unfold lexStr at hl
      simp only [Wire.unquote, beq_self_eq_true, if_true]
      exact unquoteLoop_of_strBody _ r s' hl _ _ (by omega)
    · simp at h
  · simp at h

end JsonV.Lemmas.GlueMeaningUnquote
