/-
Structural lemmas about the token trees of Model/Canon.lean: how `respell` and `sortTree` act on the token
sequence of a tree.
-/
import JsonV.Model.Canon

namespace JsonV.Lemmas.CanonTree
open JsonV JsonV.Fmt JsonV.Canon JsonV.Model

/-! ### `respell` maps the tokens one by one -/

mutual
theorem toks_respell (fp : FloatCodec) : ∀ t : JV, (respell fp t).toks = t.toks.map (canonAtom fp)
  | .atom t => by simp [respell, JV.toks]
  | .arr es => by simp [respell, JV.toks, toksL_respell fp es, canonAtom]
  | .obj ms => by simp [respell, JV.toks, toksM_respell fp ms, canonAtom]
theorem toksL_respell (fp : FloatCodec) : ∀ es : List JV, toksL (respellL fp es) = (toksL es).map (canonAtom fp)
  | [] => by simp [respellL, toksL]
  | e :: es => by simp [respellL, toksL, toks_respell fp e, toksL_respell fp es]
theorem toksM_respell (fp : FloatCodec) :
    ∀ ms : List (Bytes × JV), toksM (respellM fp ms) = (toksM ms).map (canonAtom fp)
  | [] => by simp [respellM, toksM]
  | (n, v) :: ms => by simp [respellM, toksM, toks_respell fp v, toksM_respell fp ms, canonAtom]
end

/-! ### `toksM` as a flatMap, and permutations of members -/

theorem toksM_flatMap (ms : List (Bytes × JV)) : toksM ms = ms.flatMap (fun p => Tok.str p.1 :: p.2.toks) := by
  induction ms with
  | nil => simp [toksM]
  | cons p ms ih => obtain ⟨n, v⟩ := p; simp [toksM, ih]

theorem toksM_perm {ms ms' : List (Bytes × JV)} (h : ms.Perm ms') : (toksM ms).Perm (toksM ms') := by
  rw [toksM_flatMap, toksM_flatMap]
  exact h.flatMap_right _

theorem sortObj_perm (ms : List (Bytes × JV)) : (sortObj ms).Perm ms := by
  unfold sortObj
  split
  · exact List.Perm.refl _
  · exact List.mergeSort_perm _ _

/-! ### `sortTree` permutes the tokens -/

mutual
theorem toks_sortTree : ∀ t : JV, (sortTree t).toks.Perm t.toks
  | .atom t => by simp [sortTree]
  | .arr es => by
    simp only [sortTree, JV.toks]
    exact List.Perm.cons _ ((toksL_sortL es).append_right _)
  | .obj ms => by
    simp only [sortTree, JV.toks]
    exact List.Perm.cons _ (((toksM_perm (sortObj_perm _)).trans (toksM_sortM ms)).append_right _)
theorem toksL_sortL : ∀ es : List JV, (toksL (sortL es)).Perm (toksL es)
  | [] => by simp [sortL]
  | e :: es => by
    simp only [sortL, toksL]
    exact (toks_sortTree e).append (toksL_sortL es)
theorem toksM_sortM : ∀ ms : List (Bytes × JV), (toksM (sortM ms)).Perm (toksM ms)
  | [] => by simp [sortM]
  | (n, v) :: ms => by
    simp only [sortM, toksM]
    exact List.Perm.cons _ ((toks_sortTree v).append (toksM_sortM ms))
end

/-- Every token of the canonical tree is the re-spelling of a token of the input tree (and vice versa). -/
theorem toks_canonTree (fp : FloatCodec) (t : JV) : (canonTree fp t).toks.Perm (t.toks.map (canonAtom fp)) := by
  unfold canonTree
  rw [← toks_respell]
  exact toks_sortTree _

/-! ### strictness, token by token -/

mutual
theorem strict_toks : ∀ t : JV, strict t = true → ∀ r, Tok.str r ∈ t.toks → strOK r = true
  | .atom (.str r'), h, r, hm => by
    simp only [JV.toks, List.mem_singleton, Tok.str.injEq] at hm
    subst hm; simpa [strict] using h
  | .atom .bo, _, r, hm => by simp [JV.toks] at hm
  | .atom .eo, _, r, hm => by simp [JV.toks] at hm
  | .atom .ba, _, r, hm => by simp [JV.toks] at hm
  | .atom .ea, _, r, hm => by simp [JV.toks] at hm
  | .atom (.num _), _, r, hm => by simp [JV.toks] at hm
  | .atom .null, _, r, hm => by simp [JV.toks] at hm
  | .atom .tru, _, r, hm => by simp [JV.toks] at hm
  | .atom .fls, _, r, hm => by simp [JV.toks] at hm
  | .arr es, h, r, hm => by
    simp only [strict] at h
    simp [JV.toks] at hm
    exact strictL_toks es h r hm
  | .obj ms, h, r, hm => by
    simp only [strict, Bool.and_eq_true] at h
    simp [JV.toks] at hm
    exact strictM_toks ms h.1 r hm
theorem strictL_toks : ∀ es : List JV, strictL es = true → ∀ r, Tok.str r ∈ toksL es → strOK r = true
  | [], _, r, hm => by simp [toksL] at hm
  | e :: es, h, r, hm => by
    simp only [strictL, Bool.and_eq_true] at h
    simp only [toksL, List.mem_append] at hm
    rcases hm with hm | hm
    · exact strict_toks e h.1 r hm
    · exact strictL_toks es h.2 r hm
theorem strictM_toks : ∀ ms : List (Bytes × JV), strictM ms = true → ∀ r, Tok.str r ∈ toksM ms → strOK r = true
  | [], _, r, hm => by simp [toksM] at hm
  | (n, v) :: ms, h, r, hm => by
    simp only [strictM, Bool.and_eq_true] at h
    simp only [toksM, List.mem_cons, List.mem_append, Tok.str.injEq] at hm
    rcases hm with hm | hm | hm
    · subst hm; exact h.1.1
    · exact strict_toks v h.1.2 r hm
    · exact strictM_toks ms h.2 r hm
end

end JsonV.Lemmas.CanonTree
