/-
Glue between the C03 meaning spec and the C01 grammar / unquote model: strings.
-/
import JsonV.Lemmas.GlueMeaningLex
import JsonV.Lemmas.WireString

set_option linter.unusedSimpArgs false

namespace JsonV.Lemmas.GlueMeaningStr
open JsonV JsonV.Spec.Meaning JsonV.Spec.Grammar JsonV.Model
open JsonV.Lemmas.GlueMeaningLex JsonV.Lemmas.WireNumber

/-- the lead-byte classification of `Spec.Meaning.utf8Char` is table 3-7 as encoded by `Utf8.leadInfo` -/
theorem lead2 : ∀ b0 : UInt8, ¬ b0 < 0xC2 → b0 < 0xE0 → Utf8.leadInfo b0.toNat = some (2, 0x80, 0xBF) := by
  apply forall_u8; decide +kernel
theorem lead3 : ∀ b0 : UInt8, ¬ b0 < 0xE0 → b0 < 0xF0 → Utf8.leadInfo b0.toNat =
    some (3, (if b0 = 0xE0 then 0xA0 else 0x80), (if b0 = 0xED then 0x9F else 0xBF)) := by
  apply forall_u8; decide +kernel
theorem lead4 : ∀ b0 : UInt8, ¬ b0 < 0xF0 → b0 < 0xF5 → Utf8.leadInfo b0.toNat =
    some (4, (if b0 = 0xF0 then 0x90 else 0x80), (if b0 = 0xF4 then 0x8F else 0xBF)) := by
  apply forall_u8; decide +kernel

theorem ite_le_toNat (p : Prop) [Decidable p] (a b x : UInt8) (h : (if p then a else b) ≤ x) :
    (if p then a.toNat else b.toNat) ≤ x.toNat := by
  split <;> rename_i hp <;> simp only [hp, if_true, if_false] at h <;> exact UInt8.le_iff_toNat_le.mp h
theorem le_ite_toNat (p : Prop) [Decidable p] (a b x : UInt8) (h : x ≤ (if p then a else b)) :
    x.toNat ≤ (if p then a.toNat else b.toNat) := by
  split <;> rename_i hp <;> simp only [hp, if_true, if_false] at h <;> exact UInt8.le_iff_toNat_le.mp h

theorem isCont_toNat (c : UInt8) (h : Spec.Meaning.isCont c = true) : Utf8.isCont c.toNat = true := by
  simp only [Spec.Meaning.isCont, Bool.and_eq_true, decide_eq_true_eq] at h
  simp only [Utf8.isCont, Bool.and_eq_true, decide_eq_true_eq]
  have h1 := UInt8.le_iff_toNat_le.mp h.1
  have h2 := UInt8.le_iff_toNat_le.mp h.2
  simp at h1 h2; omega

/-- One unescaped character of the spec is one `char` of the grammar (strict UTF-8). -/
theorem utf8Char_kind {b u r : Bytes} (h : utf8Char b = some (u, r)) (hctl : ∀ c r', b = c :: r' → 0x20 ≤ c ∧ c ≠ 0x22 ∧ c ≠ 0x5C) :
    b = u ++ r ∧ ((∃ c, u = [c] ∧ 0x20 ≤ c ∧ c < 0x80 ∧ c ≠ 0x22 ∧ c ≠ 0x5C) ∨ Utf8Multi u) := by
  cases b with
  | nil => simp [utf8Char] at h
  | cons b0 r0 =>
    obtain ⟨h20, h22, h5c⟩ := hctl b0 r0 rfl
    simp only [utf8Char] at h
    by_cases h80 : b0 < 0x80
    · simp only [h80, if_true, Option.some.injEq, Prod.mk.injEq] at h
      obtain ⟨rfl, rfl⟩ := h
      exact ⟨rfl, Or.inl ⟨b0, rfl, h20, h80, h22, h5c⟩⟩
    · simp only [h80, if_false] at h
      by_cases hc2 : b0 < 0xC2
      · simp [hc2] at h
      · simp only [hc2, if_false] at h
        by_cases he0 : b0 < 0xE0
        · simp only [he0, if_true] at h
          cases r0 with
          | nil => simp at h
          | cons b1 r1 =>
            simp only at h
            split at h
            · next hcont =>
              simp only [Option.some.injEq, Prod.mk.injEq] at h
              obtain ⟨rfl, rfl⟩ := h
              refine ⟨rfl, Or.inr ⟨b0, b1, [], 2, 0x80, 0xBF, rfl, lead2 b0 hc2 he0, rfl, ?_, ?_, by simp⟩⟩
              · have := isCont_toNat b1 hcont; simp [Utf8.isCont] at this; omega
              · have := isCont_toNat b1 hcont; simp [Utf8.isCont] at this; omega
            · simp at h
        · simp only [he0, if_false] at h
          by_cases hf0 : b0 < 0xF0
          · simp only [hf0, if_true] at h
            match r0, h with
            | [], h => first | cases h | simp at h
            | [_], h => first | cases h | simp at h
            | b1 :: b2 :: r2, h =>
              simp only at h
              by_cases hcond : (decide ((if b0 = 0xE0 then (0xA0 : UInt8) else 0x80) ≤ b1) &&
                  decide (b1 ≤ if b0 = 0xED then (0x9F : UInt8) else 0xBF) && Spec.Meaning.isCont b2) = true
              · simp only [hcond, if_true, Option.some.injEq, Prod.mk.injEq] at h
                obtain ⟨rfl, rfl⟩ := h
                simp only [Bool.and_eq_true, decide_eq_true_eq] at hcond
                obtain ⟨⟨hlo, hhi⟩, hc2'⟩ := hcond
                refine ⟨rfl, Or.inr ⟨b0, b1, [b2], 3, _, _, rfl, lead3 b0 he0 hf0, rfl,
                  ite_le_toNat _ _ _ _ hlo, le_ite_toNat _ _ _ _ hhi, ?_⟩⟩
                intro c hc; simp at hc; subst hc; exact isCont_toNat _ hc2'
              · simp [hcond] at h
          · simp only [hf0, if_false] at h
            by_cases hf5 : b0 < 0xF5
            · simp only [hf5, if_true] at h
              match r0, h with
              | [], h => first | cases h | simp at h
              | [_], h => first | cases h | simp at h
              | [_, _], h => first | cases h | simp at h
              | b1 :: b2 :: b3 :: r3, h =>
                simp only at h
                by_cases hcond : (decide ((if b0 = 0xF0 then (0x90 : UInt8) else 0x80) ≤ b1) &&
                    decide (b1 ≤ if b0 = 0xF4 then (0x8F : UInt8) else 0xBF) && Spec.Meaning.isCont b2 &&
                    Spec.Meaning.isCont b3) = true
                · simp only [hcond, if_true, Option.some.injEq, Prod.mk.injEq] at h
                  obtain ⟨rfl, rfl⟩ := h
                  simp only [Bool.and_eq_true, decide_eq_true_eq] at hcond
                  obtain ⟨⟨⟨hlo, hhi⟩, hc2'⟩, hc3'⟩ := hcond
                  refine ⟨rfl, Or.inr ⟨b0, b1, [b2, b3], 4, _, _, rfl, lead4 b0 hf0 hf5, rfl,
                    ite_le_toNat _ _ _ _ hlo, le_ite_toNat _ _ _ _ hhi, ?_⟩⟩
                  intro c hc; simp at hc
                  rcases hc with rfl | rfl
                  · exact isCont_toNat _ hc2'
                  · exact isCont_toNat _ hc3'
                · simp [hcond] at h
            · simp [hf5] at h

theorem utf8Char_spec {b u r : Bytes} (h : utf8Char b = some (u, r)) (hctl : ∀ c r', b = c :: r' → 0x20 ≤ c ∧ c ≠ 0x22 ∧ c ≠ 0x5C) :
    b = u ++ r ∧ JChar true u := by
  obtain ⟨hb, hk⟩ := utf8Char_kind h hctl
  refine ⟨hb, ?_⟩
  rcases hk with ⟨c, rfl, h1, h2, h3, h4⟩ | hm
  · exact .plain c h1 h2 h3 h4
  · exact .utf8 _ hm

/-! ### escapes -/

theorem hexVal_eq (c : UInt8) : Spec.Meaning.hexVal c = Wire.hexVal c := by
  unfold Spec.Meaning.hexVal Wire.hexVal
  by_cases h1 : (decide (0x30 ≤ c) && decide (c ≤ 0x39)) = true
  · simp only [h1, if_true]
  · simp only [h1, if_false, Bool.false_eq_true]
    by_cases h2 : (decide (0x61 ≤ c) && decide (c ≤ 0x66)) = true
    · simp only [h2, if_true, Option.some.injEq]
      simp only [Bool.and_eq_true, decide_eq_true_eq] at h2
      have := UInt8.le_iff_toNat_le.mp h2.1
      simp at this; omega
    · simp only [h2, if_false, Bool.false_eq_true]
      by_cases h3 : (decide (0x41 ≤ c) && decide (c ≤ 0x46)) = true
      · simp only [h3, if_true, Option.some.injEq]
        simp only [Bool.and_eq_true, decide_eq_true_eq] at h3
        have := UInt8.le_iff_toNat_le.mp h3.1
        simp at this; omega
      · simp only [h3, if_false, Bool.false_eq_true]

theorem hex_arith (x1 x2 x3 x4 : Nat) :
    x1 * 4096 + x2 * 256 + x3 * 16 + x4 = ((x1 * 16 + x2) * 16 + x3) * 16 + x4 := by omega

theorem hex4_spec {b : Bytes} {v : Nat} {r : Bytes} (h : hex4 b = some (v, r)) :
    ∃ a1 a2 a3 a4, b = a1 :: a2 :: a3 :: a4 :: r ∧ HexDigit a1 ∧ HexDigit a2 ∧ HexDigit a3 ∧ HexDigit a4 ∧
      v = hex4Value a1 a2 a3 a4 := by
  unfold hex4 at h
  split at h
  · next a1 a2 a3 a4 r' =>
    cases h1 : Spec.Meaning.hexVal a1 <;> cases h2 : Spec.Meaning.hexVal a2 <;> cases h3 : Spec.Meaning.hexVal a3 <;>
      cases h4 : Spec.Meaning.hexVal a4 <;> simp [h1, h2, h3, h4] at h
    obtain ⟨hv, rfl⟩ := h
    rw [hexVal_eq] at h1 h2 h3 h4
    have g1 := WireString.hexVal_some _ _ h1
    have g2 := WireString.hexVal_some _ _ h2
    have g3 := WireString.hexVal_some _ _ h3
    have g4 := WireString.hexVal_some _ _ h4
    refine ⟨a1, a2, a3, a4, rfl, g1.1, g2.1, g3.1, g4.1, ?_⟩
    rw [← hv, g1.2, g2.2, g3.2, g4.2]
    unfold hex4Value
    exact hex_arith _ _ _ _
  · simp at h

/-- The kinds of escape the spec accepts, with what they denote. -/
inductive EscKind (u : Bytes) (e : Bytes) : Prop
  | simple (c : UInt8) (out : UInt8) : e = [c] → u = [out] →
      (c = 0x22 ∧ out = 0x22 ∨ c = 0x5C ∧ out = 0x5C ∨ c = 0x2F ∧ out = 0x2F ∨ c = 0x62 ∧ out = 0x08 ∨ c = 0x66 ∧ out = 0x0C ∨
        c = 0x6E ∧ out = 0x0A ∨ c = 0x72 ∧ out = 0x0D ∨ c = 0x74 ∧ out = 0x09) → EscKind u e
  | uni (a1 a2 a3 a4 : UInt8) : e = [0x75, a1, a2, a3, a4] → HexDigit a1 → HexDigit a2 → HexDigit a3 → HexDigit a4 →
      ¬ Surrogate (hex4Value a1 a2 a3 a4) → u = utf8Encode (hex4Value a1 a2 a3 a4) → EscKind u e
  | pair (a1 a2 a3 a4 c1 c2 c3 c4 : UInt8) : e = [0x75, a1, a2, a3, a4, 0x5C, 0x75, c1, c2, c3, c4] →
      HexDigit a1 → HexDigit a2 → HexDigit a3 → HexDigit a4 → HexDigit c1 → HexDigit c2 → HexDigit c3 → HexDigit c4 →
      HighSurrogate (hex4Value a1 a2 a3 a4) → LowSurrogate (hex4Value c1 c2 c3 c4) →
      u = utf8Encode (0x10000 + (hex4Value a1 a2 a3 a4 - 0xD800) * 1024 + (hex4Value c1 c2 c3 c4 - 0xDC00)) → EscKind u e

theorem escape_kind {r u r' : Bytes} (h : escape r = some (u, r')) : ∃ e, r = e ++ r' ∧ EscKind u e := by
  cases r with
  | nil => simp [escape] at h
  | cons c rr =>
    simp only [escape] at h
    by_cases h1 : c = 0x22
    · simp only [h1, if_true, Option.some.injEq, Prod.mk.injEq] at h; obtain ⟨rfl, rfl⟩ := h
      exact ⟨[c], rfl, .simple c 0x22 rfl rfl (by simp [h1])⟩
    simp only [h1, if_false] at h
    by_cases h2 : c = 0x5C
    · simp only [h2, if_true, Option.some.injEq, Prod.mk.injEq] at h; obtain ⟨rfl, rfl⟩ := h
      exact ⟨[c], rfl, .simple c 0x5C rfl rfl (by simp [h2])⟩
    simp only [h2, if_false] at h
    by_cases h3 : c = 0x2F
    · simp only [h3, if_true, Option.some.injEq, Prod.mk.injEq] at h; obtain ⟨rfl, rfl⟩ := h
      exact ⟨[c], rfl, .simple c 0x2F rfl rfl (by simp [h3])⟩
    simp only [h3, if_false] at h
    by_cases h4 : c = 0x62
    · simp only [h4, if_true, Option.some.injEq, Prod.mk.injEq] at h; obtain ⟨rfl, rfl⟩ := h
      exact ⟨[c], rfl, .simple c 0x08 rfl rfl (by simp [h4])⟩
    simp only [h4, if_false] at h
    by_cases h5 : c = 0x66
    · simp only [h5, if_true, Option.some.injEq, Prod.mk.injEq] at h; obtain ⟨rfl, rfl⟩ := h
      exact ⟨[c], rfl, .simple c 0x0C rfl rfl (by simp [h5])⟩
    simp only [h5, if_false] at h
    by_cases h6 : c = 0x6E
    · simp only [h6, if_true, Option.some.injEq, Prod.mk.injEq] at h; obtain ⟨rfl, rfl⟩ := h
      exact ⟨[c], rfl, .simple c 0x0A rfl rfl (by simp [h6])⟩
    simp only [h6, if_false] at h
    by_cases h7 : c = 0x72
    · simp only [h7, if_true, Option.some.injEq, Prod.mk.injEq] at h; obtain ⟨rfl, rfl⟩ := h
      exact ⟨[c], rfl, .simple c 0x0D rfl rfl (by simp [h7])⟩
    simp only [h7, if_false] at h
    by_cases h8 : c = 0x74
    · simp only [h8, if_true, Option.some.injEq, Prod.mk.injEq] at h; obtain ⟨rfl, rfl⟩ := h
      exact ⟨[c], rfl, .simple c 0x09 rfl rfl (by simp [h8])⟩
    simp only [h8, if_false] at h
    by_cases h9 : c = 0x75
    · subst h9
      simp only [if_true] at h
      cases hh : hex4 rr with
      | none => simp [hh] at h
      | some p =>
        obtain ⟨v, r1⟩ := p
        obtain ⟨a1, a2, a3, a4, hrr, d1, d2, d3, d4, hv⟩ := hex4_spec hh
        simp only [hh] at h
        by_cases hhi : (decide (0xD800 ≤ v) && decide (v < 0xDC00)) = true
        · simp only [hhi, if_true] at h
          have hhi' : HighSurrogate v := by simpa [HighSurrogate] using hhi
          match r1, h with
          | [], h => first | cases h | simp at h
          | [_], h => first | cases h | simp at h
          | x :: y :: r2, h =>
            by_cases hx : x = 0x5C
            · by_cases hy : y = 0x75
              · subst hx; subst hy
                simp only at h
                cases hh2 : hex4 r2 with
                | none => simp [hh2] at h
                | some p2 =>
                  obtain ⟨w, r3⟩ := p2
                  obtain ⟨c1, c2, c3, c4, hr2, e1, e2, e3, e4, hw⟩ := hex4_spec hh2
                  simp only [hh2] at h
                  by_cases hlo : (decide (0xDC00 ≤ w) && decide (w < 0xE000)) = true
                  · simp only [hlo, if_true, Option.some.injEq, Prod.mk.injEq] at h
                    obtain ⟨rfl, rfl⟩ := h
                    have hlo' : LowSurrogate w := by simpa [LowSurrogate] using hlo
                    refine ⟨[0x75, a1, a2, a3, a4, 0x5C, 0x75, c1, c2, c3, c4], ?_,
                      .pair a1 a2 a3 a4 c1 c2 c3 c4 rfl d1 d2 d3 d4 e1 e2 e3 e4 (hv ▸ hhi') (hw ▸ hlo') (by rw [hv, hw])⟩
                    rw [hrr, hr2]; rfl
                  · simp [hlo] at h
              · simp [hy] at h
            · simp [hx] at h
        · simp only [hhi, if_false, Bool.false_eq_true] at h
          by_cases hlo : (decide (0xDC00 ≤ v) && decide (v < 0xE000)) = true
          · simp [hlo] at h
          · simp only [hlo, if_false, Bool.false_eq_true, Option.some.injEq, Prod.mk.injEq] at h
            obtain ⟨rfl, rfl⟩ := h
            have hns : ¬ Surrogate v := by
              simp only [Bool.and_eq_true, decide_eq_true_eq, not_and, Nat.not_lt] at hhi hlo
              unfold Surrogate; omega
            exact ⟨[0x75, a1, a2, a3, a4], by rw [hrr]; rfl,
              .uni a1 a2 a3 a4 rfl d1 d2 d3 d4 (hv ▸ hns) (by rw [hv])⟩
    · simp [h9] at h

theorem escape_jchar {r u r' : Bytes} (h : escape r = some (u, r')) : ∃ e, r = e ++ r' ∧ JChar true (0x5C :: e) := by
  obtain ⟨e, he, hk⟩ := escape_kind h
  refine ⟨e, he, ?_⟩
  cases hk with
  | simple c out he' _ hc =>
    subst he'
    refine .esc c ?_
    unfold SimpleEscape
    rcases hc with h | h | h | h | h | h | h | h <;> simp [h.1]
  | uni a1 a2 a3 a4 he' d1 d2 d3 d4 hns _ => subst he'; exact .uni a1 a2 a3 a4 d1 d2 d3 d4 (fun _ => hns)
  | pair a1 a2 a3 a4 c1 c2 c3 c4 he' d1 d2 d3 d4 e1 e2 e3 e4 hh hl _ =>
    subst he'; exact .pair a1 a2 a3 a4 c1 c2 c3 c4 d1 d2 d3 d4 e1 e2 e3 e4 hh hl

/-- `strBody` cuts the input after `*char "` of the grammar (strict). -/
theorem strBody_spec (fuel : Nat) (b s rest : Bytes) (h : strBody fuel b = some (s, rest)) :
    ∃ body, JChars true body ∧ b = body ++ 0x22 :: rest := by
  induction fuel generalizing b s with
  | zero => simp [strBody] at h
  | succ n ih =>
    cases b with
    | nil => simp [strBody] at h
    | cons c r =>
      simp only [strBody] at h
      by_cases h22 : c = 0x22
      · simp only [h22, if_true, Option.some.injEq, Prod.mk.injEq] at h
        obtain ⟨rfl, rfl⟩ := h
        exact ⟨[], .nil, by simp [h22]⟩
      · simp only [h22, if_false] at h
        by_cases h5c : c = 0x5C
        · simp only [h5c, if_true] at h
          cases he : escape r with
          | none => simp [he] at h
          | some p =>
            obtain ⟨u, r'⟩ := p
            simp only [he] at h
            cases hs : strBody n r' with
            | none => simp [hs] at h
            | some q =>
              obtain ⟨s', r''⟩ := q
              simp only [hs, Option.some.injEq, Prod.mk.injEq] at h
              obtain ⟨_, rfl⟩ := h
              obtain ⟨e, hr, hj⟩ := escape_jchar he
              obtain ⟨body, hb, hr'⟩ := ih r' s' hs
              refine ⟨(0x5C :: e) ++ body, .cons _ _ hj hb, ?_⟩
              rw [h5c, hr, hr']; simp
        · simp only [h5c, if_false] at h
          by_cases hlt : c < 0x20
          · simp [hlt] at h
          · simp only [hlt, if_false] at h
            cases hu : utf8Char (c :: r) with
            | none => simp [hu] at h
            | some p =>
              obtain ⟨u, r'⟩ := p
              simp only [hu] at h
              cases hs : strBody n r' with
              | none => simp [hs] at h
              | some q =>
                obtain ⟨s', r''⟩ := q
                simp only [hs, Option.some.injEq, Prod.mk.injEq] at h
                obtain ⟨_, rfl⟩ := h
                have h20 : 0x20 ≤ c := by
                  rw [UInt8.le_iff_toNat_le]; rw [UInt8.lt_iff_toNat_lt] at hlt; omega
                obtain ⟨hsplit, hj⟩ := utf8Char_spec hu (by
                  intro c' r0 hc'; simp only [List.cons.injEq] at hc'; rw [← hc'.1]; exact ⟨h20, h22, h5c⟩)
                obtain ⟨body, hb, hr'⟩ := ih r' s' hs
                refine ⟨u ++ body, .cons _ _ hj hb, ?_⟩
                rw [hsplit, hr']; simp

/-- `lexStr` (after the opening quote) accepts ⇒ the quoted literal is a string of the grammar, strict UTF-8. -/
theorem lexStr_spec {r s rest : Bytes} (h : lexStr r = some (s, rest)) :
    ∃ lit, JString true lit ∧ 0x22 :: r = lit ++ rest := by
  obtain ⟨body, hb, hr⟩ := strBody_spec _ r s rest h
  exact ⟨0x22 :: (body ++ [0x22]), ⟨body, hb, rfl⟩, by rw [hr]; simp⟩

end JsonV.Lemmas.GlueMeaningStr
