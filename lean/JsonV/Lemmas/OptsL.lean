/-
Helper lemmas for C19, struct level: `jsonopts.Struct.Join` is right-biased map override.
-/
import JsonV.Model.Opts
import JsonV.Spec.OptMap
import JsonV.Lemmas.FlagsL

namespace JsonV.Lemmas.OptsL
open JsonV.Model JsonV.Spec JsonV.Lemmas.FlagsL

theorem flagBit_getLsbD (k i : Nat) (hk : k < 64) : (flagBit k).getLsbD i = decide (i = k) := by
  unfold flagBit
  rw [BitVec.getLsbD_shiftLeft]
  by_cases h : i = k
  · subst h; simp [hk]
  · by_cases hlt : i < k
    · simp [hlt, h]
    · have : i - k ≠ 0 := by omega
      simp [h, this]

theorem has_eq_false_bit (fs : Flags) (M : BitVec 64) (i : Nat) (h : fs.has M = false)
    (hM : M.getLsbD i = true) : fs.presence.getLsbD i = false := by
  unfold Flags.has at h
  have h0 : fs.presence &&& M = 0#64 := by simpa [bne] using h
  have := congrArg (fun x => x.getLsbD i) h0
  simpa [hM] using this

/-- The slot flags as single bits. -/
theorem slot_flag (k : Slot) : k.flag = flagBit k.idx := by cases k <;> decide

theorem slot_idx_lt (k : Slot) : k.idx < 64 := by cases k <;> decide
theorem slot_idx_ne_zero (k : Slot) : k.idx ≠ 0 := by cases k <;> decide

theorem has_slot (fs : Flags) (k : Slot) : fs.has k.flag = fs.presence.getLsbD k.idx := by
  rw [slot_flag]; exact has_bit fs k.idx (slot_idx_lt k)

theorem nonBoolean_bit (k : Slot) : F.nonBoolean.getLsbD k.idx = true := by cases k <;> decide

/-- presence bit after `set`. -/
theorem set_presence_bit (fs : Flags) (f : BitVec 64) (i : Nat) :
    (fs.set f).presence.getLsbD i = (fs.presence.getLsbD i || (f.getLsbD i && decide (i ≠ 0))) := by
  simp only [Flags.set, BitVec.getLsbD_or, id_bit]

theorem join_presence_bit (a b : Flags) (i : Nat) :
    (a.join b).presence.getLsbD i = (a.presence.getLsbD i || b.presence.getLsbD i) := by
  simp only [Flags.join, BitVec.getLsbD_or]

/-- Concrete `Bools` words used by `Struct.Join`. -/
theorem w_fts (b : Bool) : F.formatTagSupported ||| (if b then one else 0#64) = flagBit 29 ||| (if b then 1#64 else 0#64) := by
  cases b <;> decide
theorem w_indent : F.multiline ||| F.indent ||| one = flagBit 11 ||| flagBit 14 ||| 1#64 := by decide
theorem w_indentPrefix : F.multiline ||| F.indentPrefix ||| one = flagBit 11 ||| flagBit 15 ||| 1#64 := by decide
theorem w_byteLimit : F.byteLimit ||| one = flagBit 16 ||| 1#64 := by decide
theorem w_depthLimit : F.depthLimit ||| one = flagBit 17 ||| 1#64 := by decide
theorem w_marshalers : F.marshalers ||| one = flagBit 25 ||| 1#64 := by decide
theorem w_unmarshalers : F.unmarshalers ||| one = flagBit 26 ||| 1#64 := by decide

theorem one_bit (i : Nat) : (1#64).getLsbD i = decide (i = 0) := by
  by_cases h : i = 0
  · subst h; decide
  · simp [h]



theorem set_lookup_two (fs : Flags) (a b : Nat) (ha : a < 64) (hb : b < 64) (ha0 : a ≠ 0) (hb0 : b ≠ 0) (i : Nat) :
    (fs.set (flagBit a ||| flagBit b ||| 1#64)).lookup i =
      (if i = a ∨ i = b then some true else none).orElse (fun _ => fs.lookup i) := by
  rw [lookup_set]
  simp only [BitVec.getLsbD_or, flagBit_getLsbD a i ha, flagBit_getLsbD b i hb, flagBit_getLsbD a 0 ha,
    flagBit_getLsbD b 0 hb, one_bit]
  by_cases h1 : i = a <;> by_cases h2 : i = b <;> by_cases h0 : i = 0 <;> simp_all <;> omega

theorem set_lookup_one (fs : Flags) (a : Nat) (ha : a < 64) (ha0 : a ≠ 0) (v : Bool) (i : Nat) :
    (fs.set (flagBit a ||| (if v then 1#64 else 0#64))).lookup i =
      (if i = a then some v else none).orElse (fun _ => fs.lookup i) := by
  rw [lookup_set]
  cases v <;>
  simp only [BitVec.getLsbD_or, flagBit_getLsbD a i ha, flagBit_getLsbD a 0 ha, one_bit] <;>
  by_cases h1 : i = a <;> by_cases h0 : i = 0 <;> simp_all <;> omega

theorem abs_joinOne_flag (dst : Struct) (o : Opt) (ho : JsonV.Spec.Opt.WF o) (i : Nat) :
    (abs (dst.joinOne o)).flag i = ((abs dst).override (optMap o)).flag i := by
  cases o with
  | nil => simp [Struct.joinOne, abs, OptMap.override, optMap, OptMap.empty]
  | bools f =>
    simp only [Struct.joinOne, abs, OptMap.override, optMap, boolsMap, lookup_set]
    split <;> simp
  | formatTagSupport b =>
    simp only [Struct.joinOne, abs, OptMap.override, optMap, w_fts]
    exact set_lookup_one _ 29 (by decide) (by decide) b i
  | indent s =>
    simp only [Struct.joinOne, abs, OptMap.override, optMap, w_indent]
    exact set_lookup_two _ 11 14 (by decide) (by decide) (by decide) (by decide) i
  | indentPrefix s =>
    simp only [Struct.joinOne, abs, OptMap.override, optMap, w_indentPrefix]
    exact set_lookup_two _ 11 15 (by decide) (by decide) (by decide) (by decide) i
  | byteLimit n =>
    simp only [Struct.joinOne, abs, OptMap.override, optMap, w_byteLimit]
    exact set_lookup_one _ 16 (by decide) (by decide) true i
  | depthLimit n =>
    simp only [Struct.joinOne, abs, OptMap.override, optMap, w_depthLimit]
    exact set_lookup_one _ 17 (by decide) (by decide) true i
  | marshalers p =>
    simp only [Struct.joinOne, abs, OptMap.override, optMap, w_marshalers]
    exact set_lookup_one _ 25 (by decide) (by decide) true i
  | unmarshalers p =>
    simp only [Struct.joinOne, abs, OptMap.override, optMap, w_unmarshalers]
    exact set_lookup_one _ 26 (by decide) (by decide) true i
  | struct src =>
    have hw : src.flags.WF := ho
    simp only [Struct.joinOne, abs, OptMap.override, optMap]
    split <;> simp [Struct.copySlots, lookup_join _ _ hw]


theorem setc_presence (fs : Flags) (a : Nat) (ha : a < 64) (w : BitVec 64) (hw : ∀ j, j ≠ 0 → w.getLsbD j = false)
    (j : Nat) (hj : j ≠ 0) :
    (fs.set (flagBit a ||| w)).presence.getLsbD j = (fs.presence.getLsbD j || decide (j = a)) := by
  rw [set_presence_bit]
  simp [BitVec.getLsbD_or, flagBit_getLsbD a j ha, hw j hj, hj]

theorem one_hi (j : Nat) (hj : j ≠ 0) : (1#64).getLsbD j = false := by simp [one_bit, hj]
theorem ite_hi (b : Bool) (j : Nat) (hj : j ≠ 0) : (if b then 1#64 else 0#64).getLsbD j = false := by
  cases b <;> simp [hj]

theorem setc2_presence (fs : Flags) (a b : Nat) (ha : a < 64) (hb : b < 64) (j : Nat) (hj : j ≠ 0) :
    (fs.set (flagBit a ||| flagBit b ||| 1#64)).presence.getLsbD j =
      (fs.presence.getLsbD j || decide (j = a) || decide (j = b)) := by
  rw [set_presence_bit]
  simp [BitVec.getLsbD_or, flagBit_getLsbD a j ha, flagBit_getLsbD b j hb, hj, Bool.or_assoc]

theorem abs_joinOne_slot (dst : Struct) (o : Opt) (ho : JsonV.Spec.Opt.WF o) (k : Slot) :
    (abs (dst.joinOne o)).slot k = ((abs dst).override (optMap o)).slot k := by
  have hk0 := slot_idx_ne_zero k
  cases o with
  | nil => rfl
  | bools f =>
    have hf : f.getLsbD k.idx = false := ho k
    simp only [Struct.joinOne, abs, OptMap.override, optMap, set_presence_bit, hf]
    cases k <;> simp [slotVal]
  | formatTagSupport b =>
    simp only [Struct.joinOne, abs, OptMap.override, optMap, w_fts]
    rw [setc_presence _ 29 (by decide) _ (fun j hj => ite_hi b j hj) _ hk0]
    cases k <;> simp [Slot.idx, slotVal]
  | indent s =>
    simp only [Struct.joinOne, abs, OptMap.override, optMap, w_indent]
    rw [setc2_presence _ 11 14 (by decide) (by decide) _ hk0]
    cases k <;> simp [Slot.idx, slotVal]
  | indentPrefix s =>
    simp only [Struct.joinOne, abs, OptMap.override, optMap, w_indentPrefix]
    rw [setc2_presence _ 11 15 (by decide) (by decide) _ hk0]
    cases k <;> simp [Slot.idx, slotVal]
  | byteLimit n =>
    simp only [Struct.joinOne, abs, OptMap.override, optMap, w_byteLimit]
    rw [setc_presence _ 16 (by decide) _ one_hi _ hk0]
    cases k <;> simp [Slot.idx, slotVal]
  | depthLimit n =>
    simp only [Struct.joinOne, abs, OptMap.override, optMap, w_depthLimit]
    rw [setc_presence _ 17 (by decide) _ one_hi _ hk0]
    cases k <;> simp [Slot.idx, slotVal]
  | marshalers p =>
    simp only [Struct.joinOne, abs, OptMap.override, optMap, w_marshalers]
    rw [setc_presence _ 25 (by decide) _ one_hi _ hk0]
    cases k <;> simp [Slot.idx, slotVal]
  | unmarshalers p =>
    simp only [Struct.joinOne, abs, OptMap.override, optMap, w_unmarshalers]
    rw [setc_presence _ 26 (by decide) _ one_hi _ hk0]
    cases k <;> simp [Slot.idx, slotVal]
  | struct src =>
    have hs := has_slot src.flags k
    simp only [Struct.joinOne, abs, OptMap.override, optMap]
    by_cases hnb : src.flags.has F.nonBoolean = true
    · simp only [hnb, if_true, Struct.copySlots, join_presence_bit]
      cases k <;> simp only [Slot.flag] at hs <;>
        cases hp : src.flags.presence.getLsbD _ <;> simp_all [slotVal, Slot.idx]
    · have hnb' : src.flags.has F.nonBoolean = false := by simpa using hnb
      have hz := has_eq_false_bit src.flags F.nonBoolean k.idx hnb' (nonBoolean_bit k)
      have hj := join_presence_bit dst.flags src.flags k.idx
      rw [hz, Bool.or_false] at hj
      simp only [hnb']
      cases k <;> simp_all [slotVal]

@[ext] theorem OptMap.ext' (m n : OptMap) (h1 : ∀ i, m.flag i = n.flag i) (h2 : ∀ k, m.slot k = n.slot k) : m = n := by
  cases m; cases n
  simp only [OptMap.mk.injEq]
  exact ⟨funext h1, funext h2⟩

theorem abs_joinOne (dst : Struct) (o : Opt) (ho : JsonV.Spec.Opt.WF o) :
    abs (dst.joinOne o) = (abs dst).override (optMap o) :=
  OptMap.ext' _ _ (abs_joinOne_flag dst o ho) (abs_joinOne_slot dst o ho)

theorem abs_join (dst : Struct) (srcs : List Opt) (h : ∀ o ∈ srcs, JsonV.Spec.Opt.WF o) :
    abs (dst.join srcs) = srcs.foldl (fun m o => m.override (optMap o)) (abs dst) := by
  induction srcs generalizing dst with
  | nil => rfl
  | cons o os ih =>
    simp only [Struct.join, List.foldl_cons]
    have := ih (dst.joinOne o) (fun o' ho' => h o' (List.mem_cons_of_mem _ ho'))
    simp only [Struct.join] at this
    rw [this, abs_joinOne dst o (h o List.mem_cons_self)]

theorem abs_default : abs ({} : Struct) = OptMap.empty := by
  apply OptMap.ext' <;> intro x <;> simp [abs, OptMap.empty, Flags.lookup, Flags.empty]

theorem override_empty (m : OptMap) : m.override OptMap.empty = m := by
  apply OptMap.ext' <;> intro x <;> simp [OptMap.override, OptMap.empty]

theorem override_assoc (a b c : OptMap) : (a.override b).override c = a.override (b.override c) := by
  apply OptMap.ext' <;> intro x <;> simp only [OptMap.override] <;>
    (first | (cases c.flag x <;> simp) | (cases c.slot x <;> simp))

theorem empty_override (m : OptMap) : OptMap.empty.override m = m := by
  apply OptMap.ext' <;> intro x <;> simp only [OptMap.override, OptMap.empty] <;>
    (first | (cases m.flag x <;> simp) | (cases m.slot x <;> simp))

theorem foldl_override (m : OptMap) (ys : List Opt) :
    ys.foldl (fun m o => m.override (optMap o)) m =
      m.override (ys.foldl (fun m o => m.override (optMap o)) OptMap.empty) := by
  induction ys generalizing m with
  | nil => simp [override_empty]
  | cons y ys ih =>
    simp only [List.foldl_cons]
    rw [ih (m.override (optMap y)), ih (OptMap.empty.override (optMap y)), empty_override, override_assoc]

theorem wf_joinOne (dst : Struct) (o : Opt) (hd : dst.flags.WF) (ho : JsonV.Spec.Opt.WF o) :
    (dst.joinOne o).flags.WF := by
  cases o with
  | nil => exact hd
  | struct src =>
    simp only [Struct.joinOne]
    split
    · exact wf_join _ _ hd ho
    · exact wf_join _ _ hd ho
  | _ => exact wf_set _ _ hd

theorem wf_join_struct (dst : Struct) (srcs : List Opt) (hd : dst.flags.WF)
    (h : ∀ o ∈ srcs, JsonV.Spec.Opt.WF o) : (dst.join srcs).flags.WF := by
  induction srcs generalizing dst with
  | nil => exact hd
  | cons o os ih =>
    exact ih (dst.joinOne o) (wf_joinOne dst o hd (h o List.mem_cons_self))
      (fun o' ho' => h o' (List.mem_cons_of_mem _ ho'))

end JsonV.Lemmas.OptsL
