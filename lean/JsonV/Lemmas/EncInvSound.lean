/-
C02, part 6: the recogniser of Spec/ValidJson.lean is SOUND for the grammar of slice C01
(Spec/Grammar.lean: RFC 8259 with the RFC 7493 options): whatever `parse` accepts is a `JValue`.
-/
import JsonV.Spec.ValidJson
import JsonV.Spec.Grammar
import JsonV.Lemmas.EncInvL

namespace JsonV.Lemmas.EncInvSound
open JsonV JsonV.Spec.ValidJson JsonV.Spec.Grammar JsonV.Model

/-! ### numbers -/

theorem isDigit_iff (c : UInt8) : isDigit c = true ↔ Digit c := by simp [isDigit, Digit]

theorem digit19 (c : UInt8) (h : isDigit c = true) (h0 : c ≠ 0x30) : Digit19 c := by
  rw [isDigit_iff] at h
  refine ⟨?_, h.2⟩
  have h1 : (0x30 : UInt8).toNat ≤ c.toNat := UInt8.le_iff_toNat_le.mp h.1
  have h2 : c.toNat ≠ 0x30 := fun e => h0 (UInt8.toNat_inj.mp (by simpa using e))
  apply UInt8.le_iff_toNat_le.mpr
  simp at h1 ⊢; omega

theorem dropDigits_split (s : Bytes) : ∃ ds, s = ds ++ dropDigits s ∧ Digits0 ds := by
  induction s with
  | nil => exact ⟨[], rfl, by intro c h; simp at h⟩
  | cons c s ih =>
    simp only [dropDigits]
    split
    · rename_i hd
      obtain ⟨ds, h1, h2⟩ := ih
      refine ⟨c :: ds, by simp [← h1], ?_⟩
      intro x hx; simp at hx; rcases hx with rfl | hx
      · exact (isDigit_iff _).mp hd
      · exact h2 x hx
    · exact ⟨[], rfl, by intro c h; simp at h⟩

theorem pInt_sound {s t : Bytes} (h : pInt s = some t) : ∃ p, s = p ++ t ∧ JInt p := by
  cases s with
  | nil => simp [pInt] at h
  | cons c r =>
    simp only [pInt] at h
    split at h
    · rename_i hc; simp at h; subst h; subst hc; exact ⟨[0x30], rfl, .zero⟩
    · rename_i hc
      split at h
      · rename_i hd; simp at h; subst h
        obtain ⟨ds, h1, h2⟩ := dropDigits_split r
        exact ⟨c :: ds, by simp [← h1], .nonzero c ds (digit19 c hd hc) h2⟩
      · simp at h

theorem digits1_cons (c : UInt8) (r : Bytes) (hd : isDigit c = true) :
    ∃ ds, c :: r = ds ++ dropDigits r ∧ Digits1 ds := by
  obtain ⟨ds, h1, h2⟩ := dropDigits_split r
  refine ⟨c :: ds, by simp [← h1], by simp, ?_⟩
  intro x hx; simp at hx; rcases hx with rfl | hx
  · exact (isDigit_iff _).mp hd
  · exact h2 x hx

theorem pFrac_sound {s t : Bytes} (h : pFrac s = some t) : ∃ p, s = p ++ t ∧ JFrac p := by
  cases s with
  | nil => simp [pFrac] at h; subst h; exact ⟨[], rfl, .none⟩
  | cons c r =>
    simp only [pFrac] at h
    split at h
    · rename_i hc; subst hc
      cases r with
      | nil => simp at h
      | cons c1 r1 =>
        simp only at h
        split at h
        · rename_i hd; simp at h; subst h
          obtain ⟨ds, h1, h2⟩ := digits1_cons c1 r1 hd
          exact ⟨0x2E :: ds, by simp [h1], .some ds h2⟩
        · simp at h
    · simp at h; subst h; exact ⟨[], rfl, .none⟩

theorem pExpDigits_sound {s t : Bytes} (h : pExpDigits s = some t) : ∃ ds, s = ds ++ t ∧ Digits1 ds := by
  cases s with
  | nil => simp [pExpDigits] at h
  | cons c r =>
    simp only [pExpDigits] at h
    split at h
    · rename_i hd; simp at h; subst h; exact digits1_cons c r hd
    · simp at h

theorem pExp_sound {s t : Bytes} (h : pExp s = some t) : ∃ p, s = p ++ t ∧ JExp p := by
  cases s with
  | nil => simp [pExp] at h; subst h; exact ⟨[], rfl, .none⟩
  | cons c r =>
    simp only [pExp] at h
    split at h
    · rename_i hc
      cases r with
      | nil => simp at h
      | cons c1 r1 =>
        simp only at h
        split at h
        · rename_i hs
          obtain ⟨ds, h1, h2⟩ := pExpDigits_sound h
          refine ⟨c :: ([c1] ++ ds), by simp [h1], .some c [c1] ds hc ?_ h2⟩
          rcases hs with rfl | rfl <;> simp
        · obtain ⟨ds, h1, h2⟩ := pExpDigits_sound h
          exact ⟨c :: ([] ++ ds), by simp [h1], .some c [] ds hc (.inl rfl) h2⟩
    · simp at h; subst h; exact ⟨[], rfl, .none⟩

theorem pNumber_sound {s t : Bytes} (h : pNumber s = some t) : ∃ p, s = p ++ t ∧ JNumber p := by
  unfold pNumber at h
  have key : ∀ s1 : Bytes, ((pInt s1).bind fun s2 => (pFrac s2).bind pExp) = some t →
      ∃ i f e, s1 = i ++ f ++ e ++ t ∧ JInt i ∧ JFrac f ∧ JExp e := by
    intro s1 h1
    cases hi : pInt s1 with
    | none => simp [hi] at h1
    | some s2 =>
      simp only [hi, Option.bind_some] at h1
      cases hf : pFrac s2 with
      | none => simp [hf] at h1
      | some s3 =>
        simp only [hf, Option.bind_some] at h1
        obtain ⟨i, e1, hi'⟩ := pInt_sound hi
        obtain ⟨f, e2, hf'⟩ := pFrac_sound hf
        obtain ⟨e, e3, he'⟩ := pExp_sound h1
        exact ⟨i, f, e, by rw [e1, e2, e3]; simp, hi', hf', he'⟩
  cases s with
  | nil => simp [pInt] at h
  | cons c r =>
    simp only at h
    by_cases hc : c = 0x2d
    · simp only [hc, if_true] at h
      obtain ⟨i, f, e, e1, hi, hf, he⟩ := key r h
      exact ⟨[0x2d] ++ i ++ f ++ e, by simp [hc, e1], .mk [0x2d] i f e (.inr rfl) hi hf he⟩
    · simp only [hc, if_false] at h
      obtain ⟨i, f, e, e1, hi, hf, he⟩ := key (c :: r) h
      exact ⟨[] ++ i ++ f ++ e, by simp [e1], .mk [] i f e (.inl rfl) hi hf he⟩

/-! ### numbers: completeness (every `JNumber` is accepted) -/

theorem dropDigits_prefix (ds rest : Bytes) (h : Digits0 ds) : dropDigits (ds ++ rest) = dropDigits rest := by
  induction ds with
  | nil => rfl
  | cons c ds ih =>
    have hc : isDigit c = true := (isDigit_iff c).mpr (h c (by simp))
    simp only [List.cons_append, dropDigits, hc, if_true]
    exact ih (fun x hx => h x (by simp [hx]))

/-- what may follow the integer / fraction part: nothing, or `.`, `e`, `E` -/
def NoDigitHead (r : Bytes) : Prop := ∀ c r', r = c :: r' → isDigit c = false

theorem dropDigits_noDigit (r : Bytes) (h : NoDigitHead r) : dropDigits r = r := by
  cases r with
  | nil => rfl
  | cons c r' => simp [dropDigits, h c r' rfl]

theorem digit_of_Digit {c : UInt8} (h : Digit c) : isDigit c = true := (isDigit_iff c).mpr h

theorem jexp_noDigit (e : Bytes) (h : JExp e) : NoDigitHead e := by
  intro c r' hc
  cases h with
  | none => simp at hc
  | some e0 sign ds he _ _ =>
    simp at hc; obtain ⟨rfl, _⟩ := hc
    rcases he with rfl | rfl <;> decide

theorem jfrac_noDigit (f e : Bytes) (hf : JFrac f) (he : JExp e) : NoDigitHead (f ++ e) := by
  cases hf with
  | none => simpa using jexp_noDigit e he
  | some ds _ => intro c r' hc; simp at hc; obtain ⟨rfl, _⟩ := hc; decide

theorem pExpDigits_complete (ds : Bytes) (h : Digits1 ds) : pExpDigits ds = some [] := by
  obtain ⟨hne, hd⟩ := h
  cases ds with
  | nil => exact absurd rfl hne
  | cons c ds' =>
    have hc := digit_of_Digit (hd c (by simp))
    simp only [pExpDigits, hc, if_true]
    have := dropDigits_prefix ds' [] (fun x hx => hd x (by simp [hx]))
    simp at this; simp [this, dropDigits]

theorem pExp_complete (e : Bytes) (h : JExp e) : pExp e = some [] := by
  cases h with
  | none => rfl
  | some e0 sign ds he hs hd =>
    have he' : e0 = 0x65 ∨ e0 = 0x45 := he
    obtain ⟨hne, hdd⟩ := hd
    cases ds with
    | nil => exact absurd rfl hne
    | cons c ds' =>
      have hc := digit_of_Digit (hdd c (by simp))
      have hcs : ¬ (c = 0x2b ∨ c = 0x2d) := by
        rintro (rfl | rfl) <;> simp [isDigit] at hc
      have hk := pExpDigits_complete (c :: ds') ⟨by simp, hdd⟩
      rcases hs with rfl | rfl | rfl
      · simp only [List.nil_append, pExp, he', if_true, hcs, if_false]
        exact hk
      · rcases he' with rfl | rfl <;> simp [pExp, hk]
      · rcases he' with rfl | rfl <;> simp [pExp, hk]

theorem pFrac_complete (f e : Bytes) (hf : JFrac f) (he : JExp e) : pFrac (f ++ e) = some e := by
  cases hf with
  | none =>
    simp only [List.nil_append]
    cases e with
    | nil => rfl
    | cons c r =>
      have : c ≠ 0x2e := by
        cases he with
        | some e0 sign ds h1 _ _ => rcases h1 with rfl | rfl <;> decide
      simp [pFrac, this]
  | some ds hd =>
    obtain ⟨hne, hdd⟩ := hd
    cases ds with
    | nil => exact absurd rfl hne
    | cons c ds' =>
      have hc := digit_of_Digit (hdd c (by simp))
      simp only [List.cons_append, pFrac, if_true, hc]
      rw [dropDigits_prefix ds' e (fun x hx => hdd x (by simp [hx])), dropDigits_noDigit e (jexp_noDigit e he)]

theorem pInt_complete (i rest : Bytes) (hi : JInt i) (hr : NoDigitHead rest) : pInt (i ++ rest) = some rest := by
  cases hi with
  | zero => simp [pInt]
  | nonzero d ds h19 hds =>
    have hd : isDigit d = true := by
      apply (isDigit_iff d).mpr
      exact ⟨by have := h19.1; exact UInt8.le_trans (by decide) this, h19.2⟩
    have hne : d ≠ 0x30 := by
      rintro rfl; exact absurd h19.1 (by decide)
    simp only [List.cons_append, pInt, hne, if_false, hd, if_true]
    rw [dropDigits_prefix ds rest hds, dropDigits_noDigit rest hr]

/-- Completeness of the number scanner: every number of the grammar is accepted entirely. -/
theorem pNumber_complete (lit : Bytes) (h : JNumber lit) : pNumber lit = some [] := by
  cases h with
  | mk minus i f e hm hi hf he =>
    have key : ((pInt (i ++ (f ++ e))).bind fun s2 => (pFrac s2).bind pExp) = some [] := by
      rw [pInt_complete i (f ++ e) hi (jfrac_noDigit f e hf he)]
      simp [pFrac_complete f e hf he, pExp_complete e he]
    have ihead : ∀ c r, i ++ (f ++ e) = c :: r → c ≠ 0x2d := by
      intro c r hc
      cases hi with
      | zero => simp at hc; rw [← hc.1]; decide
      | nonzero d ds h19 _ =>
        simp at hc; rw [← hc.1]; rintro rfl; exact absurd h19.1 (by decide)
    unfold pNumber
    rcases hm with rfl | rfl
    · simp only [List.nil_append, List.append_assoc]
      cases hx : i ++ (f ++ e) with
      | nil => cases hi <;> simp at hx
      | cons c r =>
        have := ihead c r hx
        simp only [this, if_false]
        rw [← hx]; exact key
    · simp only [List.cons_append, List.nil_append, List.append_assoc, if_true]
      exact key

/-! ### strings -/

theorem le_toNat {a b : UInt8} : a ≤ b ↔ a.toNat ≤ b.toNat := UInt8.le_iff_toNat_le

theorem hexVal_sound (c : UInt8) (x : Nat) (h : hexVal c = some x) : HexDigit c ∧ x = hexValue c := by
  unfold hexVal at h
  split at h
  · rename_i h1; simp at h; subst h
    refine ⟨.inl h1, ?_⟩
    simp [hexValue, h1.2]
  · rename_i h1
    split at h
    · rename_i h2; simp at h; subst h
      refine ⟨.inr (.inl h2), ?_⟩
      have a := le_toNat.mp h2.1
      have b := le_toNat.mp h2.2
      simp at a b
      have n1 : ¬ c ≤ 0x39 := fun hh => by have := le_toNat.mp hh; simp at this; omega
      have n2 : ¬ c ≤ 0x46 := fun hh => by have := le_toNat.mp hh; simp at this; omega
      simp [hexValue, n1, n2]
    · rename_i h2
      split at h
      · rename_i h3; simp at h; subst h
        refine ⟨.inr (.inr h3), ?_⟩
        have a := le_toNat.mp h3.1
        have b := le_toNat.mp h3.2
        simp at a b
        have n1 : ¬ c ≤ 0x39 := fun hh => by have := le_toNat.mp hh; simp at this; omega
        simp [hexValue, n1, h3.2]
      · simp at h

theorem hex4_sound (a b c d : UInt8) (v : Nat) (h : hex4 a b c d = some v) :
    HexDigit a ∧ HexDigit b ∧ HexDigit c ∧ HexDigit d ∧ v = hex4Value a b c d := by
  unfold hex4 at h
  cases ha : hexVal a <;> cases hb : hexVal b <;> cases hc : hexVal c <;> cases hd : hexVal d <;> simp [ha, hb, hc, hd] at h
  obtain ⟨h1, e1⟩ := hexVal_sound a _ ha
  obtain ⟨h2, e2⟩ := hexVal_sound b _ hb
  obtain ⟨h3, e3⟩ := hexVal_sound c _ hc
  obtain ⟨h4, e4⟩ := hexVal_sound d _ hd
  refine ⟨h1, h2, h3, h4, ?_⟩
  subst h e1 e2 e3 e4
  simp only [hex4Value]; omega

theorem high_iff (v : Nat) : Utf8.isHighSurrogate v = true ↔ HighSurrogate v := by simp [Utf8.isHighSurrogate, HighSurrogate]
theorem low_iff (v : Nat) : Utf8.isLowSurrogate v = true ↔ LowSurrogate v := by simp [Utf8.isLowSurrogate, LowSurrogate]
theorem surrogate_split (v : Nat) : Surrogate v ↔ HighSurrogate v ∨ LowSurrogate v := by
  simp only [Surrogate, HighSurrogate, LowSurrogate]; omega

theorem simpleEscape_sound (e : UInt8) (h : isSimpleEscape e = true) : SimpleEscape e := by
  simpa [isSimpleEscape, SimpleEscape, or_assoc] using h

theorem leadInfo_sz (n sz lo hi : Nat) (h : Utf8.leadInfo n = some (sz, lo, hi)) : sz = 2 ∨ sz = 3 ∨ sz = 4 := by
  unfold Utf8.leadInfo at h
  repeat' split at h
  all_goals simp at h
  all_goals omega

theorem inRange_cont (b : UInt8) : inRange b 0x80 0xBF = Utf8.isCont b.toNat := by simp [inRange, Utf8.isCont]

theorem utf8Len_sound (c : UInt8) (r : Bytes) (n : Nat) (h : utf8Len c r = some n) :
    n ≤ r.length ∧ Utf8Multi (c :: r.take n) := by
  have hn := (JsonV.Lemmas.EncInvL.utf8Len_append c r [] n h).1
  refine ⟨hn, ?_⟩
  unfold utf8Len at h
  cases hl : Utf8.leadInfo c.toNat with
  | none => simp [hl] at h
  | some p =>
    obtain ⟨sz, lo, hi⟩ := p
    have hsz := leadInfo_sz _ _ _ _ hl
    simp only [hl] at h
    rcases r with _ | ⟨b1, r1⟩
    · simp at h
    · simp only at h
      split at h; · simp at h
      rename_i h1
      have hb1 : lo ≤ b1.toNat ∧ b1.toNat ≤ hi := by simpa [inRange] using h1
      split at h
      · rename_i h2; simp at h; subst h
        exact ⟨c, b1, [], sz, lo, hi, by simp, hl, by simp [h2], hb1.1, hb1.2, by simp⟩
      · rename_i h2
        rcases r1 with _ | ⟨b2, r2⟩
        · simp at h
        · simp only at h
          split at h; · simp at h
          rename_i h3
          have hb2 : Utf8.isCont b2.toNat = true := by rw [← inRange_cont]; simpa using h3
          split at h
          · rename_i h4; simp at h; subst h
            exact ⟨c, b1, [b2], sz, lo, hi, by simp, hl, by simp [h4], hb1.1, hb1.2, by simpa using hb2⟩
          · rename_i h4
            rcases r2 with _ | ⟨b3, r3⟩
            · simp at h
            · simp only at h
              split at h; · simp at h
              rename_i h5
              have hb3 : Utf8.isCont b3.toNat = true := by rw [← inRange_cont]; simpa using h5
              simp at h; subst h
              have : sz = 4 := by omega
              exact ⟨c, b1, [b2, b3], sz, lo, hi, by simp, hl, by simp [this], hb1.1, hb1.2, by simp [hb2, hb3]⟩

theorem jchars_cons {st : Bool} {c rest body t : Bytes} (hc : JChar st c)
    (h : rest = body ++ 0x22 :: t ∧ JChars st body) :
    c ++ rest = (c ++ body) ++ 0x22 :: t ∧ JChars st (c ++ body) :=
  ⟨by rw [h.1]; simp, .cons c body hc h.2⟩

theorem strBody_sound (st : Bool) (s : Bytes) :
    ∀ t, strBody st s = some t → ∃ body, s = body ++ 0x22 :: t ∧ JChars st body := by
  fun_induction strBody st s <;> intro t h
  all_goals try (simp at h; done)
  case case2 r => simp at h; subst h; exact ⟨[], rfl, .nil⟩
  case case4 e r1 he _ ih =>
    obtain ⟨body, hb⟩ := ih t h
    exact ⟨_, jchars_cons (c := [0x5C, e]) (.esc e (simpleEscape_sound e he)) hb⟩
  case case6 a b c d v hv hh bs u a' b' c' d' r3 hbu v2 hv2 hl _ _ ih =>
    obtain ⟨body, hb⟩ := ih t h
    obtain ⟨rfl, rfl⟩ := hbu
    obtain ⟨h1, h2, h3, h4, e1⟩ := hex4_sound a b c d v hv
    obtain ⟨h5, h6, h7, h8, e2⟩ := hex4_sound a' b' c' d' v2 hv2
    have hhi : HighSurrogate (hex4Value a b c d) := by
      rw [← e1, ← high_iff]; simp at hh; exact hh.2
    have hlo : LowSurrogate (hex4Value a' b' c' d') := by rw [← e2, ← low_iff]; exact hl
    exact ⟨_, jchars_cons (c := [0x5C, 0x75, a, b, c, d, 0x5C, 0x75, a', b', c', d'])
      (.pair a b c d a' b' c' d' h1 h2 h3 h4 h5 h6 h7 h8 hhi hlo) hb⟩
  case case12 a b c d r2 v hv hnh hnl _ _ ih =>
    obtain ⟨body, hb⟩ := ih t h
    obtain ⟨h1, h2, h3, h4, e1⟩ := hex4_sound a b c d v hv
    refine ⟨_, jchars_cons (c := [0x5C, 0x75, a, b, c, d]) (.uni a b c d h1 h2 h3 h4 ?_) hb⟩
    intro hst hs
    rw [← e1, surrogate_split, ← high_iff, ← low_iff] at hs
    subst hst
    simp at hnh hnl
    rcases hs with hs | hs <;> simp_all
  case case16 c r hq hb hc hs ih =>
    obtain ⟨body, hbody⟩ := ih t h
    by_cases h128 : c < 128
    · refine ⟨_, jchars_cons (c := [c]) (.plain c ?_ h128 hq hb) hbody⟩
      exact UInt8.not_lt.mp hc
    · have hst : st = false := by simpa [h128] using hs
      refine ⟨_, jchars_cons (c := [c]) (.raw c hst (UInt8.not_lt.mp h128)) hbody⟩
  case case17 c r hq hb hc hs n hn ih =>
    obtain ⟨body, hbody⟩ := ih t h
    obtain ⟨hle, hm⟩ := utf8Len_sound c r n hn
    have := jchars_cons (c := c :: r.take n) (.utf8 _ hm) hbody
    refine ⟨_, ?_, this.2⟩
    rw [← this.1]; simp [List.take_append_drop]

/-! ### values -/

/-- the grammar options selected by the recogniser's options -/
def gopts (o : Opt) : GOpts := ⟨o.strict, !o.noDup⟩

abbrev JV (o : Opt) (d : Nat) (v : Bytes) : Prop := JValue (gopts o) o.maxDepth o.key d v

def memberText (m : Bytes × Bytes) : Bytes := m.1 ++ 0x3A :: m.2

/-- what a successful `parse` in each mode has recognised -/
def Sound (o : Opt) (m : Mode) (d : Nat) (s t : Bytes) : Prop :=
  match m with
  | .value => ∃ v, s = v ++ t ∧ JV o d v
  | .elems => ∃ vs : List Bytes, vs ≠ [] ∧ s = joinSep vs ++ 0x5D :: t ∧ ∀ v ∈ vs, JV o d v
  | .members seen => ∃ ms : List (Bytes × Bytes), ms ≠ [] ∧ s = joinSep (ms.map memberText) ++ 0x7D :: t ∧
      (∀ m ∈ ms, JString o.strict m.1 ∧ JV o d m.2) ∧
      (o.noDup = true → (ms.map fun m => o.key m.1).Nodup ∧ ∀ m ∈ ms, o.key m.1 ∉ seen)

theorem jws_nil : JWs [] := by intro c h; simp at h

theorem lit_sound {w r t : Bytes} (h : lit w r = some t) : r = w ++ t := by
  unfold lit at h
  split at h
  · rename_i hp; simp at h; subst h
    have := List.isPrefixOf_iff_prefix.mp hp
    obtain ⟨x, hx⟩ := this
    subst hx; simp
  · simp at h

theorem arr_of_values (o : Opt) (d : Nat) (vs : List Bytes) (hd : d < o.maxDepth) (hne : vs ≠ [])
    (h : ∀ v ∈ vs, JV o (d + 1) v) : JV o d (0x5B :: (joinSep vs ++ [0x5D])) := by
  have := JValue.arr (o := gopts o) (maxDepth := o.maxDepth) (key := o.key) d (vs.map fun v => (([] : Bytes), v, ([] : Bytes))) hd
    (by simpa using hne) (by intro e he; simp at he; obtain ⟨v, _, rfl⟩ := he; exact ⟨jws_nil, jws_nil⟩)
    (by intro e he; simp at he; obtain ⟨v, hv, rfl⟩ := he; exact h v hv)
  simpa [List.map_map, Function.comp_def] using this

theorem obj_of_members (o : Opt) (d : Nat) (ms : List (Bytes × Bytes)) (hd : d < o.maxDepth) (hne : ms ≠ [])
    (h : ∀ m ∈ ms, JString o.strict m.1 ∧ JV o (d + 1) m.2)
    (hk : o.noDup = true → (ms.map fun m => o.key m.1).Nodup) :
    JV o d (0x7B :: (joinSep (ms.map memberText) ++ [0x7D])) := by
  have := JValue.obj (o := gopts o) (maxDepth := o.maxDepth) (key := o.key) d
    (ms.map fun m => (([] : Bytes), m.1, ([] : Bytes), ([] : Bytes), m.2, ([] : Bytes))) hd
    (by simpa using hne)
    (by intro e he; simp at he; obtain ⟨a, b, hm, rfl⟩ := he
        exact ⟨jws_nil, (h (a, b) hm).1, jws_nil, jws_nil, jws_nil⟩)
    (by intro e he; simp at he; obtain ⟨a, b, hm, rfl⟩ := he; exact (h (a, b) hm).2)
    (by
      cases hnd : o.noDup with
      | false => left; simp [gopts, hnd]
      | true => right; simpa [List.map_map, Function.comp_def] using hk hnd)
  have e : memberText = fun x => x.1 ++ 0x3A :: x.2 := rfl
  rw [e]
  simpa [List.map_map, Function.comp_def] using this

theorem member_name (st : Bool) (r0 r1 : Bytes) (c : UInt8) (h : strBody st r0 = some (c :: r1)) :
    ∃ name, JString st name ∧ 0x22 :: r0 = name ++ c :: r1 ∧
      List.take (r0.length - r1.length) (0x22 :: r0) = name := by
  obtain ⟨body, hb, hc⟩ := strBody_sound st r0 _ h
  refine ⟨0x22 :: (body ++ [0x22]), ⟨body, hc, rfl⟩, by simp [hb], ?_⟩
  have e : 0x22 :: r0 = (0x22 :: (body ++ [0x22])) ++ c :: r1 := by simp [hb]
  have l : r0.length - r1.length = (0x22 :: (body ++ [0x22])).length := by simp [hb]; omega
  rw [e, l, List.take_left']
  rfl

theorem parse_sound (o : Opt) (m : Mode) (d : Nat) (s : Bytes) : ∀ t, parse o m d s = some t → Sound o m d s t := by
  fun_induction parse o m d s <;> intro t h
  all_goals try (simp at h; done)
  case case2 d r =>
    obtain ⟨body, hb, hc⟩ := strBody_sound o.strict r t h
    exact ⟨0x22 :: (body ++ [0x22]), by simp [hb], .str d _ ⟨body, hc, rfl⟩⟩
  case case4 d hd r1 _ =>
    simp at h; subst h
    exact ⟨[0x5B, 0x5D], rfl, by simpa using JValue.emptyArr (o := gopts o) (key := o.key) d [] hd jws_nil⟩
  case case5 d hd c1 r1 _ _ ih =>
    obtain ⟨vs, hne, hs, hv⟩ := ih t h
    exact ⟨0x5B :: (joinSep vs ++ [0x5D]), by simp [hs], arr_of_values o d vs hd hne hv⟩
  case case8 d hd r1 _ _ =>
    simp at h; subst h
    exact ⟨[0x7B, 0x7D], rfl, by simpa using JValue.emptyObj (o := gopts o) (key := o.key) d [] hd jws_nil⟩
  case case9 d hd c1 r1 _ _ _ ih =>
    obtain ⟨ms, hne, hs, hm, hk⟩ := ih t h
    exact ⟨0x7B :: (joinSep (ms.map memberText) ++ [0x7D]), by simp [hs],
      obj_of_members o d ms hd hne hm (fun hnd => (hk hnd).1)⟩
  case case11 d r _ _ _ => exact ⟨nullLit, by simp [nullLit, lit_sound h], .null d⟩
  case case12 d r _ _ _ _ => exact ⟨trueLit, by simp [trueLit, lit_sound h], .true d⟩
  case case13 d r _ _ _ _ _ => exact ⟨falseLit, by simp [falseLit, lit_sound h], .false d⟩
  case case14 d c r _ _ _ _ _ _ =>
    obtain ⟨p, hp, hn⟩ := pNumber_sound h
    exact ⟨p, hp, .num d p hn⟩
  case case15 d s0 r0 hlen hx ihv ihe =>
    obtain ⟨v, hv, hjv⟩ := ihv _ hx
    obtain ⟨vs, hne, hs, hvs⟩ := ihe t h
    cases vs with
    | nil => exact absurd rfl hne
    | cons y ys =>
      refine ⟨v :: y :: ys, by simp, ?_, ?_⟩
      · rw [hv, hs]; simp [joinSep]
      · intro x hx'; simp only [List.mem_cons] at hx'
        rcases hx' with rfl | hx'
        · exact hjv
        · exact hvs x (by simpa using hx')
  case case16 d s0 r0 hlen hx _ ihv =>
    simp at h; subst h
    obtain ⟨v, hv, hjv⟩ := ihv _ hx
    exact ⟨[v], by simp, by simp [joinSep, hv], by intro x hx'; simp at hx'; subst hx'; exact hjv⟩
  case case22 seen d r0 c r1 hx1 hc r2 hlen2 k hk hx2 ihv ihm =>
    obtain ⟨name, hname, hs0, htake⟩ := member_name o.strict r0 r1 c hx1
    obtain ⟨v, hv, hjv⟩ := ihv _ hx2
    obtain ⟨ms, hne, hs, hm, hkk⟩ := ihm t h
    have hkdef : k = o.key name := by simp only [k, htake]
    cases ms with
    | nil => exact absurd rfl hne
    | cons y ys =>
      refine ⟨(name, v) :: y :: ys, by simp, ?_, ?_, ?_⟩
      · rw [hs0, hc.1, hv, hs]; simp [joinSep, memberText]
      · intro x hx'; simp only [List.mem_cons] at hx'
        rcases hx' with rfl | hx'
        · exact ⟨hname, hjv⟩
        · exact hm x (by simpa using hx')
      · intro hnd
        obtain ⟨hnod, hnot⟩ := hkk hnd
        have hkseen : o.key name ∉ seen := by
          have : ¬ (seen.contains k = true) := by simpa [hnd] using hk
          rw [← hkdef]; simpa using this
        refine ⟨?_, ?_⟩
        · simp only [List.map_cons, List.nodup_cons]
          refine ⟨?_, by simpa using hnod⟩
          intro hmem
          have hmem' : o.key name ∈ (y :: ys).map (fun m => o.key m.1) := by simpa using hmem
          obtain ⟨z, hz, hze⟩ := List.mem_map.mp hmem'
          have := hnot z hz
          rw [hze, ← hkdef] at this
          exact this (by simp)
        · intro z hz; simp only [List.mem_cons] at hz
          rcases hz with rfl | hz
          · exact hkseen
          · have := hnot z (by simpa using hz)
            intro hc'; exact this (by simp [hc'])
  case case23 seen d r0 c r1 hx1 hc r2 hlen2 k hk hx2 _ ihv =>
    simp at h; subst h
    obtain ⟨name, hname, hs0, htake⟩ := member_name o.strict r0 r1 c hx1
    obtain ⟨v, hv, hjv⟩ := ihv _ hx2
    have hkdef : k = o.key name := by simp only [k, htake]
    refine ⟨[(name, v)], by simp, ?_, ?_, ?_⟩
    · rw [hs0, hc.1, hv]; simp [joinSep, memberText]
    · intro x hx'; simp at hx'; subst hx'; exact ⟨hname, hjv⟩
    · intro hnd
      have : ¬ (seen.contains k = true) := by simpa [hnd] using hk
      refine ⟨by simp, ?_⟩
      intro z hz; simp at hz; subst hz
      rw [← hkdef]; simpa using this

/-- **Soundness of the recogniser.**  What `validAt` accepts at depth `d` is a value of the RFC 8259 grammar
(slice C01's `JValue`), with strings in the selected UTF-8 mode, member names pairwise different under `o.key`
unless duplicates are allowed, nested at most `o.maxDepth` deep. -/
theorem validAt_sound (o : Opt) (d : Nat) (b : Bytes) (h : validAt o d b = true) : JV o d b := by
  have h' : parse o .value d b = some [] := by simpa [validAt] using h
  obtain ⟨v, hv, hj⟩ := parse_sound o .value d b [] h'
  simp at hv; subst hv; exact hj

theorem validValue_sound (o : Opt) (b : Bytes) (h : validValue o b = true) :
    JText (gopts o) o.maxDepth o.key b :=
  ⟨[], b, [], jws_nil, validAt_sound o 0 b (by simpa [validAt, validValue] using h), jws_nil, by simp⟩

end JsonV.Lemmas.EncInvSound
