/-
C11 lemma: the literal model of AppendQuote's loop with the Go copy-span bookkeeping (`quoteIdxLoop`: indices
`i`, `n`, lazily flushed `dst`) equals the per-character model `quoteLoop` on every input.  Core Lean only.
-/
import JsonV.Lemmas.QuoteSpec

namespace JsonV.Lemmas.QuoteSpan
open JsonV JsonV.Model.Utf8 JsonV.Model.Quote JsonV.Lemmas.QuoteUtf8 JsonV.Lemmas.QuoteL JsonV.Lemmas.QuoteSpec

theorem slice_append (src : Bytes) (i n m : Nat) (h1 : i ≤ n) (h2 : n ≤ m) :
    slice src i n ++ slice src n m = slice src i m := by
  simp only [slice]
  have : m - i = (n - i) + (m - n) := by omega
  rw [this, List.take_add, List.drop_drop]
  congr 3; omega

theorem slice_self (src : Bytes) (n : Nat) : slice src n n = [] := by simp [slice]

theorem slice_step (src : Bytes) (n k : Nat) : slice src n (n + k) = (src.drop n).take k := by
  simp [slice]

theorem quoteLoop_cons (html js : Bool) (c : UInt8) (t : Bytes) :
    quoteLoop html js (c :: t) =
      ((quoteStep html js c t).1 ++ (quoteLoop html js ((c :: t).drop (quoteStep html js c t).2.1)).1,
       (quoteStep html js c t).2.2 || (quoteLoop html js ((c :: t).drop (quoteStep html js c t).2.1)).2) := by
  rw [quoteLoop]

/-- The index loop, started anywhere with a pending span `src[i:n]`, finishes like the per-character loop. -/
theorem quoteIdxLoop_eq (html js : Bool) (src : Bytes) (fuel i n : Nat) (dst : Bytes) (inv : Bool)
    (hin : i ≤ n) (hn : n ≤ src.length) (hf : src.length - n ≤ fuel) :
    quoteIdxLoop html js src fuel i n dst inv =
      (dst ++ slice src i n ++ (quoteLoop html js (src.drop n)).1, inv || (quoteLoop html js (src.drop n)).2) := by
  induction fuel generalizing i n dst inv with
  | zero =>
    have : src.drop n = [] := List.drop_eq_nil_of_le (by omega)
    simp [quoteIdxLoop, this, quoteLoop]
  | succ fuel ih =>
    rw [quoteIdxLoop]
    cases hd : src.drop n with
    | nil => simp [quoteLoop]
    | cons c t =>
      have hlen : n < src.length := by
        rcases Nat.lt_or_ge n src.length with h | h
        · exact h
        · have : src.drop n = [] := List.drop_eq_nil_of_le h
          rw [this] at hd; cases hd
      have hdrop : ∀ k, src.drop (n + k) = (c :: t).drop k := by
        intro k; rw [← hd, List.drop_drop]
      have htake : ∀ k, slice src n (n + k) = (c :: t).take k := by
        intro k; rw [slice_step, hd]
      rw [quoteLoop_cons]
      have hp := decodeRune_pos c t
      have hle : (decodeRune (c :: t)).2 ≤ (c :: t).length := decodeRune_le _
      have hlen2 : (c :: t).length = src.length - n := by rw [← hd]; simp
      simp only
      by_cases h0 : c.toNat < runeSelf
      · simp only [h0, ↓reduceIte, quoteStep]
        by_cases he : escapeASCII c.toNat = 0
        · simp only [he, ↓reduceIte]
          rw [ih i (n + 1) dst inv (by omega) (by omega) (by omega), hdrop 1,
            ← slice_append src i n (n + 1) hin (by omega), htake 1]
          simp
        · simp only [he, ↓reduceIte]
          by_cases hh : (!isHTMLChar c.toNat || html) = true
          · simp only [hh, ↓reduceIte]
            rw [ih (n + 1) (n + 1) _ inv (by omega) (by omega) (by omega), hdrop 1, slice_self]
            simp
          · simp only [hh, Bool.false_eq_true, ↓reduceIte]
            rw [ih i (n + 1) dst inv (by omega) (by omega) (by omega), hdrop 1,
              ← slice_append src i n (n + 1) hin (by omega), htake 1]
            simp
      · simp only [h0, ↓reduceIte, quoteStep]
        by_cases h1 : (decodeRune (c :: t)).1 ≠ runeError ∧ (decodeRune (c :: t)).1 ≠ 0x2028 ∧ (decodeRune (c :: t)).1 ≠ 0x2029
        · rw [if_pos h1, if_pos h1]
          rw [ih i (n + (decodeRune (c :: t)).2) dst inv (by omega) (by omega) (by omega), hdrop,
            ← slice_append src i n (n + (decodeRune (c :: t)).2) hin (by omega), htake]
          simp
        · rw [if_neg h1, if_neg h1]
          by_cases h2 : isInvalidUTF8 (decodeRune (c :: t)).1 (decodeRune (c :: t)).2 = true
          · simp only [h2, ↓reduceIte]
            rw [ih _ _ _ _ (Nat.le_refl _) (by omega) (by omega), hdrop, slice_self]
            simp
          · simp only [h2, Bool.false_eq_true, ↓reduceIte]
            by_cases h3 : ((decodeRune (c :: t)).1 = 0x2028 ∨ (decodeRune (c :: t)).1 = 0x2029) ∧ js = true
            · rw [if_pos h3, if_pos h3]
              rw [ih _ _ _ _ (Nat.le_refl _) (by omega) (by omega), hdrop, slice_self]
              simp
            · rw [if_neg h3, if_neg h3]
              rw [ih i (n + (decodeRune (c :: t)).2) dst inv (by omega) (by omega) (by omega), hdrop,
                ← slice_append src i n (n + (decodeRune (c :: t)).2) hin (by omega), htake]
              simp

/-- AppendQuote with the copy-span bookkeeping of the Go code equals the per-character model, on every input. -/
theorem appendQuoteIdx_eq (f : QFlags) (src : Bytes) : appendQuoteIdx f src = appendQuote f src := by
  simp only [appendQuoteIdx, appendQuote]
  rw [quoteIdxLoop_eq f.html f.js src src.length 0 0 [0x22] false (Nat.le_refl _) (Nat.zero_le _) (by omega)]
  simp [slice_self]

end JsonV.Lemmas.QuoteSpan
