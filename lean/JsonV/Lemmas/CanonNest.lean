/-
The token grammar of C12 (`accepts`) on the tokens of a tree: a tree whose atoms are scalars is accepted exactly
when no container is opened beyond the nesting limit.
-/
import JsonV.Model.Canon
import JsonV.Lemmas.FormatCompact

namespace JsonV.Lemmas.CanonNest
open JsonV JsonV.Fmt JsonV.Canon

def isStrT : JV → Bool
  | .atom (.str _) => true
  | _ => false

def atomOK : Tok → Bool
  | .bo | .eo | .ba | .ea => false
  | _ => true

mutual
/-- Every atom is a scalar token (never a bracket). -/
def AtomsOK : JV → Bool
  | .atom k => atomOK k
  | .arr es => AtomsOKL es
  | .obj ms => AtomsOKM ms
def AtomsOKL : List JV → Bool
  | [] => true
  | e :: es => AtomsOK e && AtomsOKL es
def AtomsOKM : List (Bytes × JV) → Bool
  | [] => true
  | (_, v) :: ms => AtomsOK v && AtomsOKM ms
end

mutual
/-- With `d` containers already open, no container of the tree is opened at depth ≥ `maxDepth`. -/
def depthOK : JV → Nat → Bool
  | .atom _, _ => true
  | .arr es, d => decide (d < maxDepth) && depthOKL es (d + 1)
  | .obj ms, d => decide (d < maxDepth) && depthOKM ms (d + 1)
def depthOKL : List JV → Nat → Bool
  | [], _ => true
  | e :: es, d => depthOK e d && depthOKL es d
def depthOKM : List (Bytes × JV) → Nat → Bool
  | [], _ => true
  | (_, v) :: ms, d => depthOK v d && depthOKM ms d
end

theorem accepts_cons_eq (st : Stack) (k : Tok) (ts : List Tok) :
    accepts st (k :: ts) = ((step st k).map (fun p => accepts p.2 ts)).getD false := by
  simp only [accepts]
  cases step st k with
  | none => rfl
  | some p => rfl

/-- one scalar token in context `f :: s` -/
theorem accepts_scalar (f : Fr) (s : Stack) (k : Tok) (hk : atomOK k = true) (rest : List Tok) :
    accepts (f :: s) (k :: rest) =
      ((f.value k.isStr).map (fun p => accepts (p.2 :: s) rest)).getD false := by
  rw [accepts_cons_eq]
  cases k with
  | bo => simp [atomOK] at hk
  | eo => simp [atomOK] at hk
  | ba => simp [atomOK] at hk
  | ea => simp [atomOK] at hk
  | str raw => simp only [step, Tok.isStr]; cases f.value true <;> rfl
  | num raw => simp only [step, Tok.isStr]; cases f.value false <;> rfl
  | null => simp only [step, Tok.isStr]; cases f.value false <;> rfl
  | tru => simp only [step, Tok.isStr]; cases f.value false <;> rfl
  | fls => simp only [step, Tok.isStr]; cases f.value false <;> rfl

mutual
theorem accV : ∀ (t : JV), AtomsOK t = true → ∀ (f : Fr) (s : Stack) (rest : List Tok),
    accepts (f :: s) (t.toks ++ rest) =
      ((f.value (isStrT t)).map (fun p => depthOK t s.length && accepts (p.2 :: s) rest)).getD false
  | .atom k, h, f, s, rest => by
    simp only [AtomsOK] at h
    simp only [JV.toks, List.singleton_append, depthOK, Bool.true_and]
    rw [accepts_scalar f s k h rest]
    have : isStrT (.atom k) = k.isStr := by cases k <;> rfl
    rw [this]
  | .arr es, h, f, s, rest => by
    simp only [AtomsOK] at h
    have e : (JV.arr es).toks ++ rest = Tok.ba :: (toksL es ++ Tok.ea :: rest) := by simp [JV.toks]
    rw [e, accepts_cons_eq]
    simp only [step, isStrT, depthOK]
    cases hv : f.value false with
    | none => rfl
    | some p =>
      obtain ⟨d, f'⟩ := p
      simp only []
      by_cases hd : s.length < maxDepth
      · simp only [hd, if_true, decide_true, Bool.true_and, Option.map_some, Option.getD_some]
        rw [accL es h .arr0 (f' :: s) rest (Or.inl rfl)]
        simp
      · simp [hd]
  | .obj ms, h, f, s, rest => by
    simp only [AtomsOK] at h
    have e : (JV.obj ms).toks ++ rest = Tok.bo :: (toksM ms ++ Tok.eo :: rest) := by simp [JV.toks]
    rw [e, accepts_cons_eq]
    simp only [step, isStrT, depthOK]
    cases hv : f.value false with
    | none => rfl
    | some p =>
      obtain ⟨d, f'⟩ := p
      simp only []
      by_cases hd : s.length < maxDepth
      · simp only [hd, if_true, decide_true, Bool.true_and, Option.map_some, Option.getD_some]
        rw [accM ms h .obj0 (f' :: s) rest (Or.inl rfl)]
        simp
      · simp [hd]
theorem accL : ∀ (es : List JV), AtomsOKL es = true → ∀ (g : Fr) (s : Stack) (rest : List Tok), (g = .arr0 ∨ g = .arrN) →
    accepts (g :: s) (toksL es ++ Tok.ea :: rest) = (depthOKL es s.length && accepts s rest)
  | [], _, g, s, rest, hg => by
    simp only [toksL, List.nil_append, depthOKL, Bool.true_and]
    rw [accepts_cons_eq]
    simp [step, hg]
  | e :: es, h, g, s, rest, hg => by
    simp only [AtomsOKL, Bool.and_eq_true] at h
    have e1 : toksL (e :: es) ++ Tok.ea :: rest = e.toks ++ (toksL es ++ Tok.ea :: rest) := by simp [toksL]
    rw [e1, accV e h.1 g s _]
    have hv : g.value (isStrT e) = some (if g = .arr0 then none else some Delim.comma, .arrN) := by
      rcases hg with rfl | rfl <;> simp [Fr.value]
    rw [hv]
    simp only [depthOKL, Option.map_some, Option.getD_some]
    rw [accL es h.2 .arrN s rest (Or.inr rfl), Bool.and_assoc]
theorem accM : ∀ (ms : List (Bytes × JV)), AtomsOKM ms = true → ∀ (g : Fr) (s : Stack) (rest : List Tok), (g = .obj0 ∨ g = .objV) →
    accepts (g :: s) (toksM ms ++ Tok.eo :: rest) = (depthOKM ms s.length && accepts s rest)
  | [], _, g, s, rest, hg => by
    simp only [toksM, List.nil_append, depthOKM, Bool.true_and]
    rw [accepts_cons_eq]
    simp [step, hg]
  | (n, v) :: ms, h, g, s, rest, hg => by
    simp only [AtomsOKM, Bool.and_eq_true] at h
    have e1 : toksM ((n, v) :: ms) ++ Tok.eo :: rest = Tok.str n :: (v.toks ++ (toksM ms ++ Tok.eo :: rest)) := by
      simp [toksM]
    rw [e1, accepts_cons_eq]
    have hs : step (g :: s) (Tok.str n) = some (if g = .obj0 then none else some Delim.comma, .objK :: s) := by
      rcases hg with rfl | rfl <;> simp [step, Fr.value]
    rw [hs]
    simp only [Option.map_some, Option.getD_some]
    rw [accV v h.1 .objK s _]
    have hv : Fr.objK.value (isStrT v) = some (some Delim.colon, .objV) := by simp [Fr.value]
    rw [hv]
    simp only [depthOKM, Option.map_some, Option.getD_some]
    rw [accM ms h.2 .objV s rest (Or.inr rfl), Bool.and_assoc]
end

/-- A tree of scalars is accepted as one JSON value exactly when its nesting stays within the limit. -/
theorem accepts_tree (t : JV) (h : AtomsOK t = true) : accepts [.top0] t.toks = depthOK t 0 := by
  have := accV t h .top0 [] []
  simp only [List.append_nil, Fr.value, List.length_nil] at this
  rw [this]
  simp [accepts]

end JsonV.Lemmas.CanonNest
