/-
Lemmas for C17 (dispatch order): the composed wrappers of `Model/Dispatch.lean` evaluate to the
documented first-applicable order.
-/
import JsonV.Model.Dispatch

namespace JsonV.Lemmas.DispatchL
open JsonV.Model JsonV.Model.Dispatch

/-! ### typedArshalers.lookup -/

theorem callFns_collect (isBase implI : Bool) (beh : Behav) (ctx : Ctx) (fnc : Arshaler) (fns : List FnSpec) :
    callFns beh ctx fnc (collect isBase implI fns) =
      documentedFns isBase implI beh ctx.lvl ctx.m (fnc ctx) fns := by
  induction fns with
  | nil => simp [collect, callFns, documentedFns]
  | cons f fs ih =>
    unfold collect documentedFns
    by_cases hc : castableTo isBase implI f.target = true
    · by_cases hs : f.maySkip = true
      · simp only [hc, hs, Bool.not_true, Bool.false_eq_true, ↓reduceIte, callFns, fnResult, Bool.false_and]
        cases beh (Cand.fn f.id ctx.lvl) ctx.m <;> simp [ih]
      · have hs' : f.maySkip = false := by simpa using hs
        simp only [hc, hs', Bool.not_true, Bool.not_false, Bool.false_eq_true, ↓reduceIte, callFns, fnResult, Bool.true_and]
        cases beh (Cand.fn f.id ctx.lvl) ctx.m <;> simp
    · have hc' : castableTo isBase implI f.target = false := by simpa using hc
      simp only [hc', Bool.not_false, ↓reduceIte]
      exact ih

/-- `lookup` = functions in list order, a non-skippable applicable function ends the search, then `fnc`. -/
theorem lookup_eq (fns : List FnSpec) (isBase implI : Bool) (beh : Behav) (fnc : Arshaler) (ctx : Ctx) :
    lookup fns isBase implI beh fnc ctx = documentedFns isBase implI beh ctx.lvl ctx.m (fnc ctx) fns := by
  rw [← callFns_collect]
  unfold lookup
  by_cases he : (collect isBase implI fns).isEmpty = true
  · simp only [he, ↓reduceIte]
    have : collect isBase implI fns = [] := by simpa using he
    simp [this, callFns]
  · simp [he]

/-! ### makeMethodArshaler under default options (`CallMethodsWithLegacySemantics` off) -/

theorem wrapMarshalText_eq (r : Recv) (beh : Behav) (prev : Arshaler) (ctx : Ctx) (h : ctx.legacy = false) :
    wrapMarshalText r beh prev ctx = tryMeth r .tx false beh ctx.lvl ctx.m (prev ctx) := by
  cases r <;> simp [wrapMarshalText, tryMeth, Recv.implements, Recv.present, h, callFinal, Outcome.won, Outcome.failed] <;>
    cases beh (Cand.meth Meth.tx ctx.lvl) ctx.m <;> rfl

theorem wrapAppendText_eq (r : Recv) (beh : Behav) (prev : Arshaler) (ctx : Ctx) (h : ctx.legacy = false) :
    wrapAppendText r beh prev ctx = tryMeth r .ap false beh ctx.lvl ctx.m (prev ctx) := by
  cases r <;> simp [wrapAppendText, tryMeth, Recv.implements, Recv.present, h, callFinal, Outcome.won, Outcome.failed] <;>
    cases beh (Cand.meth Meth.ap ctx.lvl) ctx.m <;> rfl

theorem wrapMarshalJSON_eq (r : Recv) (beh : Behav) (prev : Arshaler) (ctx : Ctx) (h : ctx.legacy = false) :
    wrapMarshalJSON r beh prev ctx = tryMeth r .js false beh ctx.lvl ctx.m (prev ctx) := by
  cases r <;> simp [wrapMarshalJSON, tryMeth, Recv.implements, Recv.present, h, callFinal, Outcome.won, Outcome.failed] <;>
    cases beh (Cand.meth Meth.js ctx.lvl) ctx.m <;> rfl

theorem wrapMarshalJSONTo_eq (r : Recv) (beh : Behav) (prev : Arshaler) (ctx : Ctx) (h : ctx.legacy = false) :
    wrapMarshalJSONTo r beh prev ctx = tryMeth r .to true beh ctx.lvl ctx.m (prev ctx) := by
  cases r <;> simp [wrapMarshalJSONTo, tryMeth, Recv.implements, Recv.present, h, callOrPrev, Outcome.won, Outcome.failed] <;>
    cases beh (Cand.meth Meth.to ctx.lvl) ctx.m <;> rfl

/-- The four marshal wrappers, composed in the order of the Go code, are the documented method order. -/
theorem makeMethodMarshaler_named (ms : MethodSet) (beh : Behav) (fncs : Arshaler) (ctx : Ctx) (h : ctx.legacy = false) :
    makeMethodMarshaler .named ms beh fncs ctx = documentedMethodsM ms beh ctx.lvl ctx.m (fncs ctx) := by
  simp only [makeMethodMarshaler, documentedMethodsM, reduceCtorEq, or_self, ↓reduceIte]
  rw [wrapMarshalJSONTo_eq _ _ _ _ h, wrapMarshalJSON_eq _ _ _ _ h, wrapAppendText_eq _ _ _ _ h, wrapMarshalText_eq _ _ _ _ h]

theorem makeMethodMarshaler_ptr (ms : MethodSet) (beh : Behav) (fncs : Arshaler) :
    makeMethodMarshaler .pointer ms beh fncs = fncs := by simp [makeMethodMarshaler]

theorem makeMethodMarshaler_iface (ms : MethodSet) (beh : Behav) (fncs : Arshaler) :
    makeMethodMarshaler .iface ms beh fncs = fncs := by simp [makeMethodMarshaler]

theorem documentedMethodsM_none (beh : Behav) (lvl : Nat) (m : Machine) (d : Outcome) :
    documentedMethodsM {} beh lvl m d = d := by
  simp [documentedMethodsM, tryMeth, Recv.present]

theorem wrapUnmarshalText_eq (r : Recv) (beh : Behav) (prev : Arshaler) (ctx : Ctx) :
    wrapUnmarshalText r beh prev ctx = tryUText r beh ctx.lvl ctx.m ctx.inNull ctx.inStr (prev ctx) := by
  cases r <;> simp [wrapUnmarshalText, tryUText, Recv.implements, Recv.present, Outcome.error]

theorem wrapUnmarshalJSON_eq (r : Recv) (beh : Behav) (prev : Arshaler) (ctx : Ctx) (h : ctx.legacy = false) :
    wrapUnmarshalJSON r beh prev ctx = tryMeth r .uj false beh ctx.lvl ctx.m (prev ctx) := by
  cases r <;> simp [wrapUnmarshalJSON, tryMeth, Recv.implements, Recv.present, h, callFinal, Outcome.won, Outcome.failed] <;>
    cases beh (Cand.meth Meth.uj ctx.lvl) ctx.m <;> rfl

theorem wrapUnmarshalJSONFrom_eq (r : Recv) (beh : Behav) (prev : Arshaler) (ctx : Ctx) (h : ctx.legacy = false) :
    wrapUnmarshalJSONFrom r beh prev ctx = tryMeth r .frm true beh ctx.lvl ctx.m (prev ctx) := by
  cases r <;> simp [wrapUnmarshalJSONFrom, tryMeth, Recv.implements, Recv.present, h, callOrPrev, Outcome.won, Outcome.failed] <;>
    cases beh (Cand.meth Meth.frm ctx.lvl) ctx.m <;> rfl

theorem makeMethodUnmarshaler_named (ms : UMethodSet) (beh : Behav) (fncs : Arshaler) (ctx : Ctx) (h : ctx.legacy = false) :
    makeMethodUnmarshaler .named ms beh fncs ctx =
      documentedMethodsU ms beh ctx.lvl ctx.m ctx.inNull ctx.inStr (fncs ctx) := by
  simp only [makeMethodUnmarshaler, documentedMethodsU, reduceCtorEq, or_self, ↓reduceIte]
  rw [wrapUnmarshalJSONFrom_eq _ _ _ _ h, wrapUnmarshalJSON_eq _ _ _ _ h, wrapUnmarshalText_eq]

theorem makeMethodUnmarshaler_ptr (ms : UMethodSet) (beh : Behav) (fncs : Arshaler) :
    makeMethodUnmarshaler .pointer ms beh fncs = fncs := by simp [makeMethodUnmarshaler]

theorem makeMethodUnmarshaler_iface (ms : UMethodSet) (beh : Behav) (fncs : Arshaler) :
    makeMethodUnmarshaler .iface ms beh fncs = fncs := by simp [makeMethodUnmarshaler]

theorem documentedMethodsU_none (beh : Behav) (lvl : Nat) (m : Machine) (a b : Bool) (d : Outcome) :
    documentedMethodsU {} beh lvl m a b d = d := by
  simp [documentedMethodsU, tryMeth, tryUText, Recv.present]

/-! ### Whole paths -/

theorem marshalLevels_eq_documented (maxDepth : Nat) (ms : MethodSet) (fns : List FnSpec) (beh : Behav)
    (levels : List Level) : ∀ (i : Nat) (m : Machine),
    marshalLevels maxDepth ms fns beh false levels i m = documentedMarshal maxDepth ms fns beh levels i m := by
  induction levels with
  | nil => intro i m; simp [marshalLevels, documentedMarshal]
  | cons l rest ih =>
    intro i m
    unfold marshalLevels documentedMarshal
    simp only [lookup_eq]
    congr 1
    cases hk : l.kind with
    | base =>
      simp only [Level.tkind, Level.methodsM, hk]
      rw [makeMethodMarshaler_named _ _ _ _ rfl]
    | ptr =>
      simp only [Level.tkind, hk, makeMethodMarshaler_ptr, ih]
    | iface =>
      simp only [Level.tkind, hk, makeMethodMarshaler_iface, ih]
    | cont =>
      simp only [Level.tkind, Level.methodsM, hk]
      rw [makeMethodMarshaler_named _ _ _ _ rfl, documentedMethodsM_none]
      simp only [ih]

theorem unmarshalLevels_eq_documented (maxDepth : Nat) (ms : UMethodSet) (fns : List FnSpec) (beh : Behav)
    (levels : List Level) : ∀ (i : Nat) (m : Machine),
    unmarshalLevels maxDepth ms fns beh false levels i m = documentedUnmarshal maxDepth ms fns beh levels i m := by
  induction levels with
  | nil => intro i m; simp [unmarshalLevels, documentedUnmarshal]
  | cons l rest ih =>
    intro i m
    unfold unmarshalLevels documentedUnmarshal
    simp only [lookup_eq]
    congr 1
    cases hk : l.kind with
    | base =>
      simp only [Level.tkind, Level.methodsU, hk]
      rw [makeMethodUnmarshaler_named _ _ _ _ rfl]
    | ptr =>
      simp only [Level.tkind, hk, makeMethodUnmarshaler_ptr, ih]
    | iface =>
      simp only [Level.tkind, hk, makeMethodUnmarshaler_iface, ih]
    | cont =>
      simp only [Level.tkind, Level.methodsU, hk]
      rw [makeMethodUnmarshaler_named _ _ _ _ rfl, documentedMethodsU_none]
      simp only [ih]

/-! ### Who can appear in a trace -/

theorem mem_documentedFns (isBase implI : Bool) (beh : Behav) (lvl : Nat) (m : Machine) (rest : Outcome) (fns : List FnSpec) :
    ∀ c ∈ (documentedFns isBase implI beh lvl m rest fns).trace, c ∈ rest.trace ∨ ∃ id, c = .fn id lvl := by
  induction fns with
  | nil => intro c hc; exact Or.inl hc
  | cons f fs ih =>
    intro c hc
    unfold documentedFns at hc
    split at hc
    · exact ih c hc
    · split at hc
      · simp only [Outcome.won, List.mem_singleton] at hc; exact Or.inr ⟨_, hc⟩
      · simp only [Outcome.failed, List.mem_singleton] at hc; exact Or.inr ⟨_, hc⟩
      · split at hc
        · simp only [Outcome.after, List.mem_cons] at hc
          rcases hc with h | h
          · exact Or.inr ⟨_, h⟩
          · exact ih c h
        · simp only [Outcome.failed, List.mem_singleton] at hc; exact Or.inr ⟨_, hc⟩

theorem mem_callFinal (r : CallResult) (c0 c : Cand) (h : c ∈ (callFinal r c0).trace) : c = c0 := by
  cases r <;> simpa [callFinal, Outcome.won, Outcome.failed] using h

theorem mem_callOrPrev (r : CallResult) (c0 c : Cand) (prev : Outcome) (h : c ∈ (callOrPrev r c0 prev).trace) :
    c = c0 ∨ c ∈ prev.trace := by
  cases r <;> simp [callOrPrev, Outcome.won, Outcome.failed, Outcome.after] at h
  · exact Or.inl h
  · exact h
  · exact Or.inl h

theorem mem_wrapMarshalText (r : Recv) (beh : Behav) (prev : Arshaler) (ctx : Ctx) :
    ∀ c ∈ (wrapMarshalText r beh prev ctx).trace, c ∈ (prev ctx).trace ∨ ∃ k, c = .meth k ctx.lvl := by
  intro c hc
  unfold wrapMarshalText at hc
  split at hc
  · exact Or.inl hc
  · dsimp only at hc
    split at hc
    · exact Or.inl hc
    · exact Or.inr ⟨_, mem_callFinal _ _ _ hc⟩

theorem mem_wrapAppendText (r : Recv) (beh : Behav) (prev : Arshaler) (ctx : Ctx) :
    ∀ c ∈ (wrapAppendText r beh prev ctx).trace, c ∈ (prev ctx).trace ∨ ∃ k, c = .meth k ctx.lvl := by
  intro c hc
  unfold wrapAppendText at hc
  split at hc
  · exact Or.inl hc
  · dsimp only at hc
    split at hc
    · exact Or.inl hc
    · exact Or.inr ⟨_, mem_callFinal _ _ _ hc⟩

theorem mem_wrapMarshalJSON (r : Recv) (beh : Behav) (prev : Arshaler) (ctx : Ctx) :
    ∀ c ∈ (wrapMarshalJSON r beh prev ctx).trace, c ∈ (prev ctx).trace ∨ ∃ k, c = .meth k ctx.lvl := by
  intro c hc
  unfold wrapMarshalJSON at hc
  split at hc
  · exact Or.inl hc
  · dsimp only at hc
    split at hc
    · exact Or.inl hc
    · exact Or.inr ⟨_, mem_callFinal _ _ _ hc⟩

theorem mem_wrapMarshalJSONTo (r : Recv) (beh : Behav) (prev : Arshaler) (ctx : Ctx) :
    ∀ c ∈ (wrapMarshalJSONTo r beh prev ctx).trace, c ∈ (prev ctx).trace ∨ ∃ k, c = .meth k ctx.lvl := by
  intro c hc
  unfold wrapMarshalJSONTo at hc
  split at hc
  · exact Or.inl hc
  · dsimp only at hc
    split at hc
    · exact Or.inl hc
    · rcases mem_callOrPrev _ _ _ _ hc with h | h
      · exact Or.inr ⟨_, h⟩
      · exact Or.inl h

/-- Whatever the options: an invocation made by the method arshaler of a named type is a method at this level. -/
theorem mem_makeMethodMarshaler (k : TKind) (ms : MethodSet) (beh : Behav) (fncs : Arshaler) (ctx : Ctx) :
    ∀ c ∈ (makeMethodMarshaler k ms beh fncs ctx).trace,
      c ∈ (fncs ctx).trace ∨ (k = .named ∧ ∃ mk, c = .meth mk ctx.lvl) := by
  intro c hc
  unfold makeMethodMarshaler at hc
  split at hc
  · exact Or.inl hc
  · rename_i hk
    have hn : k = .named := by cases k <;> simp_all
    rcases mem_wrapMarshalJSONTo _ _ _ _ c hc with h | h
    · rcases mem_wrapMarshalJSON _ _ _ _ c h with h | h
      · rcases mem_wrapAppendText _ _ _ _ c h with h | h
        · rcases mem_wrapMarshalText _ _ _ _ c h with h | h
          · exact Or.inl h
          · exact Or.inr ⟨hn, h⟩
        · exact Or.inr ⟨hn, h⟩
      · exact Or.inr ⟨hn, h⟩
    · exact Or.inr ⟨hn, h⟩

theorem makeMethodMarshaler_noMethods (k : TKind) (beh : Behav) (fncs : Arshaler) :
    makeMethodMarshaler k {} beh fncs = fncs := by
  unfold makeMethodMarshaler
  split
  · rfl
  · simp [wrapMarshalJSONTo, wrapMarshalJSON, wrapAppendText, wrapMarshalText, Recv.implements]

/-- A method invocation `c` recorded while handling `levels` (whose first level has index `i`) happens at a level
that is the type `T` itself. -/
def MethAtBase (levels : List Level) (i : Nat) (c : Cand) : Prop :=
  ∀ k l, c = .meth k l → i ≤ l ∧ ∃ lv, levels[l - i]? = some lv ∧ lv.kind = .base

theorem MethAtBase.cons {l : Level} {rest : List Level} {i : Nat} {c : Cand} (h : MethAtBase rest (i + 1) c) :
    MethAtBase (l :: rest) i c := by
  intro k l' hc
  obtain ⟨hle, lv, hlv, hb⟩ := h k l' hc
  refine ⟨by omega, lv, ?_, hb⟩
  have : l' - i = (l' - (i + 1)) + 1 := by omega
  rw [this, List.getElem?_cons_succ]
  exact hlv

theorem marshal_methods_at_base (maxDepth : Nat) (ms : MethodSet) (fns : List FnSpec) (beh : Behav) (legacy : Bool)
    (levels : List Level) : ∀ (i : Nat) (m : Machine),
    ∀ c ∈ (marshalLevels maxDepth ms fns beh legacy levels i m).trace, MethAtBase levels i c := by
  induction levels with
  | nil => intro i m c hc; simp [marshalLevels] at hc
  | cons l rest ih =>
    intro i m c hc
    unfold marshalLevels at hc
    simp only [lookup_eq] at hc
    rcases mem_documentedFns _ _ _ _ _ _ _ c hc with h | ⟨id, h⟩
    · cases hkind : l.kind with
      | base =>
        rcases mem_makeMethodMarshaler _ _ _ _ _ c h with h | ⟨_, mk, h⟩
        · simp only [hkind] at h
          split at h <;> simp [Outcome.error] at h
        · intro k l' hc'
          rw [h] at hc'
          cases hc'
          exact ⟨Nat.le_refl _, l, by simp, hkind⟩
      | ptr =>
        simp only [Level.tkind, hkind, makeMethodMarshaler_ptr] at h
        split at h
        · split at h <;> simp [Outcome.error] at h
        · exact (ih _ _ c h).cons
      | iface =>
        simp only [Level.tkind, hkind, makeMethodMarshaler_iface] at h
        split at h
        · split at h <;> simp [Outcome.error] at h
        · exact (ih _ _ c h).cons
      | cont =>
        have hno : l.methodsM ms = {} := by simp [Level.methodsM, hkind]
        rw [hno, makeMethodMarshaler_noMethods] at h
        simp only [hkind] at h
        split at h
        · split at h
          · simp at h
          · exact (ih _ _ c h).cons
        · simp [Outcome.error] at h
    · intro k l' hc'
      rw [h] at hc'
      cases hc'

/-! ### The same for the unmarshal half -/

theorem mem_wrapUnmarshalText (r : Recv) (beh : Behav) (prev : Arshaler) (ctx : Ctx) :
    ∀ c ∈ (wrapUnmarshalText r beh prev ctx).trace, c ∈ (prev ctx).trace ∨ ∃ k, c = .meth k ctx.lvl := by
  intro c hc
  unfold wrapUnmarshalText at hc
  split at hc
  · exact Or.inl hc
  · dsimp only at hc
    split at hc
    · simp at hc
    · split at hc
      · simp [Outcome.error] at hc
      · exact Or.inr ⟨_, mem_callFinal _ _ _ hc⟩

theorem mem_wrapUnmarshalJSON (r : Recv) (beh : Behav) (prev : Arshaler) (ctx : Ctx) :
    ∀ c ∈ (wrapUnmarshalJSON r beh prev ctx).trace, c ∈ (prev ctx).trace ∨ ∃ k, c = .meth k ctx.lvl := by
  intro c hc
  unfold wrapUnmarshalJSON at hc
  split at hc
  · exact Or.inl hc
  · dsimp only at hc
    split at hc
    · exact Or.inl hc
    · exact Or.inr ⟨_, mem_callFinal _ _ _ hc⟩

theorem mem_wrapUnmarshalJSONFrom (r : Recv) (beh : Behav) (prev : Arshaler) (ctx : Ctx) :
    ∀ c ∈ (wrapUnmarshalJSONFrom r beh prev ctx).trace, c ∈ (prev ctx).trace ∨ ∃ k, c = .meth k ctx.lvl := by
  intro c hc
  unfold wrapUnmarshalJSONFrom at hc
  split at hc
  · exact Or.inl hc
  · dsimp only at hc
    split at hc
    · exact Or.inl hc
    · rcases mem_callOrPrev _ _ _ _ hc with h | h
      · exact Or.inr ⟨_, h⟩
      · exact Or.inl h

theorem mem_makeMethodUnmarshaler (k : TKind) (ms : UMethodSet) (beh : Behav) (fncs : Arshaler) (ctx : Ctx) :
    ∀ c ∈ (makeMethodUnmarshaler k ms beh fncs ctx).trace,
      c ∈ (fncs ctx).trace ∨ (k = .named ∧ ∃ mk, c = .meth mk ctx.lvl) := by
  intro c hc
  unfold makeMethodUnmarshaler at hc
  split at hc
  · exact Or.inl hc
  · rename_i hk
    have hn : k = .named := by cases k <;> simp_all
    rcases mem_wrapUnmarshalJSONFrom _ _ _ _ c hc with h | h
    · rcases mem_wrapUnmarshalJSON _ _ _ _ c h with h | h
      · rcases mem_wrapUnmarshalText _ _ _ _ c h with h | h
        · exact Or.inl h
        · exact Or.inr ⟨hn, h⟩
      · exact Or.inr ⟨hn, h⟩
    · exact Or.inr ⟨hn, h⟩

theorem makeMethodUnmarshaler_noMethods (k : TKind) (beh : Behav) (fncs : Arshaler) :
    makeMethodUnmarshaler k {} beh fncs = fncs := by
  unfold makeMethodUnmarshaler
  split
  · rfl
  · simp [wrapUnmarshalJSONFrom, wrapUnmarshalJSON, wrapUnmarshalText, Recv.implements]

theorem unmarshal_methods_at_base (maxDepth : Nat) (ms : UMethodSet) (fns : List FnSpec) (beh : Behav) (legacy : Bool)
    (levels : List Level) : ∀ (i : Nat) (m : Machine),
    ∀ c ∈ (unmarshalLevels maxDepth ms fns beh legacy levels i m).trace, MethAtBase levels i c := by
  induction levels with
  | nil => intro i m c hc; simp [unmarshalLevels, Outcome.error] at hc
  | cons l rest ih =>
    intro i m c hc
    unfold unmarshalLevels at hc
    simp only [lookup_eq] at hc
    rcases mem_documentedFns _ _ _ _ _ _ _ c hc with h | ⟨id, h⟩
    · cases hkind : l.kind with
      | base =>
        rcases mem_makeMethodUnmarshaler _ _ _ _ _ c h with h | ⟨_, mk, h⟩
        · simp only [hkind] at h
          split at h <;> simp [Outcome.error] at h
        · intro k l' hc'
          rw [h] at hc'
          cases hc'
          exact ⟨Nat.le_refl _, l, by simp, hkind⟩
      | ptr =>
        simp only [Level.tkind, hkind, makeMethodUnmarshaler_ptr] at h
        split at h
        · simp at h
        · exact (ih _ _ c h).cons
      | iface =>
        simp only [Level.tkind, hkind, makeMethodUnmarshaler_iface] at h
        split at h
        · simp at h
        · exact (ih _ _ c h).cons
      | cont =>
        have hno : l.methodsU ms = {} := by simp [Level.methodsU, hkind]
        rw [hno, makeMethodUnmarshaler_noMethods] at h
        simp only [hkind] at h
        split at h
        · exact (ih _ _ c h).cons
        · simp [Outcome.error] at h
    · intro k l' hc'
      rw [h] at hc'
      cases hc'

/-! ### Small helpers used by Props/C17 -/

def setForced (b : Bool) (l : Level) : Level := { l with forcedAddr := b }

theorem documentedMarshal_forced (maxDepth : Nat) (ms : MethodSet) (fns : List FnSpec) (beh : Behav) (b : Bool)
    (levels : List Level) : ∀ (i : Nat) (m : Machine),
    documentedMarshal maxDepth ms fns beh (levels.map (setForced b)) i m = documentedMarshal maxDepth ms fns beh levels i m := by
  induction levels with
  | nil => intro i m; rfl
  | cons l rest ih =>
    intro i m
    cases l with
    | mk kind isNil pre dfltOk forced inNull inStr =>
      simp only [List.map_cons, setForced]
      unfold documentedMarshal
      simp only [Level.isBase, ih]

theorem tryMeth_skip (r : Recv) (k : Meth) (beh : Behav) (lvl : Nat) (m : Machine) (next : Outcome)
    (hp : r.present = true) (hb : beh (.meth k lvl) m = .skip) :
    tryMeth r k true beh lvl m next = next.after (.meth k lvl) := by
  simp [tryMeth, hp, hb]

theorem tryMeth_absent (k : Meth) (s : Bool) (beh : Behav) (lvl : Nat) (m : Machine) (next : Outcome) :
    tryMeth .absent k s beh lvl m next = next := by
  simp [tryMeth, Recv.present]

end JsonV.Lemmas.DispatchL
