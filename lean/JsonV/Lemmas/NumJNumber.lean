/-
C10 glue: the number texts this slice produces or accepts are numbers of the C01 grammar
(`Spec.Grammar.JNumber`, RFC 8259 §6).
-/
import JsonV.Spec.Grammar
import JsonV.Lemmas.NumGrammar
import JsonV.Lemmas.NumInt

namespace JsonV.Lemmas.NumJNumber
open JsonV JsonV.Spec.Ecma JsonV.Spec.Grammar JsonV.Lemmas.NumFloat JsonV.Lemmas.NumGrammar

/-! ### digits -/

theorem digit_of_isDigit (c : UInt8) (h : Spec.Ecma.isDigit c = true) : Digit c := by
  simpa [Spec.Ecma.isDigit, Digit] using h

theorem isDigit_of_digit (c : UInt8) (h : Digit c) : Spec.Ecma.isDigit c = true := by
  simpa [Spec.Ecma.isDigit, Digit] using h

theorem digits0_of_all (l : Bytes) (h : ∀ c ∈ l, Spec.Ecma.isDigit c = true) : Digits0 l :=
  fun c hc => digit_of_isDigit c (h c hc)

theorem digit19_of (c : UInt8) (h : Spec.Ecma.isDigit c = true) (h0 : c ≠ 48) : Digit19 c := by
  have h1 := (JsonV.Lemmas.NumParse.isDigit_iff c).1 h
  have h2 : c.toNat ≠ 48 := fun e => h0 (UInt8.toNat_inj.1 (by simpa using e))
  simp only [Digit19, UInt8.le_iff_toNat_le]
  constructor
  · show 49 ≤ c.toNat; omega
  · show c.toNat ≤ 57; omega

theorem digits0_map_dig (l : List Nat) (h : ∀ d ∈ l, d < 10) : Digits0 (l.map dig) :=
  digits0_of_all _ (map_dig_digits l h)

theorem digits0_zeros (z : Nat) : Digits0 (zeros z) := digits0_of_all _ (zeros_digits z)

theorem digits0_append (a b : Bytes) (ha : Digits0 a) (hb : Digits0 b) : Digits0 (a ++ b) := by
  intro c hc
  rcases List.mem_append.1 hc with h | h
  · exact ha c h
  · exact hb c h

/-- assembling a number from its four parts, right-nested -/
theorem jnum (minus int frac exp b : Bytes) (hm : minus = [] ∨ minus = [0x2D]) (hi : JInt int) (hf : JFrac frac)
    (he : JExp exp) (hb : b = minus ++ (int ++ (frac ++ exp))) : JNumber b := by
  subst hb
  have := JNumber.mk minus int frac exp hm hi hf he
  simpa [List.append_assoc] using this

theorem sgn_minus (neg : Bool) : sgn neg = [] ∨ sgn neg = [0x2D] := by
  cases neg
  · exact Or.inl rfl
  · exact Or.inr rfl

/-! ### integer literals -/

theorem jint_of_canonical (b : Bytes) (h : canonicalDecimal b = true) : JInt b := by
  simp only [canonicalDecimal, Bool.and_eq_true, Bool.not_eq_true', List.all_eq_true, Bool.or_eq_true,
    bne_iff_ne, ne_eq, beq_iff_eq] at h
  obtain ⟨⟨hne, hdig⟩, hlead⟩ := h
  cases b with
  | nil => simp at hne
  | cons c t =>
    by_cases hc : c = 48
    · rcases hlead with hl | hl
      · exact absurd (by simp [hc]) hl
      · rw [hl]; exact JInt.zero
    · exact JInt.nonzero c t (digit19_of c (hdig c (by simp)) hc)
        (digits0_of_all t (fun x hx => hdig x (by simp [hx])))

theorem canonical_of_jint (b : Bytes) (h : JInt b) : canonicalDecimal b = true := by
  cases h with
  | zero => decide
  | nonzero d ds hd hds =>
    have hd' : Spec.Ecma.isDigit d = true := by
      simp only [Digit19, UInt8.le_iff_toNat_le] at hd
      rw [JsonV.Lemmas.NumParse.isDigit_iff]
      have h1 : (0x31 : UInt8).toNat = 49 := rfl
      have h2 : (0x39 : UInt8).toNat = 57 := rfl
      omega
    have hne : d ≠ 48 := by
      intro e; subst e
      simp [Digit19] at hd
    simp only [canonicalDecimal, Bool.and_eq_true, Bool.not_eq_true', List.all_eq_true, Bool.or_eq_true,
      bne_iff_ne, ne_eq, beq_iff_eq]
    refine ⟨⟨by simp, ?_⟩, Or.inl (by simpa using hne)⟩
    intro c hc
    rcases List.mem_cons.1 hc with h | h
    · rw [h]; exact hd'
    · exact isDigit_of_digit c (hds c h)

/-- A canonical decimal (what ParseUint accepts, what AppendUint prints) is a JSON number. -/
theorem jnumber_of_canonical (b : Bytes) (h : canonicalDecimal b = true) : JNumber b :=
  jnum [] b [] [] b (Or.inl rfl) (jint_of_canonical b h) JFrac.none JExp.none (by simp)

/-- An integer literal `-? canonical` is a JSON number. -/
theorem jnumber_of_intLit (b : Bytes) (h : isIntLit b = true) : JNumber b := by
  unfold isIntLit at h
  split at h
  · rename_i t
    exact jnum [0x2D] t [] [] _ (Or.inr rfl) (jint_of_canonical t h) JFrac.none JExp.none (by simp)
  · exact jnumber_of_canonical b h

theorem not_frac_byte_of_digit (c : UInt8) (h : Digit c) : (c == 46 || c == 101 || c == 69) = false := by
  have := isDigit_of_digit c h
  cases hh : (c == 46 || c == 101 || c == 69) with
  | false => rfl
  | true => rw [JsonV.Lemmas.NumInt.not_digit_frac c hh] at this; exact absurd this (by decide)

/-- On a text the decoder has validated as a number, "integer literal" is exactly "no fraction and no exponent". -/
theorem intLit_iff_noFrac (lit : Bytes) (h : JNumber lit) : isIntLit lit = true ↔ hasFracOrExp lit = false := by
  constructor
  · exact JsonV.Lemmas.NumInt.intLit_no_frac lit
  · intro hn
    cases h with
    | mk minus int frac exp hm hi hf he =>
      rw [hasFracOrExp, List.any_eq_false] at hn
      have hfrac : frac = [] := by
        cases hf with
        | none => rfl
        | some ds _ => exact absurd (hn 0x2E (by simp)) (by decide)
      have hexp : exp = [] := by
        cases he with
        | none => rfl
        | some e sign ds hee _ _ =>
          rcases hee with h | h <;> subst h
          · exact absurd (hn 0x65 (by simp)) (by decide)
          · exact absurd (hn 0x45 (by simp)) (by decide)
      subst hfrac hexp
      have hcan := canonical_of_jint int hi
      rcases hm with h | h <;> subst h
      · simpa using (JsonV.Lemmas.NumInt.isIntLit_of_canonical int hcan).1
      · show isIntLit ([0x2D] ++ int ++ [] ++ []) = true
        simpa [isIntLit] using hcan

/-! ### the ECMA layout -/

theorem jexp_part (x : Int) :
    JExp ([101] ++ (if x < 0 then [45] else [43]) ++ (decimal x.natAbs).map dig) := by
  have hd : Digits1 ((decimal x.natAbs).map dig) :=
    ⟨by simpa using decimal_ne_nil x.natAbs, digits0_map_dig _ (decimal_lt _)⟩
  by_cases h : x < 0
  · simp only [h, if_true]
    exact JExp.some 101 [45] _ (Or.inl rfl) (Or.inr (Or.inl rfl)) hd
  · simp only [h, if_false]
    exact JExp.some 101 [43] _ (Or.inl rfl) (Or.inr (Or.inr rfl)) hd

/-- The ECMA-262 layout of a well-formed decomposition is a number of the C01 grammar. -/
theorem jnumber_numberToString (neg : Bool) (ds : List Nat) (n : Int) (h : WFD ds n) :
    JNumber (numberToString neg ds n) := by
  obtain ⟨hlt, hhead, hz, hlo, hhi⟩ := h
  cases ds with
  | nil =>
    rw [hz rfl]
    exact jnum (sgn neg) [48] [] [] _ (sgn_minus neg) JInt.zero JFrac.none JExp.none (by cases neg <;> rfl)
  | cons d r =>
    have hd : d < 10 := hlt d (by simp)
    have hd0 : d ≠ 0 := by simpa using hhead
    have hr : ∀ x ∈ r, x < 10 := fun x hx => hlt x (by simp [hx])
    have hne : d :: r ≠ [] := by simp
    have h19 : Digit19 (dig d) := digit19_of _ (dig_isDigit d hd) (by simpa using (dig_lead d hd hd0).1)
    by_cases hp : -6 < n ∧ n ≤ 21
    · by_cases hA : ((d :: r).length : Int) ≤ n
      · rw [ecma_int neg (d :: r) n hne hA hp.2]
        exact jnum (sgn neg) (dig d :: (r.map dig ++ zeros (n - (d :: r).length).toNat)) [] [] _ (sgn_minus neg)
          (JInt.nonzero _ _ h19 (digits0_append _ _ (digits0_map_dig r hr) (digits0_zeros _))) JFrac.none JExp.none (by simp)
      · by_cases hB : 0 < n
        · rw [ecma_point neg (d :: r) n hne hA hB hp.2]
          obtain ⟨a, rfl⟩ : ∃ a : Nat, n = (a + 1 : Nat) := ⟨n.toNat - 1, by omega⟩
          have ha : a + 1 < (d :: r).length := by omega
          have hfr : Digits1 ((r.drop a).map dig) := by
            refine ⟨?_, digits0_map_dig _ (fun x hx => hr x (List.mem_of_mem_drop hx))⟩
            simp only [ne_eq, List.map_eq_nil_iff, List.drop_eq_nil_iff, Nat.not_le]
            simp only [List.length_cons] at ha; omega
          exact jnum (sgn neg) (dig d :: (r.take a).map dig) (0x2E :: (r.drop a).map dig) [] _ (sgn_minus neg)
            (JInt.nonzero _ _ h19 (digits0_map_dig _ (fun x hx => hr x (List.mem_of_mem_take hx))))
            (JFrac.some _ hfr) JExp.none (by simp)
        · rw [ecma_small neg (d :: r) n hne hp.1 (by omega)]
          have hfr : Digits1 (zeros (-n).toNat ++ (d :: r).map dig) :=
            ⟨by simp, digits0_append _ _ (digits0_zeros _) (digits0_map_dig _ hlt)⟩
          exact jnum (sgn neg) [48] (0x2E :: (zeros (-n).toNat ++ (d :: r).map dig)) [] _ (sgn_minus neg)
            JInt.zero (JFrac.some _ hfr) JExp.none (by simp)
    · have hx : n ≤ -6 ∨ 21 < n := by omega
      by_cases hr0 : r = []
      · subst hr0
        rw [ecma_exp1 neg d n hx]
        exact jnum (sgn neg) [dig d] [] _ _ (sgn_minus neg) (JInt.nonzero _ [] h19 (by intro c hc; simp at hc))
          JFrac.none (jexp_part (n - 1)) (by simp)
      · rw [ecma_expk neg d r hr0 n hx]
        have hfr : Digits1 (r.map dig) := ⟨by simpa using hr0, digits0_map_dig r hr⟩
        exact jnum (sgn neg) [dig d] (0x2E :: r.map dig) _ _ (sgn_minus neg) (JInt.nonzero _ [] h19 (by intro c hc; simp at hc))
          (JFrac.some _ hfr) (jexp_part (n - 1)) (by simp)

end JsonV.Lemmas.NumJNumber
