/-
Round trip of the canonical tree through its text: the tokens of the canonical tree are well nested, the parser
reads them back as the same tree.
-/
import JsonV.Lemmas.CanonNest
import JsonV.Lemmas.CanonParse
import JsonV.Lemmas.CanonTree

namespace JsonV.Lemmas.CanonRound
open JsonV JsonV.Fmt JsonV.Canon JsonV.Lemmas.CanonNest JsonV.Lemmas.CanonParse JsonV.Lemmas.CanonTree

/-! ### parser output has scalar atoms -/

theorem parse_atoms : ∀ fuel : Nat,
    (∀ ts t r, parseV fuel ts = some (t, r) → AtomsOK t = true) ∧
    (∀ ts es r, parseL fuel ts = some (es, r) → AtomsOKL es = true) ∧
    (∀ ts ms r, parseM fuel ts = some (ms, r) → AtomsOKM ms = true) := by
  intro fuel
  induction fuel with
  | zero => refine ⟨?_, ?_, ?_⟩ <;> intro ts _ _ h <;> simp [parseV, parseL, parseM] at h
  | succ fuel ih =>
    obtain ⟨ihV, ihL, ihM⟩ := ih
    refine ⟨?_, ?_, ?_⟩
    · intro ts t r h
      cases ts with
      | nil => simp [parseV] at h
      | cons k ks =>
        cases k with
        | ba =>
          simp only [parseV] at h
          cases hl : parseL fuel ks with
          | none => simp [hl] at h
          | some p =>
            obtain ⟨es, r'⟩ := p
            simp only [hl, Option.some.injEq, Prod.mk.injEq] at h
            obtain ⟨rfl, rfl⟩ := h
            simpa [AtomsOK] using ihL ks es r' hl
        | bo =>
          simp only [parseV] at h
          cases hl : parseM fuel ks with
          | none => simp [hl] at h
          | some p =>
            obtain ⟨ms, r'⟩ := p
            simp only [hl, Option.some.injEq, Prod.mk.injEq] at h
            obtain ⟨rfl, rfl⟩ := h
            simpa [AtomsOK] using ihM ks ms r' hl
        | ea => simp [parseV] at h
        | eo => simp [parseV] at h
        | str raw => simp only [parseV, Option.some.injEq, Prod.mk.injEq] at h; obtain ⟨rfl, rfl⟩ := h; rfl
        | num raw => simp only [parseV, Option.some.injEq, Prod.mk.injEq] at h; obtain ⟨rfl, rfl⟩ := h; rfl
        | null => simp only [parseV, Option.some.injEq, Prod.mk.injEq] at h; obtain ⟨rfl, rfl⟩ := h; rfl
        | tru => simp only [parseV, Option.some.injEq, Prod.mk.injEq] at h; obtain ⟨rfl, rfl⟩ := h; rfl
        | fls => simp only [parseV, Option.some.injEq, Prod.mk.injEq] at h; obtain ⟨rfl, rfl⟩ := h; rfl
    · intro ts es r h
      have key : ∀ (hne : ∀ r0, ts ≠ Tok.ea :: r0), AtomsOKL es = true := by
        intro hne
        rw [parseL_step fuel ts hne] at h
        cases hv : parseV fuel ts with
        | none => simp [hv] at h
        | some p =>
          obtain ⟨e, r1⟩ := p
          simp only [hv, Option.bind_some] at h
          cases hl : parseL fuel r1 with
          | none => simp [hl] at h
          | some q =>
            obtain ⟨es', r2⟩ := q
            simp only [hl, Option.map_some, Option.some.injEq, Prod.mk.injEq] at h
            obtain ⟨rfl, rfl⟩ := h
            simp [AtomsOKL, ihV ts e r1 hv, ihL r1 es' r2 hl]
      cases ts with
      | nil => exact key (by simp)
      | cons k ks =>
        cases k with
        | ea =>
          simp only [parseL, Option.some.injEq, Prod.mk.injEq] at h
          obtain ⟨rfl, rfl⟩ := h
          rfl
        | _ => exact key (by simp)
    · intro ts ms r h
      cases ts with
      | nil => simp [parseM] at h
      | cons k ks =>
        cases k with
        | eo =>
          simp only [parseM, Option.some.injEq, Prod.mk.injEq] at h
          obtain ⟨rfl, rfl⟩ := h
          rfl
        | str n =>
          simp only [parseM] at h
          cases hv : parseV fuel ks with
          | none => simp [hv] at h
          | some p =>
            obtain ⟨v, r1⟩ := p
            simp only [hv] at h
            cases hm : parseM fuel r1 with
            | none => simp [hm] at h
            | some q =>
              obtain ⟨ms', r2⟩ := q
              simp only [hm, Option.some.injEq, Prod.mk.injEq] at h
              obtain ⟨rfl, rfl⟩ := h
              simp [AtomsOKM, ihV ks v r1 hv, ihM r1 ms' r2 hm]
        | _ => simp [parseM] at h

theorem parse_atomsOK (ts : List Tok) (t : JV) (h : parse ts = some t) : AtomsOK t = true := by
  unfold parse at h
  cases hv : parseV (ts.length + 1) ts with
  | none => simp [hv] at h
  | some p =>
    obtain ⟨t', r⟩ := p
    cases r with
    | nil =>
      simp only [hv, Option.some.injEq] at h
      subst h
      exact (parse_atoms _).1 ts t' [] hv
    | cons _ _ => simp [hv] at h

/-! ### `respell` and `sortTree` keep the shape -/

theorem atomOK_canonAtom (fp : FloatCodec) (k : Tok) : atomOK (canonAtom fp k) = atomOK k := by cases k <;> rfl

mutual
theorem shape_respell (fp : FloatCodec) : ∀ t : JV,
    AtomsOK (respell fp t) = AtomsOK t ∧ ∀ d, depthOK (respell fp t) d = depthOK t d
  | .atom k => by simp [respell, AtomsOK, depthOK, atomOK_canonAtom]
  | .arr es => by
    have := shapeL_respell fp es
    simp [respell, AtomsOK, depthOK, this.1, this.2]
  | .obj ms => by
    have := shapeM_respell fp ms
    simp [respell, AtomsOK, depthOK, this.1, this.2]
theorem shapeL_respell (fp : FloatCodec) : ∀ es : List JV,
    AtomsOKL (respellL fp es) = AtomsOKL es ∧ ∀ d, depthOKL (respellL fp es) d = depthOKL es d
  | [] => by simp [respellL]
  | e :: es => by
    have h1 := shape_respell fp e
    have h2 := shapeL_respell fp es
    simp [respellL, AtomsOKL, depthOKL, h1.1, h1.2, h2.1, h2.2]
theorem shapeM_respell (fp : FloatCodec) : ∀ ms : List (Bytes × JV),
    AtomsOKM (respellM fp ms) = AtomsOKM ms ∧ ∀ d, depthOKM (respellM fp ms) d = depthOKM ms d
  | [] => by simp [respellM]
  | (n, v) :: ms => by
    have h1 := shape_respell fp v
    have h2 := shapeM_respell fp ms
    simp [respellM, AtomsOKM, depthOKM, h1.1, h1.2, h2.1, h2.2]
end

theorem atomsOKM_all (ms : List (Bytes × JV)) : AtomsOKM ms = ms.all (fun p => AtomsOK p.2) := by
  induction ms with
  | nil => rfl
  | cons p ms ih => obtain ⟨n, v⟩ := p; simp [AtomsOKM, ih]

theorem depthOKM_all (ms : List (Bytes × JV)) (d : Nat) : depthOKM ms d = ms.all (fun p => depthOK p.2 d) := by
  induction ms with
  | nil => rfl
  | cons p ms ih => obtain ⟨n, v⟩ := p; simp [depthOKM, ih]

theorem all_perm {α : Type} {l l' : List α} (f : α → Bool) (h : l.Perm l') : l.all f = l'.all f := by
  rw [Bool.eq_iff_iff]
  simp only [List.all_eq_true]
  exact ⟨fun a x hx => a x (h.mem_iff.mpr hx), fun a x hx => a x (h.mem_iff.mp hx)⟩

mutual
theorem shape_sortTree : ∀ t : JV,
    AtomsOK (sortTree t) = AtomsOK t ∧ ∀ d, depthOK (sortTree t) d = depthOK t d
  | .atom k => by simp [sortTree]
  | .arr es => by
    have := shapeL_sortL es
    simp [sortTree, AtomsOK, depthOK, this.1, this.2]
  | .obj ms => by
    have h := shapeM_sortM ms
    have p := sortObj_perm (sortM ms)
    simp only [sortTree, AtomsOK, depthOK]
    refine ⟨?_, fun d => ?_⟩
    · rw [atomsOKM_all, all_perm _ p, ← atomsOKM_all, h.1]
    · rw [depthOKM_all, all_perm _ p, ← depthOKM_all, h.2]
theorem shapeL_sortL : ∀ es : List JV,
    AtomsOKL (sortL es) = AtomsOKL es ∧ ∀ d, depthOKL (sortL es) d = depthOKL es d
  | [] => by simp [sortL]
  | e :: es => by
    have h1 := shape_sortTree e
    have h2 := shapeL_sortL es
    simp [sortL, AtomsOKL, depthOKL, h1.1, h1.2, h2.1, h2.2]
theorem shapeM_sortM : ∀ ms : List (Bytes × JV),
    AtomsOKM (sortM ms) = AtomsOKM ms ∧ ∀ d, depthOKM (sortM ms) d = depthOKM ms d
  | [] => by simp [sortM]
  | (n, v) :: ms => by
    have h1 := shape_sortTree v
    have h2 := shapeM_sortM ms
    simp [sortM, AtomsOKM, depthOKM, h1.1, h1.2, h2.1, h2.2]
end

/-- The canonical tree of a parsed, well-nested tree is accepted by the token grammar. -/
theorem accepts_canonTree (fp : FloatCodec) (ts : List Tok) (t : JV) (hp : parse ts = some t)
    (ha : accepts [.top0] ts = true) : accepts [.top0] (canonTree fp t).toks = true ∧ AtomsOK (canonTree fp t) = true := by
  have a0 := parse_atomsOK ts t hp
  have d0 : depthOK t 0 = true := by
    rw [← accepts_tree t a0, parse_toks ts t hp]; exact ha
  have a1 : AtomsOK (canonTree fp t) = true := by
    unfold canonTree; rw [(shape_sortTree _).1, (shape_respell fp t).1]; exact a0
  refine ⟨?_, a1⟩
  rw [accepts_tree _ a1]
  unfold canonTree; rw [(shape_sortTree _).2, (shape_respell fp t).2]; exact d0

end JsonV.Lemmas.CanonRound

namespace JsonV.Lemmas.CanonRound
open JsonV JsonV.Fmt JsonV.Canon JsonV.Lemmas.CanonNest JsonV.Lemmas.CanonParse JsonV.Lemmas.CanonTree

/-! ### completeness of the parser on the tokens of a tree -/

theorem toks_head : ∀ t : JV, AtomsOK t = true → ∃ k ks, t.toks = k :: ks ∧ k ≠ Tok.ea
  | .atom k, h => ⟨k, [], rfl, by intro e; subst e; simp [AtomsOK, atomOK] at h⟩
  | .arr es, _ => ⟨.ba, _, rfl, by simp⟩
  | .obj ms, _ => ⟨.bo, _, rfl, by simp⟩

theorem parseV_atom (fuel : Nat) (k : Tok) (hk : atomOK k = true) (rest : List Tok) :
    parseV (fuel + 1) (k :: rest) = some (.atom k, rest) := by
  cases k <;> first | (simp [atomOK] at hk; done) | rfl

mutual
theorem compV : ∀ (t : JV), AtomsOK t = true → ∀ (fuel : Nat) (rest : List Tok), t.toks.length ≤ fuel →
    parseV fuel (t.toks ++ rest) = some (t, rest)
  | .atom k, h, fuel, rest, hf => by
    simp only [AtomsOK] at h
    cases fuel with
    | zero => simp [JV.toks] at hf
    | succ f => simpa [JV.toks] using parseV_atom f k h rest
  | .arr es, h, fuel, rest, hf => by
    simp only [AtomsOK] at h
    cases fuel with
    | zero => simp [JV.toks] at hf
    | succ f =>
      have e : (JV.arr es).toks ++ rest = Tok.ba :: (toksL es ++ Tok.ea :: rest) := by simp [JV.toks]
      rw [e]
      simp only [parseV]
      rw [compL es h f rest (by simp [JV.toks] at hf; omega)]
  | .obj ms, h, fuel, rest, hf => by
    simp only [AtomsOK] at h
    cases fuel with
    | zero => simp [JV.toks] at hf
    | succ f =>
      have e : (JV.obj ms).toks ++ rest = Tok.bo :: (toksM ms ++ Tok.eo :: rest) := by simp [JV.toks]
      rw [e]
      simp only [parseV]
      rw [compM ms h f rest (by simp [JV.toks] at hf; omega)]
theorem compL : ∀ (es : List JV), AtomsOKL es = true → ∀ (fuel : Nat) (rest : List Tok), (toksL es).length + 1 ≤ fuel →
    parseL fuel (toksL es ++ Tok.ea :: rest) = some (es, rest)
  | [], _, fuel, rest, hf => by
    cases fuel with
    | zero => omega
    | succ f => simp [toksL, parseL]
  | e :: es, h, fuel, rest, hf => by
    simp only [AtomsOKL, Bool.and_eq_true] at h
    obtain ⟨k, ks, hk, hne⟩ := toks_head e h.1
    cases fuel with
    | zero => omega
    | succ f =>
      have e1 : toksL (e :: es) ++ Tok.ea :: rest = e.toks ++ (toksL es ++ Tok.ea :: rest) := by simp [toksL]
      have hlen : (toksL (e :: es)).length = e.toks.length + (toksL es).length := by simp [toksL]
      have hpos : 1 ≤ e.toks.length := by rw [hk]; simp
      rw [e1, parseL_step f _ (by rw [hk]; intro r0 c; simp only [List.cons_append, List.cons.injEq] at c; exact hne c.1)]
      rw [compV e h.1 f _ (by omega)]
      simp only [Option.bind_some]
      rw [compL es h.2 f rest (by omega)]
      rfl
theorem compM : ∀ (ms : List (Bytes × JV)), AtomsOKM ms = true → ∀ (fuel : Nat) (rest : List Tok), (toksM ms).length + 1 ≤ fuel →
    parseM fuel (toksM ms ++ Tok.eo :: rest) = some (ms, rest)
  | [], _, fuel, rest, hf => by
    cases fuel with
    | zero => omega
    | succ f => simp [toksM, parseM]
  | (n, v) :: ms, h, fuel, rest, hf => by
    simp only [AtomsOKM, Bool.and_eq_true] at h
    cases fuel with
    | zero => omega
    | succ f =>
      have e1 : toksM ((n, v) :: ms) ++ Tok.eo :: rest = Tok.str n :: (v.toks ++ (toksM ms ++ Tok.eo :: rest)) := by
        simp [toksM]
      have hlen : (toksM ((n, v) :: ms)).length = 1 + v.toks.length + (toksM ms).length := by simp [toksM]; omega
      rw [e1]
      simp only [parseM]
      rw [compV v h.1 f _ (by omega)]
      simp only []
      rw [compM ms h.2 f rest (by omega)]
end

/-- The parser reads the tokens of a tree of scalars back as that tree. -/
theorem parse_toks_self (t : JV) (h : AtomsOK t = true) : parse t.toks = some t := by
  unfold parse
  have := compV t h (t.toks.length + 1) [] (by omega)
  rw [List.append_nil] at this
  rw [this]

end JsonV.Lemmas.CanonRound
