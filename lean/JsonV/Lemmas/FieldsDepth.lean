/-
`allFields` is ordered by depth in EVERY run of the search (also when an error is recorded):
at level `k` every processed entry has an index path of length `k`, every field appended has depth `k + 1`.
-/
import JsonV.Lemmas.FieldsStep

set_option linter.unusedSimpArgs false

namespace JsonV.Lemmas.Fields
open JsonV JsonV.Model JsonV.Model.Fields

structure DInv (k : Nat) (s : St) : Prop where
  hq : ∀ e ∈ s.queue, e.index.length = k + 1
  ha : ∀ f ∈ s.all, f.depth ≤ k + 1
  hs : s.all.Pairwise (fun a b => a.depth ≤ b.depth)

theorem DInv.orErr {k : Nat} {s : St} (h : DInv k s) (e : Option Err) : DInv k (s.orErr e) := by
  have h1 : (s.orErr e).queue = s.queue := by unfold St.orErr; split <;> rfl
  have h2 : (s.orErr e).all = s.all := by unfold St.orErr; split <;> rfl
  exact ⟨h1 ▸ h.hq, h2 ▸ h.ha, h2 ▸ h.hs⟩

theorem DInv.applyAction {k : Nat} {s : St} (h : DInv k s) (qe : QE) (hk : qe.index.length = k) (i : Nat) (a : Action) :
    DInv k (applyAction qe i a s) := by
  cases a with
  | skip => exact h
  | fallback o => exact ⟨h.hq, h.ha, h.hs⟩
  | enqueue t =>
    refine ⟨?_, ?_, ?_⟩
    · intro e he
      cases hv : qe.visit <;> simp [Fields.applyAction, hv] at he
      · exact h.hq e he
      · rcases he with he | rfl
        · exact h.hq e he
        · simp [hk]
    · cases hv : qe.visit <;> simpa [Fields.applyAction, hv] using h.ha
    · cases hv : qe.visit <;> simpa [Fields.applyAction, hv] using h.hs
  | field o =>
    refine ⟨h.hq, ?_, ?_⟩
    · intro f hf
      simp only [Fields.applyAction, List.mem_append, List.mem_singleton] at hf
      rcases hf with hf | rfl
      · exact h.ha f hf
      · simp [RField.depth, hk]
    · simp only [Fields.applyAction]
      rw [List.pairwise_append]
      refine ⟨h.hs, List.pairwise_singleton _ _, ?_⟩
      intro a ha b hb
      rw [List.mem_singleton.mp hb]
      have := h.ha a ha
      simp [RField.depth, hk]; unfold RField.depth at this; omega

theorem DInv.processFields {k : Nat} (qe : QE) (hk : qe.index.length = k) : ∀ (ds : List FieldDecl) (i : Nat) (s : St) (lc : Local),
    DInv k s → DInv k (processFields qe i ds s lc).1
  | [], _, _, _, h => by simpa [Model.Fields.processFields] using h
  | d :: ds, i, s, lc, h => by
    simp only [Model.Fields.processFields]
    apply DInv.processFields qe hk ds
    rw [processField_eq]
    exact (h.orErr _).applyAction qe hk i _

theorem DInv.processStruct {k : Nat} (g : Graph) (qe : QE) (hk : qe.index.length = k) {s : St} (h : DInv k s) :
    DInv k (processStruct g qe s) := by
  unfold Model.Fields.processStruct
  dsimp only
  split
  · exact (DInv.processFields qe hk _ 0 s {} h).orErr _
  · exact DInv.processFields qe hk _ 0 s {} h

theorem DInv.processLevel {k : Nat} (g : Graph) : ∀ (R : List QE) (s : St), (∀ e ∈ R, e.index.length = k) → DInv k s →
    DInv k (processLevel g R s)
  | [], _, _, h => by simpa [Model.Fields.processLevel] using h
  | qe :: rest, s, hR, h => by
    simp only [Model.Fields.processLevel]
    exact DInv.processLevel g rest _ (fun e he => hR e (List.mem_cons_of_mem _ he))
      (h.processStruct g qe (hR qe (List.mem_cons_self ..)))

theorem sorted_bfs (g : Graph) : ∀ (fuel : Nat) (F : List QE) (s : St) (k : Nat), (∀ e ∈ F, e.index.length = k) →
    (∀ f ∈ s.all, f.depth ≤ k) → s.all.Pairwise (fun a b => a.depth ≤ b.depth) →
    (bfs g fuel F s).all.Pairwise (fun a b => a.depth ≤ b.depth)
  | 0, _, _, _, _, _, hs => by simpa [Model.Fields.bfs] using hs
  | fuel + 1, [], _, _, _, _, hs => by simpa [Model.Fields.bfs] using hs
  | fuel + 1, qe :: rest, s, k, hF, ha, hs => by
    simp only [Model.Fields.bfs]
    have h0 : DInv k { s with queue := [] } :=
      ⟨(by intro e he; cases he), fun f hf => Nat.le_succ_of_le (ha f hf), hs⟩
    have h1 := DInv.processLevel g (qe :: rest) _ hF h0
    exact sorted_bfs g fuel _ _ (k + 1) h1.hq h1.ha h1.hs

theorem search_all_sorted (g : Graph) (root : StructId) : (search g root).all.Pairwise (fun a b => a.depth ≤ b.depth) := by
  unfold search
  apply sorted_bfs g _ _ _ 0
  · intro e he; rw [List.mem_singleton.mp he]; rfl
  · intro f hf; cases hf
  · exact List.Pairwise.nil

end JsonV.Lemmas.Fields
