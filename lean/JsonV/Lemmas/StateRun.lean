/-
Run-level consequences of the refinement (Lemmas/StateRefine.lean): whole token sequences,
depth/length bookkeeping, delimiter and indentation characterisation.  Core Lean only.
-/
import JsonV.Lemmas.StateRefine

namespace JsonV.Lemmas.StateRun
open JsonV.Model JsonV.Spec JsonV.Spec.PDA JsonV.Lemmas.StateEntry JsonV.Lemmas.StateRefine

/-! ### PDA-level facts -/

/-- The bottom frame is the virtual top-level array. -/
def BottomArr (fs : Frames) : Prop := ∃ n, fs.getLast? = some (.arr n)

theorem bottomArr_init : BottomArr PDA.init := ⟨0, rfl⟩

theorem getLast?_cons_cons {α} (a b : α) (l : List α) : (a :: b :: l).getLast? = (b :: l).getLast? := by
  simp [List.getLast?_cons_cons]

theorem bottomArr_bump {f : Frame} {rest : List Frame} (h : BottomArr (f :: rest)) :
    BottomArr (f.bump :: rest) := by
  cases rest with
  | nil =>
    obtain ⟨n, hn⟩ := h
    simp at hn; subst hn
    exact ⟨n + 1, rfl⟩
  | cons g r =>
    obtain ⟨n, hn⟩ := h
    exact ⟨n, by rw [getLast?_cons_cons] at hn ⊢; exact hn⟩

theorem bottomArr_push {f g : Frame} {rest : List Frame} (h : BottomArr (f :: rest)) :
    BottomArr (g :: f :: rest) := by
  obtain ⟨n, hn⟩ := h
  exact ⟨n, by rw [getLast?_cons_cons]; exact hn⟩

theorem bottomArr_pop {f g : Frame} {rest : List Frame} (h : BottomArr (f :: g :: rest)) :
    BottomArr (g :: rest) := by
  obtain ⟨n, hn⟩ := h
  exact ⟨n, by rw [getLast?_cons_cons] at hn; exact hn⟩

theorem step_bottomArr {max : Nat} {fs fs' : Frames} {k : Kind}
    (h : step max fs k = some fs') (hb : BottomArr fs) : BottomArr fs' := by
  cases fs with
  | nil => simp [step] at h
  | cons f rest =>
    cases k <;> simp only [step] at h
    · split at h
      · cases h
      · cases h; exact bottomArr_bump hb
    · cases h; exact bottomArr_bump hb
    · split at h
      · cases h
      · cases h; exact bottomArr_bump hb
    · split at h
      · cases h
      · split at h
        · cases h; exact bottomArr_push (bottomArr_bump hb)
        · cases h
    · split at h
      · split at h
        · cases h; exact bottomArr_pop hb
        · cases h
      · cases h
    · split at h
      · cases h
      · split at h
        · cases h; exact bottomArr_push (bottomArr_bump hb)
        · cases h
    · split at h
      · cases h; exact bottomArr_pop hb
      · cases h

/-- Every token changes the depth by +1 (opening), -1 (closing) or 0. -/
theorem step_length {max : Nat} {fs fs' : Frames} {k : Kind} (h : step max fs k = some fs') :
    fs'.length + (if k.closing then 1 else 0) = fs.length + (if k.opening then 1 else 0) := by
  cases fs with
  | nil => simp [step] at h
  | cons f rest =>
    cases k <;> simp only [step] at h
    · split at h
      · cases h
      · cases h; simp [Kind.closing, Kind.opening]
    · cases h; simp [Kind.closing, Kind.opening]
    · split at h
      · cases h
      · cases h; simp [Kind.closing, Kind.opening]
    · split at h
      · cases h
      · split at h
        · cases h; simp [Kind.closing, Kind.opening]
        · cases h
    · split at h
      · split at h
        · cases h; simp [Kind.closing, Kind.opening]
        · cases h
      · cases h
    · split at h
      · cases h
      · split at h
        · cases h; simp [Kind.closing, Kind.opening]
        · cases h
    · split at h
      · cases h; simp [Kind.closing, Kind.opening]
      · cases h

theorem run_length {max : Nat} {ks : List Kind} : ∀ {fs fs' : Frames}, run max fs ks = some fs' →
    fs'.length + ks.countP Kind.closing = fs.length + ks.countP Kind.opening := by
  induction ks with
  | nil => intro fs fs' h; simp [run] at h; subst h; simp
  | cons k ks ih =>
    intro fs fs' h
    simp only [run] at h
    split at h
    · rename_i fs1 h1
      have := step_length h1
      have := ih h
      simp only [List.countP_cons]
      cases hc : k.closing <;> cases ho : k.opening <;> simp_all <;> omega
    · cases h

theorem run_bottomArr {max : Nat} {ks : List Kind} : ∀ {fs fs' : Frames}, run max fs ks = some fs' →
    BottomArr fs → BottomArr fs' := by
  induction ks with
  | nil => intro fs fs' h hb; simp [run] at h; subst h; exact hb
  | cons k ks ih =>
    intro fs fs' h hb
    simp only [run] at h
    split at h
    · rename_i fs1 h1
      exact ih h (step_bottomArr h1 hb)
    · cases h

/-! ### Whole runs of the machine -/

theorem run_refines {max : Nat} (ks : List Kind) : ∀ {b : Nat} {m : Machine}, Inv max b m →
    b + ks.length < 2^61 →
    match smRun max m ks with
    | .ok m' => run max (abs m) ks = some (abs m') ∧ Inv max (b + ks.length) m'
    | .error _ => run max (abs m) ks = none := by
  induction ks with
  | nil => intro b m h _; simp [smRun, run]; exact h
  | cons k ks ih =>
    intro b m h hb
    have hb1 : b + 1 < 2^61 := by simp at hb; omega
    have hs := step_refines h hb1 k
    unfold StepRel at hs
    simp only [smRun, run]
    cases hk : smStep max m k with
    | error e => rw [hk] at hs; simp only at hs; simp [hs]
    | ok m1 =>
      rw [hk] at hs
      obtain ⟨hs1, hs2⟩ := hs
      have := ih hs2 (by simp at hb ⊢; omega)
      simp only [hs1]
      cases hr : smRun max m1 ks with
      | error e => rw [hr] at this; exact this
      | ok m2 =>
        rw [hr] at this
        refine ⟨this.1, ?_⟩
        have h3 := this.2
        have : b + 1 + ks.length = b + (k :: ks).length := by simp; omega
        rw [this] at h3; exact h3

/-! ### Delimiters and indentation -/

def delimByte : Delim → UInt8
  | .none => 0 | .colon => 0x3a | .comma => 0x2c

theorem byte_closing (k : Kind) : (k.byte == 0x7d || k.byte == 0x5d) = k.closing := by
  cases k <;> decide
theorem byte_not_closing (k : Kind) : (k.byte != 0x7d && k.byte != 0x5d) = !k.closing := by
  cases k <;> decide

theorem comma_abs (e : Entry) (k : Kind) :
    e.needImplicitComma k.byte = (!(absE e).needValue && decide ((absE e).count > 0) && !k.closing) := by
  simp only [Entry.needImplicitComma, Bool.and_assoc, byte_not_closing, needValue_abs, count_abs]

theorem needDelim_abs {m : Machine} (hb : BottomArr (abs m)) (k : Kind) :
    m.needDelim k.byte = delimByte (delim (abs m) k) := by
  obtain ⟨s, l⟩ := m
  simp only [Machine.needDelim, Entry.needImplicitColon, comma_abs, ← needValue_abs]
  rcases List.eq_nil_or_concat s with hs | ⟨L, x, hs⟩
  · subst hs
    obtain ⟨n, hn⟩ := hb
    simp [abs] at hn
    simp [abs, delim, hn, Frame.needValue, delimByte]
  · rw [List.concat_eq_append] at hs; subst hs
    simp only [abs_push, delim]
    cases hv : (absE l).needValue <;> cases hc : k.closing <;>
      by_cases h0 : (absE l).count > 0 <;> simp [h0, delimByte]

theorem needValue_count {f : Frame} (hv : f.needValue = true) (h0 : f.count = 0) : False := by
  cases f <;> simp_all [Frame.needValue, Frame.count]

theorem needIndent_abs (m : Machine) (k : Kind) : m.needIndent k.byte = indent (abs m) k := by
  obtain ⟨s, l⟩ := m
  simp only [Machine.needIndent, byte_closing, comma_abs, ← count_abs, Machine.depth]
  rcases List.eq_nil_or_concat s with hs | ⟨L, x, hs⟩
  · subst hs; simp [abs, indent]
  · rw [List.concat_eq_append] at hs; subst hs
    simp only [abs_push, indent]
    cases hv : (absE l).needValue <;> cases hc : k.closing <;>
      by_cases h0 : (absE l).count = 0 <;> simp [h0]
    exact needValue_count hv h0

theorem depth_abs (m : Machine) : m.depth = (abs m).length := by
  simp [Machine.depth, abs]

theorem last_length_abs (m : Machine) : m.last.length = ((abs m).head (by simp [abs])).count := by
  simp [abs, count_abs]


/-! ### Rejected operations are no-ops -/

/-- Run a sequence; a rejected operation leaves the machine as it is (state.go: "If an error is
returned, the state is not mutated") and the run continues. -/
def smRunSkip (max : Nat) : Machine → List Kind → Machine
  | m, [] => m
  | m, k :: ks => match smStep max m k with
    | .ok m' => smRunSkip max m' ks
    | .error _ => smRunSkip max m ks

/-- The operations of a sequence that are accepted when it is run from `m`. -/
def smAccepted (max : Nat) : Machine → List Kind → List Kind
  | _, [] => []
  | m, k :: ks => match smStep max m k with
    | .ok m' => k :: smAccepted max m' ks
    | .error _ => smAccepted max m ks

theorem smRun_accepted (max : Nat) (ks : List Kind) : ∀ m : Machine,
    smRun max m (smAccepted max m ks) = .ok (smRunSkip max m ks) := by
  induction ks with
  | nil => intro m; rfl
  | cons k ks ih =>
    intro m
    cases h : smStep max m k with
    | ok m' => simp only [smAccepted, smRunSkip, smRun, h]; exact ih m'
    | error e => simp only [smAccepted, smRunSkip, h]; exact ih m

end JsonV.Lemmas.StateRun
