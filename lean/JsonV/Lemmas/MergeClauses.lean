/-
Helper lemmas for C14, part 4: the element loops (slice / array clauses), the frame property of
the member loop (unmentioned entries are kept), chains, and the tie between the structural
`unmAny` and "unmarshal by the dynamic type of the held value".
-/
import JsonV.Lemmas.MergeLaw

namespace JsonV.Lemmas.Merge
open JsonV JsonV.Spec JsonV.Model

/-! ### Element loops -/

/-- The slice loop yields exactly one value per input element, each the fresh decode of it. -/
theorem elemsFresh_spec {f : Dec} {z : GoVal} {xs : List JTree} {vs : List GoVal}
    (h : elemsFresh f z xs = .ok vs) :
    vs.length = xs.length ∧ ∀ (i : Nat) (x : JTree), xs[i]? = some x → ∃ v, vs[i]? = some v ∧ f x z = .ok v := by
  induction xs generalizing vs with
  | nil =>
    simp only [elemsFresh, Except.ok.injEq] at h; subst h
    exact ⟨rfl, by intro i x hx; simp at hx⟩
  | cons x r ih =>
    simp only [elemsFresh] at h
    cases hx : f x z with
    | error e => simp [hx] at h
    | ok v =>
      simp only [hx] at h
      cases hr : elemsFresh f z r with
      | error e => simp [hr] at h
      | ok vr =>
        simp only [hr, Except.ok.injEq] at h
        subst h
        obtain ⟨hl, hi⟩ := ih hr
        refine ⟨by simp [hl], ?_⟩
        intro i y hy
        cases i with
        | zero => simp only [List.getElem?_cons_zero, Option.some.injEq] at hy; subst hy; exact ⟨v, rfl, hx⟩
        | succ i => simp only [List.getElem?_cons_succ] at hy ⊢; exact hi i y hy

/-- What the array loop leaves: position `i < n` holds the fresh decode of element `i` if the
input has one, the zero value otherwise; the result has exactly `n` elements. -/
theorem arrayElems_spec {f : Dec} {z : GoVal} {n : Nat} {xs : List JTree} {vs : List GoVal}
    (h : arrayElems f z n xs = .ok vs) :
    vs.length = n ∧ ∀ i, i < n →
      (match xs[i]? with
       | some x => ∃ v, f x z = .ok v ∧ vs[i]? = some v
       | none => vs[i]? = some z) := by
  induction n generalizing xs vs with
  | zero =>
    have hv : vs = [] := by
      induction xs with
      | nil => simp only [arrayElems, Except.ok.injEq] at h; exact h.symm
      | cons x r ih =>
        simp only [arrayElems] at h
        split at h
        · exact ih h
        · cases h
    subst hv
    exact ⟨rfl, by intro i hi; omega⟩
  | succ n ih =>
    cases xs with
    | nil =>
      simp only [arrayElems, Except.ok.injEq] at h
      subst h
      refine ⟨by simp, ?_⟩
      intro i hi
      simp [hi]
    | cons x r =>
      simp only [arrayElems] at h
      cases hx : f x z with
      | error e => simp [hx] at h
      | ok v =>
        simp only [hx] at h
        cases hr : arrayElems f z n r with
        | error e => simp [hr] at h
        | ok vr =>
          simp only [hr, Except.ok.injEq] at h
          subst h
          obtain ⟨hl, hi⟩ := ih hr
          refine ⟨by simp [hl], ?_⟩
          intro i hlt
          cases i with
          | zero => simp only [List.getElem?_cons_zero]; exact ⟨v, hx, rfl⟩
          | succ i => simp only [List.getElem?_cons_succ]; exact hi i (by omega)

/-! ### Frame property of the member loop -/

theorem objFold_frame {dec : Bytes → Option Dec} {z : Bytes → GoVal} {ms : List (Bytes × JTree)}
    {seen : List Bytes} {m m' : List (Bytes × GoVal)} (h : objFold dec z ms seen m = .ok m')
    (n : Bytes) (hn : n ∉ akeys ms) : alookup n m' = alookup n m := by
  induction ms generalizing seen m with
  | nil => simp only [objFold, Except.ok.injEq] at h; subst h; rfl
  | cons p r ih =>
    obtain ⟨k, j⟩ := p
    rw [akeys_cons, List.mem_cons, not_or] at hn
    simp only [objFold] at h
    split at h
    · cases h
    · split at h
      · split at h
        · exact ih h hn.2
        · cases h
      · split at h
        · cases h
        · rw [ih h hn.2, alookup_aset_ne (fun e => hn.1 e.symm)]

/-- A successful member loop saw no name twice. -/
theorem objFold_nodup {dec : Bytes → Option Dec} {z : Bytes → GoVal} {ms : List (Bytes × JTree)}
    {seen : List Bytes} {m m' : List (Bytes × GoVal)} (h : objFold dec z ms seen m = .ok m') :
    (akeys ms).Nodup ∧ ∀ n, n ∈ akeys ms → n ∉ seen := by
  induction ms generalizing seen m with
  | nil => exact ⟨List.nodup_nil, by intro n hn; cases hn⟩
  | cons p r ih =>
    obtain ⟨k, j⟩ := p
    simp only [objFold] at h
    split at h
    · cases h
    · rename_i hs
      have hks : k ∉ seen := by simpa using hs
      have key : ∀ {m1}, objFold dec z r (k :: seen) m1 = .ok m' →
          (akeys ((k, j) :: r)).Nodup ∧ ∀ n, n ∈ akeys ((k, j) :: r) → n ∉ seen := by
        intro m1 h'
        obtain ⟨h1, h2⟩ := ih h'
        rw [akeys_cons, List.nodup_cons]
        refine ⟨⟨fun hk => h2 k hk List.mem_cons_self, h1⟩, ?_⟩
        intro n hn
        cases List.mem_cons.1 hn with
        | inl e => subst e; exact hks
        | inr e => exact fun hc => h2 n e (List.mem_cons_of_mem _ hc)
      split at h
      · split at h
        · exact key h
        · cases h
      · split at h
        · cases h
        · exact key h

/-! ### Chains -/

theorem chain_fold (o : UOpts) (T : GoType) (hwf : T.wf = true) :
    ∀ (js : List JTree) (acc : JTree) (v0 v : GoVal), acc.dupFree = true → (∀ j ∈ js, j.dupFree = true) →
      unm o T acc T.zero = .ok v0 → unmChain o T js v0 = .ok v →
      unm o T (js.foldl JTree.merge acc) T.zero = .ok v := by
  intro js
  induction js with
  | nil => intro acc v0 v _ _ h0 h; simp only [unmChain, Except.ok.injEq] at h; subst h; exact h0
  | cons j r ih =>
    intro acc v0 v hacc hjs h0 h
    simp only [unmChain] at h
    cases hj : unm o T j v0 with
    | error e => simp [hj] at h
    | ok v1 =>
      simp only [hj] at h
      have hdj := hjs j List.mem_cons_self
      exact ih (JTree.merge acc j) v1 v (dupFree_merge acc j hacc hdj)
        (fun x hx => hjs x (List.mem_cons_of_mem _ hx))
        (merge_law_unm o T hwf acc j v0 v1 hacc hdj h0 hj) h

/-! ### `unmAny` is "unmarshal by the dynamic type, store back" -/

theorem unm_any_eq (o : UOpts) : unm o .any = unmAny := by
  funext j p; simp [unm]

/-- arshal_default.go:1940-1957: the held value is copied into a fresh addressable value of its
dynamic type, unmarshaled into with that type's arshaler, and stored back. -/
theorem unmAny_dyn (o : UOpts) (dv : GoVal) (T : GoType) (hT : dv.dynType = some T) (j : JTree)
    (hj : j.isNull = false) :
    unmAny j (.ifaceOf dv) =
      (match unm o T j dv with
       | .error e => .error e
       | .ok v => .ok (.ifaceOf v)) := by
  cases dv <;> simp only [GoVal.dynType, Option.some.injEq, reduceCtorEq] at hT <;> subst hT <;>
    cases j <;> first
      | (simp [JTree.isNull] at hj; done)
      | simp [unm, unmAny, anyPrior, heldMismatch, GoVal.dynType, isBoolV, isFloatV, isStrV, isSliceV,
          unmBool, unmFloat, unmString, unmAnyL_eq, unmAnyM_eq, GoType.zero] <;>
    simp only [show (fun x x_1 => unmAny x x_1) = unmAny from rfl] <;>
    first
      | (generalize elemsFresh _ _ _ = r; cases r <;> rfl)
      | (generalize objFold _ _ _ _ _ = r; cases r <;> rfl)

end JsonV.Lemmas.Merge
