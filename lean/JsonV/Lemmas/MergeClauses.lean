/-
Helper lemmas for C14, part 4: the element loops (slice / array clauses), the frame property of
the member loop (unmentioned entries are kept), chains, and the tie between the structural
`unmAny` and "unmarshal by the dynamic type of the held value".
-/
import JsonV.Lemmas.MergeLaw

namespace JsonV.Lemmas.Merge
open JsonV JsonV.Spec JsonV.Model

/-! ### Element loops -/

/-- The slice loop yields exactly one value per input element, each the fresh decode of it. -/
theorem elemsFresh_spec {f : Dec} {z : GoVal} {xs : List JTree} {vs : List GoVal}
    (h : elemsFresh f z xs = .ok vs) :
    vs.length = xs.length ∧ ∀ (i : Nat) (x : JTree), xs[i]? = some x → ∃ v, vs[i]? = some v ∧ f x z = .ok v := by
  induction xs generalizing vs with
  | nil =>
    simp only [elemsFresh, Except.ok.injEq] at h; subst h
    exact ⟨rfl, by intro i x hx; simp at hx⟩
  | cons x r ih =>
    simp only [elemsFresh] at h
    cases hx : f x z with
    | error e => simp [hx] at h
    | ok v =>
      simp only [hx] at h
      cases hr : elemsFresh f z r with
      | error e => simp [hr] at h
      | ok vr =>
        simp only [hr, Except.ok.injEq] at h
        subst h
        obtain ⟨hl, hi⟩ := ih hr
        refine ⟨by simp [hl], ?_⟩
        intro i y hy
        cases i with
        | zero => simp only [List.getElem?_cons_zero, Option.some.injEq] at hy; subst hy; exact ⟨v, rfl, hx⟩
        | succ i => simp only [List.getElem?_cons_succ] at hy ⊢; exact hi i y hy

/-- What the array loop leaves: position `i < n` holds the fresh decode of element `i` if the
input has one, the zero value otherwise; the result has exactly `n` elements. -/
theorem arrayElems_spec {o : UOpts} {f : Dec} {z : GoVal} {n : Nat} {xs : List JTree} {vs : List GoVal}
    (h : arrayElems o f z n xs = .ok vs) :
    vs.length = n ∧ ∀ i, i < n →
      (match xs[i]? with
       | some x => ∃ v, f x z = .ok v ∧ vs[i]? = some v
       | none => vs[i]? = some z) := by
  induction n generalizing xs vs with
  | zero =>
    have hv : vs = [] := by
      induction xs with
      | nil => simp only [arrayElems, Except.ok.injEq] at h; exact h.symm
      | cons x r ih =>
        simp only [arrayElems] at h
        split at h
        · exact ih h
        · cases h
    subst hv
    exact ⟨rfl, by intro i hi; omega⟩
  | succ n ih =>
    cases xs with
    | nil =>
      simp only [arrayElems, Except.ok.injEq] at h
      subst h
      refine ⟨by simp, ?_⟩
      intro i hi
      simp [hi]
    | cons x r =>
      simp only [arrayElems] at h
      cases hx : f x z with
      | error e => simp [hx] at h
      | ok v =>
        simp only [hx] at h
        cases hr : arrayElems o f z n r with
        | error e => simp [hr] at h
        | ok vr =>
          simp only [hr, Except.ok.injEq] at h
          subst h
          obtain ⟨hl, hi⟩ := ih hr
          refine ⟨by simp [hl], ?_⟩
          intro i hlt
          cases i with
          | zero => simp only [List.getElem?_cons_zero]; exact ⟨v, hx, rfl⟩
          | succ i => simp only [List.getElem?_cons_succ]; exact hi i (by omega)

/-! ### Frame property of the member loop -/

theorem objFold_frame {o : UOpts} {dec : Bytes → Option Dec} {z : Bytes → GoVal} {ms : List (Bytes × JTree)}
    {seen : List Bytes} {m m' : List (Bytes × GoVal)} (h : objFold o dec z ms seen m = .ok m')
    (n : Bytes) (hn : n ∉ akeys ms) : alookup n m' = alookup n m := by
  induction ms generalizing seen m with
  | nil => simp only [objFold, Except.ok.injEq] at h; subst h; rfl
  | cons p r ih =>
    obtain ⟨k, j⟩ := p
    rw [akeys_cons, List.mem_cons, not_or] at hn
    simp only [objFold] at h
    split at h
    · cases h
    · split at h
      · split at h
        · exact ih h hn.2
        · cases h
      · split at h
        · cases h
        · rw [ih h hn.2, alookup_aset_ne (fun e => hn.1 e.symm)]

/-- A successful member loop saw no name twice. -/
theorem objFold_nodup {o : UOpts} (ho : o.allowDup = false) {dec : Bytes → Option Dec} {z : Bytes → GoVal} {ms : List (Bytes × JTree)}
    {seen : List Bytes} {m m' : List (Bytes × GoVal)} (h : objFold o dec z ms seen m = .ok m') :
    (akeys ms).Nodup ∧ ∀ n, n ∈ akeys ms → n ∉ seen := by
  induction ms generalizing seen m with
  | nil => exact ⟨List.nodup_nil, by intro n hn; cases hn⟩
  | cons p r ih =>
    obtain ⟨k, j⟩ := p
    simp only [objFold] at h
    split at h
    · cases h
    · rename_i hs
      have hks : k ∉ seen := by simpa [ho] using hs
      have key : ∀ {m1}, objFold o dec z r (k :: seen) m1 = .ok m' →
          (akeys ((k, j) :: r)).Nodup ∧ ∀ n, n ∈ akeys ((k, j) :: r) → n ∉ seen := by
        intro m1 h'
        obtain ⟨h1, h2⟩ := ih h'
        rw [akeys_cons, List.nodup_cons]
        refine ⟨⟨fun hk => h2 k hk List.mem_cons_self, h1⟩, ?_⟩
        intro n hn
        cases List.mem_cons.1 hn with
        | inl e => subst e; exact hks
        | inr e => exact fun hc => h2 n e (List.mem_cons_of_mem _ hc)
      split at h
      · split at h
        · exact key h
        · cases h
      · split at h
        · cases h
        · exact key h

/-! ### `unmAny` is "unmarshal by the dynamic type, store back" -/

theorem unm_any_eq (o : UOpts) : unm o .any = unmAny o := by
  funext j p; simp [unm]

/-- arshal_default.go:1940-1957: the held value is copied into a fresh addressable value of its
dynamic type, unmarshaled into with that type's arshaler, and stored back. -/
theorem unmAny_dyn (o : UOpts) (dv : GoVal) (T : GoType) (hT : dv.dynType = some T) (j : JTree)
    (hj : j.isNull = false) :
    unmAny o j (.ifaceOf dv) =
      (match unm o T j dv with
       | .error e => .error e
       | .ok v => .ok (.ifaceOf v)) := by
  cases dv <;> simp only [GoVal.dynType, Option.some.injEq, reduceCtorEq] at hT <;> subst hT <;>
    cases j <;> first
      | (simp [JTree.isNull] at hj; done)
      | simp [unm, unmAny, anyPrior, heldMismatch, GoVal.dynType, isBoolV, isFloatV, isStrV, isSliceV,
          unmBool, unmFloat, unmString, unmAnyL_eq, unmAnyM_eq, GoType.zero] <;>
    simp only [show (fun x x_1 => unmAny o x x_1) = unmAny o from rfl] <;>
    first
      | (generalize elemsFresh _ _ _ = r; cases r <;> rfl)
      | (generalize objFold _ _ _ _ _ _ = r; cases r <;> rfl)

/-! ### A successful call has seen no repeated member name anywhere in its input -/

theorem elemsFresh_dupFree {f : Dec} {z : GoVal} {xs : List JTree} {vs : List GoVal}
    (h : elemsFresh f z xs = .ok vs) (hf : ∀ x, x ∈ xs → ∀ p v, f x p = .ok v → x.dupFree = true) :
    JTree.dupFreeL xs = true := by
  rw [dupFreeL_iff]
  intro x hx
  obtain ⟨i, hi⟩ := List.mem_iff_getElem?.1 hx
  obtain ⟨w, _, hw⟩ := (elemsFresh_spec h).2 i x hi
  exact hf x hx _ _ hw

theorem arrayElems_dupFree {o : UOpts} (ho : o.allowDup = false) {f : Dec} {z : GoVal} {n : Nat} {xs : List JTree} {vs : List GoVal}
    (h : arrayElems o f z n xs = .ok vs) (hf : ∀ x, x ∈ xs → ∀ p v, f x p = .ok v → x.dupFree = true) :
    JTree.dupFreeL xs = true := by
  induction xs generalizing n vs with
  | nil => rfl
  | cons x r ih =>
    cases n with
    | zero =>
      simp only [arrayElems] at h
      split at h
      · rename_i hx
        simp only [skipOK, ho, Bool.false_or] at hx
        simp only [JTree.dupFreeL, hx, Bool.true_and]
        exact ih h (fun y hy => hf y (List.mem_cons_of_mem _ hy))
      · cases h
    | succ n =>
      simp only [arrayElems] at h
      cases hx : f x z with
      | error e => simp [hx] at h
      | ok v =>
        simp only [hx] at h
        cases hr : arrayElems o f z n r with
        | error e => simp [hr] at h
        | ok vr =>
          simp only [JTree.dupFreeL, hf x List.mem_cons_self _ _ hx, Bool.true_and]
          exact ih hr (fun y hy => hf y (List.mem_cons_of_mem _ hy))

theorem objFold_dupFree {o : UOpts} (ho : o.allowDup = false) {dec : Bytes → Option Dec} {z : Bytes → GoVal} {ms : List (Bytes × JTree)}
    {m m' : List (Bytes × GoVal)} (h : objFold o dec z ms [] m = .ok m')
    (hf : ∀ n j f, (n, j) ∈ ms → dec n = some f → ∀ p v, f j p = .ok v → j.dupFree = true) :
    (JTree.obj ms).dupFree = true := by
  have hnd := (objFold_nodup ho h).1
  have F := objFold_facts hnd h
  rw [dupFree_obj]
  refine ⟨hnd, ?_⟩
  intro n j hm
  cases hd : dec n with
  | none => simpa [skipOK, ho] using F.unknown n j hm hd
  | some f =>
    obtain ⟨v, hv, _⟩ := F.known n j f hm hd
    exact hf n j f hm hd _ _ hv

theorem unmAny_dupFree (o : UOpts) (ho : o.allowDup = false) : ∀ (j : JTree) (p v : GoVal), unmAny o j p = .ok v → j.dupFree = true := by
  intro j
  induction j using JTree.induct with
  | harr xs ih =>
    intro p v h
    simp only [unmAny] at h
    cases hp : anyPrior o (.arr xs) p isSliceV with
    | error e => simp [hp] at h
    | ok u =>
      simp only [hp] at h
      cases hl : unmAnyL o xs with
      | error e => simp [hl] at h
      | ok vs =>
        rw [unmAnyL_eq] at hl
        simp only [JTree.dupFree]
        exact elemsFresh_dupFree hl (fun x hx p v hv => ih x hx p v hv)
  | hobj ms ih =>
    intro p v h
    have key : ∀ m0 m, unmAnyM o ms [] m0 = .ok m → (JTree.obj ms).dupFree = true := by
      intro m0 m hm
      rw [unmAnyM_eq] at hm
      apply objFold_dupFree ho hm
      intro n j f hmem hd p v hv
      simp only [Option.some.injEq] at hd
      subst hd
      exact ih n j hmem p v hv
    simp only [unmAny] at h
    split at h
    · cases hm : unmAnyM o ms [] [] with
      | error e => simp [hm] at h
      | ok m => exact key _ _ hm
    · cases hm : unmAnyM o ms [] [] with
      | error e => simp [hm] at h
      | ok m => exact key _ _ hm
    · rename_i m0
      cases hm : unmAnyM o ms [] m0 with
      | error e => simp [hm] at h
      | ok m => exact key _ _ hm
    · cases h
    · cases h
  | _ => intro p v _; rfl

theorem unm_dupFree (o : UOpts) (ho : o.allowDup = false) : ∀ (T : GoType) (j : JTree) (p v : GoVal), unm o T j p = .ok v → j.dupFree = true := by
  intro T
  induction T using GoType.induct with
  | hbool => intro j p v h; cases j <;> first | rfl | (simp [unm, unmBool] at h)
  | hint b => intro j p v h; cases j <;> first | rfl | (simp [unm, unmInt] at h)
  | huint b => intro j p v h; cases j <;> first | rfl | (simp [unm, unmUint] at h)
  | hfloat => intro j p v h; cases j <;> first | rfl | (simp [unm, unmFloat] at h)
  | hstring => intro j p v h; cases j <;> first | rfl | (simp [unm, unmString] at h)
  | hany => intro j p v h; rw [unm_any_eq] at h; exact unmAny_dupFree o ho j p v h
  | hslice t ih =>
    intro j p v h
    cases j with
    | arr xs =>
      simp only [unm] at h
      cases he : elemsFresh (unm o t) t.zero xs with
      | error e => simp [he] at h
      | ok vs => simp only [JTree.dupFree]; exact elemsFresh_dupFree he (fun x _ p v hv => ih x p v hv)
    | obj ms => simp [unm] at h
    | _ => rfl
  | harray n t ih =>
    intro j p v h
    cases j with
    | arr xs =>
      simp only [unm] at h
      cases he : arrayElems o (unm o t) t.zero n xs with
      | error e => simp [he] at h
      | ok vs => simp only [JTree.dupFree]; exact arrayElems_dupFree ho he (fun x _ p v hv => ih x p v hv)
    | obj ms => simp [unm] at h
    | _ => rfl
  | hmap t ih =>
    intro j p v h
    cases j with
    | obj ms =>
      have key : ∀ m0 m, objFold o (fun _ => some (unm o t)) (fun _ => t.zero) ms [] m0 = .ok m →
          (JTree.obj ms).dupFree = true := by
        intro m0 m hm
        apply objFold_dupFree ho hm
        intro n j f _ hd p v hv
        simp only [Option.some.injEq] at hd
        subst hd
        exact ih j p v hv
      simp only [unm] at h
      split at h
      · cases hm : objFold o (fun _ => some (unm o t)) (fun _ => t.zero) ms [] [] with
        | error e => simp [hm] at h
        | ok m => exact key _ _ hm
      · rename_i m0
        cases hm : objFold o (fun _ => some (unm o t)) (fun _ => t.zero) ms [] m0 with
        | error e => simp [hm] at h
        | ok m => exact key _ _ hm
      · cases h
    | arr xs => simp [unm] at h
    | _ => rfl
  | hstruct fs ih =>
    intro j p v h
    cases j with
    | obj ms =>
      simp only [unm] at h
      split at h
      · rename_i fvs
        cases hm : objFold o (fieldDec o fs) (fieldZero fs) ms [] fvs with
        | error e => simp [hm] at h
        | ok m =>
          apply objFold_dupFree ho hm
          intro n j f _ hd p v hv
          obtain ⟨t, hl, rfl⟩ := fieldDec_some hd
          exact ih n t (alookup_mem hl) j p v hv
      · cases h
    | arr xs => simp [unm] at h
    | _ => rfl
  | hptr t ih =>
    intro j p v h
    cases hn : j.isNull with
    | true => cases j <;> simp_all [JTree.isNull, JTree.dupFree]
    | false =>
      rw [unm_ptr o t j p hn] at h
      split at h
      · cases hv : unm o t j t.zero with
        | error e => simp [hv] at h
        | ok w => exact ih j _ _ hv
      · rename_i v0
        cases hv : unm o t j v0 with
        | error e => simp [hv] at h
        | ok w => exact ih j _ _ hv
      · cases h

/-! ### Chains -/

/-- `merge_law_unm` with the duplicate-freeness derived from the success of the two calls. -/
theorem merge_law_unm' (o : UOpts) (ho : o.allowDup = false) (T : GoType) (hwf : T.wf = true) (j1 j2 : JTree) (v1 v2 : GoVal)
    (h1 : unm o T j1 T.zero = .ok v1) (h2 : unm o T j2 v1 = .ok v2) :
    unm o T (JTree.merge j1 j2) T.zero = .ok v2 :=
  merge_law_unm o T hwf j1 j2 v1 v2 (unm_dupFree o ho T j1 _ _ h1) (unm_dupFree o ho T j2 _ _ h2) h1 h2

theorem chain_fold (o : UOpts) (ho : o.allowDup = false) (T : GoType) (hwf : T.wf = true) :
    ∀ (js : List JTree) (acc : JTree) (v0 v : GoVal),
      unm o T acc T.zero = .ok v0 → unmChain o T js v0 = .ok v →
      unm o T (js.foldl JTree.merge acc) T.zero = .ok v := by
  intro js
  induction js with
  | nil => intro acc v0 v h0 h; simp only [unmChain, Except.ok.injEq] at h; subst h; exact h0
  | cons j r ih =>
    intro acc v0 v h0 h
    simp only [unmChain] at h
    cases hj : unm o T j v0 with
    | error e => simp [hj] at h
    | ok v1 =>
      simp only [hj] at h
      exact ih (JTree.merge acc j) v1 v (merge_law_unm' o ho T hwf acc j v0 v1 h0 hj) h

end JsonV.Lemmas.Merge
