/-
Rejected calls of the Encoder model leave the state unchanged; scripts and their accepted sub-scripts.
Core Lean only.
-/
import JsonV.Model.Encoder

namespace JsonV.Lemmas.EncNoop
open JsonV.Model JsonV.Model.Encoder

/-- A call of the public API. -/
inductive Call where
  | tok (t : Tok)
  | val (v : Bytes)
deriving Repr, DecidableEq

def doCall (e : Enc) : Call → Enc × Option EncErr
  | .tok t => writeToken e t
  | .val v => writeValue e v

/-- The shape shared by every exit of `writeToken`/`writeValue`. -/
theorem fin_noop {e e' : Enc} {b : Bytes} {r : Except EncErr (Machine × List (List Bytes))} {err : EncErr}
    (h : (match r with
      | .ok (m, ns) => (commit e b m ns, (none : Option EncErr))
      | .error x => (e, some x)) = (e', some err)) : e' = e := by
  cases r with
  | ok p => simp at h
  | error x => simp at h; exact h.1.symm

theorem writeToken_noop (e : Enc) (t : Tok) (err : EncErr) (e' : Enc)
    (h : writeToken e t = (e', some err)) : e' = e := by
  unfold writeToken at h
  cases t <;> simp only at h
  case str s =>
    split at h
    · simp at h; exact h.1.symm
    · exact fin_noop h
  all_goals exact fin_noop h

theorem writeValue_noop (e : Enc) (v : Bytes) (err : EncErr) (e' : Enc)
    (h : writeValue e v = (e', some err)) : e' = e := by
  unfold writeValue at h
  simp only at h
  split at h
  · simp at h; exact h.1.symm
  · split at h
    · simp at h; exact h.1.symm
    · exact fin_noop h

theorem doCall_noop (e : Enc) (c : Call) (err : EncErr) (e' : Enc)
    (h : doCall e c = (e', some err)) : e' = e := by
  cases c with
  | tok t => exact writeToken_noop e t err e' h
  | val v => exact writeValue_noop e v err e' h

/-- Run a script; a rejected call is reported and the run continues (as a caller of the API would). -/
def run : Enc → List Call → Enc × List (Option EncErr)
  | e, [] => (e, [])
  | e, c :: cs =>
    let (e1, r) := doCall e c
    let (e2, rs) := run e1 cs
    (e2, r :: rs)

/-- The calls of a script that are accepted when it is run from `e`. -/
def accepted : Enc → List Call → List Call
  | _, [] => []
  | e, c :: cs =>
    match doCall e c with
    | (e1, none) => c :: accepted e1 cs
    | (e1, some _) => accepted e1 cs

/-- Deleting the rejected calls changes neither the final state nor any later result:
the accepted sub-script runs without rejection to the same state. -/
theorem run_accepted (cs : List Call) : ∀ e : Enc,
    run e (accepted e cs) = ((run e cs).1, (accepted e cs).map fun _ => none) := by
  induction cs with
  | nil => intro e; simp [run, accepted]
  | cons c cs ih =>
    intro e
    cases hc : doCall e c with
    | mk e1 r =>
      cases r with
      | none =>
        simp only [accepted, hc, run, List.map_cons]
        rw [ih e1]
      | some err =>
        have : e1 = e := doCall_noop e c err e1 hc
        subst this
        simp only [accepted, hc, run]
        rw [ih e1]

end JsonV.Lemmas.EncNoop
