/-
Glue C12 ↔ C01, strings: the C12 recogniser `scanStr` (permissive UTF-8 mode) accepts exactly the string
literals `JString (strict := false)` of Spec/Grammar.lean.
-/
import JsonV.Lemmas.FormatLex
import JsonV.Spec.Grammar

namespace JsonV.Fmt
open JsonV.Spec.Grammar

/-! ### byte facts -/

theorem hexDigit_iff : ∀ c : UInt8, HexDigit c ↔ isHex c = true := by
  unfold HexDigit; apply forall_u8; decide +kernel

theorem simpleEscape_iff : ∀ c : UInt8, SimpleEscape c ↔ isSimpleEsc c = true := by
  unfold SimpleEscape; apply forall_u8; decide +kernel

theorem simpleEsc_ne_u : ∀ c : UInt8, isSimpleEsc c = true → c ≠ 0x75 := by
  apply forall_u8; decide +kernel

/-- what the body state does, by class of byte -/
theorem next_body : ∀ c : UInt8, SSt.body.next c =
    (if c = 0x22 then some none else if c = 0x5c then some (some .esc)
     else if 0x20 ≤ c then some (some .body) else none) := by
  apply forall_u8; decide +kernel

theorem high_plain : ∀ c : UInt8, 0x80 ≤ c → SSt.body.next c = some (some .body) := by
  apply forall_u8; decide +kernel

theorem plain_next (c : UInt8) (h1 : 0x20 ≤ c) (h2 : c ≠ 0x22) (h3 : c ≠ 0x5c) :
    SSt.body.next c = some (some .body) := by
  rw [next_body]; simp [h1, h2, h3]

theorem lead_high : ∀ c : UInt8, (Model.Utf8.leadInfo c.toNat).isSome = true → 0x80 ≤ c := by
  apply forall_u8; decide +kernel

theorem cont_high : ∀ c : UInt8, Model.Utf8.isCont c.toNat = true → 0x80 ≤ c := by
  apply forall_u8; decide +kernel

theorem second_high (c : UInt8) (b0 : UInt8) (sz lo hi : Nat) (h : Model.Utf8.leadInfo b0.toNat = some (sz, lo, hi))
    (h1 : lo ≤ c.toNat) : 0x80 ≤ c := by
  have hlo : 0x80 ≤ lo := by
    unfold Model.Utf8.leadInfo at h
    repeat' split at h
    all_goals (first | (simp at h; omega) | simp at h)
  rw [UInt8.le_iff_toNat_le]
  simp; omega

theorem utf8Multi_high (p : Bytes) (h : Utf8Multi p) : ∀ c ∈ p, 0x80 ≤ c := by
  obtain ⟨b0, b1, rest, sz, lo, hi, rfl, hl, _, h1, _, hr⟩ := h
  intro c hc
  simp only [List.mem_cons] at hc
  rcases hc with rfl | rfl | hc
  · exact lead_high _ (by simp [hl])
  · exact second_high _ b0 sz lo hi hl h1
  · exact cont_high c (hr c hc)

/-! ### stepping the scanner -/

theorem scanStr_cons_cont (st st' : SSt) (c : UInt8) (cs : Bytes) (h : st.next c = some (some st')) :
    scanStr st (c :: cs) = consFst c (scanStr st' cs) := by
  simp [scanStr, h]

theorem scanStr_high (p r a' r' : Bytes) (hp : ∀ c ∈ p, 0x80 ≤ c) (h : scanStr .body r = some (a', r')) :
    scanStr .body (p ++ r) = some (p ++ a', r') := by
  induction p with
  | nil => exact h
  | cons c cs ih =>
    rw [List.cons_append, scanStr_cons_cont _ _ _ _ (high_plain c (hp c (by simp))),
      ih (fun x hx => hp x (List.mem_cons_of_mem _ hx))]
    rfl

theorem next_esc_u : SSt.esc.next 0x75 = some (some .h4) := by decide
theorem next_body_bs : SSt.body.next 0x5c = some (some .esc) := by decide

theorem next_hex (c : UInt8) (h : isHex c = true) :
    SSt.h4.next c = some (some .h3) ∧ SSt.h3.next c = some (some .h2) ∧ SSt.h2.next c = some (some .h1) ∧
    SSt.h1.next c = some (some .body) := by
  simp [SSt.next, h]

theorem scanStr_uni (a b c d : UInt8) (r a' r' : Bytes) (ha : isHex a = true) (hb : isHex b = true)
    (hc : isHex c = true) (hd : isHex d = true) (h : scanStr .body r = some (a', r')) :
    scanStr .body (0x5c :: 0x75 :: a :: b :: c :: d :: r) = some (0x5c :: 0x75 :: a :: b :: c :: d :: a', r') := by
  rw [scanStr_cons_cont _ _ _ _ next_body_bs, scanStr_cons_cont _ _ _ _ next_esc_u,
    scanStr_cons_cont _ _ _ _ (next_hex a ha).1, scanStr_cons_cont _ _ _ _ (next_hex b hb).2.1,
    scanStr_cons_cont _ _ _ _ (next_hex c hc).2.2.1, scanStr_cons_cont _ _ _ _ (next_hex d hd).2.2.2, h]
  rfl

/-- one `char` of the grammar is consumed by the scanner -/
theorem jchar_scan (ch : Bytes) (hch : JChar false ch) (r a' r' : Bytes) (h : scanStr .body r = some (a', r')) :
    scanStr .body (ch ++ r) = some (ch ++ a', r') := by
  cases hch with
  | plain c h1 _ h3 h4 =>
    rw [List.singleton_append, scanStr_cons_cont _ _ _ _ (plain_next c h1 h3 h4), h]; rfl
  | utf8 _ hp => exact scanStr_high ch r a' r' (utf8Multi_high ch hp) h
  | raw c _ hc => exact scanStr_high [c] r a' r' (by simpa using hc) h
  | esc c hc =>
    have hs := (simpleEscape_iff c).mp hc
    have : SSt.esc.next c = some (some .body) := by simp [SSt.next, hs, simpleEsc_ne_u c hs]
    show scanStr .body (0x5c :: c :: r) = _
    rw [scanStr_cons_cont _ _ _ _ next_body_bs, scanStr_cons_cont _ _ _ _ this, h]; rfl
  | uni a b c d ha hb hc hd _ =>
    exact scanStr_uni a b c d r a' r' ((hexDigit_iff a).mp ha) ((hexDigit_iff b).mp hb)
      ((hexDigit_iff c).mp hc) ((hexDigit_iff d).mp hd) h
  | pair a b c d e f g k ha hb hc hd he hf hg hk _ _ =>
    have h2 := scanStr_uni e f g k r a' r' ((hexDigit_iff e).mp he) ((hexDigit_iff f).mp hf)
      ((hexDigit_iff g).mp hg) ((hexDigit_iff k).mp hk) h
    exact scanStr_uni a b c d _ _ r' ((hexDigit_iff a).mp ha) ((hexDigit_iff b).mp hb)
      ((hexDigit_iff c).mp hc) ((hexDigit_iff d).mp hd) h2

theorem jchars_scan (body : Bytes) (h : JChars false body) (r : Bytes) :
    scanStr .body (body ++ 0x22 :: r) = some (body ++ [0x22], r) := by
  induction h with
  | nil => simp [scanStr, SSt.next]
  | cons c rest hc _ ih =>
    rw [List.append_assoc, jchar_scan c hc _ _ _ ih, List.append_assoc]

/-! ### the converse: what the scanner accepts is a sequence of `char`s -/

theorem scanStr_full_cons (st : SSt) (c : UInt8) (cs : Bytes) (h : scanStr st (c :: cs) = some (c :: cs, [])) :
    (st.next c = some none ∧ cs = []) ∨ (∃ st', st.next c = some (some st') ∧ scanStr st' cs = some (cs, [])) := by
  unfold scanStr at h
  split at h
  · simp at h
  · rename_i hn
    simp only [Option.some.injEq, Prod.mk.injEq] at h
    exact Or.inl ⟨hn, h.2⟩
  · rename_i st' hn
    obtain ⟨a', ha, h'⟩ := consFst_eq_some.mp h
    simp only [List.cons.injEq, true_and] at ha
    subst ha
    exact Or.inr ⟨st', hn, h'⟩

theorem scanStr_hex_cons (st stn : SSt) (hst : ∀ c, st.next c = if isHex c then some (some stn) else none)
    (a : Bytes) (h : scanStr st a = some (a, [])) :
    ∃ c cs, a = c :: cs ∧ isHex c = true ∧ scanStr stn cs = some (cs, []) := by
  cases a with
  | nil => simp [scanStr] at h
  | cons c cs =>
    rcases scanStr_full_cons st c cs h with ⟨hn, _⟩ | ⟨st', hn, h'⟩
    · rw [hst] at hn; split at hn <;> simp at hn
    · rw [hst] at hn
      split at hn
      · rename_i hx
        simp only [Option.some.injEq] at hn
        subst hn
        exact ⟨c, cs, rfl, hx, h'⟩
      · simp at hn

theorem jchars_of_scan : ∀ (n : Nat) (a : Bytes), a.length ≤ n → scanStr .body a = some (a, []) →
    ∃ body, JChars false body ∧ a = body ++ [0x22] := by
  intro n
  induction n with
  | zero =>
    intro a hl h
    have : a = [] := List.length_eq_zero_iff.mp (Nat.le_zero.mp hl)
    subst this; simp [scanStr] at h
  | succ n ih =>
    intro a hl h
    cases a with
    | nil => simp [scanStr] at h
    | cons c cs =>
      simp only [List.length_cons] at hl
      rcases scanStr_full_cons _ c cs h with ⟨hn, rfl⟩ | ⟨st', hn, h'⟩
      · -- closing quote
        rw [next_body] at hn
        split at hn
        · rename_i hc; subst hc; exact ⟨[], JChars.nil, rfl⟩
        · split at hn
          · simp at hn
          · split at hn <;> simp at hn
      · rw [next_body] at hn
        split at hn
        · simp at hn
        · split at hn
          · -- escape
            rename_i _ hbs
            simp only [Option.some.injEq] at hn
            subst hn; subst hbs
            cases cs with
            | nil => simp [scanStr] at h'
            | cons e cs2 =>
              simp only [List.length_cons] at hl
              rcases scanStr_full_cons _ e cs2 h' with ⟨hn2, _⟩ | ⟨st2, hn2, h2⟩
              · simp only [SSt.next] at hn2; split at hn2 <;> (try split at hn2) <;> simp at hn2
              · simp only [SSt.next] at hn2
                split at hn2
                · -- \uXXXX
                  rename_i hu
                  simp only [Option.some.injEq] at hn2
                  subst hn2; subst hu
                  obtain ⟨x1, r1, rfl, hx1, h3⟩ := scanStr_hex_cons .h4 .h3 (fun _ => rfl) cs2 h2
                  obtain ⟨x2, r2, rfl, hx2, h4⟩ := scanStr_hex_cons .h3 .h2 (fun _ => rfl) r1 h3
                  obtain ⟨x3, r3, rfl, hx3, h5⟩ := scanStr_hex_cons .h2 .h1 (fun _ => rfl) r2 h4
                  obtain ⟨x4, r4, rfl, hx4, h6⟩ := scanStr_hex_cons .h1 .body (fun _ => rfl) r3 h5
                  simp only [List.length_cons] at hl
                  obtain ⟨body, hb, rfl⟩ := ih r4 (by omega) h6
                  refine ⟨[0x5c, 0x75, x1, x2, x3, x4] ++ body, JChars.cons _ _ ?_ hb, rfl⟩
                  exact JChar.uni x1 x2 x3 x4 ((hexDigit_iff _).mpr hx1) ((hexDigit_iff _).mpr hx2)
                    ((hexDigit_iff _).mpr hx3) ((hexDigit_iff _).mpr hx4) (by simp)
                · split at hn2
                  · rename_i hse
                    simp only [Option.some.injEq] at hn2
                    subst hn2
                    obtain ⟨body, hb, rfl⟩ := ih cs2 (by omega) h2
                    exact ⟨[0x5c, e] ++ body, JChars.cons _ _ (JChar.esc e ((simpleEscape_iff e).mpr hse)) hb, rfl⟩
                  · simp at hn2
          · split at hn
            · -- ordinary byte
              rename_i hq hbs h20
              simp only [Option.some.injEq] at hn
              subst hn
              obtain ⟨body, hb, rfl⟩ := ih cs (by omega) h'
              refine ⟨[c] ++ body, JChars.cons _ _ ?_ hb, rfl⟩
              by_cases h80 : c < 0x80
              · exact JChar.plain c h20 h80 hq hbs
              · exact JChar.raw c rfl (UInt8.not_lt.mp h80)
            · simp at hn

/-- **`scanStr` = the string grammar of RFC 8259 in the permissive UTF-8 mode.** -/
theorem str_valid_iff (raw : Bytes) : (Tok.str raw).valid = true ↔ JString false raw := by
  constructor
  · intro h
    obtain ⟨a, rfl, ha⟩ := Tok.valid_str h
    obtain ⟨body, hb, rfl⟩ := jchars_of_scan a.length a (Nat.le_refl _) ha
    exact ⟨body, hb, rfl⟩
  · rintro ⟨body, hb, rfl⟩
    have := jchars_scan body hb []
    simp [Tok.valid, this]

end JsonV.Fmt
