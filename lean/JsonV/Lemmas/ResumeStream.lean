/-
The generic simulation lemma for the refill loops of Model/Stream.lean and its four instances (C05):
whatever the reader delivers and however it is cut, a refill loop that is not interrupted by a fault returns what the
whole-input function returns on (buffer ++ everything still to come), and nothing is lost or duplicated.
Core Lean only.
-/
import JsonV.Model.Stream
import JsonV.Lemmas.ResumeNum
import JsonV.Lemmas.ResumeStr
import JsonV.Lemmas.ResumeLit

namespace JsonV.Model.Stream
open JsonV JsonV.Model

/-- what a completed refill loop guarantees w.r.t. a whole-input function `W` -/
def FillOk {β : Type} (W : Bytes → β) (v : Bytes) (es : List Event) : Fill β → Prop
  | .done b v' es' _ => b = W (v ++ avail es) ∧ b = W v' ∧ v' ++ avail es' = v ++ avail es ∧ es'.length ≤ es.length ∧
      v.length ≤ v'.length
  | .fault v' es' => v' ++ avail es' = v ++ avail es ∧ es'.length < es.length ∧ v.length ≤ v'.length

theorem FillOk.setFetched {β : Type} {W : Bytes → β} {v v0 : Bytes} {d : Bytes} {es : List Event} {f : Fill β}
    (h : FillOk W (v ++ d) es f) (hv : v0 = v) : FillOk W v0 (.chunk d :: es) f.setFetched := by
  subst hv
  cases f with
  | done b v' es' fl =>
    obtain ⟨h1, h2, h3, h4, h5⟩ := h
    refine ⟨?_, h2, ?_, ?_, ?_⟩
    · simpa [avail, List.append_assoc] using h1
    · simpa [avail, List.append_assoc] using h3
    · simp; omega
    · simp at h5; omega
  | fault v' es' =>
    obtain ⟨h1, h2, h3⟩ := h
    refine ⟨?_, ?_, ?_⟩
    · simpa [avail, List.append_assoc] using h1
    · simp; omega
    · simp at h3; omega

/-- The generic lemma.  `I` is the loop invariant ("the saved resume state is as good as a fresh start");
`hdone`: a definitive answer is not changed by further input; `hmore`: after "need more" the invariant holds on
every extension, and the answer at end of input is the whole-input answer. -/
theorem refill_ok {α β : Type} (step : Bytes → α → α ⊕ β) (atEof : Bytes → α → β) (W : Bytes → β)
    (I : Bytes → α → Prop)
    (hdone : ∀ v a b, I v a → step v a = .inr b → ∀ e, W (v ++ e) = b)
    (hmore : ∀ v a a', I v a → step v a = .inl a' → (∀ d, I (v ++ d) a') ∧ W v = atEof v a') :
    ∀ (es : List Event) (v : Bytes) (a : α), I v a → FillOk W v es (refill step atEof v a es) := by
  intro es
  induction es with
  | nil =>
    intro v a hI
    simp only [refill]
    cases hs : step v a with
    | inr b =>
      have := hdone v a b hI hs
      exact ⟨by simpa [avail] using (this []).symm, by simpa using (this []).symm, rfl, Nat.le_refl _, Nat.le_refl _⟩
    | inl a' =>
      have := (hmore v a a' hI hs).2
      exact ⟨by simp [avail, this], this.symm, rfl, Nat.le_refl _, Nat.le_refl _⟩
  | cons ev es ih =>
    intro v a hI
    cases ev with
    | eof =>
      simp only [refill]
      cases hs : step v a with
      | inr b =>
        have := hdone v a b hI hs
        exact ⟨by simpa [avail] using (this []).symm, by simpa using (this []).symm, rfl, Nat.le_refl _, Nat.le_refl _⟩
      | inl a' =>
        have := (hmore v a a' hI hs).2
        exact ⟨by simp [avail, this], this.symm, rfl, Nat.le_refl _, Nat.le_refl _⟩
    | fault =>
      simp only [refill]
      cases hs : step v a with
      | inr b =>
        have := hdone v a b hI hs
        exact ⟨(this _).symm, by simpa using (this []).symm, rfl, Nat.le_refl _, Nat.le_refl _⟩
      | inl a' => exact ⟨by simp [avail], by simp, Nat.le_refl _⟩
    | chunk d =>
      simp only [refill]
      cases hs : step v a with
      | inr b =>
        have := hdone v a b hI hs
        exact ⟨(this _).symm, by simpa using (this []).symm, rfl, Nat.le_refl _, Nat.le_refl _⟩
      | inl a' =>
        have hI' := (hmore v a a' hI hs).1 d
        exact (ih (v ++ d) a' hI').setFetched rfl

/-- blanks over the whole input: offset of the first non-blank byte, and whether there is one -/
def wsW (t : Bytes) : Nat × Bool :=
  if Resume.consumeWhitespace t = t.length then (Resume.consumeWhitespace t, false) else (Resume.consumeWhitespace t, true)

theorem sWhitespace_ok (v : Bytes) (p : Nat) (es : List Event) (hp : p ≤ Resume.consumeWhitespace v) :
    FillOk wsW v es (sWhitespace v p es) := by
  unfold sWhitespace
  apply refill_ok wsStep (fun _ p => (p, false)) wsW (fun v p => p ≤ Resume.consumeWhitespace v)
  · intro v a b hI hs e
    unfold wsStep at hs
    rw [Resume.consumeWhitespace_drop v a hI] at hs
    have hle := Resume.consumeWhitespace_le v
    split at hs
    · simp at hs
    · rename_i hne
      simp at hs; subst hs
      unfold wsW
      rw [Resume.consumeWhitespace_append, if_neg hne]
      have : ¬ (Resume.consumeWhitespace v = (v ++ e).length) := by simp; omega
      rw [if_neg this]
  · intro v a a' hI hs
    unfold wsStep at hs
    rw [Resume.consumeWhitespace_drop v a hI] at hs
    split at hs
    · rename_i heq
      simp at hs; subst hs
      constructor
      · intro d; rw [Resume.consumeWhitespace_append, if_pos heq]; omega
      · simp [wsW, heq]
    · simp at hs
  · exact hp

def litW (lit : Bytes) (t : Bytes) : Nat × Resume.Err := Resume.consumeLiteral t lit

theorem sLiteral_ok (lit v : Bytes) (es : List Event) : FillOk (litW lit) v es (sLiteral lit v es) := by
  unfold sLiteral
  apply refill_ok (litStep lit) (fun v _ => Resume.consumeLiteral v lit) (litW lit) (fun _ _ => True)
  · intro v a b _ hs e
    unfold litStep at hs
    split at hs
    · simp at hs
    · rename_i hne
      simp at hs; subst hs
      exact Resume.consumeLiteral_stable v lit e hne
  · intro v a a' _ hs
    exact ⟨fun _ => trivial, rfl⟩
  · trivial

def strW (vld : Bool) (t : Bytes) : Nat × Resume.VFlags × Resume.Err := Resume.consumeStringResumable .none t 0 vld

theorem sString_ok (vld : Bool) (v : Bytes) (es : List Event) : FillOk (strW vld) v es (sString vld v es) := by
  unfold sString
  apply refill_ok (strStep vld) (fun _ a => (a.1, a.2, .eof)) (strW vld)
    (fun v a => Resume.StrFresh .none vld v a.1 a.2)
  · intro v a b hI hs e
    unfold strStep at hs
    have h0 := hI []
    simp only [List.append_nil] at h0
    split at hs
    · simp at hs
    · rename_i hne
      simp at hs; subst hs
      rw [h0] at hne ⊢
      exact Resume.str_stable .none v e vld hne
  · intro v a a' hI hs
    unfold strStep at hs
    have h0 := hI []
    simp only [List.append_nil] at h0
    split at hs
    · rename_i heq
      simp at hs; subst hs
      rw [h0] at heq ⊢
      constructor
      · intro d e
        have := Resume.str_resume_eq .none v (d ++ e) vld _ _ (by rw [← heq])
        simpa [List.append_assoc] using this
      · unfold strW
        exact Prod.ext rfl (Prod.ext rfl heq)
    · simp at hs
  · intro e; rfl

def numW (t : Bytes) : Nat × Resume.Err := Resume.consumeNumberChunks t 0 0 []

theorem sNumber_ok (v : Bytes) (es : List Event) : FillOk numW v es (sNumber v es) := by
  unfold sNumber
  apply refill_ok numStep (fun _ a => if a.2.2 then (a.1, .ok) else (0, .eof)) numW
    (fun v a => Resume.FreshEquiv v a.1 a.2.1)
  · intro v a b hI hs e
    unfold numStep at hs
    obtain ⟨hn, herr, _⟩ := by simpa using hI []
    split at hs
    · simp at hs
    · rename_i hcond
      simp at hs; subst hs
      have hdef : Resume.Definitive v.length (Resume.consumeNumberResumable v 0 0) := by
        unfold Resume.Definitive; rw [← hn, ← herr]
        exact ⟨fun h => hcond (Or.inl h), fun h => hcond (Or.inr h)⟩
      have hstab := Resume.num_stable v e hdef
      have hb := Resume.num_bound v
      unfold numW
      rw [Resume.consumeNumberChunks_nil, hstab]
      simp only
      have hne : ¬ ((Resume.consumeNumberResumable v 0 0).2.2 = .eof ∨
          (Resume.consumeNumberResumable v 0 0).1 = (v ++ e).length) := by
        rintro (h | h)
        · exact hdef.1 h
        · have := hdef.2; simp at h; omega
      rw [if_neg hne, hn, herr]
  · intro v a a' hI hs
    unfold numStep at hs
    obtain ⟨hn, herr, hst⟩ := by simpa using hI []
    split at hs
    · rename_i hcond
      simp at hs; subst hs
      have hcond0 : (Resume.consumeNumberResumable v 0 0).2.2 = .eof ∨ (Resume.consumeNumberResumable v 0 0).1 = v.length := by
        rw [← hn, ← herr]; exact hcond
      have hres0 := (Resume.refill_iff_resumable v).mp hcond0
      have hres : Resume.Resumable v.length (Resume.consumeNumberResumable v a.1 a.2.1) := by
        unfold Resume.Resumable at *; rw [hn, herr]; exact hres0
      constructor
      · intro d e
        simp only
        rw [hn, hst hres]
        have := Resume.num_resume_equiv v (d ++ e) hres0
        simpa [List.append_assoc] using this
      · unfold numW
        rw [Resume.consumeNumberChunks_nil]
        simp only [hcond0, if_true, herr]
        by_cases hok : (Resume.consumeNumberResumable v 0 0).2.2 = .ok
        · simp [hok, hn]
        · simp [hok]
    · simp at hs
  · exact Resume.freshEquiv_init v


end JsonV.Model.Stream
