/-
The token path simulates the value path (and rejects whenever the value path rejects): the induction over the
fuel of the value-path recogniser.  Both paths call the SAME scanners (`valueLiteral`, `valueString`,
`valueNumber`) on the same bytes, so no grammar is involved here.
-/
import JsonV.Lemmas.WireTokens

namespace JsonV.Lemmas.WireTokenSim
open JsonV JsonV.Model JsonV.Model.Wire JsonV.Model.Validate JsonV.Model.TokenLoop JsonV.Spec.Grammar
open JsonV.Spec JsonV.Spec.PDA
open JsonV.Lemmas.WireBasic JsonV.Lemmas.WireNumber JsonV.Lemmas.WireComplete JsonV.Lemmas.WireValue JsonV.Lemmas.WireFuel
open JsonV.Lemmas.StateRefine JsonV.Lemmas.StateRun JsonV.Lemmas.WireTokens

theorem byte_class : ∀ c : UInt8, isWs c = false →
    isStart c = true ∨ (c = 0x5D ∨ c = 0x7D) ∨ (c == 0x3A || c == 0x2C) = true ∨
      (normKind c = 0 ∧ isClosing c = false ∧ (c == 0x3A || c == 0x2C) = false) := by
  apply forall_u8; decide +kernel

theorem start_nc (c : UInt8) (h : isStart c = true) :
    isWs c = false ∧ isClosing c = false ∧ (c == 0x3A || c == 0x2C) = false := by
  obtain ⟨h1, h2, h3, h4, h5⟩ := start_facts c h
  refine ⟨h1, ?_, ?_⟩
  · simp only [isClosing, Bool.or_eq_false_iff]; exact ⟨h3, h2⟩
  · simp [h4, h5]

/-- a token state aligned with a value position of the value path -/
structure AtValue (b D : Nat) (st : TState) (f : Frame) (frest : Frames) (pre : Bytes) (c : UInt8) (tl : Bytes) : Prop where
  good : TGood b st (f :: frest)
  depth : frest.length + 1 = D
  vpos : f.needName = false
  pre : PreOK (ncDelim (f :: frest)) pre
  cws : isWs c = false
  guard : f = .arr 0 → frest ≠ [] → c ≠ 0x5D
  room : b + (c :: tl).length + 1 < 2^61

/-- the tokens of one value are read: `T` tokens, `n` bytes, the frame is bumped, the namespaces are as before -/
def OkStep (o : VOpts) (b D : Nat) (st : TState) (f : Frame) (frest : Frames) (pre r : Bytes) (n cnt base : Nat) : Prop :=
  ∃ T st', 1 ≤ T ∧ T ≤ n ∧ n ≤ r.length ∧ TGood (b + T) st' (f.bump :: frest) ∧ st'.nss = st.nss ∧
    Steps o T st (pre ++ r) cnt base st' (r.drop n) (if D = 1 then cnt + 1 else cnt) (base + pre.length + n)

def Concl (o : VOpts) (b D : Nat) (st : TState) (f : Frame) (frest : Frames) (pre r : Bytes) (cnt base : Nat)
    (res : Nat × Err) : Prop :=
  (res.2 = .ok → OkStep o b D st f frest pre r res.1 cnt base) ∧
  (res.2 ≠ .ok → ∀ F, Rej cnt (tokenLoop o F st (pre ++ r) cnt base))

theorem tok_value_step (o : VOpts) {b D : Nat} {st st' : TState} {f : Frame} {frest : Frames} (pre r : Bytes) (n cnt base : Nat)
    (hrt : readToken o st (pre ++ r) = .tok (pre.length + n) st') (hg' : TGood (b + 1) st' (f.bump :: frest))
    (hns : st'.nss = st.nss) (hn : 1 ≤ n) (hnl : n ≤ r.length) (hD : frest.length + 1 = D) :
    OkStep o b D st f frest pre r n cnt base := by
  refine ⟨1, st', Nat.le_refl _, hn, hnl, hg', hns, ?_⟩
  have h1 := steps_one o st st' (pre ++ r) cnt base (pre.length + n) hrt (by omega)
  have hdrop : (pre ++ r).drop (pre.length + n) = r.drop n := by
    rw [← List.drop_drop]; simp
  have hdepth : st'.m.depth = D := by rw [good_depth hg']; simp; omega
  rw [hdrop, hdepth] at h1
  have hc : (if (D == 1) = true then cnt + 1 else cnt) = (if D = 1 then cnt + 1 else cnt) := by
    by_cases h : D = 1 <;> simp [h]
  rw [hc, ← Nat.add_assoc] at h1
  exact h1

theorem step_scalar (f : Frame) (frest : Frames) (k : Kind) (hk : k = .lit ∨ k = .num ∨ k = .str) (hv : f.needName = false) :
    PDA.step maxNestingDepth (f :: frest) k = some (f.bump :: frest) := by
  rcases hk with rfl | rfl | rfl <;> simp [PDA.step, hv]

def SV (o : VOpts) (fuel : Nat) : Prop :=
  ∀ D c tl b st f frest pre cnt base, AtValue b D st f frest pre c tl → 3 * (c :: tl).length + 1 ≤ fuel →
    Concl o b D st f frest pre (c :: tl) cnt base (consumeValue o fuel D (c :: tl))

def SA (o : VOpts) (fuel : Nat) : Prop :=
  ∀ D tl b st f frest pre cnt base, AtValue b D st f frest pre 0x5B tl → 3 * (0x5B :: tl).length ≤ fuel →
    Concl o b D st f frest pre (0x5B :: tl) cnt base (consumeArray o fuel D (0x5B :: tl))

def SO (o : VOpts) (fuel : Nat) : Prop :=
  ∀ D tl b st f frest pre cnt base, AtValue b D st f frest pre 0x7B tl → 3 * (0x7B :: tl).length ≤ fuel →
    Concl o b D st f frest pre (0x7B :: tl) cnt base (consumeObject o fuel D (0x7B :: tl))

theorem not_bad_ne_ioeof {e : Err} (h : ¬ Bad e) : e ≠ .ioEOF := fun he => h (Or.inr he)

/-- a scalar token: the lexer's verdict decides -/
theorem scalar_concl (o : VOpts) {b D : Nat} {st : TState} {f : Frame} {frest : Frames} {pre : Bytes} {c : UInt8} {tl : Bytes}
    (ha : AtValue b D st f frest pre c tl) (hs : isStart c = true) (k : Kind) (hk : k = .lit ∨ k = .num ∨ k = .str)
    (n : Nat) (e : Err) (hbad : ¬ Bad e) (hn : e = .ok → 1 ≤ n ∧ n ≤ (c :: tl).length)
    (hlex : ∀ pos, lexToken o st pos (c :: tl) =
      if e != .ok then .err (pos + n) e
      else match smStep maxNestingDepth st.m k with
        | .error se => .err pos (smErr se)
        | .ok m' => .tok (pos + n) { m := m', nss := st.nss })
    (cnt base : Nat) : Concl o b D st f frest pre (c :: tl) cnt base (n, e) := by
  obtain ⟨hcw, hncl, hndb⟩ := start_nc c hs
  have hrt := readToken_pre o ha.good pre c tl ha.pre hcw hndb hncl
  rw [hlex] at hrt
  have hb1 : b + 1 < 2^61 := by have := ha.room; simp at this; omega
  constructor
  · intro he
    simp only at he
    subst he
    obtain ⟨m', hm', hg'⟩ := sm_ok ha.good hb1 k (step_scalar f frest k hk ha.vpos)
    simp only [bne_self_eq_false, Bool.false_eq_true, if_false, hm'] at hrt
    obtain ⟨h1, h2⟩ := hn rfl
    exact tok_value_step o pre (c :: tl) n cnt base hrt (hg' st.nss) rfl h1 h2 ha.depth
  · intro he
    simp only at he
    have : (e != .ok) = true := by simpa using he
    rw [this] at hrt
    simp only [if_true] at hrt
    exact rej_of_err o st _ cnt base _ _ hrt (not_bad_ne_ioeof hbad)

theorem good_needName {b : Nat} {st : TState} {f : Frame} {frest : Frames} (h : TGood b st (f :: frest)) :
    st.m.last.needObjectName = f.needName := by
  have := h.abs
  rw [abs_cons] at this
  simp only [List.cons.injEq] at this
  rw [← needName_abs, this.1]

theorem good_ns_flags {b : Nat} {st : TState} {fs : Frames} (h : TGood b st fs) :
    st.m.last.isValidNamespace = true ∧ st.m.last.isActiveNamespace = true :=
  ⟨valid_of_clean h.inv.last, active_of_clean h.inv.last⟩

theorem lex_literal (o : VOpts) (st : TState) (c : UInt8) (tl : Bytes) (lit : Bytes)
    (hk : (normKind c == 0x6E ∧ lit = litNull) ∨ (normKind c == 0x66 ∧ lit = litFalse) ∨ (normKind c == 0x74 ∧ lit = litTrue))
    (n : Nat) (e : Err) (hvl : valueLiteral lit (c :: tl) = (n, e)) (pos : Nat) :
    lexToken o st pos (c :: tl) =
      if e != .ok then .err (pos + n) e
      else match smStep maxNestingDepth st.m .lit with
        | .error se => .err pos (smErr se)
        | .ok m' => .tok (pos + n) { m := m', nss := st.nss } := by
  have hsm : smStep maxNestingDepth st.m .lit = st.m.appendLiteral := rfl
  rcases hk with ⟨hk, rfl⟩ | ⟨hk, rfl⟩ | ⟨hk, rfl⟩
  · have hk' : normKind c = 0x6E := by simpa using hk
    simp only [lexToken, hk', hvl, hsm, feed]
    simp
    cases st.m.appendLiteral <;> rfl
  · have hk' : normKind c = 0x66 := by simpa using hk
    simp only [lexToken, hk', hvl, hsm, feed]
    simp
    cases st.m.appendLiteral <;> rfl
  · have hk' : normKind c = 0x74 := by simpa using hk
    simp only [lexToken, hk', hvl, hsm, feed]
    simp
    cases st.m.appendLiteral <;> rfl

theorem lex_number (o : VOpts) (st : TState) (c : UInt8) (tl : Bytes) (hk : normKind c = 0x30)
    (n : Nat) (e : Err) (hvl : valueNumber (c :: tl) = (n, e)) (pos : Nat) :
    lexToken o st pos (c :: tl) =
      if e != .ok then .err (pos + n) e
      else match smStep maxNestingDepth st.m .num with
        | .error se => .err pos (smErr se)
        | .ok m' => .tok (pos + n) { m := m', nss := st.nss } := by
  have hsm : smStep maxNestingDepth st.m .num = st.m.appendNumber := rfl
  simp only [lexToken, hk, hvl, hsm, feed]
  simp
  cases st.m.appendNumber <;> rfl

theorem lex_string_value (o : VOpts) {b : Nat} {st : TState} {f : Frame} {frest : Frames} (hg : TGood b st (f :: frest))
    (hv : f.needName = false) (c : UInt8) (tl : Bytes) (hk : normKind c = 0x22)
    (n : Nat) (fl : ValueFlags) (e : Err) (hvl : valueString o (c :: tl) = (n, fl, e)) (pos : Nat) :
    lexToken o st pos (c :: tl) =
      if e != .ok then .err (pos + n) e
      else match smStep maxNestingDepth st.m .str with
        | .error se => .err pos (smErr se)
        | .ok m' => .tok (pos + n) { m := m', nss := st.nss } := by
  have hsm : smStep maxNestingDepth st.m .str = st.m.appendString := rfl
  have hnn : st.m.last.needObjectName = false := by rw [good_needName hg, hv]
  simp only [lexToken, hk, hvl, hsm]
  by_cases he : e = .ok
  · subst he
    have hlen : ((c :: tl).take n).length = n := by
      have := (valueString_sound o _ n fl hvl).1
      simp only [List.length_take]; omega
    simp [feedString, hnn, hlen]
    cases st.m.appendString <;> rfl
  · simp [he]

theorem start_kinds : ∀ c : UInt8, isStart c = true →
    normKind c = 0x6E ∨ normKind c = 0x66 ∨ normKind c = 0x74 ∨ normKind c = 0x22 ∨ normKind c = 0x30 ∨
      c = 0x7B ∨ c = 0x5B := by
  apply forall_u8; decide +kernel

theorem closing_value : ∀ c : UInt8, (c = 0x5D ∨ c = 0x7D) → ∀ (o : VOpts) (fuel D : Nat) (tl : Bytes),
    (consumeValue o (fuel + 1) D (c :: tl)).2 ≠ .ok := by
  intro c hc o fuel D tl
  rcases hc with rfl | rfl
  · have hk : normKind 0x5D = 0x5D := by decide
    simp [consumeValue, hk]
  · have hk : normKind 0x7D = 0x7D := by decide
    simp [consumeValue, hk]

theorem invalid_value (c : UInt8) (hk : normKind c = 0) (o : VOpts) (fuel D : Nat) (tl : Bytes) :
    (consumeValue o (fuel + 1) D (c :: tl)).2 ≠ .ok := by
  simp [consumeValue, hk]

theorem sv_step (o : VOpts) (fuel : Nat) (hA : SA o fuel) (hO : SO o fuel) : SV o (fuel + 1) := by
  intro D c tl b st f frest pre cnt base ha hfuel
  have hb1 : b + 1 < 2^61 := by have := ha.room; simp at this; omega
  rcases byte_class c ha.cws with hs | hcl | hdb | ⟨hk0, hncl, hndb⟩
  · rcases start_kinds c hs with hk | hk | hk | hk | hk | rfl | rfl
    · rcases hvl : valueLiteral litNull (c :: tl) with ⟨n, e⟩
      have : consumeValue o (fuel + 1) D (c :: tl) = (n, e) := by simp [consumeValue, hk, hvl]
      rw [this]
      have hbad := valueLiteral_no_fuel litNull (c :: tl); rw [hvl] at hbad
      refine scalar_concl o ha hs .lit (Or.inl rfl) n e hbad ?_ ?_ cnt base
      · intro he; subst he
        have := valueLiteral_sound litNull _ n (by decide) hvl
        have h2 := congrArg List.length this.2
        simp only [List.length_take] at h2
        exact ⟨by simp [litNull] at h2; omega, this.1⟩
      · exact lex_literal o st c tl litNull (Or.inl ⟨by simp [hk], rfl⟩) n e hvl
    · rcases hvl : valueLiteral litFalse (c :: tl) with ⟨n, e⟩
      have : consumeValue o (fuel + 1) D (c :: tl) = (n, e) := by simp [consumeValue, hk, hvl]
      rw [this]
      have hbad := valueLiteral_no_fuel litFalse (c :: tl); rw [hvl] at hbad
      refine scalar_concl o ha hs .lit (Or.inl rfl) n e hbad ?_ ?_ cnt base
      · intro he; subst he
        have := valueLiteral_sound litFalse _ n (by decide) hvl
        have h2 := congrArg List.length this.2
        simp only [List.length_take] at h2
        exact ⟨by simp [litFalse] at h2; omega, this.1⟩
      · exact lex_literal o st c tl litFalse (Or.inr (Or.inl ⟨by simp [hk], rfl⟩)) n e hvl
    · rcases hvl : valueLiteral litTrue (c :: tl) with ⟨n, e⟩
      have : consumeValue o (fuel + 1) D (c :: tl) = (n, e) := by simp [consumeValue, hk, hvl]
      rw [this]
      have hbad := valueLiteral_no_fuel litTrue (c :: tl); rw [hvl] at hbad
      refine scalar_concl o ha hs .lit (Or.inl rfl) n e hbad ?_ ?_ cnt base
      · intro he; subst he
        have := valueLiteral_sound litTrue _ n (by decide) hvl
        have h2 := congrArg List.length this.2
        simp only [List.length_take] at h2
        exact ⟨by simp [litTrue] at h2; omega, this.1⟩
      · exact lex_literal o st c tl litTrue (Or.inr (Or.inr ⟨by simp [hk], rfl⟩)) n e hvl
    · rcases hvl : valueString o (c :: tl) with ⟨n, fl, e⟩
      have : consumeValue o (fuel + 1) D (c :: tl) = (n, e) := by simp [consumeValue, hk, hvl]
      rw [this]
      have hbad := valueString_no_fuel o (c :: tl); rw [hvl] at hbad
      refine scalar_concl o ha hs .str (Or.inr (Or.inr rfl)) n e hbad ?_ ?_ cnt base
      · intro he; subst he
        obtain ⟨h1, body, hj, htk⟩ := valueString_sound o _ n fl hvl
        have h2 := congrArg List.length htk
        simp only [List.length_take, List.length_cons, List.length_append] at h2
        exact ⟨by omega, h1⟩
      · exact lex_string_value o ha.good ha.vpos c tl hk n fl e hvl
    · rcases hvl : valueNumber (c :: tl) with ⟨n, e⟩
      have : consumeValue o (fuel + 1) D (c :: tl) = (n, e) := by simp [consumeValue, hk, hvl]
      rw [this]
      have hbad := valueNumber_no_fuel (c :: tl); rw [hvl] at hbad
      refine scalar_concl o ha hs .num (Or.inr (Or.inl rfl)) n e hbad ?_ ?_ cnt base
      · intro he; subst he
        obtain ⟨h1, hnum⟩ := valueNumber_sound _ n hvl
        obtain ⟨c0, t0, htk, -⟩ := jnumber_head _ hnum
        have h2 := congrArg List.length htk
        simp only [List.length_take, List.length_cons] at h2
        exact ⟨by omega, h1⟩
      · exact lex_number o st c tl hk n e hvl
    · have hk : normKind 0x7B = 0x7B := by decide
      have : consumeValue o (fuel + 1) D (0x7B :: tl) = consumeObject o fuel D (0x7B :: tl) := by simp [consumeValue, hk]
      rw [this]
      exact hO D tl b st f frest pre cnt base ha (by simp at hfuel ⊢; omega)
    · have hk : normKind 0x5B = 0x5B := by decide
      have : consumeValue o (fuel + 1) D (0x5B :: tl) = consumeArray o fuel D (0x5B :: tl) := by simp [consumeValue, hk]
      rw [this]
      exact hA D tl b st f frest pre cnt base ha (by simp at hfuel ⊢; omega)
  · refine ⟨fun he => absurd he (closing_value c hcl o fuel D tl), fun _ => ?_⟩
    refine rej_closing o ha.good hb1 pre c tl ha.pre hcl ?_ ?_ cnt base
    · rintro ⟨hf, hc, hne⟩; exact ha.guard hf hne hc
    · rintro ⟨hf, -, -⟩; have := ha.vpos; rw [hf] at this; simp [Frame.needName] at this
  · have hk0 : normKind c = 0 := by
      simp only [Bool.or_eq_true, beq_iff_eq] at hdb; rcases hdb with rfl | rfl <;> decide
    exact ⟨fun he => absurd he (invalid_value c hk0 o fuel D tl), fun _ => rej_delimbyte o ha.good pre c tl ha.pre hdb cnt base⟩
  · refine ⟨fun he => absurd he (invalid_value c hk0 o fuel D tl), fun _ => ?_⟩
    have hrt := readToken_pre o ha.good pre c tl ha.pre ha.cws hndb hncl
    have hlex : lexToken o st pre.length (c :: tl) = .err pre.length .invalidChar := by simp [lexToken, hk0]
    rw [hlex] at hrt
    exact rej_of_err o st _ cnt base _ _ hrt (by simp)

/-! ### arrays -/

/-- what precedes the blanks in front of the next element: blanks only, or blanks and the comma -/
def LeadOK (dl : UInt8) (lead : Bytes) : Prop :=
  (dl = 0 ∧ JWs lead) ∨ ((dl == 0x3A || dl == 0x2C) = true ∧ ∃ w, JWs w ∧ lead = w ++ [dl])

theorem pre_of_lead (dl : UInt8) (lead w1 : Bytes) (h : LeadOK dl lead) (hw : JWs w1) : PreOK dl (lead ++ w1) := by
  rcases h with ⟨h0, hl⟩ | ⟨hd, w, hw0, rfl⟩
  · exact Or.inl ⟨h0, jws_append _ _ hl hw⟩
  · exact Or.inr ⟨hd, w, w1, hw0, hw, by simp⟩

theorem split_at_drop (r : Bytes) (w : Nat) (c : UInt8) (t : Bytes) (h : r.drop w = c :: t) : r = r.take w ++ c :: t := by
  rw [← h]; exact (List.take_append_drop _ _).symm

theorem rej_lead_end (o : VOpts) {b : Nat} {st : TState} {fs : Frames} (h : TGood b st fs) (hd : 2 ≤ fs.length)
    (lead r : Bytes) (hl : LeadOK (ncDelim fs) lead) (hr : JWs r) (cnt base : Nat) :
    ∀ F, Rej cnt (tokenLoop o F st (lead ++ r) cnt base) := by
  rcases hl with ⟨-, hw⟩ | ⟨hdl, w, hw, rfl⟩
  · exact rej_end o h hd _ (jws_append _ _ hw hr) cnt base
  · have : w ++ [ncDelim fs] ++ r = w ++ ncDelim fs :: r := by simp
    rw [this]
    obtain ⟨off, e, he, hne⟩ := readToken_delim_end o st w r (ncDelim fs) hdl hw hr
    exact rej_of_err o st _ cnt base off e he hne

structure AtElem (b D : Nat) (st : TState) (k : Nat) (g : Frame) (grest : Frames) (lead r : Bytes) : Prop where
  good : TGood b st (.arr k :: g :: grest)
  depth : grest.length + 2 = D
  lead : LeadOK (ncDelim (.arr k :: g :: grest)) lead
  guard : k = 0 → ∀ c t, r.drop (consumeWhitespace r) = c :: t → c ≠ 0x5D
  room : b + r.length + 1 < 2^61

/-- the rest of a container is read, through its closing bracket -/
def OkLoop (o : VOpts) (b D : Nat) (st : TState) (g : Frame) (grest : Frames) (lead r : Bytes) (n cnt base : Nat) : Prop :=
  ∃ T st', 1 ≤ T ∧ T ≤ n ∧ n ≤ r.length ∧ TGood (b + T) st' (g :: grest) ∧ (st'.nss = st.nss) ∧
    Steps o T st (lead ++ r) cnt base st' (r.drop n) (if D = 2 then cnt + 1 else cnt) (base + lead.length + n)

def ConclL (o : VOpts) (b D : Nat) (st : TState) (g : Frame) (grest : Frames) (lead r : Bytes) (cnt base : Nat)
    (res : Nat × Err) : Prop :=
  (res.2 = .ok → OkLoop o b D st g grest lead r res.1 cnt base) ∧
  (res.2 ≠ .ok → ∀ F, Rej cnt (tokenLoop o F st (lead ++ r) cnt base))

def SL (o : VOpts) (fuel : Nat) : Prop :=
  ∀ D r b st k g grest lead cnt base, AtElem b D st k g grest lead r → 3 * r.length + 2 ≤ fuel →
    ConclL o b D st g grest lead r cnt base (arrayLoop o fuel D r)

theorem step_endArr (k : Nat) (g : Frame) (grest : Frames) :
    PDA.step maxNestingDepth (.arr k :: g :: grest) .endArr = some (g :: grest) := by simp [PDA.step]

theorem sl_step (o : VOpts) (fuel : Nat) (hV : SV o fuel) (hL : SL o fuel) : SL o (fuel + 1) := by
  intro D r b st k g grest lead cnt base ha hfuel
  have hlen2 : 2 ≤ (Frame.arr k :: g :: grest).length := by simp
  simp only [arrayLoop]
  cases hd : r.drop (consumeWhitespace r) with
  | nil =>
    simp only
    refine ⟨fun he => by simp at he, fun _ => ?_⟩
    exact rej_lead_end o ha.good hlen2 lead r ha.lead (jws_of_drop_nil r hd) cnt base
  | cons c1 rd0 =>
    simp only
    have hsplit := split_at_drop r _ c1 rd0 hd
    have hl1 := len_of_drop r _ c1 rd0 hd
    have hc1w : isWs c1 = false := by
      have := ws_stop r c1 rd0 hd; rw [← isWs_iff] at this; simpa using this
    have hav : AtValue b D st (.arr k) (g :: grest) (lead ++ r.take (consumeWhitespace r)) c1 rd0 :=
      { good := ha.good
        depth := by have := ha.depth; simp; omega
        vpos := rfl
        pre := pre_of_lead _ _ _ ha.lead (ws_take r)
        cws := hc1w
        guard := by intro hf _; simp only [Frame.arr.injEq] at hf; exact ha.guard hf c1 rd0 hd
        room := by have := ha.room; simp; omega }
    have hin : lead ++ r = (lead ++ r.take (consumeWhitespace r)) ++ c1 :: rd0 := by
      rw [List.append_assoc, ← hsplit]
    have hsv := hV D c1 rd0 b st (.arr k) (g :: grest) (lead ++ r.take (consumeWhitespace r)) cnt base hav
      (by simp at hfuel ⊢; omega)
    rcases hcv : consumeValue o fuel D (c1 :: rd0) with ⟨kk, e⟩
    rw [hcv] at hsv
    simp only
    by_cases he : e ≠ .ok
    · have : (e != .ok) = true := by simpa using he
      simp only [this, if_true]
      refine ⟨fun h' => absurd h' he, fun _ => ?_⟩
      rw [hin]; exact hsv.2 he
    have he' : e = .ok := by simpa using he
    subst he'
    simp only [bne_self_eq_false, Bool.false_eq_true, if_false]
    obtain ⟨T1, st1, hT1, hT1k, hkl, hg1, hns1, hst1⟩ := hsv.1 rfl
    simp only [Frame.bump] at hg1
    have hD2 : ¬ (D = 1) := by have := ha.depth; omega
    simp only [hD2, if_false] at hst1
    rw [← hin] at hst1
    have hb1 : b + T1 + 1 < 2^61 := by have := ha.room; simp at hkl; omega
    cases hd2 : ((c1 :: rd0).drop kk).drop (consumeWhitespace ((c1 :: rd0).drop kk)) with
    | nil =>
      simp only
      refine ⟨fun he => by simp at he, fun _ => ?_⟩
      exact rej_of_steps o hst1 (rej_end o hg1 (by simp) _ (jws_of_drop_nil _ hd2) cnt _)
    | cons c2 rf =>
      simp only
      have hsplit2 := split_at_drop _ _ c2 rf hd2
      have hl2 := len_of_drop _ _ c2 rf hd2
      simp only [List.length_drop, List.length_cons] at hl2
      have hc2w : isWs c2 = false := by
        have := ws_stop _ c2 rf hd2; rw [← isWs_iff] at this; simpa using this
      generalize hre : (c1 :: rd0).drop kk = re at *
      generalize hw4 : consumeWhitespace re = w4 at *
      by_cases hcomma : (c2 == 0x2C) = true
      · -- next element
        have hc2 : c2 = 0x2C := by simpa using hcomma
        subst hc2
        simp only [beq_self_eq_true, if_true]
        have hae : AtElem (b + T1) D st1 (k + 1) g grest (re.take w4 ++ [0x2C]) rf :=
          { good := hg1
            depth := ha.depth
            lead := by
              rw [ncDelim_arrS]
              exact Or.inr ⟨by decide, re.take w4, by rw [← hw4]; exact ws_take re, rfl⟩
            guard := by intro h0; omega
            room := by have := ha.room; simp at hkl; omega }
        have hsl := hL D rf (b + T1) st1 (k + 1) g grest (re.take w4 ++ [0x2C]) cnt
          (base + (lead ++ r.take (consumeWhitespace r)).length + kk) hae (by simp at hkl; omega)
        have hin2 : re = (re.take w4 ++ [0x2C]) ++ rf := by simpa using hsplit2
        rcases hal : arrayLoop o fuel D rf with ⟨n2, e2⟩
        rw [hal] at hsl
        simp only [addOff]
        constructor
        · intro he2
          simp only at he2
          obtain ⟨T2, st2, hT2, hT2n, hn2l, hg2, hns2, hst2⟩ := hsl.1 he2
          rw [← hin2] at hst2
          refine ⟨T1 + T2, st2, by omega, by first | omega | (simp; omega), by simp at hkl ⊢; omega, ?_, by rw [hns2, hns1], ?_⟩
          · have : b + (T1 + T2) = b + T1 + T2 := by omega
            rw [this]; exact hg2
          · have hcomp := steps_trans o hst1 hst2
            have hdrop : r.drop (consumeWhitespace r + kk + w4 + 1 + n2) = rf.drop n2 := by
              have e1 : consumeWhitespace r + kk + w4 + 1 + n2 = consumeWhitespace r + (kk + (w4 + (1 + n2))) := by omega
              rw [e1, ← List.drop_drop, hd, ← List.drop_drop, hre, ← List.drop_drop, hd2]
              first | rfl | (rw [Nat.add_comm 1 n2]; rfl) | simp
            simp only
            rw [hdrop]
            have hbase : base + (lead ++ r.take (consumeWhitespace r)).length + kk + (re.take w4 ++ [0x2C]).length + n2 =
                base + lead.length + (consumeWhitespace r + kk + w4 + 1 + n2) := by
              have h1 : (r.take (consumeWhitespace r)).length = consumeWhitespace r := by
                simp only [List.length_take]; have := ws_le r; omega
              have h2 : (re.take w4).length = w4 := by
                simp only [List.length_take]; have := ws_le re; rw [hw4] at this; omega
              simp only [List.length_append, h1, h2, List.length_cons, List.length_nil]; omega
            rw [hbase] at hcomp
            exact hcomp
        · intro he2
          simp only at he2
          intro F
          exact rej_of_steps o hst1 (by rw [hin2]; exact hsl.2 he2) rfl F
      · have hcomma' : (c2 == 0x2C) = false := by simpa using hcomma
        simp only [hcomma', Bool.false_eq_true, if_false]
        by_cases hclose : (c2 == 0x5D) = true
        · -- the array ends
          have hc2 : c2 = 0x5D := by simpa using hclose
          subst hc2
          simp only [beq_self_eq_true, if_true]
          refine ⟨fun _ => ?_, fun he => by simp at he⟩
          obtain ⟨m', hm', hg2⟩ := sm_ok hg1 hb1 .endArr (step_endArr (k + 1) g grest)
          have hrt := readToken_nodelim o st1 (re.take w4) 0x5D rf (by rw [← hw4]; exact ws_take re) (by decide) (by decide)
          rw [needDelim_good hg1 (normKind 0x5D) .endArr (by decide), closeDelim_arr _ _ _ rfl] at hrt
          simp only [bne_self_eq_false, Bool.false_eq_true, if_false] at hrt
          rw [lexToken_endArr, feed_ok' st1 _ 1 _ m' hm', ← hsplit2] at hrt
          have h2 : (re.take w4).length = w4 := by
            simp only [List.length_take]; have := ws_le re; rw [hw4] at this; omega
          rw [h2] at hrt
          have hs2 := steps_one o st1 _ re cnt (base + (lead ++ r.take (consumeWhitespace r)).length + kk) (w4 + 1) hrt (by omega)
          have hcomp := steps_trans o hst1 hs2
          refine ⟨T1 + 1, { st1 with m := m' }, by omega, by first | omega | (simp; omega), by simp at hkl ⊢; omega, ?_, hns1, ?_⟩
          · have : b + (T1 + 1) = b + T1 + 1 := by omega
            rw [this]; exact hg2 st1.nss
          · have hdep : ({ st1 with m := m' } : TState).m.depth = D - 1 := by
              rw [good_depth (hg2 st1.nss)]; have := ha.depth; simp; omega
            rw [hdep] at hcomp
            have hcnt : (if (D - 1 == 1) = true then cnt + 1 else cnt) = (if D = 2 then cnt + 1 else cnt) := by
              have := ha.depth
              by_cases h : D = 2
              · subst h; simp
              · have : ¬ (D - 1 = 1) := by omega
                simp [h, this]
            rw [hcnt] at hcomp
            have hdrop : r.drop (consumeWhitespace r + kk + w4 + 1) = re.drop (w4 + 1) := by
              have e1 : consumeWhitespace r + kk + w4 + 1 = consumeWhitespace r + (kk + (w4 + 1)) := by omega
              rw [e1, ← List.drop_drop, hd, ← List.drop_drop, hre]
            simp only
            rw [hdrop]
            have hbase : base + (lead ++ r.take (consumeWhitespace r)).length + kk + (w4 + 1) =
                base + lead.length + (consumeWhitespace r + kk + w4 + 1) := by
              have h1 : (r.take (consumeWhitespace r)).length = consumeWhitespace r := by
                simp only [List.length_take]; have := ws_le r; omega
              simp only [List.length_append, h1]; omega
            rw [hbase] at hcomp
            exact hcomp
        · have hclose' : (c2 == 0x5D) = false := by simpa using hclose
          simp only [hclose', Bool.false_eq_true, if_false]
          refine ⟨fun he => by simp at he, fun _ => ?_⟩
          refine rej_of_steps o hst1 ?_
          rw [hsplit2]
          refine rej_unexpected o hg1 hb1 (re.take w4) c2 rf (by rw [← hw4]; exact ws_take re) hc2w
            (by rw [ncDelim_arrS]; decide) (by rw [ncDelim_arrS]; simpa using hcomma) ?_ ?_ ?_ cnt _
          · intro kk' hk'
            rcases hk' with ⟨rfl, -⟩ | ⟨-, rfl⟩
            · simp at hclose
            · right; simp [PDA.step]
          · intro kk' hk' h'; rw [closeDelim_arr _ _ _ hk'] at h'; cases h'
          · intro kk' hk'; rw [closeDelim_arr _ _ _ hk']; decide

theorem lexToken_beginArr (o : VOpts) (st : TState) (pos : Nat) (tl : Bytes) :
    lexToken o st pos (0x5B :: tl) = feed st pos 1 (Machine.pushArray maxNestingDepth) := by
  have hk : normKind 0x5B = 0x5B := by decide
  simp [lexToken, hk]

theorem step_beginArr (f : Frame) (frest : Frames) (hv : f.needName = false) :
    PDA.step maxNestingDepth (f :: frest) .beginArr =
      if frest.length < maxNestingDepth then some (.arr 0 :: f.bump :: frest) else none := by
  simp [PDA.step, hv]

theorem sa_step (o : VOpts) (fuel : Nat) (hL : SL o fuel) : SA o (fuel + 1) := by
  intro D tl b st f frest pre cnt base ha hfuel
  have hb1 : b + 1 < 2^61 := by have := ha.room; simp at this; omega
  have hs : isStart 0x5B = true := by decide
  obtain ⟨hcw, hncl, hndb⟩ := start_nc 0x5B hs
  have hrt := readToken_pre o ha.good pre 0x5B tl ha.pre hcw hndb hncl
  rw [lexToken_beginArr] at hrt
  simp only [consumeArray]
  by_cases hdep : (D == maxNestingDepth + 1) = true
  · simp only [hdep, if_true]
    refine ⟨fun he => by simp at he, fun _ => ?_⟩
    have hD : D = maxNestingDepth + 1 := by simpa using hdep
    have hstep : PDA.step maxNestingDepth (f :: frest) .beginArr = none := by
      rw [step_beginArr f frest ha.vpos]
      have := ha.depth
      have : ¬ (frest.length < maxNestingDepth) := by omega
      simp [this]
    obtain ⟨se, hse⟩ := sm_err ha.good hb1 .beginArr hstep
    rw [feed_err' st _ 1 _ se hse] at hrt
    exact rej_of_err o st _ cnt base _ _ hrt (smErr_ne_ioeof se)
  · have hdep' : (D == maxNestingDepth + 1) = false := by simpa using hdep
    simp only [hdep', Bool.false_eq_true, if_false, List.drop_succ_cons, List.drop_zero]
    have hDne : D ≠ maxNestingDepth + 1 := by simpa using hdep
    have hstep : PDA.step maxNestingDepth (f :: frest) .beginArr = some (.arr 0 :: f.bump :: frest) := by
      rw [step_beginArr f frest ha.vpos]
      have := ha.depth
      -- D ≤ max + 1 is not known here; the push itself decides
      by_cases hlt : frest.length < maxNestingDepth
      · simp [hlt]
      · exfalso
        -- the machine invariant bounds the depth
        have hinv := ha.good.inv.depth
        have habs := ha.good.abs
        have hlen : (StateRefine.abs st.m).length = st.m.stack.length + 1 := by simp [StateRefine.abs]
        rw [habs] at hlen
        simp only [List.length_cons] at hlen
        omega
    obtain ⟨m', hm', hg1⟩ := sm_ok ha.good hb1 .beginArr hstep
    rw [feed_ok' st _ 1 _ m' hm'] at hrt
    have hst1 := steps_one o st { st with m := m' } (pre ++ 0x5B :: tl) cnt base (pre.length + 1) hrt (by omega)
    have hdrop0 : (pre ++ 0x5B :: tl).drop (pre.length + 1) = tl := by
      rw [← List.drop_drop]; simp
    have hdep1 : ({ st with m := m' } : TState).m.depth = D + 1 := by
      rw [good_depth (hg1 st.nss)]; have := ha.depth; simp; omega
    rw [hdrop0, hdep1] at hst1
    have hDpos : ¬ (D + 1 = 1) := by have := ha.depth; omega
    have hc0 : (if (D + 1 == 1) = true then cnt + 1 else cnt) = cnt := by
      have : D ≠ 0 := by have := ha.depth; omega
      simp [this]
    rw [hc0] at hst1
    have hb2 : b + 1 + 1 < 2^61 := by have := ha.room; simp at this; omega
    cases hd : tl.drop (consumeWhitespace tl) with
    | nil =>
      simp only
      refine ⟨fun he => by simp at he, fun _ => ?_⟩
      exact rej_of_steps o hst1 (rej_end o (hg1 st.nss) (by simp) tl (jws_of_drop_nil tl hd) cnt _)
    | cons c rest =>
      simp only
      have hsplit := split_at_drop tl _ c rest hd
      have hl1 := len_of_drop tl _ c rest hd
      have hcw' : isWs c = false := by
        have := ws_stop tl c rest hd; rw [← isWs_iff] at this; simpa using this
      have htk : (tl.take (consumeWhitespace tl)).length = consumeWhitespace tl := by
        simp only [List.length_take]; have := ws_le tl; omega
      by_cases hclose : (c == 0x5D) = true
      · have hc : c = 0x5D := by simpa using hclose
        subst hc
        simp only [beq_self_eq_true, if_true]
        refine ⟨fun _ => ?_, fun he => by simp at he⟩
        obtain ⟨m2, hm2, hg2⟩ := sm_ok (hg1 st.nss) hb2 .endArr (step_endArr 0 f.bump frest)
        have hrt2 := readToken_nodelim o { st with m := m' } (tl.take (consumeWhitespace tl)) 0x5D rest (ws_take tl) (by decide) (by decide)
        rw [needDelim_good (hg1 st.nss) (normKind 0x5D) .endArr (by decide), closeDelim_arr _ _ _ rfl] at hrt2
        simp only [bne_self_eq_false, Bool.false_eq_true, if_false] at hrt2
        rw [lexToken_endArr, feed_ok' _ _ 1 _ m2 hm2, ← hsplit, htk] at hrt2
        have hs2 := steps_one o _ _ tl cnt (base + (pre.length + 1)) (consumeWhitespace tl + 1) hrt2 (by omega)
        have hcomp := steps_trans o hst1 hs2
        refine ⟨2, { st with m := m2 }, by omega, by first | omega | (simp; omega) | simp, by first | omega | (simp; omega) | simp, hg2 st.nss, rfl, ?_⟩
        have hdep2 : ({ st with m := m2 } : TState).m.depth = D := by
          rw [good_depth (hg2 st.nss)]; have := ha.depth; simp; omega
        simp only at hcomp
        rw [hdep2] at hcomp
        have hcnt : (if (D == 1) = true then cnt + 1 else cnt) = (if D = 1 then cnt + 1 else cnt) := by
          by_cases h : D = 1 <;> simp [h]
        rw [hcnt] at hcomp
        have hdrop : (0x5B :: tl).drop (1 + consumeWhitespace tl + 1) = tl.drop (consumeWhitespace tl + 1) := by
          have : 1 + consumeWhitespace tl + 1 = (consumeWhitespace tl + 1) + 1 := by omega
          rw [this, List.drop_succ_cons]
        simp only
        rw [hdrop]
        have hbase : base + (pre.length + 1) + (consumeWhitespace tl + 1) = base + pre.length + (1 + consumeWhitespace tl + 1) := by omega
        rw [hbase] at hcomp
        exact hcomp
      · have hclose' : (c == 0x5D) = false := by simpa using hclose
        simp only [hclose', Bool.false_eq_true, if_false]
        have hwsc : consumeWhitespace (c :: rest) = 0 := by simp [consumeWhitespace, hcw']
        have hae : AtElem (b + 1) (D + 1) { st with m := m' } 0 f.bump frest (tl.take (consumeWhitespace tl)) (c :: rest) :=
          { good := hg1 st.nss
            depth := by have := ha.depth; omega
            lead := by rw [ncDelim_arr0]; exact Or.inl ⟨rfl, ws_take tl⟩
            guard := by
              intro _ c' t' h'
              rw [hwsc] at h'
              simp only [List.drop_zero, List.cons.injEq] at h'
              rw [← h'.1]; simpa using hclose
            room := by have := ha.room; simp at this ⊢; omega }
        have hsl := hL (D + 1) (c :: rest) (b + 1) _ 0 f.bump frest (tl.take (consumeWhitespace tl)) cnt
          (base + (pre.length + 1)) hae (by simp at hfuel ⊢; omega)
        rcases hal : arrayLoop o fuel (D + 1) (c :: rest) with ⟨n2, e2⟩
        rw [hal] at hsl
        have hst1' : Steps o 1 st (pre ++ 0x5B :: tl) cnt base { st with m := m' }
            (tl.take (consumeWhitespace tl) ++ c :: rest) cnt (base + (pre.length + 1)) := by
          rw [← hsplit]; exact hst1
        simp only [addOff]
        constructor
        · intro he2
          simp only at he2
          obtain ⟨T2, st2, hT2, hT2n, hn2l, hg2, hns2, hst2⟩ := hsl.1 he2
          refine ⟨1 + T2, st2, by omega, by first | omega | (simp; omega), by simp at hn2l ⊢; omega, ?_, by rw [hns2], ?_⟩
          · have : b + (1 + T2) = b + 1 + T2 := by omega
            rw [this]; exact hg2
          · have hcomp := steps_trans o hst1' hst2
            have hcnt : (if D + 1 = 2 then cnt + 1 else cnt) = (if D = 1 then cnt + 1 else cnt) := by
              by_cases h : D = 1
              · subst h; simp
              · have : ¬ (D + 1 = 2) := by omega
                simp [h, this]
            rw [hcnt] at hcomp
            have hdrop : (0x5B :: tl).drop (1 + consumeWhitespace tl + n2) = (c :: rest).drop n2 := by
              have : 1 + consumeWhitespace tl + n2 = (consumeWhitespace tl + n2) + 1 := by omega
              rw [this, List.drop_succ_cons, ← List.drop_drop, hd]
            simp only
            rw [hdrop]
            have hbase : base + (pre.length + 1) + (tl.take (consumeWhitespace tl)).length + n2 =
                base + pre.length + (1 + consumeWhitespace tl + n2) := by rw [htk]; omega
            rw [hbase] at hcomp
            exact hcomp
        · intro he2
          simp only at he2
          exact rej_of_steps o hst1' (hsl.2 he2)

/-! ### objects -/

theorem lexToken_beginObj (o : VOpts) (st : TState) (pos : Nat) (tl : Bytes) :
    lexToken o st pos (0x7B :: tl) =
      (match st.m.pushObject maxNestingDepth with
       | .error se => .err pos (smErr se)
       | .ok m' => .tok (pos + 1) { m := m', nss := if o.allowDup then st.nss else [] :: st.nss }) := by
  have hk : normKind 0x7B = 0x7B := by decide
  simp [lexToken, hk]
  cases st.m.pushObject maxNestingDepth <;> rfl

theorem step_name_none (f : Frame) (frest : Frames) (hv : f.needName = true) (k : Kind)
    (hk : k = .lit ∨ k = .num ∨ k = .beginObj ∨ k = .beginArr) :
    PDA.step maxNestingDepth (f :: frest) k = none := by
  rcases hk with rfl | rfl | rfl | rfl <;> simp [PDA.step, hv]

/-- anything but a string where a member name is expected (the token is lexed first: finding F2 of slice C16) -/
theorem rej_nonstring_name (o : VOpts) {b : Nat} {st : TState} {f : Frame} {frest : Frames} (h : TGood b st (f :: frest))
    (hb : b + 1 < 2^61) (hv : f.needName = true) (pre : Bytes) (c : UInt8) (tl : Bytes)
    (hpre : PreOK (ncDelim (f :: frest)) pre) (hcw : isWs c = false) (hq : normKind c ≠ 0x22)
    (hguard : ¬ (f = .obj 0 ∧ c = 0x7D ∧ frest ≠ [])) (cnt base : Nat) :
    ∀ F, Rej cnt (tokenLoop o F st (pre ++ c :: tl) cnt base) := by
  rcases byte_class c hcw with hs | hcl | hdb | ⟨hk0, hncl, hndb⟩
  · obtain ⟨-, hncl, hndb⟩ := start_nc c hs
    have hrt := readToken_pre o h pre c tl hpre hcw hndb hncl
    have fin : ∀ (k : Kind) (n : Nat) (e : Err), ¬ Bad e → (k = .lit ∨ k = .num ∨ k = .beginObj ∨ k = .beginArr) →
        lexToken o st pre.length (c :: tl) =
          (if e != .ok then .err (pre.length + n) e
           else match smStep maxNestingDepth st.m k with
            | .error se => .err pre.length (smErr se)
            | .ok m' => .tok (pre.length + n) { m := m', nss := st.nss }) →
        ∀ F, Rej cnt (tokenLoop o F st (pre ++ c :: tl) cnt base) := by
      intro k n e hbad hk hlex
      rw [hlex] at hrt
      by_cases he : e = .ok
      · subst he
        obtain ⟨se, hse⟩ := sm_err h hb k (step_name_none f frest hv k hk)
        simp only [bne_self_eq_false, Bool.false_eq_true, if_false, hse] at hrt
        exact rej_of_err o st _ cnt base _ _ hrt (smErr_ne_ioeof se)
      · have : (e != .ok) = true := by simpa using he
        simp only [this, if_true] at hrt
        exact rej_of_err o st _ cnt base _ _ hrt (not_bad_ne_ioeof hbad)
    rcases start_kinds c hs with hk | hk | hk | hk | hk | rfl | rfl
    · rcases hvl : valueLiteral litNull (c :: tl) with ⟨n, e⟩
      have hbad := valueLiteral_no_fuel litNull (c :: tl); rw [hvl] at hbad
      exact fin .lit n e hbad (Or.inl rfl) (lex_literal o st c tl litNull (Or.inl ⟨by simp [hk], rfl⟩) n e hvl _)
    · rcases hvl : valueLiteral litFalse (c :: tl) with ⟨n, e⟩
      have hbad := valueLiteral_no_fuel litFalse (c :: tl); rw [hvl] at hbad
      exact fin .lit n e hbad (Or.inl rfl) (lex_literal o st c tl litFalse (Or.inr (Or.inl ⟨by simp [hk], rfl⟩)) n e hvl _)
    · rcases hvl : valueLiteral litTrue (c :: tl) with ⟨n, e⟩
      have hbad := valueLiteral_no_fuel litTrue (c :: tl); rw [hvl] at hbad
      exact fin .lit n e hbad (Or.inl rfl) (lex_literal o st c tl litTrue (Or.inr (Or.inr ⟨by simp [hk], rfl⟩)) n e hvl _)
    · exact absurd hk hq
    · rcases hvl : valueNumber (c :: tl) with ⟨n, e⟩
      have hbad := valueNumber_no_fuel (c :: tl); rw [hvl] at hbad
      exact fin .num n e hbad (Or.inr (Or.inl rfl)) (lex_number o st c tl hk n e hvl _)
    · obtain ⟨se, hse⟩ := sm_err h hb .beginObj (step_name_none f frest hv _ (Or.inr (Or.inr (Or.inl rfl))))
      rw [lexToken_beginObj] at hrt
      have : st.m.pushObject maxNestingDepth = .error se := hse
      simp only [this] at hrt
      exact rej_of_err o st _ cnt base _ _ hrt (smErr_ne_ioeof se)
    · obtain ⟨se, hse⟩ := sm_err h hb .beginArr (step_name_none f frest hv _ (Or.inr (Or.inr (Or.inr rfl))))
      rw [lexToken_beginArr, feed_err' st _ 1 _ se hse] at hrt
      exact rej_of_err o st _ cnt base _ _ hrt (smErr_ne_ioeof se)
  · refine rej_closing o h hb pre c tl hpre hcl ?_ hguard cnt base
    rintro ⟨hf, -, -⟩; rw [hf] at hv; simp [Frame.needName] at hv
  · exact rej_delimbyte o h pre c tl hpre hdb cnt base
  · have hrt := readToken_pre o h pre c tl hpre hcw hndb hncl
    have hlex : lexToken o st pre.length (c :: tl) = .err pre.length .invalidChar := by simp [lexToken, hk0]
    rw [hlex] at hrt
    exact rej_of_err o st _ cnt base _ _ hrt (by simp)

/-- the namespaces of the token path hold the names the value path has collected for the current object -/
def NsOK (o : VOpts) (st : TState) (names : List Bytes) (outer : List (List Bytes)) : Prop :=
  if o.allowDup then st.nss = outer else st.nss = names :: outer

theorem name_token (o : VOpts) {b : Nat} {st : TState} {k : Nat} {g : Frame} {grest : Frames}
    (hg : TGood b st (.obj k :: g :: grest)) (hk : k % 2 = 0) (hb : b + 1 < 2^61)
    (names : List Bytes) (outer : List (List Bytes)) (hns : NsOK o st names outer)
    (c : UInt8) (tl : Bytes) (hkq : normKind c = 0x22) (nn : Nat) (fl : ValueFlags) (e : Err)
    (hvs : valueString o (c :: tl) = (nn, fl, e)) (pos : Nat) :
    ∃ m', (∀ nss, TGood (b + 1) { m := m', nss := nss } (.obj (k + 1) :: g :: grest)) ∧
      lexToken o st pos (c :: tl) =
        (if e != .ok then .err (pos + nn) e
         else if !o.allowDup && names.contains (unescapedName ((c :: tl).take nn) fl) then .err pos .dupName
         else .tok (pos + nn) { m := m', nss := if o.allowDup then outer
                                               else (names ++ [unescapedName ((c :: tl).take nn) fl]) :: outer }) := by
  have hstep : PDA.step maxNestingDepth (.obj k :: g :: grest) .str = some (.obj (k + 1) :: g :: grest) := by
    simp [PDA.step, Frame.bump]
  obtain ⟨m', hm', hg'⟩ := sm_ok hg hb .str hstep
  have hm'' : st.m.appendString = .ok m' := hm'
  refine ⟨m', hg', ?_⟩
  have hnn : st.m.last.needObjectName = true := by rw [good_needName hg]; simp [Frame.needName, hk]
  obtain ⟨hvn, han⟩ := good_ns_flags hg
  simp only [lexToken, hkq, hvs]
  by_cases he : e = .ok
  · subst he
    have hlen : ((c :: tl).take nn).length = nn := by
      have := (valueString_sound o _ nn fl hvs).1
      simp only [List.length_take]; omega
    unfold NsOK at hns
    cases ha : o.allowDup with
    | true =>
      simp only [ha, if_true] at hns
      have hlen' : min nn (tl.length + 1) = nn := by simpa using hlen
      simp [feedString, hnn, ha, hm'', hlen', hns]
    | false =>
      simp only [ha, Bool.false_eq_true, if_false] at hns
      have hlen' : min nn (tl.length + 1) = nn := by simpa using hlen
      simp [feedString, hnn, ha, hvn, han, hns, hm'', hlen']
  · simp [he]

theorem drop_add_of (r : Bytes) (a : Nat) (x : Bytes) (h : r.drop a = x) (m : Nat) : r.drop (a + m) = x.drop m := by
  rw [← List.drop_drop, h]

theorem quote_of_kind : ∀ c : UInt8, normKind c = 0x22 → c = 0x22 := by
  apply forall_u8; decide +kernel

theorem take_ws_len (r : Bytes) : (r.take (consumeWhitespace r)).length = consumeWhitespace r := by
  simp only [List.length_take]; have := ws_le r; omega

structure AtMem (o : VOpts) (b D : Nat) (st : TState) (k : Nat) (g : Frame) (grest : Frames) (lead r : Bytes)
    (names : List Bytes) (outer : List (List Bytes)) : Prop where
  good : TGood b st (.obj k :: g :: grest)
  even : k % 2 = 0
  depth : grest.length + 2 = D
  lead : LeadOK (ncDelim (.obj k :: g :: grest)) lead
  ns : NsOK o st names outer
  guard : k = 0 → ∀ c t, r.drop (consumeWhitespace r) = c :: t → c ≠ 0x7D
  room : b + r.length + 1 < 2^61

def OkLoopO (o : VOpts) (b D : Nat) (st : TState) (g : Frame) (grest : Frames) (lead r : Bytes) (n cnt base : Nat)
    (outer : List (List Bytes)) : Prop :=
  ∃ T st', 1 ≤ T ∧ T ≤ n ∧ n ≤ r.length ∧ TGood (b + T) st' (g :: grest) ∧ (st'.nss = outer) ∧
    Steps o T st (lead ++ r) cnt base st' (r.drop n) (if D = 2 then cnt + 1 else cnt) (base + lead.length + n)

def ConclO (o : VOpts) (b D : Nat) (st : TState) (g : Frame) (grest : Frames) (lead r : Bytes) (cnt base : Nat)
    (outer : List (List Bytes)) (res : Nat × Err) : Prop :=
  (res.2 = .ok → OkLoopO o b D st g grest lead r res.1 cnt base outer) ∧
  (res.2 ≠ .ok → ∀ F, Rej cnt (tokenLoop o F st (lead ++ r) cnt base))

def SOL (o : VOpts) (fuel : Nat) : Prop :=
  ∀ D r names b st k g grest lead outer cnt base, AtMem o b D st k g grest lead r names outer → 3 * r.length + 2 ≤ fuel →
    ConclO o b D st g grest lead r cnt base outer (objectLoop o fuel D names r)

theorem step_endObj (k : Nat) (hk : k % 2 = 0) (g : Frame) (grest : Frames) :
    PDA.step maxNestingDepth (.obj k :: g :: grest) .endObj = some (g :: grest) := by simp [PDA.step, hk]

theorem sol_step (o : VOpts) (fuel : Nat) (hV : SV o fuel) (hL : SOL o fuel) : SOL o (fuel + 1) := by
  intro D r names b st k g grest lead outer cnt base ha hfuel
  have hlen2 : 2 ≤ (Frame.obj k :: g :: grest).length := by simp
  have hb1 : b + 1 < 2^61 := by have := ha.room; omega
  have hD2 : ¬ (D = 1) := by have := ha.depth; omega
  simp only [objectLoop]
  cases hd : r.drop (consumeWhitespace r) with
  | nil =>
    simp only
    refine ⟨fun he => by simp at he, fun _ => ?_⟩
    exact rej_lead_end o ha.good hlen2 lead r ha.lead (jws_of_drop_nil r hd) cnt base
  | cons c0 ra0 =>
    simp only
    have hsplit := split_at_drop r _ c0 ra0 hd
    have hl1 := len_of_drop r _ c0 ra0 hd
    have hc0w : isWs c0 = false := by
      have := ws_stop r c0 ra0 hd; rw [← isWs_iff] at this; simpa using this
    have hpre0 : PreOK (ncDelim (.obj k :: g :: grest)) (lead ++ r.take (consumeWhitespace r)) :=
      pre_of_lead _ _ _ ha.lead (ws_take r)
    have hin : lead ++ r = (lead ++ r.take (consumeWhitespace r)) ++ c0 :: ra0 := by
      rw [List.append_assoc, ← hsplit]
    have hpre0len : (lead ++ r.take (consumeWhitespace r)).length = lead.length + consumeWhitespace r := by
      rw [List.length_append, take_ws_len]
    rcases hvs : valueString o (c0 :: ra0) with ⟨nn, fl, e0⟩
    simp only
    by_cases hq : ¬ (normKind c0 = 0x22)
    · -- not a string: the value path fails at once, the token path lexes something and fails too
      have he0 : e0 = .invalidChar := by
        have hne : c0 ≠ 0x22 := by intro h; rw [h] at hq; exact hq (by decide)
        have h1 : consumeSimpleString (c0 :: ra0) = 0 := by simp [consumeSimpleString, hne]
        have h2 : consumeStringResumable (c0 :: ra0) 0 (!o.allowInvalidUTF8) = (0, {}, .invalidChar) := by
          simp [consumeStringResumable, hne]
        have : valueString o (c0 :: ra0) = (0, {}, .invalidChar) := by simp [valueString, h1, h2]
        rw [hvs] at this; simp only [Prod.mk.injEq] at this; exact this.2.2
      subst he0
      simp only [show (Err.invalidChar != Err.ok) = true by decide, if_true]
      refine ⟨fun he => by simp at he, fun _ => ?_⟩
      rw [hin]
      refine rej_nonstring_name o ha.good hb1 (by simp [Frame.needName, ha.even]) _ c0 ra0 hpre0 hc0w hq ?_ cnt base
      rintro ⟨hf, hc, -⟩
      simp only [Frame.obj.injEq] at hf
      exact ha.guard hf c0 ra0 hd hc
    have hq : normKind c0 = 0x22 := by simpa using hq
    have hc0 : c0 = 0x22 := quote_of_kind c0 hq
    obtain ⟨m1, hg1, hlex⟩ := name_token o ha.good ha.even hb1 names outer ha.ns c0 ra0 hq nn fl e0 hvs
      (lead ++ r.take (consumeWhitespace r)).length
    have hrt := readToken_pre o ha.good _ c0 ra0 hpre0 hc0w (by rw [hc0]; decide) (by rw [hc0]; decide)
    rw [hlex] at hrt
    by_cases he0 : e0 ≠ .ok
    · have : (e0 != .ok) = true := by simpa using he0
      simp only [this, if_true] at hrt ⊢
      refine ⟨fun h' => absurd h' he0, fun _ => ?_⟩
      rw [hin]
      have hbad := valueString_no_fuel o (c0 :: ra0); rw [hvs] at hbad
      exact rej_of_err o st _ cnt base _ _ hrt (not_bad_ne_ioeof hbad)
    have he0' : e0 = .ok := by simpa using he0
    subst he0'
    simp only [bne_self_eq_false, Bool.false_eq_true, if_false] at hrt ⊢
    obtain ⟨hnnl, -⟩ := valueString_sound o _ nn fl hvs
    have hnnpos : 1 ≤ nn := by
      obtain ⟨_, body, _, htk⟩ := valueString_sound o _ nn fl hvs
      have h2 := congrArg List.length htk
      simp only [List.length_take, List.length_cons, List.length_append] at h2
      omega
    by_cases hdup : (!o.allowDup && names.contains (unescapedName ((c0 :: ra0).take nn) fl)) = true
    · simp only [hdup, if_true] at hrt ⊢
      refine ⟨fun he => by simp at he, fun _ => ?_⟩
      rw [hin]
      exact rej_of_err o st _ cnt base _ _ hrt (by simp)
    have hdup' : (!o.allowDup && names.contains (unescapedName ((c0 :: ra0).take nn) fl)) = false := by simpa using hdup
    simp only [hdup', Bool.false_eq_true, if_false] at hrt ⊢
    -- the state after the name
    generalize hst1def : ({ m := m1, nss := if o.allowDup = true then outer
        else (names ++ [unescapedName ((c0 :: ra0).take nn) fl]) :: outer } : TState) = st1 at hrt
    have hg1' : TGood (b + 1) st1 (.obj (k + 1) :: g :: grest) := by rw [← hst1def]; exact hg1 _
    have hns1 : NsOK o st1 (if o.allowDup = true then names else names ++ [unescapedName ((c0 :: ra0).take nn) fl]) outer := by
      rw [← hst1def]; unfold NsOK
      cases o.allowDup <;> simp
    rw [← hin] at hrt
    have hst1 := steps_one o st st1 (lead ++ r) cnt base _ hrt (by omega)
    have hdep1 : st1.m.depth = D := by rw [good_depth hg1']; have := ha.depth; simp; omega
    have hcnt1 : (if (st1.m.depth == 1) = true then cnt + 1 else cnt) = cnt := by rw [hdep1]; simp [hD2]
    have hdrop1 : (lead ++ r).drop ((lead ++ r.take (consumeWhitespace r)).length + nn) = (c0 :: ra0).drop nn := by
      rw [hin, ← List.drop_drop]; simp
    rw [hcnt1, hdrop1] at hst1
    have hb2 : b + 1 + 1 < 2^61 := by have := ha.room; simp at hnnl; omega
    generalize hrb : (c0 :: ra0).drop nn = rb at *
    have hrblen : rb.length + nn = ra0.length + 1 := by
      rw [← hrb]; simp only [List.length_drop, List.length_cons]; simp at hnnl; omega
    cases hd2 : rb.drop (consumeWhitespace rb) with
    | nil =>
      simp only
      refine ⟨fun he => by simp at he, fun _ => ?_⟩
      exact rej_of_steps o hst1 (rej_end o hg1' (by simp) _ (jws_of_drop_nil _ hd2) cnt _)
    | cons c rc =>
      simp only
      have hsplit2 := split_at_drop rb _ c rc hd2
      have hl2 := len_of_drop rb _ c rc hd2
      have hcw : isWs c = false := by
        have := ws_stop rb c rc hd2; rw [← isWs_iff] at this; simpa using this
      by_cases hcol : (c != 0x3A) = true
      · simp only [hcol, if_true]
        refine ⟨fun he => by simp at he, fun _ => ?_⟩
        refine rej_of_steps o hst1 ?_
        rw [hsplit2]
        have hodd : (k + 1) % 2 = 1 := by have := ha.even; omega
        refine rej_unexpected o hg1' hb2 _ c rc (ws_take rb) hcw (by rw [ncDelim_objOdd _ hodd]; decide)
          (by rw [ncDelim_objOdd _ hodd]; simpa using hcol) ?_ ?_ ?_ cnt _
        · intro kk' _; left; rw [closeDelim_objOdd _ hodd]; decide
        · intro kk' _ _; exact ncDelim_objOdd _ hodd g grest
        · intro kk' _; rw [closeDelim_objOdd _ hodd]; decide
      have hc : c = 0x3A := by simpa using hcol
      subst hc
      simp only [bne_self_eq_false, Bool.false_eq_true, if_false]
      cases hd3 : rc.drop (consumeWhitespace rc) with
      | nil =>
        simp only
        refine ⟨fun he => by simp at he, fun _ => ?_⟩
        refine rej_of_steps o hst1 ?_
        rw [hsplit2]
        obtain ⟨off, e, he, hne⟩ := readToken_delim_end o st1 (rb.take (consumeWhitespace rb)) rc 0x3A (by decide)
          (ws_take rb) (jws_of_drop_nil rc hd3)
        exact rej_of_err o st1 _ cnt _ off e he hne
      | cons c1 rd0 =>
        simp only
        have hsplit3 := split_at_drop rc _ c1 rd0 hd3
        have hl3 := len_of_drop rc _ c1 rd0 hd3
        have hc1w : isWs c1 = false := by
          have := ws_stop rc c1 rd0 hd3; rw [← isWs_iff] at this; simpa using this
        have hodd : (k + 1) % 2 = 1 := by have := ha.even; omega
        have hav : AtValue (b + 1) D st1 (.obj (k + 1)) (g :: grest)
            (rb.take (consumeWhitespace rb) ++ 0x3A :: rc.take (consumeWhitespace rc)) c1 rd0 :=
          { good := hg1'
            depth := by have := ha.depth; simp; omega
            vpos := by simp [Frame.needName, hodd]
            pre := by
              rw [ncDelim_objOdd _ hodd]
              exact Or.inr ⟨by decide, _, _, ws_take rb, ws_take rc, rfl⟩
            cws := hc1w
            guard := by intro hf; cases hf
            room := by have := ha.room; simp; omega }
        have hin3 : rb = (rb.take (consumeWhitespace rb) ++ 0x3A :: rc.take (consumeWhitespace rc)) ++ c1 :: rd0 := by
          conv => lhs; rw [hsplit2, hsplit3]
          simp
        have hsv := hV D c1 rd0 (b + 1) st1 (.obj (k + 1)) (g :: grest) _ cnt
          (base + ((lead ++ r.take (consumeWhitespace r)).length + nn)) hav (by simp at hfuel ⊢; omega)
        rcases hcv : consumeValue o fuel D (c1 :: rd0) with ⟨kk, e⟩
        rw [hcv] at hsv
        simp only
        by_cases he : e ≠ .ok
        · have : (e != .ok) = true := by simpa using he
          simp only [this, if_true]
          refine ⟨fun h' => absurd h' he, fun _ => ?_⟩
          refine rej_of_steps o hst1 ?_
          rw [hin3]; exact hsv.2 he
        have he' : e = .ok := by simpa using he
        subst he'
        simp only [bne_self_eq_false, Bool.false_eq_true, if_false]
        obtain ⟨T1, st2, hT1, hT1k, hkl, hg2, hns2, hst2⟩ := hsv.1 rfl
        simp only [Frame.bump, hD2, if_false] at hg2 hst2
        rw [← hin3] at hst2
        have hst12 := steps_trans o hst1 hst2
        have hb3 : b + 1 + T1 + 1 < 2^61 := by have := ha.room; simp at hkl; omega
        have heven2 : (k + 1 + 1) % 2 = 0 := by have := ha.even; omega
        have hpre1len : (rb.take (consumeWhitespace rb) ++ 0x3A :: rc.take (consumeWhitespace rc)).length =
            consumeWhitespace rb + 1 + consumeWhitespace rc := by
          simp only [List.length_append, List.length_cons, take_ws_len]; omega
        generalize hre : (c1 :: rd0).drop kk = re at *
        have hrelen : re.length + kk = rd0.length + 1 := by
          rw [← hre]; simp only [List.length_drop, List.length_cons]; simp at hkl; omega
        cases hd4 : re.drop (consumeWhitespace re) with
        | nil =>
          simp only
          refine ⟨fun he => by simp at he, fun _ => ?_⟩
          exact rej_of_steps o hst12 (rej_end o hg2 (by simp) _ (jws_of_drop_nil _ hd4) cnt _)
        | cons c2 rf =>
          simp only
          have hsplit4 := split_at_drop re _ c2 rf hd4
          have hl4 := len_of_drop re _ c2 rf hd4
          have hc2w : isWs c2 = false := by
            have := ws_stop re c2 rf hd4; rw [← isWs_iff] at this; simpa using this
          -- where the byte c2 sits, seen from r
          have hdropAll : ∀ m, r.drop (consumeWhitespace r + nn + consumeWhitespace rb + 1 + consumeWhitespace rc + kk +
              consumeWhitespace re + 1 + m) = rf.drop m := by
            intro m
            have e1 : consumeWhitespace r + nn + consumeWhitespace rb + 1 + consumeWhitespace rc + kk + consumeWhitespace re + 1 + m =
                consumeWhitespace r + (nn + (consumeWhitespace rb + (1 + (consumeWhitespace rc + (kk + (consumeWhitespace re + (1 + m))))))) := by omega
            rw [e1, drop_add_of r _ _ hd, drop_add_of _ _ _ hrb, drop_add_of _ _ _ hd2]
            have e2 : 1 + (consumeWhitespace rc + (kk + (consumeWhitespace re + (1 + m)))) =
                (consumeWhitespace rc + (kk + (consumeWhitespace re + (1 + m)))) + 1 := by omega
            rw [e2, List.drop_succ_cons, drop_add_of _ _ _ hd3, drop_add_of _ _ _ hre, drop_add_of _ _ _ hd4]
            have e3 : 1 + m = m + 1 := by omega
            rw [e3, List.drop_succ_cons]
          by_cases hcomma : (c2 == 0x2C) = true
          · have hc2 : c2 = 0x2C := by simpa using hcomma
            subst hc2
            simp only [beq_self_eq_true, if_true]
            have ham : AtMem o (b + 1 + T1) D st2 (k + 1 + 1) g grest (re.take (consumeWhitespace re) ++ [0x2C]) rf
                (if o.allowDup = true then names else names ++ [unescapedName ((c0 :: ra0).take nn) fl]) outer :=
              { good := hg2
                even := heven2
                depth := ha.depth
                lead := by
                  rw [ncDelim_objEven _ heven2 (by omega)]
                  exact Or.inr ⟨by decide, _, ws_take re, rfl⟩
                ns := by unfold NsOK at hns1 ⊢; rw [hns2]; exact hns1
                guard := by intro h0; omega
                room := by have := ha.room; omega }
            have hsl := hL D rf _ (b + 1 + T1) st2 (k + 1 + 1) g grest (re.take (consumeWhitespace re) ++ [0x2C]) outer cnt
              (base + ((lead ++ r.take (consumeWhitespace r)).length + nn) +
                (rb.take (consumeWhitespace rb) ++ 0x3A :: rc.take (consumeWhitespace rc)).length + kk) ham (by omega)
            have hin4 : re = (re.take (consumeWhitespace re) ++ [0x2C]) ++ rf := by simpa using hsplit4
            rcases hal : objectLoop o fuel D
              (if o.allowDup = true then names else names ++ [unescapedName ((c0 :: ra0).take nn) fl]) rf with ⟨n2, e2⟩
            rw [hal] at hsl
            simp only [addOff]
            constructor
            · intro he2
              simp only at he2
              obtain ⟨T2, st3, hT2, hT2n, hn2l, hg3, hns3, hst3⟩ := hsl.1 he2
              rw [← hin4] at hst3
              refine ⟨1 + T1 + T2, st3, by omega, by first | omega | (simp; omega), by first | omega | (simp; omega), ?_, hns3, ?_⟩
              · have : b + (1 + T1 + T2) = b + 1 + T1 + T2 := by omega
                rw [this]; exact hg3
              · have hcomp := steps_trans o hst12 hst3
                simp only
                rw [hdropAll n2]
                have hbase : base + ((lead ++ r.take (consumeWhitespace r)).length + nn) +
                    (rb.take (consumeWhitespace rb) ++ 0x3A :: rc.take (consumeWhitespace rc)).length + kk +
                    (re.take (consumeWhitespace re) ++ [0x2C]).length + n2 =
                    base + lead.length + (consumeWhitespace r + nn + consumeWhitespace rb + 1 + consumeWhitespace rc + kk +
                      consumeWhitespace re + 1 + n2) := by
                  rw [hpre0len, hpre1len]
                  simp only [List.length_append, take_ws_len, List.length_cons, List.length_nil]; omega
                rw [hbase] at hcomp
                exact hcomp
            · intro he2
              simp only at he2
              exact rej_of_steps o hst12 (by rw [hin4]; exact hsl.2 he2)
          · have hcomma' : (c2 == 0x2C) = false := by simpa using hcomma
            simp only [hcomma', Bool.false_eq_true, if_false]
            by_cases hclose : (c2 == 0x7D) = true
            · have hc2 : c2 = 0x7D := by simpa using hclose
              subst hc2
              simp only [beq_self_eq_true, if_true]
              refine ⟨fun _ => ?_, fun he => by simp at he⟩
              obtain ⟨m3, hm3, hg3⟩ := sm_ok hg2 hb3 .endObj (step_endObj (k + 1 + 1) heven2 g grest)
              have hm3' : st2.m.popObject = .ok m3 := hm3
              have hrt3 := readToken_nodelim o st2 (re.take (consumeWhitespace re)) 0x7D rf (ws_take re) (by decide) (by decide)
              rw [needDelim_good hg2 (normKind 0x7D) .endObj (by decide), closeDelim_objEven _ heven2 _ _ rfl] at hrt3
              simp only [bne_self_eq_false, Bool.false_eq_true, if_false] at hrt3
              rw [lexToken_endObj, ← hsplit4, take_ws_len] at hrt3
              simp only [hm3'] at hrt3
              have hs3 := steps_one o st2 _ re cnt (base + ((lead ++ r.take (consumeWhitespace r)).length + nn) +
                (rb.take (consumeWhitespace rb) ++ 0x3A :: rc.take (consumeWhitespace rc)).length + kk)
                (consumeWhitespace re + 1) hrt3 (by omega)
              have hcomp := steps_trans o hst12 hs3
              have hnss3 : (if o.allowDup = true then st2.nss else st2.nss.drop 1) = outer := by
                rw [hns2]; unfold NsOK at hns1
                cases ha' : o.allowDup <;> simp [ha'] at hns1 ⊢ <;> simp [hns1]
              refine ⟨1 + T1 + 1, { m := m3, nss := if o.allowDup = true then st2.nss else st2.nss.drop 1 },
                by omega, by first | omega | (simp; omega), by first | omega | (simp; omega), ?_, hnss3, ?_⟩
              · have : b + (1 + T1 + 1) = b + 1 + T1 + 1 := by omega
                rw [this]; exact hg3 _
              · have hdep3 : ({ m := m3, nss := if o.allowDup = true then st2.nss else st2.nss.drop 1 } : TState).m.depth = D - 1 := by
                  rw [good_depth (hg3 _)]; have := ha.depth; simp; omega
                rw [hdep3] at hcomp
                have hcnt : (if (D - 1 == 1) = true then cnt + 1 else cnt) = (if D = 2 then cnt + 1 else cnt) := by
                  have := ha.depth
                  by_cases h : D = 2
                  · subst h; simp
                  · have : ¬ (D - 1 = 1) := by omega
                    simp [h, this]
                rw [hcnt] at hcomp
                simp only
                have hd0 := hdropAll 0
                simp only [Nat.add_zero, List.drop_zero] at hd0
                rw [hd0]
                have hrf : re.drop (consumeWhitespace re + 1) = rf := by
                  rw [drop_add_of _ _ _ hd4]; rfl
                rw [hrf] at hcomp
                have hbase : base + ((lead ++ r.take (consumeWhitespace r)).length + nn) +
                    (rb.take (consumeWhitespace rb) ++ 0x3A :: rc.take (consumeWhitespace rc)).length + kk +
                    (consumeWhitespace re + 1) =
                    base + lead.length + (consumeWhitespace r + nn + consumeWhitespace rb + 1 + consumeWhitespace rc + kk +
                      consumeWhitespace re + 1) := by
                  rw [hpre0len, hpre1len]; omega
                rw [hbase] at hcomp
                exact hcomp
            · have hclose' : (c2 == 0x7D) = false := by simpa using hclose
              simp only [hclose', Bool.false_eq_true, if_false]
              refine ⟨fun he => by simp at he, fun _ => ?_⟩
              refine rej_of_steps o hst12 ?_
              rw [hsplit4]
              refine rej_unexpected o hg2 hb3 _ c2 rf (ws_take re) hc2w
                (by rw [ncDelim_objEven _ heven2 (by omega)]; decide)
                (by rw [ncDelim_objEven _ heven2 (by omega)]; simpa using hcomma) ?_ ?_ ?_ cnt _
              · intro kk' hk'
                rcases hk' with ⟨-, rfl⟩ | ⟨rfl, -⟩
                · right; simp [PDA.step]
                · simp at hclose
              · intro kk' hk' h'; rw [closeDelim_objEven _ heven2 _ _ hk'] at h'; cases h'
              · intro kk' hk'; rw [closeDelim_objEven _ heven2 _ _ hk']; decide

theorem step_beginObj (f : Frame) (frest : Frames) (hv : f.needName = false) :
    PDA.step maxNestingDepth (f :: frest) .beginObj =
      if frest.length < maxNestingDepth then some (.obj 0 :: f.bump :: frest) else none := by
  simp [PDA.step, hv]

theorem so_step (o : VOpts) (fuel : Nat) (hL : SOL o fuel) : SO o (fuel + 1) := by
  intro D tl b st f frest pre cnt base ha hfuel
  have hb1 : b + 1 < 2^61 := by have := ha.room; simp at this; omega
  have hs : isStart 0x7B = true := by decide
  obtain ⟨hcw, hncl, hndb⟩ := start_nc 0x7B hs
  have hrt := readToken_pre o ha.good pre 0x7B tl ha.pre hcw hndb hncl
  rw [lexToken_beginObj] at hrt
  simp only [consumeObject]
  by_cases hdep : (D == maxNestingDepth + 1) = true
  · simp only [hdep, if_true]
    refine ⟨fun he => by simp at he, fun _ => ?_⟩
    have hD : D = maxNestingDepth + 1 := by simpa using hdep
    have hstep : PDA.step maxNestingDepth (f :: frest) .beginObj = none := by
      rw [step_beginObj f frest ha.vpos]
      have := ha.depth
      have : ¬ (frest.length < maxNestingDepth) := by omega
      simp [this]
    obtain ⟨se, hse⟩ := sm_err ha.good hb1 .beginObj hstep
    have hse' : st.m.pushObject maxNestingDepth = .error se := hse
    simp only [hse'] at hrt
    exact rej_of_err o st _ cnt base _ _ hrt (smErr_ne_ioeof se)
  · have hdep' : (D == maxNestingDepth + 1) = false := by simpa using hdep
    simp only [hdep', Bool.false_eq_true, if_false, List.drop_succ_cons, List.drop_zero]
    have hDne : D ≠ maxNestingDepth + 1 := by simpa using hdep
    have hstep : PDA.step maxNestingDepth (f :: frest) .beginObj = some (.obj 0 :: f.bump :: frest) := by
      rw [step_beginObj f frest ha.vpos]
      have := ha.depth
      by_cases hlt : frest.length < maxNestingDepth
      · simp [hlt]
      · exfalso
        have hinv := ha.good.inv.depth
        have habs := ha.good.abs
        have hlen : (StateRefine.abs st.m).length = st.m.stack.length + 1 := by simp [StateRefine.abs]
        rw [habs] at hlen
        simp only [List.length_cons] at hlen
        omega
    obtain ⟨m', hm', hg1⟩ := sm_ok ha.good hb1 .beginObj hstep
    have hm'' : st.m.pushObject maxNestingDepth = .ok m' := hm'
    simp only [hm''] at hrt
    generalize hst1def : ({ m := m', nss := if o.allowDup = true then st.nss else [] :: st.nss } : TState) = st1 at hrt
    have hg1' : TGood (b + 1) st1 (.obj 0 :: f.bump :: frest) := by rw [← hst1def]; exact hg1 _
    have hns1 : NsOK o st1 [] st.nss := by
      rw [← hst1def]; unfold NsOK; cases o.allowDup <;> simp
    have hst1 := steps_one o st st1 (pre ++ 0x7B :: tl) cnt base (pre.length + 1) hrt (by omega)
    have hdrop0 : (pre ++ 0x7B :: tl).drop (pre.length + 1) = tl := by
      rw [← List.drop_drop]; simp
    have hdep1 : st1.m.depth = D + 1 := by
      rw [good_depth hg1']; have := ha.depth; simp; omega
    rw [hdrop0, hdep1] at hst1
    have hc0 : (if (D + 1 == 1) = true then cnt + 1 else cnt) = cnt := by
      have : D ≠ 0 := by have := ha.depth; omega
      simp [this]
    rw [hc0] at hst1
    have hb2 : b + 1 + 1 < 2^61 := by have := ha.room; simp at this; omega
    cases hd : tl.drop (consumeWhitespace tl) with
    | nil =>
      simp only
      refine ⟨fun he => by simp at he, fun _ => ?_⟩
      exact rej_of_steps o hst1 (rej_end o hg1' (by simp) tl (jws_of_drop_nil tl hd) cnt _)
    | cons c rest =>
      simp only
      have hsplit := split_at_drop tl _ c rest hd
      have hl1 := len_of_drop tl _ c rest hd
      have hcw' : isWs c = false := by
        have := ws_stop tl c rest hd; rw [← isWs_iff] at this; simpa using this
      have htk := take_ws_len tl
      by_cases hclose : (c == 0x7D) = true
      · have hc : c = 0x7D := by simpa using hclose
        subst hc
        simp only [beq_self_eq_true, if_true]
        refine ⟨fun _ => ?_, fun he => by simp at he⟩
        obtain ⟨m2, hm2, hg2⟩ := sm_ok hg1' hb2 .endObj (step_endObj 0 rfl f.bump frest)
        have hm2' : st1.m.popObject = .ok m2 := hm2
        have hrt2 := readToken_nodelim o st1 (tl.take (consumeWhitespace tl)) 0x7D rest (ws_take tl) (by decide) (by decide)
        rw [needDelim_good hg1' (normKind 0x7D) .endObj (by decide), closeDelim_objEven 0 rfl _ _ rfl] at hrt2
        simp only [bne_self_eq_false, Bool.false_eq_true, if_false] at hrt2
        rw [lexToken_endObj, ← hsplit, htk] at hrt2
        simp only [hm2'] at hrt2
        have hnss2 : (if o.allowDup = true then st1.nss else st1.nss.drop 1) = st.nss := by
          unfold NsOK at hns1
          cases ha' : o.allowDup <;> simp [ha'] at hns1 ⊢ <;> simp [hns1]
        have hs2 := steps_one o st1 _ tl cnt (base + (pre.length + 1)) (consumeWhitespace tl + 1) hrt2 (by omega)
        have hcomp := steps_trans o hst1 hs2
        refine ⟨2, { m := m2, nss := if o.allowDup = true then st1.nss else st1.nss.drop 1 }, by omega,
          by first | omega | (simp; omega) | simp, by first | omega | (simp; omega) | simp, hg2 _, hnss2, ?_⟩
        have hdep2 : ({ m := m2, nss := if o.allowDup = true then st1.nss else st1.nss.drop 1 } : TState).m.depth = D := by
          rw [good_depth (hg2 _)]; have := ha.depth; simp; omega
        simp only at hcomp
        rw [hdep2] at hcomp
        have hcnt : (if (D == 1) = true then cnt + 1 else cnt) = (if D = 1 then cnt + 1 else cnt) := by
          by_cases h : D = 1 <;> simp [h]
        rw [hcnt] at hcomp
        have hdrop : (0x7B :: tl).drop (1 + consumeWhitespace tl + 1) = tl.drop (consumeWhitespace tl + 1) := by
          have : 1 + consumeWhitespace tl + 1 = (consumeWhitespace tl + 1) + 1 := by omega
          rw [this, List.drop_succ_cons]
        simp only
        rw [hdrop]
        have hbase : base + (pre.length + 1) + (consumeWhitespace tl + 1) = base + pre.length + (1 + consumeWhitespace tl + 1) := by omega
        rw [hbase] at hcomp
        exact hcomp
      · have hclose' : (c == 0x7D) = false := by simpa using hclose
        simp only [hclose', Bool.false_eq_true, if_false]
        have hwsc : consumeWhitespace (c :: rest) = 0 := by simp [consumeWhitespace, hcw']
        have ham : AtMem o (b + 1) (D + 1) st1 0 f.bump frest (tl.take (consumeWhitespace tl)) (c :: rest) [] st.nss :=
          { good := hg1'
            even := rfl
            depth := by have := ha.depth; omega
            lead := by rw [ncDelim_obj0]; exact Or.inl ⟨rfl, ws_take tl⟩
            ns := hns1
            guard := by
              intro _ c' t' h'
              rw [hwsc] at h'
              simp only [List.drop_zero, List.cons.injEq] at h'
              rw [← h'.1]; simpa using hclose
            room := by have := ha.room; simp at this ⊢; omega }
        have hsl := hL (D + 1) (c :: rest) [] (b + 1) st1 0 f.bump frest (tl.take (consumeWhitespace tl)) st.nss cnt
          (base + (pre.length + 1)) ham (by simp at hfuel ⊢; omega)
        rcases hal : objectLoop o fuel (D + 1) [] (c :: rest) with ⟨n2, e2⟩
        rw [hal] at hsl
        have hst1' : Steps o 1 st (pre ++ 0x7B :: tl) cnt base st1
            (tl.take (consumeWhitespace tl) ++ c :: rest) cnt (base + (pre.length + 1)) := by
          rw [← hsplit]; exact hst1
        simp only [addOff]
        constructor
        · intro he2
          simp only at he2
          obtain ⟨T2, st2, hT2, hT2n, hn2l, hg2, hns2, hst2⟩ := hsl.1 he2
          refine ⟨1 + T2, st2, by omega, by first | omega | (simp; omega), by simp at hn2l ⊢; omega, ?_, hns2, ?_⟩
          · have : b + (1 + T2) = b + 1 + T2 := by omega
            rw [this]; exact hg2
          · have hcomp := steps_trans o hst1' hst2
            have hcnt : (if D + 1 = 2 then cnt + 1 else cnt) = (if D = 1 then cnt + 1 else cnt) := by
              by_cases h : D = 1
              · subst h; simp
              · have : ¬ (D + 1 = 2) := by omega
                simp [h, this]
            rw [hcnt] at hcomp
            have hdrop : (0x7B :: tl).drop (1 + consumeWhitespace tl + n2) = (c :: rest).drop n2 := by
              have : 1 + consumeWhitespace tl + n2 = (consumeWhitespace tl + n2) + 1 := by omega
              rw [this, List.drop_succ_cons, ← List.drop_drop, hd]
            simp only
            rw [hdrop]
            have hbase : base + (pre.length + 1) + (tl.take (consumeWhitespace tl)).length + n2 =
                base + pre.length + (1 + consumeWhitespace tl + n2) := by rw [htk]; omega
            rw [hbase] at hcomp
            exact hcomp
        · intro he2
          simp only at he2
          exact rej_of_steps o hst1' (hsl.2 he2)

/-- the whole simulation: for every amount of fuel -/
theorem sim_all (o : VOpts) (fuel : Nat) : SV o fuel ∧ SA o fuel ∧ SL o fuel ∧ SO o fuel ∧ SOL o fuel := by
  induction fuel with
  | zero =>
    refine ⟨?_, ?_, ?_, ?_, ?_⟩
    · intro D c tl b st f frest pre cnt base _ h; simp at h
    · intro D tl b st f frest pre cnt base _ h; simp at h
    · intro D r b st k g grest lead cnt base _ h; omega
    · intro D tl b st f frest pre cnt base _ h; simp at h
    · intro D r names b st k g grest lead outer cnt base _ h; omega
  | succ fuel ih =>
    obtain ⟨h1, h2, h3, h4, h5⟩ := ih
    exact ⟨sv_step o fuel h2 h4, sa_step o fuel h3, sl_step o fuel h1 h3, so_step o fuel h5, sol_step o fuel h1 h5⟩

end JsonV.Lemmas.WireTokenSim
