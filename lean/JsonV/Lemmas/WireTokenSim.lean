/-
The token path simulates the value path (and rejects whenever the value path rejects): the induction over the
fuel of the value-path recogniser.  Both paths call the SAME scanners (`valueLiteral`, `valueString`,
`valueNumber`) on the same bytes, so no grammar is involved here.
-/
import JsonV.Lemmas.WireTokens

namespace JsonV.Lemmas.WireTokenSim
open JsonV JsonV.Model JsonV.Model.Wire JsonV.Model.Validate JsonV.Model.TokenLoop JsonV.Spec.Grammar
open JsonV.Spec JsonV.Spec.PDA
open JsonV.Lemmas.WireBasic JsonV.Lemmas.WireNumber JsonV.Lemmas.WireComplete JsonV.Lemmas.WireValue JsonV.Lemmas.WireFuel
open JsonV.Lemmas.StateRefine JsonV.Lemmas.StateRun JsonV.Lemmas.WireTokens

theorem byte_class : ∀ c : UInt8, isWs c = false →
    isStart c = true ∨ (c = 0x5D ∨ c = 0x7D) ∨ (c == 0x3A || c == 0x2C) = true ∨
      (normKind c = 0 ∧ isClosing c = false ∧ (c == 0x3A || c == 0x2C) = false) := by
  apply forall_u8; decide +kernel

theorem start_nc (c : UInt8) (h : isStart c = true) :
    isWs c = false ∧ isClosing c = false ∧ (c == 0x3A || c == 0x2C) = false := by
  obtain ⟨h1, h2, h3, h4, h5⟩ := start_facts c h
  refine ⟨h1, ?_, ?_⟩
  · simp only [isClosing, Bool.or_eq_false_iff]; exact ⟨h3, h2⟩
  · simp [h4, h5]

/-- a token state aligned with a value position of the value path -/
structure AtValue (b D : Nat) (st : TState) (f : Frame) (frest : Frames) (pre : Bytes) (c : UInt8) (tl : Bytes) : Prop where
  good : TGood b st (f :: frest)
  depth : frest.length + 1 = D
  vpos : f.needName = false
  pre : PreOK (ncDelim (f :: frest)) pre
  cws : isWs c = false
  guard : f = .arr 0 → frest ≠ [] → c ≠ 0x5D
  room : b + (c :: tl).length + 1 < 2^61

/-- the tokens of one value are read: `T` tokens, `n` bytes, the frame is bumped, the namespaces are as before -/
def OkStep (o : VOpts) (b D : Nat) (st : TState) (f : Frame) (frest : Frames) (pre r : Bytes) (n cnt base : Nat) : Prop :=
  ∃ T st', 1 ≤ T ∧ T ≤ n ∧ n ≤ r.length ∧ TGood (b + T) st' (f.bump :: frest) ∧ st'.nss = st.nss ∧
    Steps o T st (pre ++ r) cnt base st' (r.drop n) (if D = 1 then cnt + 1 else cnt) (base + pre.length + n)

def Concl (o : VOpts) (b D : Nat) (st : TState) (f : Frame) (frest : Frames) (pre r : Bytes) (cnt base : Nat)
    (res : Nat × Err) : Prop :=
  (res.2 = .ok → OkStep o b D st f frest pre r res.1 cnt base) ∧
  (res.2 ≠ .ok → ∀ F, Rej (tokenLoop o F st (pre ++ r) cnt base))

theorem tok_value_step (o : VOpts) {b D : Nat} {st st' : TState} {f : Frame} {frest : Frames} (pre r : Bytes) (n cnt base : Nat)
    (hrt : readToken o st (pre ++ r) = .tok (pre.length + n) st') (hg' : TGood (b + 1) st' (f.bump :: frest))
    (hns : st'.nss = st.nss) (hn : 1 ≤ n) (hnl : n ≤ r.length) (hD : frest.length + 1 = D) :
    OkStep o b D st f frest pre r n cnt base := by
  refine ⟨1, st', Nat.le_refl _, hn, hnl, hg', hns, ?_⟩
  have h1 := steps_one o st st' (pre ++ r) cnt base (pre.length + n) hrt (by omega)
  have hdrop : (pre ++ r).drop (pre.length + n) = r.drop n := by
    rw [← List.drop_drop]; simp
  have hdepth : st'.m.depth = D := by rw [good_depth hg']; simp; omega
  rw [hdrop, hdepth] at h1
  have hc : (if (D == 1) = true then cnt + 1 else cnt) = (if D = 1 then cnt + 1 else cnt) := by
    by_cases h : D = 1 <;> simp [h]
  rw [hc, ← Nat.add_assoc] at h1
  exact h1

theorem step_scalar (f : Frame) (frest : Frames) (k : Kind) (hk : k = .lit ∨ k = .num ∨ k = .str) (hv : f.needName = false) :
    PDA.step maxNestingDepth (f :: frest) k = some (f.bump :: frest) := by
  rcases hk with rfl | rfl | rfl <;> simp [PDA.step, hv]

def SV (o : VOpts) (fuel : Nat) : Prop :=
  ∀ D c tl b st f frest pre cnt base, AtValue b D st f frest pre c tl → 3 * (c :: tl).length + 1 ≤ fuel →
    Concl o b D st f frest pre (c :: tl) cnt base (consumeValue o fuel D (c :: tl))

def SA (o : VOpts) (fuel : Nat) : Prop :=
  ∀ D tl b st f frest pre cnt base, AtValue b D st f frest pre 0x5B tl → 3 * (0x5B :: tl).length ≤ fuel →
    Concl o b D st f frest pre (0x5B :: tl) cnt base (consumeArray o fuel D (0x5B :: tl))

def SO (o : VOpts) (fuel : Nat) : Prop :=
  ∀ D tl b st f frest pre cnt base, AtValue b D st f frest pre 0x7B tl → 3 * (0x7B :: tl).length ≤ fuel →
    Concl o b D st f frest pre (0x7B :: tl) cnt base (consumeObject o fuel D (0x7B :: tl))

theorem not_bad_ne_ioeof {e : Err} (h : ¬ Bad e) : e ≠ .ioEOF := fun he => h (Or.inr he)

/-- a scalar token: the lexer's verdict decides -/
theorem scalar_concl (o : VOpts) {b D : Nat} {st : TState} {f : Frame} {frest : Frames} {pre : Bytes} {c : UInt8} {tl : Bytes}
    (ha : AtValue b D st f frest pre c tl) (hs : isStart c = true) (k : Kind) (hk : k = .lit ∨ k = .num ∨ k = .str)
    (n : Nat) (e : Err) (hbad : ¬ Bad e) (hn : e = .ok → 1 ≤ n ∧ n ≤ (c :: tl).length)
    (hlex : ∀ pos, lexToken o st pos (c :: tl) =
      if e != .ok then .err (pos + n) e
      else match smStep maxNestingDepth st.m k with
        | .error se => .err pos (smErr se)
        | .ok m' => .tok (pos + n) { m := m', nss := st.nss })
    (cnt base : Nat) : Concl o b D st f frest pre (c :: tl) cnt base (n, e) := by
  obtain ⟨hcw, hncl, hndb⟩ := start_nc c hs
  have hrt := readToken_pre o ha.good pre c tl ha.pre hcw hndb hncl
  rw [hlex] at hrt
  have hb1 : b + 1 < 2^61 := by have := ha.room; simp at this; omega
  constructor
  · intro he
    simp only at he
    subst he
    obtain ⟨m', hm', hg'⟩ := sm_ok ha.good hb1 k (step_scalar f frest k hk ha.vpos)
    simp only [bne_self_eq_false, Bool.false_eq_true, if_false, hm'] at hrt
    obtain ⟨h1, h2⟩ := hn rfl
    exact tok_value_step o pre (c :: tl) n cnt base hrt (hg' st.nss) rfl h1 h2 ha.depth
  · intro he
    simp only at he
    have : (e != .ok) = true := by simpa using he
    rw [this] at hrt
    simp only [if_true] at hrt
    exact rej_of_err o st _ cnt base _ _ hrt (not_bad_ne_ioeof hbad)

theorem good_needName {b : Nat} {st : TState} {f : Frame} {frest : Frames} (h : TGood b st (f :: frest)) :
    st.m.last.needObjectName = f.needName := by
  have := h.abs
  rw [abs_cons] at this
  simp only [List.cons.injEq] at this
  rw [← needName_abs, this.1]

theorem good_ns_flags {b : Nat} {st : TState} {fs : Frames} (h : TGood b st fs) :
    st.m.last.isValidNamespace = true ∧ st.m.last.isActiveNamespace = true :=
  ⟨valid_of_clean h.inv.last, active_of_clean h.inv.last⟩

theorem lex_literal (o : VOpts) (st : TState) (c : UInt8) (tl : Bytes) (lit : Bytes)
    (hk : (normKind c == 0x6E ∧ lit = litNull) ∨ (normKind c == 0x66 ∧ lit = litFalse) ∨ (normKind c == 0x74 ∧ lit = litTrue))
    (n : Nat) (e : Err) (hvl : valueLiteral lit (c :: tl) = (n, e)) (pos : Nat) :
    lexToken o st pos (c :: tl) =
      if e != .ok then .err (pos + n) e
      else match smStep maxNestingDepth st.m .lit with
        | .error se => .err pos (smErr se)
        | .ok m' => .tok (pos + n) { m := m', nss := st.nss } := by
  have hsm : smStep maxNestingDepth st.m .lit = st.m.appendLiteral := rfl
  rcases hk with ⟨hk, rfl⟩ | ⟨hk, rfl⟩ | ⟨hk, rfl⟩
  · have hk' : normKind c = 0x6E := by simpa using hk
    simp only [lexToken, hk', hvl, hsm, feed]
    simp
    cases st.m.appendLiteral <;> rfl
  · have hk' : normKind c = 0x66 := by simpa using hk
    simp only [lexToken, hk', hvl, hsm, feed]
    simp
    cases st.m.appendLiteral <;> rfl
  · have hk' : normKind c = 0x74 := by simpa using hk
    simp only [lexToken, hk', hvl, hsm, feed]
    simp
    cases st.m.appendLiteral <;> rfl

theorem lex_number (o : VOpts) (st : TState) (c : UInt8) (tl : Bytes) (hk : normKind c = 0x30)
    (n : Nat) (e : Err) (hvl : valueNumber (c :: tl) = (n, e)) (pos : Nat) :
    lexToken o st pos (c :: tl) =
      if e != .ok then .err (pos + n) e
      else match smStep maxNestingDepth st.m .num with
        | .error se => .err pos (smErr se)
        | .ok m' => .tok (pos + n) { m := m', nss := st.nss } := by
  have hsm : smStep maxNestingDepth st.m .num = st.m.appendNumber := rfl
  simp only [lexToken, hk, hvl, hsm, feed]
  simp
  cases st.m.appendNumber <;> rfl

theorem lex_string_value (o : VOpts) {b : Nat} {st : TState} {f : Frame} {frest : Frames} (hg : TGood b st (f :: frest))
    (hv : f.needName = false) (c : UInt8) (tl : Bytes) (hk : normKind c = 0x22)
    (n : Nat) (fl : ValueFlags) (e : Err) (hvl : valueString o (c :: tl) = (n, fl, e)) (pos : Nat) :
    lexToken o st pos (c :: tl) =
      if e != .ok then .err (pos + n) e
      else match smStep maxNestingDepth st.m .str with
        | .error se => .err pos (smErr se)
        | .ok m' => .tok (pos + n) { m := m', nss := st.nss } := by
  have hsm : smStep maxNestingDepth st.m .str = st.m.appendString := rfl
  have hnn : st.m.last.needObjectName = false := by rw [good_needName hg, hv]
  simp only [lexToken, hk, hvl, hsm]
  by_cases he : e = .ok
  · subst he
    have hlen : ((c :: tl).take n).length = n := by
      have := (valueString_sound o _ n fl hvl).1
      simp only [List.length_take]; omega
    simp [feedString, hnn, hlen]
    cases st.m.appendString <;> rfl
  · simp [he]

theorem start_kinds : ∀ c : UInt8, isStart c = true →
    normKind c = 0x6E ∨ normKind c = 0x66 ∨ normKind c = 0x74 ∨ normKind c = 0x22 ∨ normKind c = 0x30 ∨
      c = 0x7B ∨ c = 0x5B := by
  apply forall_u8; decide +kernel

theorem closing_value : ∀ c : UInt8, (c = 0x5D ∨ c = 0x7D) → ∀ (o : VOpts) (fuel D : Nat) (tl : Bytes),
    (consumeValue o (fuel + 1) D (c :: tl)).2 ≠ .ok := by
  intro c hc o fuel D tl
  rcases hc with rfl | rfl
  · have hk : normKind 0x5D = 0x5D := by decide
    simp [consumeValue, hk]
  · have hk : normKind 0x7D = 0x7D := by decide
    simp [consumeValue, hk]

theorem invalid_value (c : UInt8) (hk : normKind c = 0) (o : VOpts) (fuel D : Nat) (tl : Bytes) :
    (consumeValue o (fuel + 1) D (c :: tl)).2 ≠ .ok := by
  simp [consumeValue, hk]

theorem sv_step (o : VOpts) (fuel : Nat) (hA : SA o fuel) (hO : SO o fuel) : SV o (fuel + 1) := by
  intro D c tl b st f frest pre cnt base ha hfuel
  have hb1 : b + 1 < 2^61 := by have := ha.room; simp at this; omega
  rcases byte_class c ha.cws with hs | hcl | hdb | ⟨hk0, hncl, hndb⟩
  · rcases start_kinds c hs with hk | hk | hk | hk | hk | rfl | rfl
    · rcases hvl : valueLiteral litNull (c :: tl) with ⟨n, e⟩
      have : consumeValue o (fuel + 1) D (c :: tl) = (n, e) := by simp [consumeValue, hk, hvl]
      rw [this]
      have hbad := valueLiteral_no_fuel litNull (c :: tl); rw [hvl] at hbad
      refine scalar_concl o ha hs .lit (Or.inl rfl) n e hbad ?_ ?_ cnt base
      · intro he; subst he
        have := valueLiteral_sound litNull _ n (by decide) hvl
        have h2 := congrArg List.length this.2
        simp only [List.length_take] at h2
        exact ⟨by simp [litNull] at h2; omega, this.1⟩
      · exact lex_literal o st c tl litNull (Or.inl ⟨by simp [hk], rfl⟩) n e hvl
    · rcases hvl : valueLiteral litFalse (c :: tl) with ⟨n, e⟩
      have : consumeValue o (fuel + 1) D (c :: tl) = (n, e) := by simp [consumeValue, hk, hvl]
      rw [this]
      have hbad := valueLiteral_no_fuel litFalse (c :: tl); rw [hvl] at hbad
      refine scalar_concl o ha hs .lit (Or.inl rfl) n e hbad ?_ ?_ cnt base
      · intro he; subst he
        have := valueLiteral_sound litFalse _ n (by decide) hvl
        have h2 := congrArg List.length this.2
        simp only [List.length_take] at h2
        exact ⟨by simp [litFalse] at h2; omega, this.1⟩
      · exact lex_literal o st c tl litFalse (Or.inr (Or.inl ⟨by simp [hk], rfl⟩)) n e hvl
    · rcases hvl : valueLiteral litTrue (c :: tl) with ⟨n, e⟩
      have : consumeValue o (fuel + 1) D (c :: tl) = (n, e) := by simp [consumeValue, hk, hvl]
      rw [this]
      have hbad := valueLiteral_no_fuel litTrue (c :: tl); rw [hvl] at hbad
      refine scalar_concl o ha hs .lit (Or.inl rfl) n e hbad ?_ ?_ cnt base
      · intro he; subst he
        have := valueLiteral_sound litTrue _ n (by decide) hvl
        have h2 := congrArg List.length this.2
        simp only [List.length_take] at h2
        exact ⟨by simp [litTrue] at h2; omega, this.1⟩
      · exact lex_literal o st c tl litTrue (Or.inr (Or.inr ⟨by simp [hk], rfl⟩)) n e hvl
    · rcases hvl : valueString o (c :: tl) with ⟨n, fl, e⟩
      have : consumeValue o (fuel + 1) D (c :: tl) = (n, e) := by simp [consumeValue, hk, hvl]
      rw [this]
      have hbad := valueString_no_fuel o (c :: tl); rw [hvl] at hbad
      refine scalar_concl o ha hs .str (Or.inr (Or.inr rfl)) n e hbad ?_ ?_ cnt base
      · intro he; subst he
        obtain ⟨h1, body, hj, htk⟩ := valueString_sound o _ n fl hvl
        have h2 := congrArg List.length htk
        simp only [List.length_take, List.length_cons, List.length_append] at h2
        exact ⟨by omega, h1⟩
      · exact lex_string_value o ha.good ha.vpos c tl hk n fl e hvl
    · rcases hvl : valueNumber (c :: tl) with ⟨n, e⟩
      have : consumeValue o (fuel + 1) D (c :: tl) = (n, e) := by simp [consumeValue, hk, hvl]
      rw [this]
      have hbad := valueNumber_no_fuel (c :: tl); rw [hvl] at hbad
      refine scalar_concl o ha hs .num (Or.inr (Or.inl rfl)) n e hbad ?_ ?_ cnt base
      · intro he; subst he
        obtain ⟨h1, hnum⟩ := valueNumber_sound _ n hvl
        obtain ⟨c0, t0, htk, -⟩ := jnumber_head _ hnum
        have h2 := congrArg List.length htk
        simp only [List.length_take, List.length_cons] at h2
        exact ⟨by omega, h1⟩
      · exact lex_number o st c tl hk n e hvl
    · have hk : normKind 0x7B = 0x7B := by decide
      have : consumeValue o (fuel + 1) D (0x7B :: tl) = consumeObject o fuel D (0x7B :: tl) := by simp [consumeValue, hk]
      rw [this]
      exact hO D tl b st f frest pre cnt base ha (by simp at hfuel ⊢; omega)
    · have hk : normKind 0x5B = 0x5B := by decide
      have : consumeValue o (fuel + 1) D (0x5B :: tl) = consumeArray o fuel D (0x5B :: tl) := by simp [consumeValue, hk]
      rw [this]
      exact hA D tl b st f frest pre cnt base ha (by simp at hfuel ⊢; omega)
  · refine ⟨fun he => absurd he (closing_value c hcl o fuel D tl), fun _ => ?_⟩
    refine rej_closing o ha.good hb1 pre c tl ha.pre hcl ?_ ?_ cnt base
    · rintro ⟨hf, hc, hne⟩; exact ha.guard hf hne hc
    · rintro ⟨hf, -, -⟩; have := ha.vpos; rw [hf] at this; simp [Frame.needName] at this
  · have hk0 : normKind c = 0 := by
      simp only [Bool.or_eq_true, beq_iff_eq] at hdb; rcases hdb with rfl | rfl <;> decide
    exact ⟨fun he => absurd he (invalid_value c hk0 o fuel D tl), fun _ => rej_delimbyte o ha.good pre c tl ha.pre hdb cnt base⟩
  · refine ⟨fun he => absurd he (invalid_value c hk0 o fuel D tl), fun _ => ?_⟩
    have hrt := readToken_pre o ha.good pre c tl ha.pre ha.cws hndb hncl
    have hlex : lexToken o st pre.length (c :: tl) = .err pre.length .invalidChar := by simp [lexToken, hk0]
    rw [hlex] at hrt
    exact rej_of_err o st _ cnt base _ _ hrt (by simp)

end JsonV.Lemmas.WireTokenSim
