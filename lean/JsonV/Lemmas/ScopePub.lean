/-
C19 "scoped": coders built from public options carry no tag state; what `GetOption` can observe is unchanged by a frame step.
-/
import JsonV.Lemmas.ScopeL
import JsonV.Spec.OptMap

namespace JsonV.Lemmas.ScopePub
open JsonV.Model JsonV.Model.Scope JsonV.Gen JsonV.Lemmas.FlagsL JsonV.Lemmas.OptsL JsonV.Lemmas.ScopeL

/-- Options a caller can construct: a `Bools` word never names the internal tag flags, a nested `*Struct` (JoinOptions
result, `DefaultOptionsV1/V2`, a coder's `Options()` taken outside a struct member) carries no tag state. -/
def PublicOpt : Opt → Prop
  | .bools f => f.getLsbD 27 = false ∧ f.getLsbD 28 = false
  | .struct s => TagFree s
  | _ => True

theorem join_values_bit (a b : Flags) (i : Nat) :
    (a.join b).values.getLsbD i = ((a.values.getLsbD i && !b.presence.getLsbD i) || b.values.getLsbD i) := by
  simp only [Flags.join, BitVec.getLsbD_or, BitVec.getLsbD_and, BitVec.getLsbD_not]
  cases ha : a.values.getLsbD i
  · simp
  · have hi := BitVec.lt_of_getLsbD ha; simp [hi]

theorem tagFree_setWord (s : Struct) (w : BitVec 64) (h27 : w.getLsbD 27 = false) (h28 : w.getLsbD 28 = false)
    (ht : TagFree s) : TagFree { s with flags := s.flags.set w } := by
  obtain ⟨p27, p28, v27, v28, hf⟩ := ht
  refine ⟨?_, ?_, ?_, ?_, hf⟩
  · show (s.flags.set w).presence.getLsbD 27 = false
    rw [set_presence_bit, p27, h27]; simp
  · show (s.flags.set w).presence.getLsbD 28 = false
    rw [set_presence_bit, p28, h28]; simp
  · show (s.flags.set w).values.getLsbD 27 = false
    rw [set_values_bit, v27, h27]; simp
  · show (s.flags.set w).values.getLsbD 28 = false
    rw [set_values_bit, v28, h28]; simp

theorem tagFree_joinOne (dst : Struct) (o : Opt) (hd : TagFree dst) (ho : PublicOpt o) : TagFree (dst.joinOne o) := by
  cases o with
  | nil => exact hd
  | bools f => exact tagFree_setWord dst f ho.1 ho.2 hd
  | formatTagSupport b =>
    cases b
    · exact tagFree_setWord dst _ (by decide) (by decide) hd
    · exact tagFree_setWord dst _ (by decide) (by decide) hd
  | indent x =>
    have := tagFree_setWord dst (F.multiline ||| F.indent ||| one) (by decide) (by decide) hd
    exact ⟨this.1, this.2.1, this.2.2.1, this.2.2.2.1, hd.2.2.2.2⟩
  | indentPrefix x =>
    have := tagFree_setWord dst (F.multiline ||| F.indentPrefix ||| one) (by decide) (by decide) hd
    exact ⟨this.1, this.2.1, this.2.2.1, this.2.2.2.1, hd.2.2.2.2⟩
  | byteLimit n =>
    have := tagFree_setWord dst (F.byteLimit ||| one) (by decide) (by decide) hd
    exact ⟨this.1, this.2.1, this.2.2.1, this.2.2.2.1, hd.2.2.2.2⟩
  | depthLimit n =>
    have := tagFree_setWord dst (F.depthLimit ||| one) (by decide) (by decide) hd
    exact ⟨this.1, this.2.1, this.2.2.1, this.2.2.2.1, hd.2.2.2.2⟩
  | marshalers n =>
    have := tagFree_setWord dst (F.marshalers ||| one) (by decide) (by decide) hd
    exact ⟨this.1, this.2.1, this.2.2.1, this.2.2.2.1, hd.2.2.2.2⟩
  | unmarshalers n =>
    have := tagFree_setWord dst (F.unmarshalers ||| one) (by decide) (by decide) hd
    exact ⟨this.1, this.2.1, this.2.2.1, this.2.2.2.1, hd.2.2.2.2⟩
  | struct src =>
    obtain ⟨p27, p28, v27, v28, hf⟩ := hd
    obtain ⟨q27, q28, w27, w28, hg⟩ := ho
    have hj : TagFree { dst with flags := dst.flags.join src.flags } := by
      refine ⟨?_, ?_, ?_, ?_, hf⟩
      · show (dst.flags.join src.flags).presence.getLsbD 27 = false
        rw [join_presence_bit, p27, q27]; simp
      · show (dst.flags.join src.flags).presence.getLsbD 28 = false
        rw [join_presence_bit, p28, q28]; simp
      · show (dst.flags.join src.flags).values.getLsbD 27 = false
        rw [join_values_bit, v27, w27]; simp
      · show (dst.flags.join src.flags).values.getLsbD 28 = false
        rw [join_values_bit, v28, w28]; simp
    simp only [Struct.joinOne]
    split
    · refine ⟨hj.1, hj.2.1, hj.2.2.1, hj.2.2.2.1, ?_⟩
      simp only [Struct.copySlots]
      split
      · exact hg
      · exact hf
    · exact hj

theorem tagFree_join (dst : Struct) (os : List Opt) (hd : TagFree dst) (ho : ∀ o ∈ os, PublicOpt o) :
    TagFree (dst.join os) := by
  induction os generalizing dst with
  | nil => exact hd
  | cons o os ih =>
    simp only [Struct.join, List.foldl_cons]
    exact ih (dst.joinOne o) (tagFree_joinOne dst o hd (ho o List.mem_cons_self)) (fun o' h' => ho o' (List.mem_cons_of_mem _ h'))

theorem tagFree_initializeMultiline (s : Struct) (h : TagFree s) : TagFree (initializeMultiline s) := by
  have h1 : TagFree (imColon s) := by
    unfold imColon; split
    · exact tagFree_setWord s _ (by decide) (by decide) h
    · exact h
  have h2 : TagFree (imComma (imColon s)) := by
    unfold imComma; split
    · exact tagFree_setWord _ _ (by decide) (by decide) h1
    · exact h1
  unfold initializeMultiline imIndent
  split
  · have := tagFree_setWord (imComma (imColon s)) (W.indent ||| one) (by decide) (by decide) h2
    exact ⟨this.1, this.2.1, this.2.2.1, this.2.2.2.1, h2.2.2.2.2⟩
  · exact h2

/-- A caller-owned coder constructed from public options has no tag state. -/
theorem newCoder_tagFree (enc : Bool) (os : List Opt) (ho : ∀ o ∈ os, PublicOpt o) : TagFree (newCoder enc os) := by
  have hj : TagFree (Struct.join {} os) := tagFree_join {} os (by decide) ho
  unfold newCoder
  simp only
  split
  · exact tagFree_initializeMultiline _ hj
  · exact hj

/-- Keys `GetOption` can be asked for through the public API: every setter except one for the internal
WithinArshalCall flag (there is none). -/
def PublicKey : Key → Prop
  | .flag f => f.getLsbD 3 = false
  | _ => True

theorem has_or_within (p v : BitVec 64) (f : BitVec 64) (hf : f.getLsbD 3 = false) :
    Flags.has ⟨p ||| W.withinArshalCall, v⟩ f = Flags.has ⟨p, v⟩ f := by
  have : (p ||| W.withinArshalCall) &&& f = p &&& f := by
    apply BitVec.eq_of_getLsbD_eq; intro i _
    rw [BitVec.getLsbD_and, BitVec.getLsbD_and, BitVec.getLsbD_or, within_bits]
    by_cases h3 : i = 3
    · subst h3; rw [hf]; simp
    · simp [h3]
  simp only [Flags.has, this]

/-- What `GetOption` reports does not depend on the presence bit of WithinArshalCall. -/
theorem getOption_or_within (s : Struct) (k : Key) (hk : PublicKey k) :
    ({ s with flags := ⟨s.flags.presence ||| W.withinArshalCall, s.flags.values⟩ } : Struct).getOption k = s.getOption k := by
  have hh : ∀ f, f.getLsbD 3 = false →
      Flags.has ⟨s.flags.presence ||| W.withinArshalCall, s.flags.values⟩ f = s.flags.has f := by
    intro f hf; exact has_or_within _ _ f hf
  have hg : ∀ f, Flags.get ⟨s.flags.presence ||| W.withinArshalCall, s.flags.values⟩ f = s.flags.get f := by
    intro f; rfl
  cases k with
  | flag f => simp only [Struct.getOption, hh f hk, hg]
  | formatTagSupport => simp only [Struct.getOption, hh _ (by decide : F.formatTagSupported.getLsbD 3 = false), hg]
  | indent => simp only [Struct.getOption, hh _ (by decide : F.indent.getLsbD 3 = false)]
  | indentPrefix => simp only [Struct.getOption, hh _ (by decide : F.indentPrefix.getLsbD 3 = false)]
  | byteLimit => simp only [Struct.getOption, hh _ (by decide : F.byteLimit.getLsbD 3 = false)]
  | depthLimit => simp only [Struct.getOption, hh _ (by decide : F.depthLimit.getLsbD 3 = false)]
  | marshalers => simp only [Struct.getOption, hh _ (by decide : F.marshalers.getLsbD 3 = false)]
  | unmarshalers => simp only [Struct.getOption, hh _ (by decide : F.unmarshalers.getLsbD 3 = false)]

/-- `intact_of_frame` as an equation: the struct afterwards is the struct before, possibly with that one presence bit. -/
theorem eq_of_intact {s s' : Struct}
    (h : s'.flags.values = s.flags.values ∧
      (s'.flags.presence = s.flags.presence ∨ s'.flags.presence = s.flags.presence ||| W.withinArshalCall) ∧
      s'.indent = s.indent ∧ s'.indentPrefix = s.indentPrefix ∧ s'.byteLimit = s.byteLimit ∧ s'.depthLimit = s.depthLimit ∧
      s'.marshalers = s.marshalers ∧ s'.unmarshalers = s.unmarshalers ∧ s'.format = s.format) :
    s' = s ∨ s' = { s with flags := ⟨s.flags.presence ||| W.withinArshalCall, s.flags.values⟩ } := by
  obtain ⟨hv, hp, h1, h2, h3, h4, h5, h6, h7⟩ := h
  cases s with | mk fl a b c d e f g =>
  cases s' with | mk fl' a' b' c' d' e' f' g' =>
  cases fl with | mk p v =>
  cases fl' with | mk p' v' =>
  simp only at hv hp h1 h2 h3 h4 h5 h6 h7
  subst hv h1 h2 h3 h4 h5 h6 h7
  rcases hp with hp | hp
  · left; subst hp; rfl
  · right; subst hp; rfl

theorem bits_colonSet (i : Nat) : (W.spaceAfterColon ||| one).getLsbD i = (decide (i = 0) || decide (i = 12)) :=
  bits_of_const _ (fun i => decide (i = 0) || decide (i = 12)) (by decide) (by intro i hi; simp; omega) i
theorem bits_comma (i : Nat) : W.spaceAfterComma.getLsbD i = decide (i = 13) :=
  bits_of_const _ (fun i => decide (i = 13)) (by decide) (by intro i hi; simp; omega) i
theorem bits_indentSet (i : Nat) : (W.indent ||| one).getLsbD i = (decide (i = 0) || decide (i = 14)) :=
  bits_of_const _ (fun i => decide (i = 0) || decide (i = 14)) (by decide) (by intro i hi; simp; omega) i

/-- `InitializeMultiline` touches only SpaceAfterColon (12), SpaceAfterComma (13), Indent (14). -/
theorem initializeMultiline_lookup (j : Struct) (i : Nat) (h12 : i ≠ 12) (h13 : i ≠ 13) (h14 : i ≠ 14) :
    (initializeMultiline j).flags.lookup i = j.flags.lookup i := by
  have e1 : (imColon j).flags.lookup i = j.flags.lookup i := by
    unfold imColon; split
    · show (j.flags.set _).lookup i = _
      rw [lookup_set, bits_colonSet]; by_cases h0 : i = 0 <;> simp [h0, h12]
    · rfl
  have e2 : (imComma (imColon j)).flags.lookup i = (imColon j).flags.lookup i := by
    unfold imComma; split
    · show ((imColon j).flags.set _).lookup i = _
      rw [lookup_set, bits_comma]; simp [h13]
    · rfl
  have e3 : (imIndent (imComma (imColon j))).flags.lookup i = (imComma (imColon j)).flags.lookup i := by
    unfold imIndent; split
    · show ((imComma (imColon j)).flags.set _).lookup i = _
      rw [lookup_set, bits_indentSet]; by_cases h0 : i = 0 <;> simp [h0, h14]
    · rfl
  unfold initializeMultiline
  rw [e3, e2, e1]

end JsonV.Lemmas.ScopePub
