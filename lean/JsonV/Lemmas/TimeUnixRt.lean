/-
`timeUnix_rt`: parseTimeUnix (appendTimeUnix (sec, nsec) p) p = (sec, nsec).  Core Lean only.
-/
import JsonV.Lemmas.TimeUnix

namespace JsonV.Model.Time
open JsonV

/-- the part of `appendTimeUnix` after the sign step. -/
def unixBody (b : Bytes) (sec nsec : Int) (pow10 : Nat) : Bytes :=
  let usec := toU64 sec
  let unsec := toU64 nsec
  if pow10 = 1 then
    appendFracBase10 (b ++ natDigits usec) unsec 1000000000
  else if usec < 1000000000 then
    let b := b ++ natDigits ((usec * pow10 + unsec / (1000000000 / pow10)) % U64)
    appendFracBase10 b ((unsec * pow10 % U64) % 1000000000) 1000000000
  else
    let b := b ++ natDigits usec
    let b := appendPaddedBase10 b (unsec / (1000000000 / pow10)) pow10
    appendFracBase10 b ((unsec * pow10 % U64) % 1000000000) 1000000000

theorem appendTimeUnix_eq (sec nsec : Int) (p : Nat) :
    appendTimeUnix [] sec nsec p =
      unixBody (if sec < 0 then [cMinus] else []) (if sec < 0 then negateSecNano sec nsec else (sec, nsec)).1
        (if sec < 0 then negateSecNano sec nsec else (sec, nsec)).2 p := by
  unfold appendTimeUnix unixBody
  by_cases h : sec < 0 <;> simp [h]

theorem toU64_lt (i : Int) : toU64 i < U64 := by
  simp only [toU64, U64]; omega

theorem toI64_toU64 (i : Int) (h0 : -9223372036854775808 ≤ i) (h1 : i < 9223372036854775808) : toI64 (toU64 i) = i :=
  wrapI_id h0 h1

theorem pow9 : (10 : Nat) ^ 9 = 1000000000 := by decide

/-- the body, read back: any int64 `s`, `n ∈ [0, 10^9)`, base `10^k` with `k + j = 9`. -/
theorem unixBody_parse (k j : Nat) (hkj : k + j = 9) (hlog : k = 0 ∨ log10w (10 ^ k) = k) (neg : Bool) (s n : Int)
    (hs0 : -9223372036854775808 ≤ s) (hs1 : s < 9223372036854775808) (hn0 : 0 ≤ n) (hn1 : n < 1000000000) :
    parseTimeUnix (unixBody (if neg then [cMinus] else []) s n (10 ^ k)) (10 ^ k) = finishUnix neg s n := by
  have hmul : 10 ^ k * 10 ^ j = 1000000000 := by rw [← Nat.pow_add, hkj]
  have hpk : 0 < 10 ^ k := Nat.pow_pos (by decide)
  have hpj : 0 < 10 ^ j := Nat.pow_pos (by decide)
  have hq : 1000000000 / 10 ^ k = 10 ^ j := by rw [← hmul]; exact Nat.mul_div_cancel_left _ hpk
  have hun : toU64 n = n.toNat := toU64_nonneg hn0 (by omega)
  have hunlt : n.toNat < 1000000000 := by omega
  have hus := toU64_lt s
  have hback : toI64 (toU64 s) = s := toI64_toU64 s hs0 hs1
  have hnback : toI64 n.toNat = n := by rw [toI64_small (by omega)]; omega
  unfold unixBody
  by_cases hk0 : k = 0
  · -- regime 1
    subst hk0
    simp only [Nat.pow_zero, if_true, hun]
    rw [← pow9, appendFrac_eq' _ 9 _ (by rw [pow9]; exact hunlt), List.append_assoc]
    have := parseTimeUnix_sec neg (toU64 s) n.toNat hus (by rw [pow9]; exact hunlt)
    rw [this, hback, hnback]
  · have hkpos : 0 < k := Nat.pos_of_ne_zero hk0
    have hne : ¬ (10 ^ k = 1) := by
      have : 10 ^ 1 ≤ 10 ^ k := Nat.pow_le_pow_right (by decide) hkpos
      omega
    have hlog' : log10w (10 ^ k) = k := by cases hlog with
      | inl h => exact absurd h hk0
      | inr h => exact h
    have hple : 10 ^ k ≤ 1000000000 := by rw [← hmul]; exact Nat.le_mul_of_pos_right _ hpj
    -- the fraction below the unit: (nsec * P) % 10^9 = (nsec % Q) * P
    have hfrac : (n.toNat * 10 ^ k % U64) % 1000000000 = (n.toNat % 10 ^ j) * 10 ^ k := by
      have hsmall : n.toNat * 10 ^ k < U64 := by
        have : n.toNat * 10 ^ k ≤ 1000000000 * 1000000000 := Nat.mul_le_mul (by omega) hple
        simp only [U64]; omega
      rw [Nat.mod_eq_of_lt hsmall, ← hmul, Nat.mul_comm (10 ^ k) (10 ^ j), Nat.mul_mod_mul_right]
    have hftext : fracText 9 ((n.toNat % 10 ^ j) * 10 ^ k) = fracText j (n.toNat % 10 ^ j) := by
      have := fracText_scale j k (n.toNat % 10 ^ j)
      rw [Nat.add_comm, hkj] at this; exact this
    have hflt : (n.toNat % 10 ^ j) * 10 ^ k < 10 ^ 9 := by
      rw [pow9, ← hmul, Nat.mul_comm]
      exact Nat.mul_lt_mul_of_pos_left (Nat.mod_lt _ hpj) hpk
    have hm : n.toNat / 10 ^ j < 10 ^ k := by
      apply (Nat.div_lt_iff_lt_mul hpj).mpr
      rw [hmul]; exact hunlt
    have hrecomb : (n.toNat / 10 ^ j) * 10 ^ j + n.toNat % 10 ^ j = n.toNat := by
      rw [Nat.mul_comm]; exact Nat.div_add_mod _ _
    simp only [if_neg hne, hun, hq, hfrac]
    by_cases hsmall : toU64 s < 1000000000
    · -- regime 2
      simp only [if_pos hsmall]
      have hN : toU64 s * 10 ^ k + n.toNat / 10 ^ j < U64 := by
        have : toU64 s * 10 ^ k ≤ 1000000000 * 1000000000 := Nat.mul_le_mul (by omega) hple
        simp only [U64]; omega
      rw [Nat.mod_eq_of_lt hN, ← pow9, appendFrac_eq' _ 9 _ hflt, hftext, List.append_assoc]
      rw [parseTimeUnix_fits k j hkpos hmul neg _ _ hN (Nat.mod_lt _ hpj)]
      have e1 : (toU64 s * 10 ^ k + n.toNat / 10 ^ j) / 10 ^ k = toU64 s := by
        rw [Nat.add_comm, Nat.add_mul_div_right _ _ hpk, Nat.div_eq_of_lt hm, Nat.zero_add]
      have e2 : (toU64 s * 10 ^ k + n.toNat / 10 ^ j) % 10 ^ k = n.toNat / 10 ^ j := by
        rw [Nat.add_comm, Nat.add_mul_mod_self_right, Nat.mod_eq_of_lt hm]
      rw [e1, e2, hrecomb, hback, hnback]
    · -- regime 3
      simp only [if_neg hsmall]
      have hpos : 0 < toU64 s := by omega
      obtain ⟨k', rfl⟩ : ∃ k', k = k' + 1 := ⟨k - 1, by omega⟩
      rw [appendPadded_eq _ k' _ hm, ← pow9, appendFrac_eq' _ 9 _ hflt, hftext]
      have hsplit := natDigits_append_pad (k' + 1) (toU64 s) (n.toNat / 10 ^ j) hpos hm
      have htxt : (if neg then [cMinus] else []) ++ natDigits (toU64 s) ++ padDigits (k' + 1) (n.toNat / 10 ^ j) ++ fracText j (n.toNat % 10 ^ j)
          = (if neg then [cMinus] else []) ++ (natDigits (toU64 s * 10 ^ (k' + 1) + n.toNat / 10 ^ j) ++ fracText j (n.toNat % 10 ^ j)) := by
        rw [hsplit]; simp only [List.append_assoc]
      rw [htxt]
      by_cases hfit : toU64 s * 10 ^ (k' + 1) + n.toNat / 10 ^ j < U64
      · rw [parseTimeUnix_fits (k' + 1) j hkpos hmul neg _ _ hfit (Nat.mod_lt _ hpj)]
        have e1 : (toU64 s * 10 ^ (k' + 1) + n.toNat / 10 ^ j) / 10 ^ (k' + 1) = toU64 s := by
          rw [Nat.add_comm, Nat.add_mul_div_right _ _ hpk, Nat.div_eq_of_lt hm, Nat.zero_add]
        have e2 : (toU64 s * 10 ^ (k' + 1) + n.toNat / 10 ^ j) % 10 ^ (k' + 1) = n.toNat / 10 ^ j := by
          rw [Nat.add_comm, Nat.add_mul_mod_self_right, Nat.mod_eq_of_lt hm]
        rw [e1, e2, hrecomb, hback, hnback]
      · rw [parseTimeUnix_overflow (k' + 1) j hlog' hkpos hmul neg _ _ _ hus hpos hm (Nat.le_of_not_lt hfit) (Nat.mod_lt _ hpj)]
        rw [hrecomb, hback, hnback]

/-- the final sign step gives the original pair back. -/
theorem finishUnix_ok (sec nsec : Int) (hs0 : -9223372036854775808 ≤ sec) (hs1 : sec < 9223372036854775808)
    (hn0 : 0 ≤ nsec) (hn1 : nsec < 1000000000) :
    finishUnix (decide (sec < 0)) (if sec < 0 then negateSecNano sec nsec else (sec, nsec)).1
      (if sec < 0 then negateSecNano sec nsec else (sec, nsec)).2 = .ok (sec, nsec) := by
  unfold finishUnix
  by_cases h : sec < 0
  · simp only [h, decide_true, if_true]
    rw [negate_involutive sec nsec hs0 hs1 hn0 hn1]
    simp [h]
  · simp [h]

theorem timeUnix_roundtrip_pow (k j : Nat) (hkj : k + j = 9) (hlog : k = 0 ∨ log10w (10 ^ k) = k) (sec nsec : Int)
    (hs0 : -9223372036854775808 ≤ sec) (hs1 : sec < 9223372036854775808) (hn0 : 0 ≤ nsec) (hn1 : nsec < 1000000000) :
    parseTimeUnix (appendTimeUnix [] sec nsec (10 ^ k)) (10 ^ k) = .ok (sec, nsec) := by
  rw [appendTimeUnix_eq]
  have hr : -9223372036854775808 ≤ (if sec < 0 then negateSecNano sec nsec else (sec, nsec)).1 ∧
      (if sec < 0 then negateSecNano sec nsec else (sec, nsec)).1 < 9223372036854775808 ∧
      0 ≤ (if sec < 0 then negateSecNano sec nsec else (sec, nsec)).2 ∧
      (if sec < 0 then negateSecNano sec nsec else (sec, nsec)).2 < 1000000000 := by
    by_cases h : sec < 0
    · simp only [h, if_true]; exact negate_range sec nsec hs0 hs1 hn0 hn1
    · simp only [h, if_false]; exact ⟨hs0, hs1, hn0, hn1⟩
  have hsgn : (if sec < 0 then [cMinus] else ([] : Bytes)) = (if decide (sec < 0) = true then [cMinus] else []) := by
    by_cases h : sec < 0 <;> simp [h]
  rw [hsgn, unixBody_parse k j hkj hlog (decide (sec < 0)) _ _ hr.1 hr.2.1 hr.2.2.1 hr.2.2.2]
  exact finishUnix_ok sec nsec hs0 hs1 hn0 hn1

end JsonV.Model.Time
