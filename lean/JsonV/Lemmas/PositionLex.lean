/-
Lemmas for C16, part 10: the bytes of a literal or number before the lexer's error offset can be completed
to a token of the same kind (byte-level viability of input[:ByteOffset] for lexical errors).
-/
import JsonV.Lemmas.PositionTok
import JsonV.Lemmas.WireNumberScan
import JsonV.Lemmas.WireString

namespace JsonV.Lemmas.Position
open JsonV JsonV.Model JsonV.Model.Wire JsonV.Model.Validate JsonV.Model.TokenLoop JsonV.Spec JsonV.Spec.Grammar
open JsonV.Lemmas.WireBasic JsonV.Lemmas.WireValue JsonV.Lemmas.WireNumber JsonV.Lemmas.WireString

theorem lexer_lits (o : VOpts) : lexer o litNull = some (litNull.length, .ok) ∧ lexer o litFalse = some (litFalse.length, .ok) ∧
    lexer o litTrue = some (litTrue.length, .ok) ∧ lexer o [0x30] = some (1, .ok) := by
  obtain ⟨a, b⟩ := o
  cases a <;> cases b <;> decide

/-! ### literals -/

theorem literal_completion (lit r : Bytes) (n : Nat) (e : Err) (h : valueLiteral lit r = (n, e)) (he : e ≠ .ok) :
    n ≤ lit.length ∧ r.take n ++ lit.drop n = lit := by
  unfold valueLiteral at h
  simp only at h
  split at h
  · cases h; exact absurd rfl he
  · rcases literal_class r lit with hc | hc | hc
    · rw [h] at hc; exact absurd hc he
    · rw [h] at hc; simp only at hc; subst hc
      obtain ⟨hn, ⟨t, ht⟩, _⟩ := (literal_eof_iff r lit n).mp h
      subst hn
      rw [← ht]
      simp
    · rw [h] at hc; simp only at hc; subst hc
      obtain ⟨_, h2, h3, _⟩ := (literal_invalid_iff r lit n).mp h
      exact ⟨by omega, by rw [h3, List.take_append_drop]⟩

/-! ### numbers -/

theorem consumeNumber_complete (b : Bytes) (h : JNumber b) : consumeNumber b = (b.length, .ok) := by
  have hg := good_consumeNumber b
  have := scan_unique b b.length (Nat.le_refl _) (by rw [List.take_length]; exact (jnumber_iff_acc _).1 h)
    (Or.inl rfl) _ _ hg
  exact Prod.ext this.2 this.1

theorem valueNumber_complete (b : Bytes) (h : JNumber b) : valueNumber b = (b.length, .ok) := by
  have hc := consumeNumber_complete b h
  unfold valueNumber
  simp only
  split
  · unfold consumeNumberD
    rcases hr : consumeNumberResumable b 0 stInit with ⟨n', st', e'⟩
    have hcn : consumeNumber b = (n', e') := by simp [consumeNumber, hr]
    rw [hc] at hcn
    simp only [Prod.mk.injEq] at hcn
    obtain ⟨rfl, rfl⟩ := hcn
    have hl : lenLt b (b.length + 1) = true := (lenLt_iff _ _).2 (by omega)
    simp [hl]
  · rename_i hs
    have hne : consumeSimpleNumber b ≠ 0 := by intro h0; simp [h0] at hs
    have := simple_number_sound' b hne
    rw [hc] at this
    simp only [Prod.mk.injEq, and_true] at this
    rw [← this]

/-- A failing `valueNumber` reports offset 0 (truncated input: io.ErrUnexpectedEOF) or the end of a proper number prefix. -/
theorem number_error (r : Bytes) (n : Nat) (e : Err) (h : valueNumber r = (n, e)) (he : e ≠ .ok) :
    n = 0 ∨ (n < r.length ∧ NumPrefix (r.take n)) := by
  unfold valueNumber at h
  simp only at h
  split at h
  · unfold consumeNumberD at h
    rcases hr : consumeNumberResumable r 0 stInit with ⟨n', st', e'⟩
    have hcn : consumeNumber r = (n', e') := by simp [consumeNumber, hr]
    simp only [hr] at h
    split at h
    · split at h
      · cases h; exact absurd rfl he
      · cases h; exact Or.inl rfl
    · rename_i hcond
      cases h
      have hg := good_consumeNumber r
      rw [hcn] at hg
      rcases good_class _ _ _ _ hg with hk | hk | hk
      · exact absurd hk he
      · subst hk; simp at hcond
      · subst hk
        obtain ⟨g1, g2, _, _⟩ := hg
        exact Or.inr ⟨g1, (numPrefix_iff_live _).2 g2⟩
  · cases h; exact absurd rfl he

/-! ### strings -/

def stopK : Step → Nat
  | .stop k _ _ => k
  | .cont _ _ => 0

theorem escape_stopK (v : Bool) (r : Bytes) : stopK (stringEscape v r) = 0 := by
  unfold stringEscape
  repeat' split
  all_goals first | rfl | skip
  all_goals (simp only []; repeat' split)
  all_goals rfl

theorem escape_stop_err (v : Bool) (r : Bytes) (k : Nat) (f : ValueFlags) (e : Err)
    (h : stringEscape v r = .stop k f e) : k = 0 := by
  have := escape_stopK v r
  rw [h] at this
  exact this

/-- Every failing step of the string scanner reports the start of the offending character or escape. -/
theorem step_stop_err (v : Bool) (r : Bytes) (k : Nat) (f : ValueFlags) (e : Err)
    (h : stringStep v r = .stop k f e) (he : e ≠ .ok) : k = 0 := by
  unfold stringStep at h
  split at h
  · cases h; rfl
  · split at h
    · cases h
    · split at h
      · cases h; exact absurd rfl he
      · simp only at h
        split at h
        · cases h
        · split at h
          · exact escape_stop_err _ _ _ _ _ h
          · repeat' split at h
            all_goals first | (cases h; rfl) | (cases h; done)

theorem loop_error (v : Bool) (fuel : Nat) : ∀ (r : Bytes) (n : Nat) (f : ValueFlags) (e : Err),
    stringLoop v fuel r = (n, f, e) → e ≠ .ok → n ≤ r.length ∧ JChars v (r.take n) := by
  induction fuel with
  | zero => intro r n f e h _; simp only [stringLoop, Prod.mk.injEq] at h; obtain ⟨rfl, _, _⟩ := h; exact ⟨by omega, JChars.nil⟩
  | succ fuel ih =>
    intro r n f e h he
    simp only [stringLoop] at h
    split at h
    · rename_i k f' e' hst
      simp only [Prod.mk.injEq] at h
      obtain ⟨rfl, rfl, rfl⟩ := h
      have := step_stop_err v r _ _ _ hst he
      subst this
      exact ⟨by omega, JChars.nil⟩
    · rename_i k f' hst
      obtain ⟨h1, h2, h3⟩ := step_cont_sound v r k f' hst
      rcases hrec : stringLoop v fuel (r.drop k) with ⟨n', f'', e''⟩
      rw [hrec] at h
      simp only [Prod.mk.injEq] at h
      obtain ⟨rfl, _, rfl⟩ := h
      obtain ⟨g1, g2⟩ := ih _ _ _ _ hrec he
      refine ⟨by simp only [List.length_drop] at g1; omega, ?_⟩
      rw [List.take_add]
      exact JChars.cons _ _ h3 g2

theorem valueString_of_body (o : VOpts) (body : Bytes) (hj : JChars (!o.allowInvalidUTF8) body) :
    ∃ f, valueString o (0x22 :: (body ++ [0x22])) = (body.length + 2, f, .ok) := by
  obtain ⟨f, hf⟩ := consumeString_of_body (!o.allowInvalidUTF8) body hj
  have h0 := hf []
  unfold valueString
  simp only
  by_cases hs : consumeSimpleString (0x22 :: (body ++ [0x22])) = 0
  · refine ⟨f, ?_⟩
    simp only [hs, bne_self_eq_false, Bool.false_eq_true, if_false]
    exact h0
  · have := simple_string_sound' (0x22 :: (body ++ [0x22])) (!o.allowInvalidUTF8) hs
    rw [h0] at this
    simp only [Prod.mk.injEq] at this
    refine ⟨{}, ?_⟩
    have hne : (consumeSimpleString (0x22 :: (body ++ [0x22])) != 0) = true := by simpa using hs
    simp only [hne, if_true]
    rw [← this.1]

theorem string_error (o : VOpts) (t : Bytes) (n : Nat) (fl : ValueFlags) (e : Err)
    (h : valueString o (0x22 :: t) = (n, fl, e)) (he : e ≠ .ok) :
    ∃ k, n = k + 1 ∧ k ≤ t.length ∧ JChars (!o.allowInvalidUTF8) (t.take k) := by
  unfold valueString at h
  simp only at h
  split at h
  · cases h; exact absurd rfl he
  · simp only [consumeStringResumable, Nat.lt_irrefl, if_false, gt_iff_lt, beq_self_eq_true, if_true] at h
    rcases hl : stringLoop (!o.allowInvalidUTF8) (t.length + 1) t with ⟨n', f', e'⟩
    rw [hl] at h
    simp only [Prod.mk.injEq] at h
    obtain ⟨rfl, _, rfl⟩ := h
    obtain ⟨g1, g2⟩ := loop_error _ _ _ _ _ _ hl he
    exact ⟨n', by omega, g1, g2⟩

theorem normKind_quote : ∀ c : UInt8, normKind c = 0x22 → c = 0x22 := by
  apply JsonV.Lemmas.WireNumber.forall_u8; decide +kernel

theorem lexer_num_ok (o : VOpts) (c : UInt8) (t : Bytes) (hk : normKind c = 0x30) (h : JNumber (c :: t)) :
    lexer o (c :: t) = some ((c :: t).length, .ok) := by
  unfold lexer
  simp only [hk]
  rw [valueNumber_complete _ h]
  rfl

/-- **Lexical errors** (literal, number, string): the bytes before the error offset complete to a token. -/
theorem lexical_completion (o : VOpts) (r : Bytes) (n : Nat) (e : Err) (h : lexer o r = some (n, e)) (he : e ≠ .ok) :
    ∃ ext m, lexer o (r.take n ++ ext) = some (m, .ok) ∧ n ≤ m := by
  cases r with
  | nil => simp [lexer] at h
  | cons c t =>
    unfold lexer at h
    simp only at h
    have hlit : ∀ lit : Bytes, lexer o lit = some (lit.length, .ok) → lit ≠ [] →
        some (valueLiteral lit (c :: t)) = some (n, e) →
        ∃ ext m, lexer o ((c :: t).take n ++ ext) = some (m, .ok) ∧ n ≤ m := by
      intro lit hlex _ hv
      simp only [Option.some.injEq] at hv
      obtain ⟨hn, hcomp⟩ := literal_completion lit (c :: t) n e hv he
      exact ⟨lit.drop n, lit.length, by rw [hcomp]; exact hlex, hn⟩
    split at h
    · exact hlit litNull (lexer_lits o).1 (by decide) h
    · split at h
      · exact hlit litFalse (lexer_lits o).2.1 (by decide) h
      · split at h
        · exact hlit litTrue (lexer_lits o).2.2.1 (by decide) h
        · split at h
          · rename_i h4
            have hc : c = 0x22 := normKind_quote c (by simpa using h4)
            subst hc
            simp only [Option.some.injEq, Prod.mk.injEq] at h
            obtain ⟨k, hk, hkl, hj⟩ := string_error o t n _ e (Prod.ext h.1 (Prod.ext rfl h.2)) he
            subst hk
            obtain ⟨f, hf⟩ := valueString_of_body o (t.take k) hj
            refine ⟨[0x22], (t.take k).length + 2, ?_, by simp only [List.length_take]; omega⟩
            have htk : (0x22 :: t).take (k + 1) ++ [0x22] = 0x22 :: (t.take k ++ [0x22]) := rfl
            rw [htk]
            unfold lexer
            simp only [show (normKind 0x22 == 0x6E) = false by decide, show (normKind 0x22 == 0x66) = false by decide,
              show (normKind 0x22 == 0x74) = false by decide, show (normKind 0x22 == 0x22) = true by decide,
              Bool.false_eq_true, if_false, if_true, hf]
          · split at h
            · rename_i h5
              have hk : normKind c = 0x30 := by simpa using h5
              simp only [Option.some.injEq] at h
              rcases number_error (c :: t) n e h he with h0 | ⟨hlt, s, hs⟩
              · subst h0
                exact ⟨[0x30], 1, (lexer_lits o).2.2.2, by omega⟩
              · by_cases hn0 : n = 0
                · subst hn0; exact ⟨[0x30], 1, (lexer_lits o).2.2.2, by omega⟩
                · obtain ⟨k, rfl⟩ : ∃ k, n = k + 1 := ⟨n - 1, by omega⟩
                  have htk : (c :: t).take (k + 1) = c :: t.take k := rfl
                  rw [htk] at hs ⊢
                  refine ⟨s, _, lexer_num_ok o c (t.take k ++ s) hk (by simpa using hs), ?_⟩
                  simp only [List.length_cons, List.length_append, List.length_take] at hlt ⊢
                  omega
            · cases h

end JsonV.Lemmas.Position
