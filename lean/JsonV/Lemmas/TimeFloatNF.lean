/-
Normal forms of finite IEEE-754 values in slice C10's `Fl` representation (`(-1)^neg · mant · 2^exp`), used by C04 as
the domain of the float round trip.  `Fl` has several representations of one number; a format's values are
exactly the normal forms below (the range of `roundRat`/`parseFloatExact`), and on them the bit pattern
`Fl.toBits` is injective — so "reads back as the same `Fl`" means "reads back with identical bits".
-/
import JsonV.Model.Number

namespace JsonV.Lemmas.FloatNF
open JsonV JsonV.Model.Number

/-- finite normal form of format `ff`: `mant < 2^p`, `emin ≤ exp ≤ emax`, and the significand is normalised
(`mant ≥ 2^(p-1)`) unless `exp = emin` (subnormals and the two zeros, which are `mant = 0, exp = emin`). -/
def NormalFl (ff : FloatFmt) (f : Fl) : Prop :=
  f.inf = false ∧ f.mant < 2 ^ ff.p ∧ ff.emin ≤ f.exp ∧ f.exp ≤ ff.emax ∧ (f.mant < 2 ^ (ff.p - 1) → f.exp = ff.emin)

instance (ff : FloatFmt) (f : Fl) : Decidable (NormalFl ff f) := by unfold NormalFl; exact inferInstance

theorem toBits64_eq (n : Bool) (m : Nat) (e : Int) :
    Fl.toBits fmt64 ⟨n, false, m, e⟩ = (if n then 9223372036854775808 else 0) +
      (if m < 4503599627370496 then m else ((e + 1074).toNat + 1) * 4503599627370496 + (m - 4503599627370496)) := by
  unfold Fl.toBits
  have h1 : fmt64.p = 53 := rfl
  have h2 : fmt64.emin = -1074 := rfl
  simp only [h1, h2]
  have p1 : (2:Nat) ^ (11 + 53 - 1) = 9223372036854775808 := by decide
  have p2 : (2:Nat) ^ (53 - 1) = 4503599627370496 := by decide
  cases n <;> simp [p1, p2] <;> split <;> omega

theorem toBits32_eq (n : Bool) (m : Nat) (e : Int) :
    Fl.toBits fmt32 ⟨n, false, m, e⟩ = (if n then 2147483648 else 0) +
      (if m < 8388608 then m else ((e + 149).toNat + 1) * 8388608 + (m - 8388608)) := by
  unfold Fl.toBits
  have h1 : fmt32.p = 24 := rfl
  have h2 : fmt32.emin = -149 := rfl
  simp only [h1, h2]
  have p1 : (2:Nat) ^ (8 + 24 - 1) = 2147483648 := by decide
  have p2 : (2:Nat) ^ (24 - 1) = 8388608 := by decide
  cases n <;> simp [p1, p2] <;> split <;> omega

/-- on float64 normal forms the IEEE bit pattern determines the representation: equal `Fl` ⇔ identical bits. -/
theorem toBits64_injective (f g : Fl) (hf : NormalFl fmt64 f) (hg : NormalFl fmt64 g)
    (h : f.toBits fmt64 = g.toBits fmt64) : f = g := by
  obtain ⟨fn, fi, fm, fe⟩ := f
  obtain ⟨gn, gi, gm, ge⟩ := g
  obtain ⟨hf1, hf2, hf3, hf4, hf5⟩ := hf
  obtain ⟨hg1, hg2, hg3, hg4, hg5⟩ := hg
  have e1 : fmt64.p = 53 := rfl
  have e2 : fmt64.emin = -1074 := rfl
  have e3 : fmt64.emax = 971 := rfl
  have p1 : (2:Nat) ^ 53 = 9007199254740992 := by decide
  have p2 : (2:Nat) ^ (53 - 1) = 4503599627370496 := by decide
  simp only [e1, e2, e3, p1, p2] at hf2 hf3 hf4 hf5 hg2 hg3 hg4 hg5
  simp only at hf1 hg1
  subst hf1 hg1
  rw [toBits64_eq, toBits64_eq] at h
  have key : fn = gn ∧ fm = gm ∧ fe = ge := by
    cases fn <;> cases gn <;> simp only [Bool.false_eq_true, if_false, if_true] at h <;>
      (split at h <;> split at h <;> (refine ⟨?_, ?_, ?_⟩ <;> first | rfl | omega))
  obtain ⟨h1, h2, h3⟩ := key
  subst h1 h2 h3
  rfl

/-- the same for float32. -/
theorem toBits32_injective (f g : Fl) (hf : NormalFl fmt32 f) (hg : NormalFl fmt32 g)
    (h : f.toBits fmt32 = g.toBits fmt32) : f = g := by
  obtain ⟨fn, fi, fm, fe⟩ := f
  obtain ⟨gn, gi, gm, ge⟩ := g
  obtain ⟨hf1, hf2, hf3, hf4, hf5⟩ := hf
  obtain ⟨hg1, hg2, hg3, hg4, hg5⟩ := hg
  have e1 : fmt32.p = 24 := rfl
  have e2 : fmt32.emin = -149 := rfl
  have e3 : fmt32.emax = 104 := rfl
  have p1 : (2:Nat) ^ 24 = 16777216 := by decide
  have p2 : (2:Nat) ^ (24 - 1) = 8388608 := by decide
  simp only [e1, e2, e3, p1, p2] at hf2 hf3 hf4 hf5 hg2 hg3 hg4 hg5
  simp only at hf1 hg1
  subst hf1 hg1
  rw [toBits32_eq, toBits32_eq] at h
  have key : fn = gn ∧ fm = gm ∧ fe = ge := by
    cases fn <;> cases gn <;> simp only [Bool.false_eq_true, if_false, if_true] at h <;>
      (split at h <;> split at h <;> (refine ⟨?_, ?_, ?_⟩ <;> first | rfl | omega))
  obtain ⟨h1, h2, h3⟩ := key
  subst h1 h2 h3
  rfl

end JsonV.Lemmas.FloatNF
