/-
Lemmas about the quote/unquote model (C11): the regenerated escapeASCII table, one-step unfolding of the
unquote loop, hex digits, and — the core of `unquote ∘ quote` — that the unquote loop consumes exactly the
chunk the quote loop emitted for one input character and yields that character back.  Core Lean only.
-/
import JsonV.Lemmas.QuoteUtf8
import JsonV.Spec.StringSpec

namespace JsonV.Lemmas.QuoteL
open JsonV JsonV.Model.Utf8 JsonV.Model.Quote JsonV.Lemmas.QuoteUtf8 JsonV.Spec.StringSpec

theorem escapeASCII_table : ∀ c : Fin 128, escapeASCII c.val = 1 ↔
    (c.val < 0x20 ∨ c.val = 0x22 ∨ c.val = 0x5c ∨ c.val = 0x3c ∨ c.val = 0x3e ∨ c.val = 0x26) := by decide +kernel
theorem escapeASCII_01 : ∀ c : Fin 128, escapeASCII c.val = 0 ∨ escapeASCII c.val = 1 := by decide +kernel

theorem unqLoop_cont {src o k e'} (e : Err) (h : unqStep src = .cont o k e') :
    unqLoop src e = (o ++ (unqLoop (src.drop k) (e'.getD e)).1, (unqLoop (src.drop k) (e'.getD e)).2) := by
  rw [unqLoop]
  split
  · rename_i h2; rw [h] at h2; cases h2
  · rename_i h2; rw [h] at h2; cases h2; rfl

theorem unqLoop_stop {src o e'} (e : Err) (h : unqStep src = .stop o e') : unqLoop src e = (o, e'.getD e) := by
  rw [unqLoop]
  split
  · rename_i h2; rw [h] at h2; cases h2; rfl
  · rename_i h2; rw [h] at h2; cases h2

theorem hexVal_hexLower : ∀ n : Fin 16, hexVal (hexLower n.val).toNat = some n.val := by decide +kernel

theorem parseHex_digits (a b c d : Nat) (ha : a < 16) (hb : b < 16) (hc : c < 16) (hd : d < 16) :
    parseHexUint16 [hexLower a, hexLower b, hexLower c, hexLower d] = some (((a * 16 + b) * 16 + c) * 16 + d) := by
  have h1 := hexVal_hexLower ⟨a, ha⟩
  have h2 := hexVal_hexLower ⟨b, hb⟩
  have h3 := hexVal_hexLower ⟨c, hc⟩
  have h4 := hexVal_hexLower ⟨d, hd⟩
  simp only at h1 h2 h3 h4
  simp only [parseHexUint16, h1, h2, h3, h4]

theorem parseHex_u16 (x : Nat) (hx : x < 65536) :
    parseHexUint16 [hexLower ((x >>> 12) % 16), hexLower ((x >>> 8) % 16), hexLower ((x >>> 4) % 16), hexLower (x % 16)] = some x := by
  rw [parseHex_digits _ _ _ _ (Nat.mod_lt _ (by omega)) (Nat.mod_lt _ (by omega)) (Nat.mod_lt _ (by omega)) (Nat.mod_lt _ (by omega))]
  simp only [Nat.shiftRight_eq_div_pow]
  congr 1
  omega

theorem u8_eq_of_toNat {c : UInt8} {n : Nat} (hn : n < 256) (h : c.toNat = n) : c = UInt8.ofNat n := by
  subst h; simp

theorem unqStep_plain (c : UInt8) (tail : Bytes) (h : noEscape c.toNat = true) : unqStep (c :: tail) = .cont [c] 1 none := by
  simp [unqStep, h]

theorem unqStep_backslash (x : UInt8) (tail : Bytes) : unqStep (0x5c :: x :: tail) = unqEscape (0x5c :: x :: tail) := by
  have hd : decodeRune (0x5c :: x :: tail) = (0x5c, 1) := decodeRune_ascii 0x5c _ (by decide)
  simp only [unqStep, hd]
  simp [noEscape]

theorem unqStep_u16 (x : Nat) (hx : x < 65536) (hs : isSurrogate x = false) (tail : Bytes) :
    unqStep (appendEscapedUTF16 x ++ tail) = .cont (encodeRune x) 6 none := by
  simp only [appendEscapedUTF16, List.cons_append, List.nil_append]
  rw [unqStep_backslash]
  simp only [unqEscape]
  simp only [unqEscapeU, parseHex_u16 x hx, hs]
  simp

theorem encodeRune_ascii (c : UInt8) (h : c.toNat < 128) : encodeRune c.toNat = [c] := by
  have h1 : ¬ (c.toNat > maxRune ∨ (0xD800 ≤ c.toNat ∧ c.toNat ≤ 0xDFFF)) := by simp only [maxRune]; omega
  simp [encodeRune, h1, h]

theorem unqStep_escASCII (c : UInt8) (hc : c.toNat < 128) (tail : Bytes) :
    unqStep (appendEscapedASCII c.toNat ++ tail) = .cont [c] (appendEscapedASCII c.toNat).length none := by
  unfold appendEscapedASCII
  split
  · rename_i h
    simp only [UInt8.ofNat_toNat, List.cons_append, List.nil_append, unqStep_backslash, unqEscape]
    have : c.toNat = 34 ∨ c.toNat = 92 ∨ c.toNat = 47 := by omega
    simp [this]
  · split
    · rename_i h; have := u8_eq_of_toNat (by omega) h; subst this
      simp [unqStep_backslash, unqEscape]
    · split
      · rename_i h; have := u8_eq_of_toNat (by omega) h; subst this
        simp [unqStep_backslash, unqEscape]
      · split
        · rename_i h; have := u8_eq_of_toNat (by omega) h; subst this
          simp [unqStep_backslash, unqEscape]
        · split
          · rename_i h; have := u8_eq_of_toNat (by omega) h; subst this
            simp [unqStep_backslash, unqEscape]
          · split
            · rename_i h; have := u8_eq_of_toNat (by omega) h; subst this
              simp [unqStep_backslash, unqEscape]
            · rw [unqStep_u16 c.toNat (by omega) (by simp [isSurrogate]; omega), encodeRune_ascii c hc]
              simp [appendEscapedUTF16]

theorem noEscape_of_table : ∀ c : Fin 128, escapeASCII c.val = 0 → noEscape c.val = true := by decide +kernel

theorem html_noEscape {n : Nat} (h : isHTMLChar n = true) : noEscape n = true := by
  simp only [isHTMLChar, Bool.or_eq_true, decide_eq_true_eq] at h
  rcases h with (h | h) | h <;> subst h <;> decide

theorem unqStep_multi (c : UInt8) (t tail : Bytes) (h0 : ¬ c.toNat < runeSelf) (h1 : 1 < (decodeRune (c :: t)).2) :
    unqStep ((c :: t).take (decodeRune (c :: t)).2 ++ tail) =
      .cont ((c :: t).take (decodeRune (c :: t)).2) (decodeRune (c :: t)).2 none := by
  have hda := decodeRune_take_append (c :: t) tail h1
  have hlen := take_decodeRune_length (c :: t)
  generalize hk : (decodeRune (c :: t)).2 = k at *
  obtain ⟨k', rfl⟩ : ∃ k', k = k' + 1 := ⟨k - 1, by omega⟩
  simp only [List.take_succ_cons, List.cons_append] at hda hlen ⊢
  have hne : noEscape c.toNat = false := by simp [noEscape]; intro h; exact absurd h h0
  have hq : c ≠ 0x22 := by intro h; subst h; exact h0 (by decide)
  simp only [unqStep, hne, hq, hda, hk]
  have : 1 < k' + 1 := h1
  simp only [Bool.false_eq_true, ↓reduceIte, gt_iff_lt, this, List.take_succ_cons]
  congr 2
  simp only [List.length_cons, Nat.add_right_cancel_iff] at hlen
  rw [← hlen]; simp

/-- Meaning of the character at the head of `c :: t`. -/
def lossyHead (c : UInt8) (t : Bytes) : Bytes :=
  if illFormedHead (c :: t) then replacement else (c :: t).take (decodeRune (c :: t)).2

theorem decodeRune_fffd (tail : Bytes) : decodeRune (0xEF :: 0xBF :: 0xBD :: tail) = (runeError, 3) := by
  simp [decodeRune, leadInfo, isCont, runeSelf, runeError]

theorem unqStep_fffd (tail : Bytes) : unqStep (utf8FFFD ++ tail) = .cont replacement 3 none := by
  simp only [utf8FFFD, List.cons_append, List.nil_append, unqStep, decodeRune_fffd]
  simp [noEscape, runeSelf, replacement]

theorem appendEscapedUnicode_bmp (r : Nat) (h : r < 0x10000) : appendEscapedUnicode r = appendEscapedUTF16 r := by
  simp [appendEscapedUnicode, utf16EncodeRune, h, Nat.mod_eq_of_lt h]

theorem unqStep_quoteStep (html js : Bool) (c : UInt8) (t tail : Bytes) :
    unqStep ((quoteStep html js c t).1 ++ tail) = .cont (lossyHead c t) (quoteStep html js c t).1.length none := by
  by_cases h0 : c.toNat < runeSelf
  · have hd := decodeRune_ascii c t h0
    have h128 : c.toNat < 128 := h0
    have hl : lossyHead c t = [c] := by
      have : ¬ c.toNat = runeError := by simp only [runeError]; omega
      simp [lossyHead, illFormedHead, hd, this]
    rw [hl]; simp only [quoteStep, h0, ↓reduceIte]
    split
    · rename_i h
      exact unqStep_plain c tail (noEscape_of_table ⟨c.toNat, h128⟩ h)
    · split
      · exact unqStep_escASCII c h128 tail
      · rename_i h
        have : isHTMLChar c.toNat = true := by
          cases hh : isHTMLChar c.toNat <;> simp_all
        exact unqStep_plain c tail (html_noEscape this)
  · rcases decodeRune_high c t h0 with h1 | h1
    · have hl : lossyHead c t = (c :: t).take (decodeRune (c :: t)).2 := by
        have : ¬ (decodeRune (c :: t)).2 = 1 := by omega
        simp [lossyHead, illFormedHead, this]
      have hinv : isInvalidUTF8 (decodeRune (c :: t)).1 (decodeRune (c :: t)).2 = false := by
        have : ¬ (decodeRune (c :: t)).2 = 1 := by omega
        simp [isInvalidUTF8, this]
      rw [hl]; simp only [quoteStep, h0, hinv, ↓reduceIte]
      split
      · simp only [take_decodeRune_length]; exact unqStep_multi c t tail h0 h1
      · split
        · simp at *
        · split
          · rename_i h
            have hne : ¬ ((decodeRune (c :: t)).1 = runeError ∧ (decodeRune (c :: t)).2 = 1) := by omega
            have hen := encodeRune_decodeRune c t hne
            have hr : (decodeRune (c :: t)).1 < 0x10000 := by omega
            rw [appendEscapedUnicode_bmp _ hr, unqStep_u16 _ hr (by simp [isSurrogate]; omega), hen]
            simp [appendEscapedUTF16]
          · simp only [take_decodeRune_length]; exact unqStep_multi c t tail h0 h1
    · have hl : lossyHead c t = replacement := by simp [lossyHead, illFormedHead, h1]
      rw [hl]
      have : (quoteStep html js c t).1 = utf8FFFD := by
        simp [quoteStep, h0, h1, isInvalidUTF8, runeError]
      rw [this, unqStep_fffd]; simp [utf8FFFD]

theorem unqLoop_close (e : Err) : unqLoop [0x22] e = ([], e) := by
  rw [unqLoop_stop (o := []) (e' := none) e (by simp [unqStep, noEscape])]; rfl

theorem quoteStep_consumed (html js : Bool) (c : UInt8) (t : Bytes) :
    (quoteStep html js c t).2.1 = (decodeRune (c :: t)).2 := by
  by_cases h0 : c.toNat < runeSelf
  · simp only [quoteStep, h0, decodeRune_ascii c t h0, ↓reduceIte]
    repeat' split
    all_goals rfl
  · simp only [quoteStep, h0, ↓reduceIte]
    repeat' split
    all_goals rfl

theorem unqLoop_quoteLoop (html js : Bool) (s : Bytes) (e : Err) :
    unqLoop ((quoteLoop html js s).1 ++ [0x22]) e = (lossy s, e) := by
  fun_induction quoteLoop html js s with
  | case1 => simp [lossy, unqLoop_close]
  | case2 c t st r ih =>
    simp only [List.append_assoc]
    rw [unqLoop_cont e (unqStep_quoteStep html js c t _)]
    simp only [List.drop_left, Option.getD_none]
    have hk : st.2.1 = (decodeRune (c :: t)).2 := quoteStep_consumed html js c t
    show (lossyHead c t ++ (unqLoop ((quoteLoop html js (List.drop st.2.1 (c :: t))).1 ++ [0x22]) e).1,
      (unqLoop ((quoteLoop html js (List.drop st.2.1 (c :: t))).1 ++ [0x22]) e).2) = _
    rw [ih, lossy, hk]
    simp [lossyHead]

end JsonV.Lemmas.QuoteL
