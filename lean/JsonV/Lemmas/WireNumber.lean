/-
Numbers: the scanner `consumeNumber` of Model/WireDecode.lean against the grammar `JNumber` of
Spec/Grammar.lean, via a nine-state DFA (`δ`, `run`, `acc`) that is only a proof device:
  * `jnumber_iff_acc`   : JNumber p ↔ acc (run start p)
  * `numPrefix_iff_live`: NumPrefix p ↔ run start p ≠ dead
  * `good_consumeNumber`: the scanner's answer, phrased with `run`
Single-byte facts are closed by `decide +kernel` over the 256 bytes (`forall_u8`).
-/
import JsonV.Model.WireDecode
import JsonV.Spec.Grammar
import JsonV.Lemmas.WireBasic

namespace JsonV.Lemmas.WireNumber
open JsonV JsonV.Model.Wire JsonV.Spec.Grammar

theorem forall_u8 (P : UInt8 → Prop) (h : ∀ n : Fin 256, P (UInt8.ofNatLT n.val n.isLt)) : ∀ c, P c := by
  intro c
  have := h ⟨c.toNat, c.toNat_lt⟩
  simpa using this

/-! ### character classes -/

inductive Cls | minus | plus | dot | zero | d19 | e | other
  deriving DecidableEq

def cls (c : UInt8) : Cls :=
  if c == 0x2D then .minus else if c == 0x2B then .plus else if c == 0x2E then .dot
  else if c == 0x30 then .zero else if isDigit19 c then .d19
  else if c == 0x65 || c == 0x45 then .e else .other

theorem cls_minus : ∀ c : UInt8, (c == 0x2D) = (cls c == .minus) := by apply forall_u8; decide +kernel
theorem cls_plus : ∀ c : UInt8, (c == 0x2B) = (cls c == .plus) := by apply forall_u8; decide +kernel
theorem cls_dot : ∀ c : UInt8, (c == 0x2E) = (cls c == .dot) := by apply forall_u8; decide +kernel
theorem cls_zero : ∀ c : UInt8, (c == 0x30) = (cls c == .zero) := by apply forall_u8; decide +kernel
theorem cls_d19 : ∀ c : UInt8, isDigit19 c = (cls c == .d19) := by apply forall_u8; decide +kernel
theorem cls_digit : ∀ c : UInt8, isDigit c = (cls c == .zero || cls c == .d19) := by apply forall_u8; decide +kernel
theorem cls_e : ∀ c : UInt8, (c == 0x65 || c == 0x45) = (cls c == .e) := by apply forall_u8; decide +kernel
theorem cls_ne_dot : ∀ c : UInt8, (c != 0x2E) = !(cls c == .dot) := by apply forall_u8; decide +kernel
theorem cls_ne_e : ∀ c : UInt8, (c != 0x65 && c != 0x45) = !(cls c == .e) := by apply forall_u8; decide +kernel

theorem digit_iff (c : UInt8) : Digit c ↔ isDigit c = true := by simp [Digit, isDigit]
theorem digit19_iff (c : UInt8) : Digit19 c ↔ isDigit19 c = true := by simp [Digit19, isDigit19]
theorem eq_iff_beq (c k : UInt8) : c = k ↔ (c == k) = true := by simp

/-! ### the DFA -/

inductive St | start | minus | zero | int | dot | frac | e | esign | exp | dead
  deriving DecidableEq

def step : St → Cls → St
  | .start, .minus => .minus | .start, .zero => .zero | .start, .d19 => .int
  | .minus, .zero => .zero | .minus, .d19 => .int
  | .zero, .dot => .dot | .zero, .e => .e
  | .int, .zero => .int | .int, .d19 => .int | .int, .dot => .dot | .int, .e => .e
  | .dot, .zero => .frac | .dot, .d19 => .frac
  | .frac, .zero => .frac | .frac, .d19 => .frac | .frac, .e => .e
  | .e, .minus => .esign | .e, .plus => .esign | .e, .zero => .exp | .e, .d19 => .exp
  | .esign, .zero => .exp | .esign, .d19 => .exp
  | .exp, .zero => .exp | .exp, .d19 => .exp
  | _, _ => .dead

def δ (s : St) (c : UInt8) : St := step s (cls c)

def run (s : St) : Bytes → St
  | [] => s
  | c :: r => run (δ s c) r

def acc : St → Bool
  | .zero | .int | .frac | .exp => true
  | _ => false

theorem run_append (s : St) (p q : Bytes) : run s (p ++ q) = run (run s p) q := by
  induction p generalizing s with
  | nil => rfl
  | cons c p ih => simp [run, ih]

theorem run_dead (p : Bytes) : run .dead p = .dead := by
  induction p with
  | nil => rfl
  | cons c p ih => simp only [run, δ]; cases cls c <;> exact ih

theorem step_dead (k : Cls) : step .dead k = .dead := by cases k <;> rfl

/-- digits keep the three looping states -/
theorem run_digits (s : St) (hs : s = .int ∨ s = .frac ∨ s = .exp) (ds : Bytes) (h : Digits0 ds) : run s ds = s := by
  induction ds with
  | nil => rfl
  | cons c ds ih =>
    have hc : isDigit c = true := (digit_iff c).1 (h c (by simp))
    have : δ s c = s := by
      rw [cls_digit] at hc
      unfold δ
      generalize cls c = k at hc
      rcases hs with rfl | rfl | rfl <;> cases k <;> simp_all [step]
    simp only [run, this]
    exact ih (fun x hx => h x (by simp [hx]))

/-! ### grammar ⇒ DFA -/

theorem acc_of_jexp (s : St) (hs : s = .zero ∨ s = .int ∨ s = .frac) (ex : Bytes) (h : JExp ex) : acc (run s ex) = true := by
  cases h with
  | none => rcases hs with rfl | rfl | rfl <;> rfl
  | some e sign ds he hsign hds =>
    have h1 : δ s e = .e := by
      have : (e == 0x65 || e == 0x45) = true := by rcases he with rfl | rfl <;> decide
      rw [cls_e] at this
      unfold δ; generalize cls e = k at this
      rcases hs with rfl | rfl | rfl <;> cases k <;> simp_all [step]
    obtain ⟨hne, hd0⟩ := hds
    cases ds with
    | nil => exact absurd rfl hne
    | cons d ds =>
      have hd : isDigit d = true := (digit_iff d).1 (hd0 d (by simp))
      have hrest : Digits0 ds := fun x hx => hd0 x (by simp [hx])
      rw [cls_digit] at hd
      simp only [run, h1]
      rcases hsign with rfl | rfl | rfl
      · have : δ .e d = .exp := by unfold δ; generalize cls d = k at hd; cases k <;> simp_all [step]
        simp only [List.nil_append, run, this, run_digits .exp (by simp) ds hrest]; rfl
      · have h2 : δ .e 0x2D = .esign := by decide
        have : δ .esign d = .exp := by unfold δ; generalize cls d = k at hd; cases k <;> simp_all [step]
        simp only [List.cons_append, List.nil_append, run, h2, this, run_digits .exp (by simp) ds hrest]; rfl
      · have h2 : δ .e 0x2B = .esign := by decide
        have : δ .esign d = .exp := by unfold δ; generalize cls d = k at hd; cases k <;> simp_all [step]
        simp only [List.cons_append, List.nil_append, run, h2, this, run_digits .exp (by simp) ds hrest]; rfl

theorem acc_of_frac_exp (s : St) (hs : s = .zero ∨ s = .int) (f ex : Bytes) (hf : JFrac f) (hx : JExp ex) :
    acc (run s (f ++ ex)) = true := by
  cases hf with
  | none => exact acc_of_jexp s (by rcases hs with rfl | rfl <;> simp) ex hx
  | some ds hds =>
    obtain ⟨hne, hd0⟩ := hds
    cases ds with
    | nil => exact absurd rfl hne
    | cons d ds =>
      have hd : isDigit d = true := (digit_iff d).1 (hd0 d (by simp))
      have hrest : Digits0 ds := fun x hx => hd0 x (by simp [hx])
      rw [cls_digit] at hd
      have h1 : δ s 0x2E = .dot := by rcases hs with rfl | rfl <;> decide
      have h2 : δ .dot d = .frac := by unfold δ; generalize cls d = k at hd; cases k <;> simp_all [step]
      simp only [List.cons_append, run, h1, h2, run_append, run_digits .frac (by simp) ds hrest]
      exact acc_of_jexp .frac (by simp) ex hx

theorem acc_of_jnumber (p : Bytes) (h : JNumber p) : acc (run .start p) = true := by
  cases h with
  | mk minus int frac exp hm hi hf hx =>
    have key : ∀ s, s = .start ∨ s = .minus → acc (run s (int ++ frac ++ exp)) = true := by
      intro s hs
      cases hi with
      | zero =>
        have : δ s 0x30 = .zero := by rcases hs with rfl | rfl <;> decide
        simp only [List.cons_append, List.nil_append, run, this]
        exact acc_of_frac_exp .zero (by simp) frac exp hf hx
      | nonzero d ds hd hds =>
        have hd' : isDigit19 d = true := (digit19_iff d).1 hd
        rw [cls_d19] at hd'
        have : δ s d = .int := by
          unfold δ; generalize cls d = k at hd'
          rcases hs with rfl | rfl <;> cases k <;> simp_all [step]
        simp only [List.cons_append, List.append_assoc, run, this, run_append, run_digits .int (by simp) ds hds]
        rw [← run_append]
        exact acc_of_frac_exp .int (by simp) frac exp hf hx
    rcases hm with rfl | rfl
    · simpa using key .start (by simp)
    · have : δ .start 0x2D = .minus := by decide
      simp only [List.append_assoc, List.cons_append, List.nil_append, run, this]
      simpa using key .minus (by simp)

/-! ### DFA ⇒ grammar (suffix languages, state by state) -/

theorem digits0_of_exp (p : Bytes) (h : acc (run .exp p) = true) : Digits0 p := by
  induction p with
  | nil => intro x hx; simp at hx
  | cons c p ih =>
    simp only [run] at h
    by_cases hc : isDigit c = true
    · have hc' := hc
      rw [cls_digit] at hc'
      have : δ .exp c = .exp := by unfold δ; generalize cls c = k at hc'; cases k <;> simp_all [step]
      rw [this] at h
      intro x hx
      simp only [List.mem_cons] at hx
      rcases hx with rfl | hx
      · exact (digit_iff _).2 hc
      · exact ih h x hx
    · have hc' := hc
      rw [cls_digit] at hc'
      have : δ .exp c = .dead := by unfold δ; generalize cls c = k at hc'; cases k <;> simp_all [step]
      rw [this, run_dead] at h
      exact absurd h (by decide)

theorem digits1_of_esign (p : Bytes) (h : acc (run .esign p) = true) : Digits1 p := by
  cases p with
  | nil => exact absurd h (by decide)
  | cons c p =>
    simp only [run] at h
    by_cases hc : isDigit c = true
    · have hc' := hc
      rw [cls_digit] at hc'
      have : δ .esign c = .exp := by unfold δ; generalize cls c = k at hc'; cases k <;> simp_all [step]
      rw [this] at h
      refine ⟨by simp, ?_⟩
      intro x hx
      simp only [List.mem_cons] at hx
      rcases hx with rfl | hx
      · exact (digit_iff _).2 hc
      · exact digits0_of_exp p h x hx
    · have hc' := hc
      rw [cls_digit] at hc'
      have : δ .esign c = .dead := by unfold δ; generalize cls c = k at hc'; cases k <;> simp_all [step]
      rw [this, run_dead] at h
      exact absurd h (by decide)

/-- what may follow `e`/`E` -/
theorem exptail_of_e (p : Bytes) (h : acc (run .e p) = true) :
    ∃ sign ds, (sign = [] ∨ sign = [0x2D] ∨ sign = [0x2B]) ∧ Digits1 ds ∧ p = sign ++ ds := by
  cases p with
  | nil => exact absurd h (by decide)
  | cons c p =>
    simp only [run] at h
    have hm := cls_minus c
    have hp := cls_plus c
    have hdg := cls_digit c
    unfold δ at h
    generalize hk : cls c = k at h hm hp hdg
    cases k
    case minus =>
      have : c = 0x2D := by simpa using hm
      subst this
      exact ⟨[0x2D], p, by simp, digits1_of_esign p h, rfl⟩
    case plus =>
      have : c = 0x2B := by simpa using hp
      subst this
      exact ⟨[0x2B], p, by simp, digits1_of_esign p h, rfl⟩
    case zero =>
      refine ⟨[], c :: p, by simp, ⟨by simp, ?_⟩, rfl⟩
      intro x hx
      simp only [List.mem_cons] at hx
      rcases hx with rfl | hx
      · exact (digit_iff _).2 (by simpa using hdg)
      · exact digits0_of_exp p h x hx
    case d19 =>
      refine ⟨[], c :: p, by simp, ⟨by simp, ?_⟩, rfl⟩
      intro x hx
      simp only [List.mem_cons] at hx
      rcases hx with rfl | hx
      · exact (digit_iff _).2 (by simpa using hdg)
      · exact digits0_of_exp p h x hx
    all_goals (simp only [step, run_dead] at h; exact absurd h (by decide))

theorem jexp_of_e (c : UInt8) (hc : cls c = .e) (p : Bytes) (h : acc (run .e p) = true) : JExp (c :: p) := by
  obtain ⟨sign, ds, hs, hd, rfl⟩ := exptail_of_e p h
  have : (c == 0x65 || c == 0x45) = true := by rw [cls_e, hc]; rfl
  exact JExp.some c sign ds (by simpa using this) hs hd

theorem split_of_frac (p : Bytes) (h : acc (run .frac p) = true) :
    ∃ ds ex, Digits0 ds ∧ JExp ex ∧ p = ds ++ ex := by
  induction p with
  | nil => exact ⟨[], [], by intro x hx; simp at hx, JExp.none, rfl⟩
  | cons c p ih =>
    simp only [run] at h
    have hdg := cls_digit c
    unfold δ at h
    generalize hk : cls c = k at h hdg
    cases k
    case zero =>
      obtain ⟨ds, ex, h1, h2, rfl⟩ := ih h
      refine ⟨c :: ds, ex, ?_, h2, rfl⟩
      intro x hx
      simp only [List.mem_cons] at hx
      rcases hx with rfl | hx
      · exact (digit_iff _).2 (by simpa using hdg)
      · exact h1 x hx
    case d19 =>
      obtain ⟨ds, ex, h1, h2, rfl⟩ := ih h
      refine ⟨c :: ds, ex, ?_, h2, rfl⟩
      intro x hx
      simp only [List.mem_cons] at hx
      rcases hx with rfl | hx
      · exact (digit_iff _).2 (by simpa using hdg)
      · exact h1 x hx
    case e => exact ⟨[], c :: p, by intro x hx; simp at hx, jexp_of_e c hk p h, rfl⟩
    all_goals (simp only [step, run_dead] at h; exact absurd h (by decide))

theorem split_of_dot (p : Bytes) (h : acc (run .dot p) = true) :
    ∃ ds ex, Digits1 ds ∧ JExp ex ∧ p = ds ++ ex := by
  cases p with
  | nil => exact absurd h (by decide)
  | cons c p =>
    simp only [run] at h
    have hdg := cls_digit c
    unfold δ at h
    generalize hk : cls c = k at h hdg
    have fin : step .dot k = .frac → ∃ ds ex, Digits1 ds ∧ JExp ex ∧ c :: p = ds ++ ex := by
      intro hst
      rw [hst] at h
      obtain ⟨ds, ex, h1, h2, rfl⟩ := split_of_frac p h
      refine ⟨c :: ds, ex, ⟨by simp, ?_⟩, h2, rfl⟩
      intro x hx
      simp only [List.mem_cons] at hx
      rcases hx with rfl | hx
      · refine (digit_iff _).2 ?_
        cases k <;> simp_all [step]
      · exact h1 x hx
    cases k
    case zero => exact fin rfl
    case d19 => exact fin rfl
    all_goals (simp only [step, run_dead] at h; exact absurd h (by decide))

/-- after the integer part `0`: optional fraction, optional exponent -/
theorem split_of_zero (p : Bytes) (h : acc (run .zero p) = true) : ∃ f ex, JFrac f ∧ JExp ex ∧ p = f ++ ex := by
  cases p with
  | nil => exact ⟨[], [], JFrac.none, JExp.none, rfl⟩
  | cons c p =>
    simp only [run] at h
    have hd := cls_dot c
    unfold δ at h
    generalize hk : cls c = k at h hd
    cases k
    case dot =>
      have : c = 0x2E := by simpa using hd
      subst this
      obtain ⟨ds, ex, h1, h2, rfl⟩ := split_of_dot p h
      exact ⟨0x2E :: ds, ex, JFrac.some ds h1, h2, rfl⟩
    case e => exact ⟨[], c :: p, JFrac.none, jexp_of_e c hk p h, rfl⟩
    all_goals (simp only [step, run_dead] at h; exact absurd h (by decide))

theorem split_of_int (p : Bytes) (h : acc (run .int p) = true) :
    ∃ ds f ex, Digits0 ds ∧ JFrac f ∧ JExp ex ∧ p = ds ++ f ++ ex := by
  induction p with
  | nil => exact ⟨[], [], [], by intro x hx; simp at hx, JFrac.none, JExp.none, rfl⟩
  | cons c p ih =>
    simp only [run] at h
    have hdg := cls_digit c
    have hd := cls_dot c
    unfold δ at h
    generalize hk : cls c = k at h hdg hd
    have fin : step .int k = .int → isDigit c = true →
        ∃ ds f ex, Digits0 ds ∧ JFrac f ∧ JExp ex ∧ c :: p = ds ++ f ++ ex := by
      intro hst hc
      rw [hst] at h
      obtain ⟨ds, f, ex, h1, h2, h3, rfl⟩ := ih h
      refine ⟨c :: ds, f, ex, ?_, h2, h3, by simp⟩
      intro x hx
      simp only [List.mem_cons] at hx
      rcases hx with rfl | hx
      · exact (digit_iff _).2 hc
      · exact h1 x hx
    cases k
    case zero => exact fin rfl (by simpa using hdg)
    case d19 => exact fin rfl (by simpa using hdg)
    case dot =>
      have : c = 0x2E := by simpa using hd
      subst this
      obtain ⟨ds, ex, h1, h2, rfl⟩ := split_of_dot p h
      exact ⟨[], 0x2E :: ds, ex, by intro x hx; simp at hx, JFrac.some ds h1, h2, by simp⟩
    case e => exact ⟨[], [], c :: p, by intro x hx; simp at hx, JFrac.none, jexp_of_e c hk p h, by simp⟩
    all_goals (simp only [step, run_dead] at h; exact absurd h (by decide))

theorem jnumber_of_sign (s : St) (hs : s = .start ∨ s = .minus) (p : Bytes) (h : acc (run s p) = true)
    (hnm : s = .minus → True) : (∃ int frac ex, JInt int ∧ JFrac frac ∧ JExp ex ∧ p = int ++ frac ++ ex) ∨
      (s = .start ∧ ∃ int frac ex, JInt int ∧ JFrac frac ∧ JExp ex ∧ p = 0x2D :: (int ++ frac ++ ex)) := by
  cases p with
  | nil => rcases hs with rfl | rfl <;> exact absurd h (by decide)
  | cons c p =>
    simp only [run] at h
    have hz := cls_zero c
    have h19 := cls_d19 c
    have hm := cls_minus c
    unfold δ at h
    generalize hk : cls c = k at h hz h19 hm
    cases k
    case zero =>
      have : c = 0x30 := by simpa using hz
      subst this
      have h' : acc (run .zero p) = true := by rcases hs with rfl | rfl <;> exact h
      obtain ⟨f, ex, h1, h2, rfl⟩ := split_of_zero p h'
      exact Or.inl ⟨[0x30], f, ex, JInt.zero, h1, h2, by simp⟩
    case d19 =>
      have h' : acc (run .int p) = true := by rcases hs with rfl | rfl <;> exact h
      obtain ⟨ds, f, ex, h0, h1, h2, rfl⟩ := split_of_int p h'
      exact Or.inl ⟨c :: ds, f, ex, JInt.nonzero c ds ((digit19_iff c).2 (by simpa using h19)) h0, h1, h2, by simp⟩
    case minus =>
      rcases hs with rfl | rfl
      · have : c = 0x2D := by simpa using hm
        subst this
        have h' : acc (run .minus p) = true := h
        cases p with
        | nil => exact absurd h' (by decide)
        | cons d q =>
          simp only [run] at h'
          have hz := cls_zero d
          have h19 := cls_d19 d
          unfold δ at h'
          generalize hk2 : cls d = k2 at h' hz h19
          cases k2
          case zero =>
            have : d = 0x30 := by simpa using hz
            subst this
            obtain ⟨f, ex, h1, h2, rfl⟩ := split_of_zero q h'
            exact Or.inr ⟨rfl, [0x30], f, ex, JInt.zero, h1, h2, by simp⟩
          case d19 =>
            obtain ⟨ds, f, ex, h0, h1, h2, rfl⟩ := split_of_int q h'
            exact Or.inr ⟨rfl, d :: ds, f, ex, JInt.nonzero d ds ((digit19_iff d).2 (by simpa using h19)) h0, h1, h2, by simp⟩
          all_goals (simp only [step, run_dead] at h'; exact absurd h' (by decide))
      · simp only [step, run_dead] at h; exact absurd h (by decide)
    all_goals (rcases hs with rfl | rfl <;> simp only [step, run_dead] at h <;> exact absurd h (by decide))

theorem jnumber_of_acc (p : Bytes) (h : acc (run .start p) = true) : JNumber p := by
  rcases jnumber_of_sign .start (by simp) p h (fun _ => trivial) with ⟨i, f, ex, h1, h2, h3, rfl⟩ | ⟨_, i, f, ex, h1, h2, h3, rfl⟩
  · simpa using JNumber.mk [] i f ex (by simp) h1 h2 h3
  · simpa using JNumber.mk [0x2D] i f ex (by simp) h1 h2 h3

theorem jnumber_iff_acc (p : Bytes) : JNumber p ↔ acc (run .start p) = true :=
  ⟨acc_of_jnumber p, jnumber_of_acc p⟩

/-- every live state can reach an accepting one -/
theorem completion (s : St) (hs : s ≠ .dead) : ∃ q, acc (run s q) = true := by
  cases s
  case dead => exact absurd rfl hs
  case zero => exact ⟨[], rfl⟩
  case int => exact ⟨[], rfl⟩
  case frac => exact ⟨[], rfl⟩
  case exp => exact ⟨[], rfl⟩
  all_goals exact ⟨[0x30], by decide⟩

theorem numPrefix_iff_live (p : Bytes) : NumPrefix p ↔ run .start p ≠ .dead := by
  constructor
  · rintro ⟨q, hq⟩ hd
    have := acc_of_jnumber _ hq
    rw [run_append, hd, run_dead] at this
    exact absurd this (by decide)
  · intro h
    obtain ⟨q, hq⟩ := completion _ h
    exact ⟨q, jnumber_of_acc _ (by rw [run_append]; exact hq)⟩

theorem live_of_append (s : St) (p q : Bytes) (h : run s (p ++ q) ≠ .dead) : run s p ≠ .dead := by
  intro hd; rw [run_append, hd, run_dead] at h; exact h rfl

theorem live_take (s : St) (b : Bytes) (m n : Nat) (hmn : m ≤ n) (h : run s (b.take n) ≠ .dead) : run s (b.take m) ≠ .dead := by
  have : b.take n = b.take m ++ (b.drop m).take (n - m) := by
    have : n = m + (n - m) := by omega
    rw [this, List.take_add]; simp
  rw [this] at h
  exact live_of_append _ _ _ h

theorem acc_live (s : St) (h : acc s = true) : s ≠ .dead := by
  intro hd; subst hd; exact absurd h (by decide)

end JsonV.Lemmas.WireNumber
