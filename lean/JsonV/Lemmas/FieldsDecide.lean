/-
The decision of `processField` agrees with the documented classification `kindOf` whenever it raises no error;
the action never depends on the per-struct locals.
-/
import JsonV.Lemmas.FieldsStep

set_option linter.unusedSimpArgs false

namespace JsonV.Lemmas.Fields
open JsonV JsonV.Model JsonV.Model.Fields JsonV.Spec.FieldRule

/-- The model's action is the documented kind. -/
def Action.Matches : Action → Kind → Prop
  | .skip, .ignored => True
  | .enqueue t, .embedStruct t' => t = t'
  | .fallback _, .fallback => True
  | .field o, .member o' => o = o'
  | _, _ => False

theorem orE_some_ne_none (e : Option Err) (x : Err) : orE e (some x) ≠ none := by
  cases e <;> simp [orE]

theorem orE_eq_none {e n : Option Err} (h : orE e n = none) : e = none ∧ n = none := by
  cases e <;> simp_all [orE]

theorem decHandleField_err (d o e lc) (h : (decHandleField d o e lc).2.1 = none) :
    e = none ∧ fieldBlocked d o = none ∧ (decHandleField d o e lc).1 = .field o := by
  have h2 : decHandleField d o e lc =
      match fieldBlocked d o with
      | some b => (.skip, orE e (some b), lc)
      | none => (.field o, (if lc.names.contains o.name then orE e (some .nameConflict) else e), { lc with names := o.name :: lc.names }) := rfl
  rw [h2] at h ⊢
  cases hb : fieldBlocked d o with
  | some b => rw [hb] at h; exact absurd h (orE_some_ne_none _ _)
  | none =>
    rw [hb] at h
    dsimp only at h ⊢
    by_cases hc : lc.names.contains o.name = true
    · rw [if_pos hc] at h; exact absurd h (orE_some_ne_none _ _)
    · rw [if_neg hc] at h; exact ⟨h, rfl, rfl⟩

/-- The error accumulated by `handleEmbed` before it looks at the type. -/
def embedPreErr (d : FieldDecl) (o : FieldOpts) (e : Option Err) : Option Err :=
  if d.methods then orE (if hasOtherOptions o then orE e (some .embedOtherOptions) else e) (some .embedMethods)
  else (if hasOtherOptions o then orE e (some .embedOtherOptions) else e)

/-- The options `handleEmbed` continues with. -/
def embedOpts (o : FieldOpts) : FieldOpts := if hasOtherOptions o then { name := o.name, embed := o.embed } else o

theorem decHandleEmbed_unfold (d o e lc) (hc : ¬ (hasOtherOptions o && o.hasName) = true) :
    decHandleEmbed d o e lc =
      match d.ty.structId? with
      | some t => (.enqueue t, embedPreErr d o e, lc)
      | none =>
        if !d.exported then (.skip, orE (embedPreErr d o e) (some .embedUnexported), lc)
        else
          match d.ty with
          | .fbValue | .fbMap =>
            (.fallback (embedOpts o), (if lc.hasFallback then orE (embedPreErr d o e) (some .multipleFallbacks) else embedPreErr d o e),
              { lc with hasFallback := true })
          | .fbMapBadKey => decHandleField d (embedOpts o) (orE (embedPreErr d o e) (some .embedBadMapKey)) lc
          | _ => decHandleField d (embedOpts o) (orE (embedPreErr d o e) (some .embedBadType)) lc := by
  unfold decHandleEmbed
  rw [if_neg hc]
  rfl

theorem embedPreErr_none {d o e} (h : embedPreErr d o e = none) : e = none ∧ hasOtherOptions o = false ∧ d.methods = false := by
  unfold embedPreErr at h
  cases hm : d.methods <;> cases ho : hasOtherOptions o <;> simp [hm, ho] at h
  · exact ⟨h, rfl, rfl⟩
  · exact absurd h (orE_some_ne_none _ _)
  · exact absurd h (orE_some_ne_none _ _)
  · exact absurd h (orE_some_ne_none _ _)

theorem decHandleEmbed_err (d o e lc) (h : (decHandleEmbed d o e lc).2.1 = none) :
    e = none ∧ hasOtherOptions o = false ∧ d.methods = false ∧
      ((∃ t, d.ty.structId? = some t ∧ (decHandleEmbed d o e lc).1 = .enqueue t) ∨
       (d.exported = true ∧ (d.ty = .fbValue ∨ d.ty = .fbMap) ∧ (decHandleEmbed d o e lc).1 = .fallback o)) := by
  by_cases hc : (hasOtherOptions o && o.hasName) = true
  · simp only [decHandleEmbed, hc, if_true] at h
    have := (decHandleField_err d o _ lc h).1
    exact absurd this (orE_some_ne_none _ _)
  · rw [decHandleEmbed_unfold d o e lc hc] at h ⊢
    cases hst : d.ty.structId? with
    | some t =>
      rw [hst] at h
      obtain ⟨h1, h2, h3⟩ := embedPreErr_none h
      exact ⟨h1, h2, h3, Or.inl ⟨t, rfl, rfl⟩⟩
    | none =>
      rw [hst] at h
      dsimp only at h ⊢
      cases hx : d.exported with
      | false =>
        simp only [hx, Bool.not_false, if_true] at h
        exact absurd h (orE_some_ne_none _ _)
      | true =>
        simp only [hx, Bool.not_true, Bool.false_eq_true, if_false] at h ⊢
        cases hty : d.ty with
        | struct t => simp [TypeRef.structId?, hty] at hst
        | ptr t => simp [TypeRef.structId?, hty] at hst
        | fbValue =>
          rw [hty] at h
          dsimp only at h ⊢
          have hp : embedPreErr d o e = none := by
            by_cases hf : lc.hasFallback = true
            · rw [if_pos hf] at h; exact absurd h (orE_some_ne_none _ _)
            · rw [if_neg hf] at h; exact h
          obtain ⟨h1, h2, h3⟩ := embedPreErr_none hp
          refine ⟨h1, h2, h3, Or.inr ⟨trivial, Or.inl rfl, ?_⟩⟩
          simp [embedOpts, h2]
        | fbMap =>
          rw [hty] at h
          dsimp only at h ⊢
          have hp : embedPreErr d o e = none := by
            by_cases hf : lc.hasFallback = true
            · rw [if_pos hf] at h; exact absurd h (orE_some_ne_none _ _)
            · rw [if_neg hf] at h; exact h
          obtain ⟨h1, h2, h3⟩ := embedPreErr_none hp
          refine ⟨h1, h2, h3, Or.inr ⟨trivial, Or.inr rfl, ?_⟩⟩
          simp [embedOpts, h2]
        | fbMapBadKey =>
          rw [hty] at h
          exact absurd (decHandleField_err _ _ _ _ h).1 (orE_some_ne_none _ _)
        | other =>
          rw [hty] at h
          exact absurd (decHandleField_err _ _ _ _ h).1 (orE_some_ne_none _ _)

/-- The options `parseFieldOptions` yields for a field that is not ignored. -/
def declOpts (d : FieldDecl) : FieldOpts :=
  { name := d.name.getD d.goName, hasName := d.name.isSome, nameNeedEscape := needEscape (d.name.getD d.goName), casing := d.casing,
    embed := d.embedOpt, omitzero := d.omitzero, omitempty := d.omitempty, string := d.string, format := d.format }

def declIgnored (d : FieldDecl) : Bool := d.tagDash || (!d.exported && !d.anonymous)

theorem parseOpts_ignored (d : FieldDecl) : (parseOpts d).2.1 = declIgnored d := by
  unfold parseOpts declIgnored
  cases d.tagDash <;> cases d.exported <;> cases d.anonymous <;> simp

theorem parseOpts_opts (d : FieldDecl) (h : declIgnored d = false) : (parseOpts d).1 = declOpts d := by
  unfold parseOpts declOpts
  unfold declIgnored at h
  cases h1 : d.tagDash <;> cases h2 : d.exported <;> cases h3 : d.anonymous <;> simp_all

theorem decideField_unfold (d : FieldDecl) (lc : Local) :
    decideField d lc =
      if declIgnored d then (.skip, (parseOpts d).2.2, { lc with anyTag := lc.anyTag || d.hasTag })
      else
        let lc' : Local := { lc with anyTag := lc.anyTag || d.hasTag, anyField := true }
        let o := declOpts d
        let e := (parseOpts d).2.2
        if d.anonymous && !o.hasName then
          if d.ty.structId?.isSome then decHandleEmbed d { o with embed := true } e lc'
          else if o.embed then decHandleEmbed d o (orE e (some .embeddedNeedsName)) lc'
          else decHandleField d o (orE e (some .embeddedNeedsName)) lc'
        else if o.embed then decHandleEmbed d o e lc'
        else decHandleField d o e lc' := by
  unfold decideField
  dsimp only
  rw [parseOpts_ignored]
  cases hi : declIgnored d
  · simp only [Bool.false_eq_true, if_false, parseOpts_opts d hi]
  · simp

/-- No error ⇒ the model's action is the documented kind of the declaration. -/
theorem decide_spec (d : FieldDecl) (lc : Local) (h : (decideField d lc).2.1 = none) :
    (decideField d lc).1.Matches (kindOf d) := by
  rw [decideField_unfold] at h ⊢
  cases hi : declIgnored d with
  | true =>
    have hk : kindOf d = .ignored := by
      unfold kindOf; unfold declIgnored at hi; rw [if_pos hi]
    simp [hk, Action.Matches]
  | false =>
    have hi' : ¬ (d.tagDash || (!d.exported && !d.anonymous)) = true := by
      unfold declIgnored at hi; simp [hi]
    simp only [hi, Bool.false_eq_true, if_false] at h ⊢
    by_cases hA : (d.anonymous && !(declOpts d).hasName) = true
    · simp only [hA, if_true] at h ⊢
      by_cases hS : d.ty.structId?.isSome = true
      · simp only [hS, if_true] at h ⊢
        obtain ⟨_, _, _, hr⟩ := decHandleEmbed_err _ _ _ _ h
        have hk : ∃ t, d.ty.structId? = some t ∧ kindOf d = .embedStruct t := by
          obtain ⟨t, ht⟩ := Option.isSome_iff_exists.mp hS
          refine ⟨t, ht, ?_⟩
          have hA' : d.anonymous = true ∧ d.name.isSome = false := by simpa [declOpts] using hA
          unfold kindOf
          rw [if_neg hi']
          have hn : d.name = none := by
            cases hnm : d.name
            · rfl
            · rw [hnm] at hA'; simp at hA'
          have : (d.embedOpt || (d.anonymous && d.name.isNone && d.ty.structId?.isSome)) = true := by
            simp [hA'.1, hS, hn]
          rw [if_pos this]
          cases hty : d.ty <;> simp [TypeRef.structId?, hty] at ht ⊢ <;> exact ht
        obtain ⟨t, ht, hk⟩ := hk
        rcases hr with ⟨t', ht', ha⟩ | ⟨_, hty, _⟩
        · rw [ha, hk]; rw [ht] at ht'; simp [Action.Matches] at ht' ⊢; exact ht'.symm
        · rcases hty with hty | hty <;> simp [hty, TypeRef.structId?] at ht
      · simp only [hS, Bool.false_eq_true, if_false] at h
        exfalso
        by_cases hE : (declOpts d).embed = true
        · simp only [hE, if_true] at h
          exact absurd (decHandleEmbed_err _ _ _ _ h).1 (orE_some_ne_none _ _)
        · simp only [hE, Bool.false_eq_true, if_false] at h
          exact absurd (decHandleField_err _ _ _ _ h).1 (orE_some_ne_none _ _)
    · simp only [hA, Bool.false_eq_true, if_false] at h ⊢
      by_cases hE : (declOpts d).embed = true
      · simp only [hE, if_true] at h ⊢
        obtain ⟨_, hoo, _, hr⟩ := decHandleEmbed_err _ _ _ _ h
        have hE' : d.embedOpt = true := by simpa [declOpts] using hE
        have hkind : kindOf d = (match d.ty with
            | .struct t => .embedStruct t | .ptr t => .embedStruct t | .fbValue => .fallback | .fbMap => .fallback | _ => .ignored) := by
          unfold kindOf
          rw [if_neg hi', if_pos (by simp [hE'])]
          cases d.ty <;> rfl
        rcases hr with ⟨t, ht, ha⟩ | ⟨_, hty, ha⟩
        · rw [ha, hkind]
          cases hty : d.ty <;> simp [TypeRef.structId?, hty] at ht ⊢ <;> simp [Action.Matches, ht]
        · rw [ha, hkind]
          rcases hty with hty | hty <;> simp [hty, Action.Matches]
      · simp only [hE, Bool.false_eq_true, if_false] at h ⊢
        obtain ⟨_, _, ha⟩ := decHandleField_err _ _ _ _ h
        rw [ha]
        have hE' : d.embedOpt = false := by simpa [declOpts] using hE
        have hA' : ¬ (d.anonymous = true ∧ d.name.isSome = false) := by simpa [declOpts] using hA
        have : kindOf d = .member (declOpts d) := by
          unfold kindOf
          rw [if_neg hi']
          have hcond : ¬ (d.embedOpt || (d.anonymous && d.name.isNone && d.ty.structId?.isSome)) = true := by
            simp only [hE', Bool.false_or, Bool.and_eq_true, not_and]
            intro ha
            exfalso
            apply hA'
            refine ⟨ha.1, ?_⟩
            cases hnm : d.name <;> simp_all
          rw [if_neg hcond]
          simp [declOpts, hE']
        rw [this]
        simp [Action.Matches]

/-! ### The action depends on the declaration only -/

def fieldAct (d : FieldDecl) (o : FieldOpts) : Action :=
  match fieldBlocked d o with
  | some _ => .skip
  | none => .field o

def embedAct (d : FieldDecl) (o : FieldOpts) : Action :=
  if hasOtherOptions o && o.hasName then fieldAct d o
  else
    match d.ty.structId? with
    | some t => .enqueue t
    | none =>
      if !d.exported then .skip
      else
        match d.ty with
        | .fbValue | .fbMap => .fallback (embedOpts o)
        | _ => fieldAct d (embedOpts o)

/-- The action `processField` takes for a declaration. -/
def actOf (d : FieldDecl) : Action :=
  if declIgnored d then .skip
  else
    let o := declOpts d
    if d.anonymous && !o.hasName then
      if d.ty.structId?.isSome then embedAct d { o with embed := true }
      else if o.embed then embedAct d o else fieldAct d o
    else if o.embed then embedAct d o
    else fieldAct d o

theorem decHandleField_act (d o e lc) : (decHandleField d o e lc).1 = fieldAct d o := by
  have h2 : decHandleField d o e lc =
      match fieldBlocked d o with
      | some b => (.skip, orE e (some b), lc)
      | none => (.field o, (if lc.names.contains o.name then orE e (some .nameConflict) else e), { lc with names := o.name :: lc.names }) := rfl
  rw [h2]; unfold fieldAct
  cases fieldBlocked d o <;> rfl

theorem decHandleEmbed_act (d o e lc) : (decHandleEmbed d o e lc).1 = embedAct d o := by
  unfold embedAct
  by_cases hc : (hasOtherOptions o && o.hasName) = true
  · simp only [decHandleEmbed, hc, if_true]; exact decHandleField_act ..
  · rw [decHandleEmbed_unfold d o e lc hc, if_neg hc]
    cases hst : d.ty.structId? with
    | some t => rfl
    | none =>
      dsimp only
      cases hx : d.exported with
      | false => simp
      | true =>
        simp only [Bool.not_true, Bool.false_eq_true, if_false]
        cases hty : d.ty <;> simp [decHandleField_act]

theorem decideField_act (d : FieldDecl) (lc : Local) : (decideField d lc).1 = actOf d := by
  rw [decideField_unfold]
  unfold actOf
  cases hi : declIgnored d
  · simp only [Bool.false_eq_true, if_false]
    split
    · split
      · exact decHandleEmbed_act ..
      · split
        · exact decHandleEmbed_act ..
        · exact decHandleField_act ..
    · split
      · exact decHandleEmbed_act ..
      · exact decHandleField_act ..
  · simp

/-- A declaration whose model action is its documented kind (true for every declaration that raises no error). -/
def GoodDecl (d : FieldDecl) : Prop := (actOf d).Matches (kindOf d)

theorem goodDecl_of_no_error (d : FieldDecl) (lc : Local) (h : (decideField d lc).2.1 = none) : GoodDecl d := by
  unfold GoodDecl
  rw [← decideField_act d lc]
  exact decide_spec d lc h

end JsonV.Lemmas.Fields
