/-
Declarative characterisation of what the C12 tokenizer accepts: a text is tokenized to `ts` exactly when `ts`
is well nested and the text is a *blank layout* of `ts` with the delimiters the grammar requires
(`Layout (punct [.top0] ts) b`: the lexemes in order, each preceded by any whitespace, whitespace at the end).
-/
import JsonV.Lemmas.FormatMain

namespace JsonV.Fmt

/-- `b` consists of the lexemes `ls` in order, each preceded by arbitrary whitespace, followed by whitespace. -/
inductive Layout : List Lex → Bytes → Prop
  | nil (w : Bytes) : allWs w = true → Layout [] w
  | cons (w : Bytes) (l : Lex) (ls : List Lex) (b : Bytes) : allWs w = true → Layout ls b →
      Layout (l :: ls) (w ++ (l.bytes ++ b))

theorem Layout.ws_cons {ls : List Lex} {b : Bytes} (c : UInt8) (hc : isWs c = true) (h : Layout ls b) :
    Layout ls (c :: b) := by
  cases h with
  | nil _ hw => exact Layout.nil (c :: b) (by simp [allWs, hc] at hw ⊢; exact hw)
  | cons w l ls b hw hl =>
    have := Layout.cons (c :: w) l ls b (by simp [allWs, hc] at hw ⊢; exact hw) hl
    simpa using this

/-! ### ⇒ : what the lexer returns is a layout -/

theorem lexF_layout : ∀ (n : Nat) (b : Bytes) (ls : List Lex), lexF n b = some ls → Layout ls b := by
  intro n
  induction n with
  | zero => intro b ls h; simp [lexF] at h
  | succ n ih =>
    intro b ls h
    cases b with
    | nil => simp [lexF] at h; subst h; exact Layout.nil [] rfl
    | cons c cs =>
      rw [lexF] at h
      split at h
      · rename_i hc; exact Layout.ws_cons c hc (ih _ _ h)
      · split at h
        · rename_i l r h1
          obtain ⟨ls', rfl, h'⟩ := consL_eq_some.mp h
          have := Layout.cons [] l ls' r rfl (ih _ _ h')
          rw [lex1_split _ _ _ h1]
          simpa using this
        · simp at h

/-- the grammar check removes exactly the delimiters that `punct` inserts -/
theorem unpunct_eq_punct : ∀ (n : Nat) (ls : List Lex) (st : Stack) (ts : List Tok), ls.length ≤ n →
    unpunct st ls = some ts → ls = punct st ts := by
  intro n
  induction n with
  | zero =>
    intro ls st ts hl h
    have : ls = [] := List.length_eq_zero_iff.mp (Nat.le_zero.mp hl)
    subst this
    simp only [unpunct] at h
    split at h <;> simp at h
    subst h; rfl
  | succ n ih =>
    intro ls st ts hl h
    match ls, h with
    | [], h =>
      simp only [unpunct] at h
      split at h <;> simp at h
      subst h; rfl
    | .tok t :: ls, h =>
      simp only [unpunct] at h
      split at h
      · rename_i st' hs
        obtain ⟨ts', rfl, h'⟩ := consT_eq_some.mp h
        have := ih ls st' ts' (by simp at hl; omega) h'
        simp [punct, hs, delimLex, this]
      · simp at h
    | .delim d :: .tok t :: ls, h =>
      simp only [unpunct] at h
      split at h
      · rename_i d' st' hs
        split at h
        · rename_i hd
          obtain ⟨ts', rfl, h'⟩ := consT_eq_some.mp h
          have := ih ls st' ts' (by simp at hl; omega) h'
          simp [punct, hs, delimLex, this, hd]
        · simp at h
      · simp at h
    | [.delim _], h => simp [unpunct] at h
    | .delim _ :: .delim _ :: _, h => simp [unpunct] at h

/-! ### ⇐ : every layout of a well-nested list is lexed back -/

theorem headOK_of_allWs (w : Bytes) (hw : allWs w = true) : headOK w := by
  intro c hc
  cases w with
  | nil => simp at hc
  | cons c' w' =>
    simp at hc; subst hc
    simp only [allWs, List.all_cons, Bool.and_eq_true] at hw
    exact ws_not_numChar _ hw.1

theorem layout_head_after_value (ts : List Tok) (st : Stack) (b : Bytes)
    (hst : afterValue st) (hacc : accepts st ts = true) (hl : Layout (punct st ts) b) : headOK b := by
  cases ts with
  | nil =>
    simp only [punct] at hl
    cases hl with
    | nil _ hw => exact headOK_of_allWs b hw
  | cons t ts =>
    obtain ⟨d, st', hs, _⟩ := accepts_cons hacc
    obtain ⟨f, s, rfl, hf⟩ := hst
    simp only [punct, hs] at hl
    cases d with
    | some d =>
      simp only [delimLex, List.cons_append, List.nil_append] at hl
      cases hl with
      | cons w _ _ b' hw _ =>
        cases d <;> exact headOK_ws_cons w _ _ hw (by decide)
    | none =>
      simp only [delimLex, List.nil_append] at hl
      cases hl with
      | cons w _ _ b' hw _ =>
        rcases hf with rfl | rfl | rfl
        · cases t <;> simp [step, Fr.value] at hs
        · cases t <;> simp [step, Fr.value] at hs
          · exact headOK_ws_cons _ _ _ hw (by decide)
          all_goals (split at hs <;> simp at hs)
        · cases t <;> simp [step, Fr.value] at hs
          · exact headOK_ws_cons _ _ _ hw (by decide)
          all_goals (split at hs <;> simp at hs)

theorem lex_layout : ∀ (ts : List Tok) (st : Stack) (b : Bytes) (n : Nat),
    accepts st ts = true → (∀ t ∈ ts, t.valid = true) → Layout (punct st ts) b → b.length < n →
    lexF n b = some (punct st ts) := by
  intro ts
  induction ts with
  | nil =>
    intro st b n _ _ hl hn
    simp only [punct] at hl ⊢
    cases hl with
    | nil _ hw => exact lexF_ws_only b n hw hn
  | cons t ts ih =>
    intro st b n hacc hval hl hn
    obtain ⟨d, st', hs, hacc'⟩ := accepts_cons hacc
    have hvt : t.valid = true := hval t (by simp)
    have hval' : ∀ x ∈ ts, x.valid = true := fun x hx => hval x (List.mem_cons_of_mem _ hx)
    have hpos := tok_bytes_pos t hvt
    have hnum : ∀ b2, Layout (punct st' ts) b2 → t.isNum = true → headOK b2 := by
      intro b2 hl2 hnum
      cases t <;> simp [Tok.isNum] at hnum
      exact layout_head_after_value ts st' b2 (afterValue_num hs) hacc' hl2
    simp only [punct, hs] at hl ⊢
    cases d with
    | none =>
      simp only [delimLex, List.nil_append] at hl ⊢
      cases hl with
      | cons w _ _ b2 hw hl2 =>
        simp only [Lex.bytes, List.length_append] at hn
        obtain ⟨m, rfl⟩ : ∃ m, n = (m + 1) + w.length := ⟨n - w.length - 1, by omega⟩
        rw [lexF_ws _ _ _ hw]
        simp only [Lex.bytes]
        rw [lexF_tok t _ m hvt (hnum b2 hl2), ih st' b2 m hacc' hval' hl2 (by omega)]
        rfl
    | some d =>
      simp only [delimLex, List.cons_append, List.nil_append] at hl ⊢
      cases hl with
      | cons w1 _ _ b1 hw1 hl1 =>
        cases hl1 with
        | cons w2 _ _ b2 hw2 hl2 =>
          simp only [Lex.bytes, List.length_append, delim_bytes_len] at hn
          obtain ⟨m, rfl⟩ : ∃ m, n = (((m + 1) + w2.length) + 1) + w1.length :=
            ⟨n - w1.length - w2.length - 2, by omega⟩
          rw [lexF_ws _ _ _ hw1]
          simp only [Lex.bytes]
          rw [lexF_delim d _ _, lexF_ws _ _ _ hw2, lexF_tok t _ m hvt (hnum b2 hl2),
            ih st' b2 m hacc' hval' hl2 (by omega)]
          rfl

/-- **The accepted texts are exactly the blank layouts of well-nested token lists.** -/
theorem tokenize_iff_layout' (b : Bytes) (ts : List Tok) :
    tokenize b = some ts ↔ WellNested ts ∧ Layout (punct [.top0] ts) b := by
  constructor
  · intro h
    refine ⟨tokenize_sound' b ts h, ?_⟩
    unfold tokenize at h
    split at h
    · rename_i ls hl
      have := unpunct_eq_punct ls.length ls _ ts (Nat.le_refl _) h
      rw [← this]
      exact lexF_layout _ _ _ hl
    · simp at h
  · rintro ⟨hw, hl⟩
    unfold tokenize lex
    rw [lex_layout ts [.top0] b _ hw.2 hw.1 hl (Nat.lt_succ_self _)]
    exact unpunct_punct ts _ hw.2

end JsonV.Fmt
