/-
The nesting limit in the token grammar: at every opening bracket of an accepted token list fewer than
`maxDepth` containers are open — whatever the bracket encloses (in particular also when it is empty).
-/
import JsonV.Lemmas.FormatPda

namespace JsonV.Fmt

def Tok.isOpen : Tok → Bool
  | .bo | .ba => true
  | _ => false

def Tok.isClose : Tok → Bool
  | .eo | .ea => true
  | _ => false

/-- number of opening / closing brackets -/
def opens (ts : List Tok) : Nat := ts.countP Tok.isOpen
def closes (ts : List Tok) : Nat := ts.countP Tok.isClose

/-- one token changes the height of the stack by +1 (opening), −1 (closing) or 0 -/
theorem step_length {st st' : Stack} {t : Tok} {d : Option Delim} (h : step st t = some (d, st')) :
    st'.length + (if t.isClose then 1 else 0) = st.length + (if t.isOpen then 1 else 0) := by
  cases st with
  | nil => simp [step] at h
  | cons f s =>
    cases t <;> simp only [step] at h
    case eo => split at h <;> simp at h; obtain ⟨_, rfl⟩ := h; simp [Tok.isClose, Tok.isOpen]
    case ea => split at h <;> simp at h; obtain ⟨_, rfl⟩ := h; simp [Tok.isClose, Tok.isOpen]
    case bo =>
      split at h
      · split at h <;> simp at h
        obtain ⟨_, rfl⟩ := h; simp [Tok.isClose, Tok.isOpen]
      · simp at h
    case ba =>
      split at h
      · split at h <;> simp at h
        obtain ⟨_, rfl⟩ := h; simp [Tok.isClose, Tok.isOpen]
      · simp at h
    all_goals
      split at h
      · simp at h; obtain ⟨_, rfl⟩ := h; simp [Tok.isClose, Tok.isOpen]
      · simp at h

/-- an opening bracket is accepted only while fewer than `maxDepth` containers are open -/
theorem step_open_bound {st st' : Stack} {t : Tok} {d : Option Delim} (ht : t.isOpen = true)
    (h : step st t = some (d, st')) : st.length ≤ maxDepth := by
  cases st with
  | nil => simp [step] at h
  | cons f s =>
    cases t <;> simp [Tok.isOpen] at ht <;> simp only [step] at h
    all_goals
      split at h
      · split at h
        · simp only [List.length_cons]; omega
        · simp at h
      · simp at h

theorem accepts_depth : ∀ (pre : List Tok) (st : Stack) (t : Tok) (rest : List Tok), t.isOpen = true →
    accepts st (pre ++ t :: rest) = true → st.length + opens pre ≤ maxDepth + closes pre := by
  intro pre
  induction pre with
  | nil =>
    intro st t rest ht h
    obtain ⟨d, st', hs, _⟩ := accepts_cons h
    simpa [opens, closes] using step_open_bound ht hs
  | cons x pre ih =>
    intro st t rest ht h
    obtain ⟨d, st1, hs, h'⟩ := accepts_cons h
    have h1 := ih st1 t rest ht h'
    have h2 := step_length hs
    simp only [opens, closes, List.countP_cons] at h1 ⊢
    cases hx : x.isOpen <;> cases hc : x.isClose <;> simp [hx, hc] at h2 ⊢ <;> omega

end JsonV.Fmt
