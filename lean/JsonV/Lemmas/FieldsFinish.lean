/-
Facts about the part of `makeStructFields` after the search (`finish`) and the one invariant of the
search they need: discovery ids are positions in `allFields` (so `allFields` has no duplicates).
-/
import JsonV.Lemmas.FieldsDom

namespace JsonV.Lemmas.Fields
open JsonV JsonV.Model JsonV.Model.Fields JsonV.Spec.FieldRule

/-! ### `allFields[i].id = i` through the search -/

@[simp] theorem orErr_all (s : St) (e : Option Err) : (s.orErr e).all = s.all := by
  unfold St.orErr; split <;> rfl

/-- A property of `allFields` that survives appending a field numbered with the current length. -/
structure AppendStable (Q : List RField → Prop) : Prop where
  app : ∀ l ix o, Q l → Q (l ++ [{ id := l.length, index := ix, opts := o }])

variable {Q : List RField → Prop}

theorem handleField_Q (hQ : AppendStable Q) (d ix o) (s : St) (lc : Local) (h : Q s.all) :
    Q (handleField d ix o s lc).1.all := by
  unfold handleField
  dsimp only
  split
  · simpa using h
  · dsimp only
    apply hQ.app
    split
    · simpa using h
    · exact h

theorem handleEmbed_Q (hQ : AppendStable Q) (qe d ix o) (s : St) (lc : Local) (h : Q s.all) :
    Q (handleEmbed qe d ix o s lc).1.all := by
  unfold handleEmbed
  split
  · exact handleField_Q hQ _ _ _ _ _ (by simpa using h)
  · dsimp only
    split
    · split <;> split <;> split <;> simpa using h
    · split
      · split <;> split <;> simpa using h
      · split
        · split <;> split <;> split <;> simpa using h
        · split <;> split <;> split <;> simpa using h
        · exact handleField_Q hQ _ _ _ _ _ (by split <;> split <;> simpa using h)
        · exact handleField_Q hQ _ _ _ _ _ (by split <;> split <;> simpa using h)

theorem processField_Q (hQ : AppendStable Q) (qe i d) (s : St) (lc : Local) (h : Q s.all) :
    Q (processField qe i d s lc).1.all := by
  unfold processField
  dsimp only
  split
  · simpa using h
  · split
    · split
      · exact handleEmbed_Q hQ _ _ _ _ _ _ (by simpa using h)
      · split
        · exact handleEmbed_Q hQ _ _ _ _ _ _ (by simpa using h)
        · exact handleField_Q hQ _ _ _ _ _ (by simpa using h)
    · split
      · exact handleEmbed_Q hQ _ _ _ _ _ _ (by simpa using h)
      · exact handleField_Q hQ _ _ _ _ _ (by simpa using h)

theorem processFields_Q (hQ : AppendStable Q) (qe) : ∀ (ds : List FieldDecl) (i : Nat) (s : St) (lc : Local),
    Q s.all → Q (processFields qe i ds s lc).1.all
  | [], _, _, _, h => by simpa [processFields] using h
  | d :: ds, i, s, lc, h => by
    simp only [processFields]
    exact processFields_Q hQ qe ds _ _ _ (processField_Q hQ qe i d s lc h)

theorem processStruct_Q (hQ : AppendStable Q) (g qe) (s : St) (h : Q s.all) : Q (processStruct g qe s).all := by
  unfold processStruct
  dsimp only
  split
  · simpa using processFields_Q hQ qe _ 0 s {} h
  · exact processFields_Q hQ qe _ 0 s {} h

theorem processLevel_Q (hQ : AppendStable Q) (g) : ∀ (fr : List QE) (s : St), Q s.all → Q (processLevel g fr s).all
  | [], _, h => by simpa [processLevel] using h
  | qe :: rest, s, h => by
    simp only [processLevel]
    exact processLevel_Q hQ g rest _ (processStruct_Q hQ g qe s h)

theorem bfs_Q (hQ : AppendStable Q) (g) : ∀ (fuel : Nat) (fr : List QE) (s : St), Q s.all → Q (bfs g fuel fr s).all
  | 0, _, _, h => by simpa [bfs] using h
  | fuel + 1, [], s, h => by simpa [bfs] using h
  | fuel + 1, qe :: rest, s, h => by
    simp only [bfs]
    exact bfs_Q hQ g fuel _ _ (processLevel_Q hQ g _ _ (by simpa using h))

theorem search_Q (hQ : AppendStable Q) (g root) (h : Q []) : Q (search g root).all := by
  unfold search
  exact bfs_Q hQ g _ _ _ (by simpa using h)

/-- Discovery ids are positions. -/
def IdsArePositions (l : List RField) : Prop := l.map (·.id) = List.range l.length

theorem idsArePositions_stable : AppendStable IdsArePositions :=
  ⟨fun l ix o h => by
    unfold IdsArePositions at h ⊢
    simp [List.range_succ, h]⟩

theorem search_ids (g : Graph) (root : StructId) : IdsArePositions (search g root).all :=
  search_Q idsArePositions_stable g root (by simp [IdsArePositions])

theorem search_all_nodup (g : Graph) (root : StructId) : (search g root).all.Nodup := by
  have h := search_ids g root
  unfold IdsArePositions at h
  have hn : ((search g root).all.map (·.id)).Nodup := h ▸ List.nodup_range
  rw [List.nodup_iff_pairwise_ne, List.pairwise_map] at hn
  rw [List.nodup_iff_pairwise_ne]
  exact hn.imp (fun hab e => hab (by rw [e]))

/-! ### renumbering and the final sorts -/

theorem renumber_ids : ∀ (l : List RField) (i : Nat), (renumber i l).map (·.id) = List.range' i l.length
  | [], _ => rfl
  | f :: fs, i => by simp [renumber, renumber_ids fs (i + 1), List.range'_succ]

theorem renumber_keys : ∀ (l : List RField) (i : Nat),
    (renumber i l).map (fun f => (f.index, f.opts)) = l.map (fun f => (f.index, f.opts))
  | [], _ => rfl
  | f :: fs, i => by simp [renumber, renumber_keys fs (i + 1)]

theorem renumber_length : ∀ (l : List RField) (i : Nat), (renumber i l).length = l.length
  | [], _ => rfl
  | f :: fs, i => by simp [renumber, renumber_length fs (i + 1)]

theorem candSorted_mergeSort (l : List RField) : CandSorted (l.mergeSort candLe) :=
  List.pairwise_mergeSort candLe_trans candLe_total l

theorem winnerIn_perm {l₁ l₂ : List RField} (h : l₁.Perm l₂) (f : RField) : WinnerIn l₁ f ↔ WinnerIn l₂ f := by
  unfold WinnerIn
  constructor
  · rintro ⟨hm, hw⟩; exact ⟨h.mem_iff.mp hm, fun x hx => hw x (h.mem_iff.mpr hx)⟩
  · rintro ⟨hm, hw⟩; exact ⟨h.mem_iff.mpr hm, fun x hx => hw x (h.mem_iff.mp hx)⟩

/-- The fields that survive the dominance filter, before renumbering. -/
def kept (s : St) : List RField := dominant (s.all.mergeSort candLe)

theorem mem_kept_iff (s : St) (hnd : s.all.Nodup) (f : RField) : f ∈ kept s ↔ WinnerIn s.all f := by
  unfold kept
  rw [mem_dominant_iff _ (candSorted_mergeSort _) ((List.mergeSort_perm _ _).nodup_iff.mpr hnd)]
  exact winnerIn_perm (List.mergeSort_perm _ _) f

theorem kept_names_nodup (s : St) : ((kept s).map (·.name)).Nodup := by
  have h := dominant_names_nodup _ (candSorted_mergeSort s.all)
  unfold kept
  rw [List.nodup_iff_pairwise_ne, List.pairwise_map]
  exact h

/-- `finish`: the result is a permutation of the renumbered kept fields, which are the kept fields sorted by discovery id. -/
theorem finish_perm (s : St) :
    (finish s).flattened.Perm (renumber 0 ((kept s).mergeSort (fun x y => decide (x.id ≤ y.id)))) := by
  simp only [finish, kept]
  exact List.mergeSort_perm _ _

theorem finish_keys_perm (s : St) :
    ((finish s).flattened.map (fun f => (f.index, f.opts))).Perm ((kept s).map (fun f => (f.index, f.opts))) := by
  refine ((finish_perm s).map _).trans ?_
  rw [renumber_keys]
  exact (List.mergeSort_perm _ _).map _

theorem finish_names_nodup (s : St) : ((finish s).flattened.map (·.name)).Nodup := by
  have h1 : ((finish s).flattened.map (·.name)) = ((finish s).flattened.map (fun f => (f.index, f.opts))).map (fun k => k.2.name) := by
    simp [List.map_map, RField.name, Function.comp_def]
  have h2 : ((kept s).map (·.name)) = ((kept s).map (fun f => (f.index, f.opts))).map (fun k => k.2.name) := by
    simp [List.map_map, RField.name, Function.comp_def]
  rw [h1, ((finish_keys_perm s).map _).nodup_iff, ← h2]
  exact kept_names_nodup s

theorem finish_sorted (s : St) :
    (finish s).flattened.Pairwise (fun a b => indexLe a.index b.index = true) := by
  simp only [finish]
  exact List.pairwise_mergeSort (le := fun x y : RField => indexLe x.index y.index)
    (fun a b c => indexLe_trans _ _ _) (fun a b => indexLe_total _ _) _

theorem finish_ids (s : St) : ((finish s).flattened.map (·.id)).Perm (List.range (finish s).flattened.length) := by
  have hp := finish_perm s
  have hl := hp.length_eq
  refine (hp.map _).trans ?_
  rw [renumber_ids, hl, renumber_length, List.range_eq_range']

end JsonV.Lemmas.Fields

namespace JsonV.Lemmas.Fields
open JsonV JsonV.Model JsonV.Model.Fields JsonV.Spec.FieldRule

theorem indexLe_iff : ∀ a b : List Nat, indexLe a b = true ↔ IndexLe a b
  | [], b => by simp [indexLe, IndexLe.nil]
  | _ :: _, [] => by
    simp only [indexLe, Bool.false_eq_true, false_iff]
    intro h; cases h
  | x :: a, y :: b => by
    simp only [indexLe, Bool.or_eq_true, decide_eq_true_eq, Bool.and_eq_true, beq_iff_eq]
    constructor
    · rintro (h | ⟨rfl, h⟩)
      · exact IndexLe.lt _ _ h
      · exact IndexLe.eq _ ((indexLe_iff a b).mp h)
    · intro h
      cases h with
      | lt _ _ h => exact Or.inl h
      | eq _ h => exact Or.inr ⟨rfl, (indexLe_iff a b).mpr h⟩

theorem kept_sorted_perm (s : St) :
    ∃ byId : List RField, byId.Perm (kept s) ∧ byId.Pairwise (fun a b => a.id ≤ b.id) ∧
      (finish s).flattened.Perm (renumber 0 byId) := by
  refine ⟨(kept s).mergeSort (fun x y => decide (x.id ≤ y.id)), List.mergeSort_perm _ _, ?_, finish_perm s⟩
  have h := List.pairwise_mergeSort (le := fun x y : RField => decide (x.id ≤ y.id))
    (fun a b c h1 h2 => by simp only [decide_eq_true_eq] at *; omega)
    (fun a b => by simp only [Bool.or_eq_true, decide_eq_true_eq]; omega) (kept s)
  exact h.imp (fun hab => by simpa using hab)

end JsonV.Lemmas.Fields
