/-
C02, part 5: the exactly-one-value policing of user marshal code AFTER the floor was added to
jsontext's stateMachine (state.go `Floor`, arshal_methods.go / arshal_funcs.go: the floor is raised to
len(Stack) while MarshalJSONTo / MarshalToFunc runs; popObject/popArray return errEnclosingEnd when
len(Stack) <= Floor).

`stepF`/`runF` wrap the operations of `Model/State.lean` with that test (same order of checks as the Go
code).  `scan` is the executable reading of "the token script is well nested and contains n complete
top-level values"; `wroteOneValue` = nothing left open, nothing closed that the script did not open (with
matching kinds), exactly one top-level value: a scalar, or one balanced container.

Main result `run_scan` / `one_value_floor`: a script that runs without error under the floor of its entry
depth and ends at the entry depth with length + 1 wrote exactly one value.
-/
import JsonV.Model.State
import JsonV.Lemmas.StateEntry

namespace JsonV.Lemmas.EncInvFloor
open JsonV JsonV.Model JsonV.Lemmas.StateEntry

inductive Op where
  | lit | str | num | pushO | popO | pushA | popA
deriving DecidableEq, Repr

inductive FErr where
  | sm (e : SMErr)
  | enclosingEnd          -- errEnclosingEnd
deriving DecidableEq, Repr

def liftE : Except SMErr Machine → Except FErr Machine
  | .ok m => .ok m
  | .error e => .error (.sm e)

/-- One state-machine operation under a floor (state.go popObject/popArray after the fix: the floor test
comes right after the kind test). -/
def stepF (k floor : Nat) (m : Machine) : Op → Except FErr Machine
  | .lit => liftE m.appendLiteral
  | .str => liftE m.appendString
  | .num => liftE m.appendNumber
  | .pushO => liftE (m.pushObject k)
  | .pushA => liftE (m.pushArray k)
  | .popO =>
    if !m.last.isObject then .error (.sm .mismatchDelim)
    else if m.stack.length ≤ floor then .error .enclosingEnd
    else liftE m.popObject
  | .popA =>
    if !m.last.isArray || m.stack.length = 0 then .error (.sm .mismatchDelim)
    else if m.stack.length ≤ floor then .error .enclosingEnd
    else liftE m.popArray

def runF (k floor : Nat) : Machine → List Op → Except FErr Machine
  | m, [] => .ok m
  | m, op :: ops =>
    match stepF k floor m op with
    | .ok m' => runF k floor m' ops
    | .error e => .error e

/-- Reads a token script: `ks` = kinds (true = object) of the containers the script has open, outermost
first; `n` = complete-or-begun top-level values so far.  Fails on a closing token that does not match the
innermost container opened by the script. -/
def scan : List Bool → Nat → List Op → Option (List Bool × Nat)
  | ks, n, [] => some (ks, n)
  | ks, n, op :: r =>
    let n' := if ks = [] then n + 1 else n
    match op with
    | .lit => scan ks n' r
    | .str => scan ks n' r
    | .num => scan ks n' r
    | .pushA => scan (ks ++ [false]) n' r
    | .pushO => scan (ks ++ [true]) n' r
    | .popA => if ks.getLast? = some false then scan ks.dropLast n r else none
    | .popO => if ks.getLast? = some true then scan ks.dropLast n r else none

/-- The script is exactly one complete JSON value: a scalar token, or one balanced container. -/
def wroteOneValue (ops : List Op) : Prop := scan [] 0 ops = some ([], 1)

instance (ops : List Op) : Decidable (wroteOneValue ops) := by unfold wroteOneValue; infer_instance

/-! ### entries -/

theorem inc_length (e : Entry) (h : e.length + 1 < 2^61) : e.increment.length = e.length + 1 := by
  rw [length_eq] at h ⊢; rw [length_eq, increment_toNat]; have := lt64 e; omega

theorem inc_isObject (e : Entry) (h : e.length + 1 < 2^61) : e.increment.isObject = e.isObject := by
  rw [length_eq] at h; rw [isObject_eq, isObject_eq, increment_toNat]; have := lt64 e
  by_cases hh : 2^63 ≤ e.toNat <;> simp [hh] <;> omega

theorem isArray_not (e : Entry) : e.isArray = !e.isObject := by
  rw [isArray_eq, isObject_eq]; by_cases h : 2^63 ≤ e.toNat <;> simp [h] <;> omega

theorem typeArray_facts : Entry.typeArray.isObject = false ∧ Entry.typeArray.length = 0 := by decide
theorem typeObject_facts : Entry.typeObject.isObject = true ∧ Entry.typeObject.length = 0 := by decide

/-! ### what a successful step did -/

theorem scalar_ok {k f : Nat} {m m' : Machine} {op : Op} (hop : op = .lit ∨ op = .str ∨ op = .num)
    (h : stepF k f m op = .ok m') : m'.stack = m.stack ∧ m'.last = m.last.increment := by
  rcases hop with rfl | rfl | rfl <;> simp only [stepF] at h
  · unfold Machine.appendLiteral at h; split at h; · simp [liftE] at h
    split at h; · simp [liftE] at h
    simp [liftE] at h; subst h; simp
  · unfold Machine.appendString at h; split at h; · simp [liftE] at h
    simp [liftE] at h; subst h; simp
  · unfold Machine.appendNumber Machine.appendLiteral at h; split at h; · simp [liftE] at h
    split at h; · simp [liftE] at h
    simp [liftE] at h; subst h; simp

theorem pushA_ok {k f : Nat} {m m' : Machine} (h : stepF k f m .pushA = .ok m') :
    m'.stack = m.stack ++ [m.last.increment] ∧ m'.last = Entry.typeArray := by
  simp only [stepF] at h; unfold Machine.pushArray at h
  split at h; · simp [liftE] at h
  split at h; · simp [liftE] at h
  split at h; · simp [liftE] at h
  simp [liftE] at h; subst h; simp

theorem pushO_ok {k f : Nat} {m m' : Machine} (h : stepF k f m .pushO = .ok m') :
    m'.stack = m.stack ++ [m.last.increment] ∧ m'.last = Entry.typeObject := by
  simp only [stepF] at h; unfold Machine.pushObject at h
  split at h; · simp [liftE] at h
  split at h; · simp [liftE] at h
  split at h; · simp [liftE] at h
  simp [liftE] at h; subst h; simp

theorem popA_ok {k f : Nat} {m m' : Machine} (h : stepF k f m .popA = .ok m') :
    m.last.isObject = false ∧ f < m.stack.length ∧
    ∃ x, m.stack.getLast? = some x ∧ m'.stack = m.stack.dropLast ∧ m'.last = x := by
  simp only [stepF] at h
  split at h; · simp at h
  rename_i h1
  split at h; · simp at h
  rename_i h2
  have ha : m.last.isArray = true := by
    cases hh : m.last.isArray <;> simp [hh] at h1 ⊢
  refine ⟨by rw [isArray_not] at ha; simpa using ha, by omega, ?_⟩
  unfold Machine.popArray at h
  split at h; · simp [liftE] at h
  split at h; · simp [liftE] at h
  split at h
  · rename_i x hx; simp [liftE] at h; subst h; exact ⟨x, hx, rfl, rfl⟩
  · simp [liftE] at h

theorem popO_ok {k f : Nat} {m m' : Machine} (h : stepF k f m .popO = .ok m') :
    m.last.isObject = true ∧ f < m.stack.length ∧
    ∃ x, m.stack.getLast? = some x ∧ m'.stack = m.stack.dropLast ∧ m'.last = x := by
  simp only [stepF] at h
  split at h; · simp at h
  rename_i h1
  split at h; · simp at h
  rename_i h2
  refine ⟨by simpa using h1, by omega, ?_⟩
  unfold Machine.popObject at h
  split at h; · simp [liftE] at h
  split at h; · simp [liftE] at h
  split at h; · simp [liftE] at h
  split at h
  · rename_i x hx; simp [liftE] at h; subst h; exact ⟨x, hx, rfl, rfl⟩
  · simp [liftE] at h

/-! ### simulation: the machine run follows `scan` -/

/-- `m` is a state of a script entered with stack `base` and current entry … : either back at the entry level
(current entry `e0`), or above it with saved entries `e0 :: es` and kinds `ks`; all counts at most `B`. -/
def FInv (base : List Entry) (B : Nat) (m : Machine) (e0 : Entry) (ks : List Bool) : Prop :=
  e0.length ≤ B ∧
  ((m.stack = base ∧ m.last = e0 ∧ ks = []) ∨
   (∃ es, m.stack = base ++ e0 :: es ∧ ks = es.map Entry.isObject ++ [m.last.isObject] ∧
      (∀ e ∈ es, e.length ≤ B) ∧ m.last.length ≤ B))

theorem inv_mono {base B B' m e0 ks} (h : FInv base B m e0 ks) (hb : B ≤ B') : FInv base B' m e0 ks := by
  obtain ⟨h0, h | ⟨es, h1, h2, h3, h4⟩⟩ := h
  · exact ⟨by omega, .inl h⟩
  · exact ⟨by omega, .inr ⟨es, h1, h2, fun e he => by have := h3 e he; omega, by omega⟩⟩

theorem scan_scalar (op : Op) (hop : op = .lit ∨ op = .str ∨ op = .num) (ks : List Bool) (n : Nat) (r : List Op) :
    scan ks n (op :: r) = scan ks (if ks = [] then n + 1 else n) r := by
  rcases hop with rfl | rfl | rfl <;> simp [scan]

theorem step_scan_scalar (k : Nat) (base : List Entry) (m m' : Machine) (e0 : Entry) (ks : List Bool) (B : Nat) (op : Op)
    (hop : op = .lit ∨ op = .str ∨ op = .num)
    (h : stepF k base.length m op = .ok m') (hi : FInv base B m e0 ks) (hB : B + 1 < 2^61) :
    ∃ e0' ks' δ, (∀ n r, scan ks n (op :: r) = scan ks' (n + δ) r) ∧ FInv base (B + 1) m' e0' ks' ∧
      e0'.length = e0.length + δ := by
  obtain ⟨h0, hpos⟩ := hi
  obtain ⟨hs, hl⟩ := scalar_ok hop h
  rcases hpos with ⟨h1, h2, h3⟩ | ⟨es, h1, h2, h3, h4⟩
  · refine ⟨e0.increment, [], 1, ?_, ?_, inc_length e0 (by omega)⟩
    · intro n r; rw [scan_scalar op hop, h3]; simp
    · refine ⟨by rw [inc_length e0 (by omega)]; omega, .inl ⟨by rw [hs, h1], by rw [hl, h2], rfl⟩⟩
  · refine ⟨e0, ks, 0, ?_, ?_, rfl⟩
    · intro n r; rw [scan_scalar op hop]; simp [h2]
    · refine ⟨by omega, .inr ⟨es, by rw [hs, h1], ?_, fun e he => by have := h3 e he; omega, ?_⟩⟩
      · rw [hl, inc_isObject _ (by omega)]; exact h2
      · rw [hl, inc_length _ (by omega)]; omega

theorem step_scan (k : Nat) (base : List Entry) (m m' : Machine) (e0 : Entry) (ks : List Bool) (B : Nat) (op : Op)
    (h : stepF k base.length m op = .ok m') (hi : FInv base B m e0 ks) (hB : B + 1 < 2^61) :
    ∃ e0' ks' δ, (∀ n r, scan ks n (op :: r) = scan ks' (n + δ) r) ∧ FInv base (B + 1) m' e0' ks' ∧
      e0'.length = e0.length + δ := by
  have hi0 := hi
  obtain ⟨h0, hpos⟩ := hi
  cases op with
  | lit => exact step_scan_scalar k base m m' e0 ks B _ (.inl rfl) h hi0 hB
  | str => exact step_scan_scalar k base m m' e0 ks B _ (.inr (.inl rfl)) h hi0 hB
  | num => exact step_scan_scalar k base m m' e0 ks B _ (.inr (.inr rfl)) h hi0 hB
  | pushA =>
    obtain ⟨hs, hl⟩ := pushA_ok h
    rcases hpos with ⟨h1, h2, h3⟩ | ⟨es, h1, h2, h3, h4⟩
    · refine ⟨e0.increment, [false], 1, ?_, ?_, inc_length e0 (by omega)⟩
      · intro n r; simp [scan, h3]
      · refine ⟨by rw [inc_length e0 (by omega)]; omega, .inr ⟨[], by simp [hs, h1, h2], ?_, by simp, ?_⟩⟩
        · simp [hl, typeArray_facts.1]
        · simp [hl, typeArray_facts.2]
    · refine ⟨e0, ks ++ [false], 0, ?_, ?_, rfl⟩
      · intro n r; simp [scan, h2]
      · refine ⟨by omega, .inr ⟨es ++ [m.last.increment], by simp [hs, h1], ?_, ?_, ?_⟩⟩
        · simp [hl, typeArray_facts.1, h2, inc_isObject _ (show m.last.length + 1 < 2^61 by omega)]
        · intro e he
          simp only [List.mem_append, List.mem_singleton] at he
          rcases he with he | rfl
          · have := h3 e he; omega
          · rw [inc_length _ (by omega)]; omega
        · simp [hl, typeArray_facts.2]
  | pushO =>
    obtain ⟨hs, hl⟩ := pushO_ok h
    rcases hpos with ⟨h1, h2, h3⟩ | ⟨es, h1, h2, h3, h4⟩
    · refine ⟨e0.increment, [true], 1, ?_, ?_, inc_length e0 (by omega)⟩
      · intro n r; simp [scan, h3]
      · refine ⟨by rw [inc_length e0 (by omega)]; omega, .inr ⟨[], by simp [hs, h1, h2], ?_, by simp, ?_⟩⟩
        · simp [hl, typeObject_facts.1]
        · simp [hl, typeObject_facts.2]
    · refine ⟨e0, ks ++ [true], 0, ?_, ?_, rfl⟩
      · intro n r; simp [scan, h2]
      · refine ⟨by omega, .inr ⟨es ++ [m.last.increment], by simp [hs, h1], ?_, ?_, ?_⟩⟩
        · simp [hl, typeObject_facts.1, h2, inc_isObject _ (show m.last.length + 1 < 2^61 by omega)]
        · intro e he
          simp only [List.mem_append, List.mem_singleton] at he
          rcases he with he | rfl
          · have := h3 e he; omega
          · rw [inc_length _ (by omega)]; omega
        · simp [hl, typeObject_facts.2]
  | popA =>
    obtain ⟨hk, hf, x, hx, hs, hl⟩ := popA_ok h
    rcases hpos with ⟨h1, h2, h3⟩ | ⟨es, h1, h2, h3, h4⟩
    · rw [h1] at hf; omega
    · refine ⟨e0, es.map Entry.isObject, 0, ?_, ?_, rfl⟩
      · intro n r; simp [scan, h2, hk]
      · refine ⟨by omega, ?_⟩
        rcases List.eq_nil_or_concat es with rfl | ⟨es', y, hes⟩
        · left
          simp [h1] at hx hs
          exact ⟨hs, by rw [hl, hx], rfl⟩
        · right
          rw [List.concat_eq_append] at hes; subst hes
          have e1 : m.stack = (base ++ e0 :: es') ++ [y] := by simp [h1]
          rw [e1] at hx hs
          rw [List.getLast?_concat] at hx
          rw [List.dropLast_concat] at hs
          have hxy : y = x := by simpa using hx
          subst hxy
          refine ⟨es', hs, by simp [hl], fun e he => ?_, ?_⟩
          · have := h3 e (by simp [he]); omega
          · have := h3 y (by simp); rw [hl]; omega
  | popO =>
    obtain ⟨hk, hf, x, hx, hs, hl⟩ := popO_ok h
    rcases hpos with ⟨h1, h2, h3⟩ | ⟨es, h1, h2, h3, h4⟩
    · rw [h1] at hf; omega
    · refine ⟨e0, es.map Entry.isObject, 0, ?_, ?_, rfl⟩
      · intro n r; simp [scan, h2, hk]
      · refine ⟨by omega, ?_⟩
        rcases List.eq_nil_or_concat es with rfl | ⟨es', y, hes⟩
        · left
          simp [h1] at hx hs
          exact ⟨hs, by rw [hl, hx], rfl⟩
        · right
          rw [List.concat_eq_append] at hes; subst hes
          have e1 : m.stack = (base ++ e0 :: es') ++ [y] := by simp [h1]
          rw [e1] at hx hs
          rw [List.getLast?_concat] at hx
          rw [List.dropLast_concat] at hs
          have hxy : y = x := by simpa using hx
          subst hxy
          refine ⟨es', hs, by simp [hl], fun e he => ?_, ?_⟩
          · have := h3 e (by simp [he]); omega
          · have := h3 y (by simp); rw [hl]; omega

theorem run_scan (k : Nat) (base : List Entry) : ∀ (ops : List Op) (m t : Machine) (e0 : Entry) (ks : List Bool) (n B : Nat),
    runF k base.length m ops = .ok t → FInv base B m e0 ks → B + ops.length < 2^61 →
    ∃ e0' ks' n', scan ks n ops = some (ks', n') ∧ FInv base (B + ops.length) t e0' ks' ∧
      e0'.length + n = e0.length + n'
  | [], m, t, e0, ks, n, B, h, hi, _ => by
    simp [runF] at h; subst h
    exact ⟨e0, ks, n, by simp [scan], by simpa using hi, rfl⟩
  | op :: ops, m, t, e0, ks, n, B, h, hi, hB => by
    simp only [runF] at h
    cases hs : stepF k base.length m op with
    | error e => simp [hs] at h
    | ok m' =>
      simp only [hs] at h
      simp only [List.length_cons] at hB
      obtain ⟨e1, ks1, δ, hscan, hi1, hlen⟩ := step_scan k base m m' e0 ks B op hs hi (by omega)
      obtain ⟨e2, ks2, n2, hscan2, hi2, hlen2⟩ :=
        run_scan k base ops m' t e1 ks1 (n + δ) (B + 1) h hi1 (by omega)
      refine ⟨e2, ks2, n2, by rw [hscan, hscan2], ?_, by omega⟩
      have : B + 1 + ops.length = B + (op :: ops).length := by simp only [List.length_cons]; omega
      rw [← this]; exact hi2

/-- **Exactly one value under the floor.**  A script of state-machine operations that runs without error
while pops at or below its entry depth are refused, and that ends at the entry depth with the length of the
current container advanced by one, is exactly one complete JSON value (a scalar or one balanced container).
(`ops.length < 2^61 - length` : the 61-bit counter does not wrap.) -/
theorem one_value_floor (k : Nat) (m t : Machine) (ops : List Op)
    (h : runF k m.stack.length m ops = .ok t) (hd : t.depth = m.depth)
    (hl : t.last.length = m.last.length + 1) (hb : m.last.length + ops.length < 2^61) :
    wroteOneValue ops := by
  obtain ⟨e0', ks', n', hscan, ⟨_, hpos⟩, hlen⟩ :=
    run_scan k m.stack ops m t m.last [] 0 m.last.length h ⟨Nat.le_refl _, .inl ⟨rfl, rfl, rfl⟩⟩ hb
  rcases hpos with ⟨_, h2, h3⟩ | ⟨es, h1, _⟩
  · subst h3
    have : n' = 1 := by rw [h2] at hl; omega
    subst this; exact hscan
  · simp only [Machine.depth, h1, List.length_append, List.length_cons] at hd; omega

example : wroteOneValue [.pushA, .lit, .pushO, .str, .num, .popO, .popA] := by decide
example : ¬ wroteOneValue [.popA, .pushA, .lit, .lit] := by decide
example : ¬ wroteOneValue [.lit, .lit] := by decide
example : ¬ wroteOneValue [.pushA, .popO] := by decide

end JsonV.Lemmas.EncInvFloor
