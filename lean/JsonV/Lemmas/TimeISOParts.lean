/-
ISO 8601 durations, part 2: the three components the writer emits, and one parser step per component.
Core Lean only.
-/
import JsonV.Lemmas.TimeISO

namespace JsonV.Model.Time
open JsonV

def hPart (h : Nat) : Bytes := if h > 0 then natDigits h ++ [72] else []
def mPart (m : Nat) : Bytes := if m > 0 then natDigits m ++ [77] else []
def sPart (s ns : Nat) : Bytes := if s > 0 ∨ ns > 0 then natDigits s ++ fracText 9 ns ++ [83] else []

theorem mem_natDigits_isDigit {x : Nat} {c : UInt8} (h : c ∈ natDigits x) : isDigit c = true :=
  List.all_eq_true.mp (natDigits_allDigits x) c h

theorem sPart_chars (s ns : Nat) : ∀ c ∈ sPart s ns, isDigit c = true ∨ c = cDot ∨ c = 83 := by
  intro c hc
  unfold sPart at hc
  split at hc
  · rcases List.mem_append.mp hc with h | h
    · rcases List.mem_append.mp h with h | h
      · exact Or.inl (mem_natDigits_isDigit h)
      · rcases fracText_shape 9 ns with e | ⟨ds, e, hds⟩
        · rw [e] at h; exact absurd h (List.not_mem_nil)
        · rw [e] at h
          rcases List.mem_cons.mp h with h | h
          · exact Or.inr (Or.inl h)
          · exact Or.inl (List.all_eq_true.mp hds c h)
    · exact Or.inr (Or.inr (List.mem_singleton.mp h))
  · exact absurd hc (List.not_mem_nil)

theorem mPart_chars (m : Nat) : ∀ c ∈ mPart m, isDigit c = true ∨ c = 77 := by
  intro c hc
  unfold mPart at hc
  split at hc
  · rcases List.mem_append.mp hc with h | h
    · exact Or.inl (mem_natDigits_isDigit h)
    · exact Or.inr (List.mem_singleton.mp h)
  · exact absurd hc (List.not_mem_nil)

theorem sPart_avoid (s ns : Nat) (a b : UInt8) (ha : a.toNat < 48 ∨ 57 < a.toNat) (hb : b.toNat < 48 ∨ 57 < b.toNat)
    (ha1 : cDot ≠ a) (ha2 : (83 : UInt8) ≠ a) (hb1 : cDot ≠ b) (hb2 : (83 : UInt8) ≠ b) :
    ∀ c ∈ sPart s ns, c ≠ a ∧ c ≠ b := by
  intro c hc
  rcases sPart_chars s ns c hc with h | h | h
  · exact ⟨digit_ne h ha, digit_ne h hb⟩
  · subst h; exact ⟨ha1, hb1⟩
  · subst h; exact ⟨ha2, hb2⟩

/-- the minutes and seconds components contain no hour designator. -/
theorem ms_avoid_H (m s ns : Nat) : ∀ c ∈ mPart m ++ sPart s ns, c ≠ (72 : UInt8) ∧ c ≠ (104 : UInt8) := by
  intro c hc
  rcases List.mem_append.mp hc with h | h
  · rcases mPart_chars m c h with h | h
    · exact ⟨digit_ne h (by decide), digit_ne h (by decide)⟩
    · subst h; decide
  · exact sPart_avoid s ns 72 104 (by decide) (by decide) (by decide) (by decide) (by decide) (by decide) c h

/-- the seconds component contains no minute designator. -/
theorem s_avoid_M (s ns : Nat) : ∀ c ∈ sPart s ns, c ≠ (77 : UInt8) ∧ c ≠ (109 : UInt8) :=
  sPart_avoid s ns 77 109 (by decide) (by decide) (by decide) (by decide) (by decide) (by decide)

/-! ### one parser step per component -/

theorem step_H (ff : FloatFrac) (a h : Nat) (rest : Bytes) (habs : ∀ c ∈ rest, c ≠ (72 : UInt8) ∧ c ≠ (104 : UInt8))
    (hsum : a + h * hourNs < U64) (hx : h < U64) :
    mayParseUnit ff (cleanSt a false) (hPart h ++ rest) 72 104 hourNs = (cleanSt (a + h * hourNs) false, rest) := by
  unfold hPart
  by_cases hp : h > 0
  · rw [if_pos hp, List.append_assoc]
    exact mayParseUnit_whole ff a h rest 72 104 hourNs (by decide) (by decide) (by decide) hsum hx
  · have h0 : h = 0 := by omega
    subst h0
    rw [if_neg hp, List.nil_append, mayParseUnit_absent ff _ rest 72 104 hourNs habs]
    simp

theorem step_M (ff : FloatFrac) (a m : Nat) (rest : Bytes) (habs : ∀ c ∈ rest, c ≠ (77 : UInt8) ∧ c ≠ (109 : UInt8))
    (hsum : a + m * minuteNs < U64) (hx : m < U64) :
    mayParseUnit ff (cleanSt a false) (mPart m ++ rest) 77 109 minuteNs = (cleanSt (a + m * minuteNs) false, rest) := by
  unfold mPart
  by_cases hp : m > 0
  · rw [if_pos hp, List.append_assoc]
    exact mayParseUnit_whole ff a m rest 77 109 minuteNs (by decide) (by decide) (by decide) hsum hx
  · have h0 : m = 0 := by omega
    subst h0
    rw [if_neg hp, List.nil_append, mayParseUnit_absent ff _ rest 77 109 minuteNs habs]
    simp

theorem secondNs_pow : secondNs = 10 ^ 9 := by decide

theorem step_S (ff : FloatFrac) (a s ns : Nat) (hns : ns < 1000000000)
    (hsum : a + ns + s * secondNs < U64) (hx : s < U64) :
    ∃ sf, mayParseUnit ff (cleanSt a false) (sPart s ns) 83 115 secondNs = (cleanSt (a + ns + s * secondNs) sf, []) := by
  unfold sPart
  by_cases hp : s > 0 ∨ ns > 0
  · rw [if_pos hp]
    by_cases hn0 : ns = 0
    · subst hn0
      refine ⟨false, ?_⟩
      have e : fracText 9 0 = [] := by simp [fracText]
      rw [e, List.append_nil]
      have := mayParseUnit_whole ff a s [] 83 115 secondNs (by decide) (by decide) (by decide) (by omega) hx
      simpa using this
    · refine ⟨true, ?_⟩
      have hlt : ns < 10 ^ 9 := by rw [← secondNs_pow]; exact hns
      obtain ⟨hne, hall, hlen, hval⟩ := trimmed_pad_facts 9 ns (by omega) hlt
      have hpad : parsePaddedBase10 (trimRight (· = c0) (padDigits 9 ns)) secondNs = (ns, true) := by
        rw [secondNs_pow, parsePadded_digits 9 _ hall hlen, hval]
      have e : fracText 9 ns = cDot :: trimRight (· = c0) (padDigits 9 ns) := by simp [fracText, hn0]
      rw [e]
      exact mayParseUnit_secFrac ff a s ns _ [] hne hall hpad hsum hx
  · refine ⟨false, ?_⟩
    have hs0 : s = 0 := by omega
    have hn0 : ns = 0 := by omega
    subst hs0 hn0
    rw [if_neg hp, mayParseUnit_absent ff _ [] 83 115 secondNs (fun c hc => absurd hc (List.not_mem_nil))]
    simp

end JsonV.Model.Time
