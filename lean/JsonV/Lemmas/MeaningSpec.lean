/-
C03 helper lemmas: on a valid text the specialised decoder returns the Go value of the spec tree.
-/
import JsonV.Lemmas.MeaningRoutes

namespace JsonV.Lemmas.MeaningSpec
open JsonV JsonV.Spec.Meaning JsonV.Model.AnyDecode JsonV.Lemmas.MeaningRoutes

variable {F : Type} (fp : FloatParse F)

/-- What a decoding step must return for a spec (sub)tree: its Go value and the unread input, or ErrRange. -/
def expect {α β : Type} (o : Option α) (f : α → β) (rest : Bytes) : Except Err (β × Bytes) :=
  match o with
  | some v => .ok (f v, rest)
  | none => .error .range

theorem mapInsert_fresh {α : Type} (m : List (Bytes × α)) (k : Bytes) (v : α) (h : mapHas m k = false) :
    mapInsert m k v = m ++ [(k, v)] := by
  induction m with
  | nil => rfl
  | cons e m ih =>
    obtain ⟨k', v'⟩ := e
    simp only [mapHas, List.any_cons, Bool.or_eq_false_iff, beq_eq_false_iff_ne] at h
    simp only [mapInsert]
    rw [if_neg (by simpa using h.1)]
    simp only [List.cons_append, List.cons.injEq, true_and]
    exact ih (by simpa [mapHas] using h.2)

theorem mapHas_append {α : Type} (m : List (Bytes × α)) (k n : Bytes) (v : α) :
    mapHas (m ++ [(k, v)]) n = (mapHas m n || k == n) := by
  simp [mapHas, List.any_append]

theorem lexScalar_not_arr {b : Bytes} {xs : List MTree} {r : Bytes} : lexScalar b ≠ some (.arr xs, r) := by
  intro h
  unfold lexScalar at h
  split at h
  · simp at h
  · split at h
    · split at h <;> simp at h
    · split at h
      · simp [Option.map] at h; split at h <;> simp at h
      · split at h
        · simp [Option.map] at h; split at h <;> simp at h
        · split at h
          · simp [Option.map] at h; split at h <;> simp at h
          · split at h <;> simp at h

theorem lexScalar_not_obj {b : Bytes} {ms : List (Bytes × MTree)} {r : Bytes} : lexScalar b ≠ some (.obj ms, r) := by
  intro h
  unfold lexScalar at h
  split at h
  · simp at h
  · split at h
    · split at h <;> simp at h
    · split at h
      · simp [Option.map] at h; split at h <;> simp at h
      · split at h
        · simp [Option.map] at h; split at h <;> simp at h
        · split at h
          · simp [Option.map] at h; split at h <;> simp at h
          · split at h <;> simp at h

theorem scalar_meaning (fuel d : Nat) (c : Cache) (k : UInt8) (r : Bytes) (t : MTree) (rest : Bytes)
    (h7 : k ≠ 0x7B) (h5 : k ≠ 0x5B) (h : lexScalar (k :: r) = some (t, rest)) :
    strip (fastValue fp (fuel+1) d c (k :: r)) = expect (toGo fp t) id rest := by
  simp only [fastValue, h7, h5, if_false, h]
  cases t with
  | null => simp [toGo, expect]
  | bool v => simp [toGo, expect]
  | str s => simp [toGo, expect, makeString_fst]
  | num l =>
    simp only [toGo]
    cases fp l <;> simp [expect]
  | arr xs => exact absurd h lexScalar_not_arr
  | obj ms => exact absurd h lexScalar_not_obj

theorem of_strip_expect_none {α β : Type} {x : Res β} {f : α → β} {rest : Bytes}
    (h : strip x = expect (none : Option α) f rest) : x = .error .range := by
  rcases x with e | ⟨v, r, c⟩
  · simp [expect] at h; rw [h]
  · simp [expect] at h

theorem of_strip_expect_some {α β : Type} {x : Res β} {f : α → β} {rest : Bytes} {v : α}
    (h : strip x = expect (some v) f rest) : ∃ c', x = .ok (f v, rest, c') := by
  rcases x with e | ⟨v', r, c⟩
  · simp [expect] at h
  · simp [expect] at h
    exact ⟨c, by rw [h.1, h.2]⟩

/-- Hypotheses under which the member loop is characterised. -/
def MembersOK (d : Nat) (acc : List (Bytes × GoAny F)) (ms : List (Bytes × MTree)) : Prop :=
  noDupMembers ms = true ∧ noDupNames (names ms) = true ∧ (∀ n ∈ names ms, mapHas acc n = false) ∧
  d + depthMembers ms ≤ maxDepth

theorem MembersOK_head {d : Nat} {acc : List (Bytes × GoAny F)} {name : Bytes} {v : MTree} {ms' : List (Bytes × MTree)}
    (hok : MembersOK d acc ((name, v) :: ms')) :
    mapHas acc name = false ∧ v.noDup = true ∧ d + v.depth ≤ maxDepth ∧
    ∀ gv : GoAny F, MembersOK d (acc ++ [(name, gv)]) ms' := by
  obtain ⟨hnd, hnn, hacc, hdep⟩ := hok
  simp only [noDupMembers, Bool.and_eq_true] at hnd
  simp only [names, List.map_cons, noDupNames, Bool.and_eq_true, Bool.not_eq_eq_eq_not, Bool.not_true] at hnn
  simp only [depthMembers] at hdep
  refine ⟨hacc name (by simp [names]), hnd.1, by omega, fun gv => ⟨hnd.2, hnn.2, ?_, by omega⟩⟩
  intro n hn
  rw [mapHas_append, hacc n (by simp only [names, List.map_cons, List.mem_cons]; exact Or.inr hn)]
  simp only [Bool.false_or, beq_eq_false_iff_ne, ne_eq]
  intro e
  subst e
  have := hnn.1
  simp only [names] at hn
  simp [List.contains_eq_mem, hn] at this

theorem members_meaning_step (fuel : Nat)
    (ihV : ∀ (d : Nat) (c : Cache) (b : Bytes) (t : MTree) (rest : Bytes), parseValue fuel b = some (t, rest) →
      t.noDup = true → d + t.depth ≤ maxDepth → strip (fastValue fp fuel d c b) = expect (toGo fp t) id rest)
    (ihM : ∀ (d : Nat) (acc : List (Bytes × GoAny F)) (c : Cache) (b : Bytes) (ms : List (Bytes × MTree)) (rest : Bytes),
      parseMembers fuel b = some (ms, rest) → MembersOK d acc ms →
      strip (fastMembers fp fuel d acc c b) = expect (toGoMembers fp ms) (acc ++ ·) rest)
    (d : Nat) (acc : List (Bytes × GoAny F)) (c : Cache) (b : Bytes) (ms : List (Bytes × MTree)) (rest : Bytes)
    (h : parseMembers (fuel+1) b = some (ms, rest)) (hok : MembersOK d acc ms) :
    strip (fastMembers fp (fuel+1) d acc c b) = expect (toGoMembers fp ms) (acc ++ ·) rest := by
  cases b with
  | nil => simp [parseMembers] at h
  | cons k r =>
    simp only [parseMembers] at h
    simp only [fastMembers]
    by_cases hk : k = 0x22
    · simp only [hk, if_true] at h ⊢
      cases hl : lexStr r with
      | none => simp [hl] at h
      | some p =>
        obtain ⟨name, r1⟩ := p
        simp only [hl] at h ⊢
        cases hs1 : skipWs r1 with
        | nil => simp [hs1] at h
        | cons k2 r2 =>
          simp only [hs1] at h ⊢
          by_cases h2 : k2 = 0x3A
          · simp only [h2, if_true] at h ⊢
            cases hv : parseValue fuel (skipWs r2) with
            | none => simp [hv] at h
            | some q =>
              obtain ⟨v, r3⟩ := q
              simp only [hv] at h
              cases hs3 : skipWs r3 with
              | nil => simp [hs3] at h
              | cons k4 r4 =>
                simp only [hs3] at h
                by_cases h4 : k4 = 0x2C
                · simp only [h4, if_true] at h
                  cases hm : parseMembers fuel (skipWs r4) with
                  | none => simp [hm] at h
                  | some q2 =>
                    obtain ⟨ms', r5⟩ := q2
                    simp only [hm, Option.some.injEq, Prod.mk.injEq] at h
                    obtain ⟨hms, hrest⟩ := h
                    subst hms; subst hrest
                    obtain ⟨hfresh, hvn, hvd, hrestok⟩ := MembersOK_head hok
                    have hv' := ihV d c (skipWs r2) v r3 hv hvn hvd
                    simp only [hfresh, Bool.false_eq_true, if_false, toGoMembers]
                    cases hg : toGo fp v with
                    | none =>
                      rw [hg] at hv'
                      rw [of_strip_expect_none hv']
                      simp [expect]
                    | some gv =>
                      rw [hg] at hv'
                      obtain ⟨c3, hx⟩ := of_strip_expect_some hv'
                      rw [hx]
                      simp only [id, hs3, h4, if_true, mapInsert_fresh acc name gv hfresh]
                      rw [ihM d _ c3 (skipWs r4) ms' _ hm (hrestok gv)]
                      cases toGoMembers fp ms' <;> simp [expect]
                · simp only [h4, if_false] at h
                  by_cases h5 : k4 = 0x7D
                  · simp only [h5, if_true, Option.some.injEq, Prod.mk.injEq] at h
                    obtain ⟨hms, hrest⟩ := h
                    subst hms; subst hrest
                    obtain ⟨hfresh, hvn, hvd, _⟩ := MembersOK_head hok
                    have hv' := ihV d c (skipWs r2) v r3 hv hvn hvd
                    simp only [hfresh, Bool.false_eq_true, if_false, toGoMembers]
                    cases hg : toGo fp v with
                    | none =>
                      rw [hg] at hv'
                      rw [of_strip_expect_none hv']
                      simp [expect]
                    | some gv =>
                      rw [hg] at hv'
                      obtain ⟨c3, hx⟩ := of_strip_expect_some hv'
                      rw [hx]
                      simp [id, hs3, h5, mapInsert_fresh acc name gv hfresh, expect]
                  · simp [h5] at h
          · simp [h2] at h
    · simp [hk] at h

def ElemsOK (d : Nat) (xs : List MTree) : Prop := noDupList xs = true ∧ d + depthList xs ≤ maxDepth

theorem elems_meaning_step (fuel : Nat)
    (ihV : ∀ (d : Nat) (c : Cache) (b : Bytes) (t : MTree) (rest : Bytes), parseValue fuel b = some (t, rest) →
      t.noDup = true → d + t.depth ≤ maxDepth → strip (fastValue fp fuel d c b) = expect (toGo fp t) id rest)
    (ihE : ∀ (d : Nat) (acc : List (GoAny F)) (c : Cache) (b : Bytes) (xs : List MTree) (rest : Bytes),
      parseElems fuel b = some (xs, rest) → ElemsOK d xs →
      strip (fastElems fp fuel d acc c b) = expect (toGoList fp xs) (acc ++ ·) rest)
    (d : Nat) (acc : List (GoAny F)) (c : Cache) (b : Bytes) (xs : List MTree) (rest : Bytes)
    (h : parseElems (fuel+1) b = some (xs, rest)) (hok : ElemsOK d xs) :
    strip (fastElems fp (fuel+1) d acc c b) = expect (toGoList fp xs) (acc ++ ·) rest := by
  simp only [parseElems] at h
  simp only [fastElems]
  cases hv : parseValue fuel b with
  | none => simp [hv] at h
  | some q =>
    obtain ⟨v, r3⟩ := q
    simp only [hv] at h
    cases hs3 : skipWs r3 with
    | nil => simp [hs3] at h
    | cons k4 r4 =>
      simp only [hs3] at h
      by_cases h4 : k4 = 0x2C
      · simp only [h4, if_true] at h
        cases hm : parseElems fuel (skipWs r4) with
        | none => simp [hm] at h
        | some q2 =>
          obtain ⟨xs', r5⟩ := q2
          simp only [hm, Option.some.injEq, Prod.mk.injEq] at h
          obtain ⟨hxs, hrest⟩ := h
          subst hxs; subst hrest
          obtain ⟨hnd, hdep⟩ := hok
          simp only [noDupList, Bool.and_eq_true] at hnd
          simp only [depthList] at hdep
          have hv' := ihV d c b v r3 hv hnd.1 (by omega)
          simp only [toGoList]
          cases hg : toGo fp v with
          | none =>
            rw [hg] at hv'
            rw [of_strip_expect_none hv']
            simp [expect]
          | some gv =>
            rw [hg] at hv'
            obtain ⟨c3, hx⟩ := of_strip_expect_some hv'
            rw [hx]
            simp only [id, hs3, h4, if_true]
            rw [ihE d _ c3 (skipWs r4) xs' _ hm ⟨hnd.2, by omega⟩]
            cases toGoList fp xs' <;> simp [expect]
      · simp only [h4, if_false] at h
        by_cases h5 : k4 = 0x5D
        · simp only [h5, if_true, Option.some.injEq, Prod.mk.injEq] at h
          obtain ⟨hxs, hrest⟩ := h
          subst hxs; subst hrest
          obtain ⟨hnd, hdep⟩ := hok
          simp only [noDupList, Bool.and_eq_true] at hnd
          simp only [depthList] at hdep
          have hv' := ihV d c b v r3 hv hnd.1 (by omega)
          simp only [toGoList]
          cases hg : toGo fp v with
          | none =>
            rw [hg] at hv'
            rw [of_strip_expect_none hv']
            simp [expect]
          | some gv =>
            rw [hg] at hv'
            obtain ⟨c3, hx⟩ := of_strip_expect_some hv'
            rw [hx]
            simp [id, hs3, h5, expect]
        · simp [h5] at h

theorem value_meaning_step (fuel : Nat)
    (ihM : ∀ (d : Nat) (acc : List (Bytes × GoAny F)) (c : Cache) (b : Bytes) (ms : List (Bytes × MTree)) (rest : Bytes),
      parseMembers fuel b = some (ms, rest) → MembersOK d acc ms →
      strip (fastMembers fp fuel d acc c b) = expect (toGoMembers fp ms) (acc ++ ·) rest)
    (ihE : ∀ (d : Nat) (acc : List (GoAny F)) (c : Cache) (b : Bytes) (xs : List MTree) (rest : Bytes),
      parseElems fuel b = some (xs, rest) → ElemsOK d xs →
      strip (fastElems fp fuel d acc c b) = expect (toGoList fp xs) (acc ++ ·) rest)
    (d : Nat) (c : Cache) (b : Bytes) (t : MTree) (rest : Bytes)
    (h : parseValue (fuel+1) b = some (t, rest)) (hnd : t.noDup = true) (hdep : d + t.depth ≤ maxDepth) :
    strip (fastValue fp (fuel+1) d c b) = expect (toGo fp t) id rest := by
  cases b with
  | nil => simp [parseValue] at h
  | cons k r =>
    by_cases h7 : k = 0x7B
    · subst h7
      simp only [parseValue, if_true] at h
      simp only [fastValue, if_true]
      cases hs : skipWs r with
      | nil => simp [hs] at h
      | cons k' r' =>
        simp only [hs] at h
        by_cases h7d : k' = 0x7D
        · simp only [h7d, if_true, Option.some.injEq, Prod.mk.injEq] at h
          obtain ⟨ht, hr⟩ := h
          subst ht; subst hr
          simp only [MTree.depth, depthMembers] at hdep
          have hd : d ≠ maxDepth := by omega
          simp [hd, h7d, toGo, toGoMembers, expect]
        · simp only [h7d, if_false] at h
          cases hm : parseMembers fuel (k' :: r') with
          | none => simp [hm] at h
          | some q =>
            obtain ⟨ms, r2⟩ := q
            simp only [hm, Option.some.injEq, Prod.mk.injEq] at h
            obtain ⟨ht, hr⟩ := h
            subst ht; subst hr
            simp only [MTree.depth] at hdep
            simp only [MTree.noDup, Bool.and_eq_true] at hnd
            have hd : d ≠ maxDepth := by omega
            have hM := ihM (d+1) [] c (k' :: r') ms _ hm ⟨hnd.2, hnd.1, fun _ _ => rfl, by omega⟩
            simp only [hd, if_false, h7d, toGo]
            cases hg : toGoMembers fp ms with
            | none =>
              rw [hg] at hM
              rw [of_strip_expect_none hM]
              simp [expect]
            | some gms =>
              rw [hg] at hM
              obtain ⟨c3, hx⟩ := of_strip_expect_some hM
              rw [hx]
              simp [expect]
    · by_cases h5 : k = 0x5B
      · subst h5
        simp only [parseValue, show ((0x5B : UInt8) = 0x7B) = False by decide, if_false, if_true] at h
        simp only [fastValue, show ((0x5B : UInt8) = 0x7B) = False by decide, if_false, if_true]
        cases hs : skipWs r with
        | nil => simp [hs] at h
        | cons k' r' =>
          simp only [hs] at h
          by_cases h5d : k' = 0x5D
          · simp only [h5d, if_true, Option.some.injEq, Prod.mk.injEq] at h
            obtain ⟨ht, hr⟩ := h
            subst ht; subst hr
            simp only [MTree.depth, depthList] at hdep
            have hd : d ≠ maxDepth := by omega
            simp [hd, h5d, toGo, toGoList, expect]
          · simp only [h5d, if_false] at h
            cases hm : parseElems fuel (k' :: r') with
            | none => simp [hm] at h
            | some q =>
              obtain ⟨xs, r2⟩ := q
              simp only [hm, Option.some.injEq, Prod.mk.injEq] at h
              obtain ⟨ht, hr⟩ := h
              subst ht; subst hr
              simp only [MTree.depth] at hdep
              simp only [MTree.noDup] at hnd
              have hd : d ≠ maxDepth := by omega
              have hE := ihE (d+1) [] c (k' :: r') xs _ hm ⟨hnd, by omega⟩
              simp only [hd, if_false, h5d, toGo]
              cases hg : toGoList fp xs with
              | none =>
                rw [hg] at hE
                rw [of_strip_expect_none hE]
                simp [expect]
              | some gxs =>
                rw [hg] at hE
                obtain ⟨c3, hx⟩ := of_strip_expect_some hE
                rw [hx]
                simp [expect]
      · simp only [parseValue, h7, h5, if_false] at h
        exact scalar_meaning fp fuel d c k r t rest h7 h5 h

/-- On every text the spec accepts (duplicate-free, within the nesting limit) the specialised decoder
returns the Go value of the spec tree and leaves exactly the spec's unread input; ErrRange iff some
number overflows.  For every cache and every amount of fuel. -/
theorem meaning_core (fuel : Nat) :
    (∀ (d : Nat) (c : Cache) (b : Bytes) (t : MTree) (rest : Bytes), parseValue fuel b = some (t, rest) →
      t.noDup = true → d + t.depth ≤ maxDepth → strip (fastValue fp fuel d c b) = expect (toGo fp t) id rest) ∧
    (∀ (d : Nat) (acc : List (Bytes × GoAny F)) (c : Cache) (b : Bytes) (ms : List (Bytes × MTree)) (rest : Bytes),
      parseMembers fuel b = some (ms, rest) → MembersOK d acc ms →
      strip (fastMembers fp fuel d acc c b) = expect (toGoMembers fp ms) (acc ++ ·) rest) ∧
    (∀ (d : Nat) (acc : List (GoAny F)) (c : Cache) (b : Bytes) (xs : List MTree) (rest : Bytes),
      parseElems fuel b = some (xs, rest) → ElemsOK d xs →
      strip (fastElems fp fuel d acc c b) = expect (toGoList fp xs) (acc ++ ·) rest) := by
  induction fuel with
  | zero =>
    refine ⟨?_, ?_, ?_⟩
    · intro d c b t rest h; simp [parseValue] at h
    · intro d acc c b ms rest h; simp [parseMembers] at h
    · intro d acc c b xs rest h; simp [parseElems] at h
  | succ n ih =>
    obtain ⟨ihV, ihM, ihE⟩ := ih
    exact ⟨value_meaning_step fp n ihM ihE, members_meaning_step fp n ihV ihM, elems_meaning_step fp n ihV ihE⟩

theorem toGoMembers_names (ms : List (Bytes × MTree)) (gms : List (Bytes × GoAny F))
    (h : toGoMembers fp ms = some gms) : gms.map (·.1) = names ms := by
  induction ms generalizing gms with
  | nil => simp [toGoMembers] at h; subst h; rfl
  | cons e ms ih =>
    obtain ⟨k, x⟩ := e
    simp only [toGoMembers] at h
    cases hx : toGo fp x with
    | none => simp [hx] at h
    | some v =>
      simp only [hx] at h
      cases hm : toGoMembers fp ms with
      | none => simp [hm] at h
      | some gms' =>
        simp only [hm, Option.map_some, Option.some.injEq] at h
        subst h
        simp [names, ih gms' hm]

theorem toGoList_map (xs : List MTree) (gxs : List (GoAny F)) (h : toGoList fp xs = some gxs) :
    xs.map (toGo fp) = gxs.map some := by
  induction xs generalizing gxs with
  | nil => simp [toGoList] at h; subst h; rfl
  | cons x xs ih =>
    simp only [toGoList] at h
    cases hx : toGo fp x with
    | none => simp [hx] at h
    | some v =>
      simp only [hx] at h
      cases hm : toGoList fp xs with
      | none => simp [hm] at h
      | some gxs' =>
        simp only [hm, Option.map_some, Option.some.injEq] at h
        subst h
        simp [hx, ih gxs' hm]

end JsonV.Lemmas.MeaningSpec
