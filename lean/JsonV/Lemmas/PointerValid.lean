/-
Lemmas for C16, part 3: `Pointer.IsValid` (the `range` loop with UTF-8 decoding).
-/
import JsonV.Lemmas.PointerOps

namespace JsonV.Lemmas.Pointer
open JsonV JsonV.Model JsonV.Model.Pointer JsonV.Spec.Pointer

theorem leadInfo_some {b sz lo hi : Nat} (h : Utf8.leadInfo b = some (sz, lo, hi)) :
    (sz = 2 ∨ sz = 3 ∨ sz = 4) ∧ 0x80 ≤ lo := by
  unfold Utf8.leadInfo at h
  repeat' split at h
  all_goals first | (simp at h; omega) | simp at h

/-- Outcome of decoding at a non-empty position, by cases. -/
theorem decodeRune_cases (b : UInt8) (rest : Bytes) :
    (b.toNat < 0x80 ∧ Utf8.decodeRune (b :: rest) = (b.toNat, 1)) ∨
    (0x80 ≤ b.toNat ∧ Utf8.decodeRune (b :: rest) = (0xFFFD, 1)) ∨
    (0x80 ≤ b.toNat ∧ ∃ r n, Utf8.decodeRune (b :: rest) = (r, n) ∧ 2 ≤ n ∧ n - 1 ≤ rest.length ∧
        (∀ x ∈ rest.take (n - 1), 0x80 ≤ x.toNat) ∧
        ∀ q : Bytes, Utf8.decodeRune (b :: (rest.take (n - 1) ++ q)) = (r, n)) := by
  unfold Utf8.decodeRune
  simp only [Utf8.runeSelf, Utf8.runeError]
  by_cases h0 : b.toNat < 128
  · left; simp [h0]
  · right
    simp only [h0, if_false]
    cases hl : Utf8.leadInfo b.toNat with
    | none => left; exact ⟨by omega, rfl⟩
    | some info =>
      obtain ⟨sz, lo, hi⟩ := info
      obtain ⟨hsz, hlo⟩ := leadInfo_some hl
      simp only []
      cases rest with
      | nil => left; exact ⟨by omega, rfl⟩
      | cons b1 rest1 =>
        simp only []
        by_cases h1 : b1.toNat < lo ∨ hi < b1.toNat
        · left; simp [h1]; omega
        · simp only [h1, if_false]
          by_cases hs2 : sz = 2
          · right
            refine ⟨by omega, _, 2, by rw [if_pos hs2], by omega, by simp, ?_, ?_⟩
            · intro x hx; simp at hx; subst hx; omega
            · intro q; simp [h1, hs2]
          · simp only [hs2, if_false]
            cases rest1 with
            | nil => left; exact ⟨by omega, rfl⟩
            | cons b2 rest2 =>
              simp only []
              by_cases h2 : Utf8.isCont b2.toNat
              · simp only [h2, Bool.not_true, Bool.false_eq_true, if_false]
                by_cases hs3 : sz = 3
                · right
                  refine ⟨by omega, _, 3, by rw [if_pos hs3], by omega, by simp, ?_, ?_⟩
                  · intro x hx
                    simp at hx
                    unfold Utf8.isCont at h2
                    simp at h2
                    rcases hx with rfl | rfl <;> omega
                  · intro q; simp [h1, hs3, h2]
                · simp only [hs3, if_false]
                  cases rest2 with
                  | nil => left; exact ⟨by omega, rfl⟩
                  | cons b3 rest3 =>
                    simp only []
                    by_cases h3 : Utf8.isCont b3.toNat
                    · right
                      simp only [h3, Bool.not_true, Bool.false_eq_true, if_false]
                      refine ⟨by omega, _, 4, rfl, by omega, by simp, ?_, ?_⟩
                      · intro x hx
                        simp at hx
                        unfold Utf8.isCont at h2 h3
                        simp at h2 h3
                        rcases hx with rfl | rfl | rfl <;> omega
                      · intro q; simp [h1, h2, h3]
                    · left; simp [h3]; omega
              · left; simp [h2]; omega

/-! ### the `range` loop -/

theorem rangeAux_drop (k : Nat) (p : Bytes) : rangeAux k p = rangeAux 0 (p.drop k) := by
  induction p generalizing k with
  | nil => cases k <;> simp [rangeAux]
  | cons b rest ih =>
    cases k with
    | zero => rfl
    | succ k => simp only [rangeAux, List.drop_succ_cons]; exact ih k

theorem rangeStr_cons (b : UInt8) (rest : Bytes) :
    rangeStr (b :: rest) = ((Utf8.decodeRune (b :: rest)).1, b :: rest) ::
      rangeStr (rest.drop ((Utf8.decodeRune (b :: rest)).2 - 1)) := by
  unfold rangeStr
  simp only [rangeAux]
  rw [rangeAux_drop]

/-- The loop of `IsValid` without the final leading-slash test. -/
def allStep (p : Bytes) : Bool := (rangeStr p).all validStep

theorem isValid_eq (p : Bytes) : isValid p = (allStep p && (match p with | [] => true | b :: _ => b == cSlash)) := rfl

theorem allStep_nil : allStep [] = true := rfl

theorem allStep_cons (b : UInt8) (rest : Bytes) :
    allStep (b :: rest) = (validStep ((Utf8.decodeRune (b :: rest)).1, b :: rest) &&
      allStep (rest.drop ((Utf8.decodeRune (b :: rest)).2 - 1))) := by
  unfold allStep; rw [rangeStr_cons]; rfl

theorem decodeRune_fffd (t : Bytes) : Utf8.decodeRune (0xEF :: 0xBF :: 0xBD :: t) = (0xFFFD, 3) := by
  simp [Utf8.decodeRune, Utf8.leadInfo, Utf8.runeSelf, Utf8.isCont]

theorem hasPrefix_fffd (p : Bytes) (h : hasPrefix p [0xEF, 0xBF, 0xBD] = true) : ∃ t, p = 0xEF :: 0xBF :: 0xBD :: t := by
  match p, h with
  | [], h => simp [hasPrefix] at h
  | [_], h => simp [hasPrefix] at h
  | [_, _], h => simp [hasPrefix] at h
  | a :: b :: c :: t, h =>
    simp [hasPrefix] at h
    obtain ⟨rfl, rfl, rfl⟩ := h
    exact ⟨t, rfl⟩

/-- A decoding error (U+FFFD of width 1) makes the step fail. -/
theorem validStep_error (p : Bytes) (h : Utf8.decodeRune p = (0xFFFD, 1)) : validStep (0xFFFD, p) = false := by
  unfold validStep
  by_cases hp : hasPrefix p [0xEF, 0xBF, 0xBD] = true
  · obtain ⟨t, rfl⟩ := hasPrefix_fffd p hp
    rw [decodeRune_fffd] at h
    simp at h
  · simp [hp]

/-- Bytewise: every '~' is followed by '0' or '1'. -/
def tildeOK : Bytes → Bool
  | [] => true
  | [a] => a != cTilde
  | a :: b :: rest => (a != cTilde || b == c0 || b == c1) && tildeOK (b :: rest)

theorem tildeOK_append_notin (pre s : Bytes) (h : ∀ b ∈ pre, b ≠ cTilde) (hs : tildeOK s = true) :
    tildeOK (pre ++ s) = true := by
  induction pre with
  | nil => exact hs
  | cons a pre ih =>
    have ha : a ≠ cTilde := h a (by simp)
    have := ih (fun b hb => h b (by simp [hb]))
    rw [List.cons_append]
    generalize pre ++ s = l at this
    cases l with
    | nil => simp [tildeOK, ha]
    | cons x t => simp [tildeOK, ha, this]

theorem byte_ge_ne_tilde (x : UInt8) (h : 0x80 ≤ x.toNat) : x ≠ cTilde := by
  intro hx; subst hx; simp [cTilde] at h

/-- A pointer text that passes the `IsValid` loop has well-formed escapes, byte by byte. -/
theorem allStep_tildeOK (p : Bytes) (h : allStep p = true) : tildeOK p = true := by
  generalize hn : p.length = n
  induction n using Nat.strongRecOn generalizing p with
  | _ n ih =>
    cases p with
    | nil => rfl
    | cons b rest =>
      rw [allStep_cons, Bool.and_eq_true] at h
      obtain ⟨hv, hrest⟩ := h
      rcases decodeRune_cases b rest with ⟨hb, hd⟩ | ⟨hb, hd⟩ | ⟨hb, r, n', hd, hn2, hlen, hbytes, _⟩
      · rw [hd] at hv hrest
        simp only [Nat.sub_self, List.drop_zero] at hrest
        have ihr := ih rest.length (by simp at hn; omega) rest hrest rfl
        cases rest with
        | nil =>
          simp only [tildeOK, bne_iff_ne]
          intro hbt; subst hbt
          simp [validStep, badTilde, cTilde] at hv
        | cons x rest' =>
          simp only [tildeOK, ihr, Bool.and_true]
          by_cases hbt : b = cTilde
          · subst hbt
            simp [validStep, badTilde, cTilde] at hv
            rcases hv with h | h <;> simp [h]
          · simp [hbt]
      · rw [hd] at hv
        rw [validStep_error _ hd] at hv
        exact absurd hv (by simp)
      · rw [hd] at hrest
        simp only [] at hrest
        have ihr := ih (rest.drop (n' - 1)).length (by simp at hn ⊢; omega) _ hrest rfl
        have hsplit : b :: rest = (b :: rest.take (n' - 1)) ++ rest.drop (n' - 1) := by simp
        rw [hsplit]
        apply tildeOK_append_notin _ _ _ ihr
        intro x hx
        simp only [List.mem_cons] at hx
        rcases hx with rfl | hx
        · exact byte_ge_ne_tilde _ hb
        · exact byte_ge_ne_tilde _ (hbytes x hx)

theorem hasPrefix_append (p q pre : Bytes) (h : hasPrefix p pre = true) : hasPrefix (p ++ q) pre = true := by
  induction pre generalizing p with
  | nil => cases p <;> simp [hasPrefix]
  | cons a pre ih =>
    cases p with
    | nil => simp [hasPrefix] at h
    | cons b p => simp [hasPrefix] at h ⊢; exact ⟨h.1, ih p h.2⟩

/-- The loop of `IsValid` accepts the concatenation of two accepted texts. -/
theorem allStep_append (p q : Bytes) (hp : allStep p = true) (hq : allStep q = true) : allStep (p ++ q) = true := by
  generalize hn : p.length = n
  induction n using Nat.strongRecOn generalizing p with
  | _ n ih =>
    cases p with
    | nil => exact hq
    | cons b rest =>
      rw [allStep_cons, Bool.and_eq_true] at hp
      obtain ⟨hv, hrest⟩ := hp
      rw [List.cons_append, allStep_cons, Bool.and_eq_true]
      rcases decodeRune_cases b rest with ⟨hb, hd⟩ | ⟨hb, hd⟩ | ⟨hb, r, n', hd, hn2, hlen, hbytes, hext⟩
      · have hd' : Utf8.decodeRune (b :: (rest ++ q)) = (b.toNat, 1) := by
          rcases decodeRune_cases b (rest ++ q) with ⟨_, h⟩ | ⟨h, _⟩ | ⟨h, _⟩
          · exact h
          · omega
          · omega
        rw [hd] at hv hrest
        rw [hd']
        simp only [Nat.sub_self, List.drop_zero] at hrest ⊢
        refine ⟨?_, ih rest.length (by simp at hn; omega) rest hrest rfl⟩
        unfold validStep at hv ⊢
        have hne : b.toNat ≠ 0xFFFD := by omega
        simp only [hne, false_and, if_false] at hv ⊢
        by_cases hbt : b.toNat = 0x7e
        · simp only [hbt, true_and] at hv ⊢
          cases rest with
          | nil => simp [badTilde] at hv
          | cons x rest' => simpa [badTilde] using hv
        · simp [hbt]
      · rw [hd] at hv
        rw [validStep_error _ hd] at hv
        exact absurd hv (by simp)
      · have hd' : Utf8.decodeRune (b :: (rest ++ q)) = (r, n') := by
          have := hext (rest.drop (n' - 1) ++ q)
          rwa [← List.append_assoc, List.take_append_drop] at this
        rw [hd] at hv hrest
        rw [hd']
        simp only [] at hrest ⊢
        have hdrop : (rest ++ q).drop (n' - 1) = rest.drop (n' - 1) ++ q := by
          rw [List.drop_append_of_le_length hlen]
        rw [hdrop]
        refine ⟨?_, ih (rest.drop (n' - 1)).length (by simp at hn ⊢; omega) _ hrest rfl⟩
        unfold validStep at hv ⊢
        cases rest with
        | nil => simp at hlen; omega
        | cons x rest' =>
          by_cases hr1 : r = 0x7e
          · simp only [hr1, true_and] at hv ⊢
            simpa [badTilde] using hv
          · simp only [hr1, false_and, if_false] at hv ⊢
            by_cases hr2 : r = 0xFFFD
            · simp only [hr2, true_and] at hv ⊢
              by_cases hpre : hasPrefix (b :: x :: rest') [0xEF, 0xBF, 0xBD] = true
              · have := hasPrefix_append _ q _ hpre
                simp only [List.cons_append] at this
                simp [this]
              · simp [hpre] at hv
            · simp [hr2]

/-- "the concatenation of two valid pointers produces a valid pointer" (doc comment of IsValid). -/
theorem isValid_append (p q : Bytes) (hp : isValid p = true) (hq : isValid q = true) : isValid (p ++ q) = true := by
  rw [isValid_eq, Bool.and_eq_true] at hp hq ⊢
  refine ⟨allStep_append p q hp.1 hq.1, ?_⟩
  cases p with
  | nil => simpa using hq.2
  | cons b rest => simpa using hp.2

/-! ### valid pointers are renderings -/

/-- One-pass RFC 6901 unescaping (only used to exhibit a preimage under `escapeTok`). -/
def unesc1 : Bytes → Bytes
  | [] => []
  | [a] => [a]
  | a :: b :: rest =>
    if a = cTilde ∧ b = c0 then cTilde :: unesc1 rest
    else if a = cTilde ∧ b = c1 then cSlash :: unesc1 rest
    else a :: unesc1 (b :: rest)

theorem tildeOK_tail (x : UInt8) (l : Bytes) (h : tildeOK (x :: l) = true) : tildeOK l = true := by
  cases l with
  | nil => rfl
  | cons y t => simp [tildeOK] at h; exact h.2

theorem escapeTok_unesc1 (a : Bytes) (h1 : tildeOK a = true) (h2 : ∀ b ∈ a, b ≠ cSlash) : escapeTok (unesc1 a) = a := by
  fun_induction unesc1 a with
  | case1 => rfl
  | case2 a =>
    have ha : a ≠ cTilde := by simpa [tildeOK] using h1
    have hs : a ≠ cSlash := h2 a (by simp)
    have h7 : a ≠ 0x7e := by simpa [cTilde] using ha
    have h2f : a ≠ 0x2f := by simpa [cSlash] using hs
    simp [escapeTok, h7, h2f]
  | case3 a b rest hc ih =>
    obtain ⟨rfl, rfl⟩ := hc
    have := ih (tildeOK_tail _ _ (tildeOK_tail _ _ h1)) (fun x hx => h2 x (by simp [hx]))
    simp [escapeTok, cTilde, c0, this]
  | case4 a b rest hc0 hc ih =>
    obtain ⟨rfl, rfl⟩ := hc
    have := ih (tildeOK_tail _ _ (tildeOK_tail _ _ h1)) (fun x hx => h2 x (by simp [hx]))
    simp [escapeTok, cTilde, c1, cSlash, this]
  | case5 a b rest hc0 hc1 ih =>
    have ha : a ≠ cTilde := by
      intro hat; subst hat
      simp [tildeOK] at h1
      rcases h1.1 with h | h
      · exact hc0 ⟨rfl, h⟩
      · exact hc1 ⟨rfl, h⟩
    have hs : a ≠ cSlash := h2 a (by simp)
    have := ih (tildeOK_tail _ _ h1) (fun x hx => h2 x (by simp [hx]))
    have h7 : a ≠ 0x7e := by simpa [cTilde] using ha
    have h2f : a ≠ 0x2f := by simpa [cSlash] using hs
    simp [escapeTok, h7, h2f, this]

theorem cutAtSlash_spec (r : Bytes) : r = (cutAtSlash r).1 ++ (cutAtSlash r).2 ∧ (∀ b ∈ (cutAtSlash r).1, b ≠ cSlash) ∧
    SlashLed (cutAtSlash r).2 := by
  induction r with
  | nil => exact ⟨rfl, by simp [cutAtSlash], Or.inl rfl⟩
  | cons x r ihr =>
    by_cases hx : x = cSlash
    · subst hx; simp only [cutAtSlash, if_true]; exact ⟨rfl, by simp, Or.inr ⟨_, rfl⟩⟩
    · simp only [cutAtSlash, hx, if_false]
      refine ⟨by simpa using ihr.1, ?_, ihr.2.2⟩
      intro b hb
      simp only [List.mem_cons] at hb
      rcases hb with h | h
      · subst h; exact hx
      · exact ihr.2.1 b h

theorem tildeOK_split (a rest : Bytes) (h : tildeOK (a ++ rest) = true) (hr : SlashLed rest) :
    tildeOK a = true ∧ tildeOK rest = true := by
  induction a with
  | nil => exact ⟨rfl, h⟩
  | cons x a' ih =>
    cases a' with
    | nil =>
      rcases hr with rfl | ⟨r, rfl⟩
      · exact ⟨by simpa using h, rfl⟩
      · simp [tildeOK, cSlash, c0, c1] at h
        exact ⟨by simpa [tildeOK] using h.1, h.2⟩
    | cons y a'' =>
      simp only [List.cons_append, tildeOK, Bool.and_eq_true] at h
      have := ih h.2
      exact ⟨by simp only [tildeOK, Bool.and_eq_true]; exact ⟨h.1, this.1⟩, this.2⟩

/-- A slash-led text with well-formed escapes is the rendering of a token list. -/
theorem render_image (p : Bytes) (hp : SlashLed p) (ht : tildeOK p = true) : ∃ ts, p = render ts := by
  generalize hn : p.length = n
  induction n using Nat.strongRecOn generalizing p with
  | _ n ih =>
    rcases hp with rfl | ⟨r, rfl⟩
    · exact ⟨[], rfl⟩
    · obtain ⟨h1, h2, h3⟩ := cutAtSlash_spec r
      have hlen := cutAtSlash_length r
      generalize (cutAtSlash r).1 = a at *
      generalize (cutAtSlash r).2 = rest at *
      subst h1
      have ht' := tildeOK_tail _ _ ht
      obtain ⟨hta, htr⟩ := tildeOK_split a rest ht' h3
      obtain ⟨ts, hts⟩ := ih rest.length (by simp at hn; omega) rest h3 htr rfl
      refine ⟨unesc1 a :: ts, ?_⟩
      simp only [render, escapeTok_unesc1 a hta h2, ← hts]
      rfl

/-- Valid pointers are exactly renderings: `p.IsValid()` implies `p = render (tokens p)`. -/
theorem isValid_render (p : Bytes) (h : isValid p = true) : p = render (tokens p) := by
  rw [isValid_eq, Bool.and_eq_true] at h
  have hled : SlashLed p := by
    cases p with
    | nil => exact Or.inl rfl
    | cons b r => have : b = cSlash := by simpa using h.2
                  subst this; exact Or.inr ⟨r, rfl⟩
  obtain ⟨ts, hts⟩ := render_image p hled (allStep_tildeOK p h.1)
  rw [hts, tokens_render]

end JsonV.Lemmas.Pointer
