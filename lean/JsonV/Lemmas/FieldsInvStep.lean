/-
One field of the entry being processed preserves the search invariant.
-/
import JsonV.Lemmas.FieldsInv

set_option linter.unusedSimpArgs false

namespace JsonV.Lemmas.Fields
open JsonV JsonV.Model JsonV.Model.Fields JsonV.Spec.FieldRule

variable {g : Graph} {root : StructId} {k : Nat} {P R' : List QE} {qe : QE} {i : Nat} {d : FieldDecl} {s : St}

theorem Inv.depth_le (h : Inv g root k P R cur s) : ∀ e ∈ hist P R s, e.index.length ≤ k + 1 := by
  intro e he
  simp only [hist, List.mem_append] at he
  rcases he with (he | he) | he
  · have := h.depthP e he; omega
  · have := h.depthR e he; omega
  · have := h.depthQ e he; omega

/-- Steps that leave queue and seen alone and add at most the member of field `i`. -/
theorem Inv.step_same (h : Inv g root k P (qe :: R') (some (qe, i)) s) (hf : FieldAt g qe.sid i d)
    (s' : St) (hq : s'.queue = s.queue) (hs : s'.seen = s.seen)
    (hnk : ∀ t, actOf d = .enqueue t → qe.visit = false)
    (ha : (∀ o, actOf d ≠ .field o) ∧ s'.all = s.all ∨
          ∃ o, actOf d = .field o ∧ s'.all = s.all ++ [{ id := s.all.length, index := qe.index ++ [i], opts := o }]) :
    Inv g root k P (qe :: R') (some (qe, i + 1)) s' := by
  have hh : hist P (qe :: R') s' = hist P (qe :: R') s := by simp [hist, hq]
  refine ⟨h.depthP, h.depthR, hq ▸ h.depthQ, by rw [hs, hh]; exact h.seenW, by rw [hs, hh]; exact h.seenH,
    by rw [hh]; exact h.firstW, by rw [hh]; exact h.firstP, ?_, by rw [hh]; exact h.reach, ?_, ?_, ?_⟩
  · intro e j t hd hv hk
    rw [hh]
    rcases done_succ hd with hd | ⟨rfl, rfl⟩
    · exact h.kids e j t hd hv hk
    · have := hnk t (kid_unique hf hk)
      rw [this] at hv; cases hv
  · intro e j o hd hm
    rcases done_succ hd with hd | ⟨rfl, rfl⟩
    · obtain ⟨f, hfm, hfi⟩ := h.memb e j o hd hm
      refine ⟨f, ?_, hfi⟩
      rcases ha with ⟨_, ha⟩ | ⟨_, _, ha⟩ <;> rw [ha]
      · exact hfm
      · exact List.mem_append_left _ hfm
    · have hact := member_unique hf hm
      rcases ha with ⟨hno, _⟩ | ⟨o', ho', ha⟩
      · exact absurd hact (hno o)
      · rw [ho'] at hact
        cases hact
        exact ⟨_, by rw [ha]; exact List.mem_append_right _ (List.mem_singleton.mpr rfl), rfl, rfl⟩
  · intro f hfm
    rcases ha with ⟨_, ha⟩ | ⟨o, ho, ha⟩
    · rw [ha] at hfm
      obtain ⟨e, j, hd, hm, hi⟩ := h.allS f hfm
      exact ⟨e, j, done_mono hd, hm, hi⟩
    · rw [ha] at hfm
      rcases List.mem_append.mp hfm with hfm | hfm
      · obtain ⟨e, j, hd, hm, hi⟩ := h.allS f hfm
        exact ⟨e, j, done_mono hd, hm, hi⟩
      · rw [List.mem_singleton.mp hfm]
        exact ⟨qe, i, Or.inr ⟨i + 1, rfl, Nat.lt_succ_self i⟩, ⟨d, hf, ho⟩, rfl⟩
  · intro qe' i' hc
    simp only [Option.some.injEq, Prod.mk.injEq] at hc
    exact ⟨R', by rw [hc.1]⟩

theorem reach_kid (hgood : GoodDecl d) {p : List Nat} {sid : StructId} {t : StructId}
    (hr : Reach g root p sid) (hf : FieldAt g sid i d) (ha : actOf d = .enqueue t) : Reach g root (p ++ [i]) t := by
  unfold GoodDecl at hgood
  rw [ha] at hgood
  cases hk : kindOf d <;> simp [hk, Action.Matches] at hgood
  subst hgood
  exact Reach.step hr hf hk

theorem qe_mem_hist : qe ∈ hist P (qe :: R') s := by simp [hist]

/-- The entry being processed is visiting: the embedded struct of field `i` is queued. -/
theorem Inv.step_enqueue_visit (hg : GoodDecl d) (h : Inv g root k P (qe :: R') (some (qe, i)) s)
    (hf : FieldAt g qe.sid i d) {t : StructId} (ha : actOf d = .enqueue t) (hv : qe.visit = true) :
    Inv g root k P (qe :: R') (some (qe, i + 1)) (applyAction qe i (.enqueue t) s) := by
  let enew : QE := { sid := t, index := qe.index ++ [i], visit := !s.seen.contains t }
  have hq : (applyAction qe i (.enqueue t) s).queue = s.queue ++ [enew] := by simp [applyAction, hv, enew]
  have hs : (applyAction qe i (.enqueue t) s).seen = if s.seen.contains t then s.seen else t :: s.seen := by
    simp [applyAction, hv]
  have hall : (applyAction qe i (.enqueue t) s).all = s.all := by simp [applyAction, hv]
  have hh : hist P (qe :: R') (applyAction qe i (.enqueue t) s) = hist P (qe :: R') s ++ [enew] := by
    simp [hist, hq]
  have hsub : ∀ t', t' ∈ s.seen → t' ∈ (applyAction qe i (.enqueue t) s).seen := by
    intro t' ht'; rw [hs]; split
    · exact ht'
    · exact List.mem_cons_of_mem _ ht'
  have htin : t ∈ (applyAction qe i (.enqueue t) s).seen := by
    rw [hs]; split
    · rename_i hc; simpa using hc
    · exact List.mem_cons_self ..
  have hk : qe.index.length = k := h.depthR qe (List.mem_cons_self ..)
  refine ⟨h.depthP, h.depthR, ?_, ?_, ?_, ?_, ?_, ?_, ?_, ?_, ?_, ?_⟩
  · intro e he
    rw [hq] at he
    rcases List.mem_append.mp he with he | he
    · exact h.depthQ e he
    · rw [List.mem_singleton.mp he]; simp [enew, hk]
  · intro t' ht'
    rw [hh]
    rw [hs] at ht'
    by_cases hc : s.seen.contains t = true
    · rw [if_pos hc] at ht'
      obtain ⟨e0, he0, h1, h2⟩ := h.seenW t' ht'
      exact ⟨e0, List.mem_append_left _ he0, h1, h2⟩
    · rw [if_neg hc] at ht'
      rcases List.mem_cons.mp ht' with rfl | ht'
      · exact ⟨enew, List.mem_append_right _ (List.mem_singleton.mpr rfl), rfl, by simpa [enew] using hc⟩
      · obtain ⟨e0, he0, h1, h2⟩ := h.seenW t' ht'
        exact ⟨e0, List.mem_append_left _ he0, h1, h2⟩
  · intro e he
    rw [hh] at he
    rcases List.mem_append.mp he with he | he
    · exact hsub _ (h.seenH e he)
    · rw [List.mem_singleton.mp he]; exact htin
  · intro e he hev
    rw [hh] at he ⊢
    rcases List.mem_append.mp he with he | he
    · obtain ⟨e0, he0, h1, h2, h3⟩ := h.firstW e he hev
      exact ⟨e0, List.mem_append_left _ he0, h1, h2, h3⟩
    · rw [List.mem_singleton.mp he] at hev ⊢
      have hc : t ∈ s.seen := by simpa [enew] using hev
      obtain ⟨e0, he0, h1, h2⟩ := h.seenW t hc
      refine ⟨e0, List.mem_append_left _ he0, h1, h2, ?_⟩
      have := h.depth_le e0 he0
      simp [enew, hk]; omega
  · rw [hh, List.pairwise_append]
    refine ⟨h.firstP, List.pairwise_singleton _ _, ?_⟩
    intro a ha' b hb hbv
    rw [List.mem_singleton.mp hb] at hbv ⊢
    have hnc : t ∉ s.seen := by simpa [enew] using hbv
    intro heq
    have h2 : a.sid = t := heq
    exact hnc (h2 ▸ h.seenH a ha')
  · intro e j t' hd hev hkid
    rw [hh]
    rcases done_succ hd with hd | ⟨rfl, rfl⟩
    · obtain ⟨e', he', h1, h2⟩ := h.kids e j t' hd hev hkid
      exact ⟨e', List.mem_append_left _ he', h1, h2⟩
    · have := kid_unique hf hkid
      rw [ha] at this
      cases this
      exact ⟨enew, List.mem_append_right _ (List.mem_singleton.mpr rfl), rfl, rfl⟩
  · intro e he
    rw [hh] at he
    rcases List.mem_append.mp he with he | he
    · exact h.reach e he
    · rw [List.mem_singleton.mp he]
      exact reach_kid hg (h.reach qe qe_mem_hist) hf ha
  · intro e j o hd hm
    rw [hall]
    rcases done_succ hd with hd | ⟨rfl, rfl⟩
    · exact h.memb e j o hd hm
    · have := member_unique hf hm
      rw [ha] at this
      cases this
  · intro f hfm
    rw [hall] at hfm
    obtain ⟨e, j, hd, hm, hi⟩ := h.allS f hfm
    exact ⟨e, j, done_mono hd, hm, hi⟩
  · intro qe' i' hc
    simp only [Option.some.injEq, Prod.mk.injEq] at hc
    exact ⟨R', by rw [hc.1]⟩

/-- The entry being processed is a repeated type (`visitChildren = false`): nothing is queued, and the
embedded struct of field `i` is already in `seen` because the first occurrence of the type was processed before. -/
theorem Inv.step_enqueue_novisit (h : Inv g root k P (qe :: R') (some (qe, i)) s)
    (hf : FieldAt g qe.sid i d) {t : StructId} (ha : actOf d = .enqueue t) (hv : qe.visit = false) :
    Inv g root k P (qe :: R') (some (qe, i + 1)) (applyAction qe i (.enqueue t) s) := by
  have hq : (applyAction qe i (.enqueue t) s).queue = s.queue := by simp [applyAction, hv]
  have hall : (applyAction qe i (.enqueue t) s).all = s.all := by simp [applyAction, hv]
  have htseen : t ∈ s.seen := by
    obtain ⟨e0, he0, hsid, hvis, _⟩ := h.firstW qe qe_mem_hist hv
    -- e0 precedes qe: it is in P
    have hP : e0 ∈ P := by
      have hp := h.firstP
      have hsplit : hist P (qe :: R') s = P ++ (qe :: (R' ++ s.queue)) := by simp [hist]
      rw [hsplit] at hp he0
      rcases List.mem_append.mp he0 with hin | hin
      · exact hin
      · exfalso
        have hp2 := (List.pairwise_append.mp hp).2.1
        rcases List.mem_cons.mp hin with rfl | hin
        · rw [hv] at hvis; cases hvis
        · exact (List.pairwise_cons.mp hp2).1 e0 hin hvis hsid.symm
    have hkid : Kid g e0.sid i t := by rw [hsid]; exact ⟨d, hf, ha⟩
    obtain ⟨e', he', h1, _⟩ := h.kids e0 i t (Or.inl hP) hvis hkid
    exact h1 ▸ h.seenH e' he'
  have hs : (applyAction qe i (.enqueue t) s).seen = s.seen := by
    simp [applyAction, hv, htseen]
  refine Inv.step_same (d := d) h hf _ hq hs (fun _ _ => hv) (Or.inl ⟨?_, hall⟩)
  intro o ho
  rw [ha] at ho
  cases ho

end JsonV.Lemmas.Fields
