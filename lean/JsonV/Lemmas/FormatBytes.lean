/-
Byte-level facts (by exhaustion over the 256 bytes) used by the C12 lemmas.
-/
import JsonV.Model.Format

namespace JsonV.Fmt

/-! ### byte facts by exhaustion -/

theorem forall_u8 (P : UInt8 → Prop) (h : ∀ n, n < 256 → P (UInt8.ofNat n)) : ∀ c, P c := by
  intro c
  have := h c.toNat (UInt8.toNat_lt c)
  simpa using this

theorem numChar_of_next : ∀ (st : NSt) (c : UInt8), isNumChar c = false → st.next c = none := by
  intro st
  apply forall_u8
  cases st <;> decide +kernel

theorem ws_not_numChar : ∀ c : UInt8, isWs c = true → isNumChar c = false := by
  apply forall_u8; decide +kernel

theorem start_next_first : ∀ c : UInt8, (NSt.start.next c).isSome = true → (c = 0x2d ∨ isDigit c = true) := by
  apply forall_u8; decide +kernel

theorem numStart_not_ws : ∀ c : UInt8, (c = 0x2d ∨ isDigit c = true) → isWs c = false := by
  apply forall_u8; decide +kernel

end JsonV.Fmt
