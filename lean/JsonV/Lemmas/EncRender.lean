/-
The output of the Encoder model for token scripts is the PDA-derived rendering (Spec/Render.lean).
Core Lean only.
-/
import JsonV.Model.Encoder
import JsonV.Spec.Render
import JsonV.Lemmas.StateRun

namespace JsonV.Lemmas.EncRender
open JsonV JsonV.Model JsonV.Model.Encoder JsonV.Spec JsonV.Spec.PDA JsonV.Spec.Render
open JsonV.Lemmas.StateRefine JsonV.Lemmas.StateRun

/-- `needDelim`, `NeedIndent` only look at whether the next kind is a closing delimiter. -/
theorem needDelim_congr (m : Machine) (a b : UInt8)
    (h : (a != 0x7d && a != 0x5d) = (b != 0x7d && b != 0x5d)) : m.needDelim a = m.needDelim b := by
  simp only [Machine.needDelim, Entry.needImplicitComma, Bool.and_assoc, h]

theorem needIndent_congr (m : Machine) (a b : UInt8)
    (h : (a != 0x7d && a != 0x5d) = (b != 0x7d && b != 0x5d))
    (h' : (a == 0x7d || a == 0x5d) = (b == 0x7d || b == 0x5d)) : m.needIndent a = m.needIndent b := by
  simp only [Machine.needIndent, Entry.needImplicitComma, Bool.and_assoc, h, h']

theorem kind_closing1 (t : Tok) :
    (t.kind != 0x7d && t.kind != 0x5d) = ((kindOf t).byte != 0x7d && (kindOf t).byte != 0x5d) := by
  cases t <;> rfl
theorem kind_closing2 (t : Tok) :
    (t.kind == 0x7d || t.kind == 0x5d) = ((kindOf t).byte == 0x7d || (kindOf t).byte == 0x5d) := by
  cases t <;> rfl

theorem appendIndent_eq (o : Opts) (b : Bytes) (n : Nat) : appendIndent o b n = b ++ indentBytes o n := by
  unfold appendIndent indentBytes
  split <;> simp [List.append_assoc]

/-- The local buffer `b` at `pos` in WriteToken: the committed output plus the specified separator. -/
theorem beforeToken_eq (e : Enc) (t : Tok) (hb : BottomArr (abs e.m)) :
    beforeToken e t.kind = e.out ++ sepBytes e.o (abs e.m) (kindOf t) := by
  have hd : e.m.needDelim t.kind = delimByte (delim (abs e.m) (kindOf t)) := by
    rw [needDelim_congr e.m t.kind (kindOf t).byte (kind_closing1 t)]
    exact needDelim_abs hb (kindOf t)
  have hi : e.m.needIndent t.kind = indent (abs e.m) (kindOf t) := by
    rw [needIndent_congr e.m t.kind (kindOf t).byte (kind_closing1 t) (kind_closing2 t)]
    exact needIndent_abs e.m (kindOf t)
  simp only [beforeToken, appendWhitespace, Machine.mayAppendDelim, hd, hi, sepBytes, appendIndent_eq]
  cases delim (abs e.m) (kindOf t) <;> simp [delimByte] <;>
    cases e.o.spaceAfterColon <;> cases e.o.spaceAfterComma <;> cases e.o.multiline <;> simp

theorem fin_ok {e e' : Enc} {b : Bytes} {r : Except EncErr (Machine × List (List Bytes))}
    (h : (match r with
      | .ok (m, ns) => (commit e b m ns, (none : Option EncErr))
      | .error x => (e, some x)) = (e', none)) :
    ∃ m ns, r = .ok (m, ns) ∧ e' = commit e b m ns := by
  cases r with
  | error x => simp at h
  | ok p => obtain ⟨m, ns⟩ := p; simp at h; exact ⟨m, ns, rfl, h.symm⟩

theorem liftSM_map {x : Except SMErr Machine} {g : Machine → List (List Bytes)} {m : Machine}
    {ns : List (List Bytes)} (h : (liftSM x).map (fun m => (m, g m)) = .ok (m, ns)) : x = .ok m := by
  cases x with
  | error e => simp [liftSM, Except.map] at h
  | ok m0 => simp [liftSM, Except.map] at h; rw [h.1]

theorem commit_out (e : Enc) (b : Bytes) (m : Machine) (ns : List (List Bytes)) :
    (commit e b m ns).out = b ++ (if m.stack.length = 0 then [0x0a] else []) := by
  simp only [commit]; split <;> simp

/-- What an accepted `WriteToken` does: the machine makes the step of the token's kind, and the output
grows by separator, token text and (at top level) a newline. -/
theorem writeToken_ok (e e' : Enc) (t : Tok) (h : writeToken e t = (e', none)) :
    ∃ m', smStep e.o.maxDepth e.m (kindOf t) = .ok m' ∧ e'.m = m' ∧ e'.o = e.o ∧
      e'.out = beforeToken e t.kind ++ tokText e.o t ++ (if m'.stack.length = 0 then [0x0a] else []) := by
  unfold writeToken at h
  cases t <;> simp only at h
  case str s =>
    split at h
    · simp at h
    · obtain ⟨m, ns, hr, he⟩ := fin_ok h
      subst he
      refine ⟨m, ?_, rfl, rfl, ?_⟩
      · cases hc : checkName e (appendQuote e.o s).1 with
        | error x => rw [hc] at hr; simp at hr
        | ok ns' =>
          rw [hc] at hr
          exact liftSM_map (g := fun _ => ns') hr
      · rw [commit_out]; simp [tokText, List.append_assoc]
  case null =>
    obtain ⟨m, ns, hr, he⟩ := fin_ok h
    subst he
    exact ⟨m, liftSM_map (g := fun _ => e.ns) hr, rfl, rfl, by rw [commit_out]; simp [tokText]⟩
  case fals =>
    obtain ⟨m, ns, hr, he⟩ := fin_ok h
    subst he
    exact ⟨m, liftSM_map (g := fun _ => e.ns) hr, rfl, rfl, by rw [commit_out]; simp [tokText]⟩
  case tru =>
    obtain ⟨m, ns, hr, he⟩ := fin_ok h
    subst he
    exact ⟨m, liftSM_map (g := fun _ => e.ns) hr, rfl, rfl, by rw [commit_out]; simp [tokText]⟩
  case num text =>
    obtain ⟨m, ns, hr, he⟩ := fin_ok h
    subst he
    exact ⟨m, liftSM_map (g := fun _ => e.ns) hr, rfl, rfl, by rw [commit_out]; simp [tokText]⟩
  case beginObj =>
    obtain ⟨m, ns, hr, he⟩ := fin_ok h
    subst he
    exact ⟨m, liftSM_map (g := fun _ => if e.o.allowDup then e.ns else [] :: e.ns) hr, rfl, rfl,
      by rw [commit_out]; simp [tokText]⟩
  case endObj =>
    obtain ⟨m, ns, hr, he⟩ := fin_ok h
    subst he
    exact ⟨m, liftSM_map (g := fun _ => if e.o.allowDup then e.ns else e.ns.drop 1) hr, rfl, rfl,
      by rw [commit_out]; simp [tokText]⟩
  case beginArr =>
    obtain ⟨m, ns, hr, he⟩ := fin_ok h
    subst he
    exact ⟨m, liftSM_map (g := fun _ => e.ns) hr, rfl, rfl, by rw [commit_out]; simp [tokText]⟩
  case endArr =>
    obtain ⟨m, ns, hr, he⟩ := fin_ok h
    subst he
    exact ⟨m, liftSM_map (g := fun _ => e.ns) hr, rfl, rfl, by rw [commit_out]; simp [tokText]⟩


/-- Run a script of tokens all of which have to be accepted. -/
def runToks : Enc → List Tok → Option Enc
  | e, [] => some e
  | e, t :: ts =>
    match writeToken e t with
    | (e', none) => runToks e' ts
    | (_, some _) => none

theorem abs_length (m : Machine) : (abs m).length = m.stack.length + 1 := by simp [abs]

theorem out_render_from (ts : List Tok) : ∀ {b : Nat} {e e' : Enc}, Inv e.o.maxDepth b e.m →
    BottomArr (abs e.m) → b + ts.length < 2^61 → runToks e ts = some e' →
    e'.out = e.out ++ renderFrom e.o (abs e.m) ts ∧ e'.o = e.o ∧
      run e.o.maxDepth (abs e.m) (ts.map kindOf) = some (abs e'.m) := by
  induction ts with
  | nil => intro b e e' _ _ _ h; simp [runToks] at h; subst h; simp [renderFrom, run]
  | cons t ts ih =>
    intro b e e' hinv hbot hlen h
    simp only [runToks] at h
    cases hw : writeToken e t with
    | mk e1 r =>
      rw [hw] at h
      cases r with
      | some err => simp at h
      | none =>
        simp only at h
        obtain ⟨m', hstep, hm, ho, hout⟩ := writeToken_ok e e1 t hw
        have hb1 : b + 1 < 2^61 := by simp at hlen; omega
        have href := step_refines hinv hb1 (kindOf t)
        unfold StepRel at href
        rw [hstep] at href
        obtain ⟨hs, hinv'⟩ := href
        have hbot' : BottomArr (abs m') := step_bottomArr hs hbot
        rw [← hm] at hinv' hbot' hs
        rw [← ho] at hinv'
        have := ih (b := b + 1) (e := e1) (e' := e') hinv' hbot' (by simp at hlen ⊢; omega) h
        obtain ⟨h1, h2, h3⟩ := this
        refine ⟨?_, by rw [h2, ho], ?_⟩
        · rw [h1, hout, beforeToken_eq e t hbot, ho]
          simp only [renderFrom, hs, abs_length, hm]
          simp [List.append_assoc]
        · simp only [List.map_cons, run, hs]
          rw [← ho]; exact h3

end JsonV.Lemmas.EncRender
