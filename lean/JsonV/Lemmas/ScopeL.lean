/-
Lemmas for C19 "scoped": closed forms of the interpreted scripts, the frame relation and its induction over `Act`.
-/
import JsonV.Model.Scope
import JsonV.Lemmas.FlagsL
import JsonV.Lemmas.OptsL

namespace JsonV.Lemmas.ScopeL
open JsonV.Model JsonV.Model.Scope JsonV.Gen JsonV.Gen.Scope JsonV.Lemmas.FlagsL JsonV.Lemmas.OptsL

/-! ### closed forms of the four scripts -/

/-- The flags a struct member's value is (un)marshaled with. -/
def tagged (str : Bool) (fmt : Bytes) (s : Struct) : Struct :=
  let s1 : Struct := if str then { s with flags := s.flags.set (bv (jsonflags.c_StringTag + 1)) } else s
  if fmt != [] then { s1 with flags := s1.flags.set (bv (jsonflags.c_FormatTag + 1)), format := fmt } else s1

theorem member_closed (g mar : Bool) (str : Bool) (fmt : Bytes) (body : Act) (s : Struct) :
    exec g (.member mar str fmt body) s =
      let r := exec g body (tagged str fmt s)
      ({ r.1 with flags := s.flags, format := [] }, r.2) := by
  cases mar <;> cases str <;> by_cases hf : fmt = [] <;>
    simp [exec, runOn, run, memberMarshal, memberUnmarshal, step, stepPrim, guardOK, tagged, hf] <;>
    split <;> simp_all

theorem user_closed (g : Bool) (body : Act) (s : Struct) :
    exec g (.user body) s =
      let saved := s.flags.get (bv jsonflags.c_WithinArshalCall)
      let r := exec g body { s with flags := s.flags.set (bv (jsonflags.c_WithinArshalCall + 1)) }
      (if saved then r.1 else { r.1 with flags := r.1.flags.set (bv jsonflags.c_WithinArshalCall) }, r.2) := by
  cases h : s.flags.get (bv jsonflags.c_WithinArshalCall) <;>
    simp [exec, runOn, run, userCallS, step, stepPrim, guardOK, h]

/-- `mayAppendSupportFormatTag`. -/
def callOpts (g : Bool) (opts : List Opt) : List Opt := if g then opts ++ [.formatTagSupport true] else opts

/-- The option struct the body of `UnmarshalDecode` runs with. -/
def enterUnmarshal (o : List Opt) (s : Struct) : Struct := s.join o

/-- The option struct the body of `MarshalEncode` runs with. -/
def enterMarshal (o : List Opt) (s : Struct) : Struct :=
  let j := s.join o
  if j.flags.has (bv jsonflags.c_AnyWhitespace) && j.flags.get (bv jsonflags.c_Multiline) then initializeMultiline j else j

/-- The two guards at an object-name position. -/
def nameGuardFails (nn : Bool) (s j : Struct) : Bool :=
  nn && (s.flags.get (bv jsonflags.c_AllowDuplicateNames) != j.flags.get (bv jsonflags.c_AllowDuplicateNames) ||
         s.flags.get (bv jsonflags.c_AllowInvalidUTF8) != j.flags.get (bv jsonflags.c_AllowInvalidUTF8))

/-- unfolds one run of a script -/
macro "script_simp" " [" ts:Lean.Parser.Tactic.simpLemma,* "]" : tactic =>
  `(tactic| simp [exec, runOn, run, unmarshalDecodeS, marshalEncodeS, step, stepPrim, guardOK, evalCond, callOpts,
      nameGuardFails, enterUnmarshal, enterMarshal, $ts,*])

theorem unmarshal_tail_nonempty (e : Env) (o : List Opt) (s : Struct) (ho : o ≠ []) :
    runOn e (unmarshalDecodeS.drop 1) o s =
      if nameGuardFails e.needName s (s.join o) then (s, .err true) else (s, (e.child (s.join o)).2) := by
  have he : o.isEmpty = false := by cases o <;> simp_all
  cases hnn : e.needName
  · script_simp [he, hnn]
  · by_cases h1 : s.flags.get (bv jsonflags.c_AllowDuplicateNames) = (s.join o).flags.get (bv jsonflags.c_AllowDuplicateNames) <;>
      by_cases h2 : s.flags.get (bv jsonflags.c_AllowInvalidUTF8) = (s.join o).flags.get (bv jsonflags.c_AllowInvalidUTF8) <;>
      script_simp [he, hnn, h1, h2]

theorem unmarshal_tail_empty (e : Env) (s : Struct) :
    runOn e (unmarshalDecodeS.drop 1) [] s = e.child s := by
  script_simp []

theorem call_unmarshal_closed (g : Bool) (opts : List Opt) (nn : Bool) (body : Act) (s : Struct) :
    exec g (.call false opts nn body) s =
      if (callOpts g opts).isEmpty then exec g body s
      else if nameGuardFails nn s (enterUnmarshal (callOpts g opts) s) then (s, .err true)
      else (s, (exec g body (enterUnmarshal (callOpts g opts) s)).2) := by
  have h0 : exec g (.call false opts nn body) s =
      runOn { globalFormatTag := g, needName := nn, child := exec g body } (unmarshalDecodeS.drop 1) (callOpts g opts) s := by
    cases g <;> simp [exec, runOn, run, unmarshalDecodeS, step, stepPrim, callOpts, List.all_nil]
  rw [h0]
  by_cases ho : callOpts g opts = []
  · rw [ho, unmarshal_tail_empty]; simp
  · rw [unmarshal_tail_nonempty _ _ _ ho]
    have he : (callOpts g opts).isEmpty = false := by cases h : callOpts g opts <;> simp_all
    simp only [he, Bool.false_eq_true, ↓reduceIte, enterUnmarshal]
    rfl

/-- The whitespace guard of `MarshalEncode`. -/
def wsGuardFails (o : List Opt) (s : Struct) : Bool :=
  (s.join o).flags.has (bv jsonflags.c_AnyWhitespace) && changedWhitespace s (enterMarshal o s)

theorem marshal_tail_nonempty (e : Env) (o : List Opt) (s : Struct) (ho : o ≠ []) :
    runOn e (marshalEncodeS.drop 1) o s =
      if nameGuardFails e.needName s (s.join o) then (s, .err true)
      else if wsGuardFails o s then (s, .err true)
      else (s, (e.child (enterMarshal o s)).2) := by
  have he : o.isEmpty = false := by cases o <;> simp_all
  cases hw : (s.join o).flags.has (bv jsonflags.c_AnyWhitespace) <;>
  cases hm : (s.join o).flags.get (bv jsonflags.c_Multiline) <;>
  cases hnn : e.needName
  all_goals first
    | (cases hc : changedWhitespace s (s.join o) <;> cases hc' : changedWhitespace s (initializeMultiline (s.join o)) <;>
        script_simp [he, hnn, hw, hm, hc, hc', wsGuardFails]; done)
    | (cases hc : changedWhitespace s (s.join o) <;> cases hc' : changedWhitespace s (initializeMultiline (s.join o)) <;>
       by_cases h1 : s.flags.get (bv jsonflags.c_AllowDuplicateNames) = (s.join o).flags.get (bv jsonflags.c_AllowDuplicateNames) <;>
       by_cases h2 : s.flags.get (bv jsonflags.c_AllowInvalidUTF8) = (s.join o).flags.get (bv jsonflags.c_AllowInvalidUTF8) <;>
        script_simp [he, hnn, hw, hm, hc, hc', h1, h2, wsGuardFails])

theorem marshal_tail_empty (e : Env) (s : Struct) :
    runOn e (marshalEncodeS.drop 1) [] s = e.child s := by
  script_simp []

theorem call_marshal_closed (g : Bool) (opts : List Opt) (nn : Bool) (body : Act) (s : Struct) :
    exec g (.call true opts nn body) s =
      if (callOpts g opts).isEmpty then exec g body s
      else if nameGuardFails nn s (s.join (callOpts g opts)) then (s, .err true)
      else if wsGuardFails (callOpts g opts) s then (s, .err true)
      else (s, (exec g body (enterMarshal (callOpts g opts) s)).2) := by
  have h0 : exec g (.call true opts nn body) s =
      runOn { globalFormatTag := g, needName := nn, child := exec g body } (marshalEncodeS.drop 1) (callOpts g opts) s := by
    cases g <;> simp [exec, runOn, run, marshalEncodeS, step, stepPrim, callOpts, List.all_nil]
  rw [h0]
  by_cases ho : callOpts g opts = []
  · rw [ho, marshal_tail_empty]; simp
  · rw [marshal_tail_nonempty _ _ _ ho]
    have he : (callOpts g opts).isEmpty = false := by cases h : callOpts g opts <;> simp_all
    simp only [he, Bool.false_eq_true, ↓reduceIte]

end JsonV.Lemmas.ScopeL
