/-
Lemmas for C19 "scoped": closed forms of the interpreted scripts, the frame relation and its induction over `Act`.
-/
import JsonV.Model.Scope
import JsonV.Lemmas.FlagsL
import JsonV.Lemmas.OptsL

namespace JsonV.Lemmas.ScopeL
open JsonV.Model JsonV.Model.Scope JsonV.Gen JsonV.Gen.Scope JsonV.Lemmas.FlagsL JsonV.Lemmas.OptsL

/-! ### closed forms of the four scripts -/

theorem member_closed (g mar : Bool) (str : Bool) (fmt : Bytes) (body : Act) (s : Struct) :
    exec g (.member mar str fmt body) s =
      let r := exec g body (tagged str fmt s)
      ({ r.1 with flags := s.flags, format := [] }, r.2) := by
  cases mar <;> cases str <;> by_cases hf : fmt = [] <;>
    simp [exec, runOn, run, memberMarshal, memberUnmarshal, step, stepPrim, guardOK, tagged, hf] <;>
    split <;> simp_all

theorem user_closed (g : Bool) (body : Act) (s : Struct) :
    exec g (.user body) s =
      let saved := s.flags.get (bv jsonflags.c_WithinArshalCall)
      let r := exec g body { s with flags := s.flags.set (bv (jsonflags.c_WithinArshalCall + 1)) }
      (if saved then r.1 else { r.1 with flags := r.1.flags.set (bv jsonflags.c_WithinArshalCall) }, r.2) := by
  cases h : s.flags.get (bv jsonflags.c_WithinArshalCall) <;>
    simp [exec, runOn, run, userCallS, step, stepPrim, guardOK, h]

/-- unfolds one run of a script -/
macro "script_simp" " [" ts:Lean.Parser.Tactic.simpLemma,* "]" : tactic =>
  `(tactic| simp [exec, runOn, run, unmarshalDecodeS, marshalEncodeS, step, stepPrim, guardOK, evalCond, callOpts,
      nameGuardFails, enterUnmarshal, enterMarshal, $ts,*])

theorem unmarshal_tail_nonempty (e : Env) (o : List Opt) (s : Struct) (ho : o ≠ []) :
    runOn e (unmarshalDecodeS.drop 1) o s =
      if nameGuardFails e.needName s (s.join o) then (s, .err true) else (s, (e.child (s.join o)).2) := by
  have he : o.isEmpty = false := by cases o <;> simp_all
  cases hnn : e.needName
  · script_simp [he, hnn]
  · by_cases h1 : s.flags.get (bv jsonflags.c_AllowDuplicateNames) = (s.join o).flags.get (bv jsonflags.c_AllowDuplicateNames) <;>
      by_cases h2 : s.flags.get (bv jsonflags.c_AllowInvalidUTF8) = (s.join o).flags.get (bv jsonflags.c_AllowInvalidUTF8) <;>
      script_simp [he, hnn, h1, h2]

theorem unmarshal_tail_empty (e : Env) (s : Struct) :
    runOn e (unmarshalDecodeS.drop 1) [] s = e.child s := by
  script_simp []

theorem call_unmarshal_closed (g : Bool) (opts : List Opt) (nn : Bool) (body : Act) (s : Struct) :
    exec g (.call false opts nn body) s =
      if (callOpts g opts).isEmpty then exec g body s
      else if nameGuardFails nn s (enterUnmarshal (callOpts g opts) s) then (s, .err true)
      else (s, (exec g body (enterUnmarshal (callOpts g opts) s)).2) := by
  have h0 : exec g (.call false opts nn body) s =
      runOn { globalFormatTag := g, needName := nn, child := exec g body } (unmarshalDecodeS.drop 1) (callOpts g opts) s := by
    cases g <;> simp [exec, runOn, run, unmarshalDecodeS, step, stepPrim, callOpts, List.all_nil]
  rw [h0]
  by_cases ho : callOpts g opts = []
  · rw [ho, unmarshal_tail_empty]; simp
  · rw [unmarshal_tail_nonempty _ _ _ ho]
    have he : (callOpts g opts).isEmpty = false := by cases h : callOpts g opts <;> simp_all
    simp only [he, Bool.false_eq_true, ↓reduceIte, enterUnmarshal]
    rfl

theorem marshal_tail_nonempty (e : Env) (o : List Opt) (s : Struct) (ho : o ≠ []) :
    runOn e (marshalEncodeS.drop 1) o s =
      if nameGuardFails e.needName s (s.join o) then (s, .err true)
      else if wsGuardFails o s then (s, .err true)
      else (s, (e.child (enterMarshal o s)).2) := by
  have he : o.isEmpty = false := by cases o <;> simp_all
  cases hw : (s.join o).flags.has (bv jsonflags.c_AnyWhitespace) <;>
  cases hm : (s.join o).flags.get (bv jsonflags.c_Multiline) <;>
  cases hnn : e.needName
  all_goals first
    | (cases hc : changedWhitespace s (s.join o) <;> cases hc' : changedWhitespace s (initializeMultiline (s.join o)) <;>
        script_simp [he, hnn, hw, hm, hc, hc', wsGuardFails]; done)
    | (cases hc : changedWhitespace s (s.join o) <;> cases hc' : changedWhitespace s (initializeMultiline (s.join o)) <;>
       by_cases h1 : s.flags.get (bv jsonflags.c_AllowDuplicateNames) = (s.join o).flags.get (bv jsonflags.c_AllowDuplicateNames) <;>
       by_cases h2 : s.flags.get (bv jsonflags.c_AllowInvalidUTF8) = (s.join o).flags.get (bv jsonflags.c_AllowInvalidUTF8) <;>
        script_simp [he, hnn, hw, hm, hc, hc', h1, h2, wsGuardFails])

theorem marshal_tail_empty (e : Env) (s : Struct) :
    runOn e (marshalEncodeS.drop 1) [] s = e.child s := by
  script_simp []

theorem call_marshal_closed (g : Bool) (opts : List Opt) (nn : Bool) (body : Act) (s : Struct) :
    exec g (.call true opts nn body) s =
      if (callOpts g opts).isEmpty then exec g body s
      else if nameGuardFails nn s (s.join (callOpts g opts)) then (s, .err true)
      else if wsGuardFails (callOpts g opts) s then (s, .err true)
      else (s, (exec g body (enterMarshal (callOpts g opts) s)).2) := by
  have h0 : exec g (.call true opts nn body) s =
      runOn { globalFormatTag := g, needName := nn, child := exec g body } (marshalEncodeS.drop 1) (callOpts g opts) s := by
    cases g <;> simp [exec, runOn, run, marshalEncodeS, step, stepPrim, callOpts, List.all_nil]
  rw [h0]
  by_cases ho : callOpts g opts = []
  · rw [ho, marshal_tail_empty]; simp
  · rw [marshal_tail_nonempty _ _ _ ho]
    have he : (callOpts g opts).isEmpty = false := by cases h : callOpts g opts <;> simp_all
    simp only [he, Bool.false_eq_true, ↓reduceIte]

/-! ### bit-level facts -/

theorem set_values_bit (fs : Flags) (f : BitVec 64) (i : Nat) :
    (fs.set f).values.getLsbD i = if f.getLsbD i && decide (i ≠ 0) then f.getLsbD 0 else fs.values.getLsbD i := by
  have hb := id_bit f i
  simp only [Flags.set]
  simp only [BitVec.getLsbD_or, BitVec.getLsbD_and, BitVec.getLsbD_not, getLsbD_ite, hb]
  cases hfi : f.getLsbD i <;> cases hf : f.getLsbD 0 <;> cases hv : fs.values.getLsbD i <;>
    by_cases h0 : i = 0 <;> simp [h0]
  all_goals (first | (intro h; exact BitVec.lt_of_getLsbD h) | exact BitVec.lt_of_getLsbD hfi | exact BitVec.lt_of_getLsbD hv | skip)

theorem clear_presence_bit (fs : Flags) (f : BitVec 64) (i : Nat) :
    (fs.clear f).presence.getLsbD i = (fs.presence.getLsbD i && !f.getLsbD i) := by
  simp only [Flags.clear, BitVec.getLsbD_and, BitVec.getLsbD_not]
  cases hp : fs.presence.getLsbD i <;> simp
  intro _; exact BitVec.lt_of_getLsbD hp

theorem clear_values_bit (fs : Flags) (f : BitVec 64) (i : Nat) :
    (fs.clear f).values.getLsbD i = (fs.values.getLsbD i && !f.getLsbD i) := by
  simp only [Flags.clear, BitVec.getLsbD_and, BitVec.getLsbD_not]
  cases hp : fs.values.getLsbD i <;> simp
  intro _; exact BitVec.lt_of_getLsbD hp

/-- bits of a 64-bit constant: decided for `i < 64`, false above -/
theorem bits_of_const (w : BitVec 64) (p : Nat → Bool) (h : ∀ i : Fin 64, w.getLsbD i.val = p i.val)
    (hp : ∀ i, 64 ≤ i → p i = false) (i : Nat) : w.getLsbD i = p i := by
  by_cases hi : i < 64
  · exact h ⟨i, hi⟩
  · rw [hp i (by omega)]
    cases hh : w.getLsbD i
    · rfl
    · exact absurd (BitVec.lt_of_getLsbD hh) hi

theorem bits_withinSet (i : Nat) : (bv (jsonflags.c_WithinArshalCall + 1)).getLsbD i = (decide (i = 0) || decide (i = 3)) :=
  bits_of_const _ (fun i => decide (i = 0) || decide (i = 3)) (by decide) (by intro i hi; simp; omega) i
theorem bits_within (i : Nat) : (bv jsonflags.c_WithinArshalCall).getLsbD i = decide (i = 3) :=
  bits_of_const _ (fun i => decide (i = 3)) (by decide) (by intro i hi; simp; omega) i
theorem bits_stringSet (i : Nat) : (bv (jsonflags.c_StringTag + 1)).getLsbD i = (decide (i = 0) || decide (i = 27)) :=
  bits_of_const _ (fun i => decide (i = 0) || decide (i = 27)) (by decide) (by intro i hi; simp; omega) i
theorem bits_formatSet (i : Nat) : (bv (jsonflags.c_FormatTag + 1)).getLsbD i = (decide (i = 0) || decide (i = 28)) :=
  bits_of_const _ (fun i => decide (i = 0) || decide (i = 28)) (by decide) (by intro i hi; simp; omega) i
theorem bits_tagFlags (i : Nat) : W.tagFlags.getLsbD i = (decide (i = 27) || decide (i = 28)) :=
  bits_of_const _ (fun i => decide (i = 27) || decide (i = 28)) (by decide) (by intro i hi; simp; omega) i
theorem bits_stringTag (i : Nat) : W.stringTag.getLsbD i = decide (i = 27) :=
  bits_of_const _ (fun i => decide (i = 27)) (by decide) (by intro i hi; simp; omega) i
theorem bits_formatTag (i : Nat) : W.formatTag.getLsbD i = decide (i = 28) :=
  bits_of_const _ (fun i => decide (i = 28)) (by decide) (by intro i hi; simp; omega) i

theorem clearKind_bits (k : ClearKind) (i : Nat) (h27 : i ≠ 27) (h28 : i ≠ 28) : k.word.getLsbD i = false := by
  cases k <;> simp [ClearKind.word, bits_tagFlags, bits_stringTag, bits_formatTag, h27, h28]

/-! ### the frame: what a callee can change in the option struct at all -/

/-- `s'` differs from `s` at most in: the presence bit of WithinArshalCall (3) may have been added, the tag flags
StringTag (27) / FormatTag (28) may have been cleared, `Format` may have been emptied. -/
structure Frame (s s' : Struct) : Prop where
  indent : s'.indent = s.indent
  indentPrefix : s'.indentPrefix = s.indentPrefix
  byteLimit : s'.byteLimit = s.byteLimit
  depthLimit : s'.depthLimit = s.depthLimit
  marshalers : s'.marshalers = s.marshalers
  unmarshalers : s'.unmarshalers = s.unmarshalers
  pres : ∀ i, i ≠ 3 → i ≠ 27 → i ≠ 28 → s'.flags.presence.getLsbD i = s.flags.presence.getLsbD i
  vals : ∀ i, i ≠ 27 → i ≠ 28 → s'.flags.values.getLsbD i = s.flags.values.getLsbD i
  tags : ∀ i, i = 27 ∨ i = 28 →
    (s'.flags.presence.getLsbD i = s.flags.presence.getLsbD i ∧ s'.flags.values.getLsbD i = s.flags.values.getLsbD i) ∨
    (s'.flags.presence.getLsbD i = false ∧ s'.flags.values.getLsbD i = false)
  within : s.flags.presence.getLsbD 3 = true → s'.flags.presence.getLsbD 3 = true
  format : s'.format = s.format ∨ s'.format = []

theorem Frame.refl (s : Struct) : Frame s s :=
  ⟨rfl, rfl, rfl, rfl, rfl, rfl, fun _ _ _ _ => rfl, fun _ _ _ => rfl, fun _ _ => .inl ⟨rfl, rfl⟩, id, .inl rfl⟩

theorem Frame.trans {a b c : Struct} (h1 : Frame a b) (h2 : Frame b c) : Frame a c := by
  refine ⟨h2.indent.trans h1.indent, h2.indentPrefix.trans h1.indentPrefix, h2.byteLimit.trans h1.byteLimit,
    h2.depthLimit.trans h1.depthLimit, h2.marshalers.trans h1.marshalers, h2.unmarshalers.trans h1.unmarshalers,
    fun i a b c => (h2.pres i a b c).trans (h1.pres i a b c), fun i a b => (h2.vals i a b).trans (h1.vals i a b),
    ?_, fun h => h2.within (h1.within h), ?_⟩
  · intro i hi
    rcases h2.tags i hi with ⟨p2, v2⟩ | ⟨p2, v2⟩
    · rcases h1.tags i hi with ⟨p1, v1⟩ | ⟨p1, v1⟩
      · exact .inl ⟨p2.trans p1, v2.trans v1⟩
      · exact .inr ⟨p2.trans p1, v2.trans v1⟩
    · exact .inr ⟨p2, v2⟩
  · rcases h2.format with f2 | f2
    · rcases h1.format with f1 | f1
      · exact .inl (f2.trans f1)
      · exact .inr (f2.trans f1)
    · exact .inr f2

theorem frame_clear (s : Struct) (k : ClearKind) : Frame s { s with flags := s.flags.clear k.word } := by
  refine ⟨rfl, rfl, rfl, rfl, rfl, rfl, ?_, ?_, ?_, ?_, .inl rfl⟩
  · intro i _ h27 h28; simp [clear_presence_bit, clearKind_bits k i h27 h28]
  · intro i h27 h28; simp [clear_values_bit, clearKind_bits k i h27 h28]
  · intro i _
    simp only [clear_presence_bit, clear_values_bit]
    cases hk : k.word.getLsbD i <;> simp
  · intro h; simp [clear_presence_bit, clearKind_bits k 3 (by decide) (by decide), h]

/-- `Flags.Set(WithinArshalCall | b)` only touches bit 3. -/
theorem frame_setWithin (s : Struct) (w : BitVec 64) (hw : ∀ i, i ≠ 0 → i ≠ 3 → w.getLsbD i = false)
    (hv : (s.flags.set w).values.getLsbD 3 = s.flags.values.getLsbD 3) :
    Frame s { s with flags := s.flags.set w } := by
  refine ⟨rfl, rfl, rfl, rfl, rfl, rfl, ?_, ?_, ?_, ?_, .inl rfl⟩
  · intro i h3 _ _
    by_cases h0 : i = 0
    · subst h0; rw [set_presence_bit]; simp
    · simp [set_presence_bit, hw i h0 h3]
  · intro i _ _
    by_cases h3 : i = 3
    · subst h3; exact hv
    · by_cases h0 : i = 0
      · subst h0; rw [set_values_bit]; simp
      · simp [set_values_bit, hw i h0 h3]
  · intro i hi
    have h0 : i ≠ 0 := by omega
    have h3 : i ≠ 3 := by omega
    exact .inl ⟨by simp [set_presence_bit, hw i h0 h3], by simp [set_values_bit, hw i h0 h3]⟩
  · intro h; simp [set_presence_bit, h]

theorem tagged_nonflag (str : Bool) (fmt : Bytes) (s : Struct) :
    (tagged str fmt s).indent = s.indent ∧ (tagged str fmt s).indentPrefix = s.indentPrefix ∧
    (tagged str fmt s).byteLimit = s.byteLimit ∧ (tagged str fmt s).depthLimit = s.depthLimit ∧
    (tagged str fmt s).marshalers = s.marshalers ∧ (tagged str fmt s).unmarshalers = s.unmarshalers := by
  cases str <;> by_cases hf : fmt = [] <;> simp [tagged, hf]

/-- WithinArshalCall: the value after the wrapper is the value before it (fix 0821077). -/
theorem get_within (fs : Flags) : fs.get (bv jsonflags.c_WithinArshalCall) = fs.values.getLsbD 3 := by
  have : bv jsonflags.c_WithinArshalCall = flagBit 3 := by decide
  rw [this]; exact get_bit fs 3 (by decide)

/-- Whatever the callee is and however it and its own callees fail, the option struct afterwards is within the frame. -/
theorem exec_frame (g : Bool) (a : Act) : ∀ s, Frame s (exec g a s).1 := by
  induction a with
  | skip => intro s; exact Frame.refl s
  | fail f => intro s; exact Frame.refl s
  | clear k => intro s; exact frame_clear s k
  | seq a b iha ihb =>
    intro s
    simp only [exec, seqResult]
    split
    · exact iha s
    · exact (iha s).trans (ihb _)
  | user body ih =>
    intro s
    rw [user_closed]
    have hset : Frame s { s with flags := s.flags.set (bv (jsonflags.c_WithinArshalCall + 1)) } → True := fun _ => trivial
    -- the value bit 3 is forced to true, run, then put back
    have hv1 : ∀ i, i ≠ 0 → i ≠ 3 → (bv (jsonflags.c_WithinArshalCall + 1)).getLsbD i = false := by
      intro i h0 h3; simp [bits_withinSet, h0, h3]
    have hv0 : ∀ i, i ≠ 0 → i ≠ 3 → (bv jsonflags.c_WithinArshalCall).getLsbD i = false := by
      intro i _ h3; simp [bits_within, h3]
    let s1 : Struct := { s with flags := s.flags.set (bv (jsonflags.c_WithinArshalCall + 1)) }
    have ih1 := ih s1
    have hs1v : s1.flags.values.getLsbD 3 = true := by
      show (s.flags.set _).values.getLsbD 3 = true
      rw [set_values_bit]; simp [bits_withinSet]
    have hs1p : s1.flags.presence.getLsbD 3 = true := by
      show (s.flags.set _).presence.getLsbD 3 = true
      rw [set_presence_bit]; simp [bits_withinSet]
    have hr3 : (exec g body s1).1.flags.values.getLsbD 3 = true := (ih1.vals 3 (by decide) (by decide)).trans hs1v
    have hrp3 : (exec g body s1).1.flags.presence.getLsbD 3 = true := ih1.within hs1p
    -- frame from s to s1 except that value bit 3 may differ: assemble directly
    have hs1 : ∀ i, i ≠ 3 → s1.flags.values.getLsbD i = s.flags.values.getLsbD i := by
      intro i h3
      show (s.flags.set _).values.getLsbD i = _
      rw [set_values_bit]
      by_cases h0 : i = 0
      · subst h0; simp
      · simp [hv1 i h0 h3]
    have hs1pres : ∀ i, i ≠ 3 → s1.flags.presence.getLsbD i = s.flags.presence.getLsbD i := by
      intro i h3
      show (s.flags.set _).presence.getLsbD i = _
      rw [set_presence_bit]
      by_cases h0 : i = 0
      · subst h0; simp
      · simp [hv1 i h0 h3]
    cases hsv : s.flags.get (bv jsonflags.c_WithinArshalCall)
    · -- the outermost user call: reset to false
      have hs3 : s.flags.values.getLsbD 3 = false := by rw [← get_within]; exact hsv
      simp only [Bool.false_eq_true, ↓reduceIte]
      refine ⟨ih1.indent, ih1.indentPrefix, ih1.byteLimit, ih1.depthLimit, ih1.marshalers, ih1.unmarshalers, ?_, ?_, ?_, ?_, ih1.format⟩
      · intro i h3 h27 h28
        show ((exec g body s1).1.flags.set _).presence.getLsbD i = _
        rw [set_presence_bit]
        by_cases h0 : i = 0
        · subst h0; simp; exact (ih1.pres 0 (by decide) (by decide) (by decide)).trans (hs1pres 0 (by decide))
        · simp [hv0 i h0 h3]; exact (ih1.pres i h3 h27 h28).trans (hs1pres i h3)
      · intro i h27 h28
        show ((exec g body s1).1.flags.set _).values.getLsbD i = _
        by_cases h3 : i = 3
        · subst h3; rw [set_values_bit, hs3, bits_within 3, bits_within 0]; simp
        rw [set_values_bit]
        by_cases h3' : i = 3
        · exact absurd h3' h3
        · by_cases h0 : i = 0
          · subst h0; simp; exact (ih1.vals 0 (by decide) (by decide)).trans (hs1 0 (by decide))
          · simp [hv0 i h0 h3]; exact (ih1.vals i h27 h28).trans (hs1 i h3)
      · intro i hi
        have h0 : i ≠ 0 := by omega
        have h3 : i ≠ 3 := by omega
        have hp : ((exec g body s1).1.flags.set (bv jsonflags.c_WithinArshalCall)).presence.getLsbD i = (exec g body s1).1.flags.presence.getLsbD i := by
          rw [set_presence_bit]; simp [hv0 i h0 h3]
        have hvv : ((exec g body s1).1.flags.set (bv jsonflags.c_WithinArshalCall)).values.getLsbD i = (exec g body s1).1.flags.values.getLsbD i := by
          rw [set_values_bit]; simp [hv0 i h0 h3]
        show (_ ∧ _) ∨ (_ ∧ _)
        rcases ih1.tags i hi with ⟨p, v⟩ | ⟨p, v⟩
        · exact .inl ⟨hp.trans (p.trans (hs1pres i h3)), hvv.trans (v.trans (hs1 i h3))⟩
        · exact .inr ⟨hp.trans p, hvv.trans v⟩
      · intro _
        show ((exec g body s1).1.flags.set _).presence.getLsbD 3 = true
        rw [set_presence_bit]; simp [hrp3]
    · -- nested user call: the flag stays set
      have hs3 : s.flags.values.getLsbD 3 = true := by rw [← get_within]; exact hsv
      simp only [↓reduceIte]
      refine ⟨ih1.indent, ih1.indentPrefix, ih1.byteLimit, ih1.depthLimit, ih1.marshalers, ih1.unmarshalers, ?_, ?_, ?_, ?_, ih1.format⟩
      · intro i h3 h27 h28; exact (ih1.pres i h3 h27 h28).trans (hs1pres i h3)
      · intro i h27 h28
        by_cases h3 : i = 3
        · subst h3; exact hr3.trans hs3.symm
        · exact (ih1.vals i h27 h28).trans (hs1 i h3)
      · intro i hi
        have h3 : i ≠ 3 := by omega
        rcases ih1.tags i hi with ⟨p, v⟩ | ⟨p, v⟩
        · exact .inl ⟨p.trans (hs1pres i h3), v.trans (hs1 i h3)⟩
        · exact .inr ⟨p, v⟩
      · intro _; exact hrp3
  | member mar str fmt body ih =>
    intro s
    rw [member_closed]
    have ih1 := ih (tagged str fmt s)
    obtain ⟨t1, t2, t3, t4, t5, t6⟩ := tagged_nonflag str fmt s
    exact ⟨ih1.indent.trans t1, ih1.indentPrefix.trans t2, ih1.byteLimit.trans t3, ih1.depthLimit.trans t4,
      ih1.marshalers.trans t5, ih1.unmarshalers.trans t6, fun _ _ _ _ => rfl, fun _ _ _ => rfl,
      fun _ _ => .inl ⟨rfl, rfl⟩, id, .inr rfl⟩
  | call mar opts nn body ih =>
    intro s
    cases mar
    · rw [call_unmarshal_closed]
      split
      · exact ih s
      · split <;> exact Frame.refl s
    · rw [call_marshal_closed]
      split
      · exact ih s
      · split
        · exact Frame.refl s
        · split <;> exact Frame.refl s

/-! ### coders without tag flags (every coder built from public options) -/

/-- No `string`/`format` tag state in the struct: true of every coder constructed from public options
(`newCoder_tagFree`); the tag flags are internal and only set while a struct member is being processed. -/
def TagFree (s : Struct) : Prop :=
  s.flags.presence.getLsbD 27 = false ∧ s.flags.presence.getLsbD 28 = false ∧
  s.flags.values.getLsbD 27 = false ∧ s.flags.values.getLsbD 28 = false ∧ s.format = []

instance (s : Struct) : Decidable (TagFree s) := by unfold TagFree; infer_instance

theorem within_bits (i : Nat) : W.withinArshalCall.getLsbD i = decide (i = 3) := bits_within i

/-- Within the frame and without tag state: only the presence bit of WithinArshalCall can differ. -/
theorem intact_of_frame {s s' : Struct} (h : Frame s s') (ht : TagFree s) :
    s'.flags.values = s.flags.values ∧
    (s'.flags.presence = s.flags.presence ∨ s'.flags.presence = s.flags.presence ||| W.withinArshalCall) ∧
    s'.indent = s.indent ∧ s'.indentPrefix = s.indentPrefix ∧ s'.byteLimit = s.byteLimit ∧ s'.depthLimit = s.depthLimit ∧
    s'.marshalers = s.marshalers ∧ s'.unmarshalers = s.unmarshalers ∧ s'.format = s.format := by
  obtain ⟨p27, p28, v27, v28, hf⟩ := ht
  have tag27 := h.tags 27 (.inl rfl)
  have tag28 := h.tags 28 (.inr rfl)
  have hp27 : s'.flags.presence.getLsbD 27 = false := by rcases tag27 with ⟨a, _⟩ | ⟨a, _⟩ <;> simp_all
  have hp28 : s'.flags.presence.getLsbD 28 = false := by rcases tag28 with ⟨a, _⟩ | ⟨a, _⟩ <;> simp_all
  have hv27 : s'.flags.values.getLsbD 27 = false := by rcases tag27 with ⟨_, a⟩ | ⟨_, a⟩ <;> simp_all
  have hv28 : s'.flags.values.getLsbD 28 = false := by rcases tag28 with ⟨_, a⟩ | ⟨_, a⟩ <;> simp_all
  refine ⟨?_, ?_, h.indent, h.indentPrefix, h.byteLimit, h.depthLimit, h.marshalers, h.unmarshalers, ?_⟩
  · apply BitVec.eq_of_getLsbD_eq; intro i _
    by_cases h27 : i = 27
    · subst h27; rw [hv27, v27]
    · by_cases h28 : i = 28
      · subst h28; rw [hv28, v28]
      · exact h.vals i h27 h28
  · have hrest : ∀ i, i ≠ 3 → s'.flags.presence.getLsbD i = s.flags.presence.getLsbD i := by
      intro i h3
      by_cases h27 : i = 27
      · subst h27; rw [hp27, p27]
      · by_cases h28 : i = 28
        · subst h28; rw [hp28, p28]
        · exact h.pres i h3 h27 h28
    cases hs3 : s.flags.presence.getLsbD 3
    · cases hs3' : s'.flags.presence.getLsbD 3
      · left; apply BitVec.eq_of_getLsbD_eq; intro i _
        by_cases h3 : i = 3
        · subst h3; rw [hs3, hs3']
        · exact hrest i h3
      · right; apply BitVec.eq_of_getLsbD_eq; intro i _
        rw [BitVec.getLsbD_or, within_bits]
        by_cases h3 : i = 3
        · subst h3; simp [hs3']
        · simp [h3, hrest i h3]
    · left; apply BitVec.eq_of_getLsbD_eq; intro i _
      by_cases h3 : i = 3
      · subst h3; rw [hs3, h.within hs3]
      · exact hrest i h3
  · rcases h.format with f | f
    · exact f
    · rw [f, hf]

end JsonV.Lemmas.ScopeL
