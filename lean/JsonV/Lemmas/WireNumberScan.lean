/-
The number scanner of Model/WireDecode.lean, label by label, against the DFA of WireNumber.lean.
`Good s r m e`: starting in DFA state `s` on input `r`, answering "`m` bytes, class `e`" is right.
-/
import JsonV.Lemmas.WireNumber

namespace JsonV.Lemmas.WireNumber
open JsonV JsonV.Model.Wire JsonV.Spec.Grammar

/-- the DFA cannot take the next byte (or there is none) -/
def Stops (s : St) (r : Bytes) : Prop :=
  match r with
  | [] => True
  | c :: _ => δ s c = .dead

def Good (s : St) (r : Bytes) (m : Nat) (e : Err) : Prop :=
  match e with
  | .ok => m ≤ r.length ∧ acc (run s (r.take m)) = true ∧ Stops (run s (r.take m)) (r.drop m)
  | .eof => run s r ≠ .dead ∧ acc (run s r) = false
  | .invalidChar => m < r.length ∧ run s (r.take m) ≠ .dead ∧ acc (run s (r.take m)) = false ∧
      Stops (run s (r.take m)) (r.drop m)
  | _ => False

theorem good_cons (s : St) (c : UInt8) (r : Bytes) (m : Nat) (e : Err) (h : Good (δ s c) r m e) :
    Good s (c :: r) (m + 1) e := by
  cases e <;> simp_all [Good, run]

theorem good_cons_eof (s : St) (c : UInt8) (r : Bytes) (m m' : Nat) (h : Good (δ s c) r m .eof) :
    Good s (c :: r) m' .eof := by
  simp_all [Good, run]

theorem good_ok_here (s : St) (r : Bytes) (ha : acc s = true) (hst : Stops s r) : Good s r 0 .ok := by
  simp [Good, run, ha, hst]

theorem good_eof_here (s : St) (r : Bytes) (m : Nat) (h1 : run s r ≠ .dead) (h2 : acc (run s r) = false) :
    Good s r m .eof := ⟨h1, h2⟩

theorem good_inv_here (s : St) (c : UInt8) (r : Bytes) (h1 : s ≠ .dead) (h2 : acc s = false) (h3 : δ s c = .dead) :
    Good s (c :: r) 0 .invalidChar := by
  simp [Good, run, h1, h2, Stops, h3]

theorem good_shift (s s' : St) (r : Bytes) (k m : Nat) (e : Err) (hrun : run s (r.take k) = s') (hk : k ≤ r.length)
    (h : Good s' (r.drop k) m e) : Good s r (k + m) e := by
  have htake : r.take (k + m) = r.take k ++ (r.drop k).take m := by rw [List.take_add]
  have hdrop : r.drop (k + m) = (r.drop k).drop m := by rw [List.drop_drop]
  have hall : run s r = run s' (r.drop k) := by
    conv => lhs; rw [← List.take_append_drop k r]
    rw [run_append, hrun]
  cases e <;> simp_all [Good, run_append] <;> omega

theorem digitRun_spec (s : St) (hs : s = .int ∨ s = .frac ∨ s = .exp) (r : Bytes) :
    run s (r.take (digitRun r)) = s ∧ digitRun r ≤ r.length ∧
      ∀ c r', r.drop (digitRun r) = c :: r' → isDigit c = false := by
  induction r with
  | nil => simp [digitRun, run]
  | cons c r ih =>
    simp only [digitRun]
    by_cases hc : isDigit c = true
    · have hδ : δ s c = s := by
        have hc' := hc
        rw [cls_digit] at hc'
        unfold δ; generalize cls c = k at hc'
        rcases hs with rfl | rfl | rfl <;> cases k <;> simp_all [step]
      simp only [hc, if_true, List.take_succ_cons, run, hδ, List.drop_succ_cons, List.length_cons]
      exact ⟨ih.1, by omega, ih.2.2⟩
    · simp only [hc, Bool.false_eq_true, if_false, List.take_zero, run, List.drop_zero, List.length_cons, true_and]
      refine ⟨by omega, ?_⟩
      intro c' r' h
      simp only [List.cons.injEq] at h
      rw [← h.1]; simpa using hc

theorem good_digits_exp (r : Bytes) : Good .exp r (digitRun r) .ok := by
  obtain ⟨h1, h2, h3⟩ := digitRun_spec .exp (by simp) r
  refine ⟨h2, by rw [h1]; rfl, ?_⟩
  rw [h1]
  cases hd : r.drop (digitRun r) with
  | nil => trivial
  | cons c r' =>
    have hc := h3 c r' hd
    rw [cls_digit] at hc
    show δ .exp c = .dead
    unfold δ; generalize cls c = k at hc
    cases k <;> simp_all [step]

/-- label `beforeExponent` -/
theorem good_exponent (st : Nat) (s : St) (hs : s = .zero ∨ s = .int ∨ s = .frac) (r : Bytes)
    (hhead : ∀ c r', r = c :: r' → (s ≠ .zero → isDigit c = false) ∧ (s ≠ .frac → (c == 0x2E) = false)) :
    Good s r (numExponent st r).1 (numExponent st r).2.2 := by
  have hacc : acc s = true := by rcases hs with rfl | rfl | rfl <;> rfl
  cases r with
  | nil => simp only [numExponent]; exact good_ok_here s [] hacc trivial
  | cons c r1 =>
    obtain ⟨hh1, hh2⟩ := hhead c r1 rfl
    by_cases hE : (c == 0x65 || c == 0x45) = true
    · have hδ : δ s c = .e := by
        have hE' := hE
        rw [cls_e] at hE'
        unfold δ; generalize cls c = k at hE'
        rcases hs with rfl | rfl | rfl <;> cases k <;> simp_all [step]
      cases r1 with
      | nil =>
        simp only [numExponent, hE, if_true, List.drop_nil]
        exact good_eof_here _ _ _ (by simp [run, hδ]) (by simp [run, hδ, acc])
      | cons d r2 =>
        by_cases hS : (d == 0x2D || d == 0x2B) = true
        · have hδ2 : δ .e d = .esign := by
            have hS' := hS
            rw [cls_minus, cls_plus] at hS'
            unfold δ; generalize cls d = k at hS'
            cases k <;> simp_all [step]
          cases r2 with
          | nil =>
            simp only [numExponent, hE, hS, if_true, List.drop_succ_cons, List.drop_zero]
            exact good_eof_here _ _ _ (by simp [run, hδ, hδ2]) (by simp [run, hδ, hδ2, acc])
          | cons d2 r3 =>
            by_cases hD : isDigit d2 = true
            · have hδ3 : δ .esign d2 = .exp := by
                have hD' := hD
                rw [cls_digit] at hD'
                unfold δ; generalize cls d2 = k at hD'
                cases k <;> simp_all [step]
              simp only [numExponent, hE, hS, hD, if_true, List.drop_succ_cons, List.drop_zero]
              have : 1 + 1 + 1 + digitRun r3 = digitRun r3 + 1 + 1 + 1 := by omega
              rw [this]
              apply good_cons; rw [hδ]
              apply good_cons; rw [hδ2]
              apply good_cons; rw [hδ3]
              exact good_digits_exp r3
            · have hδ3 : δ .esign d2 = .dead := by
                have hD' := hD
                rw [cls_digit] at hD'
                unfold δ; generalize cls d2 = k at hD'
                cases k <;> simp_all [step]
              simp only [numExponent, hE, hS, hD, if_true, List.drop_succ_cons, List.drop_zero, Bool.false_eq_true, if_false]
              have : 1 + 1 = 0 + 1 + 1 := by omega
              rw [this]
              apply good_cons; rw [hδ]
              apply good_cons; rw [hδ2]
              exact good_inv_here _ _ _ (by decide) (by decide) hδ3
        · by_cases hD : isDigit d = true
          · have hδ2 : δ .e d = .exp := by
              have hD' := hD
              rw [cls_digit] at hD'
              unfold δ; generalize cls d = k at hD'
              cases k <;> simp_all [step]
            simp only [numExponent, hE, hS, hD, if_true, List.drop_zero, Bool.false_eq_true, if_false]
            have : 1 + 0 + 1 + digitRun r2 = digitRun r2 + 1 + 1 := by omega
            rw [this]
            apply good_cons; rw [hδ]
            apply good_cons; rw [hδ2]
            exact good_digits_exp r2
          · have hδ2 : δ .e d = .dead := by
              have hD' := hD
              have hS' := hS
              rw [cls_digit] at hD'
              rw [cls_minus, cls_plus] at hS'
              unfold δ; generalize cls d = k at hD' hS'
              cases k <;> simp_all [step]
            simp only [numExponent, hE, hS, hD, if_true, List.drop_zero, Bool.false_eq_true, if_false]
            have : 1 + 0 = 0 + 1 := by omega
            rw [this]
            apply good_cons; rw [hδ]
            exact good_inv_here _ _ _ (by decide) (by decide) hδ2
    · simp only [numExponent, hE, Bool.false_eq_true, if_false]
      apply good_ok_here s _ hacc
      show δ s c = .dead
      have hE' := hE
      rw [cls_e] at hE'
      have hdg := cls_digit c
      have hdot := cls_dot c
      unfold δ; generalize cls c = k at hE' hdg hdot
      rcases hs with rfl | rfl | rfl <;> cases k <;> simp_all [step]

/-- label `beforeFractional` -/
theorem good_fractional (st : Nat) (s : St) (hs : s = .zero ∨ s = .int) (r : Bytes)
    (hhead : s = .int → ∀ c r', r = c :: r' → isDigit c = false) :
    Good s r (numFractional st r).1 (numFractional st r).2.2 := by
  have hs3 : s = .zero ∨ s = .int ∨ s = .frac := by rcases hs with rfl | rfl <;> simp
  cases r with
  | nil =>
    simp only [numFractional]
    exact good_exponent st s hs3 [] (by intro c r' h; cases h)
  | cons c r1 =>
    by_cases hdot : (c == 0x2E) = true
    · have hδ : δ s c = .dot := by
        have h' := hdot
        rw [cls_dot] at h'
        unfold δ; generalize cls c = k at h'
        rcases hs with rfl | rfl <;> cases k <;> simp_all [step]
      cases r1 with
      | nil =>
        simp only [numFractional, hdot, if_true]
        exact good_eof_here _ _ _ (by simp [run, hδ]) (by simp [run, hδ, acc])
      | cons d r2 =>
        by_cases hD : isDigit d = true
        · have hδ2 : δ .dot d = .frac := by
            have hD' := hD
            rw [cls_digit] at hD'
            unfold δ; generalize cls d = k at hD'
            cases k <;> simp_all [step]
          obtain ⟨g1, g2, g3⟩ := digitRun_spec .frac (by simp) r2
          have hexp := good_exponent stWithinFractionalDigits .frac (by simp) (r2.drop (digitRun r2))
            (by intro c' r' h; exact ⟨fun _ => g3 c' r' h, fun h' => absurd rfl h'⟩)
          rcases hx : numExponent stWithinFractionalDigits (r2.drop (digitRun r2)) with ⟨m, st', e⟩
          rw [hx] at hexp
          simp only [numFractional, hdot, hD, if_true, hx]
          have harith : 2 + digitRun r2 + m = digitRun r2 + m + 1 + 1 := by omega
          rw [harith]
          apply good_cons; rw [hδ]
          apply good_cons; rw [hδ2]
          exact good_shift .frac .frac r2 (digitRun r2) m e g1 g2 hexp
        · have hδ2 : δ .dot d = .dead := by
            have hD' := hD
            rw [cls_digit] at hD'
            unfold δ; generalize cls d = k at hD'
            cases k <;> simp_all [step]
          simp only [numFractional, hdot, hD, if_true, Bool.false_eq_true, if_false]
          have : (1 : Nat) = 0 + 1 := by omega
          rw [this]
          apply good_cons; rw [hδ]
          exact good_inv_here _ _ _ (by decide) (by decide) hδ2
    · simp only [numFractional, hdot, Bool.false_eq_true, if_false]
      apply good_exponent st s hs3
      intro c' r' h
      simp only [List.cons.injEq] at h
      obtain ⟨rfl, rfl⟩ := h
      refine ⟨fun hz => ?_, fun _ => by simpa using hdot⟩
      rcases hs with rfl | rfl
      · exact absurd rfl hz
      · exact hhead rfl _ _ rfl

/-- what follows the (optional) minus sign: label `beforeInteger` after `n1` is fixed -/
theorem good_intpart (st : Nat) (s : St) (hs : s = .start ∨ s = .minus) (r : Bytes) (n1 : Nat) (c : UInt8) (r1 : Bytes)
    (hr : r = c :: r1) (hnm : s = .start → (c == 0x2D) = false) :
    let res : Nat × Nat × Err :=
      if c == 0x30 then
        let (m, st', e) := numFractional stBeforeFractionalDigits r1
        (n1 + 1 + m, st', e)
      else if isDigit19 c then
        let k := digitRun r1
        let (m, st', e) := numFractional stWithinIntegerDigits (r1.drop k)
        (n1 + 1 + k + m, st', e)
      else (n1, st, .invalidChar)
    Good s r (res.1 - n1) res.2.2 := by
  subst hr
  intro res
  by_cases hz : (c == 0x30) = true
  · have hδ : δ s c = .zero := by
      have h' := hz
      rw [cls_zero] at h'
      unfold δ; generalize cls c = k at h'
      rcases hs with rfl | rfl <;> cases k <;> simp_all [step]
    have hf := good_fractional stBeforeFractionalDigits .zero (by simp) r1 (by intro h; cases h)
    rcases hx : numFractional stBeforeFractionalDigits r1 with ⟨m, st', e⟩
    rw [hx] at hf
    have : res = (n1 + 1 + m, st', e) := by simp only [res, hz, if_true, hx]
    rw [this]
    have : n1 + 1 + m - n1 = m + 1 := by omega
    simp only [this]
    apply good_cons; rw [hδ]; exact hf
  · by_cases h19 : isDigit19 c = true
    · have hδ : δ s c = .int := by
        have h' := h19
        rw [cls_d19] at h'
        unfold δ; generalize cls c = k at h'
        rcases hs with rfl | rfl <;> cases k <;> simp_all [step]
      obtain ⟨g1, g2, g3⟩ := digitRun_spec .int (by simp) r1
      have hf := good_fractional stWithinIntegerDigits .int (by simp) (r1.drop (digitRun r1)) (fun _ => g3)
      rcases hx : numFractional stWithinIntegerDigits (r1.drop (digitRun r1)) with ⟨m, st', e⟩
      rw [hx] at hf
      have : res = (n1 + 1 + digitRun r1 + m, st', e) := by
        simp only [res, hz, h19, if_true, hx, Bool.false_eq_true, if_false]
      rw [this]
      have : n1 + 1 + digitRun r1 + m - n1 = digitRun r1 + m + 1 := by omega
      simp only [this]
      apply good_cons; rw [hδ]
      exact good_shift .int .int r1 (digitRun r1) m e g1 g2 hf
    · have : res = (n1, st, .invalidChar) := by
        simp only [res, hz, h19, Bool.false_eq_true, if_false]
      rw [this]
      simp only [Nat.sub_self]
      have hδ : δ s c = .dead := by
        have h1 := hz
        have h2 := h19
        rw [cls_zero] at h1
        rw [cls_d19] at h2
        have hm := cls_minus c
        unfold δ; generalize cls c = k at h1 h2 hm hnm
        rcases hs with rfl | rfl <;> cases k <;> simp_all [step]
      exact good_inv_here s c r1 (by rcases hs with rfl | rfl <;> decide) (by rcases hs with rfl | rfl <;> rfl) hδ

theorem consumeNumber_eq (b : Bytes) :
    consumeNumber b = ((numInteger stInit b 0).1, (numInteger stInit b 0).2.2) := by
  simp [consumeNumber, consumeNumberResumable, stInit]

/-- The scanner's answer is right, in DFA terms. -/
theorem good_consumeNumber (b : Bytes) : Good .start b (consumeNumber b).1 (consumeNumber b).2 := by
  rw [consumeNumber_eq]
  cases b with
  | nil =>
    simp only [numInteger, List.drop_nil]
    exact good_eof_here _ _ _ (by simp [run]) (by simp [run, acc])
  | cons c r =>
    by_cases hm : (c == 0x2D) = true
    · have hδ : δ .start c = .minus := by
        have h' := hm
        rw [cls_minus] at h'
        unfold δ; generalize cls c = k at h'
        cases k <;> simp_all [step]
      cases r with
      | nil =>
        simp only [numInteger, hm, if_true, List.drop_succ_cons, List.drop_nil, Nat.zero_add]
        exact good_eof_here _ _ _ (by simp [run, hδ]) (by simp [run, hδ, acc])
      | cons c2 r2 =>
        have key := good_intpart stInit .minus (by simp) (c2 :: r2) 1 c2 r2 rfl (by intro h; cases h)
        simp only [numInteger, hm, if_true, List.drop_succ_cons, Nat.zero_add, List.drop_zero]
        simp only at key
        generalize hres : (if (c2 == 0x30) = true then
            match numFractional stBeforeFractionalDigits r2 with
            | (m, st', e) => (1 + 1 + m, st', e)
          else if isDigit19 c2 = true then
            match numFractional stWithinIntegerDigits (List.drop (digitRun r2) r2) with
            | (m, st', e) => (1 + 1 + digitRun r2 + m, st', e)
          else (1, stInit, Err.invalidChar)) = res at key ⊢
        have hle : 1 ≤ res.1 := by
          rw [← hres]; split
          · split; simp; omega
          · split
            · split; simp; omega
            · simp
        have : res.1 = (res.1 - 1) + 1 := by omega
        rw [this]
        apply good_cons; rw [hδ]; exact key
    · have key := good_intpart stInit .start (by simp) (c :: r) 0 c r rfl (by intro _; simpa using hm)
      simp only [numInteger, hm, Bool.false_eq_true, if_false, List.drop_zero]
      simpa using key

end JsonV.Lemmas.WireNumber

namespace JsonV.Lemmas.WireNumber
open JsonV JsonV.Model.Wire JsonV.Spec.Grammar

theorem take_succ_of_drop (b : Bytes) (n : Nat) (c : UInt8) (r : Bytes) (h : b.drop n = c :: r) :
    b.take (n + 1) = b.take n ++ [c] := by
  have : b[n]? = some c := by
    have := List.getElem?_drop (xs := b) (i := n) (j := 0)
    rw [h] at this
    simpa using this.symm
  rw [List.take_add_one, this]; rfl

theorem dead_next (s : St) (b : Bytes) (n : Nat) (h : Stops (run s (b.take n)) (b.drop n)) (hn : n < b.length) :
    run s (b.take (n + 1)) = .dead := by
  cases hd : b.drop n with
  | nil => rw [List.drop_eq_nil_iff] at hd; omega
  | cons c r =>
    rw [hd] at h
    rw [take_succ_of_drop b n c r hd, run_append]
    exact h

theorem live_whole (s : St) (b : Bytes) (n : Nat) (h : run s b ≠ .dead) : run s (b.take n) ≠ .dead := by
  have : b = b.take n ++ b.drop n := (List.take_append_drop n b).symm
  rw [this] at h
  exact live_of_append _ _ _ h

/-- at most one answer is `Good` (and it is `ok`) once some cut is accepting and maximal -/
theorem scan_unique (b : Bytes) (n : Nat) (hn : n ≤ b.length) (hacc : acc (run .start (b.take n)) = true)
    (hstop : n = b.length ∨ run .start (b.take (n + 1)) = .dead) (m : Nat) (e : Err) (hg : Good .start b m e) :
    e = .ok ∧ m = n := by
  have hlive := acc_live _ hacc
  cases e
  case ok =>
    obtain ⟨h1, h2, h3⟩ := hg
    refine ⟨rfl, ?_⟩
    rcases Nat.lt_trichotomy n m with h | h | h
    · rcases hstop with hs | hs
      · omega
      · exact absurd hs (live_take _ b (n + 1) m h (acc_live _ h2))
    · exact h.symm
    · have := dead_next .start b m h3 (by omega)
      exact absurd this (live_take _ b (m + 1) n h hlive)
  case eof =>
    obtain ⟨h1, h2⟩ := hg
    rcases hstop with hs | hs
    · rw [hs, List.take_length] at hacc
      rw [hacc] at h2; exact absurd h2 (by decide)
    · exact absurd hs (live_whole _ b _ h1)
  case invalidChar =>
    obtain ⟨h1, h2, h3, h4⟩ := hg
    rcases Nat.lt_trichotomy n m with h | h | h
    · rcases hstop with hs | hs
      · omega
      · exact absurd hs (live_take _ b (n + 1) m h h2)
    · subst h; rw [hacc] at h3; exact absurd h3 (by decide)
    · have := dead_next .start b m h4 h1
      exact absurd this (live_take _ b (m + 1) n h hlive)
  all_goals exact absurd hg (by simp [Good])

theorem good_class (s : St) (b : Bytes) (m : Nat) (e : Err) (h : Good s b m e) : e = .ok ∨ e = .eof ∨ e = .invalidChar := by
  cases e <;> simp_all [Good]

end JsonV.Lemmas.WireNumber

namespace JsonV.Lemmas.WireNumber
open JsonV JsonV.Model.Wire JsonV.Spec.Grammar

theorem frac_stop (st : Nat) (rest : Bytes)
    (h : ∀ d r, rest = d :: r → (d != 0x2E && d != 0x65 && d != 0x45) = true) :
    numFractional st rest = (0, st, .ok) := by
  cases rest with
  | nil => simp [numFractional, numExponent]
  | cons d r =>
    have := h d r rfl
    simp only [Bool.and_eq_true, bne_iff_ne, ne_eq] at this
    obtain ⟨⟨h1, h2⟩, h3⟩ := this
    simp [numFractional, numExponent, h1, h2, h3]

/-- the tail test of ConsumeSimpleNumber -/
theorem simple_fin (n : Nat) (rest : Bytes) (h : simpleNumberFin n rest ≠ 0) :
    simpleNumberFin n rest = n ∧ ∀ d r, rest = d :: r → (d != 0x2E && d != 0x65 && d != 0x45) = true := by
  cases rest with
  | nil => exact ⟨rfl, by intro d r h; cases h⟩
  | cons d r =>
    by_cases hc : (d != 0x2E && d != 0x65 && d != 0x45) = true
    · refine ⟨by simp [simpleNumberFin, hc], ?_⟩
      intro d' r' h'
      simp only [List.cons.injEq] at h'
      rw [← h'.1]; exact hc
    · simp [simpleNumberFin, hc] at h

theorem simple_number_sound' (b : Bytes) (hpos : consumeSimpleNumber b ≠ 0) :
    consumeNumber b = (consumeSimpleNumber b, .ok) := by
  rw [consumeNumber_eq]
  cases b with
  | nil => simp [consumeSimpleNumber] at hpos
  | cons c r =>
    by_cases hz : (c == 0x30) = true
    · have hc : c = 0x30 := by simpa using hz
      subst hc
      simp only [consumeSimpleNumber, beq_self_eq_true, if_true] at hpos ⊢
      obtain ⟨hval, hfin⟩ := simple_fin 1 r hpos
      rw [hval]
      have : ((0x30 : UInt8) == 0x2D) = false := by decide
      simp [numInteger, this, frac_stop _ r hfin]
    · by_cases h19 : isDigit19 c = true
      · have hm : (c == 0x2D) = false := by
          have h' := h19
          rw [cls_d19] at h'
          rw [cls_minus]
          generalize cls c = k at h'
          cases k <;> simp_all
        simp only [consumeSimpleNumber, hz, h19, if_true, Bool.false_eq_true, if_false] at hpos ⊢
        obtain ⟨hval, hfin⟩ := simple_fin (1 + digitRun r) (r.drop (digitRun r)) hpos
        rw [hval]
        simp [numInteger, hm, hz, h19, frac_stop _ _ hfin]
      · simp [consumeSimpleNumber, hz, h19] at hpos

/-- the invalid-character answer is determined by the DFA as well -/
theorem scan_invalid_unique (b : Bytes) (n : Nat) (hn : n < b.length) (hlive : run .start (b.take n) ≠ .dead)
    (hnacc : acc (run .start (b.take n)) = false) (hdead : run .start (b.take (n + 1)) = .dead)
    (m : Nat) (e : Err) (hg : Good .start b m e) : e = .invalidChar ∧ m = n := by
  cases e
  case ok =>
    obtain ⟨h1, h2, h3⟩ := hg
    exfalso
    rcases Nat.lt_trichotomy m n with h | h | h
    · exact absurd (dead_next .start b m h3 (by omega)) (live_take _ b (m + 1) n h hlive)
    · subst h; rw [h2] at hnacc; cases hnacc
    · exact absurd hdead (live_take _ b (n + 1) m h (acc_live _ h2))
  case eof =>
    exact absurd hdead (live_whole _ b _ hg.1)
  case invalidChar =>
    obtain ⟨h1, h2, h3, h4⟩ := hg
    refine ⟨rfl, ?_⟩
    rcases Nat.lt_trichotomy m n with h | h | h
    · exact absurd (dead_next .start b m h4 h1) (live_take _ b (m + 1) n h hlive)
    · exact h
    · exact absurd hdead (live_take _ b (n + 1) m h h2)
  all_goals exact absurd hg (by simp [Good])

end JsonV.Lemmas.WireNumber
