/-
Lemmas about duplicate detection in struct unmarshaling (C08): names resolving to declared fields are checked
with the `seenIdxs` bit set, all other names with the object's namespace.
-/
import JsonV.Lemmas.DupUintSet
import JsonV.Lemmas.DupNamespace

namespace JsonV.Lemmas.Dup
open JsonV JsonV.Model

/-- Field ids the names resolve to, in order. -/
def fieldIds {α : Type} (resolve : α → Option Nat) (names : List α) : List Nat := names.filterMap resolve

/-- Unquoted names that resolve to no declared field, in order. -/
def unknownNames {α : Type} (resolve : α → Option Nat) (unq : α → Bytes) (names : List α) : List Bytes :=
  (names.filter (fun n => (resolve n).isNone)).map unq

theorem seenAccepts_iff {α : Type} (resolve : α → Option Nat) (names : List α) : ∀ (seen : UintSet),
    seenAccepts resolve names seen = true ↔
      (fieldIds resolve names).Nodup ∧ ∀ f ∈ fieldIds resolve names, bit seen f = false := by
  induction names with
  | nil => intro seen; simp [seenAccepts, fieldIds]
  | cons n rest ih =>
    intro seen
    unfold seenAccepts
    cases hr : resolve n with
    | none =>
      simp only [fieldIds, List.filterMap_cons, hr]
      exact ih seen
    | some f =>
      simp only [fieldIds, List.filterMap_cons, hr, insert_snd, List.nodup_cons, List.mem_cons]
      by_cases hb : bit seen f = true
      · simp only [hb, Bool.not_true, Bool.false_eq_true, if_false, false_iff]
        intro h
        have := h.2 f (Or.inl rfl)
        rw [hb] at this; cases this
      · have hb' : bit seen f = false := by cases h : bit seen f <;> simp_all
        simp only [hb', Bool.not_false, if_true]
        rw [ih (seen.insert f).1]
        simp only [fieldIds, bit_insert]
        constructor
        · rintro ⟨hnd, hall⟩
          refine ⟨⟨?_, hnd⟩, ?_⟩
          · intro hmem
            have := hall f hmem
            simp at this
          · rintro g (rfl | hg)
            · exact hb'
            · have := hall g hg
              simp only [Bool.or_eq_false_iff] at this
              exact this.2
        · rintro ⟨⟨hnot, hnd⟩, hall⟩
          refine ⟨hnd, ?_⟩
          intro g hg
          have hne : ¬ g = f := by intro e; subst e; exact hnot hg
          simp [hne, hall g (Or.inr hg)]

theorem structAccepts_iff {α : Type} (resolve : α → Option Nat) (unq : α → Bytes) (names : List α) :
    ∀ (seen : UintSet) (ns : Namespace), WF ns →
    (structAccepts resolve unq names seen ns = true ↔
      ((fieldIds resolve names).Nodup ∧ ∀ f ∈ fieldIds resolve names, bit seen f = false) ∧
      ((unknownNames resolve unq names).Nodup ∧ ∀ u ∈ unknownNames resolve unq names, u ∉ ns.names)) := by
  induction names with
  | nil => intro seen ns _; simp [structAccepts, fieldIds, unknownNames]
  | cons n rest ih =>
    intro seen ns hwf
    unfold structAccepts
    cases hr : resolve n with
    | none =>
      obtain ⟨h1, h2, h3⟩ := insert_spec ns hwf (unq n)
      simp only [fieldIds, unknownNames, List.filterMap_cons, List.filter_cons, hr, Option.isNone_none, if_true,
        List.map_cons, List.nodup_cons, List.mem_cons, h1]
      by_cases hx : unq n ∈ ns.names
      · simp only [hx, decide_true, Bool.not_true, Bool.false_eq_true, if_false, false_iff]
        intro h
        exact h.2.2 (unq n) (Or.inl rfl) hx
      · simp only [hx, decide_false, Bool.not_false, if_true]
        rw [ih seen (ns.insert (unq n)).1 h3, h2]
        simp only [hx, if_false, fieldIds, unknownNames, List.mem_append, List.mem_singleton]
        constructor
        · rintro ⟨hf, hnd, hall⟩
          refine ⟨hf, ⟨?_, hnd⟩, ?_⟩
          · intro hmem; exact (hall _ hmem) (Or.inr rfl)
          · rintro u (rfl | hu)
            · exact hx
            · intro hm; exact (hall u hu) (Or.inl hm)
        · rintro ⟨hf, ⟨hnot, hnd⟩, hall⟩
          refine ⟨hf, hnd, ?_⟩
          rintro u hu (hm | rfl)
          · exact hall u (Or.inr hu) hm
          · exact hnot hu
    | some f =>
      simp only [fieldIds, unknownNames, List.filterMap_cons, List.filter_cons, hr, Option.isNone_some,
        Bool.false_eq_true, if_false, insert_snd, List.nodup_cons, List.mem_cons]
      by_cases hb : bit seen f = true
      · simp only [hb, Bool.not_true, Bool.false_eq_true, if_false, false_iff]
        intro h
        have := h.1.2 f (Or.inl rfl)
        rw [hb] at this; cases this
      · have hb' : bit seen f = false := by cases h : bit seen f <;> simp_all
        simp only [hb', Bool.not_false, if_true]
        rw [ih (seen.insert f).1 ns hwf]
        simp only [fieldIds, unknownNames, bit_insert]
        constructor
        · rintro ⟨⟨hnd, hall⟩, hu⟩
          refine ⟨⟨⟨?_, hnd⟩, ?_⟩, hu⟩
          · intro hmem
            have := hall f hmem
            simp at this
          · rintro g (rfl | hg)
            · exact hb'
            · have := hall g hg
              simp only [Bool.or_eq_false_iff] at this
              exact this.2
        · rintro ⟨⟨⟨hnot, hnd⟩, hall⟩, hu⟩
          refine ⟨⟨hnd, ?_⟩, hu⟩
          intro g hg
          have hne : ¬ g = f := by intro e; subst e; exact hnot hg
          simp [hne, hall g (Or.inr hg)]

end JsonV.Lemmas.Dup
