/-
Lemmas about the v1 models (slice C09).  Core Lean only.
-/
import JsonV.Model.V1

namespace JsonV.Lemmas.V1L
open JsonV JsonV.Model.V1

/-! ### the escape sequences themselves -/

theorem esc00_safe (c : UInt8) (h : isHtmlByte c = true) : ∀ x ∈ esc00 c, isHtmlByte x = false := by
  have hc : c = 0x3C ∨ c = 0x3E ∨ c = 0x26 := by
    simp [isHtmlByte] at h; rcases h with (h | h) | h <;> simp [h]
  rcases hc with rfl | rfl | rfl <;> decide

theorem esc202_safe (c : UInt8) (h : isLsByte c = true) : ∀ x ∈ esc202 c, isHtmlByte x = false := by
  have hc : c = 0xA8 ∨ c = 0xA9 := by
    simp [isLsByte] at h; exact h
  rcases hc with rfl | rfl <;> decide

/-! ### no `<`, `>`, `&` in the output -/

theorem htmlEscape_no_html_bytes (b : Bytes) : ∀ x ∈ htmlEscape b, isHtmlByte x = false := by
  fun_induction htmlEscape b with
  | case1 c c1 c2 rest' h ih =>
    intro x hx
    rcases List.mem_append.mp hx with hx | hx
    · exact esc00_safe c h x hx
    · exact ih x hx
  | case2 c c1 c2 rest' h h2 ih =>
    intro x hx
    rcases List.mem_append.mp hx with hx | hx
    · have : isLsByte c2 = true := by simp at h2; exact h2.2
      exact esc202_safe c2 this x hx
    · exact ih x hx
  | case3 c c1 c2 rest' h h2 ih =>
    intro x hx
    rcases List.mem_cons.mp hx with rfl | hx
    · simpa using h
    · exact ih x hx
  | case4 c rest hne h ih =>
    intro x hx
    rcases List.mem_append.mp hx with hx | hx
    · exact esc00_safe c h x hx
    · exact ih x hx
  | case5 c rest hne h ih =>
    intro x hx
    rcases List.mem_cons.mp hx with rfl | hx
    · simpa using h
    · exact ih x hx
  | case6 => simp

/-! ### length -/

theorem esc00_length (c : UInt8) : (esc00 c).length = 6 := rfl
theorem esc202_length (c : UInt8) : (esc202 c).length = 6 := rfl

theorem htmlEscape_length (b : Bytes) :
    (htmlEscape b).length = b.length + 5 * (escCounts b).1 + 3 * (escCounts b).2 := by
  fun_induction htmlEscape b with
  | case1 c c1 c2 rest' h ih =>
    rw [escCounts]; simp only [h, if_true, List.length_append, esc00_length, ih, List.length_cons]; omega
  | case2 c c1 c2 rest' h h2 ih =>
    rw [escCounts]; simp only [h, h2, if_true, List.length_append, esc202_length, ih, List.length_cons]
    simp; omega
  | case3 c c1 c2 rest' h h2 ih =>
    rw [escCounts]; simp only [h, h2, List.length_cons, ih]; simp; omega
  | case4 c rest hne h ih =>
    rw [escCounts]
    · simp only [h, if_true, List.length_append, esc00_length, ih, List.length_cons]; omega
    · exact hne
  | case5 c rest hne h ih =>
    rw [escCounts]
    · simp only [h, List.length_cons, ih]; simp; omega
    · exact hne
  | case6 => simp [escCounts]

/-! ### identity on safe input -/

theorem htmlEscape_id_on_safe (b : Bytes) (hs : ∀ x ∈ b, isHtmlByte x = false) (hl : hasLS b = false) :
    htmlEscape b = b := by
  fun_induction htmlEscape b with
  | case1 c c1 c2 rest' h ih => have := hs c (by simp); simp [h] at this
  | case2 c c1 c2 rest' h h2 ih => rw [hasLS] at hl; simp [h2] at hl
  | case3 c c1 c2 rest' h h2 ih =>
    rw [hasLS] at hl
    have hl' : hasLS (c1 :: c2 :: rest') = false := by
      cases hh : hasLS (c1 :: c2 :: rest') with
      | false => rfl
      | true => simp [hh] at hl
    rw [ih (fun x hx => hs x (List.mem_cons_of_mem _ hx)) hl']
  | case4 c rest hne h ih => have := hs c (by simp); simp [h] at this
  | case5 c rest hne h ih =>
    have hl' : hasLS rest = false := by
      match rest, hne with
      | [], _ => simp [hasLS]
      | [_], _ => simp [hasLS]
      | c1 :: c2 :: r, hne => exact absurd rfl (hne c1 c2 r)
    rw [ih (fun x hx => hs x (List.mem_cons_of_mem _ hx)) hl']
  | case6 => rfl

/-! ### no U+2028 / U+2029 in the output -/

theorem hasLS_cons_of_ne (a : UInt8) (l : Bytes) (h : a ≠ 0xE2) : hasLS (a :: l) = hasLS l := by
  match l with
  | [] => simp [hasLS]
  | [_] => simp [hasLS]
  | b :: c :: r => rw [hasLS]; simp [h]

theorem hasLS_append_noE2 (p l : Bytes) (hp : ∀ x ∈ p, x ≠ 0xE2) : hasLS (p ++ l) = hasLS l := by
  induction p with
  | nil => rfl
  | cons a p ih =>
    rw [List.cons_append, hasLS_cons_of_ne a _ (hp a (by simp))]
    exact ih (fun x hx => hp x (List.mem_cons_of_mem _ hx))

theorem esc00_noE2 (c : UInt8) (h : isHtmlByte c = true) : ∀ x ∈ esc00 c, x ≠ 0xE2 := by
  have hc : c = 0x3C ∨ c = 0x3E ∨ c = 0x26 := by
    simp [isHtmlByte] at h; rcases h with (h | h) | h <;> simp [h]
  rcases hc with rfl | rfl | rfl <;> decide

theorem esc202_noE2 (c : UInt8) (h : isLsByte c = true) : ∀ x ∈ esc202 c, x ≠ 0xE2 := by
  have hc : c = 0xA8 ∨ c = 0xA9 := by
    simp [isLsByte] at h; exact h
  rcases hc with rfl | rfl <;> decide

/-- The first byte of the output is the first byte of the input or a backslash. -/
theorem htmlEscape_head (a : UInt8) (l : Bytes) :
    (htmlEscape (a :: l)).head? = some a ∨ (htmlEscape (a :: l)).head? = some 0x5C := by
  match l with
  | [] => rw [htmlEscape]; split <;> simp [esc00]
          intro c1 c2 r h; cases h
  | [x] => rw [htmlEscape]; split <;> simp [esc00]
           intro c1 c2 r h; cases h
  | c1 :: c2 :: r =>
    rw [htmlEscape]; split
    · simp [esc00]
    · split <;> simp [esc202]

/-- A byte that is neither special nor `E2` is copied. -/
theorem htmlEscape_cons_plain (a : UInt8) (l : Bytes) (h1 : isHtmlByte a = false) (h2 : a ≠ 0xE2) :
    htmlEscape (a :: l) = a :: htmlEscape l := by
  match l with
  | [] => rw [htmlEscape]; simp [h1]
          intro c1 c2 r h; cases h
  | [x] => rw [htmlEscape]; simp [h1]
           intro c1 c2 r h; cases h
  | c1 :: c2 :: r => rw [htmlEscape]; simp [h1, h2]

/-- If the output starts with `80 A8|A9`, so does the input. -/
theorem htmlEscape_prefix_80 (l : Bytes) (z : UInt8) (t : Bytes)
    (h : htmlEscape l = 0x80 :: z :: t) (hz : isLsByte z = true) : ∃ t', l = 0x80 :: z :: t' := by
  match l with
  | [] => simp [htmlEscape] at h
  | a :: l' =>
    have ha : a = 0x80 := by
      rcases htmlEscape_head a l' with hh | hh <;> rw [h] at hh <;> simp at hh
      exact hh.symm
    subst ha
    rw [htmlEscape_cons_plain 0x80 l' (by decide) (by decide)] at h
    have h' : htmlEscape l' = z :: t := by simpa using h
    match l' with
    | [] => simp [htmlEscape] at h'
    | a2 :: l'' =>
      have : a2 = z := by
        rcases htmlEscape_head a2 l'' with hh | hh <;> rw [h'] at hh <;> simp at hh
        · exact hh.symm
        · subst hh; simp [isLsByte] at hz
      subst this
      exact ⟨l'', rfl⟩

theorem hasLS_E2_cons (l : Bytes) (hl : hasLS l = false)
    (hp : ∀ z t, l = 0x80 :: z :: t → isLsByte z = false) : hasLS (0xE2 :: l) = false := by
  match l with
  | [] => simp [hasLS]
  | [_] => simp [hasLS]
  | y :: z :: t =>
    rw [hasLS, hl]
    by_cases hy : y = 0x80
    · subst hy; simp [hp z t rfl]
    · simp [hy]

theorem htmlEscape_no_LS (b : Bytes) : hasLS (htmlEscape b) = false := by
  fun_induction htmlEscape b with
  | case1 c c1 c2 rest' h ih => rw [hasLS_append_noE2 _ _ (esc00_noE2 c h)]; exact ih
  | case2 c c1 c2 rest' h h2 ih =>
    have : isLsByte c2 = true := by simp at h2; exact h2.2
    rw [hasLS_append_noE2 _ _ (esc202_noE2 c2 this)]; exact ih
  | case3 c c1 c2 rest' h h2 ih =>
    by_cases hc : c = 0xE2
    · subst hc
      apply hasLS_E2_cons _ ih
      intro z t hzt
      cases hz : isLsByte z with
      | false => rfl
      | true =>
        obtain ⟨t', ht'⟩ := htmlEscape_prefix_80 _ z t hzt hz
        injection ht' with e1 e2
        injection e2 with e2 e3
        subst e1 e2
        simp [hz] at h2
    · rw [hasLS_cons_of_ne c _ hc]; exact ih
  | case4 c rest hne h ih => rw [hasLS_append_noE2 _ _ (esc00_noE2 c h)]; exact ih
  | case5 c rest hne h ih =>
    by_cases hc : c = 0xE2
    · subst hc
      apply hasLS_E2_cons _ ih
      intro z t hzt
      cases hz : isLsByte z with
      | false => rfl
      | true =>
        obtain ⟨t', ht'⟩ := htmlEscape_prefix_80 _ z t hzt hz
        exact absurd ht' (fun e => hne _ _ _ e)
    · rw [hasLS_cons_of_ne c _ hc]; exact ih
  | case6 => simp [hasLS]

/-! ### unescape ∘ htmlEscape -/

theorem unescape_cons_of_ne (c : UInt8) (Y : Bytes) (h : c ≠ 0x5C) : unescape (c :: Y) = c :: unescape Y := by
  match Y with
  | u :: a :: b :: c' :: d :: r => rw [unescape]; simp [h]
  | [] => rw [unescape]; intro u a b c' d r e; cases e
  | [_] => rw [unescape]; intro u a b c' d r e; cases e
  | [_, _] => rw [unescape]; intro u a b c' d r e; cases e
  | [_, _, _] => rw [unescape]; intro u a b c' d r e; cases e
  | [_, _, _, _] => rw [unescape]; intro u a b c' d r e; cases e

theorem unescape_esc00 (c : UInt8) (h : isHtmlByte c = true) (X : Bytes) :
    unescape (esc00 c ++ X) = c :: unescape X := by
  have hc : c = 0x3C ∨ c = 0x3E ∨ c = 0x26 := by
    simp [isHtmlByte] at h; rcases h with (h | h) | h <;> simp [h]
  rcases hc with rfl | rfl | rfl
  · show unescape (0x5C :: 0x75 :: 0x30 :: 0x30 :: 0x33 :: 0x63 :: X) = _
    rw [unescape]; simp [unesc6]
  · show unescape (0x5C :: 0x75 :: 0x30 :: 0x30 :: 0x33 :: 0x65 :: X) = _
    rw [unescape]; simp [unesc6]
  · show unescape (0x5C :: 0x75 :: 0x30 :: 0x30 :: 0x32 :: 0x36 :: X) = _
    rw [unescape]; simp [unesc6]

theorem unescape_esc202 (c : UInt8) (h : isLsByte c = true) (X : Bytes) :
    unescape (esc202 c ++ X) = 0xE2 :: 0x80 :: c :: unescape X := by
  have hc : c = 0xA8 ∨ c = 0xA9 := by
    simp [isLsByte] at h; exact h
  rcases hc with rfl | rfl
  · show unescape (0x5C :: 0x75 :: 0x32 :: 0x30 :: 0x32 :: 0x38 :: X) = _
    rw [unescape]; simp [unesc6]
  · show unescape (0x5C :: 0x75 :: 0x32 :: 0x30 :: 0x32 :: 0x39 :: X) = _
    rw [unescape]; simp [unesc6]

/-- On inputs without a backslash, undoing the escapes gives the input back. -/
theorem unescape_htmlEscape_of_no_backslash (b : Bytes) (hb : ∀ x ∈ b, x ≠ 0x5C) :
    unescape (htmlEscape b) = b := by
  fun_induction htmlEscape b with
  | case1 c c1 c2 rest' h ih =>
    rw [unescape_esc00 c h, ih (fun x hx => hb x (List.mem_cons_of_mem _ hx))]
  | case2 c c1 c2 rest' h h2 ih =>
    have h3 : c = 0xE2 ∧ c1 = 0x80 ∧ isLsByte c2 = true := by
      simp at h2; exact ⟨h2.1.1, h2.1.2, h2.2⟩
    obtain ⟨rfl, rfl, h4⟩ := h3
    rw [unescape_esc202 c2 h4, ih (fun x hx => hb x (by simp [hx]))]
  | case3 c c1 c2 rest' h h2 ih =>
    rw [unescape_cons_of_ne c _ (hb c (by simp)), ih (fun x hx => hb x (List.mem_cons_of_mem _ hx))]
  | case4 c rest hne h ih =>
    rw [unescape_esc00 c h, ih (fun x hx => hb x (List.mem_cons_of_mem _ hx))]
  | case5 c rest hne h ih =>
    rw [unescape_cons_of_ne c _ (hb c (by simp)), ih (fun x hx => hb x (List.mem_cons_of_mem _ hx))]
  | case6 => simp [unescape]

/-! ### unescape ∘ htmlEscape for ALL inputs (pre-existing backslashes and escapes included) -/

/-- a byte that `htmlEscape` copies whatever follows it, and that is not a backslash -/
def Plain (y : UInt8) : Prop := isHtmlByte y = false ∧ y ≠ 0xE2 ∧ y ≠ 0x5C

theorem unesc6_plain (a b c d : UInt8) (o : Bytes) (h : unesc6 a b c d = some o) :
    Plain a ∧ Plain b ∧ Plain c ∧ Plain d := by
  unfold unesc6 at h
  have key : ∀ (k1 k2 k3 k4 : UInt8), (a == k1 && b == k2 && c == k3 && d == k4) = true →
      a = k1 ∧ b = k2 ∧ c = k3 ∧ d = k4 := by
    intro k1 k2 k3 k4 hc
    simp only [Bool.and_eq_true, beq_iff_eq] at hc
    exact ⟨hc.1.1.1, hc.1.1.2, hc.1.2, hc.2⟩
  split at h
  · rename_i hc; obtain ⟨rfl, rfl, rfl, rfl⟩ := key _ _ _ _ hc; unfold Plain; decide
  · split at h
    · rename_i hc; obtain ⟨rfl, rfl, rfl, rfl⟩ := key _ _ _ _ hc; unfold Plain; decide
    · split at h
      · rename_i hc; obtain ⟨rfl, rfl, rfl, rfl⟩ := key _ _ _ _ hc; unfold Plain; decide
      · split at h
        · rename_i hc; obtain ⟨rfl, rfl, rfl, rfl⟩ := key _ _ _ _ hc; unfold Plain; decide
        · split at h
          · rename_i hc; obtain ⟨rfl, rfl, rfl, rfl⟩ := key _ _ _ _ hc; unfold Plain; decide
          · cases h

theorem unescape_match (a b c d : UInt8) (r o : Bytes) (h : unesc6 a b c d = some o) :
    unescape (0x5C :: 0x75 :: a :: b :: c :: d :: r) = o ++ unescape r := by
  rw [unescape]; simp [h]

theorem unescape_nomatch (t : Bytes)
    (h : ∀ a b c d r o, t = 0x75 :: a :: b :: c :: d :: r → unesc6 a b c d = some o → False) :
    unescape (0x5C :: t) = 0x5C :: unescape t := by
  match t, h with
  | u :: a :: b :: c :: d :: r, h =>
    rw [unescape]
    by_cases hu : u = 0x75
    · subst hu
      cases hx : unesc6 a b c d with
      | none => simp [hx]
      | some o => exact absurd hx (fun hx => h a b c d r o rfl hx)
    · simp [hu]
  | [], _ => rw [unescape]; intro u a b c' d r e; cases e
  | [_], _ => rw [unescape]; intro u a b c' d r e; cases e
  | [_, _], _ => rw [unescape]; intro u a b c' d r e; cases e
  | [_, _, _], _ => rw [unescape]; intro u a b c' d r e; cases e
  | [_, _, _, _], _ => rw [unescape]; intro u a b c' d r e; cases e

theorem htmlEscape_nil : htmlEscape [] = [] := by rw [htmlEscape]

theorem htmlEscape_peel (t : Bytes) (y : UInt8) (T : Bytes) (h : htmlEscape t = y :: T) (hy : Plain y) :
    ∃ t', t = y :: t' ∧ T = htmlEscape t' := by
  match t with
  | [] => rw [htmlEscape_nil] at h; cases h
  | a :: t' =>
    have ha : a = y := by
      rcases htmlEscape_head a t' with hh | hh <;> rw [h] at hh <;> simp at hh
      · exact hh.symm
      · exact absurd hh hy.2.2
    subst ha
    rw [htmlEscape_cons_plain a t' hy.1 hy.2.1] at h
    injection h with _ h2
    exact ⟨t', rfl, h2.symm⟩

theorem plain_5C_copy (l : Bytes) : htmlEscape (0x5C :: l) = 0x5C :: htmlEscape l :=
  htmlEscape_cons_plain 0x5C l (by decide) (by decide)

theorem plain_75 : Plain 0x75 := ⟨by decide, by decide, by decide⟩

theorem htmlEscape_keeps_escape (a b c d : UInt8) (r o : Bytes) (h : unesc6 a b c d = some o) :
    htmlEscape (0x5C :: 0x75 :: a :: b :: c :: d :: r) = 0x5C :: 0x75 :: a :: b :: c :: d :: htmlEscape r := by
  obtain ⟨ha, hb, hc, hd⟩ := unesc6_plain a b c d o h
  rw [plain_5C_copy, htmlEscape_cons_plain 0x75 _ (by decide) (by decide),
    htmlEscape_cons_plain a _ ha.1 ha.2.1, htmlEscape_cons_plain b _ hb.1 hb.2.1,
    htmlEscape_cons_plain c _ hc.1 hc.2.1, htmlEscape_cons_plain d _ hd.1 hd.2.1]

/-- a byte that is not special and does not start a U+2028/9 triple is copied -/
theorem htmlEscape_cons_keep (x : UInt8) (t : Bytes) (h1 : isHtmlByte x = false)
    (h2 : ∀ c2 t', x = 0xE2 → t = 0x80 :: c2 :: t' → isLsByte c2 = true → False) :
    htmlEscape (x :: t) = x :: htmlEscape t := by
  match t, h2 with
  | [], _ => rw [htmlEscape]; simp [h1]
             intro c1 c2 r h; cases h
  | [_], _ => rw [htmlEscape]; simp [h1]
              intro c1 c2 r h; cases h
  | c1 :: c2 :: r, h2 =>
    rw [htmlEscape]; simp only [h1]
    by_cases hx : x = 0xE2 ∧ c1 = 0x80 ∧ isLsByte c2 = true
    · obtain ⟨rfl, rfl, h3⟩ := hx
      exact absurd h3 (fun h3 => h2 c2 r rfl rfl h3)
    · have : (x == 0xE2 && c1 == 0x80 && isLsByte c2) = false := by
        cases hh : (x == 0xE2 && c1 == 0x80 && isLsByte c2) with
        | false => rfl
        | true =>
          simp only [Bool.and_eq_true, beq_iff_eq] at hh
          exact absurd ⟨hh.1.1, hh.1.2, hh.2⟩ hx
      simp [this]

theorem htmlEscape_triple (c2 : UInt8) (t' : Bytes) (h : isLsByte c2 = true) :
    htmlEscape (0xE2 :: 0x80 :: c2 :: t') = esc202 c2 ++ htmlEscape t' := by
  rw [htmlEscape]; simp [h, isHtmlByte]

theorem htmlEscape_html (x : UInt8) (t : Bytes) (h : isHtmlByte x = true) :
    htmlEscape (x :: t) = esc00 x ++ htmlEscape t := by
  match t with
  | [] => rw [htmlEscape]; simp [h]
          intro c1 c2 r e; cases e
  | [_] => rw [htmlEscape]; simp [h]
           intro c1 c2 r e; cases e
  | c1 :: c2 :: r => rw [htmlEscape]; simp [h]

theorem isLsByte_ne_5C (c : UInt8) (h : isLsByte c = true) : c ≠ 0x5C := by
  intro e; subst e; simp [isLsByte] at h

/-- **Meaning preserved, for every byte string**: undoing the five escapes in the escaped text and in the original
gives the same bytes — whether or not the original already contains backslashes or such escapes. -/
theorem unescape_htmlEscape_all : ∀ (n : Nat) (b : Bytes), b.length ≤ n → unescape (htmlEscape b) = unescape b := by
  intro n
  induction n with
  | zero =>
    intro b hb
    have : b = [] := List.eq_nil_of_length_eq_zero (Nat.le_zero.mp hb)
    subst this; rw [htmlEscape_nil]
  | succ n ih =>
    intro b hb
    match b, hb with
    | [], _ => rw [htmlEscape_nil]
    | x :: t, hb =>
      have ht : t.length ≤ n := by simpa using hb
      by_cases hm : ∃ a b c d r o, x = 0x5C ∧ t = 0x75 :: a :: b :: c :: d :: r ∧ unesc6 a b c d = some o
      · -- a pre-existing escape is copied and undone on both sides
        obtain ⟨a, b', c, d, r, o, rfl, rfl, ho⟩ := hm
        rw [htmlEscape_keeps_escape a b' c d r o ho, unescape_match a b' c d _ o ho, unescape_match a b' c d r o ho,
          ih r (by simp at ht; omega)]
      · by_cases hh : isHtmlByte x = true
        · have hx : x ≠ 0x5C := by intro e; subst e; simp [isHtmlByte] at hh
          rw [htmlEscape_html x t hh, unescape_esc00 x hh, unescape_cons_of_ne x t hx, ih t ht]
        · have hh' : isHtmlByte x = false := by simpa using hh
          by_cases h3 : ∃ c2 t', x = 0xE2 ∧ t = 0x80 :: c2 :: t' ∧ isLsByte c2 = true
          · obtain ⟨c2, t', rfl, rfl, hl⟩ := h3
            rw [htmlEscape_triple c2 t' hl, unescape_esc202 c2 hl, ih t' (by simp at ht; omega),
              unescape_cons_of_ne 0xE2 _ (by decide), unescape_cons_of_ne 0x80 _ (by decide),
              unescape_cons_of_ne c2 _ (isLsByte_ne_5C c2 hl)]
          · rw [htmlEscape_cons_keep x t hh' (fun c2 t' e1 e2 e3 => h3 ⟨c2, t', e1, e2, e3⟩)]
            by_cases hx : x = 0x5C
            · subst hx
              rw [unescape_nomatch t (fun a b c d r o e ho => hm ⟨a, b, c, d, r, o, rfl, e, ho⟩)]
              rw [unescape_nomatch (htmlEscape t), ih t ht]
              -- the escaped tail cannot start a new match: its first five bytes would be the tail's
              intro a b c d R o e ho
              obtain ⟨pa, pb, pc, pd⟩ := unesc6_plain a b c d o ho
              obtain ⟨t1, rfl, e1⟩ := htmlEscape_peel t _ _ e plain_75
              obtain ⟨t2, rfl, e2⟩ := htmlEscape_peel t1 _ _ e1.symm pa
              obtain ⟨t3, rfl, e3⟩ := htmlEscape_peel t2 _ _ e2.symm pb
              obtain ⟨t4, rfl, e4⟩ := htmlEscape_peel t3 _ _ e3.symm pc
              obtain ⟨t5, rfl, _⟩ := htmlEscape_peel t4 _ _ e4.symm pd
              exact hm ⟨a, b, c, d, t5, o, rfl, rfl, ho⟩
            · rw [unescape_cons_of_ne x _ hx, unescape_cons_of_ne x _ hx, ih t ht]

end JsonV.Lemmas.V1L
