/-
Glue C12 ↔ C01, part 2: every token list accepted by the push-down grammar is the token list of a tree
(the direction that slice C13's `accepts_tree` does not give).
-/
import JsonV.Lemmas.GlueTreeLex

namespace JsonV.Fmt
open JsonV.Canon JsonV.Lemmas.CanonNest

theorem step_ba_shape {f : Fr} {s st' : Stack} {d : Option Delim} (h : step (f :: s) .ba = some (d, st')) :
    ∃ f', st' = .arr0 :: f' :: s := by
  simp only [step] at h
  split at h
  · split at h
    · simp only [Option.some.injEq, Prod.mk.injEq] at h; exact ⟨_, h.2.symm⟩
    · simp at h
  · simp at h

theorem step_bo_shape {f : Fr} {s st' : Stack} {d : Option Delim} (h : step (f :: s) .bo = some (d, st')) :
    ∃ f', st' = .obj0 :: f' :: s := by
  simp only [step] at h
  split at h
  · split at h
    · simp only [Option.some.injEq, Prod.mk.injEq] at h; exact ⟨_, h.2.symm⟩
    · simp at h
  · simp at h

theorem accepts_nil_frame (g : Fr) (s : Stack) (hg : g ≠ .top1) : accepts (g :: s) [] = false := by
  simp only [accepts, beq_eq_false_iff_ne, ne_eq, List.cons.injEq, not_and]
  intro h; exact absurd h hg

/-- after a value in context `f`, the rest is accepted in the context `f.value` yields -/
theorem accepts_after_value (t : JV) (ht : AtomsOK t = true) (f : Fr) (s : Stack) (rest : List Tok)
    (h : accepts (f :: s) (t.toks ++ rest) = true) :
    ∃ dl f', f.value (isStrT t) = some (dl, f') ∧ depthOK t s.length = true ∧ accepts (f' :: s) rest = true := by
  rw [accV t ht f s rest] at h
  cases hv : f.value (isStrT t) with
  | none => simp [hv] at h
  | some p =>
    obtain ⟨dl, f'⟩ := p
    simp only [hv, Option.map_some, Option.getD_some, Bool.and_eq_true] at h
    exact ⟨dl, f', rfl, h.1, h.2⟩

def NotCloser (ts : List Tok) : Prop := ∀ ks, ts ≠ .ea :: ks ∧ ts ≠ .eo :: ks

theorem decompose : ∀ n : Nat,
    (∀ (ts : List Tok) (f : Fr) (s : Stack), ts.length ≤ n → ts ≠ [] → NotCloser ts → accepts (f :: s) ts = true →
      ∃ t rest, ts = t.toks ++ rest ∧ AtomsOK t = true ∧ rest.length < ts.length) ∧
    (∀ (ts : List Tok) (g : Fr) (s : Stack), ts.length ≤ n → (g = .arr0 ∨ g = .arrN) → accepts (g :: s) ts = true →
      ∃ es rest, ts = toksL es ++ .ea :: rest ∧ AtomsOKL es = true ∧ rest.length < ts.length) ∧
    (∀ (ts : List Tok) (g : Fr) (s : Stack), ts.length ≤ n → (g = .obj0 ∨ g = .objV) → accepts (g :: s) ts = true →
      ∃ ms rest, ts = toksM ms ++ .eo :: rest ∧ AtomsOKM ms = true ∧ rest.length < ts.length) := by
  intro n
  induction n with
  | zero =>
    refine ⟨?_, ?_, ?_⟩
    · intro ts f s hl hne; exact absurd (List.length_eq_zero_iff.mp (Nat.le_zero.mp hl)) hne
    · intro ts g s hl hg h
      have : ts = [] := List.length_eq_zero_iff.mp (Nat.le_zero.mp hl)
      subst this
      rw [accepts_nil_frame g s (by rcases hg with rfl | rfl <;> simp)] at h; simp at h
    · intro ts g s hl hg h
      have : ts = [] := List.length_eq_zero_iff.mp (Nat.le_zero.mp hl)
      subst this
      rw [accepts_nil_frame g s (by rcases hg with rfl | rfl <;> simp)] at h; simp at h
  | succ n ih =>
    obtain ⟨ihV, ihL, ihM⟩ := ih
    have hV : ∀ (ts : List Tok) (f : Fr) (s : Stack), ts.length ≤ n + 1 → ts ≠ [] → NotCloser ts →
        accepts (f :: s) ts = true → ∃ t rest, ts = t.toks ++ rest ∧ AtomsOK t = true ∧ rest.length < ts.length := by
      intro ts f s hl hne hnc h
      cases ts with
      | nil => exact absurd rfl hne
      | cons k ks =>
        simp only [List.length_cons] at hl
        have scalar : atomOK k = true → ∃ t rest, k :: ks = t.toks ++ rest ∧ AtomsOK t = true ∧ rest.length < (k :: ks).length :=
          fun hk => ⟨.atom k, ks, by simp [JV.toks], by simpa [AtomsOK] using hk, by simp⟩
        cases k with
        | ea => exact absurd rfl (hnc ks).1
        | eo => exact absurd rfl (hnc ks).2
        | str raw => exact scalar rfl
        | num raw => exact scalar rfl
        | null => exact scalar rfl
        | tru => exact scalar rfl
        | fls => exact scalar rfl
        | ba =>
          obtain ⟨d, st', hs, h'⟩ := accepts_cons h
          obtain ⟨f', rfl⟩ := step_ba_shape hs
          obtain ⟨es, rest, rfl, hes, hr⟩ := ihL ks .arr0 (f' :: s) (by omega) (Or.inl rfl) h'
          refine ⟨.arr es, rest, by simp [JV.toks], by simpa [AtomsOK] using hes, ?_⟩
          simp only [List.length_cons] at hr ⊢; omega
        | bo =>
          obtain ⟨d, st', hs, h'⟩ := accepts_cons h
          obtain ⟨f', rfl⟩ := step_bo_shape hs
          obtain ⟨ms, rest, rfl, hms, hr⟩ := ihM ks .obj0 (f' :: s) (by omega) (Or.inl rfl) h'
          refine ⟨.obj ms, rest, by simp [JV.toks], by simpa [AtomsOK] using hms, ?_⟩
          simp only [List.length_cons] at hr ⊢; omega
    refine ⟨hV, ?_, ?_⟩
    · -- elements up to `]`
      intro ts g s hl hg h
      cases ts with
      | nil => rw [accepts_nil_frame g s (by rcases hg with rfl | rfl <;> simp)] at h; simp at h
      | cons k ks =>
        by_cases hk : k = .ea
        · subst hk; exact ⟨[], ks, by simp [toksL], rfl, by simp⟩
        · have hnc : NotCloser (k :: ks) := by
            intro ks'
            refine ⟨fun e => hk (List.cons.inj e).1, fun e => ?_⟩
            have : k = .eo := (List.cons.inj e).1
            subst this
            obtain ⟨d, st', hs, _⟩ := accepts_cons h
            rcases hg with rfl | rfl <;> simp [step] at hs
          obtain ⟨e, r1, hts, he, hr1⟩ := hV (k :: ks) g s hl (by simp) hnc h
          rw [hts] at h
          obtain ⟨dl, f', hv, _, h'⟩ := accepts_after_value e he g s r1 h
          have hf' : f' = .arrN := by
            rcases hg with rfl | rfl <;> simp [Fr.value] at hv <;> exact hv.2.symm
          subst hf'
          obtain ⟨es, rest, rfl, hes, hr⟩ := ihL r1 .arrN s (by omega) (Or.inr rfl) h'
          refine ⟨e :: es, rest, by rw [hts]; simp [toksL], by simp [AtomsOKL, he, hes], ?_⟩
          omega
    · -- members up to `}`
      intro ts g s hl hg h
      cases ts with
      | nil => rw [accepts_nil_frame g s (by rcases hg with rfl | rfl <;> simp)] at h; simp at h
      | cons k ks =>
        simp only [List.length_cons] at hl
        obtain ⟨d, st', hs, h'⟩ := accepts_cons h
        cases k with
        | eo => exact ⟨[], ks, by simp [toksM], rfl, by simp⟩
        | str nm =>
          have hst : st' = .objK :: s := by
            rcases hg with rfl | rfl <;> simp [step, Fr.value] at hs <;> exact hs.2.symm
          subst hst
          have hne : ks ≠ [] := by
            intro e; subst e
            rw [accepts_nil_frame .objK s (by simp)] at h'; simp at h'
          have hnc : NotCloser ks := by
            intro ks'
            constructor <;> intro e <;> subst e <;> obtain ⟨_, _, hs2, _⟩ := accepts_cons h' <;> simp [step] at hs2
          obtain ⟨v, r1, hks, hv, hr1⟩ := ihV ks .objK s (by omega) hne hnc h'
          rw [hks] at h'
          obtain ⟨dl, f', hval, _, h''⟩ := accepts_after_value v hv .objK s r1 h'
          have hf' : f' = .objV := by simp [Fr.value] at hval; exact hval.2.symm
          subst hf'
          obtain ⟨ms, rest, rfl, hms, hr⟩ := ihM r1 .objV s (by omega) (Or.inr rfl) h''
          refine ⟨(nm, v) :: ms, rest, by rw [hks]; simp [toksM], by simp [AtomsOKM, hv, hms], ?_⟩
          simp only [List.length_cons]; omega
        | ea => rcases hg with rfl | rfl <;> simp [step] at hs
        | ba => rcases hg with rfl | rfl <;> simp [step, Fr.value] at hs
        | bo => rcases hg with rfl | rfl <;> simp [step, Fr.value] at hs
        | num raw => rcases hg with rfl | rfl <;> simp [step, Fr.value] at hs
        | null => rcases hg with rfl | rfl <;> simp [step, Fr.value] at hs
        | tru => rcases hg with rfl | rfl <;> simp [step, Fr.value] at hs
        | fls => rcases hg with rfl | rfl <;> simp [step, Fr.value] at hs

/-- a complete top level accepts nothing more -/
theorem accepts_top1 (ts : List Tok) (h : accepts [.top1] ts = true) : ts = [] := by
  cases ts with
  | nil => rfl
  | cons k ks =>
    obtain ⟨_, _, hs, _⟩ := accepts_cons h
    cases k <;> simp [step, Fr.value] at hs

/-- **Every accepted token list is the token list of a tree within the depth limit.** -/
theorem accepts_is_tree (ts : List Tok) (h : accepts [.top0] ts = true) :
    ∃ t, ts = t.toks ∧ AtomsOK t = true ∧ depthOK t 0 = true := by
  have hne : ts ≠ [] := by intro e; subst e; simp [accepts] at h
  have hnc : NotCloser ts := by
    intro ks
    constructor <;> intro e <;> subst e <;> obtain ⟨_, _, hs, _⟩ := accepts_cons h <;> simp [step] at hs
  obtain ⟨t, rest, rfl, ht, _⟩ := (decompose ts.length).1 ts .top0 [] (Nat.le_refl _) hne hnc h
  obtain ⟨dl, f', hv, hd, h'⟩ := accepts_after_value t ht .top0 [] rest h
  have : f' = .top1 := by simp [Fr.value] at hv; exact hv.2.symm
  subst this
  have := accepts_top1 rest h'
  subst this
  exact ⟨t, by simp, ht, by simpa using hd⟩

end JsonV.Fmt
