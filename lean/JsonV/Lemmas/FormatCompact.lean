/-
The compact rendering is the bare concatenation of the lexemes, and no lexeme other than a string
contains a whitespace byte.
-/
import JsonV.Lemmas.FormatMain

namespace JsonV.Fmt

theorem flatWs_compact : ∀ (ts : List Tok) (st : Stack),
    flatWs (pieces compactOpts st ts) = ((punct st ts).map Lex.bytes).flatten := by
  intro ts
  induction ts with
  | nil => intro st; rfl
  | cons t ts ih =>
    intro st
    simp only [pieces, punct]
    cases hs : step st t with
    | none => simp [flatWs, ih]
    | some p =>
      obtain ⟨d, st'⟩ := p
      cases d <;> simp [delimPiece, delimLex, flatWs, wsBefore_compact, ih]

theorem numChar_not_ws (c : UInt8) (h : isNumChar c = true) : isWs c = false := by
  cases hw : isWs c with
  | false => rfl
  | true => rw [ws_not_numChar c hw] at h; simp at h

theorem lexeme_no_ws (l : Lex) (hv : l.valid = true) (hs : ∀ raw, l ≠ .tok (.str raw)) :
    ∀ c ∈ l.bytes, isWs c = false := by
  cases l with
  | delim d => cases d <;> simp [Lex.bytes, Delim.bytes] <;> decide
  | tok t =>
    cases t with
    | str raw => exact absurd rfl (hs raw)
    | num raw =>
      intro c hc
      exact numChar_not_ws c (scanNum_chars _ _ _ _ (Tok.valid_num hv) c hc)
    | bo => simp [Lex.bytes, Tok.bytes]; decide
    | eo => simp [Lex.bytes, Tok.bytes]; decide
    | ba => simp [Lex.bytes, Tok.bytes]; decide
    | ea => simp [Lex.bytes, Tok.bytes]; decide
    | null => simp [Lex.bytes, Tok.bytes]; decide
    | tru => simp [Lex.bytes, Tok.bytes]; decide
    | fls => simp [Lex.bytes, Tok.bytes]; decide

theorem punct_valid : ∀ (ts : List Tok) (st : Stack), (∀ t ∈ ts, t.valid = true) → ∀ l ∈ punct st ts, l.valid = true := by
  intro ts
  induction ts with
  | nil => intro st _ l hl; simp [punct] at hl
  | cons t ts ih =>
    intro st hv l hl
    have hvt := hv t (by simp)
    have hv' : ∀ x ∈ ts, x.valid = true := fun x hx => hv x (List.mem_cons_of_mem _ hx)
    simp only [punct] at hl
    cases hs : step st t with
    | none =>
      simp only [hs, List.mem_cons] at hl
      rcases hl with rfl | hl
      · exact hvt
      · exact ih st hv' l hl
    | some p =>
      obtain ⟨d, st'⟩ := p
      simp only [hs, List.mem_append, List.mem_cons] at hl
      rcases hl with hl | rfl | hl
      · cases d <;> simp [delimLex] at hl; subst hl; rfl
      · exact hvt
      · exact ih st' hv' l hl

end JsonV.Fmt
