/-
The streaming decoder of Model/Stream.lean simulates the whole-buffer decoder call by call (C05: `sim_tokens`,
`fault_stutter`, `value_span`).
-/
import JsonV.Lemmas.ResumeStreamSim
import JsonV.Lemmas.ResumeWindow
import JsonV.Lemmas.ResumeStreamCons
namespace JsonV.Model.Stream
open JsonV JsonV.Model JsonV.Model.Validate JsonV.Model.TokenLoop JsonV.Model.Window

theorem append_split (a b c d : Bytes) (h : a ++ b = c ++ d) (hl : c.length ≤ a.length) :
    a = c ++ d.take (a.length - c.length) ∧ b = d.drop (a.length - c.length) := by
  constructor
  · have h1 : a = (a ++ b).take a.length := by simp
    rw [h1, h, List.take_append]
    simp [List.take_of_length_le hl]
  · have h1 : b = (a ++ b).drop a.length := by simp
    rw [h1, h, List.drop_append]
    simp [List.drop_of_length_le hl]

theorem invalidate_facts (w : Window) (h1 : w.prevStart ≤ w.prevEnd) (h2 : w.prevEnd ≤ w.buf.length) :
    (invalidate w).unread = w.unread ∧ (invalidate w).inputOffset = w.inputOffset ∧ (invalidate w).pending = w.pending ∧
    (invalidate w).prevStart ≤ (invalidate w).prevEnd ∧ (invalidate w).prevEnd ≤ (invalidate w).buf.length := by
  unfold invalidate
  split
  · rename_i hg
    refine ⟨?_, rfl, rfl, Nat.le_refl _, by simpa using h2⟩
    simp only [Window.unread]
    exact drop_set_of_lt _ _ _ _ hg.1
  · exact ⟨rfl, rfl, rfl, h1, h2⟩

theorem fetch_facts (w : Window) (k : Nat) (h1 : w.prevStart ≤ w.prevEnd) (h2 : w.prevEnd ≤ w.buf.length) :
    (Window.fetch w k).unread = w.unread ++ w.pending.take k ∧ (Window.fetch w k).inputOffset = w.inputOffset ∧
    (Window.fetch w k).pending = w.pending.drop k ∧
    (Window.fetch w k).prevStart ≤ (Window.fetch w k).prevEnd ∧ (Window.fetch w k).prevEnd ≤ (Window.fetch w k).buf.length := by
  refine ⟨?_, ?_, rfl, by simp [Window.fetch], ?_⟩
  · simp only [Window.fetch, Window.unread]
    have hle : w.prevEnd - w.prevStart ≤ (w.buf.drop w.prevStart).length := by simp [List.length_drop]; omega
    rw [List.drop_append_of_le_length hle, List.drop_drop]
    congr 2; omega
  · simp only [Window.fetch, Window.inputOffset]; omega
  · simp [Window.fetch, List.length_drop]; omega

/-- the window after the refills of one call: its unread part is the grown buffer `u'` -/
theorem commit_facts (w : Window) (f : Bool) (u' rest' : Bytes)
    (h1 : w.prevStart ≤ w.prevEnd) (h2 : w.prevEnd ≤ w.buf.length)
    (hT : u' ++ rest' = w.unread ++ w.pending) (hu : w.unread.length ≤ u'.length) :
    (commitFetch w f (u'.length - w.unread.length)).unread = u' ∧
    (commitFetch w f (u'.length - w.unread.length)).inputOffset = w.inputOffset ∧
    (commitFetch w f (u'.length - w.unread.length)).pending = rest' ∧
    (commitFetch w f (u'.length - w.unread.length)).prevStart ≤ (commitFetch w f (u'.length - w.unread.length)).prevEnd ∧
    (commitFetch w f (u'.length - w.unread.length)).prevEnd ≤ (commitFetch w f (u'.length - w.unread.length)).buf.length := by
  obtain ⟨ha, hb⟩ := append_split u' rest' w.unread w.pending hT hu
  unfold commitFetch
  by_cases hc : (f || (u'.length - w.unread.length) != 0) = true
  · rw [if_pos hc]
    obtain ⟨g1, g2, g3, g4, g5⟩ := fetch_facts w (u'.length - w.unread.length) h1 h2
    exact ⟨by rw [g1]; exact ha.symm, g2, by rw [g3]; exact hb.symm, g4, g5⟩
  · rw [if_neg hc]
    have hk : u'.length - w.unread.length = 0 := by simp at hc; exact hc.2
    rw [hk] at ha hb
    simp at ha hb
    exact ⟨ha.symm, rfl, hb.symm, h1, h2⟩
/-- the streaming decoder `s` and the whole-slice decoder `ws` are at the same point of the same input -/
def Sim (s : SState) (ws : WState) : Prop :=
  s.w.prevStart ≤ s.w.prevEnd ∧ s.w.prevEnd ≤ s.w.buf.length ∧ s.w.pending = avail s.events ∧
  ws.st = s.st ∧ ws.r = s.w.unread ++ avail s.events ∧ ws.off = s.w.inputOffset

theorem sim_init (es : List Event) : Sim (init es) { r := avail es } := by
  simp [Sim, init, Window.init, Window.unread, Window.inputOffset]

theorem advance_facts (w : Window) (s e : Nat) (hg : w.prevEnd ≤ s ∧ s ≤ e ∧ e ≤ w.buf.length) :
    (Window.advance w s e).unread = w.buf.drop e ∧ (Window.advance w s e).inputOffset = w.baseOffset + e ∧
    (Window.advance w s e).pending = w.pending ∧ (Window.advance w s e).prevStart = s ∧ (Window.advance w s e).prevEnd = e ∧
    (Window.advance w s e).buf = w.buf := by
  unfold Window.advance
  rw [if_pos hg]
  exact ⟨rfl, rfl, rfl, rfl, rfl, rfl⟩

theorem kindAt_append (u e : Bytes) (p : Nat) (h : p < u.length) : kindAt (u ++ e) p = kindAt u p := by
  unfold kindAt
  rw [List.drop_append_of_le_length (Nat.le_of_lt h)]
  obtain ⟨c, vt, hd⟩ := drop_cons_of_lt u p h
  rw [hd]; rfl

/-- One call.  Either the reader faulted: the call returns the I/O error, the two decoders are still at the same
point, and the reader has strictly fewer events left; or the call returns exactly what the whole-slice decoder
returns, and the two decoders are again at the same point. -/
theorem readWith_sim (lex : TState → Bytes → Nat → List Event → Bool → SRes) (lexW : TState → Nat → Bytes → TRes)
    (span : UInt8 → Bool)
    (hlex : ∀ (st : TState) (u : Bytes) (pos : Nat) (es : List Event) (f : Bool) (c : UInt8) (vt : Bytes),
      u.drop pos = c :: vt → LexOk u pos es (lexW st pos ((c :: vt) ++ avail es)) (lex st u pos es f))
    (s : SState) (ws : WState) (h : Sim s ws) :
    ((readWith lex span s).1 = .fault ∧ Sim (readWith lex span s).2 ws ∧
      (readWith lex span s).2.events.length < s.events.length) ∨
    ((readWith lex span s).1 = (wholeReadWith lexW ws).1 ∧ Sim (readWith lex span s).2 (wholeReadWith lexW ws).2 ∧
      (readWith lex span s).2.events.length ≤ s.events.length) := by
  obtain ⟨h1, h2, h3, h4, h5, h6⟩ := h
  obtain ⟨i1, i2, i3, i4, i5⟩ := invalidate_facts s.w h1 h2
  have hscan := scanWith_ok s.st (lex s.st) (lexW s.st) (hlex s.st) (Window.invalidate s.w).unread s.events
  unfold readWith
  simp only
  cases hs : scanWith s.st (lex s.st) (Window.invalidate s.w).unread s.events with
  | fault u' es' =>
    rw [hs] at hscan
    obtain ⟨g1, g2, g3⟩ := hscan
    left
    have hT : u' ++ avail es' = (Window.invalidate s.w).unread ++ (Window.invalidate s.w).pending := by
      rw [i3, h3]; exact g1
    obtain ⟨c1, c2, c3, c4, c5⟩ := commit_facts (Window.invalidate s.w) true u' (avail es') i4 i5 hT g3
    refine ⟨rfl, ⟨c4, c5, c3, h4, ?_, ?_⟩, g2⟩
    · simp only; rw [c1, h5, ← i1]; exact g1.symm
    · simp only; rw [c2, i2]; exact h6
  | res r start u' es' f =>
    rw [hs] at hscan
    obtain ⟨g0, g1, g2, g3, g4⟩ := hscan
    right
    have hT : u' ++ avail es' = (Window.invalidate s.w).unread ++ (Window.invalidate s.w).pending := by
      rw [i3, h3]; exact g1
    obtain ⟨c1, c2, c3, c4, c5⟩ := commit_facts (Window.invalidate s.w) f u' (avail es') i4 i5 hT g3
    have hr : ws.r = (Window.invalidate s.w).unread ++ avail s.events := by rw [i1]; exact h5
    have hoff : ws.off = (commitFetch (Window.invalidate s.w) f (u'.length - (Window.invalidate s.w).unread.length)).inputOffset := by
      rw [c2, i2]; exact h6
    simp only
    generalize commitFetch (Window.invalidate s.w) f (u'.length - (Window.invalidate s.w).unread.length) = w1 at *
    cases r with
    | err off e =>
      simp only
      have hw : wholeWith ws.st (lexW ws.st) ws.r = .err off e := by rw [h4, hr]; exact g0.symm
      refine ⟨?_, ⟨c4, c5, c3, ?_, ?_, ?_⟩, g2⟩
      · simp only [wholeReadWith, hw]; rw [hoff]
      · simp only [wholeReadWith, hw]; exact h4
      · simp only [wholeReadWith, hw]; rw [c1, hr]; exact g1.symm
      · simp only [wholeReadWith, hw]; exact hoff
    | tok n st' =>
      simp only
      obtain ⟨t1, t2, t3, t4⟩ := g4 n st' rfl
      have hw : wholeWith ws.st (lexW ws.st) ws.r = .tok n st' := by rw [h4, hr]; exact g0.symm
      have hbuf : w1.buf.length = w1.prevEnd + u'.length := by
        have := congrArg List.length c1
        simp only [Window.unread, List.length_drop] at this
        omega
      have hsel : start ≤ (if span (kindAt u' start) = true then start else n) ∧
          (if span (kindAt u' start) = true then start else n) ≤ n := by
        split <;> omega
      obtain ⟨a1, a2, a3, a4, a5, a6⟩ := advance_facts w1
        (w1.prevEnd + (if span (kindAt u' start) = true then start else n)) (w1.prevEnd + n)
        ⟨by omega, by omega, by omega⟩
      have hTu : ws.r = u' ++ avail es' := by rw [hr]; exact g1.symm
      have hst : wholeStart ws.r = start := by rw [hr]; exact t1.symm
      refine ⟨?_, ⟨?_, ?_, ?_, ?_, ?_, ?_⟩, g2⟩
      · simp only [wholeReadWith, hw]
        rw [hst, hoff, hTu, kindAt_append u' _ start t4]
      · simp only; rw [a4, a5]; omega
      · simp only; rw [a5, a6]; omega
      · simp only; rw [a3]; exact c3
      · simp only [wholeReadWith, hw]
      · simp only [wholeReadWith, hw]
        rw [a1, hTu, List.drop_append_of_le_length t3]
        have : w1.buf.drop (w1.prevEnd + n) = u'.drop n := by
          rw [← c1]; simp only [Window.unread, List.drop_drop]
        rw [this]
      · simp only [wholeReadWith, hw]
        rw [a2, hoff]; simp only [Window.inputOffset]; omega

theorem readToken_sim (o : VOpts) (s : SState) (ws : WState) (h : Sim s ws) :
    ((readToken o s).1 = .fault ∧ Sim (readToken o s).2 ws ∧ (readToken o s).2.events.length < s.events.length) ∨
    ((readToken o s).1 = (wholeRead o ws).1 ∧ Sim (readToken o s).2 (wholeRead o ws).2 ∧
      (readToken o s).2.events.length ≤ s.events.length) :=
  readWith_sim (lexS o) (lexToken o) _ (fun st => lexS_ok o st) s ws h

theorem readWith_events (lex : TState → Bytes → Nat → List Event → Bool → SRes) (span : UInt8 → Bool) (s : SState) :
    (readWith lex span s).2.events = (scanWith s.st (lex s.st) (Window.invalidate s.w).unread s.events).evs ∧
    ((readWith lex span s).1 = .fault ↔ (scanWith s.st (lex s.st) (Window.invalidate s.w).unread s.events).isFault = true) := by
  unfold readWith
  simp only
  split
  · rename_i hx; rw [hx]; simp [SRes.evs, SRes.isFault]
  · rename_i hx; rw [hx]
    split <;> simp [SRes.evs, SRes.isFault]

theorem readWith_consumed (lex : TState → Bytes → Nat → List Event → Bool → SRes) (span : UInt8 → Bool)
    (hlex : ∀ st u pos es f, Consumed es (lex st u pos es f).evs (lex st u pos es f).isFault) (s : SState) :
    Consumed s.events (readWith lex span s).2.events (decide ((readWith lex span s).1 = .fault)) := by
  have h := scanWith_consumed s.st (lex s.st) (hlex s.st) (Window.invalidate s.w).unread s.events
  obtain ⟨e1, e2⟩ := readWith_events lex span s
  rw [e1]
  obtain ⟨pre, hp, hf⟩ := h
  refine ⟨pre, hp, ?_⟩
  intro hd
  exact hf (e2.mp (by simpa using hd))

theorem readToken_consumed (o : VOpts) (s : SState) :
    Consumed s.events (readToken o s).2.events (decide ((readToken o s).1 = .fault)) :=
  readWith_consumed (lexS o) _ (fun st => lexS_consumed o st) s

theorem wholeReadWith_ne_fault (lexW : TState → Nat → Bytes → TRes) (ws : WState) : (wholeReadWith lexW ws).1 ≠ .fault := by
  unfold wholeReadWith; split <;> simp

theorem wholeRead_ne_fault (o : VOpts) (ws : WState) : (wholeRead o ws).1 ≠ .fault :=
  wholeReadWith_ne_fault _ ws

/-- `sim_tokens`: with a reader that never faults, ANY number of ReadToken calls on the streaming decoder
returns, call by call, what the calls return on the whole-slice decoder at the same point. -/
theorem run_sim (o : VOpts) (n : Nat) : ∀ (s : SState) (ws : WState), Sim s ws → NoFault s.events →
    run o n s = wholeRun o n ws := by
  induction n with
  | zero => intros; rfl
  | succ n ih =>
    intro s ws h hn
    have hc := noFault_of_consumed (readToken_consumed o s) hn
    simp only [run, wholeRun]
    rcases readToken_sim o s ws h with ⟨hf, _, _⟩ | ⟨ho, hs', _⟩
    · have := hc.1; simp [hf] at this
    · rw [ho, ih _ _ hs' hc.2]

/-- `fault_stutter` (whole runs): for ANY reader, dropping the calls that returned the transient error from the
transcript leaves exactly the transcript of the whole-slice decoder. -/
theorem run_stutter (o : VOpts) (n : Nat) : ∀ (s : SState) (ws : WState), Sim s ws →
    (run o n s).filter (fun x => x != .fault) =
      wholeRun o ((run o n s).filter (fun x => x != .fault)).length ws := by
  induction n with
  | zero => intros; rfl
  | succ n ih =>
    intro s ws h
    simp only [run]
    rcases readToken_sim o s ws h with ⟨hf, hs', _⟩ | ⟨ho, hs', _⟩
    · rw [hf]
      simp only [List.filter_cons, bne_self_eq_false, Bool.false_eq_true, if_false]
      exact ih _ _ hs'
    · have hne : ((readToken o s).1 != Out.fault) = true := by
        rw [ho]; simpa using wholeRead_ne_fault o ws
      simp only [List.filter_cons, hne, if_true, List.length_cons, wholeRun]
      rw [ho, ← ih _ _ hs']

theorem avail_chunks (cs : List Bytes) : avail (cs.map Event.chunk) = cs.flatten := by
  induction cs with
  | nil => rfl
  | cons c cs ih => simp [avail, ih]

theorem noFault_chunks (cs : List Bytes) : NoFault (cs.map Event.chunk) := by
  intro h; simp at h

theorem advance_base (w : Window) (s e : Nat) : (Window.advance w s e).baseOffset = w.baseOffset := by
  unfold Window.advance
  by_cases hg : (w.prevEnd ≤ s ∧ s ≤ e ∧ e ≤ w.buf.length) <;> simp [hg]

/-- the raw bytes a caller sees for the previous token: `d.buf[d.prevStart:d.prevEnd]` -/
def SState.prevBytes (s : SState) : Bytes := (s.w.buf.drop s.w.prevStart).take (s.w.prevEnd - s.w.prevStart)

/-- what a successful streaming ReadToken did, in terms of the grown unread buffer `u'` and the window `w1` after
the refills -/
theorem readWith_tok_shape (lex : TState → Bytes → Nat → List Event → Bool → SRes) (lexW : TState → Nat → Bytes → TRes)
    (span : UInt8 → Bool)
    (hlex : ∀ (st : TState) (u : Bytes) (pos : Nat) (es : List Event) (f : Bool) (c : UInt8) (vt : Bytes),
      u.drop pos = c :: vt → LexOk u pos es (lexW st pos ((c :: vt) ++ avail es)) (lex st u pos es f))
    (s : SState) (ws : WState) (h : Sim s ws)
    (k : UInt8) (a b : Nat) (ht : (readWith lex span s).1 = .tok k a b) :
    ∃ (start n : Nat) (u' : Bytes) (es' : List Event) (w1 : Window),
      a = ws.off + start ∧ b = ws.off + n ∧ start ≤ n ∧ n ≤ u'.length ∧ ws.r = u' ++ avail es' ∧
      w1.unread = u' ∧ w1.inputOffset = ws.off ∧ w1.prevEnd ≤ w1.buf.length ∧ k = kindAt u' start ∧
      (readWith lex span s).2.w = Window.advance w1 (w1.prevEnd + (if span k = true then start else n)) (w1.prevEnd + n) := by
  obtain ⟨h1, h2, h3, h4, h5, h6⟩ := h
  obtain ⟨i1, i2, i3, i4, i5⟩ := invalidate_facts s.w h1 h2
  have hscan := scanWith_ok s.st (lex s.st) (lexW s.st) (hlex s.st) (Window.invalidate s.w).unread s.events
  unfold readWith at ht ⊢
  simp only at ht ⊢
  cases hs : scanWith s.st (lex s.st) (Window.invalidate s.w).unread s.events with
  | fault u' es' => rw [hs] at ht; simp at ht
  | res r start u' es' f =>
    rw [hs] at hscan ht
    obtain ⟨g0, g1, g2, g3, g4⟩ := hscan
    have hT : u' ++ avail es' = (Window.invalidate s.w).unread ++ (Window.invalidate s.w).pending := by
      rw [i3, h3]; exact g1
    obtain ⟨c1, c2, c3, c4, c5⟩ := commit_facts (Window.invalidate s.w) f u' (avail es') i4 i5 hT g3
    have hr : ws.r = (Window.invalidate s.w).unread ++ avail s.events := by rw [i1]; exact h5
    have hoff : (commitFetch (Window.invalidate s.w) f (u'.length - (Window.invalidate s.w).unread.length)).inputOffset = ws.off := by
      rw [c2, i2]; exact h6.symm
    simp only at ht ⊢
    generalize commitFetch (Window.invalidate s.w) f (u'.length - (Window.invalidate s.w).unread.length) = w1 at *
    cases r with
    | err off e => simp at ht
    | tok n st' =>
      simp only at ht ⊢
      obtain ⟨t1, t2, t3, t4⟩ := g4 n st' rfl
      injection ht with hk ha hb
      refine ⟨start, n, u', es', w1, ?_, ?_, t2, t3, ?_, c1, hoff, c5, hk.symm, ?_⟩
      · rw [← ha, hoff]
      · rw [← hb, hoff]
      · rw [hr]; exact g1.symm
      · rw [← hk]

theorem readWith_span (lex : TState → Bytes → Nat → List Event → Bool → SRes) (lexW : TState → Nat → Bytes → TRes)
    (span : UInt8 → Bool)
    (hlex : ∀ (st : TState) (u : Bytes) (pos : Nat) (es : List Event) (f : Bool) (c : UInt8) (vt : Bytes),
      u.drop pos = c :: vt → LexOk u pos es (lexW st pos ((c :: vt) ++ avail es)) (lex st u pos es f))
    (s : SState) (ws : WState) (h : Sim s ws) (pre : Bytes) (hpre : pre.length = ws.off)
    (k : UInt8) (a b : Nat) (ht : (readWith lex span s).1 = .tok k a b) :
    ws.off ≤ a ∧ a ≤ b ∧ b ≤ (pre ++ ws.r).length ∧
    (readWith lex span s).2.w.baseOffset + (readWith lex span s).2.w.prevEnd = b ∧
    (span k = true →
      (readWith lex span s).2.w.baseOffset + (readWith lex span s).2.w.prevStart = a ∧
      (readWith lex span s).2.prevBytes = ((pre ++ ws.r).drop a).take (b - a)) := by
  obtain ⟨start, n, u', es', w1, ea, eb, t2, t3, hr, c1, hoff, c5, hk, hw⟩ := readWith_tok_shape lex lexW span hlex s ws h k a b ht
  have hbuf : w1.buf.length = w1.prevEnd + u'.length := by
    have := congrArg List.length c1
    simp only [Window.unread, List.length_drop] at this
    omega
  have hsel : start ≤ (if span k = true then start else n) ∧
      (if span k = true then start else n) ≤ n := by
    split <;> omega
  obtain ⟨a1, a2, a3, a4, a5, a6⟩ := advance_facts w1
    (w1.prevEnd + (if span k = true then start else n)) (w1.prevEnd + n)
    ⟨by omega, by omega, by omega⟩
  have hio : w1.baseOffset + w1.prevEnd = ws.off := hoff
  refine ⟨by omega, by omega, ?_, ?_, ?_⟩
  · rw [hr]; simp; omega
  · rw [hw, a5, advance_base]; omega
  · intro hkk
    simp only [hkk, if_true] at a4 a5 a6 hw
    constructor
    · rw [hw, a4, advance_base]; omega
    · unfold SState.prevBytes
      rw [hw, a4, a5, a6]
      have e1 : w1.buf.drop (w1.prevEnd + start) = u'.drop start := by
        rw [← c1]; simp only [Window.unread, List.drop_drop]
      have e2 : (pre ++ ws.r).drop a = (u' ++ avail es').drop start := by
        rw [ea, ← hpre, hr, List.drop_length_add_append]
      rw [e1, e2, List.drop_append_of_le_length (by omega), List.take_append_of_le_length (by simp [List.length_drop]; omega)]
      congr 1; omega


theorem readToken_span (o : VOpts) (s : SState) (ws : WState) (h : Sim s ws) (pre : Bytes) (hpre : pre.length = ws.off)
    (k : UInt8) (a b : Nat) (ht : (readToken o s).1 = .tok k a b) :
    ws.off ≤ a ∧ a ≤ b ∧ b ≤ (pre ++ ws.r).length ∧
    (readToken o s).2.w.baseOffset + (readToken o s).2.w.prevEnd = b ∧
    ((k == 0x22 || k == 0x30) = true →
      (readToken o s).2.w.baseOffset + (readToken o s).2.w.prevStart = a ∧
      (readToken o s).2.prevBytes = ((pre ++ ws.r).drop a).take (b - a)) :=
  readWith_span (lexS o) (lexToken o) _ (fun st => lexS_ok o st) s ws h pre hpre k a b ht

end JsonV.Model.Stream
