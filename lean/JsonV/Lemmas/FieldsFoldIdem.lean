/-
C15 helper lemmas: the ASCII arm of `foldName` produces a normal form (ASCII, no `_`/`-`, no lower case) and is
idempotent; `equalFold` is an equivalence.  Core Lean only.
-/
import JsonV.Lemmas.FieldsFold

namespace JsonV.Lemmas.Fields
open JsonV JsonV.Model JsonV.Model.Fold JsonV.Spec.FieldRule

theorem upperAscii_idem (c : UInt8) : upperAscii (upperAscii c) = upperAscii c := by
  rw [← UInt8.toNat_inj, upperAscii_toNat, upperAscii_toNat]
  have := c.toNat_lt
  split <;> (try split) <;> omega

theorem upperAscii_lt (c : UInt8) (h : c.toNat < 0x80) : (upperAscii c).toNat < 0x80 := by
  rw [upperAscii_toNat]; split <;> omega

theorem upperAscii_not_lower (c : UInt8) : ¬ (0x61 ≤ (upperAscii c).toNat ∧ (upperAscii c).toNat ≤ 0x7A) := by
  rw [upperAscii_toNat]; split <;> omega

theorem isDelim_upperAscii (c : UInt8) : isDelim (upperAscii c) = isDelim c := by
  have h := upperAscii_toNat c
  unfold isDelim
  rw [h]
  split
  · rename_i hc
    have h1 : (c.toNat - 32 == 0x5F) = false := by simp; omega
    have h2 : (c.toNat - 32 == 0x2D) = false := by simp; omega
    have h3 : (c.toNat == 0x5F) = false := by simp; omega
    have h4 : (c.toNat == 0x2D) = false := by simp; omega
    rw [h1, h2, h3, h4]
  · rfl

/-- Shape of a folded ASCII name: every byte is ASCII, none is `_`/`-`, none is a lower-case letter. -/
theorem foldName_ascii_shape (fr : Nat → Nat) (x : Bytes) (hx : IsAscii x) :
    ∀ c ∈ foldName fr x, c.toNat < 0x80 ∧ isDelim c = false ∧ ¬ (0x61 ≤ c.toNat ∧ c.toNat ≤ 0x7A) := by
  rw [foldName_ascii fr x hx]
  intro c hc
  rw [List.mem_map] at hc
  obtain ⟨a, ha, rfl⟩ := hc
  rw [List.mem_filter] at ha
  refine ⟨upperAscii_lt a (hx a ha.1), ?_, upperAscii_not_lower a⟩
  rw [isDelim_upperAscii]
  simpa using ha.2

theorem foldName_ascii_isAscii (fr : Nat → Nat) (x : Bytes) (hx : IsAscii x) : IsAscii (foldName fr x) :=
  fun c hc => (foldName_ascii_shape fr x hx c hc).1

/-- Folding a folded ASCII name changes nothing: the key of `byFoldedName` is a normal form. -/
theorem foldName_idem_ascii (fr : Nat → Nat) (x : Bytes) (hx : IsAscii x) :
    foldName fr (foldName fr x) = foldName fr x := by
  rw [foldName_ascii fr (foldName fr x) (foldName_ascii_isAscii fr x hx), foldName_ascii fr x hx]
  rw [List.filter_map, List.map_map]
  have hf : ((fun c => !isDelim c) ∘ upperAscii) = (fun c : UInt8 => !isDelim c) := by
    funext c; simp [isDelim_upperAscii]
  have hm : (upperAscii ∘ upperAscii) = upperAscii := by
    funext c; simp [upperAscii_idem]
  rw [hf, hm, List.filter_filter]
  simp

theorem equalFold_refl (fr : Nat → Nat) (s : Bytes) : equalFold fr s s = true := by
  simp [equalFold]

theorem equalFold_symm (fr : Nat → Nat) (s t : Bytes) : equalFold fr s t = equalFold fr t s := by
  unfold equalFold
  rw [Bool.eq_iff_iff]; simp only [beq_iff_eq]; exact eq_comm

theorem equalFold_trans (fr : Nat → Nat) (s t u : Bytes) (h1 : equalFold fr s t = true) (h2 : equalFold fr t u = true) :
    equalFold fr s u = true := by
  unfold equalFold at *
  simp only [beq_iff_eq] at *
  exact h1.trans h2

end JsonV.Lemmas.Fields
