/-
The member lookup of the struct unmarshaler: exact name first; otherwise the fields whose folded name
equals the folded member name and that `matchFoldedName`, in breadth-first id order.
-/
import JsonV.Model.Fields

namespace JsonV.Lemmas.Fields
open JsonV JsonV.Model JsonV.Model.Fields

theorem find_exact : ∀ (fs : List RField) (f : RField) (name : Bytes),
    (fs.map (·.name)).Nodup → f ∈ fs → f.name = name → fs.find? (fun x => x.name == name) = some f
  | [], _, _, _, h, _ => by simp at h
  | a :: as, f, name, hnd, hm, hn => by
    rw [List.map_cons, List.nodup_cons] at hnd
    rcases List.mem_cons.mp hm with rfl | hm'
    · simp [hn]
    · have hne : a.name ≠ name := by
        intro e
        exact hnd.1 (List.mem_map.mpr ⟨f, hm', by rw [hn, e]⟩)
      have : (a.name == name) = false := by simpa using hne
      rw [List.find?_cons, this]
      exact find_exact as f name hnd.2 hm' hn

/-- The fold-matching fields for `name`, in the order the lookup considers them. -/
def matching (foldRune : Nat → Nat) (fs : List RField) (name : Bytes) (fl : Fold.MatchFlags) : List RField :=
  (foldedCandidates foldRune fs name).filter (fun f => Fold.matchFoldedName foldRune f.name f.opts.casing name fl)

theorem mem_matching (foldRune fs name fl) (x : RField) :
    x ∈ matching foldRune fs name fl ↔
      x ∈ fs ∧ Fold.foldName foldRune x.name = Fold.foldName foldRune name ∧
      Fold.matchFoldedName foldRune x.name x.opts.casing name fl = true := by
  unfold matching foldedCandidates
  rw [List.mem_filter, (List.mergeSort_perm _ _).mem_iff, List.mem_filter]
  simp [and_assoc]

theorem matching_sorted (foldRune fs name fl) :
    (matching foldRune fs name fl).Pairwise (fun a b => a.id ≤ b.id) := by
  unfold matching foldedCandidates
  have h := List.pairwise_mergeSort (le := fun x y : RField => decide (x.id ≤ y.id))
    (fun a b c h1 h2 => by simp only [decide_eq_true_eq] at *; omega)
    (fun a b => by simp only [Bool.or_eq_true, decide_eq_true_eq]; omega)
    (fs.filter (fun f => Fold.foldName foldRune f.name == Fold.foldName foldRune name))
  exact (h.imp (fun hab => by simpa using hab)).sublist (List.filter_sublist)

theorem lookup_of_no_exact (foldRune fs name fl) (h : fs.find? (fun f => f.name == name) = none) :
    lookup foldRune fs name fl =
      match matching foldRune fs name fl with
      | [] => .unknown
      | [f] => .found f
      | f :: _ :: _ => if fl.legacyErrors then .found f else .ambiguous := by
  unfold lookup matching
  rw [h]
  rfl

end JsonV.Lemmas.Fields
