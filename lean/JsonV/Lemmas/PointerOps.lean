/-
Lemmas for C16, part 2: Parent / LastToken / Tokens / Contains on pointer texts.
-/
import JsonV.Lemmas.PointerEsc

namespace JsonV.Lemmas.Pointer
open JsonV JsonV.Model JsonV.Model.Pointer JsonV.Spec.Pointer

/-- `q` is empty or begins with '/'. -/
def SlashLed (q : Bytes) : Prop := q = [] ∨ ∃ r, q = cSlash :: r

theorem render_slashLed (ts : List Bytes) : SlashLed (render ts) := by
  cases ts with
  | nil => exact Or.inl rfl
  | cons t ts => exact Or.inr ⟨_, rfl⟩

theorem render_append (ts us : List Bytes) : render (ts ++ us) = render ts ++ render us := by
  induction ts with
  | nil => rfl
  | cons t ts ih => simp [render, ih]

/-! ### LastIndexByte -/

theorem lastIndexByte_none (c : UInt8) (s : Bytes) (h : ∀ b ∈ s, b ≠ c) : lastIndexByte c s = none := by
  induction s with
  | nil => rfl
  | cons b rest ih =>
    simp only [lastIndexByte, ih (fun x hx => h x (by simp [hx]))]
    simp [h b (by simp)]

theorem lastIndexByte_sep (c : UInt8) (p s : Bytes) (h : ∀ b ∈ s, b ≠ c) :
    lastIndexByte c (p ++ c :: s) = some p.length := by
  induction p with
  | nil => simp [lastIndexByte, lastIndexByte_none c s h]
  | cons a p ih => simp [lastIndexByte, ih]

theorem lastSlash_sep (p s : Bytes) (h : ∀ b ∈ s, b ≠ cSlash) : lastSlash (p ++ cSlash :: s) = p.length := by
  simp [lastSlash, lastIndexByte_sep cSlash p s h]

theorem parent_sep (p s : Bytes) (h : ∀ b ∈ s, b ≠ cSlash) : parent (p ++ cSlash :: s) = p := by
  simp [parent, lastSlash_sep p s h]

theorem lastToken_sep (p s : Bytes) (h : ∀ b ∈ s, b ≠ cSlash) : lastToken (p ++ cSlash :: s) = unescape s := by
  simp [lastToken, lastSlash_sep p s h, trimSlash]

theorem appendToken_eq (p t : Bytes) : appendToken p t = p ++ cSlash :: escapeTok (sanitize t) := by
  simp [appendToken, appendEscape_eq]

/-! ### Tokens -/

theorem cutAtSlash_sep (a q : Bytes) (ha : ∀ b ∈ a, b ≠ cSlash) (hq : SlashLed q) : cutAtSlash (a ++ q) = (a, q) := by
  induction a with
  | nil =>
    rcases hq with rfl | ⟨r, rfl⟩
    · rfl
    · simp [cutAtSlash]
  | cons x a ih =>
    have hx : x ≠ cSlash := ha x (by simp)
    have := ih (fun b hb => ha b (by simp [hb]))
    simp [cutAtSlash, hx, this]

theorem tokens_nil : tokens [] = [] := by rw [tokens]; simp

/-- One iteration of the `Tokens` loop on "/" + segment + rest. -/
theorem tokens_seg (a q : Bytes) (ha : ∀ b ∈ a, b ≠ cSlash) (hq : SlashLed q) :
    tokens (cSlash :: a ++ q) = unescape a :: tokens q := by
  rw [tokens]
  simp [trimSlash, cutAtSlash_sep a q ha hq]

theorem tokens_render (ts : List Bytes) : tokens (render ts) = ts := by
  induction ts with
  | nil => exact tokens_nil
  | cons t ts ih =>
    have := tokens_seg (escapeTok t) (render ts) (escapeTok_no_slash t) (render_slashLed ts)
    simp only [render]
    rw [show (0x2f : UInt8) = cSlash from rfl, this, ih, unescape_escapeTok]

theorem foldl_appendToken (ts : List Bytes) (p : Bytes) :
    ts.foldl appendToken p = p ++ render (ts.map sanitize) := by
  induction ts generalizing p with
  | nil => simp [render]
  | cons t ts ih =>
    simp only [List.foldl_cons, ih, appendToken_eq, List.map_cons, render]
    simp [cSlash]

/-- A slash-led text: the tokens of a concatenation are the concatenation of the tokens. -/
theorem tokens_append (p q : Bytes) (hp : SlashLed p) (hq : SlashLed q) : tokens (p ++ q) = tokens p ++ tokens q := by
  generalize hn : p.length = n
  induction n using Nat.strongRecOn generalizing p with
  | _ n ih =>
    rcases hp with rfl | ⟨r, rfl⟩
    · simp [tokens_nil]
    · -- r = a ++ rest with a slash-free, rest slash-led
      have hlen := cutAtSlash_length r
      have hsplit : ∀ r : Bytes, r = (cutAtSlash r).1 ++ (cutAtSlash r).2 ∧ (∀ b ∈ (cutAtSlash r).1, b ≠ cSlash) ∧
          SlashLed (cutAtSlash r).2 := by
        intro r
        induction r with
        | nil => exact ⟨rfl, by simp [cutAtSlash], Or.inl rfl⟩
        | cons x r ihr =>
          by_cases hx : x = cSlash
          · subst hx; simp only [cutAtSlash, if_true]; exact ⟨rfl, by simp, Or.inr ⟨_, rfl⟩⟩
          · simp only [cutAtSlash, hx, if_false]
            refine ⟨by simpa using ihr.1, ?_, ihr.2.2⟩
            intro b hb
            simp only [List.mem_cons] at hb
            rcases hb with h | h
            · subst h; exact hx
            · exact ihr.2.1 b h
      obtain ⟨h1, h2, h3⟩ := hsplit r
      generalize (cutAtSlash r).1 = a at *
      generalize (cutAtSlash r).2 = rest at *
      subst h1
      have e1 : cSlash :: (a ++ rest) ++ q = cSlash :: a ++ (rest ++ q) := by simp
      have hrq : SlashLed (rest ++ q) := by
        rcases h3 with rfl | ⟨r', rfl⟩
        · simpa using hq
        · exact Or.inr ⟨_, rfl⟩
      rw [e1, tokens_seg a (rest ++ q) h2 hrq]
      rw [show cSlash :: (a ++ rest) = cSlash :: a ++ rest by simp, tokens_seg a rest h2 h3]
      rw [ih rest.length (by simp at hn; omega) rest h3 rfl]
      simp

/-! ### Contains -/

theorem cutPrefix_append (p s : Bytes) : cutPrefix (p ++ s) p = some s := by
  induction p with
  | nil => cases s <;> rfl
  | cons a p ih => simp [cutPrefix, ih]

theorem cutPrefix_some (p q s : Bytes) (h : cutPrefix q p = some s) : q = p ++ s := by
  induction p generalizing q with
  | nil => cases q <;> simp_all [cutPrefix]
  | cons a p ih =>
    cases q with
    | nil => simp [cutPrefix] at h
    | cons b q =>
      simp only [cutPrefix] at h
      split at h
      · rename_i hab; subst hab; simp [ih q h]
      · simp at h

theorem contains_iff (p q : Bytes) : contains p q = true ↔ ∃ s, q = p ++ s ∧ SlashLed s := by
  unfold contains
  constructor
  · intro h
    split at h
    · simp at h
    · rename_i hc; exact ⟨[], cutPrefix_some _ _ _ hc, Or.inl rfl⟩
    · rename_i b r hc
      have : b = cSlash := by simpa using h
      subst this
      exact ⟨_, cutPrefix_some _ _ _ hc, Or.inr ⟨_, rfl⟩⟩
  · rintro ⟨s, rfl, hs⟩
    rw [cutPrefix_append]
    rcases hs with rfl | ⟨r, rfl⟩ <;> simp

/-- `Contains` on pointer texts = prefix on token lists. -/
theorem contains_render (ts us : List Bytes) : contains (render ts) (render us) = true ↔ ∃ r, us = ts ++ r := by
  rw [contains_iff]
  constructor
  · rintro ⟨s, hs, hled⟩
    have := congrArg tokens hs
    rw [tokens_render, tokens_append _ _ (render_slashLed ts) hled, tokens_render] at this
    exact ⟨_, this⟩
  · rintro ⟨r, rfl⟩
    exact ⟨render r, render_append ts r, render_slashLed r⟩

end JsonV.Lemmas.Pointer
