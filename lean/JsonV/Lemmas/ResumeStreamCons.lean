/-
Which reader events a streaming call consumes (C05): what is left is a suffix, and the I/O error is only ever
reported after a fault event was consumed.
-/
import JsonV.Model.Stream
namespace JsonV.Model.Stream
open JsonV JsonV.Model JsonV.Model.Validate JsonV.Model.TokenLoop

def Fill.evs {β : Type} : Fill β → List Event
  | .done _ _ es _ => es
  | .fault _ es => es
def Fill.isFault {β : Type} : Fill β → Bool
  | .done .. => false
  | .fault .. => true
def SRes.evs : SRes → List Event
  | .res _ _ _ es _ => es
  | .fault _ es => es
def SRes.isFault : SRes → Bool
  | .res .. => false
  | .fault .. => true

/-- the events left over are a suffix of the reader's events, and a fault is only reported when a fault event
was consumed -/
def Consumed (es : List Event) (rest : List Event) (isFault : Bool) : Prop :=
  ∃ pre, es = pre ++ rest ∧ (isFault = true → Event.fault ∈ pre)

theorem Consumed.refl (es : List Event) : Consumed es es false := ⟨[], rfl, by simp⟩

theorem Consumed.trans {es es1 es2 : List Event} {f : Bool} (h1 : Consumed es es1 false) (h2 : Consumed es1 es2 f) :
    Consumed es es2 f := by
  obtain ⟨p1, e1, _⟩ := h1
  obtain ⟨p2, e2, hf⟩ := h2
  refine ⟨p1 ++ p2, by rw [e1, e2, List.append_assoc], ?_⟩
  intro h; exact List.mem_append_right _ (hf h)

theorem Consumed.weaken {es es1 : List Event} {f : Bool} (h : Consumed es es1 f) : Consumed es es1 false := by
  obtain ⟨p, e, _⟩ := h
  exact ⟨p, e, by simp⟩

theorem setFetched_evs {β : Type} (f : Fill β) : f.setFetched.evs = f.evs ∧ f.setFetched.isFault = f.isFault := by
  cases f <;> exact ⟨rfl, rfl⟩

theorem refill_consumed {α β : Type} (step : Bytes → α → α ⊕ β) (atEof : Bytes → α → β) :
    ∀ (es : List Event) (v : Bytes) (a : α),
      Consumed es (refill step atEof v a es).evs (refill step atEof v a es).isFault := by
  intro es
  induction es with
  | nil => intro v a; simp only [refill]; split <;> exact Consumed.refl _
  | cons ev es ih =>
    intro v a
    cases ev with
    | eof => simp only [refill]; split <;> exact Consumed.refl _
    | fault =>
      simp only [refill]
      split
      · exact Consumed.refl _
      · exact ⟨[.fault], rfl, by simp⟩
    | chunk d =>
      simp only [refill]
      split
      · exact Consumed.refl _
      · rename_i a' _
        obtain ⟨pre, e, hf⟩ := ih (v ++ d) a'
        obtain ⟨s1, s2⟩ := setFetched_evs (refill step atEof (v ++ d) a' es)
        rw [s1, s2]
        refine ⟨.chunk d :: pre, by rw [List.cons_append, ← e], ?_⟩
        intro h; exact List.mem_cons_of_mem _ (hf h)
theorem atPos_consumed (u : Bytes) (pos : Nat) (f0 : Bool) {β : Type} (F : Fill β) (k : β → TRes) (es : List Event)
    (h : Consumed es F.evs F.isFault) : Consumed es (atPos u pos f0 F k).evs (atPos u pos f0 F k).isFault := by
  cases F <;> exact h

theorem lexS_consumed (o : VOpts) (st : TState) (u : Bytes) (pos : Nat) (es : List Event) (f0 : Bool) :
    Consumed es (lexS o st u pos es f0).evs (lexS o st u pos es f0).isFault := by
  unfold lexS
  simp only
  have hl : ∀ l, Consumed es (sLiteral l (u.drop pos) es).evs (sLiteral l (u.drop pos) es).isFault :=
    fun l => refill_consumed _ _ es _ _
  have hn : Consumed es (sNumber (u.drop pos) es).evs (sNumber (u.drop pos) es).isFault := refill_consumed _ _ es _ _
  have hs : Consumed es (sString (!o.allowInvalidUTF8) (u.drop pos) es).evs (sString (!o.allowInvalidUTF8) (u.drop pos) es).isFault :=
    refill_consumed _ _ es _ _
  split
  · exact Consumed.refl _
  · rename_i c vt hv
    have hl' := hl
    have hn' := hn
    have hs' := hs
    rw [hv] at hl' hn' hs'
    repeat' split
    all_goals first
      | exact Consumed.refl _
      | exact atPos_consumed _ _ _ _ _ _ (hl _)
      | exact atPos_consumed _ _ _ _ _ _ hn
      | exact atPos_consumed _ _ _ _ _ _ (hl' _)
      | exact atPos_consumed _ _ _ _ _ _ hn'
      | (simp_all [Fill.evs, Fill.isFault, SRes.evs, SRes.isFault]; done)

theorem scanWith_consumed (st : TState) (lex : Bytes → Nat → List Event → Bool → SRes)
    (hlex : ∀ u pos es f, Consumed es (lex u pos es f).evs (lex u pos es f).isFault) (u : Bytes) (es : List Event) :
    Consumed es (scanWith st lex u es).evs (scanWith st lex u es).isFault := by
  unfold scanWith
  have C1 : Consumed es (sWhitespace u 0 es).evs (sWhitespace u 0 es).isFault := refill_consumed _ _ es _ _
  cases hs : sWhitespace u 0 es with
  | fault u1 es1 => rw [hs] at C1; exact C1
  | done b u1 es1 f1 =>
    rw [hs] at C1
    obtain ⟨w, found⟩ := b
    have C1' : Consumed es es1 false := C1
    simp only
    split
    · exact C1'
    · split
      · exact C1'
      · rename_i c vt hd
        split
        · have C2 : Consumed es1 (sWhitespace (u1.drop (w + 1)) 0 es1).evs (sWhitespace (u1.drop (w + 1)) 0 es1).isFault :=
            refill_consumed _ _ es1 _ _
          cases hs2 : sWhitespace (u1.drop (w + 1)) 0 es1 with
          | fault v2 es2 =>
            rw [hs2] at C2
            have C2' : Consumed es1 es2 true := C2
            simp only
            split
            · exact (C1'.trans C2').weaken
            · exact C1'.trans C2'
          | done b2 v2 es2 f2 =>
            rw [hs2] at C2
            obtain ⟨p, found2⟩ := b2
            have C2' : Consumed es1 es2 false := C2
            have C12 := C1'.trans C2'
            simp only
            repeat' split
            all_goals first
              | exact C12
              | exact C12.trans (hlex _ _ _ _)
        · split
          · exact C1'
          · exact C1'.trans (hlex _ _ _ _)

theorem scanToken_consumed (o : VOpts) (st : TState) (u : Bytes) (es : List Event) :
    Consumed es (scanToken o st u es).evs (scanToken o st u es).isFault :=
  scanWith_consumed st (lexS o st) (lexS_consumed o st) u es

/-- a reader that never faults -/
def NoFault (es : List Event) : Prop := Event.fault ∉ es

theorem noFault_of_consumed {es rest : List Event} {f : Bool} (h : Consumed es rest f) (hn : NoFault es) :
    f = false ∧ NoFault rest := by
  obtain ⟨pre, e, hf⟩ := h
  subst e
  constructor
  · cases f
    · rfl
    · exact absurd (List.mem_append_left _ (hf rfl)) hn
  · intro hm; exact hn (List.mem_append_right _ hm)


end JsonV.Model.Stream
