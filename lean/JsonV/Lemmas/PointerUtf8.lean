/-
Lemmas for C16, part 5: UTF-8 round trip through `range`/`AppendRune`:
`sanitize t = t` for well-formed UTF-8, and `AppendToken` preserves `IsValid`.
Uses slice C11's decode/encode lemmas (Lemmas/QuoteUtf8.lean).
-/
import JsonV.Lemmas.PointerValid
import JsonV.Lemmas.QuoteUtf8

namespace JsonV.Lemmas.Pointer
open JsonV JsonV.Model JsonV.Model.Pointer JsonV.Spec.Pointer JsonV.Model.Utf8 JsonV.Lemmas.QuoteUtf8

/-- A multi-byte sequence decodes to a rune ≥ 0x80. -/
theorem multi_rune_ge (p : Bytes) (h : 1 < (decodeRune p).2) : 0x80 ≤ (decodeRune p).1 := by
  have hd := dec_sound p
  generalize decodeRune p = d at hd h
  cases hd with
  | nil => simp at h
  | ascii => simp at h
  | bad => simp at h
  | two h0 hl h1 h2 => have := leadInfo_exact hl; simp only [runeSelf] at h0; simp only; omega
  | three h0 hl h1 h2 hc2 => have := leadInfo_exact hl; simp only [runeSelf] at h0; simp only; omega
  | four h0 hl h1 h2 hc2 hc3 => have := leadInfo_exact hl; simp only [runeSelf] at h0; simp only; omega

theorem decodeRune_size_pos (c : UInt8) (t : Bytes) : 1 ≤ (decodeRune (c :: t)).2 := by
  have hd := dec_sound (c :: t)
  generalize decodeRune (c :: t) = d at hd
  cases hd <;> simp

theorem runes_cons (c : UInt8) (rest : Bytes) :
    runes (c :: rest) = (decodeRune (c :: rest)).1 :: runes (rest.drop ((decodeRune (c :: rest)).2 - 1)) := by
  unfold runes; rw [rangeStr_cons]; rfl

theorem drop_pred (c : UInt8) (rest : Bytes) (n : Nat) (h : 1 ≤ n) : rest.drop (n - 1) = (c :: rest).drop n := by
  cases n with
  | zero => omega
  | succ k => simp

/-- Go's `range` + `AppendRune` reproduce a well-formed UTF-8 string. -/
theorem sanitize_valid_aux : ∀ (fuel : Nat) (p : Bytes), p.length ≤ fuel → validAux fuel p = true → sanitize p = p := by
  intro fuel
  induction fuel with
  | zero => intro p hp _; cases p with
    | nil => rfl
    | cons c t => simp at hp
  | succ fuel ih =>
    intro p hp hv
    cases p with
    | nil => rfl
    | cons c t =>
      simp only [validAux] at hv
      split at hv
      · exact absurd hv (by simp)
      · rename_i hne
        have hpos := decodeRune_size_pos c t
        have hle := take_decodeRune_length (c :: t)
        have henc := encodeRune_decodeRune c t hne
        have hrec := ih ((c :: t).drop (decodeRune (c :: t)).2)
          (by simp only [List.length_drop, List.length_cons] at hp ⊢; omega) hv
        unfold sanitize at hrec ⊢
        rw [runes_cons, List.flatMap_cons, drop_pred c t _ hpos, hrec, henc, List.take_append_drop]

theorem sanitize_valid (t : Bytes) (h : Utf8.valid t = true) : sanitize t = t :=
  sanitize_valid_aux t.length t (Nat.le_refl _) h

/-! ### escape output passes the IsValid loop -/

theorem decodeRune_ascii' (c : UInt8) (t : Bytes) (h : c.toNat < 0x80) : decodeRune (c :: t) = (c.toNat, 1) :=
  decodeRune_ascii c t h

/-- One step of the loop over an ASCII byte that is not '~'. -/
theorem allStep_ascii (c : UInt8) (X : Bytes) (h : c.toNat < 0x80) (hne : c ≠ cTilde) :
    allStep (c :: X) = allStep X := by
  rw [allStep_cons, decodeRune_ascii' c X h]
  have h1 : c.toNat ≠ 0x7e := by
    intro hc; apply hne; exact UInt8.toNat_inj.mp (by simpa [cTilde] using hc)
  have h2 : c.toNat ≠ 0xFFFD := by omega
  simp [validStep, h1, h2]

theorem allStep_tilde (d : UInt8) (X : Bytes) (hd : d = c0 ∨ d = c1) : allStep (cTilde :: d :: X) = allStep X := by
  rw [allStep_cons, decodeRune_ascii' cTilde _ (by decide)]
  have hb : badTilde (cTilde :: d :: X) = false := by rcases hd with rfl | rfl <;> simp [badTilde]
  have : validStep (cTilde.toNat, cTilde :: d :: X) = true := by
    unfold validStep; rw [hb]; simp [cTilde]
  simp only [this, Bool.true_and, Nat.sub_self, List.drop_zero]
  rcases hd with rfl | rfl
  · exact allStep_ascii c0 X (by decide) (by decide)
  · exact allStep_ascii c1 X (by decide) (by decide)

theorem allStep_fffd (X : Bytes) : allStep (0xEF :: 0xBF :: 0xBD :: X) = allStep X := by
  rw [allStep_cons, decodeRune_fffd]
  simp [validStep, hasPrefix]

/-- The escaped form of any byte string passes the `IsValid` loop (followed by any accepted text). -/
theorem allStep_escape_append (t X : Bytes) (hX : allStep X = true) :
    allStep ((runes t).flatMap escRune ++ X) = true := by
  generalize hn : t.length = n
  induction n using Nat.strongRecOn generalizing t with
  | _ n ih =>
    cases t with
    | nil => simpa [runes, rangeStr, rangeAux] using hX
    | cons c rest =>
      rw [runes_cons, List.flatMap_cons, List.append_assoc]
      have hpos := decodeRune_size_pos c rest
      have hlen := take_decodeRune_length (c :: rest)
      have hrec := ih (rest.drop ((decodeRune (c :: rest)).2 - 1)).length
        (by simp only [List.length_drop, List.length_cons] at hn ⊢; omega) _ rfl
      generalize (runes (rest.drop ((decodeRune (c :: rest)).2 - 1))).flatMap escRune ++ X = Y at hrec
      by_cases hasc : c.toNat < runeSelf
      · -- ASCII
        rw [decodeRune_ascii c rest hasc]
        simp only [runeSelf] at hasc
        unfold escRune
        by_cases h7 : c.toNat = 0x7e
        · simp only [h7, if_true, List.cons_append, List.nil_append]
          rw [allStep_tilde c0 Y (Or.inl rfl)]; exact hrec
        · by_cases h2 : c.toNat = 0x2f
          · rw [h2, if_neg (by decide), if_pos rfl]
            simp only [List.cons_append, List.nil_append]
            rw [allStep_tilde c1 Y (Or.inr rfl)]; exact hrec
          · have henc : encodeRune c.toNat = [c] := by
              have := encodeRune_decodeRune c rest (by rw [decodeRune_ascii c rest (by simpa [runeSelf] using hasc)]; simp [runeError]; omega)
              rw [decodeRune_ascii c rest (by simpa [runeSelf] using hasc)] at this
              simpa using this
            simp only [h7, h2, if_false, henc, List.cons_append, List.nil_append]
            rw [allStep_ascii c Y hasc (by intro hc; subst hc; exact h7 rfl)]; exact hrec
      · rcases decodeRune_high c rest hasc with hmulti | hbad
        · -- a well-formed multi-byte sequence is copied
          have hge := multi_rune_ge (c :: rest) hmulti
          have hne : ¬ ((decodeRune (c :: rest)).1 = runeError ∧ (decodeRune (c :: rest)).2 = 1) := by omega
          have henc := encodeRune_decodeRune c rest hne
          have hdec := decodeRune_take_append (c :: rest) Y hmulti
          have hesc : escRune (decodeRune (c :: rest)).1 = (c :: rest).take (decodeRune (c :: rest)).2 := by
            unfold escRune
            rw [if_neg (by omega), if_neg (by omega)]; exact henc
          rw [hesc]
          -- the piece is c :: take (n-1) rest
          have htk : (c :: rest).take (decodeRune (c :: rest)).2 = c :: rest.take ((decodeRune (c :: rest)).2 - 1) := by
            obtain ⟨k, hk⟩ : ∃ k, (decodeRune (c :: rest)).2 = k + 1 := ⟨(decodeRune (c :: rest)).2 - 1, by omega⟩
            rw [hk]; simp
          rw [htk] at hdec hlen ⊢
          rw [List.cons_append] at hdec
          rw [List.cons_append, allStep_cons, hdec]
          have hdrop : (rest.take ((decodeRune (c :: rest)).2 - 1) ++ Y).drop ((decodeRune (c :: rest)).2 - 1) = Y := by
            have : (rest.take ((decodeRune (c :: rest)).2 - 1)).length = (decodeRune (c :: rest)).2 - 1 := by
              simp only [List.length_cons] at hlen; omega
            rw [List.drop_append_of_le_length (by omega), List.drop_of_length_le (by omega), List.nil_append]
          rw [hdrop, hrec, Bool.and_true]
          -- validStep: the rune is ≥ 0x80, and if it is U+FFFD its encoding EF BF BD is in place
          unfold validStep
          rw [if_neg (by simp only []; omega)]
          by_cases hf : (decodeRune (c :: rest)).1 = 0xFFFD
          · have h3 : encodeRune 0xFFFD = [0xEF, 0xBF, 0xBD] := by decide
            rw [hf, h3, htk] at henc
            rw [← List.cons_append, ← henc]
            simp [hasPrefix]
          · simp [hf]
        · rw [hbad]
          have : escRune runeError = [0xEF, 0xBF, 0xBD] := by decide
          rw [this, List.cons_append, List.cons_append, List.cons_append, List.nil_append, allStep_fffd]; exact hrec

/-- `AppendToken` keeps a pointer valid, whatever bytes the token holds. -/
theorem isValid_appendToken (p t : Bytes) (hp : isValid p = true) : isValid (appendToken p t) = true := by
  have happ : appendToken p t = p ++ (cSlash :: (runes t).flatMap escRune) := by
    simp [appendToken, appendEscapePointerName]
  rw [happ]
  apply isValid_append p _ hp
  rw [isValid_eq, Bool.and_eq_true]
  refine ⟨?_, by simp⟩
  rw [allStep_ascii cSlash _ (by decide) (by decide)]
  simpa using allStep_escape_append t [] allStep_nil

end JsonV.Lemmas.Pointer
