/-
Wrap-around facts (`toU64`, `toI64`, `wrapI`), `negateSecNano`, and the round trip of the decimal
duration codec `appendDurationBase10`/`parseDurationBase10` for every int64.  Core Lean only.
-/
import JsonV.Lemmas.TimePadded

namespace JsonV.Model.Time
open JsonV

theorem ite_eq_of {c : Prop} [Decidable c] {α : Type} {a b x : α} (h1 : c → a = x) (h2 : ¬c → b = x) : (if c then a else b) = x := by
  by_cases h : c
  · rw [if_pos h]; exact h1 h
  · rw [if_neg h]; exact h2 h

theorem toU64_nonneg {i : Int} (h0 : 0 ≤ i) (h1 : i < 18446744073709551616) : toU64 i = i.toNat := by
  simp only [toU64, U64]; omega
theorem toU64_neg {i : Int} (h0 : i < 0) (h1 : -18446744073709551616 ≤ i) : toU64 i = (i + 18446744073709551616).toNat := by
  simp only [toU64, U64]; omega
theorem toI64_small {n : Nat} (h : n < 9223372036854775808) : toI64 n = n := by
  simp only [toI64, U64, I63]; apply ite_eq_of <;> intro h <;> omega
theorem toI64_big {n : Nat} (h1 : 9223372036854775808 ≤ n) (h2 : n < 18446744073709551616) : toI64 n = (n : Int) - 18446744073709551616 := by
  simp only [toI64, U64, I63]; apply ite_eq_of <;> intro h <;> omega
theorem wrapI_id {i : Int} (h0 : -9223372036854775808 ≤ i) (h1 : i < 9223372036854775808) : wrapI i = i := by
  simp only [wrapI, toI64, toU64, U64, I63]; apply ite_eq_of <;> intro h <;> omega

theorem negate_spec (sec nsec : Int) (hs0 : -9223372036854775808 ≤ sec) (hs1 : sec < 9223372036854775808)
    (hn0 : 0 ≤ nsec) (hn1 : nsec < 1000000000) :
    negateSecNano sec nsec = (if nsec = 0 then (if sec = -9223372036854775808 then sec else -sec) else -sec - 1, if nsec = 0 then 0 else 1000000000 - nsec) := by
  unfold negateSecNano
  have e1 : wrapI (wrapI (-nsec) + 1000000000) = 1000000000 - nsec := by
    rw [wrapI_id (i := -nsec) (by omega) (by omega), wrapI_id (by omega) (by omega)]; omega
  simp only [e1]
  rw [Int.tdiv_eq_ediv_of_nonneg (by omega), Int.tmod_eq_emod_of_nonneg (by omega)]
  have e2 : toI64 (U64 - 1 - toU64 sec) = -sec - 1 := by
    simp only [toI64, toU64, U64, I63]; apply ite_eq_of <;> intro h <;> omega
  rw [e2]
  by_cases h0 : nsec = 0
  · subst h0
    simp only [if_true]
    have : (1000000000 - 0 : Int) / 1000000000 = 1 := by decide
    rw [this]
    by_cases hm : sec = -9223372036854775808
    · subst hm; simp only [if_true]; decide
    · rw [if_neg hm, wrapI_id (by omega) (by omega)]
      simp
  · rw [if_neg h0, if_neg h0]
    have : (1000000000 - nsec) / 1000000000 = 0 := by omega
    rw [this, wrapI_id (by omega) (by omega)]
    simp; omega

/-- `negate_involutive`: for every int64 `sec` and `nsec ∈ [0, 10^9)`, negating twice is the identity
(including `MinInt64`, where the negation of the seconds wraps both times). -/
theorem negate_involutive (sec nsec : Int) (hs0 : -9223372036854775808 ≤ sec) (hs1 : sec < 9223372036854775808)
    (hn0 : 0 ≤ nsec) (hn1 : nsec < 1000000000) :
    negateSecNano (negateSecNano sec nsec).1 (negateSecNano sec nsec).2 = (sec, nsec) := by
  rw [negate_spec sec nsec hs0 hs1 hn0 hn1]
  by_cases h0 : nsec = 0
  · subst h0
    simp only [if_true]
    by_cases hm : sec = -9223372036854775808
    · subst hm; simp only [if_true]
      rw [negate_spec _ _ (by omega) (by omega) (by omega) (by omega)]; simp
    · rw [if_neg hm, negate_spec _ _ (by omega) (by omega) (by omega) (by omega)]
      simp only [if_true]
      rw [if_neg (by omega)]; simp
  · rw [if_neg h0, if_neg h0, negate_spec _ _ (by omega) (by omega) (by omega) (by omega)]
    rw [if_neg (by omega), if_neg (by omega)]
    congr 1 <;> omega

/-- after negation the nanoseconds stay in `[0, 10^9)` and the seconds stay an int64. -/
theorem negate_range (sec nsec : Int) (hs0 : -9223372036854775808 ≤ sec) (hs1 : sec < 9223372036854775808)
    (hn0 : 0 ≤ nsec) (hn1 : nsec < 1000000000) :
    -9223372036854775808 ≤ (negateSecNano sec nsec).1 ∧ (negateSecNano sec nsec).1 < 9223372036854775808 ∧
    0 ≤ (negateSecNano sec nsec).2 ∧ (negateSecNano sec nsec).2 < 1000000000 := by
  rw [negate_spec sec nsec hs0 hs1 hn0 hn1]
  by_cases h0 : nsec = 0
  · subst h0; simp only [if_true]
    by_cases hm : sec = -9223372036854775808
    · subst hm; simp
    · rw [if_neg hm]; omega
  · rw [if_neg h0, if_neg h0]; omega

/-! ### sign handling -/

theorem mayAppend_spec (b : Bytes) (d : Int) (h0 : -9223372036854775808 ≤ d) (h1 : d < 9223372036854775808) :
    mayAppendDurationSign b d = (if d < 0 then b ++ [cMinus] else b, d.natAbs) := by
  unfold mayAppendDurationSign
  by_cases hn : d < 0
  · rw [if_pos hn, if_pos hn]
    congr 1
    by_cases hm : d = -9223372036854775808
    · subst hm; decide
    · rw [wrapI_id (by omega) (by omega), toU64_nonneg (by omega) (by omega)]; omega
  · rw [if_neg hn, if_neg hn, toU64_nonneg (by omega) (by omega)]; congr 1; omega

/-- applying the sign to the magnitude of an int64 gives it back (the magnitude 2^63 wraps to MinInt64). -/
theorem mayApply_natAbs (d : Int) (h0 : -9223372036854775808 ≤ d) (h1 : d < 9223372036854775808) :
    mayApplyDurationSign d.natAbs (decide (d < 0)) = d := by
  unfold mayApplyDurationSign
  by_cases hn : d < 0
  · simp only [hn, decide_true, if_true]
    by_cases hm : d = -9223372036854775808
    · subst hm; decide
    · rw [toI64_small (by omega), wrapI_id (by omega) (by omega)]; omega
  · simp only [hn, decide_false, Bool.false_eq_true, if_false]
    rw [toI64_small (by omega), wrapI_id (by omega) (by omega)]; omega

/-! ### text helpers -/

theorem consumeSign_minus (rest : Bytes) (ap : Bool) : consumeSign (cMinus :: rest) ap = (rest, true) := by
  simp [consumeSign]

theorem consumeSign_digit (c : UInt8) (rest : Bytes) (h : isDigit c = true) (ap : Bool) :
    consumeSign (c :: rest) ap = (c :: rest, false) := by
  have h1 : c ≠ cMinus := digit_ne h (by decide)
  have h2 : c ≠ cPlus := digit_ne h (by decide)
  simp [consumeSign, h1, h2]

theorem consumeSign_natDigits (n : Nat) (rest : Bytes) (ap : Bool) :
    consumeSign (natDigits n ++ rest) ap = (natDigits n ++ rest, false) := by
  have hall := natDigits_allDigits n
  cases hd : natDigits n with
  | nil => exact absurd hd (natDigits_ne_nil n)
  | cons c cs =>
    rw [hd] at hall
    simp only [List.all_cons, Bool.and_eq_true] at hall
    exact consumeSign_digit c _ hall.1 ap

theorem bytesCutByte_digits (ds rest : Bytes) (hd : ds.all isDigit = true)
    (hr : rest = [] ∨ ∃ t, rest = cDot :: t) : bytesCutByte cDot true (ds ++ rest) = (ds, rest) := by
  induction ds with
  | nil =>
    rcases hr with rfl | ⟨t, rfl⟩
    · rfl
    · simp [bytesCutByte]
  | cons c cs ih =>
    simp only [List.all_cons, Bool.and_eq_true] at hd
    have hne : c ≠ cDot := digit_ne hd.1 (by decide)
    rw [List.cons_append, bytesCutByte, if_neg hne, ih hd.2]

theorem fracText_dot (k f : Nat) : fracText k f = [] ∨ ∃ t, fracText k f = cDot :: t := by
  rcases fracText_shape k f with h | ⟨ds, h, _⟩
  · exact Or.inl h
  · exact Or.inr ⟨ds, h⟩

theorem appendFrac_eq' (b : Bytes) (k f : Nat) (hlt : f < 10 ^ k) :
    appendFracBase10 b f (10 ^ k) = b ++ fracText k f := by
  cases k with
  | zero =>
    have : f = 0 := by simpa using hlt
    subst this; simp [appendFracBase10, fracText]
  | succ k => exact appendFrac_eq b k f hlt

/-! ### the decimal duration codec -/

/-- parsing `[-]whole[.frac]` written canonically. -/
theorem parseDur_canonical (k whole frac : Nat) (neg : Bool) (hf : frac < 10 ^ k)
    (hn : whole * 10 ^ k + frac < U64) (hk : 0 < 10 ^ k) :
    parseDurationBase10 ((if neg then [cMinus] else []) ++ (natDigits whole ++ fracText k frac)) (10 ^ k) =
      (let d := mayApplyDurationSign (whole * 10 ^ k + frac) neg
       if neg ≠ decide (d < 0) then .error .range else .ok d) := by
  have hw : whole < U64 := by
    have : whole ≤ whole * 10 ^ k := Nat.le_mul_of_pos_right _ hk
    omega
  have hcs : consumeSign ((if neg then [cMinus] else []) ++ (natDigits whole ++ fracText k frac)) false
      = (natDigits whole ++ fracText k frac, neg) := by
    cases neg with
    | true => simp only [if_true]; exact consumeSign_minus _ _
    | false => simp only [Bool.false_eq_true, if_false, List.nil_append]; exact consumeSign_natDigits _ _ _
  have hcut := bytesCutByte_digits (natDigits whole) (fracText k frac) (natDigits_allDigits _) (fracText_dot k frac)
  have hpu := parseUint_natDigits hw
  have hpf := parseFrac_fracText k frac hf
  have hmul : mul64 whole (10 ^ k) = (0, whole * 10 ^ k) := by
    simp only [mul64]
    rw [Nat.div_eq_of_lt (by omega), Nat.mod_eq_of_lt (by omega)]
  have hadd : add64 (whole * 10 ^ k) frac 0 = (whole * 10 ^ k + frac, 0) := by
    simp only [add64, Nat.add_zero]
    rw [Nat.div_eq_of_lt hn, Nat.mod_eq_of_lt hn]
  unfold parseDurationBase10
  simp only [hcs, hcut, hpu, hpf, hmul, hadd]
  simp

/-- `durB10_rt` for a base `10^k` with `10^k ≤ 2^63`: every int64 duration survives the decimal codec. -/
theorem durB10_roundtrip_pow (k : Nat) (d : Int) (h0 : -9223372036854775808 ≤ d) (h1 : d < 9223372036854775808) :
    parseDurationBase10 (appendDurationBase10 [] d (10 ^ k)) (10 ^ k) = .ok d := by
  have hk : 0 < 10 ^ k := Nat.pow_pos (by decide)
  have hfr : d.natAbs % 10 ^ k < 10 ^ k := Nat.mod_lt _ hk
  have happ : appendDurationBase10 [] d (10 ^ k) =
      (if decide (d < 0) then [cMinus] else []) ++ (natDigits (d.natAbs / 10 ^ k) ++ fracText k (d.natAbs % 10 ^ k)) := by
    unfold appendDurationBase10
    rw [mayAppend_spec [] d h0 h1]
    simp only [div64, Nat.zero_mul, Nat.zero_add]
    rw [appendFrac_eq' _ k _ hfr]
    by_cases hn : d < 0 <;> simp [hn]
  have hsum : d.natAbs / 10 ^ k * 10 ^ k + d.natAbs % 10 ^ k = d.natAbs := by
    rw [Nat.mul_comm]; exact Nat.div_add_mod _ _
  rw [happ, parseDur_canonical k _ _ _ hfr (by rw [hsum]; simp only [U64]; omega) hk, hsum]
  simp only [mayApply_natAbs d h0 h1]
  simp

end JsonV.Model.Time
