/-
Lemmas about the token grammar (`step`/`accepts`), delimiter insertion and removal, and the whitespace
produced by the renderer of the C12 model.
-/
import JsonV.Lemmas.FormatLex

namespace JsonV.Fmt

/-! ### delimiters in, delimiters out -/

def delimLex : Option Delim → List Lex
  | some d => [.delim d]
  | none => []

/-- The lexemes of the rendered text: tokens with the delimiters the grammar requires. -/
def punct : Stack → List Tok → List Lex
  | _, [] => []
  | st, t :: ts =>
    match step st t with
    | some (d, st') => delimLex d ++ .tok t :: punct st' ts
    | none => .tok t :: punct st ts

theorem pieces_map_snd (o : WsOpts) : ∀ (ts : List Tok) (st : Stack),
    (pieces o st ts).map Prod.snd = punct st ts := by
  intro ts
  induction ts with
  | nil => intro st; rfl
  | cons t ts ih =>
    intro st
    simp only [pieces, punct]
    cases hs : step st t with
    | none => simp [ih]
    | some p =>
      obtain ⟨d, st'⟩ := p
      cases d <;> simp [delimPiece, delimLex, ih]

theorem accepts_cons {st : Stack} {t : Tok} {ts : List Tok} (h : accepts st (t :: ts) = true) :
    ∃ d st', step st t = some (d, st') ∧ accepts st' ts = true := by
  simp only [accepts] at h
  split at h
  · rename_i d st' hs; exact ⟨d, st', hs, h⟩
  · simp at h

theorem unpunct_punct : ∀ (ts : List Tok) (st : Stack), accepts st ts = true → unpunct st (punct st ts) = some ts := by
  intro ts
  induction ts with
  | nil =>
    intro st h
    simp only [accepts, beq_iff_eq] at h
    simp [punct, unpunct, h]
  | cons t ts ih =>
    intro st h
    obtain ⟨d, st', hs, h'⟩ := accepts_cons h
    simp only [punct, hs]
    cases d with
    | none => simp [delimLex, unpunct, hs, ih _ h', consT]
    | some d => simp [delimLex, unpunct, hs, ih _ h', consT]

theorem consT_eq_some {t : Tok} {x : Option (List Tok)} {ts : List Tok} :
    consT t x = some ts ↔ ∃ ts', ts = t :: ts' ∧ x = some ts' := by
  cases x <;> simp [consT, eq_comm]

/-- Whatever passes the grammar check is accepted by the grammar, and its tokens are tokens of the input. -/
theorem unpunct_sound : ∀ (n : Nat) (ls : List Lex) (st : Stack) (ts : List Tok), ls.length ≤ n →
    unpunct st ls = some ts → accepts st ts = true ∧ ∀ t ∈ ts, Lex.tok t ∈ ls := by
  intro n
  induction n with
  | zero =>
    intro ls st ts hl h
    have : ls = [] := List.length_eq_zero_iff.mp (Nat.le_zero.mp hl)
    subst this
    simp only [unpunct] at h
    split at h
    · rename_i hst; simp at h; subst h; simp [accepts, hst]
    · simp at h
  | succ n ih =>
    intro ls st ts hl h
    match ls, h with
    | [], h =>
      simp only [unpunct] at h
      split at h
      · rename_i hst; simp at h; subst h; simp [accepts, hst]
      · simp at h
    | .tok t :: ls, h =>
      simp only [unpunct] at h
      split at h
      · rename_i st' hs
        obtain ⟨ts', rfl, h'⟩ := consT_eq_some.mp h
        have := ih ls st' ts' (by simp at hl; omega) h'
        refine ⟨by simp [accepts, hs, this.1], ?_⟩
        intro x hx
        rcases List.mem_cons.mp hx with rfl | hx
        · simp
        · exact List.mem_cons_of_mem _ (this.2 x hx)
      · simp at h
    | .delim d :: .tok t :: ls, h =>
      simp only [unpunct] at h
      split at h
      · rename_i d' st' hs
        split at h
        · obtain ⟨ts', rfl, h'⟩ := consT_eq_some.mp h
          have := ih ls st' ts' (by simp at hl; omega) h'
          refine ⟨by simp [accepts, hs, this.1], ?_⟩
          intro x hx
          rcases List.mem_cons.mp hx with rfl | hx
          · simp
          · exact List.mem_cons_of_mem _ (List.mem_cons_of_mem _ (this.2 x hx))
        · simp at h
      · simp at h
    | [.delim _], h => simp [unpunct] at h
    | .delim _ :: .delim _ :: _, h => simp [unpunct] at h

/-! ### whitespace of the renderer -/

theorem allWs_append (a b : Bytes) : allWs (a ++ b) = (allWs a && allWs b) := by
  simp [allWs, List.all_append]

theorem allWs_repeat (b : Bytes) (hb : allWs b = true) : ∀ k, allWs (repeatBytes b k) = true := by
  intro k
  induction k with
  | zero => rfl
  | succ k ih => simp [repeatBytes, allWs_append, hb, ih]

theorem allWs_nl (o : WsOpts) (ho : o.Blank) (k : Nat) : allWs (nl o k) = true := by
  unfold nl
  split
  · have : allWs (o.pre ++ repeatBytes o.ind k) = true := by
      simp [allWs_append, ho.1, allWs_repeat _ ho.2]
    simpa [allWs, isWs] using this
  · rfl

theorem allWs_sp (b : Bool) : allWs (sp b) = true := by cases b <;> decide

theorem allWs_wsBefore (o : WsOpts) (ho : o.Blank) (st : Stack) (t : Tok) : allWs (wsBefore o st t) = true := by
  unfold wsBefore
  split
  · split
    · rfl
    · exact allWs_nl o ho _
  · split <;> simp [allWs_append, allWs_nl o ho, allWs_sp]
  · split
    · rfl
    · exact allWs_nl o ho _
  · split <;> simp [allWs_append, allWs_nl o ho, allWs_sp]
  · exact allWs_sp _
  · rfl

theorem wsBefore_compact (st : Stack) (t : Tok) : wsBefore compactOpts st t = [] := by
  unfold wsBefore
  split <;> (try split) <;> simp [nl, sp, compactOpts]

/-! ### what follows a completed value is never a number character -/

theorem headOK_ws_cons (w : Bytes) (x : UInt8) (rest : Bytes) (hw : allWs w = true) (hx : isNumChar x = false) :
    headOK (w ++ (x :: rest)) := by
  intro c hc
  cases w with
  | nil => simp at hc; subst hc; exact hx
  | cons c' w' =>
    simp at hc; subst hc
    simp only [allWs, List.all_cons, Bool.and_eq_true] at hw
    exact ws_not_numChar _ hw.1

/-- the context right after a value: complete top level, array element, member value -/
def afterValue (st : Stack) : Prop := ∃ f s, st = f :: s ∧ (f = .top1 ∨ f = .arrN ∨ f = .objV)

theorem afterValue_num {st st' : Stack} {raw : Bytes} {d : Option Delim}
    (h : step st (.num raw) = some (d, st')) : afterValue st' := by
  cases st with
  | nil => simp [step] at h
  | cons f s =>
    cases f <;> simp [step, Fr.value] at h <;> obtain ⟨_, rfl⟩ := h <;> exact ⟨_, _, rfl, by simp⟩

theorem head_after_value (o : WsOpts) (ho : o.Blank) (ts : List Tok) (st : Stack)
    (hst : afterValue st) (hacc : accepts st ts = true) : headOK (flatWs (pieces o st ts)) := by
  cases ts with
  | nil => exact headOK_nil
  | cons t ts =>
    obtain ⟨d, st', hs, _⟩ := accepts_cons hacc
    obtain ⟨f, s, rfl, hf⟩ := hst
    simp only [pieces, hs]
    cases d with
    | some d =>
      cases d <;> exact headOK_ws_cons [] _ _ rfl (by decide)
    | none =>
      have hw := allWs_wsBefore o ho (f :: s) t
      rcases hf with rfl | rfl | rfl
      · cases t <;> simp [step, Fr.value] at hs
      · cases t <;> simp [step, Fr.value] at hs
        · exact headOK_ws_cons _ _ _ hw (by decide)
        all_goals (split at hs <;> simp at hs)
      · cases t <;> simp [step, Fr.value] at hs
        · exact headOK_ws_cons _ _ _ hw (by decide)
        all_goals (split at hs <;> simp at hs)

end JsonV.Fmt
