/-
Glue C12 ↔ C01, numbers: the C12 recogniser `scanNum` accepts exactly the literals of the RFC 8259 grammar
`JNumber` (Spec/Grammar.lean), through a bisimulation with the DFA of Lemmas/WireNumber.lean.
-/
import JsonV.Lemmas.FormatLex
import JsonV.Lemmas.WireNumber

namespace JsonV.Fmt
open JsonV.Spec.Grammar
open JsonV.Lemmas.WireNumber (St δ run acc jnumber_iff_acc run_dead)

/-- the state map of the bisimulation -/
def NSt.toSt : NSt → St
  | .start => .start | .minus => .minus | .zero => .zero | .int => .int | .dot => .dot
  | .frac => .frac | .exp => .e | .expSign => .esign | .expDigits => .exp

theorem toSt_acc (st : NSt) : acc st.toSt = st.accept := by cases st <;> rfl

theorem toSt_next : ∀ (st : NSt) (c : UInt8),
    δ st.toSt c = (match st.next c with | some st' => st'.toSt | none => .dead) := by
  intro st
  apply forall_u8
  cases st <;> decide +kernel

theorem toSt_ne_dead (st : NSt) : st.toSt ≠ .dead := by cases st <;> simp [NSt.toSt]

theorem scanNum_iff_acc : ∀ (p : Bytes) (st : NSt), scanNum st p = some (p, []) ↔ acc (run st.toSt p) = true := by
  intro p
  induction p with
  | nil =>
    intro st
    simp only [scanNum, run, toSt_acc]
    cases st.accept <;> simp
  | cons c cs ih =>
    intro st
    have hn := toSt_next st c
    simp only [scanNum, run]
    cases hnx : st.next c with
    | none =>
      rw [hnx] at hn
      simp only [hn, run_dead]
      constructor
      · intro h; split at h <;> simp at h
      · intro h; simp [acc] at h
    | some st' =>
      rw [hnx] at hn
      simp only [hn]
      rw [← ih st']
      constructor
      · intro h
        obtain ⟨a', ha, h'⟩ := consFst_eq_some.mp h
        simp only [List.cons.injEq, true_and] at ha
        subst ha; exact h'
      · intro h; simp [h, consFst]

/-- **`scanNum` = the number grammar of RFC 8259.** -/
theorem scanNum_iff' (lit : Bytes) : scanNum .start lit = some (lit, []) ↔ JNumber lit := by
  rw [scanNum_iff_acc, jnumber_iff_acc]; rfl

end JsonV.Fmt
