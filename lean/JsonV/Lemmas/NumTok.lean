/-
C10 lemmas: Token.Int / Token.Uint on a token built with jsontext.Float or jsontext.Float32.
-/
import JsonV.Lemmas.NumInt

namespace JsonV.Lemmas.NumTok
open JsonV JsonV.Model.Number

/-- The signed truncation toward zero of a finite value. -/
def truncInt (f : Fl) : Int := if f.neg then -(f.truncAbs : Int) else f.truncAbs

theorem absGe_iff (f : Fl) (hf : f.inf = false) (k : Nat) : f.absGe k = true ↔ k ≤ f.truncAbs := by
  simp only [Fl.absGe, hf, Bool.false_or, Fl.truncAbs]
  by_cases he : f.exp ≥ 0
  · simp [he]
  · simp only [he, if_false, decide_eq_true_eq, ge_iff_le]
    exact (Nat.le_div_iff_mul_le (Nat.pow_pos (by decide))).symm

theorem absGt_of_trunc (f : Fl) (hf : f.inf = false) (k : Nat) (h : k < f.truncAbs) : f.absGt k = true := by
  simp only [Fl.absGt, hf, Bool.false_or, Fl.truncAbs] at h ⊢
  by_cases he : f.exp ≥ 0
  · simpa [he] using h
  · simp only [he, if_false, decide_eq_true_eq, gt_iff_lt] at h ⊢
    have hp : 0 < 2 ^ (-f.exp).toNat := Nat.pow_pos (by decide)
    have := (Nat.le_div_iff_mul_le hp).1 (show k + 1 ≤ f.mant / 2 ^ (-f.exp).toNat from h)
    rw [Nat.add_mul] at this
    omega

theorem trunc_of_absGt (f : Fl) (hf : f.inf = false) (k : Nat) (h : f.absGt k = true) : k ≤ f.truncAbs := by
  simp only [Fl.absGt, hf, Bool.false_or, Fl.truncAbs] at h ⊢
  by_cases he : f.exp ≥ 0
  · simp only [he, if_true, decide_eq_true_eq] at h ⊢; omega
  · simp only [he, if_false, decide_eq_true_eq, gt_iff_lt] at h ⊢
    exact (Nat.le_div_iff_mul_le (Nat.pow_pos (by decide))).2 (by omega)

/-- For an integral value, `|f| > k` is `⌊|f|⌋ > k`. -/
theorem absGt_iff_integral (f : Fl) (hf : f.inf = false) (hi : f.isIntegral = true) (k : Nat) :
    f.absGt k = true ↔ k < f.truncAbs := by
  constructor
  · intro h
    simp only [Fl.absGt, hf, Bool.false_or, Fl.truncAbs] at h ⊢
    simp only [Fl.isIntegral, hf, Bool.false_or, Bool.or_eq_true, decide_eq_true_eq, beq_iff_eq] at hi
    by_cases he : f.exp ≥ 0
    · simpa [he] using h
    · simp only [he, if_false, decide_eq_true_eq, gt_iff_lt] at h ⊢
      rcases hi with hi | hi
      · exact absurd hi he
      · have hp : 0 < 2 ^ (-f.exp).toNat := Nat.pow_pos (by decide)
        have hm := Nat.div_add_mod f.mant (2 ^ (-f.exp).toNat)
        rw [hi, Nat.add_zero] at hm
        rw [← hm, Nat.mul_comm] at h
        exact Nat.lt_of_mul_lt_mul_left h
  · exact absGt_of_trunc f hf k

/-- token.go `f64toi64` is truncation toward zero, saturated to the int64 range. -/
theorem f64toi64_clamp (f : Fl) (hf : f.inf = false) :
    f64toi64 f = if truncInt f < -(2 ^ 63) then -(2 ^ 63) else if truncInt f ≥ 2 ^ 63 then 2 ^ 63 - 1 else truncInt f := by
  unfold f64toi64 truncInt
  have hge := absGe_iff f hf (2 ^ 63)
  cases hn : f.neg with
  | false =>
    simp only [Bool.not_false, Bool.true_and, Bool.false_and, Bool.false_eq_true, if_false]
    by_cases h : 2 ^ 63 ≤ f.truncAbs
    · rw [if_pos (hge.2 h), if_neg (by omega), if_pos (by omega)]
    · rw [if_neg (fun hh => h (hge.1 hh)), if_neg (by omega), if_neg (by omega)]
  | true =>
    simp only [Bool.not_true, Bool.false_and, Bool.false_eq_true, if_false, Bool.true_and, if_true]
    by_cases h : f.absGt (2 ^ 63) = true
    · have := trunc_of_absGt f hf _ h
      rw [if_pos h]
      by_cases h2 : 2 ^ 63 < f.truncAbs
      · rw [if_pos (by omega)]
      · rw [if_neg (by omega), if_neg (by omega)]; omega
    · have : ¬ 2 ^ 63 < f.truncAbs := fun hh => h (absGt_of_trunc f hf _ hh)
      rw [if_neg h, if_neg (by omega), if_neg (by omega)]

theorem truncAbs_zero (f : Fl) (h : f.isZero = true) : f.truncAbs = 0 := by
  simp only [Fl.isZero, Bool.and_eq_true, beq_iff_eq] at h
  simp [Fl.truncAbs, h.2]

/-- token.go `f64tou64`: 0 for negative values, else truncation saturated to the uint64 range. -/
theorem f64tou64_clamp (f : Fl) (hf : f.inf = false) :
    f64tou64 f = if f.neg then 0 else if f.truncAbs ≥ 2 ^ 64 then 2 ^ 64 - 1 else f.truncAbs := by
  unfold f64tou64
  have hge := absGe_iff f hf (2 ^ 64)
  cases hn : f.neg with
  | false =>
    simp only [Bool.not_false, Bool.true_and, Bool.false_and, Bool.false_eq_true, if_false]
    by_cases h : 2 ^ 64 ≤ f.truncAbs
    · rw [if_pos (hge.2 h), if_pos h]
    · rw [if_neg (fun hh => h (hge.1 hh)), if_neg h]
  | true =>
    simp only [Bool.not_true, Bool.false_and, Bool.false_eq_true, if_false, Bool.true_and, if_true]
    by_cases hz : f.isZero = true
    · simp [hz, truncAbs_zero f hz]
    · simp [hz]

/-- Token.Int on a jsontext.Float / Float32 token. -/
theorem tokInt_float (pf : Bytes → Fl) (f : Fl) (b : Bool) (hf : f.inf = false) :
    tokInt pf (.float f b) =
      if f.isIntegral = false then (f64toi64 f, .syntax)
      else if -(2 ^ 63 : Int) ≤ truncInt f ∧ truncInt f < 2 ^ 63 then (truncInt f, .none)
      else if truncInt f < 0 then (-(2 ^ 63), .range) else (2 ^ 63 - 1, .range) := by
  simp only [tokInt]
  by_cases hi : f.isIntegral = true
  · have hclamp := f64toi64_clamp f hf
    have hge := absGe_iff f hf (2 ^ 63)
    have hgt := absGt_iff_integral f hf hi (2 ^ 63)
    simp only [hi, Bool.not_true, Bool.false_eq_true, if_false, Bool.true_eq_false]
    simp only [truncInt] at hclamp ⊢
    by_cases hn : f.neg = true
    · simp only [hn, if_true] at hclamp ⊢
      simp only [Bool.not_true, Bool.false_and, Bool.and_false, Bool.or_false, Bool.and_true]
      by_cases h : 2 ^ 63 < f.truncAbs
      · rw [if_pos (by omega)] at hclamp
        rw [hclamp, if_pos (by simp [hgt.2 h]), if_neg (by omega), if_pos (by omega)]
      · rw [if_neg (by omega), if_neg (by omega)] at hclamp
        have hng : f.absGt (2 ^ 63) = false := by
          cases hh : f.absGt (2 ^ 63) with
          | false => rfl
          | true => exact absurd (hgt.1 hh) h
        rw [hclamp, if_neg (by simp [hng]), if_pos ⟨by omega, by omega⟩]
    · have hn' : f.neg = false := by simpa using hn
      simp only [hn', Bool.false_eq_true, if_false] at hclamp ⊢
      simp only [Bool.and_false, Bool.false_and, Bool.false_or, Bool.not_false, Bool.and_true]
      by_cases h : 2 ^ 63 ≤ f.truncAbs
      · rw [if_neg (by omega), if_pos (by omega)] at hclamp
        rw [hclamp, if_pos (by simp [hge.2 h]), if_neg (by omega), if_neg (by omega)]
      · rw [if_neg (by omega), if_neg (by omega)] at hclamp
        have hng : f.absGe (2 ^ 63) = false := by
          cases hh : f.absGe (2 ^ 63) with
          | false => rfl
          | true => exact absurd (hge.1 hh) h
        rw [hclamp, if_neg (by simp [hng]), if_pos ⟨by omega, by omega⟩]
  · have hi' : f.isIntegral = false := by simpa using hi
    rw [if_pos (by simp [hi']), if_pos hi']

/-- Token.Uint on a jsontext.Float / Float32 token. -/
theorem tokUint_float (pf : Bytes → Fl) (f : Fl) (b : Bool) (hf : f.inf = false) :
    tokUint pf (.float f b) =
      if f.isIntegral = false ∨ f.neg = true then (f64tou64 f, .syntax)
      else if f.truncAbs < 2 ^ 64 then (f.truncAbs, .none) else (2 ^ 64 - 1, .range) := by
  simp only [tokUint]
  by_cases hc : f.isIntegral = false ∨ f.neg = true
  · rw [if_pos hc, if_pos]
    rcases hc with h | h <;> simp [h]
  · have hi : f.isIntegral = true := by
      cases hh : f.isIntegral with
      | true => rfl
      | false => exact absurd (Or.inl hh) hc
    have hn : f.neg = false := by
      cases hh : f.neg with
      | false => rfl
      | true => exact absurd (Or.inr hh) hc
    have hclamp := f64tou64_clamp f hf
    have hge := absGe_iff f hf (2 ^ 64)
    rw [if_neg hc]
    simp only [hi, hn, Bool.not_true, Bool.or_self, Bool.false_eq_true, if_false]
    simp only [hn, Bool.false_eq_true, if_false] at hclamp
    by_cases h : 2 ^ 64 ≤ f.truncAbs
    · rw [if_pos h] at hclamp
      rw [hclamp, if_pos (by simp [hge.2 h]), if_neg (by omega)]
    · rw [if_neg h] at hclamp
      have hng : f.absGe (2 ^ 64) = false := by
        cases hh : f.absGe (2 ^ 64) with
        | false => rfl
        | true => exact absurd (hge.1 hh) h
      rw [hclamp, if_neg (by simp [hng]), if_pos (by omega)]

end JsonV.Lemmas.NumTok
