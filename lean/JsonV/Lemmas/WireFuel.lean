/-
"The fuel suffices": with `fuelFor b = 3 * |b| + 4` the validator of Model/Validate.lean never runs out of
fuel, so the artificial class `Err.fuel` is never observed (a component of completeness).
-/
import JsonV.Lemmas.WireValue

namespace JsonV.Lemmas.WireFuel
open JsonV JsonV.Model JsonV.Model.Wire JsonV.Model.Validate JsonV.Spec.Grammar
open JsonV.Lemmas.WireBasic JsonV.Lemmas.WireNumber JsonV.Lemmas.WireString JsonV.Lemmas.WireValue

/-- the two artificial / top-level-only classes no scanner and no recogniser below the top level ever returns -/
def Bad (e : Err) : Prop := e = .fuel ∨ e = .ioEOF

instance (e : Err) : Decidable (Bad e) := by unfold Bad; infer_instance

attribute [local simp] Bad

theorem stringLoop_no_fuel (v : Bool) (fuel : Nat) : ∀ r : Bytes, r.length + 1 ≤ fuel → ¬ Bad (stringLoop v fuel r).2.2 := by
  induction fuel with
  | zero => intro r h; omega
  | succ fuel ih =>
    intro r hf
    simp only [stringLoop]
    cases hs : stringStep v r with
    | stop k f e =>
      simp only []
      -- stringStep never stops with `.fuel` / `.ioEOF`
      revert hs
      cases r with
      | nil => simp [stringStep]; rintro - - rfl; simp [Bad]
      | cons c r1 =>
        simp only [stringStep]
        repeat' split
        all_goals (try (simp; done))
        all_goals (try (simp; rintro - - rfl; simp [Bad]; done))
        all_goals (
          cases r1 with
          | nil => simp [stringEscape]; rintro - - rfl; simp [Bad]
          | cons e r2 =>
            simp only [stringEscape]
            repeat' split
            all_goals (try (simp; done))
            all_goals (simp; rintro - - rfl; simp [Bad]))
    | cont k f =>
      obtain ⟨hk1, hk2, -⟩ := step_cont_sound v r k f hs
      have := ih (r.drop k) (by simp; omega)
      rcases hl : stringLoop v fuel (r.drop k) with ⟨n, f', e⟩
      rw [hl] at this
      simp only [hl]
      simpa using this

theorem valueString_no_fuel (o : VOpts) (r : Bytes) : ¬ Bad (valueString o r).2.2 := by
  unfold valueString
  simp only
  split
  · simp
  · unfold consumeStringResumable
    simp only [Nat.lt_irrefl, if_false, gt_iff_lt]
    cases r with
    | nil => simp
    | cons c r1 =>
      simp only
      split
      · have := stringLoop_no_fuel (!o.allowInvalidUTF8) (r1.length + 1) r1 (Nat.le_refl _)
        rcases hl : stringLoop (!o.allowInvalidUTF8) (r1.length + 1) r1 with ⟨n, f', e⟩
        rw [hl] at this
        simpa using this
      · simp

theorem valueLiteral_no_fuel (lit r : Bytes) : ¬ Bad (valueLiteral lit r).2 := by
  unfold valueLiteral
  simp only
  split
  · simp
  · rcases literal_class r lit with h | h | h <;> rw [h] <;> simp

theorem valueNumber_no_fuel (r : Bytes) : ¬ Bad (valueNumber r).2 := by
  have key : ¬ Bad (consumeNumberD r).2 := by
    unfold consumeNumberD
    rcases hr : consumeNumberResumable r 0 stInit with ⟨n, st, e⟩
    have hcn : consumeNumber r = (n, e) := by simp [consumeNumber, hr]
    have hc := good_class _ _ _ _ (good_consumeNumber r)
    rw [hcn] at hc
    simp only
    split
    · split <;> simp
    · rcases hc with h | h | h <;> (simp only at h; subst h; simp)
  unfold valueNumber
  simp only
  split
  · exact key
  · simp

def FV (o : VOpts) (fuel : Nat) : Prop := ∀ d (r : Bytes), 3 * r.length + 1 ≤ fuel → ¬ Bad (consumeValue o fuel d r).2
def FA (o : VOpts) (fuel : Nat) : Prop := ∀ d (r : Bytes), r ≠ [] → 3 * r.length ≤ fuel → ¬ Bad (consumeArray o fuel d r).2
def FL (o : VOpts) (fuel : Nat) : Prop := ∀ d (r : Bytes), 3 * r.length + 2 ≤ fuel → ¬ Bad (arrayLoop o fuel d r).2
def FO (o : VOpts) (fuel : Nat) : Prop := ∀ d (r : Bytes), r ≠ [] → 3 * r.length ≤ fuel → ¬ Bad (consumeObject o fuel d r).2
def FOL (o : VOpts) (fuel : Nat) : Prop := ∀ d names (r : Bytes), 3 * r.length + 2 ≤ fuel → ¬ Bad (objectLoop o fuel d names r).2

theorem len_drop_cons (r : Bytes) (a : Nat) (c : UInt8) (rest : Bytes) (h : r.drop a = c :: rest) :
    rest.length + 1 + a = r.length := by
  have := len_of_drop r a c rest h; omega

theorem fl_step (o : VOpts) (fuel : Nat) (hv : FV o fuel) (hl : FL o fuel) : FL o (fuel + 1) := by
  intro d r hf
  simp only [arrayLoop]
  split
  · simp
  · rename_i c1 rd0 hdrop
    have h1 := len_drop_cons _ _ _ _ hdrop
    have hvv := hv d (c1 :: rd0) (by simp; omega)
    rcases hcv : consumeValue o fuel d (c1 :: rd0) with ⟨k, e⟩
    rw [hcv] at hvv
    simp only
    split
    · simpa using hvv
    · split
      · simp
      · rename_i c2 rf hdrop2
        have h2 := len_drop_cons _ _ _ _ hdrop2
        simp only [List.length_drop, List.length_cons] at h2
        split
        · have := hl d rf (by omega)
          simpa [addOff] using this
        · split <;> simp

theorem fa_step (o : VOpts) (fuel : Nat) (hl : FL o fuel) : FA o (fuel + 1) := by
  intro d r hne hf
  simp only [consumeArray]
  split
  · simp
  · split
    · simp
    · rename_i c rest hdrop
      have h1 := len_drop_cons _ _ _ _ hdrop
      simp only [List.length_drop] at h1
      have hr : 1 ≤ r.length := by cases r <;> simp_all
      split
      · simp
      · have := hl (d + 1) (c :: rest) (by simp; omega)
        simpa [addOff] using this

theorem fol_step (o : VOpts) (fuel : Nat) (hv : FV o fuel) (hl : FOL o fuel) : FOL o (fuel + 1) := by
  intro d names r hf
  simp only [objectLoop]
  split
  · simp
  rename_i c0 ra0 hdrop
  have h1 := len_drop_cons _ _ _ _ hdrop
  have hvs := valueString_no_fuel o (c0 :: ra0)
  rcases hs : valueString o (c0 :: ra0) with ⟨nn, fl, e0⟩
  rw [hs] at hvs
  simp only
  split
  · simpa using hvs
  split
  · simp
  split
  · simp
  rename_i c rc hdrop2
  have h2 := len_drop_cons _ _ _ _ hdrop2
  simp only [List.length_drop, List.length_cons] at h2
  split
  · simp
  split
  · simp
  rename_i c1 rd0 hdrop3
  have h3 := len_drop_cons _ _ _ _ hdrop3
  have hvv := hv d (c1 :: rd0) (by simp; omega)
  rcases hcv : consumeValue o fuel d (c1 :: rd0) with ⟨k, e⟩
  rw [hcv] at hvv
  simp only
  split
  · simpa using hvv
  split
  · simp
  rename_i c2 rf hdrop4
  have h4 := len_drop_cons _ _ _ _ hdrop4
  simp only [List.length_drop, List.length_cons] at h4
  split
  · have := hl d (if o.allowDup = true then names else names ++ [unescapedName ((c0 :: ra0).take nn) fl]) rf (by omega)
    simpa [addOff] using this
  · split <;> simp

theorem fo_step (o : VOpts) (fuel : Nat) (hl : FOL o fuel) : FO o (fuel + 1) := by
  intro d r hne hf
  simp only [consumeObject]
  split
  · simp
  · split
    · simp
    · rename_i c rest hdrop
      have h1 := len_drop_cons _ _ _ _ hdrop
      simp only [List.length_drop] at h1
      have hr : 1 ≤ r.length := by cases r <;> simp_all
      split
      · simp
      · have := hl (d + 1) [] (c :: rest) (by simp; omega)
        simpa [addOff] using this

theorem fv_step (o : VOpts) (fuel : Nat) (ha : FA o fuel) (hob : FO o fuel) : FV o (fuel + 1) := by
  intro d r hf
  cases r with
  | nil => simp [consumeValue]
  | cons c rest =>
    simp only [consumeValue]
    split
    · exact valueLiteral_no_fuel _ _
    split
    · exact valueLiteral_no_fuel _ _
    split
    · exact valueLiteral_no_fuel _ _
    split
    · have := valueString_no_fuel o (c :: rest)
      rcases hs : valueString o (c :: rest) with ⟨n, fl, e⟩
      rw [hs] at this
      simpa using this
    split
    · exact valueNumber_no_fuel _
    split
    · exact hob d (c :: rest) (by simp) (by simp at hf ⊢; omega)
    split
    · exact ha d (c :: rest) (by simp) (by simp at hf ⊢; omega)
    split <;> simp

theorem no_fuel_all (o : VOpts) (fuel : Nat) : FV o fuel ∧ FA o fuel ∧ FL o fuel ∧ FO o fuel ∧ FOL o fuel := by
  induction fuel with
  | zero =>
    refine ⟨?_, ?_, ?_, ?_, ?_⟩
    · intro d r h; omega
    · intro d r hne h; cases r <;> simp_all
    · intro d r h; omega
    · intro d r hne h; cases r <;> simp_all
    · intro d names r h; omega
  | succ fuel ih =>
    obtain ⟨h1, h2, h3, h4, h5⟩ := ih
    exact ⟨fv_step o fuel h2 h4, fa_step o fuel h3, fl_step o fuel h1 h3, fo_step o fuel h5, fol_step o fuel h1 h5⟩

theorem not_bad_fuel {e : Err} (h : ¬ Bad e) : e ≠ .fuel := fun he => h (Or.inl he)
theorem not_bad_ioeof {e : Err} (h : ¬ Bad e) : e ≠ .ioEOF := fun he => h (Or.inr he)

theorem readValueTop_no_fuel (o : VOpts) (fuel : Nat) (b : Bytes) (hf : 3 * b.length + 1 ≤ fuel) :
    (readValueTop o fuel b).2 ≠ .fuel := by
  unfold readValueTop
  simp only
  split
  · simp
  · rename_i c rest hdrop
    have h1 := len_drop_cons _ _ _ _ hdrop
    split
    · simp
    · have := not_bad_fuel ((no_fuel_all o fuel).1 1 (c :: rest) (by simp; omega))
      simpa [addOff] using this

/-- `Value.IsValid`'s model never reports the artificial out-of-fuel class. -/
theorem validText_no_fuel (o : VOpts) (b : Bytes) : (validText o b).2 ≠ .fuel := by
  unfold validText
  have hr := readValueTop_no_fuel o (fuelFor b) b (by simp [fuelFor]; try omega)
  rcases hx : readValueTop o (fuelFor b) b with ⟨n, e⟩
  rw [hx] at hr
  simp only
  split
  · simpa using hr
  · split <;> simp

/-! ### the stream recogniser is sound -/

theorem jws_of_drop_nil (r : Bytes) (h : r.drop (consumeWhitespace r) = []) : JWs r := by
  have hall : r.take (consumeWhitespace r) = r := by
    apply List.take_of_length_le
    rw [List.drop_eq_nil_iff] at h; exact h
  rw [← hall]; exact ws_take r

/-- io.EOF from the top-level read means: only whitespace is left -/
theorem readValueTop_ioeof (o : VOpts) (fuel : Nat) (r : Bytes) (n : Nat) (hf : 3 * r.length + 1 ≤ fuel)
    (h : readValueTop o fuel r = (n, .ioEOF)) : JWs r := by
  unfold readValueTop at h
  simp only at h
  split at h
  · rename_i hdrop; exact jws_of_drop_nil r hdrop
  · rename_i c rest hdrop
    have h1 := len_drop_cons _ _ _ _ hdrop
    split at h
    · simp at h
    · have := not_bad_ioeof ((no_fuel_all o fuel).1 1 (c :: rest) (by simp; omega))
      rcases hcv : consumeValue o fuel 1 (c :: rest) with ⟨k, e⟩
      rw [hcv] at this
      simp [addOff, hcv] at h
      exact absurd h.2 this

/-- maximal munch: a number accepted by the value path cannot be extended by the next byte -/
theorem value_number_stop (o : VOpts) (fuel d : Nat) (r : Bytes) (n : Nat) (h : consumeValue o fuel d r = (n, .ok))
    (hnum : JNumber (r.take n)) : ∀ c t, r.drop n = c :: t → ¬ NumPrefix (r.take n ++ [c]) := by
  obtain ⟨c0, t0, htk, hk⟩ := jnumber_head _ hnum
  cases fuel with
  | zero => simp [consumeValue] at h
  | succ f =>
    cases r with
    | nil => simp at htk
    | cons c r1 =>
      have hc : c = c0 := by
        cases n with
        | zero => simp at htk
        | succ m => simp only [List.take_succ_cons, List.cons.injEq] at htk; exact htk.1
      subst hc
      have hcn : consumeNumber (c :: r1) = (n, .ok) := by
        simp only [consumeValue, hk] at h
        have h' : valueNumber (c :: r1) = (n, .ok) := by simpa using h
        unfold valueNumber at h'
        simp only at h'
        split at h'
        · unfold consumeNumberD at h'
          rcases hr : consumeNumberResumable (c :: r1) 0 stInit with ⟨n', st', e⟩
          have hcn : consumeNumber (c :: r1) = (n', e) := by simp [consumeNumber, hr]
          simp only [hr] at h'
          split at h'
          · split at h'
            · rename_i he
              have : e = .ok := by simpa using he
              subst this
              simp only [Prod.mk.injEq, and_true] at h'
              subst h'; exact hcn
            · simp at h'
          · simp only [Prod.mk.injEq] at h'
            obtain ⟨rfl, rfl⟩ := h'; exact hcn
        · rename_i hs
          simp only [Prod.mk.injEq, and_true] at h'
          have hne : consumeSimpleNumber (c :: r1) ≠ 0 := by intro h0; simp [h0] at hs
          have := simple_number_sound' (c :: r1) hne
          rw [h'] at this; exact this
      have hg := good_consumeNumber (c :: r1)
      rw [hcn] at hg
      obtain ⟨g1, g2, g3⟩ := hg
      intro c' t' hd
      rw [hd] at g3
      rw [numPrefix_iff_live, run_append]
      have g3' : δ (run .start ((c :: r1).take n)) c' = .dead := g3
      simp [run, g3']

/-- `readValueTop_ok` with the maximal-munch side condition -/
theorem readValueTop_ok_max (o : VOpts) (fuel : Nat) (r : Bytes) (n : Nat) (h : readValueTop o fuel r = (n, .ok)) :
    n ≤ r.length ∧ ∃ w v, JWs w ∧ JV o 0 v ∧ r.take n = w ++ v ∧
      (JNumber v → ∀ c t, r.drop n = c :: t → ¬ NumPrefix (v ++ [c])) := by
  unfold readValueTop at h
  simp only at h
  split at h
  · simp at h
  · rename_i c rest hdrop
    split at h
    · simp at h
    · rcases hcv : consumeValue o fuel 1 (c :: rest) with ⟨k, e⟩
      simp only [addOff, hcv, Prod.mk.injEq] at h
      obtain ⟨rfl, rfl⟩ := h
      obtain ⟨hk, hjv⟩ := (sound_all o fuel).1 0 (c :: rest) k (by omega) hcv
      have hlen := len_of_drop _ _ _ _ hdrop
      have hk' : k ≤ rest.length + 1 := by simpa using hk
      refine ⟨by omega, r.take (consumeWhitespace r), (c :: rest).take k, ws_take r, hjv, ?_, ?_⟩
      · rw [List.take_add, hdrop]
      · intro hnum c' t' hd
        have hd' : (c :: rest).drop k = c' :: t' := by
          rw [← hdrop, List.drop_drop]; exact hd
        exact value_number_stop o fuel 1 (c :: rest) k hcv hnum c' t' hd'

theorem streamLoop_sound (o : VOpts) (vfuel : Nat) (fuel : Nat) : ∀ (r : Bytes) (cnt base cnt' off : Nat),
    3 * r.length + 1 ≤ vfuel → streamLoop o vfuel fuel r cnt base = (cnt', off, .ioEOF) →
    JStream (G o) maxNestingDepth (nameKey o) r := by
  induction fuel with
  | zero => intro r cnt base cnt' off _ h; simp [streamLoop] at h
  | succ fuel ih =>
    intro r cnt base cnt' off hv h
    simp only [streamLoop] at h
    rcases hr : readValueTop o vfuel r with ⟨n, e⟩
    simp only [hr] at h
    split at h
    · simp only [Prod.mk.injEq] at h
      obtain ⟨-, -, rfl⟩ := h
      exact JStream.done r (readValueTop_ioeof o vfuel r n hv hr)
    · rename_i hne
      have he : e = .ok := by simpa using hne
      subst he
      split at h
      · simp at h
      · obtain ⟨hn, w, v, hw, hjv, htake, hmax⟩ := readValueTop_ok_max o vfuel r n hr
        have := ih (r.drop n) _ _ _ _ (by simp; omega) h
        have hsplit : r = w ++ v ++ r.drop n := by rw [← htake, List.take_append_drop]
        rw [hsplit]
        exact JStream.next w v _ hw hjv hmax this

/-- a ReadValue loop that ends with io.EOF has read a stream of the grammar -/
theorem stream_sound' (o : VOpts) (b : Bytes) (cnt off : Nat) (h : stream o b = (cnt, off, .ioEOF)) :
    JStream (G o) maxNestingDepth (nameKey o) b :=
  streamLoop_sound o (fuelFor b) (b.length + 1) b 0 0 cnt off (by simp [fuelFor]; try omega) h

end JsonV.Lemmas.WireFuel
