/-
"The fuel suffices": with `fuelFor b = 3 * |b| + 4` the validator of Model/Validate.lean never runs out of
fuel, so the artificial class `Err.fuel` is never observed (a component of completeness).
-/
import JsonV.Lemmas.WireValue

namespace JsonV.Lemmas.WireFuel
open JsonV JsonV.Model JsonV.Model.Wire JsonV.Model.Validate JsonV.Spec.Grammar
open JsonV.Lemmas.WireBasic JsonV.Lemmas.WireNumber JsonV.Lemmas.WireString JsonV.Lemmas.WireValue

theorem stringLoop_no_fuel (v : Bool) (fuel : Nat) : ∀ r : Bytes, r.length + 1 ≤ fuel → (stringLoop v fuel r).2.2 ≠ .fuel := by
  induction fuel with
  | zero => intro r h; omega
  | succ fuel ih =>
    intro r hf
    simp only [stringLoop]
    cases hs : stringStep v r with
    | stop k f e =>
      simp only []
      intro he; subst he
      -- stringStep never stops with `.fuel`
      revert hs
      cases r with
      | nil => simp [stringStep]
      | cons c r1 =>
        simp only [stringStep]
        repeat' split
        all_goals (try simp)
        all_goals (
          rename_i h
          revert h
          cases r1 with
          | nil => simp [stringEscape]
          | cons e r2 =>
            simp only [stringEscape]
            repeat' split
            all_goals simp)
    | cont k f =>
      obtain ⟨hk1, hk2, -⟩ := step_cont_sound v r k f hs
      have := ih (r.drop k) (by simp; omega)
      rcases hl : stringLoop v fuel (r.drop k) with ⟨n, f', e⟩
      rw [hl] at this
      simp only [hl]
      simpa using this

theorem valueString_no_fuel (o : VOpts) (r : Bytes) : (valueString o r).2.2 ≠ .fuel := by
  unfold valueString
  simp only
  split
  · simp
  · unfold consumeStringResumable
    simp only [Nat.lt_irrefl, if_false, gt_iff_lt]
    cases r with
    | nil => simp
    | cons c r1 =>
      simp only
      split
      · have := stringLoop_no_fuel (!o.allowInvalidUTF8) (r1.length + 1) r1 (Nat.le_refl _)
        rcases hl : stringLoop (!o.allowInvalidUTF8) (r1.length + 1) r1 with ⟨n, f', e⟩
        rw [hl] at this
        simpa using this
      · simp

theorem valueLiteral_no_fuel (lit r : Bytes) : (valueLiteral lit r).2 ≠ .fuel := by
  unfold valueLiteral
  simp only
  split
  · simp
  · rcases literal_class r lit with h | h | h <;> rw [h] <;> simp

theorem valueNumber_no_fuel (r : Bytes) : (valueNumber r).2 ≠ .fuel := by
  have key : (consumeNumberD r).2 ≠ .fuel := by
    unfold consumeNumberD
    rcases hr : consumeNumberResumable r 0 stInit with ⟨n, st, e⟩
    have hcn : consumeNumber r = (n, e) := by simp [consumeNumber, hr]
    have hc := good_class _ _ _ _ (good_consumeNumber r)
    rw [hcn] at hc
    simp only
    split
    · split <;> simp
    · rcases hc with h | h | h <;> (simp only at h; subst h; simp)
  unfold valueNumber
  simp only
  split
  · exact key
  · simp

def FV (o : VOpts) (fuel : Nat) : Prop := ∀ d (r : Bytes), 3 * r.length + 1 ≤ fuel → (consumeValue o fuel d r).2 ≠ .fuel
def FA (o : VOpts) (fuel : Nat) : Prop := ∀ d (r : Bytes), r ≠ [] → 3 * r.length ≤ fuel → (consumeArray o fuel d r).2 ≠ .fuel
def FL (o : VOpts) (fuel : Nat) : Prop := ∀ d (r : Bytes), 3 * r.length + 2 ≤ fuel → (arrayLoop o fuel d r).2 ≠ .fuel
def FO (o : VOpts) (fuel : Nat) : Prop := ∀ d (r : Bytes), r ≠ [] → 3 * r.length ≤ fuel → (consumeObject o fuel d r).2 ≠ .fuel
def FOL (o : VOpts) (fuel : Nat) : Prop := ∀ d names (r : Bytes), 3 * r.length + 2 ≤ fuel → (objectLoop o fuel d names r).2 ≠ .fuel

theorem len_drop_cons (r : Bytes) (a : Nat) (c : UInt8) (rest : Bytes) (h : r.drop a = c :: rest) :
    rest.length + 1 + a = r.length := by
  have := len_of_drop r a c rest h; omega

theorem fl_step (o : VOpts) (fuel : Nat) (hv : FV o fuel) (hl : FL o fuel) : FL o (fuel + 1) := by
  intro d r hf
  simp only [arrayLoop]
  split
  · simp
  · rename_i c1 rd0 hdrop
    have h1 := len_drop_cons _ _ _ _ hdrop
    have hvv := hv d (c1 :: rd0) (by simp; omega)
    rcases hcv : consumeValue o fuel d (c1 :: rd0) with ⟨k, e⟩
    rw [hcv] at hvv
    simp only
    split
    · simpa using hvv
    · split
      · simp
      · rename_i c2 rf hdrop2
        have h2 := len_drop_cons _ _ _ _ hdrop2
        simp only [List.length_drop, List.length_cons] at h2
        split
        · have := hl d rf (by omega)
          simpa [addOff] using this
        · split <;> simp

theorem fa_step (o : VOpts) (fuel : Nat) (hl : FL o fuel) : FA o (fuel + 1) := by
  intro d r hne hf
  simp only [consumeArray]
  split
  · simp
  · split
    · simp
    · rename_i c rest hdrop
      have h1 := len_drop_cons _ _ _ _ hdrop
      simp only [List.length_drop] at h1
      have hr : 1 ≤ r.length := by cases r <;> simp_all
      split
      · simp
      · have := hl (d + 1) (c :: rest) (by simp; omega)
        simpa [addOff] using this

theorem fol_step (o : VOpts) (fuel : Nat) (hv : FV o fuel) (hl : FOL o fuel) : FOL o (fuel + 1) := by
  intro d names r hf
  simp only [objectLoop]
  split
  · simp
  rename_i c0 ra0 hdrop
  have h1 := len_drop_cons _ _ _ _ hdrop
  have hvs := valueString_no_fuel o (c0 :: ra0)
  rcases hs : valueString o (c0 :: ra0) with ⟨nn, fl, e0⟩
  rw [hs] at hvs
  simp only
  split
  · simpa using hvs
  split
  · simp
  split
  · simp
  rename_i c rc hdrop2
  have h2 := len_drop_cons _ _ _ _ hdrop2
  simp only [List.length_drop, List.length_cons] at h2
  split
  · simp
  split
  · simp
  rename_i c1 rd0 hdrop3
  have h3 := len_drop_cons _ _ _ _ hdrop3
  have hvv := hv d (c1 :: rd0) (by simp; omega)
  rcases hcv : consumeValue o fuel d (c1 :: rd0) with ⟨k, e⟩
  rw [hcv] at hvv
  simp only
  split
  · simpa using hvv
  split
  · simp
  rename_i c2 rf hdrop4
  have h4 := len_drop_cons _ _ _ _ hdrop4
  simp only [List.length_drop, List.length_cons] at h4
  split
  · have := hl d (if o.allowDup = true then names else names ++ [unescapedName ((c0 :: ra0).take nn) fl]) rf (by omega)
    simpa [addOff] using this
  · split <;> simp

theorem fo_step (o : VOpts) (fuel : Nat) (hl : FOL o fuel) : FO o (fuel + 1) := by
  intro d r hne hf
  simp only [consumeObject]
  split
  · simp
  · split
    · simp
    · rename_i c rest hdrop
      have h1 := len_drop_cons _ _ _ _ hdrop
      simp only [List.length_drop] at h1
      have hr : 1 ≤ r.length := by cases r <;> simp_all
      split
      · simp
      · have := hl (d + 1) [] (c :: rest) (by simp; omega)
        simpa [addOff] using this

theorem fv_step (o : VOpts) (fuel : Nat) (ha : FA o fuel) (hob : FO o fuel) : FV o (fuel + 1) := by
  intro d r hf
  cases r with
  | nil => simp [consumeValue]
  | cons c rest =>
    simp only [consumeValue]
    split
    · exact valueLiteral_no_fuel _ _
    split
    · exact valueLiteral_no_fuel _ _
    split
    · exact valueLiteral_no_fuel _ _
    split
    · have := valueString_no_fuel o (c :: rest)
      rcases hs : valueString o (c :: rest) with ⟨n, fl, e⟩
      rw [hs] at this
      simpa using this
    split
    · exact valueNumber_no_fuel _
    split
    · exact hob d (c :: rest) (by simp) (by simp at hf ⊢; omega)
    split
    · exact ha d (c :: rest) (by simp) (by simp at hf ⊢; omega)
    split <;> simp

theorem no_fuel_all (o : VOpts) (fuel : Nat) : FV o fuel ∧ FA o fuel ∧ FL o fuel ∧ FO o fuel ∧ FOL o fuel := by
  induction fuel with
  | zero =>
    refine ⟨?_, ?_, ?_, ?_, ?_⟩
    · intro d r h; omega
    · intro d r hne h; cases r <;> simp_all
    · intro d r h; omega
    · intro d r hne h; cases r <;> simp_all
    · intro d names r h; omega
  | succ fuel ih =>
    obtain ⟨h1, h2, h3, h4, h5⟩ := ih
    exact ⟨fv_step o fuel h2 h4, fa_step o fuel h3, fl_step o fuel h1 h3, fo_step o fuel h5, fol_step o fuel h1 h5⟩

/-- `Value.IsValid`'s model never reports the artificial out-of-fuel class. -/
theorem validText_no_fuel (o : VOpts) (b : Bytes) : (validText o b).2 ≠ .fuel := by
  unfold validText
  have hr : (readValueTop o (fuelFor b) b).2 ≠ .fuel := by
    unfold readValueTop
    simp only
    split
    · simp
    · rename_i c rest hdrop
      have h1 := len_drop_cons _ _ _ _ hdrop
      split
      · simp
      · have := (no_fuel_all o (fuelFor b)).1 1 (c :: rest) (by simp [fuelFor]; omega)
        simpa [addOff] using this
  rcases hx : readValueTop o (fuelFor b) b with ⟨n, e⟩
  rw [hx] at hr
  simp only
  split
  · simpa using hr
  · split <;> simp

end JsonV.Lemmas.WireFuel
