/-
Which reader events the streaming value scanner consumes (C05): a suffix is left, and the I/O error is only
reported after a fault event was consumed.
-/
import JsonV.Lemmas.ResumeStreamCons

namespace JsonV.Model.Stream
open JsonV JsonV.Model JsonV.Model.Validate JsonV.Model.TokenLoop

def VRes.evs : VRes → List Event
  | .done _ _ _ es _ => es
  | .fault _ es => es
def VRes.isFault : VRes → Bool
  | .done .. => false
  | .fault .. => true

theorem rebase_evs {β : Type} (F : Fill β) (u : Bytes) (q : Nat) :
    (F.rebase u q).evs = F.evs ∧ (F.rebase u q).isFault = F.isFault := by cases F <;> exact ⟨rfl, rfl⟩
theorem map_evs {β γ : Type} (g : β → γ) (F : Fill β) : (F.map g).evs = F.evs ∧ (F.map g).isFault = F.isFault := by
  cases F <;> exact ⟨rfl, rfl⟩
theorem ofFill_evs (f0 : Bool) (F : Fill (Nat × Wire.Err)) :
    (VRes.ofFill f0 F).evs = F.evs ∧ (VRes.ofFill f0 F).isFault = F.isFault := by cases F <;> exact ⟨rfl, rfl⟩
theorem addOff_evs (k : Nat) (f0 : Bool) (S : VRes) : (S.addOff k f0).evs = S.evs ∧ (S.addOff k f0).isFault = S.isFault := by
  cases S <;> exact ⟨rfl, rfl⟩

theorem wsAt_consumed (u : Bytes) (q : Nat) (es : List Event) : Consumed es (wsAt u q es).evs (wsAt u q es).isFault := by
  unfold wsAt
  rw [(rebase_evs _ u q).1, (rebase_evs _ u q).2]
  exact refill_consumed _ _ es _ _

theorem litAt_consumed (l u : Bytes) (q : Nat) (es : List Event) :
    Consumed es (litAt l u q es).evs (litAt l u q es).isFault := by
  unfold litAt
  split
  · exact Consumed.refl _
  · rw [(rebase_evs _ u q).1, (rebase_evs _ u q).2, (map_evs _ _).1, (map_evs _ _).2]
    exact refill_consumed _ _ es _ _

theorem strAt_consumed (o : VOpts) (u : Bytes) (q : Nat) (es : List Event) :
    Consumed es (strAt o u q es).evs (strAt o u q es).isFault := by
  unfold strAt
  split
  · exact Consumed.refl _
  · rw [(rebase_evs _ u q).1, (rebase_evs _ u q).2, (map_evs _ _).1, (map_evs _ _).2]
    exact refill_consumed _ _ es _ _

theorem numAt_consumed (u : Bytes) (q : Nat) (es : List Event) :
    Consumed es (numAt u q es).evs (numAt u q es).isFault := by
  unfold numAt
  split
  · rw [(rebase_evs _ u q).1, (rebase_evs _ u q).2, (map_evs _ _).1, (map_evs _ _).2]
    exact refill_consumed _ _ es _ _
  · exact Consumed.refl _

/-- from a primitive's outcome to a chain step -/
theorem fill_done_consumed {β : Type} {es : List Event} {F : Fill β} (h : Consumed es F.evs F.isFault)
    {b : β} {u1 : Bytes} {es1 : List Event} {f1 : Bool} (hs : F = .done b u1 es1 f1) : Consumed es es1 false := by
  subst hs; exact h
theorem fill_fault_consumed {β : Type} {es : List Event} {F : Fill β} (h : Consumed es F.evs F.isFault)
    {u1 : Bytes} {es1 : List Event} (hs : F = .fault u1 es1) : Consumed es es1 true := by
  subst hs; exact h
theorem vres_done_consumed {es : List Event} {S : VRes} (h : Consumed es S.evs S.isFault)
    {n : Nat} {e : Wire.Err} {u1 : Bytes} {es1 : List Event} {f1 : Bool} (hs : S = .done n e u1 es1 f1) :
    Consumed es es1 false := by
  subst hs; exact h
theorem vres_fault_consumed {es : List Event} {S : VRes} (h : Consumed es S.evs S.isFault)
    {u1 : Bytes} {es1 : List Event} (hs : S = .fault u1 es1) : Consumed es es1 true := by
  subst hs; exact h

/-- one copy of the (large) term instead of two -/
def VCons (es : List Event) (S : VRes) : Prop := Consumed es S.evs S.isFault

theorem vcons_addOff (es : List Event) (k : Nat) (f0 : Bool) (S : VRes) (h : VCons es S) : VCons es (S.addOff k f0) := by
  unfold VCons; rw [(addOff_evs _ _ _).1, (addOff_evs _ _ _).2]; exact h
theorem vcons_ofFill (es : List Event) (f0 : Bool) (F : Fill (Nat × Wire.Err)) (h : Consumed es F.evs F.isFault) :
    VCons es (.ofFill f0 F) := by
  unfold VCons; rw [(ofFill_evs _ _).1, (ofFill_evs _ _).2]; exact h
theorem vcons_trans {es es1 : List Event} {S : VRes} (h1 : Consumed es es1 false) (h2 : VCons es1 S) : VCons es S :=
  Consumed.trans h1 h2

def CVal (o : VOpts) (fuel : Nat) : Prop := ∀ depth u p es, VCons es (sValue o fuel depth u p es)
def CArr (o : VOpts) (fuel : Nat) : Prop := ∀ depth u p es, VCons es (sArray o fuel depth u p es)
def CObj (o : VOpts) (fuel : Nat) : Prop := ∀ depth u p es, VCons es (sObject o fuel depth u p es)
def CArrL (o : VOpts) (fuel : Nat) : Prop := ∀ depth u p es, VCons es (sArrayLoop o fuel depth u p es)
def CObjL (o : VOpts) (fuel : Nat) : Prop := ∀ depth names u p es, VCons es (sObjectLoop o fuel depth names u p es)

theorem carrl_step (o : VOpts) (f : Nat) (hV : CVal o f) (hL : CArrL o f) : CArrL o (f + 1) := by
  intro depth u p es
  simp only [sArrayLoop]
  cases hs1 : wsAt u p es with
  | fault u1 es1 => exact fill_fault_consumed (wsAt_consumed u p es) hs1
  | done b1 u1 es1 f1 =>
    have C1 := fill_done_consumed (wsAt_consumed u p es) hs1
    obtain ⟨w, found⟩ := b1
    simp only
    split
    · exact C1
    · cases hs2 : sValue o f depth u1 (p + w) es1 with
      | fault u2 es2 => exact C1.trans (vres_fault_consumed (hV depth u1 (p + w) es1) hs2)
      | done k e u2 es2 f2 =>
        have C2 := C1.trans (vres_done_consumed (hV depth u1 (p + w) es1) hs2)
        simp only
        split
        · exact C2
        · cases hs3 : wsAt u2 (p + w + k) es2 with
          | fault u3 es3 => exact C2.trans (fill_fault_consumed (wsAt_consumed u2 (p + w + k) es2) hs3)
          | done b3 u3 es3 f3 =>
            have C3 := C2.trans (fill_done_consumed (wsAt_consumed u2 (p + w + k) es2) hs3)
            obtain ⟨w4, found4⟩ := b3
            simp only
            split
            · exact C3
            · split
              · exact vcons_addOff _ _ _ _ (vcons_trans C3 (hL depth u3 _ es3))
              · split <;> exact C3

theorem cobjl_step (o : VOpts) (f : Nat) (hV : CVal o f) (hL : CObjL o f) : CObjL o (f + 1) := by
  intro depth names u p es
  simp only [sObjectLoop]
  cases hs1 : wsAt u p es with
  | fault u1 es1 => exact fill_fault_consumed (wsAt_consumed u p es) hs1
  | done b1 u1 es1 f1 =>
    have C1 := fill_done_consumed (wsAt_consumed u p es) hs1
    obtain ⟨w, found⟩ := b1
    simp only
    cases found with
    | false => simp only [Bool.not_false, if_true]; exact C1
    | true =>
    simp only [Bool.not_true, Bool.false_eq_true, if_false]
    cases hs2 : strAt o u1 (p + w) es1 with
    | fault u2 es2 => exact C1.trans (fill_fault_consumed (strAt_consumed o u1 (p + w) es1) hs2)
    | done b2 u2 es2 f2 =>
    have C2 := C1.trans (fill_done_consumed (strAt_consumed o u1 (p + w) es1) hs2)
    obtain ⟨n, fl, e⟩ := b2
    simp only
    by_cases hne : (e != Wire.Err.ok) = true
    · simp only [hne, if_true]; exact C2
    simp only [hne, Bool.false_eq_true, if_false]
    by_cases hdup : (!o.allowDup && names.contains (unescapedName ((u2.drop (p + w)).take n) fl)) = true
    · simp only [hdup, if_true]; exact C2
    simp only [hdup, Bool.false_eq_true, if_false]
    cases hs3 : wsAt u2 (p + w + n) es2 with
    | fault u3 es3 => exact C2.trans (fill_fault_consumed (wsAt_consumed u2 (p + w + n) es2) hs3)
    | done b3 u3 es3 f3 =>
    have C3 := C2.trans (fill_done_consumed (wsAt_consumed u2 (p + w + n) es2) hs3)
    obtain ⟨w2, found2⟩ := b3
    simp only
    cases found2 with
    | false => simp only [Bool.not_false, if_true]; exact C3
    | true =>
    simp only [Bool.not_true, Bool.false_eq_true, if_false]
    by_cases hcol : (byteAt u3 (p + w + n + w2) != 0x3A) = true
    · simp only [hcol, if_true]; exact C3
    simp only [hcol, Bool.false_eq_true, if_false]
    cases hs4 : wsAt u3 (p + w + n + w2 + 1) es3 with
    | fault u4 es4 => exact C3.trans (fill_fault_consumed (wsAt_consumed u3 _ es3) hs4)
    | done b4 u4 es4 f4 =>
    have C4 := C3.trans (fill_done_consumed (wsAt_consumed u3 _ es3) hs4)
    obtain ⟨w3, found3⟩ := b4
    simp only
    cases found3 with
    | false => simp only [Bool.not_false, if_true]; exact C4
    | true =>
    simp only [Bool.not_true, Bool.false_eq_true, if_false]
    cases hs5 : sValue o f depth u4 (p + w + n + w2 + 1 + w3) es4 with
    | fault u5 es5 => exact C4.trans (vres_fault_consumed (hV depth u4 _ es4) hs5)
    | done k e5 u5 es5 f5 =>
    have C5 := C4.trans (vres_done_consumed (hV depth u4 _ es4) hs5)
    simp only
    by_cases hne5 : (e5 != Wire.Err.ok) = true
    · simp only [hne5, if_true]; exact C5
    simp only [hne5, Bool.false_eq_true, if_false]
    cases hs6 : wsAt u5 (p + w + n + w2 + 1 + w3 + k) es5 with
    | fault u6 es6 => exact C5.trans (fill_fault_consumed (wsAt_consumed u5 _ es5) hs6)
    | done b6 u6 es6 f6 =>
    have C6 := C5.trans (fill_done_consumed (wsAt_consumed u5 _ es5) hs6)
    obtain ⟨w4, found4⟩ := b6
    simp only
    cases found4 with
    | false => simp only [Bool.not_false, if_true]; exact C6
    | true =>
    simp only [Bool.not_true, Bool.false_eq_true, if_false]
    by_cases hc : (byteAt u6 (p + w + n + w2 + 1 + w3 + k + w4) == 0x2C) = true
    · simp only [hc, if_true]
      exact vcons_addOff _ _ _ _ (vcons_trans C6 (hL depth _ u6 _ es6))
    simp only [hc, Bool.false_eq_true, if_false]
    by_cases hc2 : (byteAt u6 (p + w + n + w2 + 1 + w3 + k + w4) == 0x7D) = true
    · simp only [hc2, if_true]; exact C6
    · simp only [hc2, Bool.false_eq_true, if_false]; exact C6

theorem carr_step (o : VOpts) (f : Nat) (hL : CArrL o f) : CArr o (f + 1) := by
  intro depth u p es
  simp only [sArray]
  split
  · exact Consumed.refl _
  · cases hs1 : wsAt u (p + 1) es with
    | fault u1 es1 => exact fill_fault_consumed (wsAt_consumed u (p + 1) es) hs1
    | done b1 u1 es1 f1 =>
      have C1 := fill_done_consumed (wsAt_consumed u (p + 1) es) hs1
      obtain ⟨w, found⟩ := b1
      simp only
      split
      · exact C1
      · split
        · exact C1
        · exact vcons_addOff _ _ _ _ (vcons_trans C1 (hL (depth + 1) u1 _ es1))

theorem cobj_step (o : VOpts) (f : Nat) (hL : CObjL o f) : CObj o (f + 1) := by
  intro depth u p es
  simp only [sObject]
  split
  · exact Consumed.refl _
  · cases hs1 : wsAt u (p + 1) es with
    | fault u1 es1 => exact fill_fault_consumed (wsAt_consumed u (p + 1) es) hs1
    | done b1 u1 es1 f1 =>
      have C1 := fill_done_consumed (wsAt_consumed u (p + 1) es) hs1
      obtain ⟨w, found⟩ := b1
      simp only
      split
      · exact C1
      · split
        · exact C1
        · exact vcons_addOff _ _ _ _ (vcons_trans C1 (hL (depth + 1) [] u1 _ es1))

theorem cval_step (o : VOpts) (f : Nat) (hA : CArr o f) (hO : CObj o f) : CVal o (f + 1) := by
  intro depth u p es
  simp only [sValue]
  split
  · exact Consumed.refl _
  · repeat' split
    all_goals first
      | exact Consumed.refl _
      | exact hO _ _ _ _
      | exact hA _ _ _ _
      | exact vcons_ofFill _ _ _ (litAt_consumed _ _ _ _)
      | exact vcons_ofFill _ _ _ (numAt_consumed _ _ _)
      | (apply vcons_ofFill; rw [(map_evs _ _).1, (map_evs _ _).2]; exact strAt_consumed _ _ _ _)

theorem value_consumed_all (o : VOpts) (fuel : Nat) :
    CVal o fuel ∧ CArr o fuel ∧ CObj o fuel ∧ CArrL o fuel ∧ CObjL o fuel := by
  induction fuel with
  | zero =>
    refine ⟨?_, ?_, ?_, ?_, ?_⟩
    · intro depth u p es; simp only [sValue]; exact Consumed.refl _
    · intro depth u p es; simp only [sArray]; exact Consumed.refl _
    · intro depth u p es; simp only [sObject]; exact Consumed.refl _
    · intro depth u p es; simp only [sArrayLoop]; exact Consumed.refl _
    · intro depth names u p es; simp only [sObjectLoop]; exact Consumed.refl _
  | succ f ih =>
    obtain ⟨hV, hA, hO, hAL, hOL⟩ := ih
    exact ⟨cval_step o f hA hO, carr_step o f hAL, cobj_step o f hOL, carrl_step o f hV hAL, cobjl_step o f hV hOL⟩

theorem valS_consumed (o : VOpts) (fuel : Nat) (st : TState) (u : Bytes) (pos : Nat) (es : List Event) (f0 : Bool) :
    Consumed es (valS o fuel st u pos es f0).evs (valS o fuel st u pos es f0).isFault := by
  unfold valS
  split
  · exact lexS_consumed o st u pos es f0
  · split
    · have h : Consumed es (sValue o fuel st.m.depth u pos es).evs (sValue o fuel st.m.depth u pos es).isFault :=
        (value_consumed_all o fuel).1 st.m.depth u pos es
      cases hs : sValue o fuel st.m.depth u pos es with
      | fault u' es' => exact vres_fault_consumed h hs
      | done n e u' es' f1 => exact vres_done_consumed h hs
    · exact Consumed.refl _

end JsonV.Model.Stream
