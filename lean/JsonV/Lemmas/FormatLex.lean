/-
Lemmas about the scanners and the lexer of the C12 model.
-/
import JsonV.Lemmas.FormatBytes

namespace JsonV.Fmt

/-! ### scanners -/

theorem consFst_eq_some {c : UInt8} {x : Option (Bytes × Bytes)} {a r : Bytes} :
    consFst c x = some (a, r) ↔ ∃ a', a = c :: a' ∧ x = some (a', r) := by
  cases x with
  | none => simp [consFst]
  | some p =>
    obtain ⟨a0, r0⟩ := p
    simp only [consFst, Option.some.injEq, Prod.mk.injEq]
    constructor
    · rintro ⟨rfl, rfl⟩; exact ⟨a0, rfl, rfl, rfl⟩
    · rintro ⟨a', rfl, rfl, rfl⟩; exact ⟨rfl, rfl⟩

/-- consumed ++ rest = input -/
theorem scanStr_split : ∀ (b : Bytes) (st : SSt) (a r : Bytes), scanStr st b = some (a, r) → b = a ++ r := by
  intro b
  induction b with
  | nil => intro st a r h; simp [scanStr] at h
  | cons c cs ih =>
    intro st a r h
    unfold scanStr at h
    split at h
    · simp at h
    · simp only [Option.some.injEq, Prod.mk.injEq] at h
      obtain ⟨rfl, rfl⟩ := h; rfl
    · obtain ⟨a', rfl, h'⟩ := consFst_eq_some.mp h
      rw [ih _ _ _ h']; rfl

/-- The scan does not look beyond the closing quote. -/
theorem scanStr_append : ∀ (b : Bytes) (st : SSt) (a r r' : Bytes),
    scanStr st b = some (a, r) → scanStr st (a ++ r') = some (a, r') := by
  intro b
  induction b with
  | nil => intro st a r r' h; simp [scanStr] at h
  | cons c cs ih =>
    intro st a r r' h
    unfold scanStr at h
    split at h
    · simp at h
    · rename_i hn
      simp only [Option.some.injEq, Prod.mk.injEq] at h
      obtain ⟨rfl, rfl⟩ := h
      simp [scanStr, hn]
    · rename_i st' hn
      obtain ⟨a', rfl, h'⟩ := consFst_eq_some.mp h
      have := ih _ _ _ r' h'
      simp [scanStr, hn, this, consFst]

theorem scanNum_split : ∀ (b : Bytes) (st : NSt) (a r : Bytes), scanNum st b = some (a, r) → b = a ++ r := by
  intro b
  induction b with
  | nil =>
    intro st a r h
    simp only [scanNum] at h
    split at h <;> simp_all
  | cons c cs ih =>
    intro st a r h
    unfold scanNum at h
    split at h
    · obtain ⟨a', rfl, h'⟩ := consFst_eq_some.mp h
      rw [ih _ _ _ h']; rfl
    · split at h <;> simp_all

def headOK (b : Bytes) : Prop := ∀ c, b.head? = some c → isNumChar c = false

theorem scanNum_append : ∀ (b : Bytes) (st : NSt) (a r r' : Bytes),
    scanNum st b = some (a, r) → headOK r' → scanNum st (a ++ r') = some (a, r') := by
  intro b
  induction b with
  | nil =>
    intro st a r r' h hr
    simp only [scanNum] at h
    split at h
    · rename_i hacc
      simp only [Option.some.injEq, Prod.mk.injEq] at h
      obtain ⟨rfl, rfl⟩ := h
      cases r' with
      | nil => simp [scanNum, hacc]
      | cons c cs =>
        have := numChar_of_next st c (hr c rfl)
        simp [scanNum, this, hacc]
    · simp at h
  | cons c cs ih =>
    intro st a r r' h hr
    unfold scanNum at h
    split at h
    · rename_i st' hn
      obtain ⟨a', rfl, h'⟩ := consFst_eq_some.mp h
      have := ih _ _ _ r' h' hr
      simp [scanNum, hn, this, consFst]
    · split at h
      · rename_i hn hacc
        simp only [Option.some.injEq, Prod.mk.injEq] at h
        obtain ⟨rfl, rfl⟩ := h
        cases r' with
        | nil => simp [scanNum, hacc]
        | cons c' cs' =>
          have := numChar_of_next st c' (hr c' rfl)
          simp [scanNum, this, hacc]
      · simp at h

/-- every consumed byte of a number is a number character -/
theorem scanNum_chars : ∀ (b : Bytes) (st : NSt) (a r : Bytes), scanNum st b = some (a, r) →
    ∀ c ∈ a, isNumChar c = true := by
  intro b
  induction b with
  | nil =>
    intro st a r h
    simp only [scanNum] at h
    split at h <;> simp_all
  | cons c cs ih =>
    intro st a r h
    unfold scanNum at h
    split at h
    · rename_i st' hn
      obtain ⟨a', rfl, h'⟩ := consFst_eq_some.mp h
      intro x hx
      rcases List.mem_cons.mp hx with rfl | hx
      · cases hc : isNumChar x with
        | true => rfl
        | false => rw [numChar_of_next st x hc] at hn; simp at hn
      · exact ih _ _ _ h' x hx
    · split at h <;> simp_all

/-! ### one lexeme -/

theorem headOK_nil : headOK [] := by intro c h; simp at h

theorem lex1_delim (d : Delim) (r : Bytes) : lex1 (d.bytes ++ r) = some (.delim d, r) := by
  cases d <;> simp [Delim.bytes, lex1, isDigit]

theorem delim_first_not_ws (d : Delim) (r : Bytes) : ∃ c cs, d.bytes ++ r = c :: cs ∧ isWs c = false := by
  cases d <;> exact ⟨_, _, rfl, by decide⟩

theorem Tok.valid_str {raw : Bytes} (h : (Tok.str raw).valid = true) :
    ∃ a, raw = 0x22 :: a ∧ scanStr .body a = some (a, []) := by
  cases raw with
  | nil => simp [Tok.valid] at h
  | cons q a =>
    simp only [Tok.valid, Bool.and_eq_true, beq_iff_eq] at h
    exact ⟨a, by rw [h.1], h.2⟩

theorem Tok.valid_num {raw : Bytes} (h : (Tok.num raw).valid = true) :
    scanNum .start raw = some (raw, []) := by
  simpa [Tok.valid] using h

theorem num_first {raw : Bytes} (h : scanNum .start raw = some (raw, [])) :
    ∃ c cs, raw = c :: cs ∧ (c = 0x2d ∨ isDigit c = true) := by
  cases raw with
  | nil => simp [scanNum, NSt.accept] at h
  | cons c cs =>
    refine ⟨c, cs, rfl, start_next_first c ?_⟩
    unfold scanNum at h
    split at h
    · rename_i hn; simp [hn]
    · simp [NSt.accept] at h

theorem lex1_tok (t : Tok) (r : Bytes) (hv : t.valid = true) (hn : t.isNum = true → headOK r) :
    lex1 (t.bytes ++ r) = some (.tok t, r) := by
  cases t with
  | str raw =>
    obtain ⟨a, rfl, ha⟩ := Tok.valid_str hv
    have := scanStr_append a .body a [] r ha
    simp [Tok.bytes, lex1, isDigit, this, mapTok]
  | num raw =>
    have hs := Tok.valid_num hv
    obtain ⟨c, cs, rfl, hc⟩ := num_first hs
    have := scanNum_append _ .start _ [] r hs (hn rfl)
    simp only [Tok.bytes, List.cons_append, lex1, hc, if_true]
    rw [List.cons_append] at this
    rw [this]; rfl
  | bo => simp [Tok.bytes, lex1, isDigit]
  | eo => simp [Tok.bytes, lex1, isDigit]
  | ba => simp [Tok.bytes, lex1, isDigit]
  | ea => simp [Tok.bytes, lex1, isDigit]
  | null => simp [Tok.bytes, lex1, isDigit]
  | tru => simp [Tok.bytes, lex1, isDigit]
  | fls => simp [Tok.bytes, lex1, isDigit]

theorem tok_first_not_ws (t : Tok) (r : Bytes) (hv : t.valid = true) :
    ∃ c cs, t.bytes ++ r = c :: cs ∧ isWs c = false := by
  cases t with
  | str raw =>
    obtain ⟨a, rfl, _⟩ := Tok.valid_str hv
    exact ⟨_, _, rfl, by decide⟩
  | num raw =>
    obtain ⟨c, cs, rfl, hc⟩ := num_first (Tok.valid_num hv)
    exact ⟨c, cs ++ r, rfl, numStart_not_ws c hc⟩
  | bo => exact ⟨_, _, rfl, by decide⟩
  | eo => exact ⟨_, _, rfl, by decide⟩
  | ba => exact ⟨_, _, rfl, by decide⟩
  | ea => exact ⟨_, _, rfl, by decide⟩
  | null => exact ⟨_, _, rfl, by decide⟩
  | tru => exact ⟨_, _, rfl, by decide⟩
  | fls => exact ⟨_, _, rfl, by decide⟩

/-! ### the lexer loop -/

theorem lexF_ws (w b : Bytes) (n : Nat) (hw : allWs w = true) : lexF (n + w.length) (w ++ b) = lexF n b := by
  induction w with
  | nil => rfl
  | cons c cs ih =>
    simp only [allWs, List.all_cons, Bool.and_eq_true] at hw
    have : n + (c :: cs).length = (n + cs.length) + 1 := by simp; omega
    rw [this, List.cons_append, lexF]
    simp only [hw.1, if_true]
    exact ih (by simpa [allWs] using hw.2)

theorem lexF_ws_only (w : Bytes) (n : Nat) (hw : allWs w = true) (hn : w.length < n) : lexF n w = some [] := by
  obtain ⟨m, rfl⟩ : ∃ m, n = (m + 1) + w.length := ⟨n - w.length - 1, by omega⟩
  have := lexF_ws w [] (m + 1) hw
  rw [List.append_nil] at this
  rw [this]; rfl

theorem lexF_lexeme (l : Lex) (r : Bytes) (n : Nat) (h1 : lex1 (l.bytes ++ r) = some (l, r))
    (hf : ∃ c cs, l.bytes ++ r = c :: cs ∧ isWs c = false) :
    lexF (n + 1) (l.bytes ++ r) = consL l (lexF n r) := by
  obtain ⟨c, cs, hcs, hc⟩ := hf
  rw [hcs] at h1 ⊢
  rw [lexF]
  simp [hc, h1]

end JsonV.Fmt
