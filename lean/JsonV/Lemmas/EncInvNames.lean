/-
C02, part 9: `WellFormed` (distinct KEYS of the quoted names) follows from `NamesOK` (distinct Go-side names
after normalisation) whenever the key of a quoted name is the normalised name — which slices C11/quote proved for
the modelled AppendQuote and both notions of key (AppendUnquote: `unqLoop_quoteLoop`; the decoder's
`nameKey`: Lemmas/GlueNameKey.lean).
-/
import JsonV.Model.EncInv
import JsonV.Lemmas.GlueNameKey

namespace JsonV.Lemmas.EncInvNames
open JsonV JsonV.Spec.ValidJson JsonV.Model.EncInv

theorem keys_renderMembers (key quote norm : Bytes → Bytes) (hk : ∀ n, key (quote n) = norm n) :
    ∀ ms : List (Bytes × OutTree), ((renderMembers quote ms).map fun m => key m.1) = ms.map fun m => norm m.1
  | [] => rfl
  | (n, t) :: ms => by simp [renderMembers, hk, keys_renderMembers key quote norm hk ms]

mutual
theorem wf_of_namesOK (o : Opt) (quote norm : Bytes → Bytes) (hk : ∀ n, o.key (quote n) = norm n) :
    ∀ t : OutTree, t.NamesOK o.noDup norm → t.WellFormed o quote
  | .atom _, _ => trivial
  | .arr ts, h => by
    simp only [OutTree.NamesOK] at h; simp only [OutTree.WellFormed]
    exact wfList_of_namesOK o quote norm hk ts h
  | .obj ms, h => by
    simp only [OutTree.NamesOK] at h; simp only [OutTree.WellFormed]
    refine ⟨wfMembers_of_namesOK o quote norm hk ms h.1, fun hnd => ?_⟩
    rw [keys_renderMembers o.key quote norm hk]; exact h.2 hnd
theorem wfList_of_namesOK (o : Opt) (quote norm : Bytes → Bytes) (hk : ∀ n, o.key (quote n) = norm n) :
    ∀ ts : List OutTree, namesOKList o.noDup norm ts → wfList o quote ts
  | [], _ => trivial
  | t :: ts, h => by
    simp only [namesOKList] at h; simp only [wfList]
    exact ⟨wf_of_namesOK o quote norm hk t h.1, wfList_of_namesOK o quote norm hk ts h.2⟩
theorem wfMembers_of_namesOK (o : Opt) (quote norm : Bytes → Bytes) (hk : ∀ n, o.key (quote n) = norm n) :
    ∀ ms : List (Bytes × OutTree), namesOKMembers o.noDup norm ms → wfMembers o quote ms
  | [], _ => trivial
  | (_, t) :: ms, h => by
    simp only [namesOKMembers] at h; simp only [wfMembers]
    exact ⟨wf_of_namesOK o quote norm hk t h.1, wfMembers_of_namesOK o quote norm hk ms h.2⟩
end

end JsonV.Lemmas.EncInvNames
