/-
Glue, part 2: the string scanner copies of Model/Resume.lean (C05) and Model/WireDecode.lean (C01) are equal.
-/
import JsonV.Lemmas.GlueResume
import JsonV.Lemmas.ResumeStr
import JsonV.Lemmas.WireString

namespace JsonV.Lemmas.GlueResume
open JsonV JsonV.Model
open JsonV.Lemmas.WireNumber (forall_u8)

def fR (f : Resume.VFlags) : Wire.ValueFlags := ⟨f.nonVerbatim, f.nonCanonical⟩

def stepMap : Resume.Step → Wire.Step
  | .adv k g => .cont (k + 1) (fR g)
  | .done => .stop 1 {} .ok
  | .stop g e => .stop 0 (fR g) (eR e)

theorem hexVal_eq : ∀ c : UInt8, Resume.hexVal c = Wire.hexVal c := by
  apply forall_u8; decide +kernel

theorem parse_eq (a b c d : UInt8) : Resume.parseHex4 a b c d = Wire.parseHexUint16 [a, b, c, d] := by
  simp only [Resume.parseHex4, Wire.parseHexUint16, hexVal_eq]
  cases Wire.hexVal a <;> cases Wire.hexVal b <;> cases Wire.hexVal c <;> cases Wire.hexVal d <;> rfl

theorem prefixAux_eq (l : Bool) (i : Nat) (b : Bytes) :
    Resume.hasEscapedUTF16PrefixAux l i b = Wire.hasEscapedUTF16PrefixAux l i b := by
  induction b generalizing i with
  | nil => rfl
  | cons c r ih =>
    simp only [Resume.hasEscapedUTF16PrefixAux, Wire.hasEscapedUTF16PrefixAux, Resume.prefixBad, Wire.isHex, hexVal_eq, ih]
    cases h0 : (i == 0 && c != 0x5C) <;> cases h1 : (i == 1 && c != 0x75) <;>
      cases h2 : (i == 2 && l && c != 0x64 && c != 0x44) <;>
      cases h3 : (i == 3 && l && !(0x63 ≤ c && c ≤ 0x66) && !(0x43 ≤ c && c ≤ 0x46)) <;>
      cases h4 : (decide (2 ≤ i) && decide (i < 6) && (Wire.hexVal c).isNone) <;> simp_all
    intro _
    by_cases ha : 2 ≤ i ∧ i < 6
    · right; have := h4 ha.1 ha.2; intro hn; simp [hn] at this
    · left; omega

theorem prefix_eq (b : Bytes) (l : Bool) : Resume.hasEscapedUTF16Prefix b l = Wire.hasEscapedUTF16Prefix b l :=
  prefixAux_eq l 0 b


theorem canon_eq (v1 : Nat) (h0 h1 h2 h3 : UInt8) :
    fR ⟨true, Resume.uEscNonCanonical v1 h0 h1 h2 h3⟩ = Wire.ValueFlags.nv.join (Wire.escapeCanonFlags v1 [h0, h1, h2, h3]) := by
  simp only [Resume.uEscNonCanonical, Wire.escapeCanonFlags, fR, Wire.ValueFlags.join, Wire.ValueFlags.nv,
    Wire.ValueFlags.nc, Resume.isUpperHexLetter]
  split
  · simp
  split
  · simp
  · simp only [List.any_cons, List.any_nil, Bool.or_false]
    split <;> simp_all [or_assoc]

theorem fR_join (f g : Resume.VFlags) : fR (f.join g) = (fR f).join (fR g) := rfl

/-- escape sequences: `escStep r1 v` is `stringEscape v (0x5C :: r1)` -/
theorem escape_eq (r1 : Bytes) (v : Bool) :
    stepMap (Resume.escStep r1 v) = Wire.stringEscape v (0x5C :: r1) := by
  cases r1 with
  | nil => rfl
  | cons c1 r2 =>
    simp only [Resume.escStep, Wire.stringEscape]
    by_cases h1 : (c1 == 0x2F) = true
    · simp [h1, stepMap, fR, Resume.VFlags.nvnc, Wire.ValueFlags.nvnc]
    simp only [h1, Bool.false_eq_true, if_false]
    by_cases h2 : Resume.isSimpleEscape c1 = true
    · have h2' : (c1 == 0x22 || c1 == 0x5C || c1 == 0x62 || c1 == 0x66 || c1 == 0x6E || c1 == 0x72 || c1 == 0x74) = true := h2
      simp [h2, h2', stepMap, fR, Resume.VFlags.nv, Wire.ValueFlags.nv]
    have h2' : (c1 == 0x22 || c1 == 0x5C || c1 == 0x62 || c1 == 0x66 || c1 == 0x6E || c1 == 0x72 || c1 == 0x74) = false := by
      simpa [Resume.isSimpleEscape] using h2
    simp only [h2, h2', Bool.false_eq_true, if_false]
    by_cases h3 : (c1 == 0x75) = false
    · simp [h3, stepMap, fR, Resume.VFlags.nvnc, Wire.ValueFlags.nvnc, eR]
    replace h3 : (c1 == 0x75) = true := by simpa using h3
    have hc1 : c1 = 0x75 := by simpa using h3
    subst hc1
    simp only [beq_self_eq_true, if_true]
    match r2 with
    | [] => simp [Wire.lenLt, prefix_eq]; split <;> simp [stepMap, fR, eR, Resume.VFlags.nv, Wire.ValueFlags.nv, Resume.VFlags.nvnc, Wire.ValueFlags.nvnc]
    | [_] => simp [Wire.lenLt, prefix_eq]; split <;> simp [stepMap, fR, eR, Resume.VFlags.nv, Wire.ValueFlags.nv, Resume.VFlags.nvnc, Wire.ValueFlags.nvnc]
    | [_, _] => simp [Wire.lenLt, prefix_eq]; split <;> simp [stepMap, fR, eR, Resume.VFlags.nv, Wire.ValueFlags.nv, Resume.VFlags.nvnc, Wire.ValueFlags.nvnc]
    | [_, _, _] => simp [Wire.lenLt, prefix_eq]; split <;> simp [stepMap, fR, eR, Resume.VFlags.nv, Wire.ValueFlags.nv, Resume.VFlags.nvnc, Wire.ValueFlags.nvnc]
    | h0 :: h1' :: h2'' :: h3' :: r6 =>
      simp only [Wire.lenLt, Bool.false_eq_true, if_false, List.take_succ_cons, List.take_zero, parse_eq,
        List.drop_succ_cons, List.drop_zero]
      cases hp : Wire.parseHexUint16 [h0, h1', h2'', h3'] with
      | none => simp [stepMap, fR, eR, Resume.VFlags.nvnc, Wire.ValueFlags.nvnc]
      | some v1 =>
        simp only []
        rw [← canon_eq]
        by_cases hs : (v && Utf8.isSurrogate v1) = false
        · simp [hs, stepMap]
        replace hs : (v && Utf8.isSurrogate v1) = true := by simpa using hs
        simp only [hs, if_true]
        unfold Resume.lowSurrogateStep
        match r6 with
        | [] => simp [Wire.lenLt, prefix_eq]; split <;> simp [stepMap, eR, fR_join] <;> rfl
        | [_] => simp [Wire.lenLt, prefix_eq]; split <;> simp [stepMap, eR, fR_join] <;> rfl
        | [_, _] => simp [Wire.lenLt, prefix_eq]; split <;> simp [stepMap, eR, fR_join] <;> rfl
        | [_, _, _] => simp [Wire.lenLt, prefix_eq]; split <;> simp [stepMap, eR, fR_join] <;> rfl
        | [_, _, _, _] => simp [Wire.lenLt, prefix_eq]; split <;> simp [stepMap, eR, fR_join] <;> rfl
        | [_, _, _, _, _] => simp [Wire.lenLt, prefix_eq]; split <;> simp [stepMap, eR, fR_join] <;> rfl
        | b0 :: b1 :: l0 :: l1 :: l2 :: l3 :: t =>
          simp only [Wire.lenLt, Bool.false_eq_true, if_false, List.take_succ_cons, List.take_zero, parse_eq]
          cases hp2 : Wire.parseHexUint16 [l0, l1, l2, l3] with
          | none => simp only []; split <;> simp [stepMap, eR, fR_join] <;> rfl
          | some v2 =>
            simp only []
            split
            · simp [stepMap, eR, fR_join]; rfl
            · split <;> simp [stepMap, eR, fR_join] <;> rfl


open JsonV.Lemmas.WireString in
/-- one iteration of the string loop: the two models agree -/
theorem step_eq (c : UInt8) (r1 : Bytes) (v : Bool) :
    stepMap (Resume.strStep c r1 v) = Wire.stringStep v (c :: r1) := by
  have hne : Resume.noEscape c = Wire.noEscape c := rfl
  simp only [Resume.strStep, Wire.stringStep, hne]
  by_cases h1 : Wire.noEscape c = true
  · simp [h1, stepMap, fR, Resume.VFlags.none]
  simp only [h1, Bool.false_eq_true, if_false]
  by_cases h2 : (c == 0x22) = true
  · simp [h2, stepMap]
  simp only [h2, Bool.false_eq_true, if_false]
  rcases hd : Utf8.decodeRune (c :: r1) with ⟨rune, rn⟩
  simp only []
  by_cases h3 : rn > 1
  · simp only [h3, if_true, stepMap, fR, Resume.VFlags.none]
    have : rn - 1 + 1 = rn := by omega
    rw [this]
  simp only [h3, if_false]
  by_cases h4 : (rune == 0x5C) = true
  · simp only [h4, if_true]
    have hc : c = 0x5C := by
      by_cases hlt : c.toNat < 0x80
      · rw [decodeRune_ascii c r1 hlt] at hd
        simp only [Prod.mk.injEq] at hd
        have : c.toNat = 0x5C := by rw [hd.1]; simpa using h4
        exact UInt8.toNat_inj.1 (by simpa using this)
      · rcases decodeRune_high c r1 hlt with h' | h'
        · rw [hd] at h'; exact absurd h' h3
        · rw [hd] at h'; simp only [Prod.mk.injEq] at h'; rw [h'.1] at h4; simp [Utf8.runeError] at h4
    subst hc
    exact escape_eq r1 v
  simp only [h4, Bool.false_eq_true, if_false]
  by_cases h5 : (rune == Utf8.runeError) = true
  · simp only [h5, if_true]
    split
    · simp [stepMap, fR, eR, Resume.VFlags.none]
    · split <;> simp [stepMap, fR, eR, Resume.VFlags.nvnc, Wire.ValueFlags.nvnc]
  simp only [h5, Bool.false_eq_true, if_false]
  have hsmall := Resume.strStep_default_unreachable c r1 (by rw [hne]; simpa using h1) (by simpa using h2)
    (by rw [hd]; exact h3) (by rw [hd]; simpa using h4) (by rw [hd]; simpa using h5)
  rw [hd] at hsmall
  simp [hsmall, stepMap, fR, eR, Resume.VFlags.nvnc, Wire.ValueFlags.nvnc]

theorem join_empty (f : Wire.ValueFlags) : f.join {} = f := by
  cases f; simp [Wire.ValueFlags.join]

theorem join_assoc (a b c : Wire.ValueFlags) : (a.join b).join c = a.join (b.join c) := by
  cases a; cases b; cases c; simp [Wire.ValueFlags.join, Bool.or_assoc]

/-- the string loop: `Resume.strLoop` (absolute offset, flags threaded) is `Wire.stringLoop` (relative, fuelled) -/
theorem loop_eq (v : Bool) (fuel : Nat) : ∀ (r : Bytes) (n : Nat) (f : Resume.VFlags), r.length + 1 ≤ fuel →
    (Resume.strLoop r n f v).1 = n + (Wire.stringLoop v fuel r).1 ∧
    fR (Resume.strLoop r n f v).2.1 = (fR f).join (Wire.stringLoop v fuel r).2.1 ∧
    eR (Resume.strLoop r n f v).2.2 = (Wire.stringLoop v fuel r).2.2 := by
  induction fuel with
  | zero => intro r n f h; omega
  | succ fuel ih =>
    intro r n f hf
    cases r with
    | nil =>
      rw [Resume.strLoop_nil]
      simp [Wire.stringLoop, Wire.stringStep, eR, join_empty]
    | cons c r1 =>
      rw [Resume.strLoop_cons]
      have hs := step_eq c r1 v
      simp only [Wire.stringLoop, ← hs]
      cases Resume.strStep c r1 v with
      | adv k g =>
        simp only [stepMap, List.drop_succ_cons]
        have := ih (r1.drop k) (n + k + 1) (f.join g) (by simp at hf ⊢; omega)
        rcases hl : Wire.stringLoop v fuel (r1.drop k) with ⟨n', f', e'⟩
        rw [hl] at this
        simp only at this ⊢
        refine ⟨by omega, ?_, this.2.2⟩
        rw [this.2.1, fR_join, join_assoc]
      | done => simp [stepMap, eR, join_empty]
      | stop g e => simp [stepMap, fR_join]

/-- the two models of `ConsumeStringResumable` are equal (Wire's starts from empty flags) -/
theorem string_resumable_eq (f : Resume.VFlags) (b : Bytes) (off : Nat) (v : Bool) :
    (Resume.consumeStringResumable f b off v).1 = (Wire.consumeStringResumable b off v).1 ∧
    fR (Resume.consumeStringResumable f b off v).2.1 = (fR f).join (Wire.consumeStringResumable b off v).2.1 ∧
    eR (Resume.consumeStringResumable f b off v).2.2 = (Wire.consumeStringResumable b off v).2.2 := by
  unfold Resume.consumeStringResumable Wire.consumeStringResumable
  by_cases h0 : off > 0
  · simp only [h0, if_true]
    have := loop_eq v (b.length + 1) (b.drop off) off f (by simp)
    rcases hl : Wire.stringLoop v (b.length + 1) (b.drop off) with ⟨n', f', e'⟩
    rw [hl] at this
    exact this
  · simp only [h0, if_false]
    cases b with
    | nil => simp [eR, join_empty]
    | cons c r =>
      by_cases hq : (c == 0x22) = true
      · simp only [hq, if_true]
        have := loop_eq v (r.length + 1) r 1 f (Nat.le_refl _)
        rcases hl : Wire.stringLoop v (r.length + 1) r with ⟨n', f', e'⟩
        rw [hl] at this
        exact this
      · simp [hq, eR, join_empty]

end JsonV.Lemmas.GlueResume
