/-
`WriteValue` of the Encoder model succeeds exactly when the raw text is accepted by `reformatValue`
(one value, only whitespace around it), the PDA admits a value of that kind here, and a raw string in
name position is a fresh name.  Core Lean only.
-/
import JsonV.Lemmas.EncIff

namespace JsonV.Lemmas.EncValue
open JsonV JsonV.Model JsonV.Model.Encoder JsonV.Spec JsonV.Spec.PDA JsonV.Spec.Render JsonV.Spec.Names
open JsonV.Lemmas.StateRefine JsonV.Lemmas.StateRun JsonV.Lemmas.EncRender JsonV.Lemmas.EncIff

/-- The kind of the first token of a raw value whose `Value.Kind()` byte is `k`. -/
def firstKind (k : UInt8) : Kind :=
  if k = 0x22 then .str else if k = 0x30 then .num else if k = 0x7b then .beginObj
  else if k = 0x5b then .beginArr else .lit

/-- The state-machine part of `WriteValue` (encode.go:555-595) for a value of kind `k` whose reformatted
text is `lit`. -/
def valueSM (e : Enc) (k : UInt8) (lit : Bytes) : Except EncErr (Machine × List (List Bytes)) :=
  if k = 0x6e ∨ k = 0x66 ∨ k = 0x74 then (liftSM e.m.appendLiteral).map fun m => (m, e.ns)
  else if k = 0x22 then
    match checkName e lit with
    | .error err => .error err
    | .ok ns => (liftSM e.m.appendString).map fun m => (m, ns)
  else if k = 0x30 then (liftSM e.m.appendNumber).map fun m => (m, e.ns)
  else if k = 0x7b then
    match e.m.pushObject e.o.maxDepth with
    | .error err => .error (.sm err)
    | .ok m1 => match m1.popObject with
      | .ok m2 => .ok (m2, e.ns)
      | .error _ => .error .bug
  else if k = 0x5b then
    match e.m.pushArray e.o.maxDepth with
    | .error err => .error (.sm err)
    | .ok m1 => match m1.popArray with
      | .ok m2 => .ok (m2, e.ns)
      | .error _ => .error .bug
  else .ok (e.m, e.ns)

/-- Normal form of `writeValue`. -/
theorem writeValue_nf (e : Enc) (v : Bytes) :
    writeValue e v =
      match reformatValue e.o (3 * v.length + 4) (beforeToken e (valueKind v)) (skipWS v) e.m.depth with
      | .error err => (e, some err)
      | .ok (b', rest) =>
        match skipWS rest with
        | _ :: _ => (e, some .invalidChar)
        | [] =>
          match valueSM e (valueKind v) (b'.drop (beforeToken e (valueKind v)).length) with
          | .ok (m, ns) => (commit e b' m ns, none)
          | .error err => (e, some err) := by
  unfold writeValue valueSM
  rfl


theorem step_open_close_obj {max : Nat} {fs fs' : Frames} (h : step max fs .beginObj = some fs') :
    (step max fs' .endObj).isSome = true := by
  cases fs with
  | nil => simp [step] at h
  | cons f rest =>
    simp only [step] at h
    split at h
    · cases h
    · split at h
      · cases h; simp [step]
      · cases h

theorem step_open_close_arr {max : Nat} {fs fs' : Frames} (h : step max fs .beginArr = some fs') :
    (step max fs' .endArr).isSome = true := by
  cases fs with
  | nil => simp [step] at h
  | cons f rest =>
    simp only [step] at h
    split at h
    · cases h
    · split at h
      · cases h; simp [step]
      · cases h

/-- `popObject` cannot fail immediately after `pushObject` (the `panic("BUG: …")` of encode.go:580 is dead). -/
theorem pop_after_push_obj {max b : Nat} {m m1 : Machine} (hI : Inv max b m) (hb : b + 2 < 2^61)
    (h : m.pushObject max = .ok m1) : ∃ m2, m1.popObject = .ok m2 := by
  have h1 := step_refines hI (by omega) .beginObj
  unfold StepRel at h1
  simp only [smStep, h] at h1
  have h2 := step_refines h1.2 (by omega) .endObj
  unfold StepRel at h2
  simp only [smStep] at h2
  cases hp : m1.popObject with
  | ok m2 => exact ⟨m2, rfl⟩
  | error x =>
    rw [hp] at h2
    have := step_open_close_obj h1.1
    simp [h2] at this

theorem pop_after_push_arr {max b : Nat} {m m1 : Machine} (hI : Inv max b m) (hb : b + 2 < 2^61)
    (h : m.pushArray max = .ok m1) : ∃ m2, m1.popArray = .ok m2 := by
  have h1 := step_refines hI (by omega) .beginArr
  unfold StepRel at h1
  simp only [smStep, h] at h1
  have h2 := step_refines h1.2 (by omega) .endArr
  unfold StepRel at h2
  simp only [smStep] at h2
  cases hp : m1.popArray with
  | ok m2 => exact ⟨m2, rfl⟩
  | error x =>
    rw [hp] at h2
    have := step_open_close_arr h1.1
    simp [h2] at this

/-- The seven kinds a value can start with. -/
def IsValueKind (k : UInt8) : Prop :=
  k = 0x6e ∨ k = 0x66 ∨ k = 0x74 ∨ k = 0x22 ∨ k = 0x30 ∨ k = 0x7b ∨ k = 0x5b

theorem smStep_ok_iff {o : Opts} {b : Nat} {fs : Frames} {ns : List (List Bytes)} {e : Enc}
    (hI : EncInv o b fs ns e) (hb : b + 1 < 2^61) (k : Kind) :
    (∃ m, smStep o.maxDepth e.m k = .ok m) ↔ (step o.maxDepth fs k).isSome = true := by
  have h := step_refines hI.inv hb k
  unfold StepRel at h
  rw [hI.abs_eq] at h
  cases hs : smStep o.maxDepth e.m k with
  | ok m => rw [hs] at h; simp [h.1]
  | error x => rw [hs] at h; simp [h]

theorem liftSM_map_ok_iff (x : Except SMErr Machine) (ns : List (List Bytes)) :
    (∃ r, (liftSM x).map (fun m => (m, ns)) = .ok r) ↔ ∃ m, x = .ok m := by
  cases x with
  | ok m => simp [liftSM, Except.map]
  | error e => simp [liftSM, Except.map]

/-- The state-machine part of `WriteValue` succeeds iff the PDA admits the first token of the value and
a raw string in name position is a fresh name. -/
theorem valueSM_ok_iff {o : Opts} {b : Nat} {fs : Frames} {ns : List (List Bytes)} {e : Enc}
    (hI : EncInv o b fs ns e) (hb : b + 2 < 2^61) (k : UInt8) (lit : Bytes) (hk : IsValueKind k) :
    (∃ r, valueSM e k lit = .ok r) ↔
      ((step o.maxDepth fs (firstKind k)).isSome = true ∧
        (k = 0x22 → o.allowDup = false → isNamePos fs = true → unquote lit ∉ ns.headD [])) := by
  have hb1 : b + 1 < 2^61 := by omega
  unfold valueSM
  rw [hI.opts]
  by_cases h1 : k = 0x6e ∨ k = 0x66 ∨ k = 0x74
  · have hk' : firstKind k = .lit := by rcases h1 with h | h | h <;> subst h <;> decide
    have hq : k ≠ 0x22 := by rcases h1 with h | h | h <;> subst h <;> decide
    rw [if_pos h1, liftSM_map_ok_iff, hk', ← smStep_ok_iff hI hb1 .lit]
    simp [smStep, hq]
  rw [if_neg h1]
  by_cases h2 : k = 0x22
  · subst h2
    rw [if_pos rfl]
    have hk' : firstKind 0x22 = .str := by decide
    rw [hk', ← smStep_ok_iff hI hb1 .str]
    have hc := nameCheckSpec_ok_iff (o := o) (fs := fs) (ns := ns) (cur := e.ns) (unquote lit)
      (fun hd hn => ns_nonempty hI hd hn)
    rw [← checkName_spec hI lit] at hc
    cases hn : checkName e lit with
    | error x =>
      rw [hn] at hc
      constructor
      · rintro ⟨_, h⟩; cases h
      · rintro ⟨_, h⟩
        obtain ⟨_, h'⟩ := hc.mpr (h rfl); cases h'
    | ok ns' =>
      rw [hn] at hc
      simp only [liftSM_map_ok_iff, smStep]
      constructor
      · intro h; exact ⟨h, fun _ => hc.mp ⟨_, rfl⟩⟩
      · intro h; exact h.1
  rw [if_neg h2]
  by_cases h3 : k = 0x30
  · subst h3
    rw [if_pos rfl, liftSM_map_ok_iff]
    have hk' : firstKind 0x30 = .num := by decide
    rw [hk', ← smStep_ok_iff hI hb1 .num]
    simp [smStep]
  rw [if_neg h3]
  by_cases h4 : k = 0x7b
  · subst h4
    rw [if_pos rfl]
    have hk' : firstKind 0x7b = .beginObj := by decide
    rw [hk', ← smStep_ok_iff hI hb1 .beginObj]
    simp only [smStep]
    cases hp : e.m.pushObject o.maxDepth with
    | error x => simp
    | ok m1 =>
      obtain ⟨m2, h2'⟩ := pop_after_push_obj hI.inv hb hp
      simp [h2']
  rw [if_neg h4]
  by_cases h5 : k = 0x5b
  · subst h5
    rw [if_pos rfl]
    have hk' : firstKind 0x5b = .beginArr := by decide
    rw [hk', ← smStep_ok_iff hI hb1 .beginArr]
    simp only [smStep]
    cases hp : e.m.pushArray o.maxDepth with
    | error x => simp
    | ok m1 =>
      obtain ⟨m2, h2'⟩ := pop_after_push_arr hI.inv hb hp
      simp [h2']
  · exfalso
    rcases hk with h | h | h | h | h | h | h
    · exact h1 (Or.inl h)
    · exact h1 (Or.inr (Or.inl h))
    · exact h1 (Or.inr (Or.inr h))
    · exact h2 h
    · exact h3 h
    · exact h4 h
    · exact h5 h


theorem reformat_ok_kind {o : Opts} {fuel : Nat} {dst src : Bytes} {d : Nat} {r : Bytes × Bytes}
    (h : reformatValue o fuel dst src d = .ok r) : ∃ c rest, src = c :: rest ∧ IsValueKind (normKind c) := by
  cases fuel with
  | zero => simp [reformatValue] at h
  | succ fuel =>
    cases src with
    | nil => simp [reformatValue] at h
    | cons c rest =>
      refine ⟨c, rest, rfl, ?_⟩
      unfold reformatValue at h
      simp only at h
      unfold IsValueKind
      by_cases h1 : normKind c = 0x6e; · exact Or.inl h1
      by_cases h2 : normKind c = 0x66; · exact Or.inr (Or.inl h2)
      by_cases h3 : normKind c = 0x74; · exact Or.inr (Or.inr (Or.inl h3))
      by_cases h4 : normKind c = 0x22; · exact Or.inr (Or.inr (Or.inr (Or.inl h4)))
      by_cases h5 : normKind c = 0x30; · exact Or.inr (Or.inr (Or.inr (Or.inr (Or.inl h5))))
      by_cases h6 : normKind c = 0x7b; · exact Or.inr (Or.inr (Or.inr (Or.inr (Or.inr (Or.inl h6)))))
      by_cases h7 : normKind c = 0x5b; · exact Or.inr (Or.inr (Or.inr (Or.inr (Or.inr (Or.inr h7)))))
      simp [h1, h2, h3, h4, h5, h6, h7] at h

/-- **One `WriteValue` call** from a reachable state: it succeeds iff `reformatValue` accepts the text
(at the current depth, with nothing but whitespace after the value), the PDA admits the first token of
the value here, and a raw string in name position denotes a fresh name. -/
theorem writeValue_iff {o : Opts} {b : Nat} {fs : Frames} {ns : List (List Bytes)} {e : Enc}
    (hI : EncInv o b fs ns e) (hb : b + 2 < 2^61) (v : Bytes) :
    (writeValue e v).2 = none ↔
      ∃ b' rest, reformatValue o (3 * v.length + 4) (beforeToken e (valueKind v)) (skipWS v) e.m.depth = .ok (b', rest) ∧
        skipWS rest = [] ∧ (step o.maxDepth fs (firstKind (valueKind v))).isSome = true ∧
        (valueKind v = 0x22 → o.allowDup = false → isNamePos fs = true →
          unquote (b'.drop (beforeToken e (valueKind v)).length) ∉ ns.headD []) := by
  rw [writeValue_nf, hI.opts]
  cases hr : reformatValue o (3 * v.length + 4) (beforeToken e (valueKind v)) (skipWS v) e.m.depth with
  | error err => simp
  | ok p =>
    obtain ⟨b', rest⟩ := p
    have hk : IsValueKind (valueKind v) := by
      obtain ⟨c, r, hs, hk⟩ := reformat_ok_kind hr
      simp only [valueKind, hs]; exact hk
    have hsm := valueSM_ok_iff hI hb (valueKind v) (b'.drop (beforeToken e (valueKind v)).length) hk
    have hex : ∀ Q : Bytes → Bytes → Prop,
        (∃ b'' rest'', (Except.ok (b', rest) : Except EncErr (Bytes × Bytes)) = .ok (b'', rest'') ∧ Q b'' rest'') ↔
          Q b' rest := by
      intro Q
      constructor
      · rintro ⟨_, _, h, q⟩; cases h; exact q
      · intro q; exact ⟨_, _, rfl, q⟩
    rw [hex]
    simp only
    cases hw : skipWS rest with
    | cons c r =>
      simp only
      constructor
      · intro h; cases h
      · rintro ⟨h, _⟩; cases h
    | nil =>
      simp only
      cases hv : valueSM e (valueKind v) (b'.drop (beforeToken e (valueKind v)).length) with
      | error err =>
        rw [hv] at hsm
        simp only
        constructor
        · intro h; cases h
        · rintro ⟨_, h⟩
          obtain ⟨_, h'⟩ := hsm.mpr h; cases h'
      | ok r =>
        rw [hv] at hsm
        obtain ⟨m, ns'⟩ := r
        simp only
        constructor
        · intro _; exact ⟨trivial, hsm.mp ⟨_, rfl⟩⟩
        · intro _; trivial

end JsonV.Lemmas.EncValue
