/-
GLUE between the Encoder model (slice sm, Model/Encoder.lean: its own `quoteGo`/`appendQuote`/`unquoteGo`/`unquote`)
and slice C11 (Model/Quote.lean): the two AppendQuote models are equal (output and error flag) for every option set
and input, and the Encoder's `unquote` of a quoted string is C11's AppendUnquote of it (= the lossy input, = the
input itself when it is well-formed UTF-8).  Core Lean only.
-/
import JsonV.Lemmas.EncUtf8
import JsonV.Lemmas.QuoteSpec
import JsonV.Lemmas.GlueQuote

namespace JsonV.Lemmas.GlueEncQuote
open JsonV JsonV.Model JsonV.Model.Utf8 JsonV.Spec.StringSpec
open JsonV.Lemmas.QuoteUtf8 JsonV.Lemmas.QuoteL JsonV.Lemmas.QuoteSpec
open JsonV.Model.Quote

/-- the string flags of the Encoder model's options, as Model/Quote takes them -/
def flagsOf (o : Encoder.Opts) : QFlags :=
  { html := o.escHTML, js := o.escJS, allowInvalid := o.allowInvalidUTF8 }

/-- the ASCII arm of both quote loops emits the same bytes -/
theorem ascii_arm (html : Bool) : ∀ c : UInt8, c.toNat < 128 →
    (if (Encoder.escapeASCII c && (!Encoder.isHTMLChar c || html)) = true then Encoder.escapedASCII c else [c]) =
    (if escapeASCII c.toNat = 0 then [c]
     else if (!isHTMLChar c.toNat || html) = true then appendEscapedASCII c.toNat else [c]) := by
  apply JsonV.Lemmas.GlueQuote.forall_u8'
  cases html <;> decide +kernel

theorem lt80_iff (c : UInt8) : c < 0x80 ↔ c.toNat < runeSelf := by
  simp [UInt8.lt_iff_toNat_lt, runeSelf]

theorem esc16_ls : Encoder.escapedUTF16 0x2028 = appendEscapedUnicode 0x2028 ∧
    Encoder.escapedUTF16 0x2029 = appendEscapedUnicode 0x2029 := by decide

theorem quoteGo_eq (o : Encoder.Opts) (s : Bytes) : Encoder.quoteGo o 0 s = quoteLoop o.escHTML o.escJS s := by
  fun_induction quoteLoop o.escHTML o.escJS s with
  | case1 => simp [Encoder.quoteGo]
  | case2 c t st r ih =>
    have hk : st.2.1 = (decodeRune (c :: t)).2 := quoteStep_consumed o.escHTML o.escJS c t
    have hskip : ∀ n, Encoder.quoteGo o (n - 1) t = Encoder.quoteGo o 0 ((c :: t).drop n) ∨ n = 0 := by
      intro n
      cases n with
      | zero => right; rfl
      | succ n => left; rw [JsonV.Lemmas.EncUtf8.quoteGo_skip]; simp
    have hp := decodeRune_pos c t
    have hrec : Encoder.quoteGo o ((decodeRune (c :: t)).2 - 1) t = r := by
      rcases hskip (decodeRune (c :: t)).2 with h | h
      · rw [h, ← hk]; exact ih
      · omega
    simp only [Encoder.quoteGo]
    by_cases h0 : c.toNat < runeSelf
    · have hc : c < 0x80 := (lt80_iff c).mpr h0
      have hd := decodeRune_ascii c t h0
      have hrec1 : Encoder.quoteGo o 0 t = r := by
        rw [hd] at hrec; simpa using hrec
      have harm := ascii_arm o.escHTML c h0
      have hst1 : st.1 = (if escapeASCII c.toNat = 0 then [c]
          else if (!isHTMLChar c.toNat || o.escHTML) = true then appendEscapedASCII c.toNat else [c]) := by
        show (quoteStep o.escHTML o.escJS c t).1 = _
        simp only [quoteStep, h0, ↓reduceIte]
        repeat' split
        all_goals rfl
      have hst2 : st.2.2 = false := by
        show (quoteStep o.escHTML o.escJS c t).2.2 = _
        simp only [quoteStep, h0, ↓reduceIte]
        repeat' split
        all_goals rfl
      simp only [hc, ↓reduceIte, hrec1]
      rw [hst1, ← harm, hst2]
      split <;> simp
    · have hc : ¬ c < 0x80 := fun h => h0 ((lt80_iff c).mp h)
      simp only [hc, ↓reduceIte]
      rcases decodeRune_high c t h0 with h1 | h1
      · have hni : ¬ ((decodeRune (c :: t)).1 = runeError ∧ (decodeRune (c :: t)).2 = 1) := by omega
        have hinv : isInvalidUTF8 (decodeRune (c :: t)).1 (decodeRune (c :: t)).2 = false := by
          have : ¬ (decodeRune (c :: t)).2 = 1 := by omega
          simp [isInvalidUTF8, this]
        simp only [hni, ↓reduceIte, hrec]
        by_cases hj : ((decodeRune (c :: t)).1 = 0x2028 ∨ (decodeRune (c :: t)).1 = 0x2029) ∧ o.escJS = true
        · have hne : ¬ ((decodeRune (c :: t)).1 ≠ runeError ∧ (decodeRune (c :: t)).1 ≠ 0x2028 ∧ (decodeRune (c :: t)).1 ≠ 0x2029) := by omega
          have hst : st = (appendEscapedUnicode (decodeRune (c :: t)).1, (decodeRune (c :: t)).2, false) := by
            show quoteStep o.escHTML o.escJS c t = _
            simp only [quoteStep, h0, ↓reduceIte, hinv]
            rw [if_neg hne]; simp [hj]
          simp only [hj, and_self, ↓reduceIte, hst]
          rcases hj.1 with h | h <;> simp [h, esc16_ls.1, esc16_ls.2]
        · have hst : st = ((c :: t).take (decodeRune (c :: t)).2, (decodeRune (c :: t)).2, false) := by
            show quoteStep o.escHTML o.escJS c t = _
            simp only [quoteStep, h0, ↓reduceIte, hinv]
            split
            · rfl
            · simp [hj]
          simp only [hj, ↓reduceIte, hst]
          simp
      · have hst : st = (utf8FFFD, 1, true) := by
          show quoteStep o.escHTML o.escJS c t = _
          simp [quoteStep, h0, h1, isInvalidUTF8, runeError]
        have hrec1 : Encoder.quoteGo o 0 t = r := by
          rw [h1] at hrec; simpa using hrec
        simp only [h1, and_self, ↓reduceIte, hrec1, hst]
        simp [Encoder.replacement, utf8FFFD]

/-- **BRIDGE (AppendQuote)**: the Encoder model's AppendQuote is this slice's, output and error flag. -/
theorem appendQuote_eq (o : Encoder.Opts) (s : Bytes) :
    Encoder.appendQuote o s = ((appendQuote (flagsOf o) s).1, decide ((appendQuote (flagsOf o) s).2 = Err.invalidUTF8)) := by
  simp only [Encoder.appendQuote, appendQuote, flagsOf]
  rw [show Encoder.quoteGo o 0 s = ((quoteLoop o.escHTML o.escJS s).1, (quoteLoop o.escHTML o.escJS s).2) from by rw [quoteGo_eq]]
  simp only [List.cons_append]
  congr 1
  by_cases hb : ((quoteLoop o.escHTML o.escJS s).2 && !o.allowInvalidUTF8) = true
  · simp [hb]
  · simp [hb]
/-! ### unquote on quote outputs -/

theorem unquoteGo_skip : ∀ (k : Nat) (p : Bytes), Encoder.unquoteGo k p = Encoder.unquoteGo 0 (p.drop k) := by
  intro k
  induction k with
  | zero => intro p; simp
  | succ k ih =>
    intro p
    cases p with
    | nil => simp [Encoder.unquoteGo]
    | cons c t => simp only [Encoder.unquoteGo, List.drop_succ_cons]; exact ih t

theorem enc_hexVal_hexLower : ∀ n : Fin 16, Encoder.hexVal (hexLower n.val) = some n.val := by decide +kernel

theorem enc_hex4_u16 (x : Nat) (hx : x < 65536) (tail : Bytes) :
    Encoder.hex4 (([hexLower ((x >>> 12) % 16), hexLower ((x >>> 8) % 16), hexLower ((x >>> 4) % 16), hexLower (x % 16)] ++ tail).take 4) = some x := by
  have h1 := enc_hexVal_hexLower ⟨(x >>> 12) % 16, Nat.mod_lt _ (by omega)⟩
  have h2 := enc_hexVal_hexLower ⟨(x >>> 8) % 16, Nat.mod_lt _ (by omega)⟩
  have h3 := enc_hexVal_hexLower ⟨(x >>> 4) % 16, Nat.mod_lt _ (by omega)⟩
  have h4 := enc_hexVal_hexLower ⟨x % 16, Nat.mod_lt _ (by omega)⟩
  simp only at h1 h2 h3 h4
  simp only [List.cons_append, List.nil_append, List.take_succ_cons, List.take_zero, Encoder.hex4, h1, h2, h3, h4]
  simp only [Nat.shiftRight_eq_div_pow]
  congr 1; omega

/-- `\uXXXX` (non-surrogate) as emitted by appendEscapedUTF16 -/
theorem unquoteGo_u16 (x : Nat) (hx : x < 65536) (hs : isSurrogate x = false) (tail : Bytes) :
    Encoder.unquoteGo 0 (appendEscapedUTF16 x ++ tail) = encodeRune x ++ Encoder.unquoteGo 0 tail := by
  simp only [appendEscapedUTF16, List.cons_append, List.nil_append, Encoder.unquoteGo]
  have := enc_hex4_u16 x hx tail
  simp only [List.cons_append, List.nil_append] at this
  simp only [show ((0x5c : UInt8) = 0x22) = False from by decide, ↓reduceIte, Encoder.decodeEscU, this, hs]
  rw [unquoteGo_skip]
  simp

theorem unquoteGo_escASCII : ∀ c : UInt8, c.toNat < 128 → ∀ tail : Bytes,
    Encoder.unquoteGo 0 (appendEscapedASCII c.toNat ++ tail) = c :: Encoder.unquoteGo 0 tail := by
  intro c hc tail
  unfold appendEscapedASCII
  split
  · rename_i h
    rcases h with h | h <;> (have := u8_eq_of_toNat (by omega) h; subst this) <;>
      simp [Encoder.unquoteGo, Encoder.unescapeChar]
  · split
    · rename_i h; have := u8_eq_of_toNat (by omega) h; subst this
      simp [Encoder.unquoteGo, Encoder.unescapeChar]
    · split
      · rename_i h; have := u8_eq_of_toNat (by omega) h; subst this
        simp [Encoder.unquoteGo, Encoder.unescapeChar]
      · split
        · rename_i h; have := u8_eq_of_toNat (by omega) h; subst this
          simp [Encoder.unquoteGo, Encoder.unescapeChar]
        · split
          · rename_i h; have := u8_eq_of_toNat (by omega) h; subst this
            simp [Encoder.unquoteGo, Encoder.unescapeChar]
          · split
            · rename_i h; have := u8_eq_of_toNat (by omega) h; subst this
              simp [Encoder.unquoteGo, Encoder.unescapeChar]
            · rw [unquoteGo_u16 c.toNat (by omega) (by simp [isSurrogate]; omega), encodeRune_ascii c hc]
              rfl

theorem unquoteGo_plain (c : UInt8) (tail : Bytes) (h : noEscape c.toNat = true) :
    Encoder.unquoteGo 0 (c :: tail) = c :: Encoder.unquoteGo 0 tail := by
  simp only [noEscape, Bool.and_eq_true, decide_eq_true_eq, ne_eq] at h
  have h1 : c ≠ 0x22 := by intro e; subst e; exact h.2 rfl
  have h2 : c ≠ 0x5c := by intro e; subst e; exact h.1.2 rfl
  have h3 : c < 0x80 := (lt80_iff c).mpr h.1.1.1
  simp [Encoder.unquoteGo, h1, h2, h3]

theorem unquoteGo_multi (c : UInt8) (t tail : Bytes) (h0 : ¬ c.toNat < runeSelf) (h1 : 1 < (decodeRune (c :: t)).2) :
    Encoder.unquoteGo 0 ((c :: t).take (decodeRune (c :: t)).2 ++ tail) =
      (c :: t).take (decodeRune (c :: t)).2 ++ Encoder.unquoteGo 0 tail := by
  have hda := decodeRune_take_append (c :: t) tail h1
  have hlen := take_decodeRune_length (c :: t)
  generalize hk : (decodeRune (c :: t)).2 = k at *
  obtain ⟨k', rfl⟩ : ∃ k', k = k' + 1 := ⟨k - 1, by omega⟩
  simp only [List.take_succ_cons, List.cons_append] at hda hlen ⊢
  have hq : c ≠ 0x22 := by intro h; subst h; exact h0 (by decide)
  have hb : c ≠ 0x5c := by intro h; subst h; exact h0 (by decide)
  have hc : ¬ c < 0x80 := fun h => h0 ((lt80_iff c).mp h)
  have hgt : k' + 1 > 1 := h1
  simp only [Encoder.unquoteGo, hq, hb, hc, ↓reduceIte, hda, hk, hgt, List.take_succ_cons, Nat.add_sub_cancel]
  simp only [List.length_cons, Nat.add_right_cancel_iff] at hlen
  rw [unquoteGo_skip]
  have e1 : List.take k' (List.take k' t ++ tail) = List.take k' t := by
    have := List.take_left (l₁ := List.take k' t) (l₂ := tail); rwa [hlen] at this
  have e2 : List.drop k' (List.take k' t ++ tail) = tail := by
    have := List.drop_left (l₁ := List.take k' t) (l₂ := tail); rwa [hlen] at this
  rw [e1, e2]; rfl

theorem unquoteGo_fffd (tail : Bytes) :
    Encoder.unquoteGo 0 (utf8FFFD ++ tail) = replacement ++ Encoder.unquoteGo 0 tail := by
  have hd := decodeRune_fffd tail
  simp only [utf8FFFD, List.cons_append, List.nil_append, Encoder.unquoteGo, hd]
  simp only [show ((0xEF : UInt8) = 0x22) = False from by decide, show ((0xEF : UInt8) = 0x5c) = False from by decide,
    show ((0xEF : UInt8) < 0x80) = False from by decide, ↓reduceIte]
  rw [unquoteGo_skip]; rfl

theorem unquoteGo_quoteStep (html js : Bool) (c : UInt8) (t tail : Bytes) :
    Encoder.unquoteGo 0 ((quoteStep html js c t).1 ++ tail) = lossyHead c t ++ Encoder.unquoteGo 0 tail := by
  by_cases h0 : c.toNat < runeSelf
  · have hd := decodeRune_ascii c t h0
    have h128 : c.toNat < 128 := h0
    have hl : lossyHead c t = [c] := by
      have : ¬ c.toNat = runeError := by simp only [runeError]; omega
      simp [lossyHead, illFormedHead, hd, this]
    rw [hl]; simp only [quoteStep, h0, ↓reduceIte]
    split
    · rename_i h
      exact unquoteGo_plain c tail (noEscape_of_table ⟨c.toNat, h128⟩ h)
    · split
      · exact unquoteGo_escASCII c h128 tail
      · rename_i h
        have : isHTMLChar c.toNat = true := by
          cases hh : isHTMLChar c.toNat <;> simp_all
        exact unquoteGo_plain c tail (html_noEscape this)
  · rcases decodeRune_high c t h0 with h1 | h1
    · have hl : lossyHead c t = (c :: t).take (decodeRune (c :: t)).2 := by
        have : ¬ (decodeRune (c :: t)).2 = 1 := by omega
        simp [lossyHead, illFormedHead, this]
      have hinv : isInvalidUTF8 (decodeRune (c :: t)).1 (decodeRune (c :: t)).2 = false := by
        have : ¬ (decodeRune (c :: t)).2 = 1 := by omega
        simp [isInvalidUTF8, this]
      rw [hl]; simp only [quoteStep, h0, hinv, ↓reduceIte]
      split
      · exact unquoteGo_multi c t tail h0 h1
      · split
        · simp at *
        · split
          · rename_i h
            have hne : ¬ ((decodeRune (c :: t)).1 = runeError ∧ (decodeRune (c :: t)).2 = 1) := by omega
            have hen := encodeRune_decodeRune c t hne
            have hr : (decodeRune (c :: t)).1 < 0x10000 := by omega
            rw [appendEscapedUnicode_bmp _ hr, unquoteGo_u16 _ hr (by simp [isSurrogate]; omega), hen]
          · exact unquoteGo_multi c t tail h0 h1
    · have hl : lossyHead c t = replacement := by simp [lossyHead, illFormedHead, h1]
      rw [hl]
      have : (quoteStep html js c t).1 = utf8FFFD := by
        simp [quoteStep, h0, h1, isInvalidUTF8, runeError]
      rw [this, unquoteGo_fffd]

theorem unquoteGo_quoteLoop (html js : Bool) (s : Bytes) :
    Encoder.unquoteGo 0 ((quoteLoop html js s).1 ++ [0x22]) = lossy s := by
  fun_induction quoteLoop html js s with
  | case1 => simp [lossy, Encoder.unquoteGo]
  | case2 c t st r ih =>
    have hk : st.2.1 = (decodeRune (c :: t)).2 := quoteStep_consumed html js c t
    show Encoder.unquoteGo 0 ((st.1 ++ (quoteLoop html js (List.drop st.2.1 (c :: t))).1) ++ [0x22]) = _
    rw [List.append_assoc, unquoteGo_quoteStep, ih, lossy, hk]
    simp [lossyHead]

/-- **BRIDGE (AppendUnquote on quote outputs)**: the Encoder model's `unquote` of a quoted string is this slice's
AppendUnquote of it — the text with one U+FFFD per ill-formed byte, i.e. the string itself when it is well-formed. -/
theorem unquote_appendQuote (o : Encoder.Opts) (s : Bytes) :
    Encoder.unquote (Encoder.appendQuote o s).1 = lossy s ∧
    Encoder.unquote (Encoder.appendQuote o s).1 = (appendUnquote (appendQuote (flagsOf o) s).1).1 := by
  have h1 : Encoder.unquote (Encoder.appendQuote o s).1 = lossy s := by
    rw [appendQuote_eq]
    simp only [Encoder.unquote, appendQuote, flagsOf, List.drop_succ_cons, List.drop_zero]
    exact unquoteGo_quoteLoop _ _ s
  refine ⟨h1, ?_⟩
  rw [h1]
  have := unqLoop_quoteLoop o.escHTML o.escJS s Err.ok
  simp only [appendQuote, appendUnquote, flagsOf, ↓reduceIte, this]

theorem unquote_appendQuote_wellFormed (o : Encoder.Opts) (name : Bytes) (h : WellFormed name) :
    Encoder.unquote (Encoder.appendQuote o name).1 = name := by
  rw [(unquote_appendQuote o name).1, lossy_of_wellFormed name h]

end JsonV.Lemmas.GlueEncQuote
