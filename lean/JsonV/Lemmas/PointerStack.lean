/-
Lemmas for C16, part 4: the pointer assembled by `appendStackPointer(-1)` from the stack of
(kind, count) entries and the names stack is the rendering of the list of member names / indices.
-/
import JsonV.Lemmas.PointerValid

namespace JsonV.Lemmas.Pointer
open JsonV JsonV.Model JsonV.Model.Pointer JsonV.Spec.Pointer

theorem decimal_plain (n : Nat) : ∀ b ∈ decimal n, b ≠ cTilde ∧ b ≠ cSlash := by
  intro b hb
  unfold decimal at hb
  simp only [List.mem_map] at hb
  obtain ⟨c, hc, rfl⟩ := hb
  have hd := Nat.isDigit_of_mem_toDigits (by decide) (by decide) hc
  simp only [Char.isDigit, Bool.and_eq_true, decide_eq_true_eq] at hd
  have h1 : 48 ≤ c.toNat := by have := hd.1; simpa [Char.le_def, UInt32.le_iff_toNat_le] using this
  have h2 : c.toNat ≤ 57 := by have := hd.2; simpa [Char.le_def, UInt32.le_iff_toNat_le] using this
  have key : (UInt8.ofNat c.toNat).toNat = c.toNat := ofNat_toNat_lt _ (by omega)
  constructor
  · intro h; have := congrArg UInt8.toNat h; rw [key] at this; simp [cTilde] at this; omega
  · intro h; have := congrArg UInt8.toNat h; rw [key] at this; simp [cSlash] at this; omega

theorem escapeTok_decimal (n : Nat) : escapeTok (decimal n) = decimal n :=
  escapeTok_id _ (fun b hb => (decimal_plain n b hb).1) (fun b hb => (decimal_plain n b hb).2)

/-- The reference tokens that `appendStackPointer(-1)` writes for entries that all have a current child. -/
def refsOf (names : List Bytes) : List SEntry → Nat → List Bytes
  | [], _ => []
  | e :: rest, od =>
    if e.isObj then sanitize (names.getD od []) :: refsOf names rest (od + 1)
    else decimal (e.len - 1) :: refsOf names rest od

def countObj : List SEntry → Nat
  | [] => 0
  | e :: rest => (if e.isObj then 1 else 0) + countObj rest

theorem stackLoop_render (names : List Bytes) (es : List SEntry) (od : Nat) (b : Bytes)
    (hlen : ∀ e ∈ es, e.len > 0) (hnames : od + countObj es ≤ names.length) :
    stackLoop (-1) names es od b = some (b ++ render (refsOf names es od)) := by
  induction es generalizing od b with
  | nil => simp [stackLoop, refsOf, render]
  | cons e rest ih =>
    have hpos : e.len > 0 := hlen e (by simp)
    have hne : e.len ≠ 0 := by omega
    have hrest : ∀ e ∈ rest, e.len > 0 := fun x hx => hlen x (by simp [hx])
    unfold stackLoop
    by_cases ho : e.isObj = true
    · simp only [countObj, ho, if_true] at hnames
      have hod : od < names.length := by omega
      simp [hne, ho, refsOf, List.getElem?_eq_getElem hod]
      rw [ih (od + 1) _ hrest (by omega), appendEscape_eq]
      simp [render, cSlash]
    · simp only [countObj, ho] at hnames
      simp [hne, ho, refsOf]
      rw [ih od _ hrest (by simpa using hnames)]
      simp [render, cSlash, escapeTok_decimal]

end JsonV.Lemmas.Pointer
