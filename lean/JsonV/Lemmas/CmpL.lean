/-
Lemmas about the model of `jsonwire.CompareUTF16`: the fuel of the loop never runs out, one loop
iteration on two encoded scalar values, and the refinement `compareUTF16 = lexCmp ∘ utf16` on
well-formed UTF-8.
-/
import JsonV.Model.Compare
import JsonV.Spec.Utf16Order
import JsonV.Lemmas.CmpUtf8
import JsonV.Lemmas.CmpLex

namespace JsonV.Lemmas.CmpL
open JsonV JsonV.Model.Utf8 JsonV.Model.Compare JsonV.Spec.Utf16Order JsonV.Lemmas.CmpUtf8 JsonV.Lemmas.CmpLex

theorem cmpNat_self (a : Nat) : cmpNat a a = 0 := by simp [cmpNat]

theorem cmpNat_swap (a b : Nat) : cmpNat b a = - cmpNat a b := by
  unfold cmpNat
  by_cases h1 : a < b
  · have : ¬ b < a := by omega
    simp [h1, this]
  · by_cases h2 : b < a
    · simp [h1, h2]
    · simp [h1, h2]

/-- Both runes in the BMP (or both supplementary): the runes compare like their UTF-16 encodings. -/
theorem lex_bmp (r s : Nat) (hr : r < 0x10000) (hs : s < 0x10000) :
    lexCmp (unitsOfRune r) (unitsOfRune s) = cmpNat r s := by
  unfold unitsOfRune cmpNat
  simp only [hr, hs, if_true, lexCmp]

theorem split_supp (r : Nat) (hr : 0x10000 ≤ r) :
    ∃ q m, m < 1024 ∧ r = 0x10000 + 1024 * q + m ∧ (r - 0x10000) / 1024 = q ∧ (r - 0x10000) % 1024 = m :=
  ⟨(r - 0x10000) / 1024, (r - 0x10000) % 1024, by omega, by omega, rfl, rfl⟩

theorem lex_supp (r s : Nat) (hr : 0x10000 ≤ r) (hs : 0x10000 ≤ s) :
    lexCmp (unitsOfRune r) (unitsOfRune s) = cmpNat r s := by
  have hr' : ¬ r < 0x10000 := by omega
  have hs' : ¬ s < 0x10000 := by omega
  have e1 : unitsOfRune r = [0xD800 + (r - 0x10000) / 1024, 0xDC00 + (r - 0x10000) % 1024] := by
    unfold unitsOfRune; exact if_neg hr'
  have e2 : unitsOfRune s = [0xD800 + (s - 0x10000) / 1024, 0xDC00 + (s - 0x10000) % 1024] := by
    unfold unitsOfRune; exact if_neg hs'
  rw [e1, e2]
  clear e1 e2
  obtain ⟨q, m, bm, er, f1, f2⟩ := split_supp r hr
  obtain ⟨q', m', bm', es, f3, f4⟩ := split_supp s hs
  simp only [f1, f2, f3, f4]
  clear f1 f2 f3 f4 hr hs hr' hs'
  subst er es
  unfold cmpNat
  simp only [lexCmp]
  by_cases c : q < q'
  · have c1 : 0xD800 + q < 0xD800 + q' := by omega
    have c2 : 0x10000 + 1024 * q + m < 0x10000 + 1024 * q' + m' := by omega
    simp only [c1, c2, if_true]
  · by_cases c' : q' < q
    · have c1 : ¬ (0xD800 + q < 0xD800 + q') := by omega
      have c2 : 0xD800 + q' < 0xD800 + q := by omega
      have c3 : ¬ (0x10000 + 1024 * q + m < 0x10000 + 1024 * q' + m') := by omega
      have c4 : 0x10000 + 1024 * q + m > 0x10000 + 1024 * q' + m' := by omega
      simp only [c1, c2, c3, c4, if_true, if_false]
    · have e : q = q' := by omega
      subst e
      have c1 : ¬ (0xD800 + q < 0xD800 + q) := by omega
      simp only [c1, if_false]
      by_cases d : m < m'
      · have d1 : 0xDC00 + m < 0xDC00 + m' := by omega
        have d2 : 0x10000 + 1024 * q + m < 0x10000 + 1024 * q + m' := by omega
        simp only [d1, d2, if_true]
      · by_cases d' : m' < m
        · have d1 : ¬ (0xDC00 + m < 0xDC00 + m') := by omega
          have d2 : 0xDC00 + m' < 0xDC00 + m := by omega
          have d3 : ¬ (0x10000 + 1024 * q + m < 0x10000 + 1024 * q + m') := by omega
          have d4 : 0x10000 + 1024 * q + m > 0x10000 + 1024 * q + m' := by omega
          simp only [d1, d2, d3, d4, if_true, if_false]
        · have e : m = m' := by omega
          subst e
          simp

/-- A BMP scalar value against a supplementary one: decided by the high surrogate. -/
theorem lex_bmp_supp (r s : Nat) (hr : IsScalar r) (hr' : r < 0x10000) (hs : 0x10000 ≤ s) (hs' : s ≤ 0x10FFFF) :
    lexCmp (unitsOfRune r) (unitsOfRune s) = cmpNat r (0xD800 + (s - 0x10000) / 1024) := by
  unfold IsScalar at hr
  unfold unitsOfRune cmpNat
  have hs'' : ¬ s < 0x10000 := by omega
  simp only [hr', hs'', if_true, if_false, lexCmp]
  by_cases a : r < 55296 + (s - 65536) / 1024
  · simp [a]
  · have b : 55296 + (s - 65536) / 1024 < r := by omega
    have b' : r > 55296 + (s - 65536) / 1024 := b
    simp [a, b]

theorem lex_supp_bmp (r s : Nat) (hs : IsScalar s) (hs' : s < 0x10000) (hr : 0x10000 ≤ r) (hr' : r ≤ 0x10FFFF) :
    lexCmp (unitsOfRune r) (unitsOfRune s) = cmpNat (0xD800 + (r - 0x10000) / 1024) s := by
  rw [lexCmp_swap, lex_bmp_supp s r hs hs' hr hr', cmpNat_swap]
  omega

/-- `rune_order`: the integers compared at wire.go:111-113 order two scalar values exactly like their
UTF-16 encodings, and are equal only for equal scalar values. -/
theorem surrogateKey_eq (r s : Nat) (hr : IsScalar r) (hs : IsScalar s) : surrogateKey r s =
    if r < 0x10000 ∧ ¬ s < 0x10000 then (r, 0xD800 + (s - 0x10000) / 1024)
    else if s < 0x10000 ∧ ¬ r < 0x10000 then (0xD800 + (r - 0x10000) / 1024, s)
    else (r, s) := by
  unfold IsScalar at hr hs
  have sx : isUTF16Self r = decide (r < 0x10000) := by
    unfold isUTF16Self; by_cases a : r < 0x10000 <;> simp [a] <;> omega
  have sy : isUTF16Self s = decide (s < 0x10000) := by
    unfold isUTF16Self; by_cases a : s < 0x10000 <;> simp [a] <;> omega
  unfold surrogateKey utf16EncodeRune maxRune
  rw [sx, sy]
  by_cases a : r < 0x10000 <;> by_cases b : s < 0x10000
  · simp [a, b]
  · have n1 : ¬ (s > 1114111) := by omega
    simp [a, b, n1]
  · have n1 : ¬ (r > 1114111) := by omega
    simp [a, b, n1]
  · simp [a, b]

theorem rune_order (r s : Nat) (hr : IsScalar r) (hs : IsScalar s) :
    cmpNat (surrogateKey r s).1 (surrogateKey r s).2 = lexCmp (unitsOfRune r) (unitsOfRune s) ∧
    ((surrogateKey r s).1 = (surrogateKey r s).2 ↔ r = s) := by
  rw [surrogateKey_eq r s hr hs]
  have hr0 := hr
  have hs0 := hs
  unfold IsScalar at hr hs
  by_cases a : r < 0x10000 <;> by_cases b : s < 0x10000
  · rw [if_neg (by omega), if_neg (by omega)]
    exact ⟨(lex_bmp r s a b).symm, Iff.rfl⟩
  · rw [if_pos (by omega)]
    refine ⟨(lex_bmp_supp r s hr0 a (by omega) (by omega)).symm, ?_⟩
    constructor
    · intro h; dsimp only at h; omega
    · intro h; omega
  · rw [if_neg (by omega), if_pos (by omega)]
    refine ⟨(lex_supp_bmp r s hs0 b (by omega) (by omega)).symm, ?_⟩
    constructor
    · intro h; dsimp only at h; omega
    · intro h; omega
  · rw [if_neg (by omega), if_neg (by omega)]
    exact ⟨(lex_supp r s (by omega) (by omega)).symm, Iff.rfl⟩

/-- One iteration of the loop on `encodeRune r ++ X` and `encodeRune s ++ Y` for scalar values `r`, `s`:
equal runes are skipped, different runes are ordered like their UTF-16 encodings. -/
theorem go_step (f : Nat) (r s : Nat) (hr : IsScalar r) (hs : IsScalar s) (X Y : Bytes) :
    go (f + 1) (encodeRune r ++ X) (encodeRune s ++ Y) =
      if r = s then go f X Y else lexCmp (unitsOfRune r) (unitsOfRune s) := by
  have dx := decodeRune_encodeRune_append r hr X
  have dy := decodeRune_encodeRune_append s hs Y
  have ix := not_invalid_of_scalar r hr
  have iy := not_invalid_of_scalar s hs
  obtain ⟨b0, t, ex, fx⟩ := encodeRune_cons r hr
  obtain ⟨c0, u, ey, fy⟩ := encodeRune_cons s hs
  rw [ex] at dx ix
  rw [ey] at dy iy
  rw [ex, ey]
  simp only [List.cons_append] at dx dy ⊢
  rw [go]
  simp only []
  have hsc := hs
  have hrc := hr
  unfold IsScalar at hsc hrc
  by_cases h1 : r < 0x80
  · -- x starts with an ASCII byte
    rw [if_pos h1] at fx
    obtain ⟨t0, bx⟩ := fx
    subst t0
    rw [if_pos (Or.inl (by unfold runeSelf; omega))]
    by_cases h2 : s < 0x80
    · rw [if_pos h2] at fy
      obtain ⟨u0, cy⟩ := fy
      subst u0
      by_cases e : r = s
      · have : b0 = c0 := UInt8.toNat_inj.mp (by rw [bx, cy, e])
        simp only [this, ne_eq, not_true_eq_false, if_false, e, if_true, List.nil_append]
      · have : b0 ≠ c0 := by intro h; apply e; rw [← bx, ← cy, h]
        simp only [this, ne_eq, not_false_eq_true, if_true, e, if_false, bx, cy]
        exact (lex_bmp r s (by omega) (by omega)).symm
    · rw [if_neg h2] at fy
      have e : r ≠ s := by omega
      have hne : b0 ≠ c0 := by intro h; rw [h] at bx; omega
      simp only [hne, if_true, e, if_false, ne_eq, not_false_eq_true]
      have c1 : cmpNat b0.toNat c0.toNat = -1 := by unfold cmpNat; rw [if_pos (by omega)]
      rw [c1]
      by_cases h3 : s < 0x10000
      · rw [lex_bmp r s (by omega) h3]; unfold cmpNat; rw [if_pos (by omega)]
      · rw [lex_bmp_supp r s hr (by omega) (by omega) (by omega)]; unfold cmpNat; rw [if_pos (by omega)]
  · rw [if_neg h1] at fx
    by_cases h2 : s < 0x80
    · -- y starts with an ASCII byte, x does not
      rw [if_pos h2] at fy
      obtain ⟨u0, cy⟩ := fy
      subst u0
      rw [if_pos (Or.inr (by unfold runeSelf; omega))]
      have e : r ≠ s := by omega
      have hne : b0 ≠ c0 := by intro h; rw [← h] at cy; omega
      simp only [hne, if_true, e, if_false, ne_eq, not_false_eq_true]
      have c1 : cmpNat b0.toNat c0.toNat = 1 := by
        unfold cmpNat; rw [if_neg (by omega), if_pos (by omega)]
      rw [c1]
      by_cases h3 : r < 0x10000
      · rw [lex_bmp r s h3 (by omega)]; unfold cmpNat; rw [if_neg (by omega), if_pos (by omega)]
      · rw [lex_supp_bmp r s hs (by omega) (by omega) (by omega)]; unfold cmpNat
        rw [if_neg (by omega), if_pos (by omega)]
    · -- both start with a non-ASCII byte: decode
      rw [if_neg h2] at fy
      rw [if_neg (by unfold runeSelf; omega)]
      rw [dx, dy]
      simp only []
      have nix : isInvalidUTF8 r (b0 :: t).length = false := by
        unfold isInvalidUTF8
        apply Bool.eq_false_iff.mpr
        intro h
        simp only [Bool.and_eq_true, beq_iff_eq] at h
        exact ix h
      have niy : isInvalidUTF8 s (c0 :: u).length = false := by
        unfold isInvalidUTF8
        apply Bool.eq_false_iff.mpr
        intro h
        simp only [Bool.and_eq_true, beq_iff_eq] at h
        exact iy h
      simp only [nix, niy, Bool.or_false, Bool.false_and, Bool.false_eq_true, if_false]
      have drx : List.drop (b0 :: t).length (b0 :: (t ++ X)) = X := by simp
      have dry : List.drop (c0 :: u).length (c0 :: (u ++ Y)) = Y := by simp
      rw [drx, dry]
      obtain ⟨k1, k2⟩ := rune_order r s hr hs
      rw [k1]
      by_cases e : r = s
      · subst e
        have : (surrogateKey r r).1 = (surrogateKey r r).2 := k2.mpr rfl
        simp only [this, ne_eq, not_true_eq_false, if_false, if_true]
      · have : (surrogateKey r s).1 ≠ (surrogateKey r s).2 := fun h => e (k2.mp h)
        simp only [this, ne_eq, not_false_eq_true, if_true, e, if_false]

/-! ### The loop on arbitrary bytes: empty operands, fuel, reflexivity, symmetry -/

theorem go_nil_left (f : Nat) (y : Bytes) : go f [] y = cmpNat 0 y.length := by
  cases f <;> simp [go]

theorem go_nil_right (f : Nat) (x : Bytes) : go f x [] = cmpNat x.length 0 := by
  cases f with
  | zero => simp [go]
  | succ f => cases x <;> simp [go]

/-- The fuel never runs out: every fuel ≥ min(len x, len y) gives the same result. -/
theorem go_fuel (f f' : Nat) (x y : Bytes) (h : x.length ≤ f ∨ y.length ≤ f) (h' : x.length ≤ f' ∨ y.length ≤ f') :
    go f x y = go f' x y := by
  induction f generalizing f' x y with
  | zero =>
    have : x = [] ∨ y = [] := by
      rcases h with h | h
      · left; exact List.eq_nil_of_length_eq_zero (by omega)
      · right; exact List.eq_nil_of_length_eq_zero (by omega)
    rcases this with e | e <;> subst e
    · rw [go_nil_left, go_nil_left]
    · rw [go_nil_right, go_nil_right]
  | succ f ih =>
    cases x with
    | nil => rw [go_nil_left, go_nil_left]
    | cons x0 xs =>
      cases y with
      | nil => rw [go_nil_right, go_nil_right]
      | cons y0 ys =>
        cases f' with
        | zero => simp at h'
        | succ g =>
          have px := decodeRune_size_pos (x0 :: xs) (by simp)
          have py := decodeRune_size_pos (y0 :: ys) (by simp)
          simp only [List.length_cons] at h h'
          rw [go, go]
          simp only []
          have e1 : go f xs ys = go g xs ys := ih g xs ys (by omega) (by omega)
          have e2 : go f (List.drop (decodeRune (x0 :: xs)).2 (x0 :: xs)) (List.drop (decodeRune (y0 :: ys)).2 (y0 :: ys)) =
              go g (List.drop (decodeRune (x0 :: xs)).2 (x0 :: xs)) (List.drop (decodeRune (y0 :: ys)).2 (y0 :: ys)) := by
            apply ih
            · simp only [List.length_drop, List.length_cons]; omega
            · simp only [List.length_drop, List.length_cons]; omega
          rw [e1, e2]

theorem surrogateKey_self (r : Nat) : surrogateKey r r = (r, r) := by
  unfold surrogateKey
  cases isUTF16Self r <;> simp

theorem surrogateKey_swap (r s : Nat) : surrogateKey s r = ((surrogateKey r s).2, (surrogateKey r s).1) := by
  unfold surrogateKey
  cases isUTF16Self r <;> cases isUTF16Self s <;> simp

theorem go_self (f : Nat) (x : Bytes) : go f x x = 0 := by
  induction f generalizing x with
  | zero => simp [go, cmpNat]
  | succ f ih =>
    cases x with
    | nil => simp [go, cmpNat]
    | cons x0 xs =>
      rw [go]
      simp only []
      rw [surrogateKey_self]
      simp only [ne_eq, not_true_eq_false, if_false, decide_false, Bool.and_false, Bool.false_eq_true]
      split
      · exact ih _
      · exact ih _

theorem go_swap (f : Nat) (x y : Bytes) : go f y x = - go f x y := by
  induction f generalizing x y with
  | zero => simp only [go]; exact cmpNat_swap _ _
  | succ f ih =>
    cases x with
    | nil => rw [go_nil_left, go_nil_right]; exact cmpNat_swap _ _
    | cons x0 xs =>
      cases y with
      | nil => rw [go_nil_left, go_nil_right]; exact cmpNat_swap _ _
      | cons y0 ys =>
        rw [go, go]
        simp only []
        rw [surrogateKey_swap (decodeRune (x0 :: xs)).1 (decodeRune (y0 :: ys)).1]
        simp only []
        by_cases a : x0.toNat < runeSelf ∨ y0.toNat < runeSelf
        · have a' : y0.toNat < runeSelf ∨ x0.toNat < runeSelf := a.symm
          rw [if_pos a, if_pos a']
          by_cases e : x0 = y0
          · subst e; simp only [ne_eq, not_true_eq_false, if_false]; exact ih xs ys
          · have e' : y0 ≠ x0 := fun h => e h.symm
            simp only [ne_eq, e, e', not_false_eq_true, if_true]; exact cmpNat_swap _ _
        · have a' : ¬ (y0.toNat < runeSelf ∨ x0.toNat < runeSelf) := fun h => a h.symm
          rw [if_neg a, if_neg a']
          by_cases k : (surrogateKey (decodeRune (x0 :: xs)).1 (decodeRune (y0 :: ys)).1).1 =
              (surrogateKey (decodeRune (x0 :: xs)).1 (decodeRune (y0 :: ys)).1).2
          · have nk : ¬ ((surrogateKey (decodeRune (x0 :: xs)).1 (decodeRune (y0 :: ys)).1).1 ≠
              (surrogateKey (decodeRune (x0 :: xs)).1 (decodeRune (y0 :: ys)).1).2) := fun h => h k
            have nk' : ¬ ((surrogateKey (decodeRune (x0 :: xs)).1 (decodeRune (y0 :: ys)).1).2 ≠
              (surrogateKey (decodeRune (x0 :: xs)).1 (decodeRune (y0 :: ys)).1).1) := fun h => h k.symm
            rw [if_neg nk, if_neg nk']
            rw [Bool.or_comm]
            by_cases e : x0 = y0
            · subst e
              simp only [ne_eq, not_true_eq_false, decide_false, Bool.and_false, Bool.false_eq_true, if_false]
              exact ih _ _
            · have e' : ¬ (y0 = x0) := fun h => e h.symm
              simp only [ne_eq, e, e', not_false_eq_true, decide_true, Bool.and_true]
              split
              · exact cmpNat_swap _ _
              · exact ih _ _
          · have k' : ¬ ((surrogateKey (decodeRune (x0 :: xs)).1 (decodeRune (y0 :: ys)).1).2 =
              (surrogateKey (decodeRune (x0 :: xs)).1 (decodeRune (y0 :: ys)).1).1) := fun h => k h.symm
            rw [if_pos k, if_pos k']
            exact cmpNat_swap _ _

/-! ### Refinement on encoded scalar values -/

theorem units_cons (r : Nat) (rs : List Nat) : units (r :: rs) = unitsOfRune r ++ units rs := by
  simp [units]

theorem lexCmp_nil_left_ne (l : List Nat) (h : l ≠ []) : lexCmp [] l = -1 := by
  cases l with
  | nil => exact absurd rfl h
  | cons a as => rfl

theorem lexCmp_nil_right_ne (l : List Nat) (h : l ≠ []) : lexCmp l [] = 1 := by
  cases l with
  | nil => exact absurd rfl h
  | cons a as => rfl

/-- On UTF-8 encodings of scalar values the loop computes the UTF-16 lexicographic order. -/
theorem go_encode (rs ss : List Nat) (hr : ∀ r ∈ rs, IsScalar r) (hs : ∀ s ∈ ss, IsScalar s)
    (f : Nat) (hf : (encode rs).length ≤ f) :
    go f (encode rs) (encode ss) = lexCmp (units rs) (units ss) := by
  induction rs generalizing ss f with
  | nil =>
    have : encode [] = [] := rfl
    rw [this, go_nil_left]
    cases ss with
    | nil => rfl
    | cons s ss' =>
      have hs0 := hs s (by simp)
      have l := encodeRune_length_pos s hs0
      rw [encode_cons, units_cons, List.length_append]
      have : units [] = [] := rfl
      rw [this, lexCmp_nil_left_ne _ (by simp [unitsOfRune_ne_nil])]
      unfold cmpNat
      rw [if_pos (by omega)]
  | cons r rs' ih =>
    have hr0 := hr r (by simp)
    have lr := encodeRune_length_pos r hr0
    cases ss with
    | nil =>
      have : encode [] = [] := rfl
      rw [this, go_nil_right]
      have : units [] = [] := rfl
      rw [this, units_cons, lexCmp_nil_right_ne _ (by simp [unitsOfRune_ne_nil])]
      rw [encode_cons, List.length_append]
      unfold cmpNat
      rw [if_neg (by omega), if_pos (by omega)]
    | cons s ss' =>
      have hs0 := hs s (by simp)
      rw [encode_cons, List.length_append] at hf
      cases f with
      | zero => omega
      | succ f =>
        rw [encode_cons, encode_cons, units_cons, units_cons, go_step f r s hr0 hs0,
          lexCmp_units_append r s hr0 hs0]
        by_cases e : r = s
        · simp only [e, if_true]
          exact ih ss' (fun x hx => hr x (by simp [hx])) (fun x hx => hs x (by simp [hx])) f (by omega)
        · simp only [e, if_false]

theorem cmpNat_range (a b : Nat) : cmpNat a b = -1 ∨ cmpNat a b = 0 ∨ cmpNat a b = 1 := by
  unfold cmpNat
  split
  · simp
  · split <;> simp

theorem go_range (f : Nat) (x y : Bytes) : go f x y = -1 ∨ go f x y = 0 ∨ go f x y = 1 := by
  induction f generalizing x y with
  | zero => simp only [go]; exact cmpNat_range _ _
  | succ f ih =>
    cases x with
    | nil => rw [go_nil_left]; exact cmpNat_range _ _
    | cons x0 xs =>
      cases y with
      | nil => rw [go_nil_right]; exact cmpNat_range _ _
      | cons y0 ys =>
        rw [go]
        simp only []
        split
        · split
          · exact cmpNat_range _ _
          · exact ih _ _
        · split
          · exact cmpNat_range _ _
          · split
            · exact cmpNat_range _ _
            · exact ih _ _

/-- `CompareUTF16(y, x) = -CompareUTF16(x, y)` on arbitrary bytes. -/
theorem go_swap_cmp (x y : Bytes) : compareUTF16 y x = - compareUTF16 x y := by
  unfold compareUTF16
  rw [go_fuel y.length x.length y x (Or.inl (Nat.le_refl _)) (Or.inr (Nat.le_refl _))]
  exact go_swap _ _ _

end JsonV.Lemmas.CmpL
