/-
C10 lemmas: the ECMA layout denotes exactly ±0.d₁…d_k × 10^n (nothing is lost by the layout).
-/
import JsonV.Lemmas.NumGrammar
import JsonV.Lemmas.NumParse

namespace JsonV.Lemmas.NumDenote
open JsonV JsonV.Spec.Ecma JsonV.Lemmas.NumFloat JsonV.Lemmas.NumGrammar
open JsonV.Lemmas.NumParse (bytesVal_cons bytesVal_append bytesVal_nil)

theorem takeWhile_digits (l rest : Bytes) (h : ∀ c ∈ l, isDigit c = true) :
    (l ++ rest).takeWhile isDigit = l ++ rest.takeWhile isDigit := by
  induction l with
  | nil => rfl
  | cons c t ih =>
    rw [List.cons_append, List.takeWhile_cons_of_pos (h c (by simp)), ih (fun x hx => h x (by simp [hx]))]
    rfl

theorem takeWhile_all (l : Bytes) (h : ∀ c ∈ l, isDigit c = true) : l.takeWhile isDigit = l := by
  have := takeWhile_digits l [] h
  simpa using this

theorem bytesVal_map_dig (ds : List Nat) (h : ∀ d ∈ ds, d < 10) : bytesVal (ds.map dig) = digitsVal ds := by
  have : ∀ (l : List Nat) (a : Nat), (∀ d ∈ l, d < 10) →
      (l.map dig).foldl (fun a c => 10 * a + (c.toNat - 48)) a = l.foldl (fun a d => 10 * a + d) a := by
    intro l
    induction l with
    | nil => intros; rfl
    | cons d t ih =>
      intro a hl
      simp only [List.map_cons, List.foldl_cons]
      rw [dig_toNat d (hl d (by simp)), ih _ (fun x hx => hl x (by simp [hx]))]
      congr 1
      omega
  exact this ds 0 h

theorem bytesVal_zeros (z : Nat) : bytesVal (zeros z) = 0 := by
  induction z with
  | zero => rfl
  | succ z ih =>
    rw [zeros, List.replicate_succ, bytesVal_cons]
    simp only [zeros] at ih
    rw [ih]; simp

theorem zeros_length (z : Nat) : (zeros z).length = z := by simp [zeros]

theorem digitsVal_decimal (e : Nat) : digitsVal (decimal e) = e := by
  induction e using Nat.strongRecOn with
  | _ e ih =>
    rw [decimal]
    split
    · simp [digitsVal]
    · have := ih (e / 10) (by omega)
      simp only [digitsVal, List.foldl_append, List.foldl_cons, List.foldl_nil] at this ⊢
      rw [this]; omega

theorem bytesVal_decimal (e : Nat) : bytesVal ((decimal e).map dig) = e := by
  rw [bytesVal_map_dig _ (decimal_lt e), digitsVal_decimal]

/-- The exponent part `e±decimal(|x|)` has value `x`. -/
theorem expValue_exp (x : Int) :
    expValue ([101] ++ (if x < 0 then [45] else [43]) ++ (decimal x.natAbs).map dig) = x := by
  have ht := takeWhile_all _ (map_dig_digits (decimal x.natAbs) (decimal_lt x.natAbs))
  by_cases h : x < 0
  · simp only [h, if_true, List.cons_append, List.nil_append, expValue, beq_self_eq_true, ht, bytesVal_decimal]
    omega
  · simp only [h, if_false, List.cons_append, List.nil_append, expValue, ht, bytesVal_decimal]
    rw [if_neg (by decide), if_pos (by decide)]
    omega

theorem Dec.same_refl (a : Dec) : a.same a := by
  simp [Dec.same]

/-- Coefficient and exponent read off the layout. -/
theorem unsignedValue_layout (ds : List Nat) (n : Int) (h : WFD ds n) (hne : ds ≠ []) :
    unsignedValue (layout ds n) =
      if (ds.length : Int) ≤ n ∧ n ≤ 21 then (digitsVal ds * 10 ^ (n - ds.length).toNat, 0)
      else (digitsVal ds, n - ds.length) := by
  obtain ⟨hlt, hhead, hz, hlo, hhi⟩ := h
  have hall := map_dig_digits ds hlt
  by_cases hp : -6 < n ∧ n ≤ 21
  · by_cases hA : (ds.length : Int) ≤ n
    · rw [if_pos ⟨hA, hp.2⟩]
      have := ecma_int false ds n hne hA hp.2
      simp only [numberToString, sgn, Bool.false_eq_true, if_false, List.nil_append] at this
      rw [this]
      have hall2 : ∀ c ∈ ds.map dig ++ zeros (n - ds.length).toNat, isDigit c = true := by
        intro c hc
        rw [List.mem_append] at hc
        rcases hc with hc | hc
        · exact hall c hc
        · exact zeros_digits _ c hc
      simp only [unsignedValue, takeWhile_all _ hall2, dropWhile_all _ hall2, fracSplit, List.append_nil,
        expValue, List.length_nil]
      rw [bytesVal_append, bytesVal_zeros, zeros_length, bytesVal_map_dig ds hlt]
      simp
    · rw [if_neg (fun hh => hA hh.1)]
      by_cases hB : 0 < n
      · have := ecma_point false ds n hne hA hB hp.2
        simp only [numberToString, sgn, Bool.false_eq_true, if_false, List.nil_append] at this
        rw [this]
        have h1 : ∀ c ∈ (ds.take n.toNat).map dig, isDigit c = true :=
          map_dig_digits _ (fun x hx => hlt x (List.mem_of_mem_take hx))
        have h2 : ∀ c ∈ (ds.drop n.toNat).map dig, isDigit c = true :=
          map_dig_digits _ (fun x hx => hlt x (List.mem_of_mem_drop hx))
        simp only [unsignedValue, List.append_assoc, takeWhile_digits _ _ h1, dropWhile_digits _ _ h1,
          List.singleton_append, List.takeWhile_cons_of_neg (by simp [not_digit_46] : ¬ isDigit 46 = true),
          List.dropWhile_cons_of_neg (by simp [not_digit_46] : ¬ isDigit 46 = true), fracSplit, beq_self_eq_true, if_true,
          takeWhile_all _ h2, dropWhile_all _ h2, List.append_nil, expValue]
        rw [← List.map_append, List.take_append_drop, bytesVal_map_dig ds hlt]
        simp only [List.length_map, List.length_drop]
        congr 1
        omega
      · have := ecma_small false ds n hne hp.1 (by omega)
        simp only [numberToString, sgn, Bool.false_eq_true, if_false, List.nil_append] at this
        rw [this]
        have h2 : ∀ c ∈ zeros (-n).toNat ++ ds.map dig, isDigit c = true := by
          intro c hc
          rw [List.mem_append] at hc
          rcases hc with hc | hc
          · exact zeros_digits _ c hc
          · exact hall c hc
        have h48 : isDigit 48 = true := by decide
        simp only [unsignedValue, List.cons_append, List.nil_append, List.takeWhile_cons_of_pos h48,
          List.dropWhile_cons_of_pos h48,
          List.takeWhile_cons_of_neg (by simp [not_digit_46] : ¬ isDigit 46 = true),
          List.dropWhile_cons_of_neg (by simp [not_digit_46] : ¬ isDigit 46 = true), fracSplit, beq_self_eq_true, if_true,
          takeWhile_all _ h2, dropWhile_all _ h2, expValue]
        rw [bytesVal_cons, bytesVal_append, bytesVal_zeros, bytesVal_map_dig ds hlt]
        simp only [List.length_append, zeros_length, List.length_map]
        congr 1
        · simp
        · omega
  · rw [if_neg (fun hh => hp ⟨by have := List.length_pos_iff.2 hne; omega, hh.2⟩)]
    have hx : n ≤ -6 ∨ 21 < n := by omega
    obtain ⟨d, r, rfl⟩ : ∃ d r, ds = d :: r := by
      cases ds with
      | nil => exact absurd rfl hne
      | cons d r => exact ⟨d, r, rfl⟩
    have hd : isDigit (dig d) = true := hall (dig d) (by simp)
    by_cases hr0 : r = []
    · subst hr0
      have := ecma_exp1 false d n hx
      simp only [numberToString, sgn, Bool.false_eq_true, if_false, List.nil_append] at this
      rw [this]
      have he := expValue_exp (n - 1)
      simp only [List.cons_append, List.nil_append] at he ⊢
      simp only [unsignedValue, List.takeWhile_cons_of_pos hd, List.dropWhile_cons_of_pos hd,
        List.takeWhile_cons_of_neg (by simp [not_digit_101] : ¬ isDigit 101 = true),
        List.dropWhile_cons_of_neg (by simp [not_digit_101] : ¬ isDigit 101 = true), fracSplit,
        show ((101 : UInt8) == 46) = false by decide, Bool.false_eq_true, if_false, List.append_nil, he, List.length_nil]
      rw [show [dig d] = [d].map dig from rfl, bytesVal_map_dig [d] hlt]
      simp
    · have := ecma_expk false d r hr0 n hx
      simp only [numberToString, sgn, Bool.false_eq_true, if_false, List.nil_append] at this
      rw [this]
      have hr : ∀ c ∈ r.map dig, isDigit c = true := map_dig_digits r (fun x hx => hlt x (by simp [hx]))
      have he := expValue_exp (n - 1)
      simp only [List.cons_append, List.nil_append] at he ⊢
      simp only [unsignedValue, List.takeWhile_cons_of_pos hd, List.dropWhile_cons_of_pos hd,
        List.takeWhile_cons_of_neg (by simp [not_digit_46] : ¬ isDigit 46 = true),
        List.dropWhile_cons_of_neg (by simp [not_digit_46] : ¬ isDigit 46 = true), fracSplit, beq_self_eq_true, if_true,
        takeWhile_digits _ _ hr, dropWhile_digits _ _ hr,
        List.takeWhile_cons_of_neg (by simp [not_digit_101] : ¬ isDigit 101 = true),
        List.dropWhile_cons_of_neg (by simp [not_digit_101] : ¬ isDigit 101 = true), List.append_nil, he]
      rw [show [dig d] ++ r.map dig = (d :: r).map dig from rfl, bytesVal_map_dig (d :: r) hlt]
      simp only [List.length_map, List.length_cons]
      congr 1
      omega

/-- The text of a non-zero value denotes exactly `(−1)^neg × d₁…d_k × 10^(n−k)`. -/
theorem numberToString_denotes (neg : Bool) (ds : List Nat) (n : Int) (h : WFD ds n) (hne : ds ≠ []) :
    (decimalValue (numberToString neg ds n)).same ⟨neg, digitsVal ds, n - ds.length⟩ := by
  have hu := unsignedValue_layout ds n h hne
  have h45 := (layout_unsigned ds n h).2
  have hval : decimalValue (numberToString neg ds n) = ⟨neg, (unsignedValue (layout ds n)).1, (unsignedValue (layout ds n)).2⟩ := by
    cases neg with
    | true => simp [decimalValue, numberToString]
    | false =>
      have : ((layout ds n).head? == some 45) = false := by simpa using h45
      simp only [decimalValue, numberToString, Bool.false_eq_true, if_false, List.nil_append, this]
  rw [hval, hu]
  by_cases hc : (ds.length : Int) ≤ n ∧ n ≤ 21
  · rw [if_pos hc]
    simp only [Dec.same, and_true]
    have hm : min (0 : Int) (n - ds.length) = 0 := by omega
    rw [hm]
    simp
  · rw [if_neg hc]
    exact Dec.same_refl _

theorem zero_denotes (neg : Bool) : decimalValue (numberToString neg [] 0) = ⟨neg, 0, 0⟩ := by
  cases neg <;> decide

end JsonV.Lemmas.NumDenote
