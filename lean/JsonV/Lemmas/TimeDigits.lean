/-
Decimal digits: `natDigits` (strconv.AppendUint), zero-padded digits, their value, and the
`jsonwire.ParseUint` round trip.  Core Lean only.
-/
import JsonV.Model.Time

namespace JsonV.Model.Time
open JsonV

/-! ### single digits -/

theorem digitChar_toNat {d : Nat} (h : d < 10) : (digitChar d).toNat = 48 + d := by
  simp [digitChar, UInt8.toNat_ofNat']; omega

theorem isDigit_iff (c : UInt8) : isDigit c = true ↔ 48 ≤ c.toNat ∧ c.toNat ≤ 57 := by
  simp [isDigit, c0, c9, UInt8.le_iff_toNat_le]

theorem isDigit_digitChar {d : Nat} (h : d < 10) : isDigit (digitChar d) = true := by
  rw [isDigit_iff, digitChar_toNat h]; omega

theorem digitVal_digitChar {d : Nat} (h : d < 10) : digitVal (digitChar d) = d := by
  simp [digitVal, digitChar_toNat h]

theorem ne_of_toNat_ne {a b : UInt8} (h : a.toNat ≠ b.toNat) : a ≠ b := fun e => h (by rw [e])

theorem not_isDigit_of {c : UInt8} (h : c.toNat < 48 ∨ 57 < c.toNat) : isDigit c = false := by
  cases hc : isDigit c with
  | false => rfl
  | true => rw [isDigit_iff] at hc; omega

/-- a digit differs from any non-digit byte. -/
theorem digit_ne {c x : UInt8} (hc : isDigit c = true) (hx : x.toNat < 48 ∨ 57 < x.toNat) : c ≠ x := by
  rw [isDigit_iff] at hc
  exact ne_of_toNat_ne (by omega)

theorem digitVal_lt {c : UInt8} (hc : isDigit c = true) : digitVal c < 10 := by
  rw [isDigit_iff] at hc; simp [digitVal]; omega

/-! ### values of digit strings -/

/-- value of a digit string read from accumulator `a` (exact, no wrap). -/
def decFrom (a : Nat) (b : Bytes) : Nat := b.foldl (fun a c => 10 * a + digitVal c) a
def decValue (b : Bytes) : Nat := decFrom 0 b

theorem decFrom_nil (a : Nat) : decFrom a [] = a := rfl
theorem decFrom_cons (a : Nat) (c : UInt8) (cs : Bytes) : decFrom a (c :: cs) = decFrom (10 * a + digitVal c) cs := by
  simp only [decFrom, List.foldl_cons]

theorem decFrom_eq (a : Nat) (b : Bytes) : decFrom a b = a * 10 ^ b.length + decValue b := by
  induction b generalizing a with
  | nil => simp [decFrom, decValue]
  | cons c cs ih =>
    have h1 : decFrom a (c :: cs) = (10 * a + digitVal c) * 10 ^ cs.length + decValue cs := by
      rw [decFrom_cons, ih]
    have h2 : decValue (c :: cs) = (10 * 0 + digitVal c) * 10 ^ cs.length + decValue cs := by
      unfold decValue; rw [decFrom_cons, ih]; rfl
    rw [h1, h2, List.length_cons, Nat.pow_succ, Nat.add_mul, Nat.add_mul]
    simp only [Nat.mul_zero, Nat.zero_mul, Nat.zero_add]
    rw [Nat.add_assoc]
    congr 1
    rw [Nat.mul_comm 10 a, Nat.mul_assoc, Nat.mul_comm 10]

theorem decFrom_append (a : Nat) (x y : Bytes) : decFrom a (x ++ y) = decFrom (decFrom a x) y := by
  simp [decFrom, List.foldl_append]

theorem decValue_append (x y : Bytes) : decValue (x ++ y) = decValue x * 10 ^ y.length + decValue y := by
  rw [decValue, decFrom_append, decFrom_eq]; rfl

theorem decValue_singleton (c : UInt8) : decValue [c] = digitVal c := by simp [decValue, decFrom]

theorem decValue_replicate_zero (z : Nat) : decValue (List.replicate z c0) = 0 := by
  induction z with
  | zero => rfl
  | succ z ih =>
    rw [List.replicate_succ, decValue, decFrom_cons]
    have : digitVal c0 = 0 := by decide
    rw [this]; exact ih

/-! ### padded digits -/

/-- the `k` low decimal digits of `n`, most significant first. -/
def padDigits : Nat → Nat → Bytes
  | 0, _ => []
  | k + 1, n => digitChar (n / 10 ^ k % 10) :: padDigits k n

theorem padDigits_length (k n : Nat) : (padDigits k n).length = k := by
  induction k with
  | zero => rfl
  | succ k ih => simp [padDigits, ih]

theorem padDigits_snoc (k n : Nat) : padDigits (k + 1) n = padDigits k (n / 10) ++ [digitChar (n % 10)] := by
  induction k with
  | zero => simp [padDigits]
  | succ k ih =>
    rw [padDigits, ih]
    show _ = padDigits (k + 1) (n / 10) ++ _
    rw [padDigits]
    simp only [List.cons_append]
    congr 2
    rw [Nat.div_div_eq_div_mul, Nat.pow_succ, Nat.mul_comm]

theorem padDigits_allDigits (k n : Nat) : (padDigits k n).all isDigit = true := by
  induction k with
  | zero => rfl
  | succ k ih =>
    simp only [padDigits, List.all_cons, ih, Bool.and_true]
    exact isDigit_digitChar (Nat.mod_lt _ (by decide))

theorem decValue_padDigits (k n : Nat) : decValue (padDigits k n) = n % 10 ^ k := by
  induction k generalizing n with
  | zero => simp [padDigits, decValue, decFrom, Nat.mod_one]
  | succ k ih =>
    rw [padDigits_snoc, decValue_append, ih, decValue_singleton, digitVal_digitChar (Nat.mod_lt _ (by decide))]
    simp only [List.length_singleton, Nat.pow_one]
    have h := Nat.div_add_mod n 10
    have h2 : n % 10 ^ (k + 1) = (n / 10 % 10 ^ k) * 10 + n % 10 := by
      rw [Nat.pow_succ, Nat.mul_comm (10 ^ k) 10, Nat.mod_mul]
      omega
    omega

/-- adding a multiple of `10^k` does not change the `k` low digits. -/
theorem padDigits_add_mul (k n m : Nat) : padDigits k (n + m * 10 ^ k) = padDigits k n := by
  induction k generalizing n m with
  | zero => rfl
  | succ k ih =>
    rw [padDigits_snoc, padDigits_snoc]
    have e : n + m * 10 ^ (k + 1) = n + (m * 10 ^ k) * 10 := by rw [Nat.pow_succ, Nat.mul_assoc]
    rw [e, Nat.add_mul_div_right _ _ (by decide : 0 < 10), Nat.add_mul_mod_self_right, ih]

theorem padDigits_mul_ten (k n : Nat) : padDigits (k + 1) (n * 10) = padDigits k n ++ [c0] := by
  rw [padDigits_snoc, Nat.mul_div_cancel _ (by decide : 0 < 10), Nat.mul_mod_left]; rfl

theorem padDigits_mul_pow (k j n : Nat) : padDigits (k + j) (n * 10 ^ j) = padDigits k n ++ List.replicate j c0 := by
  induction j with
  | zero => simp
  | succ j ih =>
    rw [← Nat.add_assoc, Nat.pow_succ, ← Nat.mul_assoc, padDigits_mul_ten, ih, List.append_assoc]
    congr 1
    rw [List.replicate_succ']

/-! ### natDigits -/

theorem natDigits_lt {n : Nat} (h : n < 10) : natDigits n = [digitChar n] := by
  rw [natDigits]; simp [h]

theorem natDigits_ge {n : Nat} (h : 10 ≤ n) : natDigits n = natDigits (n / 10) ++ [digitChar (n % 10)] := by
  rw [natDigits]; simp [Nat.not_lt.mpr h]

/-- a number with exactly `k+1` digits prints as its `k+1` padded digits. -/
theorem natDigits_eq_pad (k n : Nat) (hlt : n < 10 ^ (k + 1)) (hge : k = 0 ∨ 10 ^ k ≤ n) :
    natDigits n = padDigits (k + 1) n := by
  induction k generalizing n with
  | zero =>
    have : n < 10 := by simpa using hlt
    rw [natDigits_lt this]; simp [padDigits, Nat.mod_eq_of_lt this]
  | succ k ih =>
    have hge' : 10 ^ (k + 1) ≤ n := by cases hge with
      | inl h => omega
      | inr h => exact h
    have h10 : 10 ≤ n := by
      have : 10 ^ 1 ≤ 10 ^ (k + 1) := Nat.pow_le_pow_right (by decide) (by omega)
      omega
    rw [natDigits_ge h10, padDigits_snoc]
    congr 1
    apply ih
    · rw [Nat.pow_succ] at hlt; omega
    · right; rw [Nat.pow_succ] at hge'; omega

/-- every number has some number of digits. -/
theorem exists_digits (n : Nat) : ∃ k, n < 10 ^ (k + 1) ∧ (k = 0 ∨ 10 ^ k ≤ n) := by
  induction n using Nat.strongRecOn with
  | _ n ih =>
    by_cases h : n < 10
    · exact ⟨0, by simpa using h, Or.inl rfl⟩
    · have hd : n / 10 < n := by omega
      obtain ⟨k, h1, h2⟩ := ih (n / 10) hd
      refine ⟨k + 1, ?_, Or.inr ?_⟩
      · rw [Nat.pow_succ]; omega
      · rw [Nat.pow_succ]
        cases h2 with
        | inl h0 => subst h0; simp; omega
        | inr h2 => omega

theorem natDigits_allDigits (n : Nat) : (natDigits n).all isDigit = true := by
  obtain ⟨k, h1, h2⟩ := exists_digits n
  rw [natDigits_eq_pad k n h1 h2]; exact padDigits_allDigits _ _

theorem decValue_natDigits (n : Nat) : decValue (natDigits n) = n := by
  obtain ⟨k, h1, h2⟩ := exists_digits n
  rw [natDigits_eq_pad k n h1 h2, decValue_padDigits, Nat.mod_eq_of_lt h1]

theorem natDigits_ne_nil (n : Nat) : natDigits n ≠ [] := by
  obtain ⟨k, h1, h2⟩ := exists_digits n
  rw [natDigits_eq_pad k n h1 h2, padDigits]; simp

end JsonV.Model.Time
