/-
C10 lemmas: jsonwire.ParseUint is exact (loop invariant `v = val mod 2^64`, the 20-digit overflow test).
-/
import JsonV.Model.Number
import JsonV.Spec.Ecma

namespace JsonV.Lemmas.NumParse
open JsonV JsonV.Model.Number JsonV.Spec.Ecma

theorem isDigit_eq (c : UInt8) : Model.Number.isDigit c = Spec.Ecma.isDigit c := rfl

theorem isDigit_iff (c : UInt8) : Spec.Ecma.isDigit c = true ↔ 48 ≤ c.toNat ∧ c.toNat ≤ 57 := by
  simp [Spec.Ecma.isDigit, UInt8.le_iff_toNat_le]

theorem unsafeWidth_eq : unsafeWidth = 20 := rfl

/-! ### value of a digit string -/

theorem foldl_val (t : Bytes) (a : Nat) :
    t.foldl (fun a c => 10 * a + (c.toNat - 48)) a = a * 10 ^ t.length + bytesVal t := by
  induction t generalizing a with
  | nil => simp [bytesVal]
  | cons c t ih =>
    simp only [List.foldl_cons, List.length_cons, bytesVal]
    rw [ih, ih (10 * 0 + (c.toNat - 48)), Nat.pow_succ]
    grind

theorem bytesVal_nil : bytesVal [] = 0 := rfl

theorem bytesVal_cons (c : UInt8) (t : Bytes) :
    bytesVal (c :: t) = (c.toNat - 48) * 10 ^ t.length + bytesVal t := by
  simp only [bytesVal, List.foldl_cons]
  rw [foldl_val]; simp [bytesVal]

theorem bytesVal_append (s t : Bytes) : bytesVal (s ++ t) = bytesVal s * 10 ^ t.length + bytesVal t := by
  simp only [bytesVal, List.foldl_append]
  rw [foldl_val]; rfl

theorem bytesVal_lt (b : Bytes) (h : ∀ c ∈ b, Spec.Ecma.isDigit c = true) : bytesVal b < 10 ^ b.length := by
  induction b with
  | nil => simp [bytesVal]
  | cons c t ih =>
    have hc := (isDigit_iff c).1 (h c (by simp))
    have ht := ih (fun x hx => h x (by simp [hx]))
    rw [bytesVal_cons, List.length_cons, Nat.pow_succ]
    have : (c.toNat - 48) * 10 ^ t.length ≤ 9 * 10 ^ t.length := Nat.mul_le_mul_right _ (by omega)
    omega

theorem decVal_eq (b : Bytes) : decVal b = bytesVal b := rfl

/-! ### the loop -/

/-- Loop invariant: after consuming an all-digit string the accumulator is the value mod 2^64. -/
theorem loop_digits (b : Bytes) (h : ∀ c ∈ b, Spec.Ecma.isDigit c = true) (n : Nat) (v : UInt64) :
    parseUintLoop b n v = (n + b.length, v * UInt64.ofNat (10 ^ b.length) + UInt64.ofNat (bytesVal b)) := by
  induction b generalizing n v with
  | nil => simp [parseUintLoop, bytesVal]
  | cons c t ih =>
    have hc : Model.Number.isDigit c = true := h c (by simp)
    have hc' := (isDigit_iff c).1 (h c (by simp))
    rw [parseUintLoop, if_pos hc, ih (fun x hx => h x (by simp [hx]))]
    have hd : (c - 48).toUInt64 = UInt64.ofNat (c.toNat - 48) := by
      apply UInt64.toNat_inj.1
      rw [UInt8.toNat_toUInt64, UInt8.toNat_sub_of_le _ _ (by simp [UInt8.le_iff_toNat_le]; omega)]
      simp [UInt64.toNat_ofNat']; omega
    rw [bytesVal_cons, List.length_cons, Nat.pow_succ, UInt64.ofNat_add, UInt64.ofNat_mul, UInt64.ofNat_mul, hd]
    congr 1
    · omega
    · have : UInt64.ofNat 10 = 10 := rfl
      rw [this]; grind

/-- The loop stops at the first non-digit: the count is the length of the digit prefix. -/
theorem loop_count (b : Bytes) (n : Nat) (v : UInt64) :
    (parseUintLoop b n v).1 = n + (b.takeWhile Spec.Ecma.isDigit).length := by
  induction b generalizing n v with
  | nil => simp [parseUintLoop]
  | cons c t ih =>
    rw [parseUintLoop]
    by_cases hc : Spec.Ecma.isDigit c = true
    · have hc' : Model.Number.isDigit c = true := hc
      rw [if_pos hc', ih, List.takeWhile_cons_of_pos hc]; simp; omega
    · have hc' : ¬ Model.Number.isDigit c = true := hc
      rw [if_neg hc', List.takeWhile_cons_of_neg hc]; simp

theorem takeWhile_length_eq (b : Bytes) (p : UInt8 → Bool) :
    (b.takeWhile p).length = b.length ↔ ∀ c ∈ b, p c = true := by
  induction b with
  | nil => simp
  | cons c t ih =>
    by_cases hc : p c = true
    · rw [List.takeWhile_cons_of_pos hc]; simp [ih, hc]
    · rw [List.takeWhile_cons_of_neg hc]; simp [hc]

/-! ### ParseUint -/

/-- Malformed input: `(0, false)`. -/
theorem parseUint_not_canonical (b : Bytes) (h : canonicalDecimal b = false) : parseUint b = (0, false) := by
  unfold parseUint
  have hn := loop_count b 0 0
  generalize parseUintLoop b 0 0 = r at hn
  obtain ⟨n, v⟩ := r
  simp only [Nat.zero_add] at hn
  subst hn
  simp only
  rw [if_pos]
  -- the first test of the switch fires
  simp only [canonicalDecimal, Bool.and_eq_false_iff, Bool.not_eq_false', Bool.or_eq_false_iff] at h
  simp only [Bool.or_eq_true, beq_iff_eq, bne_iff_ne, ne_eq, Bool.and_eq_true]
  rcases h with (h | h) | h
  · left; left; simp [List.isEmpty_iff.1 h]
  · left; right
    intro heq
    have := (takeWhile_length_eq b Spec.Ecma.isDigit).1 heq.symm
    rw [List.all_eq_false] at h
    obtain ⟨x, hx, hpx⟩ := h
    exact hpx (this x hx)
  · right
    simp at h
    exact ⟨by simp [h.1], h.2⟩

theorem pow_ge_20 (L : Nat) (h : 20 ≤ L) : 10 ^ 20 ≤ 10 ^ L := Nat.pow_le_pow_right (by decide) h

/-- The overflow test of the switch, for a canonical digit string `c :: t`, is exactly `2^64 ≤ value`. -/
theorem overflow_test (c : UInt8) (t : Bytes) (hdig : ∀ x ∈ c :: t, Spec.Ecma.isDigit x = true)
    (hc0 : t ≠ [] → c ≠ 48) :
    (decide (t.length + 1 ≥ 20) &&
      (some c != some (49 : UInt8) || decide (UInt64.ofNat (bytesVal (c :: t)) < 10000000000000000000) ||
        decide (t.length + 1 > 20))) = true ↔ 2 ^ 64 ≤ bytesVal (c :: t) := by
  have hc := (isDigit_iff c).1 (hdig c (by simp))
  have ht : bytesVal t < 10 ^ t.length := bytesVal_lt t (fun x hx => hdig x (by simp [hx]))
  have hv := bytesVal_cons c t
  have hvt : (UInt64.ofNat (bytesVal (c :: t))).toNat = bytesVal (c :: t) % 2 ^ 64 := UInt64.toNat_ofNat'
  generalize bytesVal (c :: t) = V at *
  simp only [Bool.and_eq_true, Bool.or_eq_true, decide_eq_true_eq, bne_iff_ne, ne_eq, Option.some.injEq,
    UInt64.lt_iff_toNat_lt, hvt]
  have h10 : (10000000000000000000 : UInt64).toNat = 10 ^ 19 := by decide
  rw [h10]
  by_cases hL : t.length + 1 < 20
  · have h2 : 10 ^ t.length ≤ 10 ^ 18 := Nat.pow_le_pow_right (by decide) (by omega)
    have : (c.toNat - 48) * 10 ^ t.length ≤ 9 * 10 ^ t.length := Nat.mul_le_mul_right _ (by omega)
    constructor
    · intro h; omega
    · intro h; omega
  · have htne : t ≠ [] := by intro e; subst e; simp at hL
    have hcn : c.toNat ≠ 48 := fun e => hc0 htne (UInt8.toNat_inj.1 (by simpa using e))
    by_cases hL2 : t.length + 1 = 20
    · have htl : t.length = 19 := by omega
      rw [htl] at hv ht
      by_cases hc1 : c = 49
      · subst hc1
        simp only [UInt8.reduceToNat] at hv
        constructor
        · rintro ⟨_, (h | h) | h⟩
          · exact absurd rfl h
          · omega
          · omega
        · intro h
          refine ⟨by omega, Or.inl (Or.inr ?_)⟩
          omega
      · have hcn1 : c.toNat ≠ 49 := fun e => hc1 (UInt8.toNat_inj.1 (by simpa using e))
        have : 2 * 10 ^ 19 ≤ (c.toNat - 48) * 10 ^ 19 := Nat.mul_le_mul_right _ (by omega)
        constructor
        · intro _; omega
        · intro _; exact ⟨by omega, Or.inl (Or.inl hc1)⟩
    · have hge : 10 ^ 20 ≤ 10 ^ t.length := pow_ge_20 _ (by omega)
      have : 1 * 10 ^ t.length ≤ (c.toNat - 48) * 10 ^ t.length := Nat.mul_le_mul_right _ (by omega)
      constructor
      · intro _; omega
      · intro _; exact ⟨by omega, Or.inr (by omega)⟩

/-- Canonical input: the value if it fits, else `(MaxUint64, false)`. -/
theorem parseUint_canonical (b : Bytes) (h : canonicalDecimal b = true) :
    parseUint b = if bytesVal b < 2 ^ 64 then (UInt64.ofNat (bytesVal b), true) else (maxUint64, false) := by
  simp only [canonicalDecimal, Bool.and_eq_true, Bool.not_eq_true', List.all_eq_true, Bool.or_eq_true,
    bne_iff_ne, ne_eq, beq_iff_eq] at h
  obtain ⟨⟨hne, hdig⟩, hlead⟩ := h
  unfold parseUint
  rw [loop_digits b hdig 0 0]
  simp only [Nat.zero_add, UInt64.zero_mul, UInt64.zero_add]
  cases b with
  | nil => simp at hne
  | cons c t =>
    have hc0 : t ≠ [] → c ≠ 48 := by
      intro htne hc48
      rcases hlead with hl | hl
      · exact hl (by simp [hc48])
      · simp at hl; exact htne hl.2
    have h1 : ¬ (((c :: t).length == 0 || (c :: t).length != (c :: t).length ||
        ((c :: t).head? == some (48 : UInt8) && c :: t != [48])) = true) := by
      simp only [List.length_cons, List.head?_cons]
      simp
      intro hc48
      refine ⟨hc48, ?_⟩
      apply Classical.byContradiction
      intro htne
      exact hc0 htne hc48
    have h2 : (decide ((c :: t).length ≥ 20) &&
      ((c :: t).head? != some (49 : UInt8) || decide (UInt64.ofNat (bytesVal (c :: t)) < 10000000000000000000) ||
        decide ((c :: t).length > 20))) = true ↔ 2 ^ 64 ≤ bytesVal (c :: t) := overflow_test c t hdig hc0
    rw [unsafeWidth_eq]
    by_cases hfit : bytesVal (c :: t) < 2 ^ 64
    · rw [if_neg h1, if_neg (fun hh => absurd (h2.1 hh) (by omega)), if_pos hfit]
    · rw [if_neg h1, if_pos (h2.2 (by omega)), if_neg hfit]

/-- jsonwire.ParseUint on every byte string. -/
theorem parseUint_exact (b : Bytes) :
    parseUint b =
      if canonicalDecimal b then
        (if bytesVal b < 2 ^ 64 then (UInt64.ofNat (bytesVal b), true) else (maxUint64, false))
      else (0, false) := by
  by_cases h : canonicalDecimal b = true
  · rw [if_pos h]; exact parseUint_canonical b h
  · rw [if_neg h]; exact parseUint_not_canonical b (by simpa using h)

end JsonV.Lemmas.NumParse
