/-
C03 helper lemmas: the two decoding routes agree (any cache history), `makeString` is transparent.
-/
import JsonV.Model.AnyDecode

namespace JsonV.Lemmas.MeaningRoutes
open JsonV JsonV.Spec.Meaning JsonV.Model.AnyDecode

theorem makeString_fst (c : Cache) (b : Bytes) : (makeString c b).1 = b := by
  unfold makeString
  split
  · rfl
  · dsimp only
    split
    · next h => exact h
    · rfl

/-- Forget the cache of a step result. -/
def strip {α : Type} : Res α → Except Err (α × Bytes)
  | .ok (v, r, _) => .ok (v, r)
  | .error e => .error e

@[simp] theorem strip_ok {α : Type} (v : α) (r : Bytes) (c : Cache) : strip (.ok (v, r, c) : Res α) = .ok (v, r) := rfl
@[simp] theorem strip_error {α : Type} (e : Err) : strip (.error e : Res α) = .error e := rfl

variable {F : Type} (fp : FloatParse F)



theorem lexNum_none_of_not_start (k : UInt8) (r : Bytes) (h : isNumStart k = false) : lexNum (k :: r) = none := by
  unfold isNumStart at h
  simp only [Bool.or_eq_false_iff, decide_eq_false_iff_not, Bool.and_eq_false_iff] at h
  obtain ⟨h1, h2⟩ := h
  unfold lexNum
  simp only [h1, if_false]
  have h30 : k ≠ 0x30 := by
    intro e; subst e; simp at h2
  simp only [h30, if_false]
  split
  · next h3 =>
    simp only [Bool.and_eq_true, decide_eq_true_eq] at h3
    have hk := h3.1
    have hk2 := h3.2
    rw [UInt8.le_iff_toNat_le] at hk hk2
    rcases h2 with h2 | h2
    · rw [UInt8.le_iff_toNat_le] at h2
      have : k.toNat ≠ 48 := fun e => h30 (UInt8.toNat_inj.mp (by simpa using e))
      simp at hk h2; omega
    · rw [UInt8.le_iff_toNat_le] at h2
      simp at hk2 h2; omega
  · rfl

/-- scalar step of the generic route = scalar step of the fast route (up to the cache) -/
theorem scalar_agree (opt : Bool) (fuel d : Nat) (c c' : Cache) (k : UInt8) (r : Bytes)
    (h7B : k ≠ 0x7B) (h5B : k ≠ 0x5B) :
    strip (genValue fp opt false (fuel+1) d c (k :: r)) = strip (fastValue fp (fuel+1) d c' (k :: r)) := by
  simp only [genValue, fastValue, h7B, h5B, if_false, Bool.false_eq_true, lexScalar]
  by_cases h1 : k = 0x6E
  · subst h1
    simp
    cases stripPrefix litNull (110 :: r) <;> simp
  · simp only [h1, if_false]
    by_cases h2 : k = 102
    · subst h2
      simp
      cases stripPrefix litFalse (102 :: r) <;> simp
    · by_cases h3 : k = 116
      · subst h3
        simp
        cases stripPrefix litTrue (116 :: r) <;> simp
      · simp only [h2, h3, if_false, decide_false, Bool.or_self, Bool.false_eq_true]
        by_cases h4 : k = 34
        · subst h4
          simp
          cases lexStr r with
          | none => simp
          | some p => obtain ⟨s, r'⟩ := p; simp [makeString_fst]
        · simp only [h4, if_false]
          cases h5 : isNumStart k
          · simp [lexNum_none_of_not_start k r h5]
          · simp
            cases lexNum (k :: r) with
            | none => simp
            | some p =>
              obtain ⟨l, r'⟩ := p
              simp
              cases fp l <;> simp

theorem strip_eq_ok {α : Type} {x y : Res α} {v : α} {r : Bytes} {c : Cache} (h : strip x = strip y) (hx : x = .ok (v, r, c)) :
    ∃ c', y = .ok (v, r, c') := by
  subst hx
  rcases y with e | ⟨v', r', c'⟩
  · simp [strip] at h
  · simp [strip] at h
    obtain ⟨h1, h2⟩ := h
    subst h1; subst h2
    exact ⟨c', rfl⟩

theorem strip_eq_error {α : Type} {x y : Res α} {e : Err} (h : strip x = strip y) (hx : x = .error e) :
    y = .error e := by
  subst hx
  rcases y with e' | ⟨v', r', c'⟩
  · simp [strip] at h; rw [h]
  · simp [strip] at h

/-- One more unit of fuel: the three statements at `fuel` give the member-loop statement at `fuel+1`. -/
theorem members_step (fuel : Nat)
    (ihV : ∀ (opt fo : Bool) (d : Nat) (c c' : Cache) (b : Bytes),
      strip (genValue fp opt fo fuel d c b) = strip (fastValue fp fuel d c' b))
    (ihM : ∀ (opt : Bool) (d : Nat) (m : List (Bytes × GoAny F)) (c c' : Cache) (b : Bytes),
      strip (genMembers fp opt fuel d m c b) = strip (fastMembers fp fuel d m c' b))
    (opt : Bool) (d : Nat) (m : List (Bytes × GoAny F)) (c c' : Cache) (b : Bytes) :
    strip (genMembers fp opt (fuel+1) d m c b) = strip (fastMembers fp (fuel+1) d m c' b) := by
  cases b with
  | nil => simp [genMembers, fastMembers]
  | cons k r =>
    simp only [genMembers, fastMembers, makeString_fst]
    by_cases hk : k = 0x22
    · simp only [hk, if_true]
      cases lexStr r with
      | none => simp
      | some p =>
        obtain ⟨name, r1⟩ := p
        simp only []
        by_cases hd : mapHas m name = true
        · simp [hd]
        · simp only [hd, if_false, Bool.false_eq_true]
          cases skipWs r1 with
          | nil => simp
          | cons k2 r2 =>
            simp only []
            by_cases h2 : k2 = 0x3A
            · simp only [h2, if_true]
              have hv := ihV opt opt d (makeString c name).2 c' (skipWs r2)
              cases hx : genValue fp opt opt fuel d (makeString c name).2 (skipWs r2) with
              | error e =>
                rw [strip_eq_error hv hx]
              | ok t =>
                obtain ⟨v, r3, c3⟩ := t
                obtain ⟨c3', hy⟩ := strip_eq_ok hv hx
                rw [hy]
                simp only []
                cases skipWs r3 with
                | nil => simp
                | cons k4 r4 =>
                  simp only []
                  by_cases h4 : k4 = 0x2C
                  · simp only [h4, if_true]
                    exact ihM opt d _ c3 c3' _
                  · simp only [h4, if_false]
                    by_cases h5 : k4 = 0x7D
                    · simp [h5]
                    · simp [h5]
            · simp [h2]
    · simp [hk]

theorem elems_step (fuel : Nat)
    (ihV : ∀ (opt fo : Bool) (d : Nat) (c c' : Cache) (b : Bytes),
      strip (genValue fp opt fo fuel d c b) = strip (fastValue fp fuel d c' b))
    (ihE : ∀ (opt : Bool) (d : Nat) (a : List (GoAny F)) (c c' : Cache) (b : Bytes),
      strip (genElems fp opt fuel d a c b) = strip (fastElems fp fuel d a c' b))
    (opt : Bool) (d : Nat) (a : List (GoAny F)) (c c' : Cache) (b : Bytes) :
    strip (genElems fp opt (fuel+1) d a c b) = strip (fastElems fp (fuel+1) d a c' b) := by
  simp only [genElems, fastElems]
  have hv := ihV opt opt d c c' b
  cases hx : genValue fp opt opt fuel d c b with
  | error e => rw [strip_eq_error hv hx]
  | ok t =>
    obtain ⟨v, r3, c3⟩ := t
    obtain ⟨c3', hy⟩ := strip_eq_ok hv hx
    rw [hy]
    simp only []
    cases skipWs r3 with
    | nil => simp
    | cons k4 r4 =>
      simp only []
      by_cases h4 : k4 = 0x2C
      · simp only [h4, if_true]
        exact ihE opt d _ c3 c3' _
      · simp only [h4, if_false]
        by_cases h5 : k4 = 0x5D
        · simp [h5]
        · simp [h5]

/-- The value statement at `fuel+1` for the generic dispatch (`fastOK = false`). -/
theorem value_step_generic (fuel : Nat)
    (ihM : ∀ (opt : Bool) (d : Nat) (m : List (Bytes × GoAny F)) (c c' : Cache) (b : Bytes),
      strip (genMembers fp opt fuel d m c b) = strip (fastMembers fp fuel d m c' b))
    (ihE : ∀ (opt : Bool) (d : Nat) (a : List (GoAny F)) (c c' : Cache) (b : Bytes),
      strip (genElems fp opt fuel d a c b) = strip (fastElems fp fuel d a c' b))
    (opt : Bool) (d : Nat) (c c' : Cache) (b : Bytes) :
    strip (genValue fp opt false (fuel+1) d c b) = strip (fastValue fp (fuel+1) d c' b) := by
  cases b with
  | nil => simp [genValue, fastValue]
  | cons k r =>
    by_cases h7 : k = 0x7B
    · subst h7
      simp only [genValue, fastValue]
      simp only [show ((0x7B : UInt8) = 0x6E) = False by decide, show ((0x7B : UInt8) = 0x22) = False by decide,
        show ((0x7B : UInt8) = 0x66) = False by decide, show ((0x7B : UInt8) = 0x74) = False by decide,
        show isNumStart 0x7B = false by decide, if_false, if_true, Bool.false_eq_true, decide_false, Bool.or_self]
      by_cases hd : d = maxDepth
      · simp [hd]
      · simp only [hd, if_false]
        cases skipWs r with
        | nil => simp
        | cons k' r' =>
          simp only []
          by_cases h7d : k' = 0x7D
          · simp [h7d]
          · simp only [h7d, if_false]
            have hm := ihM opt (d+1) [] c c' (k' :: r')
            cases hx : genMembers fp opt fuel (d+1) [] c (k' :: r') with
            | error e => rw [strip_eq_error hm hx]
            | ok t =>
              obtain ⟨ms, r2, c2⟩ := t
              obtain ⟨c2', hy⟩ := strip_eq_ok hm hx
              rw [hy]; simp
    · by_cases h5 : k = 0x5B
      · subst h5
        simp only [genValue, fastValue]
        simp only [show ((0x5B : UInt8) = 0x6E) = False by decide, show ((0x5B : UInt8) = 0x22) = False by decide,
          show ((0x5B : UInt8) = 0x66) = False by decide, show ((0x5B : UInt8) = 0x74) = False by decide,
          show ((0x5B : UInt8) = 0x7B) = False by decide,
          show isNumStart 0x5B = false by decide, if_false, if_true, Bool.false_eq_true, decide_false, Bool.or_self]
        by_cases hd : d = maxDepth
        · simp [hd]
        · simp only [hd, if_false]
          cases skipWs r with
          | nil => simp
          | cons k' r' =>
            simp only []
            by_cases h5d : k' = 0x5D
            · simp [h5d]
            · simp only [h5d, if_false]
              have hm := ihE opt (d+1) [] c c' (k' :: r')
              cases hx : genElems fp opt fuel (d+1) [] c (k' :: r') with
              | error e => rw [strip_eq_error hm hx]
              | ok t =>
                obtain ⟨ms, r2, c2⟩ := t
                obtain ⟨c2', hy⟩ := strip_eq_ok hm hx
                rw [hy]; simp
      · exact scalar_agree fp opt fuel d c c' k r h7 h5

theorem value_step (fuel : Nat)
    (ihM : ∀ (opt : Bool) (d : Nat) (m : List (Bytes × GoAny F)) (c c' : Cache) (b : Bytes),
      strip (genMembers fp opt fuel d m c b) = strip (fastMembers fp fuel d m c' b))
    (ihE : ∀ (opt : Bool) (d : Nat) (a : List (GoAny F)) (c c' : Cache) (b : Bytes),
      strip (genElems fp opt fuel d a c b) = strip (fastElems fp fuel d a c' b))
    (opt fo : Bool) (d : Nat) (c c' : Cache) (b : Bytes) :
    strip (genValue fp opt fo (fuel+1) d c b) = strip (fastValue fp (fuel+1) d c' b) := by
  cases fo with
  | false => exact value_step_generic fp fuel ihM ihE opt d c c' b
  | true =>
    cases b with
    | nil => simp [genValue, fastValue]
    | cons k r =>
      by_cases hk : k = 0x6E
      · have : genValue fp opt true (fuel+1) d c (k :: r) = genValue fp opt false (fuel+1) d c (k :: r) := by
          simp only [genValue, hk, if_true]
        rw [this]
        exact value_step_generic fp fuel ihM ihE opt d c c' (k :: r)
      · have : genValue fp opt true (fuel+1) d c (k :: r) = fastValue fp (fuel+1) d c (k :: r) := by
          simp only [genValue, hk, if_false, if_true]
        rw [this]
        exact (value_step_generic fp fuel ihM ihE opt d c c (k :: r)).symm.trans
          (value_step_generic fp fuel ihM ihE opt d c c' (k :: r))

/-- The generic machinery and the specialised decoder produce the same result and consume the same input,
for every input, every cache history on either side, every nesting depth and every amount of fuel. -/
theorem routes_agree_core (fuel : Nat) :
    (∀ (opt fo : Bool) (d : Nat) (c c' : Cache) (b : Bytes),
      strip (genValue fp opt fo fuel d c b) = strip (fastValue fp fuel d c' b)) ∧
    (∀ (opt : Bool) (d : Nat) (m : List (Bytes × GoAny F)) (c c' : Cache) (b : Bytes),
      strip (genMembers fp opt fuel d m c b) = strip (fastMembers fp fuel d m c' b)) ∧
    (∀ (opt : Bool) (d : Nat) (a : List (GoAny F)) (c c' : Cache) (b : Bytes),
      strip (genElems fp opt fuel d a c b) = strip (fastElems fp fuel d a c' b)) := by
  induction fuel with
  | zero =>
    refine ⟨?_, ?_, ?_⟩
    · intro opt fo d c c' b; simp [genValue, fastValue]
    · intro opt d m c c' b; simp [genMembers, fastMembers]
    · intro opt d a c c' b; simp [genElems, fastElems]
  | succ n ih =>
    obtain ⟨ihV, ihM, ihE⟩ := ih
    exact ⟨value_step fp n ihM ihE, members_step fp n ihV ihM, elems_step fp n ihV ihE⟩

theorem finish_congr {x y : Res (GoAny F)} (h : strip x = strip y) : finish x = finish y := by
  rcases x with e | ⟨v, r, c⟩
  · rw [strip_eq_error h rfl]
  · obtain ⟨c', hy⟩ := strip_eq_ok h rfl
    rw [hy]; rfl

end JsonV.Lemmas.MeaningRoutes
