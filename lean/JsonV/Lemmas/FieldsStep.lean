/-
Factorisation of the per-field body of `makeStructFields` (`processField`) into
  * a DECISION that depends only on the declaration and the per-struct locals
    (`decideField d lc : Action × first error × new locals`), and
  * its EFFECT on the search state (`applyAction qe i act`), four simple cases.
`processField_eq` shows the model's `processField` (which mirrors the Go closures `handleEmbed`/`handleField`)
is exactly `applyAction` of the decision.  All invariants of the search are then proved over `applyAction`,
and the link to the documented classification `Spec.FieldRule.kindOf` is a pure statement about `decideField`.
-/
import JsonV.Model.Fields
import JsonV.Spec.FieldRule

set_option linter.unusedSimpArgs false

namespace JsonV.Lemmas.Fields
open JsonV JsonV.Model JsonV.Model.Fields JsonV.Spec.FieldRule

/-- What one field does to the search. -/
inductive Action
  | skip
  | enqueue (t : StructId)
  | fallback (o : FieldOpts)
  | field (o : FieldOpts)
deriving Repr, DecidableEq

/-- `cmp.Or(serr, e)` on the error alone. -/
def orE (e n : Option Err) : Option Err :=
  match e with
  | some x => some x
  | none => n

theorem orErr_orErr (s : St) (a b : Option Err) : (s.orErr a).orErr b = s.orErr (orE a b) := by
  unfold St.orErr orE
  cases hs : s.err <;> cases a <;> simp [hs]

theorem orErr_none (s : St) : s.orErr none = s := by
  unfold St.orErr
  cases hs : s.err <;> simp
  cases s; simp_all

def applyAction (qe : QE) (i : Nat) (a : Action) (s : St) : St :=
  match a with
  | .skip => s
  | .enqueue t =>
    let s1 := if qe.visit then { s with queue := s.queue ++ [{ sid := t, index := qe.index ++ [i], visit := !s.seen.contains t }] } else s
    { s1 with seen := if s1.seen.contains t then s1.seen else t :: s1.seen }
  | .fallback o => { s with fbs := s.fbs ++ [{ id := 0, index := qe.index ++ [i], opts := o }] }
  | .field o =>
    { s with all := s.all ++ [{ id := s.all.length, index := qe.index ++ [i], opts := o }], errFormat := s.errFormat || o.format }

def decHandleField (d : FieldDecl) (o : FieldOpts) (e : Option Err) (lc : Local) : Action × Option Err × Local :=
  let blocked : Option Err :=
    if !d.exported then
      if !(d.anonymous && d.ty.structId?.isSome) then some .unexportedField
      else if d.methods || (o.omitzero && d.isZeroer) then some .unexportedMethods
      else none
    else none
  match blocked with
  | some b => (.skip, orE e (some b), lc)
  | none =>
    (.field o, (if lc.names.contains o.name then orE e (some .nameConflict) else e), { lc with names := o.name :: lc.names })

def decHandleEmbed (d : FieldDecl) (o : FieldOpts) (e : Option Err) (lc : Local) : Action × Option Err × Local :=
  if hasOtherOptions o && o.hasName then
    decHandleField d o (orE e (some .embedOtherOptions)) lc
  else
    let e := if hasOtherOptions o then orE e (some .embedOtherOptions) else e
    let o : FieldOpts := if hasOtherOptions o then { name := o.name, embed := o.embed } else o
    let e := if d.methods then orE e (some .embedMethods) else e
    match d.ty.structId? with
    | some t => (.enqueue t, e, lc)
    | none =>
      if !d.exported then (.skip, orE e (some .embedUnexported), lc)
      else
        match d.ty with
        | .fbValue | .fbMap =>
          (.fallback o, (if lc.hasFallback then orE e (some .multipleFallbacks) else e), { lc with hasFallback := true })
        | .fbMapBadKey => decHandleField d o (orE e (some .embedBadMapKey)) lc
        | _ => decHandleField d o (orE e (some .embedBadType)) lc

def decideField (d : FieldDecl) (lc : Local) : Action × Option Err × Local :=
  let lc := { lc with anyTag := lc.anyTag || d.hasTag }
  let po := parseOpts d
  let e := po.2.2
  if po.2.1 then (.skip, e, lc) else
  let lc := { lc with anyField := true }
  let o := po.1
  if d.anonymous && !o.hasName then
    if d.ty.structId?.isSome then decHandleEmbed d { o with embed := true } e lc
    else
      let e := orE e (some .embeddedNeedsName)
      if o.embed then decHandleEmbed d o e lc else decHandleField d o e lc
  else if o.embed then decHandleEmbed d o e lc
  else decHandleField d o e lc

/-- `blocked` of `handleField`. -/
def fieldBlocked (d : FieldDecl) (o : FieldOpts) : Option Err :=
  if !d.exported then
    if !(d.anonymous && d.ty.structId?.isSome) then some .unexportedField
    else if d.methods || (o.omitzero && d.isZeroer) then some .unexportedMethods
    else none
  else none

theorem handleField_eq (qe : QE) (i : Nat) (d : FieldDecl) (o : FieldOpts) (e : Option Err) (s : St) (lc : Local) :
    handleField d (qe.index ++ [i]) o (s.orErr e) lc =
      (applyAction qe i (decHandleField d o e lc).1 (s.orErr (decHandleField d o e lc).2.1), (decHandleField d o e lc).2.2) := by
  have h1 : handleField d (qe.index ++ [i]) o (s.orErr e) lc =
      match fieldBlocked d o with
      | some b => ((s.orErr e).orErr (some b), lc)
      | none =>
        let s1 := if lc.names.contains o.name then (s.orErr e).orErr (some .nameConflict) else s.orErr e
        ({ s1 with all := s1.all ++ [{ id := s1.all.length, index := qe.index ++ [i], opts := o }],
                   errFormat := s1.errFormat || o.format }, { lc with names := o.name :: lc.names }) := rfl
  have h2 : decHandleField d o e lc =
      match fieldBlocked d o with
      | some b => (.skip, orE e (some b), lc)
      | none => (.field o, (if lc.names.contains o.name then orE e (some .nameConflict) else e), { lc with names := o.name :: lc.names }) := rfl
  rw [h1, h2]
  cases fieldBlocked d o with
  | some b => simp [orErr_orErr, applyAction]
  | none =>
    dsimp only
    by_cases hc : o.name ∈ lc.names
    · simp [hc, orErr_orErr, applyAction]
    · simp [hc, applyAction]

theorem handleEmbed_eq (qe : QE) (i : Nat) (d : FieldDecl) (o : FieldOpts) (e : Option Err) (s : St) (lc : Local) :
    handleEmbed qe d (qe.index ++ [i]) o (s.orErr e) lc =
      (applyAction qe i (decHandleEmbed d o e lc).1 (s.orErr (decHandleEmbed d o e lc).2.1), (decHandleEmbed d o e lc).2.2) := by
  by_cases hc : (hasOtherOptions o && o.hasName) = true
  · simp only [handleEmbed, decHandleEmbed, hc, if_true, orErr_orErr]
    exact handleField_eq qe i d _ _ s lc
  · cases hst : d.ty.structId? with
    | some t =>
      cases hm : d.methods <;> cases ho : hasOtherOptions o <;> cases hn : o.hasName <;>
        first
        | (exfalso; simp [ho, hn] at hc; done)
        | simp [handleEmbed, decHandleEmbed, hst, hm, ho, hn, orErr_orErr, applyAction]
    | none =>
      by_cases hx : d.exported = true
      · cases hty : d.ty with
        | struct t => simp [TypeRef.structId?, hty] at hst
        | ptr t => simp [TypeRef.structId?, hty] at hst
        | fbValue =>
          cases hm : d.methods <;> cases ho : hasOtherOptions o <;> cases hn : o.hasName <;> cases hf : lc.hasFallback <;>
            first
            | (exfalso; simp [ho, hn] at hc; done)
            | simp [handleEmbed, decHandleEmbed, TypeRef.structId?, hst, hx, hty, hm, ho, hn, hf, orErr_orErr, applyAction]
        | fbMap =>
          cases hm : d.methods <;> cases ho : hasOtherOptions o <;> cases hn : o.hasName <;> cases hf : lc.hasFallback <;>
            first
            | (exfalso; simp [ho, hn] at hc; done)
            | simp [handleEmbed, decHandleEmbed, TypeRef.structId?, hst, hx, hty, hm, ho, hn, hf, orErr_orErr, applyAction]
        | fbMapBadKey =>
          cases hm : d.methods <;> cases ho : hasOtherOptions o <;> cases hn : o.hasName <;>
            first
            | (exfalso; simp [ho, hn] at hc; done)
            | (simp only [handleEmbed, decHandleEmbed, TypeRef.structId?, hst, hx, hty, hm, ho, hn, orErr_orErr, Bool.false_eq_true, if_false, if_true,
                Bool.not_true, Bool.not_false, Bool.and_true, Bool.and_false, Bool.true_and, Bool.false_and]
               exact handleField_eq qe i d _ _ s lc)
        | other =>
          cases hm : d.methods <;> cases ho : hasOtherOptions o <;> cases hn : o.hasName <;>
            first
            | (exfalso; simp [ho, hn] at hc; done)
            | (simp only [handleEmbed, decHandleEmbed, TypeRef.structId?, hst, hx, hty, hm, ho, hn, orErr_orErr, Bool.false_eq_true, if_false, if_true,
                Bool.not_true, Bool.not_false, Bool.and_true, Bool.and_false, Bool.true_and, Bool.false_and]
               exact handleField_eq qe i d _ _ s lc)
      · have hx' : d.exported = false := by simpa using hx
        cases hm : d.methods <;> cases ho : hasOtherOptions o <;> cases hn : o.hasName <;>
          first
          | (exfalso; simp [ho, hn] at hc; done)
          | simp [handleEmbed, decHandleEmbed, hst, hx', hm, ho, hn, orErr_orErr, applyAction]

theorem processField_eq (qe : QE) (i : Nat) (d : FieldDecl) (s : St) (lc : Local) :
    processField qe i d s lc =
      (applyAction qe i (decideField d lc).1 (s.orErr (decideField d lc).2.1), (decideField d lc).2.2) := by
  unfold processField decideField
  dsimp only
  split
  · simp [applyAction]
  · split
    · split
      · exact handleEmbed_eq qe i d _ _ s _
      · rw [orErr_orErr]
        split
        · exact handleEmbed_eq qe i d _ _ s _
        · exact handleField_eq qe i d _ _ s _
    · split
      · exact handleEmbed_eq qe i d _ _ s _
      · exact handleField_eq qe i d _ _ s _

end JsonV.Lemmas.Fields
